package rpc

import (
	"encoding/json"
	"fmt"
	"os"
	"path/filepath"
	"sort"
	"strings"
	"sync"
	"time"

	"verif/core"
)

// ---------------------------------------------------------------------------
// MC_RpcCalls configurations

type mcCfg struct {
	name     string
	calls    []int
	nc1      int
	workers  int
	memLimit int
	cuts     int
	proxy    int
	closes   int
	tmo      []int
	ff       []int
	cancel   []int
	outs     []string
	shutdown bool
	orphans  bool
	bodyDL   bool // the deviation BodyReadDeadline is enabled
}

func (m mcCfg) consts(gen bool) map[string]string {
	b := func(x bool) string {
		if x {
			return "TRUE"
		}
		return "FALSE"
	}
	return map[string]string{
		"CALLS": setLit(m.calls), "NC1": fmt.Sprint(m.nc1), "WORKERS": fmt.Sprint(m.workers), "MEMLIMIT": fmt.Sprint(m.memLimit),
		"CUTS": fmt.Sprint(m.cuts), "PROXY": fmt.Sprint(m.proxy), "CLOSES": fmt.Sprint(m.closes),
		"TMO": setLit(m.tmo), "FF": setLit(m.ff), "CANCEL": setLit(m.cancel), "OUTS": strSetLit(m.outs),
		"SHUTDOWN": b(m.shutdown), "ORPH": b(m.orphans), "GEN": b(gen), "BODYDL": b(m.bodyDL),
	}
}

var allOuts = []string{"ok", "rpcerr", "err", "tmo", "cancelled"}
var fewOuts = []string{"ok", "tmo", "cancelled"}

// every action of RpcCalls.tla; a run that relies on the model must have exercised each
var rpcActions = []string{"Invoke", "CtxCancel", "CtxDeadline", "SetupExpired", "SetupCall", "SendFromWriteQ",
	"CancelCall", "ReturnResult", "ReturnPending", "ClientRecv", "ConnDrop", "MassCancel", "ConnectFail", "Connect",
	"CliCloseBegin", "RecvHdr", "AcquireMem", "RecvAbort", "GetWorker", "HandlerEnter", "HandlerSkipExpired", "HandlerExit",
	"SendResponse", "ServerSend", "ServerSendLetsFin", "SrvConnStop", "OrphanRecv", "OrphanDrop", "SrvShutdown", "SrvCloseBegin",
	"Cut", "SetProxy", "BodyReadDeadline", "CliCloseDo", "CutDo", "ProxyDo", "SrvShutdownDo", "SrvCloseDo"}

// ---------------------------------------------------------------------------
// scenario shapes

type step struct {
	Op    string `json:"op"`
	ID    int    `json:"id,omitempty"`
	Cl    string `json:"cl,omitempty"`
	TmoMs int    `json:"tmoMs,omitempty"`
	FF    bool   `json:"ff,omitempty"`
	Out   string `json:"out,omitempty"`
	Side  string `json:"side,omitempty"`
	Mode  string `json:"mode,omitempty"`
}

type scenario struct {
	Name  string `json:"name"`
	Steps []step `json:"steps"`
	shape string
}

// shapeToScenario turns the visible history of a TLC behaviour into driver steps: steps the
// environment controls are executed in that order, steps of the implementation are awaited.
func shapeToScenario(name string, hist []event) (scenario, bool) {
	remap := map[int]int{}
	n1, n2 := 0, 0
	final := map[int]string{} // how the call ends in the behaviour
	for _, e := range hist {
		if e.str("ev") == "start" {
			id := e.num("id")
			if e.str("cl") == "c1" {
				n1++
				remap[id] = n1
			} else {
				n2++
				remap[id] = 3 + n2
			}
		}
		if e.str("ev") == "ret" {
			final[e.num("id")] = e.str("res")
		}
		if e.str("ev") == "exit" && e.str("out") == "tmo" {
			final[e.num("id")] = "tmo"
		}
	}
	if n1 > 3 || n2 > 3 || n1+n2 == 0 {
		return scenario{}, false
	}
	sc := scenario{Name: name}
	for _, e := range hist {
		id := remap[e.num("id")]
		switch e.str("ev") {
		case "start":
			st := step{Op: "start", ID: id, Cl: e.str("cl"), FF: e["ff"] == true}
			if e["tmo"] == true {
				st.TmoMs = 30000 // a deadline that does not fire during the scenario
				if f := final[e.num("id")]; f == "deadline" || f == "tmo" {
					st.TmoMs = 300
				}
			}
			sc.Steps = append(sc.Steps, st)
		case "cancel":
			sc.Steps = append(sc.Steps, step{Op: "cancel", ID: id})
		case "enter":
			sc.Steps = append(sc.Steps, step{Op: "waitenter", ID: id})
		case "exit":
			if o := e.str("out"); o == "tmo" || o == "cancelled" {
				sc.Steps = append(sc.Steps, step{Op: "waitexit", ID: id})
			} else {
				sc.Steps = append(sc.Steps, step{Op: "release", ID: id, Out: o})
			}
		case "ret":
			sc.Steps = append(sc.Steps, step{Op: "waitret", ID: id})
		case "close":
			sc.Steps = append(sc.Steps, step{Op: "close", Side: e.str("side")})
		case "shutdown":
			sc.Steps = append(sc.Steps, step{Op: "shutdown"})
		case "cut":
			sc.Steps = append(sc.Steps, step{Op: "cut", Cl: e.str("cl")})
		case "proxy":
			sc.Steps = append(sc.Steps, step{Op: "proxy", Cl: e.str("cl"), Mode: e.str("mode")})
		}
	}
	b, _ := json.Marshal(sc.Steps)
	sc.shape = string(b)
	return sc, true
}

// hand-written shapes that must always be present (each targets one critical section)
func fixedScenarios() []scenario {
	S := func(name string, st ...step) scenario { return scenario{Name: name, Steps: st} }
	start := func(id int, cl string) step { return step{Op: "start", ID: id, Cl: cl} }
	return []scenario{
		S("fixed/two-calls-swapped-release", start(1, "c1"), start(2, "c1"), step{Op: "waitenter", ID: 1}, step{Op: "waitenter", ID: 2},
			step{Op: "release", ID: 2, Out: "ok"}, step{Op: "waitret", ID: 2}, step{Op: "release", ID: 1, Out: "rpcerr"}, step{Op: "waitret", ID: 1}),
		S("fixed/cancel-sent-then-late-response", start(1, "c1"), step{Op: "waitenter", ID: 1}, step{Op: "cancel", ID: 1}, step{Op: "waitret", ID: 1},
			start(2, "c1"), step{Op: "waitenter", ID: 2}, step{Op: "release", ID: 1, Out: "ok"}, step{Op: "release", ID: 2, Out: "ok"}, step{Op: "waitret", ID: 2}),
		S("fixed/cancel-unsent-while-refused", step{Op: "proxy", Cl: "c1", Mode: "refuse"}, start(1, "c1"), step{Op: "waitproxy", Cl: "c1", ID: 1}, start(2, "c1"),
			step{Op: "cancel", ID: 1}, step{Op: "waitret", ID: 1}, step{Op: "proxy", Cl: "c1", Mode: "pass"},
			step{Op: "waitenter", ID: 2}, step{Op: "release", ID: 2, Out: "ok"}, step{Op: "waitret", ID: 2}),
		S("fixed/cancel-unsent-while-held", step{Op: "proxy", Cl: "c1", Mode: "hold"}, start(1, "c1"), step{Op: "waitproxy", Cl: "c1", ID: 1}, start(2, "c1"),
			step{Op: "cancel", ID: 1}, step{Op: "waitret", ID: 1}, start(3, "c1"), step{Op: "proxy", Cl: "c1", Mode: "pass"},
			step{Op: "waitenter", ID: 2}, step{Op: "waitenter", ID: 3}, step{Op: "release", ID: 2, Out: "ok"}, step{Op: "release", ID: 3, Out: "ok"},
			step{Op: "waitret", ID: 2}, step{Op: "waitret", ID: 3}),
		S("fixed/failfast-while-reconnecting", step{Op: "proxy", Cl: "c1", Mode: "refuse"}, start(1, "c1"), step{Op: "waitproxy", Cl: "c1", ID: 1},
			step{Op: "start", ID: 2, Cl: "c1", FF: true}, step{Op: "waitret", ID: 2}, step{Op: "proxy", Cl: "c1", Mode: "pass"},
			step{Op: "waitenter", ID: 1}, step{Op: "release", ID: 1, Out: "err"}, step{Op: "waitret", ID: 1}),
		S("fixed/cut-with-sent-and-reconnect", start(1, "c1"), start(4, "c2"), step{Op: "waitenter", ID: 1}, step{Op: "waitenter", ID: 4},
			step{Op: "cut", Cl: "c1"}, step{Op: "waitret", ID: 1}, start(2, "c1"), step{Op: "waitenter", ID: 2},
			step{Op: "release", ID: 2, Out: "ok"}, step{Op: "waitret", ID: 2}, step{Op: "release", ID: 4, Out: "ok"}, step{Op: "waitret", ID: 4}),
		S("fixed/client-close-with-pending", start(1, "c1"), start(2, "c1"), step{Op: "waitenter", ID: 1},
			step{Op: "close", Side: "c1"}, step{Op: "waitret", ID: 1}, step{Op: "waitret", ID: 2}, start(3, "c1"), step{Op: "waitret", ID: 3}),
		S("fixed/client-close-with-unsent", step{Op: "proxy", Cl: "c1", Mode: "refuse"}, start(1, "c1"), step{Op: "waitproxy", Cl: "c1", ID: 1},
			start(2, "c1"), step{Op: "close", Side: "c1"}, step{Op: "waitret", ID: 1}, step{Op: "waitret", ID: 2}),
		S("fixed/server-close-with-pending", start(1, "c1"), start(4, "c2"), step{Op: "waitenter", ID: 1}, step{Op: "waitenter", ID: 4},
			step{Op: "close", Side: "server"}, step{Op: "waitret", ID: 1}, step{Op: "waitret", ID: 4}),
		S("fixed/timeout-handler-held", step{Op: "start", ID: 1, Cl: "c1", TmoMs: 300}, step{Op: "waitenter", ID: 1},
			step{Op: "waitret", ID: 1}, step{Op: "waitexit", ID: 1}),
		S("fixed/shutdown-drains", start(1, "c1"), step{Op: "waitenter", ID: 1}, step{Op: "shutdown"}, start(2, "c1"),
			step{Op: "release", ID: 1, Out: "ok"}, step{Op: "waitret", ID: 1}, step{Op: "cancel", ID: 2}, step{Op: "waitret", ID: 2}),
	}
}

// ---------------------------------------------------------------------------

type batchResult struct {
	env       envCfg
	scenarios []scenario
	events    [][]event // per scenario
	diverged  int
	hung      map[int][]int // scenario index -> ids
	rpclog    map[int][]string
	race      [2]string
	crash     string // panic inside pkg/rpc that killed the driver
}

// runBatch executes the scenarios in one fresh driver process and returns the recorded events per scenario.
func runBatch(c *core.Ctx, drvPath string, env envCfg, scs []scenario, tag string) (*batchResult, error) {
	d, err := startDriver(drvPath, 10*time.Minute)
	if err != nil {
		return nil, err
	}
	defer d.p.Close()
	if env.Net == "unix" {
		env.Dir = sockDir(c)
	}
	out := filepath.Join(c.Scratch, "trace-"+tag+".ndjson")
	var resp struct {
		Error   string `json:"error"`
		Panic   string `json:"panic"`
		Results []struct {
			Name     string   `json:"name"`
			Events   int      `json:"events"`
			Diverged string   `json:"diverged"`
			Hung     []int    `json:"hung"`
			RpcLog   []string `json:"rpclog"`
		} `json:"results"`
	}
	res := &batchResult{env: env, scenarios: scs, hung: map[int][]int{}, rpclog: map[int][]string{}}
	err = d.p.Call(map[string]any{"op": "scenarios", "env": env, "scenarios": scs, "out": out, "stepWaitMs": 2000, "watchdogMs": 20000}, &resp)
	if err != nil {
		if line, ok := rpcPanic(err); ok {
			res.crash = line + "\n" + err.Error()
			return res, nil
		}
		return nil, err
	}
	if resp.Error != "" || resp.Panic != "" {
		return nil, fmt.Errorf("driver: %s%s", resp.Error, resp.Panic)
	}
	lines, err := readLines(out)
	if err != nil {
		return nil, err
	}
	evs, err := parseEvents(lines)
	if err != nil {
		return nil, err
	}
	cur := []event{}
	for _, e := range evs {
		if e.str("ev") == "reset" {
			res.events = append(res.events, cur)
			cur = []event{}
			continue
		}
		cur = append(cur, e)
	}
	res.events = append(res.events, cur)
	if len(res.events) != len(scs) {
		return nil, fmt.Errorf("driver returned %d scenario traces for %d scenarios", len(res.events), len(scs))
	}
	for i, r := range resp.Results {
		if r.Diverged != "" {
			res.diverged++
		}
		if len(r.Hung) > 0 {
			res.hung[i] = r.Hung
			res.rpclog[i] = r.RpcLog
		}
	}
	res.race[0], res.race[1] = d.raceReport()
	return res, nil
}

func joinScenarios(evs [][]event, skip map[int]bool) ([]byte, []int) {
	var all []event
	var idx []int // scenario index of every line
	first := true
	for i, s := range evs {
		if skip[i] {
			continue
		}
		if !first {
			all = append(all, event{"ev": "reset"})
			idx = append(idx, i)
		}
		first = false
		for _, e := range s {
			all = append(all, e)
			idx = append(idx, i)
		}
	}
	return toNDJSON(all), idx
}

type c38State struct {
	mu        sync.Mutex
	raceStat  map[string]int
	resCount  map[string]int
	evCount   map[string]int
	accepted  int
	rejected  []string
	unrepro   []string
	diverged  int
	scenarios int
}

// validateBatch validates the traces of a batch; a rejected scenario is localised, re-run
// in a fresh driver and reported only if the fresh trace is rejected as well.
func validateBatch(c *core.Ctx, st *c38State, drvPath string, br *batchResult) error {
	consts := traceConsts(br.env.MaxWorkers, br.events)
	skip := map[int]bool{}
	for i := range br.hung {
		skip[i] = true // judged separately (no "end" event)
	}
	for round := 0; round < 6; round++ {
		trace, idx := joinScenarios(br.events, skip)
		if len(idx) == 0 {
			return nil
		}
		v, err := validateTrace(c, "TraceRpcCalls", "TraceRpcCalls.cfg", consts, trace, nil)
		if err != nil {
			return err
		}
		c.Add("states", v.States)
		c.Add("transitions", v.Gen)
		c.Logf("trace validation %s: %d scenarios, %d events, %d states, accepted=%v", br.env.name(), len(br.events)-len(skip), v.Total, v.States, v.OK)
		if v.InvError != "" {
			return fmt.Errorf("a model invariant failed while explaining a recorded trace (spec error?):\n%s", v.InvError)
		}
		if v.OK {
			n := 0
			for i := range br.events {
				if !skip[i] {
					n++
				}
			}
			st.mu.Lock()
			st.accepted += n
			st.mu.Unlock()
			c.Add("traces_validated_against_impl", n)
			c.Add("trace_events_validated", v.Total)
			return nil
		}
		// localise: first unexplained event
		bad := idx[v.Matched]
		lines := strings.Split(strings.TrimSpace(string(trace)), "\n")
		what := fmt.Sprintf("scenario %s on %s: recorded trace is not a behaviour of RpcCalls; first unexplained event: %s",
			br.scenarios[bad].Name, br.env.name(), lines[v.Matched])
		c.Logf("trace rejected: %s", what)
		// reproduce in a fresh process (up to 3 attempts: the schedule is not fully controlled)
		reproduced := false
		var reproTrace []event
		for attempt := 0; attempt < 3 && !reproduced; attempt++ {
			rb, err := runBatch(c, drvPath, br.env, []scenario{br.scenarios[bad]}, fmt.Sprintf("repro-%s-%d-%d", br.env.name(), bad, attempt))
			if err != nil {
				return err
			}
			if rb.crash != "" || len(rb.hung) > 0 {
				reproduced, reproTrace = true, rb.events[0]
				break
			}
			tr, _ := joinScenarios(rb.events, nil)
			rv, err := validateTrace(c, "TraceRpcCalls", "TraceRpcCalls.cfg", traceConsts(br.env.MaxWorkers, rb.events), tr, nil)
			if err != nil {
				return err
			}
			if !rv.OK {
				reproduced, reproTrace = true, rb.events[0]
			}
		}
		key := fmt.Sprintf("trace/%s/%s", br.scenarios[bad].Name, eventClass(lines[v.Matched]))
		if reproduced {
			c.Violate(key, what, map[string]any{"env": br.env, "scenario": br.scenarios[bad], "trace": br.events[bad], "repro_trace": reproTrace})
			st.mu.Lock()
			st.rejected = append(st.rejected, key)
			st.mu.Unlock()
		} else {
			st.mu.Lock()
			st.unrepro = append(st.unrepro, what)
			st.mu.Unlock()
		}
		skip[bad] = true
	}
	return fmt.Errorf("more than 6 rejected scenarios in one batch (%s): giving up", br.env.name())
}

// traceConsts: the trace specification is instantiated with the server's MaxWorkers and
// with exactly the call ids that occur (1..3 belong to c1, 4..6 to c2).
func traceConsts(workers int, evs [][]event) map[string]string {
	ids := map[int]bool{1: true}
	for _, s := range evs {
		for _, e := range s {
			if id := e.num("id"); id >= 1 && id <= 6 {
				ids[id] = true
			}
		}
	}
	var l []int
	for id := range ids {
		l = append(l, id)
	}
	sort.Ints(l)
	return map[string]string{"WORKERS": fmt.Sprint(workers), "IDS": setLit(l)}
}

// splitBatch cuts a batch into units of at most n scenarios (scenarios with few call ids
// first, so that their units get a small CallIds constant).
func splitBatch(br *batchResult, n int) []*batchResult {
	idx := make([]int, len(br.scenarios))
	maxID := make([]int, len(br.scenarios))
	for i := range idx {
		idx[i] = i
		for _, e := range br.events[i] {
			id := e.num("id")
			if id == 4 {
				id = 3
			} else if id > 4 {
				id = 6
			}
			if id > maxID[i] {
				maxID[i] = id
			}
		}
	}
	sort.SliceStable(idx, func(a, b int) bool { return maxID[idx[a]] < maxID[idx[b]] })
	var out []*batchResult
	for k := 0; k < len(idx); k += n {
		u := &batchResult{env: br.env, hung: map[int][]int{}, rpclog: map[int][]string{}}
		for _, i := range idx[k:min(k+n, len(idx))] {
			if h, ok := br.hung[i]; ok {
				u.hung[len(u.scenarios)] = h
				u.rpclog[len(u.scenarios)] = br.rpclog[i]
			}
			u.scenarios = append(u.scenarios, br.scenarios[i])
			u.events = append(u.events, br.events[i])
		}
		out = append(out, u)
	}
	return out
}

func eventClass(line string) string {
	var e event
	_ = json.Unmarshal([]byte(line), &e)
	s := e.str("ev")
	for _, k := range []string{"res", "out", "side"} {
		if v := e.str(k); v != "" {
			s += "-" + v
		}
	}
	return s
}

func (st *c38State) count(evs [][]event) {
	st.mu.Lock()
	defer st.mu.Unlock()
	for _, s := range evs {
		for _, e := range s {
			st.evCount[e.str("ev")]++
			if e.str("ev") == "ret" {
				st.resCount[e.str("res")]++
			}
		}
	}
}

// ---------------------------------------------------------------------------

func runC38(c *core.Ctx) error {
	st := &c38State{resCount: map[string]int{}, evCount: map[string]int{}, raceStat: map[string]int{}}
	if c.Replay != "" {
		return replayC38(c)
	}

	// 0. driver (with -race) is built while TLC works on the model
	var drvPath string
	var buildErr error
	buildDone := make(chan struct{})
	go func() { drvPath, buildErr = buildDriver(c); close(buildDone) }()

	// 1. exhaustive model checking of the design-level properties
	mcs := []mcCfg{
		{name: "one-conn-cancel-timeout", calls: []int{1, 2}, nc1: 2, workers: 1, memLimit: 1, tmo: []int{2}, cancel: []int{1}, outs: fewOuts, orphans: true},
		{name: "one-call-close", calls: []int{1}, nc1: 1, workers: 1, memLimit: 1, closes: 1, cancel: []int{1}, outs: []string{"ok", "cancelled"}, orphans: true},
		{name: "two-clients-memory-wait-deadline", calls: []int{1, 2}, nc1: 1, workers: 1, memLimit: 1, outs: []string{"ok", "cancelled"}, orphans: true, bodyDL: true},
		{name: "one-call-cut", calls: []int{1}, nc1: 1, workers: 1, memLimit: 1, cuts: 1, tmo: []int{1}, ff: []int{1}, cancel: []int{1}, outs: fewOuts, orphans: true},
		{name: "one-conn-proxy-failfast", calls: []int{1, 2}, nc1: 2, workers: 1, memLimit: 1, proxy: 2, ff: []int{2}, outs: []string{"ok", "cancelled"}, orphans: true},
		{name: "one-conn-shutdown", calls: []int{1, 2}, nc1: 2, workers: 1, memLimit: 1, cancel: []int{1}, outs: []string{"ok", "cancelled"}, shutdown: true, orphans: true},
	}
	if c.Thorough() {
		mcs = append(mcs,
			mcCfg{name: "two-clients-contention-close", calls: []int{1, 2}, nc1: 1, workers: 1, memLimit: 1, closes: 1, outs: []string{"ok", "cancelled"}, orphans: true},
			mcCfg{name: "one-call-closes-timeout", calls: []int{1}, nc1: 1, workers: 1, memLimit: 1, closes: 2, tmo: []int{1}, cancel: []int{1}, outs: fewOuts, orphans: true},
			mcCfg{name: "one-conn-faults", calls: []int{1, 2}, nc1: 2, workers: 1, memLimit: 1, cuts: 1, proxy: 2, ff: []int{2}, cancel: []int{1}, outs: []string{"ok", "cancelled"}, orphans: true},
			mcCfg{name: "two-clients-close-cancel", calls: []int{1, 2}, nc1: 1, workers: 1, memLimit: 1, closes: 1, cancel: []int{1}, outs: []string{"ok", "cancelled"}, orphans: true},
			mcCfg{name: "three-calls", calls: []int{1, 2, 3}, nc1: 2, workers: 1, memLimit: 2, closes: 1, outs: []string{"ok", "cancelled"}, orphans: false},
		)
	}
	cover := map[string]int{}
	var cmu sync.Mutex
	var jobs []func() error
	// development switch (mutation experiments): skips the exhaustive model checking and shrinks
	// the workload; such a run never yields "held" (it ends inconclusive unless it found a violation)
	devNoMC := os.Getenv("VERIF_RPC_DEV") != ""
	devFast := os.Getenv("VERIF_RPC_DEV") == "fast"
	if devNoMC {
		mcs = nil
	}
	for _, m := range mcs {
		m := m
		jobs = append(jobs, func() error {
			r, err := c.MustTLC(core.TLCOpts{Module: "MC_RpcCalls", Cfg: "MC_RpcCalls.cfg", Consts: m.consts(false), Workers: c.Pick(3, 4),
				Coverage: len(m.calls) < 3 && m.name != "one-conn-faults", Timeout: 16 * time.Minute})
			if err != nil {
				return fmt.Errorf("MC_RpcCalls/%s: %v", m.name, err)
			}
			c.Add("states", r.Distinct)
			c.Add("transitions", r.Generated)
			c.Logf("TLC MC_RpcCalls/%s: %d distinct states, depth %d, %v", m.name, r.Distinct, r.Depth, r.Wall)
			cmu.Lock()
			for k, v := range r.ActionCover { // wrappers I<Action> / V<Action> of MC_RpcCalls
				if len(k) > 1 && (k[0] == 'I' || k[0] == 'V') {
					cover[k[1:]] += v
				}
			}
			cmu.Unlock()
			c.Set("mc_"+m.name+"_states", r.Distinct)
			return nil
		})
	}
	// liveness: after Close of either side pending (sent) calls return
	live := mcCfg{name: "liveness", calls: []int{1}, nc1: 1, workers: 1, memLimit: 1, closes: 1, cancel: []int{1}, tmo: []int{}, outs: []string{"ok", "cancelled"}, orphans: false}
	if c.Thorough() {
		live = mcCfg{name: "liveness", calls: []int{1, 2}, nc1: 2, workers: 1, memLimit: 1, closes: 1, outs: []string{"ok", "cancelled"}, orphans: false}
	}
	jobs = append(jobs, func() error {
		r, err := c.MustTLC(core.TLCOpts{Module: "MC_RpcCalls", Cfg: "MC_RpcCallsLive.cfg", Consts: live.consts(false), Workers: 4, Timeout: 14 * time.Minute})
		if err != nil {
			return fmt.Errorf("MC_RpcCalls liveness: %v", err)
		}
		c.Add("states", r.Distinct)
		c.Add("transitions", r.Generated)
		c.Set("mc_liveness_states", r.Distinct)
		c.Logf("TLC MC_RpcCalls liveness (ClientCloseReturnsAll, ServerCloseReturnsSent): %d distinct states, %v", r.Distinct, r.Wall)
		return nil
	})

	// 2. scenario shapes: TLC simulation of MC_RpcCalls in generator mode
	profiles := []mcCfg{
		{name: "calm", calls: []int{1, 2, 3}, nc1: 2, workers: 1, memLimit: 3, tmo: []int{2}, cancel: []int{1, 3}, outs: []string{"ok", "rpcerr", "err", "tmo"}, orphans: true},
		{name: "calm2", calls: []int{1, 2, 3, 4}, nc1: 2, workers: 2, memLimit: 4, tmo: []int{4}, cancel: []int{2}, outs: []string{"ok", "rpcerr", "err", "tmo"}, orphans: true},
		{name: "close", calls: []int{1, 2, 3}, nc1: 2, workers: 2, memLimit: 3, closes: 1, tmo: []int{3}, cancel: []int{1}, outs: allOuts, orphans: true},
		{name: "cut", calls: []int{1, 2, 3}, nc1: 2, workers: 1, memLimit: 3, cuts: 1, cancel: []int{2}, outs: allOuts, orphans: true},
		{name: "proxy", calls: []int{1, 2, 3}, nc1: 3, workers: 2, memLimit: 3, proxy: 2, ff: []int{2, 3}, cancel: []int{1}, outs: allOuts, orphans: true},
		{name: "shutdown", calls: []int{1, 2, 3}, nc1: 2, workers: 2, memLimit: 3, closes: 1, cancel: []int{1, 2}, outs: allOuts, shutdown: true, orphans: true},
	}
	perProfile := c.Pick(3, 30)
	if devFast {
		perProfile = 2
	}
	shapes := make([][]scenario, len(profiles))
	for pi, p := range profiles {
		pi, p := pi, p
		jobs = append(jobs, func() error {
			seen := map[string]bool{}
			n := 0
			_, err := c.MustTLC(core.TLCOpts{Module: "MC_RpcCalls", Cfg: "MC_RpcCalls.cfg", Consts: p.consts(true), Workers: 1,
				Simulate: fmt.Sprintf("num=%d", perProfile*3), Depth: 70, Seed: c.Seed*131 + int64(pi), Timeout: 6 * time.Minute,
				OnEmit: func(raw json.RawMessage) {
					var h struct {
						Hist []event `json:"hist"`
					}
					if json.Unmarshal(raw, &h) != nil || len(h.Hist) < 3 {
						return
					}
					sc, ok := shapeToScenario(fmt.Sprintf("tlc/%s/%d", p.name, n), h.Hist)
					if !ok || seen[sc.shape] || len(shapes[pi]) >= perProfile {
						return
					}
					seen[sc.shape] = true
					n++
					shapes[pi] = append(shapes[pi], sc)
				}})
			if err != nil {
				return fmt.Errorf("MC_RpcCalls generator/%s: %v", p.name, err)
			}
			return nil
		})
	}
	if err := parallel(4, jobs); err != nil {
		return err
	}
	c.Set("model_action_coverage_states_generated", cover)
	var missing []string
	for _, a := range rpcActions {
		if cover[a] == 0 {
			missing = append(missing, a)
		}
	}
	if len(missing) > 0 && !devNoMC {
		return fmt.Errorf("vacuous model checking: actions never taken: %v", missing)
	}
	<-buildDone
	if buildErr != nil {
		return buildErr
	}

	// 3. replay the shapes on real clients and servers; 4 environments in parallel
	envs := []envCfg{
		{Net: "tcp4", Key: "", MaxWorkers: 1},
		{Net: "tcp4", Key: cryptoKey, MaxWorkers: 2},
		{Net: "unix", Key: "", MaxWorkers: 2, Dir: c.Scratch},
		{Net: "unix", Key: cryptoKey, MaxWorkers: 1, Dir: c.Scratch},
	}
	perEnv := make([][]scenario, len(envs))
	k := 0
	nShapes := 0
	for pi := range profiles {
		c.Set("shapes_"+profiles[pi].name, len(shapes[pi]))
		nShapes += len(shapes[pi])
		for _, sc := range shapes[pi] {
			// shapes generated with W workers go to an environment with the same MaxWorkers
			for tries := 0; tries < len(envs); tries++ {
				e := (k + tries) % len(envs)
				if envs[e].MaxWorkers == profiles[pi].workers {
					perEnv[e] = append(perEnv[e], sc)
					k = e + 1
					break
				}
			}
		}
	}
	if nShapes < 12 && !devFast {
		return fmt.Errorf("vacuous: TLC generated only %d scenario shapes", nShapes)
	}
	for e := range envs {
		if e%2 == 0 || c.Thorough() {
			perEnv[e] = append(perEnv[e], fixedScenarios()...)
		}
	}
	results := make([]*batchResult, len(envs))
	jobs = nil
	for e := range envs {
		e := e
		jobs = append(jobs, func() error {
			br, err := runBatch(c, drvPath, envs[e], perEnv[e], envs[e].name())
			if err != nil {
				return err
			}
			results[e] = br
			if br.crash == "" {
				st.count(br.events)
			}
			return nil
		})
	}
	if err := parallel(4, jobs); err != nil {
		return err
	}
	c.Logf("scenarios executed on %d environments", len(envs))
	jobs = nil
	for _, br := range results {
		if br.crash != "" {
			continue
		}
		for _, u := range splitBatch(br, 8) {
			u := u
			jobs = append(jobs, func() error { return validateBatch(c, st, drvPath, u) })
		}
	}
	if err := parallel(6, jobs); err != nil {
		return err
	}
	for e, br := range results {
		st.scenarios += len(perEnv[e])
		st.diverged += br.diverged
		if err := judgeBatchFaults(c, drvPath, br); err != nil {
			return err
		}
	}

	// 4. seeded random mixes of many concurrent calls, validated per call (projection)
	if err := runMixes(c, st, drvPath); err != nil {
		return err
	}

	// 5. binding self-test: a corrupted trace must be rejected
	if err := selfTestC38(c, results); err != nil {
		return err
	}

	c.Set("scenarios_run", st.scenarios)
	c.Set("scenarios_diverged_from_shape", st.diverged)
	c.Set("impl_results_by_class", st.resCount)
	c.Set("deadline_race_results_by_class", st.raceStat)
	if len(st.rejected) == 0 && c.NViolations() == 0 && (st.raceStat["ok"] == 0 || st.raceStat["deadline"]+st.raceStat["cancel"] == 0 || st.raceStat["follow-ok"] == 0) {
		return fmt.Errorf("vacuous: the deadline sweep did not produce both timely and late responses (%v)", st.raceStat)
	}
	c.Set("impl_events_by_kind", st.evCount)
	c.Set("traces_rejected", st.rejected)
	c.Set("evaluations", st.accepted)
	c.Set("distinct_nontrivial", nShapes)
	c.Set("rule", "TLC checks RpcCalls exhaustively (safety + liveness after Close); behaviours sampled by TLC give scenario shapes that are forced on real rpc.Client/rpc.Server (TCP/Unix, plain/AES) with handler gates and a fault-injecting proxy; every recorded trace must be a behaviour of RpcCalls (TLC, TraceRpcCalls); seeded random mixes are validated per call; data races are decided by the Go race detector, not by the spec")
	c.Assume("the identity of a response with Timeout error code cannot be read from its content; it is attributed to the call that received it")
	c.Assume("random mixes are validated call by call (projection on one call plus the global close/cut events); cross-call properties are validated on the TLC-shaped scenarios (<= 6 calls)")
	c.Assume("absence of data races is decided by the Go race detector on the executed schedules (driver built with -race)")
	for _, need := range []string{"ok", "rpcerr", "err", "cancel", "deadline", "closedSE", "closedNoSE", "clientClosed"} {
		if st.resCount[need] == 0 {
			return fmt.Errorf("vacuous: no call ended with result class %q (classes seen: %v)", need, st.resCount)
		}
	}
	if st.diverged*3 > st.scenarios*2 {
		return fmt.Errorf("%d of %d scenarios diverged from their TLC shape: forcing is ineffective", st.diverged, st.scenarios)
	}
	if devNoMC {
		return fmt.Errorf("development mode (VERIF_RPC_DEV): not a verdict")
	}
	if len(st.unrepro) > 0 {
		return fmt.Errorf("%d trace rejection(s) were not reproduced in a fresh process (inconclusive): %s", len(st.unrepro), st.unrepro[0])
	}
	return nil
}

// judgeBatchFaults handles data races, driver crashes inside pkg/rpc and hung calls of a batch.
func judgeBatchFaults(c *core.Ctx, drvPath string, br *batchResult) error {
	if br.crash != "" {
		// reproduce: run the whole batch once more in a fresh process
		rb, err := runBatch(c, drvPath, br.env, br.scenarios, "crash-repro-"+br.env.name())
		if err != nil {
			return err
		}
		if rb.crash == "" {
			return fmt.Errorf("driver died with a panic inside pkg/rpc, not reproduced: %s", br.crash)
		}
		first := strings.SplitN(br.crash, "\n", 2)[0]
		c.Violate("crash/"+first, "pkg/rpc panicked during a legal use of client and server (calls cannot complete): "+br.crash,
			map[string]any{"env": br.env, "scenarios": br.scenarios})
		return nil
	}
	if br.race[0] != "" {
		rb, err := runBatch(c, drvPath, br.env, br.scenarios, "race-repro-"+br.env.name())
		if err != nil {
			return err
		}
		if rb.race[0] == "" {
			return fmt.Errorf("race detector report not reproduced in a second run (inconclusive):\n%s", br.race[1])
		}
		c.Violate(br.race[0], "the Go race detector (not the specification) reports a data race while client and server run the scenario batch:\n"+br.race[1],
			map[string]any{"env": br.env, "scenarios": br.scenarios, "report": br.race[1]})
	}
	idxs := make([]int, 0, len(br.hung))
	for i := range br.hung {
		idxs = append(idxs, i)
	}
	sort.Ints(idxs)
	for _, i := range idxs {
		rb, err := runBatch(c, drvPath, br.env, []scenario{br.scenarios[i]}, fmt.Sprintf("hung-repro-%s-%d", br.env.name(), i))
		if err != nil {
			return err
		}
		if len(rb.hung) == 0 {
			return fmt.Errorf("scenario %s: calls %v did not return within the watchdog after Close, not reproduced (inconclusive)", br.scenarios[i].Name, br.hung[i])
		}
		c.Violate("hung/"+br.scenarios[i].Name, fmt.Sprintf("after Close of both sides calls %v never returned (watchdog 20 s, reproduced in a fresh process); rpc log: %v",
			br.hung[i], br.rpclog[i]), map[string]any{"env": br.env, "scenario": br.scenarios[i], "trace": br.events[i]})
	}
	return nil
}

// ---------------------------------------------------------------------------
// random mixes

type mixResp struct {
	Error     string         `json:"error"`
	Panic     string         `json:"panic"`
	Events    int            `json:"events"`
	Calls     int            `json:"calls"`
	Hung      []int          `json:"hung"`
	RpcLog    []string       `json:"rpclog"`
	Stat      map[string]int `json:"stat"`          // op race: results by class
	BaseLatUs int            `json:"baseLatencyUs"` // op race: measured round-trip latency
}

// runMix runs one seeded driver operation of the mix family (op "mix" or "race") in a fresh process.
func runMix(c *core.Ctx, drvPath, op string, env envCfg, seed int64, params map[string]any, tag string) (evs []event, resp mixResp, race [2]string, crash string, err error) {
	d, err := startDriver(drvPath, 5*time.Minute)
	if err != nil {
		return nil, resp, race, "", err
	}
	defer d.p.Close()
	if env.Net == "unix" {
		env.Dir = sockDir(c)
	}
	out := filepath.Join(c.Scratch, op+"-"+tag+".ndjson")
	err = d.p.Call(map[string]any{"op": op, "env": env, "seed": seed, op: params, "out": out, "watchdogMs": 20000}, &resp)
	if err != nil {
		if line, ok := rpcPanic(err); ok {
			return nil, resp, race, line + "\n" + err.Error(), nil
		}
		return nil, resp, race, "", err
	}
	if resp.Error != "" || resp.Panic != "" {
		return nil, resp, race, "", fmt.Errorf("driver %s: %s%s", op, resp.Error, resp.Panic)
	}
	lines, err := readLines(out)
	if err != nil {
		return nil, resp, race, "", err
	}
	evs, err = parseEvents(lines)
	race[0], race[1] = d.raceReport()
	return evs, resp, race, "", err
}

// projectMix builds, for every call of a mix, the trace of that call alone plus the global events.
func projectMix(evs []event) (trace []byte, ncalls int, owners map[int]string) {
	owners = map[int]string{}
	var ids []int
	for _, e := range evs {
		if e.str("ev") == "start" {
			owners[e.num("id")] = e.str("cl")
			ids = append(ids, e.num("id"))
		}
	}
	var all []event
	for n, id := range ids {
		cl := owners[id]
		nid := 1
		if cl == "c2" {
			nid = 4
		}
		if n > 0 {
			all = append(all, event{"ev": "reset"})
		}
		for _, e := range evs {
			ev := e.str("ev")
			switch ev {
			case "start", "cancel", "enter", "exit", "ret":
				if e.num("id") != id {
					continue
				}
				ne := event{}
				for k, v := range e {
					ne[k] = v
				}
				ne["id"] = nid
				if ev == "ret" && e.num("got") == id {
					ne["got"] = nid
				} else if ev == "ret" && e.num("got") != 0 {
					ne["got"] = 6 // somebody else's payload
				}
				all = append(all, ne)
			case "cut", "proxy":
				if e.str("cl") == cl {
					all = append(all, e)
				}
			case "close", "closed":
				if s := e.str("side"); s == "server" || s == cl {
					all = append(all, e)
				}
			case "end":
				all = append(all, e)
			default: // badreq, hung, ...: no action of the specification explains them
				all = append(all, e)
			}
		}
	}
	return toNDJSON(all), len(ids), owners
}

type mixJob struct {
	op     string // driver op: mix | race
	env    envCfg
	params map[string]any
}

// keyClass is the part of a violation key that must recur for a finding to count as reproduced
// (the panic text or the first unexplained event of a racy failure may differ between runs).
func keyClass(key string) string {
	if i := strings.IndexByte(key, '/'); i > 0 {
		return key[:i]
	}
	return key
}

const confirmRuns = 8 // a schedule-dependent failure is re-run up to this many times

func runMixes(c *core.Ctx, st *c38State, drvPath string) error {
	calls := c.Pick(8, 40)
	mixes := []mixJob{
		{"mix", envCfg{Net: "tcp4", MaxWorkers: 2}, map[string]any{"calls": calls, "cut": true}},
		{"mix", envCfg{Net: "unix", Key: cryptoKey, MaxWorkers: 3}, map[string]any{"calls": calls, "closeSrv": true}},
		{"mix", envCfg{Net: "tcp4", Key: cryptoKey, MaxWorkers: 2}, map[string]any{"calls": calls, "closeCli": true, "cut": true}},
		{"mix", envCfg{Net: "unix", MaxWorkers: 1}, map[string]any{"calls": calls}},
	}
	if c.Thorough() {
		for i := 0; i < 4; i++ {
			m := mixes[i%4]
			mixes = append(mixes, mixJob{"mix", m.env, m.params})
		}
	} else {
		// quick: two of the four mixes, chosen by the seed
		k := int(c.Seed) % 4
		mixes = []mixJob{mixes[k], mixes[(k+1)%4]}
	}
	// Timeout / Cancel racing with the delivery of the call's own response, then follow-up calls
	// that reuse the pooled call contexts: deadlines swept around the measured handler latency
	races := []mixJob{
		{"race", envCfg{Net: "tcp4", MaxWorkers: 4}, map[string]any{"goroutines": c.Pick(3, 4), "calls": c.Pick(60, 150), "follow": c.Pick(15, 40), "cancelPct": 20}},
	}
	if c.Thorough() {
		races = append(races,
			mixJob{"race", envCfg{Net: "unix", Key: cryptoKey, MaxWorkers: 2}, map[string]any{"goroutines": 4, "calls": 150, "follow": 40, "cancelPct": 20}},
			mixJob{"race", envCfg{Net: "tcp4", Key: cryptoKey, MaxWorkers: 8}, map[string]any{"goroutines": 6, "calls": 100, "follow": 30, "cancelPct": 50}})
	}
	mixes = append(mixes, races...)
	var jobs []func() error
	for i, m := range mixes {
		i, m := i, m
		jobs = append(jobs, func() error {
			seed := c.Seed*1000 + int64(i)
			// judge runs the operation once; key != "" describes a failure, race a race detector report
			judge := func(tag string) (key string, replay any, evs []event, race [2]string, err error) {
				evs, resp, race, crash, err := runMix(c, drvPath, m.op, m.env, seed, m.params, tag)
				if err != nil {
					return "", nil, nil, race, err
				}
				if crash != "" {
					return "crash/" + strings.SplitN(crash, "\n", 2)[0], crash, nil, race, nil
				}
				if len(resp.Hung) > 0 {
					return "hung/" + m.op, map[string]any{"hung": resp.Hung, "rpclog": resp.RpcLog}, evs, race, nil
				}
				trace, n, _ := projectMix(evs)
				v, err := validateTrace(c, "TraceRpcCalls", "TraceRpcCalls.cfg", map[string]string{"WORKERS": "8", "IDS": "{1, 4}"}, trace, nil)
				if err != nil {
					return "", nil, nil, race, err
				}
				c.Add("states", v.States)
				c.Add("transitions", v.Gen)
				if v.InvError != "" {
					return "", nil, nil, race, fmt.Errorf("model invariant failed on a projected %s trace:\n%s", m.op, v.InvError)
				}
				if !v.OK {
					lines := strings.Split(strings.TrimSpace(string(trace)), "\n")
					return m.op + "/" + eventClass(lines[v.Matched]), map[string]any{"first_unexplained_event": lines[v.Matched], "matched": v.Matched}, evs, race, nil
				}
				c.Add("traces_validated_against_impl", n)
				c.Add("trace_events_validated", v.Total)
				c.Add(m.op+"_calls", n)
				if m.op == "race" {
					st.mu.Lock()
					for k, v := range resp.Stat {
						st.raceStat[k] += v
					}
					st.mu.Unlock()
				}
				return "", nil, evs, race, nil
			}
			tag := fmt.Sprintf("%d-%s", i, m.env.name())
			key, replay, evs, race, err := judge(tag)
			if err != nil {
				return err
			}
			if evs != nil {
				st.count([][]event{evs})
			}
			if key == "" && race[0] == "" {
				if i == 0 {
					c.Sample(map[string]any{"mix_env": m.env, "mix_events": len(evs), "first_events": evs[:min(8, len(evs))]})
				}
				return nil
			}
			// Such a failure depends on the schedule: the same operation (same seed) is re-run in fresh
			// processes up to confirmRuns times; it is reported as soon as a failure of the same class recurs.
			first := key
			if first == "" {
				first = race[0]
			}
			for attempt := 1; attempt <= confirmRuns; attempt++ {
				key2, replay2, _, race2, err := judge(fmt.Sprintf("%s-repro%d", tag, attempt))
				if err != nil {
					return err
				}
				if key != "" && key2 != "" && keyClass(key2) == keyClass(key) {
					c.Violate(key, fmt.Sprintf("%s on %s (seed %d): the recorded history of one call is not a behaviour of RpcCalls / calls hung / pkg/rpc panicked (recurred in re-run %d with key %s): %v",
						m.op, m.env.name(), seed, attempt, key2, replay),
						map[string]any{"op": m.op, "env": m.env, "seed": seed, m.op: m.params, "detail": replay, "detail_rerun": replay2, "key_rerun": key2})
					return nil
				}
				if race[0] != "" && race2[0] != "" {
					c.Violate(race[0], "the Go race detector (not the specification) reports a data race during "+m.op+" (recurred in a re-run):\n"+race[1],
						map[string]any{"op": m.op, "env": m.env, "seed": seed, m.op: m.params, "report": race[1], "report_rerun": race2[1]})
					return nil
				}
			}
			st.mu.Lock()
			st.unrepro = append(st.unrepro, fmt.Sprintf("%s %s seed %d: %s (did not recur in %d re-runs)", m.op, m.env.name(), seed, first, confirmRuns))
			st.mu.Unlock()
			return nil
		})
	}
	return parallel(4, jobs)
}

// ---------------------------------------------------------------------------

func selfTestC38(c *core.Ctx, results []*batchResult) error {
	for _, br := range results {
		if br == nil || br.crash != "" {
			continue
		}
		for si, evs := range br.events {
			if _, h := br.hung[si]; h {
				continue
			}
			// corrupt: the first successful return carries another call's payload
			for i, e := range evs {
				if e.str("ev") == "ret" && e.str("res") == "ok" {
					bad := make([]event, len(evs))
					copy(bad, evs)
					ne := event{}
					for k, v := range e {
						ne[k] = v
					}
					ne["got"] = e.num("id")%6 + 1
					bad[i] = ne
					v, err := validateTrace(c, "TraceRpcCalls", "TraceRpcCalls.cfg", map[string]string{"WORKERS": fmt.Sprint(br.env.MaxWorkers), "IDS": "{1, 2, 3, 4, 5, 6}"}, toNDJSON(bad), nil)
					if err != nil {
						return err
					}
					if v.OK {
						return fmt.Errorf("binding self-test failed: a trace with a swapped response was accepted")
					}
					// corrupt: the call returns twice
					dup := append(append([]event{}, evs[:i+1]...), evs[i:]...)
					v, err = validateTrace(c, "TraceRpcCalls", "TraceRpcCalls.cfg", map[string]string{"WORKERS": fmt.Sprint(br.env.MaxWorkers), "IDS": "{1, 2, 3, 4, 5, 6}"}, toNDJSON(dup), nil)
					if err != nil {
						return err
					}
					if v.OK {
						return fmt.Errorf("binding self-test failed: a trace with a duplicated return was accepted")
					}
					c.Set("selftest_swapped_response_rejected", true)
					c.Set("selftest_double_return_rejected", true)
					c.Sample(map[string]any{"scenario": br.scenarios[si].Name, "env": br.env.name(), "trace": evs})
					return nil
				}
			}
		}
	}
	return fmt.Errorf("binding self-test impossible: no recorded trace with a successful return")
}

// replayC38 re-runs a saved violation (scenario or mix) and reports whether it still fails.
func replayC38(c *core.Ctx) error {
	var rf struct {
		Key    string `json:"key"`
		Replay struct {
			Op        string         `json:"op"`
			Env       envCfg         `json:"env"`
			Scenario  *scenario      `json:"scenario"`
			Scenarios []scenario     `json:"scenarios"`
			Seed      int64          `json:"seed"`
			Mix       map[string]any `json:"mix"`
			Race      map[string]any `json:"race"`
		} `json:"replay"`
	}
	b, err := readLines(c.Replay)
	if err != nil {
		return err
	}
	if err := json.Unmarshal([]byte(strings.Join(b, "\n")), &rf); err != nil {
		return err
	}
	drvPath, err := buildDriver(c)
	if err != nil {
		return err
	}
	env := rf.Replay.Env
	if env.Net == "unix" {
		env.Dir = c.Scratch
	}
	st := &c38State{resCount: map[string]int{}, evCount: map[string]int{}, raceStat: map[string]int{}}
	if rf.Replay.Op == "mix" || rf.Replay.Op == "race" {
		params := rf.Replay.Mix
		if rf.Replay.Op == "race" {
			params = rf.Replay.Race
		}
		evs, resp, race, crash, err := runMix(c, drvPath, rf.Replay.Op, env, rf.Replay.Seed, params, "replay")
		if err != nil {
			return err
		}
		if crash != "" || len(resp.Hung) > 0 || race[0] != "" {
			c.Violate(rf.Key, "replayed mix fails again: "+crash+race[1], nil)
			return nil
		}
		trace, n, _ := projectMix(evs)
		v, err := validateTrace(c, "TraceRpcCalls", "TraceRpcCalls.cfg", map[string]string{"WORKERS": "8", "IDS": "{1, 4}"}, trace, nil)
		if err != nil {
			return err
		}
		c.Add("states", v.States)
		c.Add("transitions", v.Gen)
		if !v.OK {
			c.Violate(rf.Key, "replayed mix: a call's history is not a behaviour of RpcCalls", nil)
		} else {
			c.Add("traces_validated_against_impl", n)
		}
		return nil
	}
	scs := rf.Replay.Scenarios
	if rf.Replay.Scenario != nil {
		scs = []scenario{*rf.Replay.Scenario}
	}
	if len(scs) == 0 {
		return fmt.Errorf("replay file has no scenario")
	}
	br, err := runBatch(c, drvPath, env, scs, "replay")
	if err != nil {
		return err
	}
	if err := judgeBatchFaults(c, drvPath, br); err != nil {
		return err
	}
	if br.crash == "" {
		if err := validateBatch(c, st, drvPath, br); err != nil {
			return err
		}
	}
	c.Sample(map[string]any{"replayed": scs[0].Name, "events": br.events})
	return nil
}
