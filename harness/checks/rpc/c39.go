package rpc

import (
	"encoding/json"
	"fmt"
	"os"
	"path/filepath"
	"strings"
	"sync"
	"time"

	"verif/core"
)

const (
	miB          = 1 << 20
	maxPacketLen = 16*miB - 1 // ServerWithRequestMemoryLimit clamps to at least this
)

type burstCfg struct {
	name     string
	env      envCfg
	conns    int
	calls    int   // per connection
	sizes    []int // request body sizes (cycled)
	cap      int   // number of handlers that can be admitted at once (what the model says)
	memSpec  int   // MemLimit of the trace specification (bytes)
	bufSpec  int   // BufSize of the trace specification (bytes)
	mcSlots  int   // MemLimit of the MC_RpcCalls run that establishes the invariants (units)
	bigFirst bool  // requests larger than RequestBufSize are issued (and admitted) first
	holdMs   int   // probe: keep the handlers held this long after the pile-up
	// releaseAll: all held handlers are released at once, round after round (several workers come
	// back to the pool while several receive loops wait for one)
	releaseAll bool
	// abortWait: a connection waiting for request memory is abandoned and torn down while it waits
	abortWait bool
}

type burstResp struct {
	Error      string   `json:"error"`
	Panic      string   `json:"panic"`
	Calls      int      `json:"calls"`
	Peak       int      `json:"peak"`
	Limit      int64    `json:"limit"`
	MaxWorkers int      `json:"maxWorkers"`
	Piled      bool     `json:"piled"`
	Events     int      `json:"events"`
	Hung       []int    `json:"hung"`
	RpcLog     []string `json:"rpclog"`
	Aborted    bool     `json:"aborted"`
}

// runBurst: crash != "" when the driver died from a panic inside pkg/rpc.
func runBurst(c *core.Ctx, drvPath string, b burstCfg, seed int64, tag string) (evs []event, resp burstResp, race string, crash string, err error) {
	d, err := startDriver(drvPath, 5*time.Minute)
	if err != nil {
		return nil, resp, "", "", err
	}
	defer d.p.Close()
	env := b.env
	if env.Net == "unix" {
		env.Dir = sockDir(c)
	}
	out := filepath.Join(c.Scratch, "burst-"+tag+".ndjson")
	err = d.p.Call(map[string]any{"op": "burst", "env": env, "seed": seed, "out": out, "watchdogMs": 30000,
		"burst": map[string]any{"conns": b.conns, "calls": b.calls, "sizes": b.sizes, "cap": b.cap, "bigFirst": b.bigFirst, "holdMs": b.holdMs,
			"releaseAll": b.releaseAll, "abortWait": b.abortWait}}, &resp)
	if err != nil {
		if line, ok := rpcPanic(err); ok {
			return nil, resp, "", line + "\n" + err.Error(), nil
		}
		return nil, resp, "", "", err
	}
	if resp.Error != "" || resp.Panic != "" {
		return nil, resp, "", "", fmt.Errorf("driver burst: %s%s", resp.Error, resp.Panic)
	}
	lines, err := readLines(out)
	if err != nil {
		return nil, resp, "", "", err
	}
	evs, err = parseEvents(lines)
	_, race = d.raceReport()
	return evs, resp, race, "", err
}

func (b burstCfg) consts() map[string]string {
	return map[string]string{"WORKERS": fmt.Sprint(b.env.MaxWorkers), "MEMLIMIT": fmt.Sprint(b.memSpec),
		"BUFSIZE": fmt.Sprint(b.bufSpec), "CONNS": fmt.Sprint(b.conns)}
}

func runC39(c *core.Ctx) error {
	var drvPath string
	var buildErr error
	buildDone := make(chan struct{})
	go func() { drvPath, buildErr = buildDriver(c); close(buildDone) }()

	const defLimit = 256 * miB // DefaultRequestMemoryLimit
	const defBuf = 4096        // DefaultServerRequestBufSize
	small := []int{100, 2000, 50000, 16, 300000}
	// Requests that may have to wait for request memory stay small: their bodies are then already
	// in the connection's read buffer when memory is granted, so that the deviation
	// BodyReadDeadline (RpcCalls.tla) cannot hit them however slow the machine is.
	tiny := []int{100, 2000, 8, 16, 4000}
	n := c.Pick(5, 12)
	bursts := []burstCfg{
		{name: "workers-1", env: envCfg{Net: "tcp4", MaxWorkers: 1}, conns: 3, calls: n, sizes: small, cap: 1, memSpec: defLimit, bufSpec: defBuf, mcSlots: 3},
		{name: "workers-2", env: envCfg{Net: "unix", Key: cryptoKey, MaxWorkers: 2}, conns: 3, calls: n, sizes: small, cap: 2, memSpec: defLimit, bufSpec: defBuf, mcSlots: 3},
		{name: "workers-3", env: envCfg{Net: "tcp4", Key: cryptoKey, MaxWorkers: 3}, conns: 4, calls: n, sizes: small, cap: 3, memSpec: defLimit, bufSpec: defBuf, mcSlots: 3},
		// request memory: the limit clamps to 16 MiB - 1; with RequestBufSize = 6 MiB every request takes 6 MiB: 2 slots for 8 workers
		{name: "memory-6MiB-slots-2", env: envCfg{Net: "tcp4", MaxWorkers: 8, BufSize: 6 * miB, MemLimit: 1}, conns: 4, calls: c.Pick(3, 6), sizes: tiny, cap: 2,
			memSpec: maxPacketLen, bufSpec: 6 * miB, mcSlots: 2},
		// RequestBufSize = 4 MiB: 3 slots (4 x 4 MiB would exceed 16 MiB - 1); two requests of 5 MiB take their own
		// length (they are issued first): 5 + 5 + 4 MiB fit, a fourth request must wait
		{name: "memory-4MiB-mixed", env: envCfg{Net: "unix", MaxWorkers: 8, BufSize: 4 * miB, MemLimit: 1}, conns: 4, calls: 3,
			sizes: []int{5 * miB, 100, 2000, 16, 4000, 8, 5 * miB, 300, 100, 2000, 16, 4000}, cap: 3,
			memSpec: maxPacketLen, bufSpec: 4 * miB, mcSlots: 3, bigFirst: true},
		// worker contention: many connections wait for a worker and all held handlers are released at the same
		// moment, round after round, so that a freed worker is competed for by a woken waiter and a fresh Get
		{name: "workers-2-contention", env: envCfg{Net: "tcp4", MaxWorkers: 2}, conns: 8, calls: c.Pick(6, 12), sizes: []int{16, 100, 2000}, cap: 2,
			memSpec: defLimit, bufSpec: defBuf, mcSlots: 3, releaseAll: true},
		{name: "workers-3-contention", env: envCfg{Net: "unix", MaxWorkers: 3}, conns: 8, calls: c.Pick(6, 12), sizes: []int{16, 100, 2000}, cap: 3,
			memSpec: defLimit, bufSpec: defBuf, mcSlots: 3, releaseAll: true},
		// aborted memory wait: 2 handlers hold the 2 memory slots, the requests of two more connections wait; the
		// client of one of them is closed and the server tears that connection down (Unix socket: Shutdown's
		// write fails at once) while the memory is still held; the other request must keep waiting
		{name: "memory-wait-aborted", env: envCfg{Net: "unix", MaxWorkers: 8, BufSize: 6 * miB, MemLimit: 1}, conns: 4, calls: 1, sizes: []int{100}, cap: 2,
			memSpec: maxPacketLen, bufSpec: 6 * miB, mcSlots: 2, abortWait: true},
	}
	if c.Thorough() {
		bursts = append(bursts,
			burstCfg{name: "workers-0-inline", env: envCfg{Net: "tcp4", MaxWorkers: 0}, conns: 3, calls: n, sizes: small, cap: 3, memSpec: defLimit, bufSpec: defBuf, mcSlots: 3},
			burstCfg{name: "memory-20MiB-slots-3", env: envCfg{Net: "tcp4", Key: cryptoKey, MaxWorkers: 8, BufSize: 6 * miB, MemLimit: 20 * miB}, conns: 5, calls: 5, sizes: tiny, cap: 3,
				memSpec: 20 * miB, bufSpec: 6 * miB, mcSlots: 3},
			burstCfg{name: "workers-2-memory-slots-2", env: envCfg{Net: "unix", Key: cryptoKey, MaxWorkers: 2, BufSize: 7 * miB, MemLimit: 1}, conns: 4, calls: 5, sizes: tiny, cap: 2,
				memSpec: maxPacketLen, bufSpec: 7 * miB, mcSlots: 2},
		)
	}

	// --replay: only the burst of the saved violation is run again
	if c.Replay != "" {
		var rf struct {
			Replay struct {
				Burst string `json:"burst"`
			} `json:"replay"`
		}
		lines, err := readLines(c.Replay)
		if err != nil {
			return err
		}
		if err := json.Unmarshal([]byte(strings.Join(lines, "\n")), &rf); err != nil {
			return err
		}
		var keep []burstCfg
		for _, b := range bursts {
			if b.name == rf.Replay.Burst {
				keep = append(keep, b)
			}
		}
		if len(keep) == 0 && rf.Replay.Burst != "memory-wait-exceeds-read-deadline" {
			return fmt.Errorf("replay: unknown burst %q", rf.Replay.Burst)
		}
		bursts = keep
		if rf.Replay.Burst == "memory-wait-exceeds-read-deadline" {
			os.Setenv("VERIF_RPC_PROBE", "bodydeadline")
		}
	}

	// Opt-in probe (VERIF_RPC_PROBE=bodydeadline) of the deviation BodyReadDeadline: two handlers are held
	// for 12.5 s while a 300 KB request of a third connection waits for request memory.  "Excess load
	// waits" requires it to be served afterwards; the code drops it together with its connection
	// (reported to the lead as a discrepancy; not part of the default run because it needs a 12.5 s wall-clock wait).
	if os.Getenv("VERIF_RPC_PROBE") == "bodydeadline" {
		bursts = []burstCfg{{name: "memory-wait-exceeds-read-deadline", env: envCfg{Net: "tcp4", MaxWorkers: 8, BufSize: 6 * miB, MemLimit: 1}, conns: 3, calls: 1,
			sizes: []int{100, 100, 300000}, cap: 2, memSpec: maxPacketLen, bufSpec: 6 * miB, mcSlots: 2, holdMs: 12500}}
	}

	// 1. TLC: the invariants WorkerBound / MemBound / WaitingNotDropped of RpcCalls for every
	// (MaxWorkers, memory slots) pair used below; the model is small (3 calls, no faults)
	type pair struct{ w, m int }
	seen := map[pair]bool{}
	var jobs []func() error
	for _, b := range bursts {
		p := pair{b.env.MaxWorkers, b.mcSlots}
		if p.w > 3 {
			p.w = 3
		}
		if seen[p] {
			continue
		}
		seen[p] = true
		jobs = append(jobs, func() error {
			m := mcCfg{name: fmt.Sprintf("limits-w%d-m%d", p.w, p.m), calls: []int{1, 2, 3}, nc1: 2, workers: p.w, memLimit: p.m, outs: []string{"ok"}, orphans: true}
			r, err := c.MustTLC(core.TLCOpts{Module: "MC_RpcCalls", Cfg: "MC_RpcCalls.cfg", Consts: m.consts(false), Workers: 2, Timeout: 8 * time.Minute})
			if err != nil {
				return fmt.Errorf("MC_RpcCalls/%s: %v", m.name, err)
			}
			c.Add("states", r.Distinct)
			c.Add("transitions", r.Generated)
			c.Set("mc_"+m.name+"_states", r.Distinct)
			return nil
		})
	}
	// one configuration with a close, so that waiting requests of a stopped connection are covered
	jobs = append(jobs, func() error {
		m := mcCfg{name: "limits-close", calls: []int{1, 2}, nc1: 1, workers: 1, memLimit: 1, closes: 1, outs: []string{"ok", "cancelled"}, orphans: true}
		r, err := c.MustTLC(core.TLCOpts{Module: "MC_RpcCalls", Cfg: "MC_RpcCalls.cfg", Consts: m.consts(false), Workers: 3, Coverage: true, Timeout: 8 * time.Minute})
		if err != nil {
			return fmt.Errorf("MC_RpcCalls/%s: %v", m.name, err)
		}
		c.Add("states", r.Distinct)
		c.Add("transitions", r.Generated)
		c.Set("mc_"+m.name+"_states", r.Distinct)
		cov := map[string]int{}
		for _, a := range []string{"IAcquireMem", "IGetWorker", "VHandlerEnter", "VHandlerExit", "ISendResponse", "IRecvHdr", "IRecvAbort"} {
			cov[a[1:]] = r.ActionCover[a]
			if r.ActionCover[a] == 0 {
				return fmt.Errorf("vacuous: action %s never taken in MC_RpcCalls/%s", a[1:], m.name)
			}
		}
		c.Set("model_action_coverage_states_generated", cov)
		return nil
	})
	if err := parallel(4, jobs); err != nil {
		return err
	}
	<-buildDone
	if buildErr != nil {
		return buildErr
	}

	// 2. bursts against the real server, validated by TLC against the projection TraceRpcLimits
	peaks := map[string]any{}
	var firstTrace []event
	var firstCfg burstCfg
	type tracedBurst struct {
		evs []event
		cfg burstCfg
	}
	var traced []tracedBurst
	var bmu sync.Mutex
	var bjobs []func() error
	for bi, b := range bursts {
		bi, b := bi, b
		bjobs = append(bjobs, func() error {
			seed := c.Seed*100 + int64(bi)
			judge := func(tag string) (key, what string, evs []event, resp burstResp, err error) {
				evs, resp, race, crash, err := runBurst(c, drvPath, b, seed, tag)
				if err != nil {
					return "", "", nil, resp, err
				}
				if crash != "" {
					return "burst/" + b.name + "/crash", "pkg/rpc panicked during the burst: " + crash, nil, resp, nil
				}
				if race != "" {
					return "", "", nil, resp, fmt.Errorf("race detector report during a burst (C38 decides about races):\n%s", race)
				}
				if len(resp.Hung) > 0 {
					return "burst/" + b.name + "/hung", fmt.Sprintf("requests %v of the burst were never answered (watchdog 30 s); rpc log %v", resp.Hung, resp.RpcLog), evs, resp, nil
				}
				v, err := validateTraceBFS(c, "TraceRpcLimits", "TraceRpcLimits.cfg", b.consts(), toNDJSON(evs))
				if err != nil {
					return "", "", nil, resp, err
				}
				c.Add("states", v.States)
				c.Add("transitions", v.Gen)
				if !v.OK {
					bad := "(invariant of the projection)"
					if v.InvError == "" && v.Matched < len(evs) {
						jb, _ := json.Marshal(evs[v.Matched])
						bad = string(jb)
					}
					cls := "invariant"
					if v.InvError == "" && v.Matched < len(evs) {
						cls = evs[v.Matched].str("ev")
					}
					return "burst/" + b.name + "/" + cls, fmt.Sprintf("burst %s (MaxWorkers=%d, RequestBufSize=%d, limit=%d): recorded history is not a behaviour of the limits projection of RpcCalls; first unexplained event: %s %s; rpc log: %v",
						b.name, b.env.MaxWorkers, b.bufSpec, b.memSpec, bad, v.InvError, resp.RpcLog), evs, resp, nil
				}
				return "", "", evs, resp, nil
			}
			key, what, evs, resp, err := judge(b.name)
			if err != nil {
				return err
			}
			if key != "" {
				// A rejected history may depend on the schedule (e.g. who wins a freed worker): the same burst
				// is re-run in fresh processes up to confirmRuns times and reported as soon as one more history
				// is rejected with the same key; both histories go into the replay file.
				for attempt := 1; attempt <= confirmRuns; attempt++ {
					key2, what2, evs2, _, err := judge(fmt.Sprintf("%s-repro%d", b.name, attempt))
					if err != nil {
						return err
					}
					if key2 == key {
						c.Violate(key, fmt.Sprintf("%s (recurred in re-run %d: %s)", what, attempt, what2),
							map[string]any{"burst": b.name, "env": b.env, "conns": b.conns, "calls": b.calls, "sizes": b.sizes, "cap": b.cap, "seed": seed,
								"history": evs, "history_rerun": evs2})
						return nil
					}
				}
				return fmt.Errorf("burst %s: rejected history did not recur in %d re-runs (inconclusive): %s", b.name, confirmRuns, what)
			}
			bmu.Lock()
			defer bmu.Unlock()
			c.Add("traces_validated_against_impl", 1)
			c.Add("trace_events_validated", len(evs))
			c.Add("evaluations", resp.Calls)
			peaks[b.name] = map[string]any{"requests": resp.Calls, "peak_running": resp.Peak, "cap": b.cap, "piled_up": resp.Piled,
				"server_limit_bytes": resp.Limit, "server_max_workers": resp.MaxWorkers, "memory_wait_aborted": resp.Aborted}
			c.Logf("burst %s: %d requests, peak running %d (cap %d), piled=%v, server limit %d", b.name, resp.Calls, resp.Peak, b.cap, resp.Piled, resp.Limit)
			if resp.Limit != int64(b.memSpec) {
				return fmt.Errorf("burst %s: server reports request memory limit %d, the specification was instantiated with %d", b.name, resp.Limit, b.memSpec)
			}
			// no vacuity: the burst must really have piled up against the limit
			if !resp.Piled || resp.Peak < b.cap {
				return fmt.Errorf("vacuous: burst %s did not pile up (peak %d, expected cap %d, piled=%v)", b.name, resp.Peak, b.cap, resp.Piled)
			}
			if b.abortWait && !resp.Aborted {
				return fmt.Errorf("vacuous: burst %s: the server did not tear down the abandoned connection, no memory wait was aborted", b.name)
			}
			if !b.abortWait {
				traced = append(traced, tracedBurst{evs, b})
			}
			if firstTrace == nil && !b.abortWait && !b.releaseAll {
				firstTrace, firstCfg = evs, b
				for _, e := range evs {
					if e.str("ev") == "enter" || e.str("ev") == "sample" {
						c.Sample(e)
						if len(evs) > 0 && e.str("ev") == "sample" {
							break
						}
					}
				}
			}
			return nil
		})
	}
	if err := parallel(3, bjobs); err != nil {
		return err
	}
	c.Set("bursts", peaks)
	c.Set("distinct_nontrivial", len(peaks))

	// 3. binding self-test: one more handler than the limit allows must be rejected
	if len(traced) > 0 {
		var bad []event
		cfg := firstCfg
		for _, t := range traced {
			if bad = corruptBurst(t.evs, t.cfg.cap); bad != nil {
				cfg = t.cfg
				break
			}
		}
		if bad == nil {
			// no enter right after an exit at the cap in any history: drop the first exit instead
			// (its handler then still counts as running when the next one enters at the cap)
			t := traced[0]
			cfg = t.cfg
			for i, e := range t.evs {
				if e.str("ev") == "exit" {
					bad = append(append([]event{}, t.evs[:i]...), t.evs[i+1:]...)
					break
				}
			}
		}
		if bad == nil {
			return fmt.Errorf("binding self-test impossible: no recorded history with an exit event")
		}
		v, err := validateTraceBFS(c, "TraceRpcLimits", "TraceRpcLimits.cfg", cfg.consts(), toNDJSON(bad))
		if err != nil {
			return err
		}
		if v.OK {
			return fmt.Errorf("binding self-test failed: a history with cap+1 concurrent handlers was accepted")
		}
		c.Set("selftest_overadmission_rejected", true)
	}
	c.Set("rule", "TLC checks WorkerBound / MemBound / WaitingNotDropped of RpcCalls for the (MaxWorkers, memory slots) pairs used; bursts of gated requests against real servers with MaxWorkers in {1,2,3,(0)} and with request memory made scarce through RequestBufSize are recorded (handler-side counter and Server.RequestsMemory samples under the recorder mutex) and validated by TLC against the projection TraceRpcLimits: Running <= MaxWorkers, sum of takes of running handlers <= limit, accounted memory within [held, limit], every request finally answered ok")
	c.Assume("ServerWithRequestMemoryLimit clamps to >= 16 MiB - 1; scarcity is obtained with ServerWithRequestBufSize (every packet takes max(length, RequestBufSize))")
	c.Assume("take of a request = max(len(user body) + 24, RequestBufSize): 8 bytes query id + 16 bytes packet overhead, no extras in these requests")
	return nil
}

// validateTraceBFS: deterministic (no silent steps) trace specifications need no depth-first queue.
func validateTraceBFS(c *core.Ctx, module, cfg string, consts map[string]string, trace []byte) (*traceVerdict, error) {
	r, err := c.TLC(core.TLCOpts{Module: module, Cfg: cfg, Consts: consts, Files: map[string][]byte{"trace.ndjson": trace}, Workers: 1, Timeout: 5 * time.Minute})
	if err != nil {
		return nil, err
	}
	v := &traceVerdict{States: r.Distinct, Gen: r.Generated, Total: strings.Count(string(trace), "\n")}
	if r.OK {
		v.OK, v.Matched = true, v.Total
		return v, nil
	}
	if m := reHW.FindStringSubmatch(r.Tail + "\n" + r.ErrorText); m != nil && r.ErrorKind == "postcondition" {
		fmt.Sscan(m[1], &v.Matched)
		return v, nil
	}
	if r.ErrorKind == "invariant" {
		v.InvError = r.ErrorText
		return v, nil
	}
	return nil, fmt.Errorf("TLC %s failed: kind=%s\n%s\n%s", module, r.ErrorKind, r.ErrorText, r.Tail)
}

// corruptBurst moves an `enter` that follows an `exit` (at the cap) in front of that exit.
func corruptBurst(evs []event, cap int) []event {
	for i := 1; i < len(evs); i++ {
		if evs[i].str("ev") == "enter" && evs[i].num("running") == cap {
			for j := i - 1; j >= 0; j-- {
				if evs[j].str("ev") == "exit" {
					bad := append([]event{}, evs[:j]...)
					bad = append(bad, evs[i])
					bad = append(bad, evs[j:i]...)
					bad = append(bad, evs[i+1:]...)
					return bad
				}
				if evs[j].str("ev") == "enter" {
					break
				}
			}
		}
	}
	return nil
}
