package rpc

import "verif/core"

func runC39(c *core.Ctx) error { return nil }
