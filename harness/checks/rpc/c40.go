package rpc

import (
	"encoding/json"
	"fmt"
	"math"
	"math/rand"
	"reflect"
	"sort"
	"strconv"
	"strings"
	"time"

	"verif/core"
)

// ---------------------------------------------------------------------------
// materialisation of the atoms of spec/RpcExtras.tla

const ctxMs = 60000

var longAtoms = map[string]int64{"0": 0, "1": 1, "-1": -1, "max64": math.MaxInt64, "min64": math.MinInt64}
var strAtoms = map[string]string{"": "", "a": "a", "s300": strings.Repeat("x", 300), "utf8": "héllo wörld ✓ é", "nul": "a\x00b"}
var dictLongAtoms = map[string]map[string]string{"empty": nil, "d1": {"a": "1"}, "d2": {"": "-1", "k2": "9223372036854775807"}}
var vecStrAtoms = map[string][]string{"empty": nil, "vs1": {"k"}, "vs2": {"", strings.Repeat("y", 300)}}
var vecLongAtoms = map[string][]string{"empty": nil, "vl1": {"7"}, "vl2": {"-9223372036854775808", "9223372036854775807"}}
var doubleAtoms = map[string]uint64{"0": 0, "1.5": math.Float64bits(1.5), "-0.0": 1 << 63, "nan": 0x7ff8000000000123, "inf": math.Float64bits(math.Inf(1))}
var statsAtoms = map[string]map[string]string{"empty": nil, "st1": {"k": "v"}, "st2": {"": "", "key": strings.Repeat("z", 300)}}
var pidAtoms = map[string][3]uint32{"pid0": {0, 0, 0}, "pid1": {0xffffffff, 0x12345678, 1}}

type jPQ struct {
	Kind string    `json:"kind"`
	Q    [2]string `json:"q"`
	S    [2]string `json:"s"`
}
type jTC struct {
	Mask   uint32 `json:"mask"`
	Lo     string `json:"lo"`
	Hi     string `json:"hi"`
	Parent string `json:"parent"`
	Source string `json:"source"`
}

var pqAtoms = map[string]jPQ{
	"zero":     {Kind: "prepare", Q: [2]string{"0", "0"}, S: [2]string{"0", "0"}},
	"prepare1": {Kind: "prepare", Q: [2]string{"-1", "9223372036854775807"}, S: [2]string{"0", "0"}},
	"commit1":  {Kind: "commit", Q: [2]string{"1", "-9223372036854775808"}, S: [2]string{"77", "-2"}},
}
var tcAtoms = map[string]jTC{
	"zero": {Lo: "0", Hi: "0", Parent: "0"},
	"tc1":  {Mask: 0, Lo: "1234567890123", Hi: "-5", Parent: "0"},
	"tc2":  {Mask: 0x8f, Lo: "-1", Hi: "9223372036854775807", Parent: "-9223372036854775808", Source: "src ✓"},
}

// the driver's wire structs (see harness/drivers/rpc/extras.go); int64 travel as strings
type jReq struct {
	Flags             []int             `json:"flags"`
	RequesterId       string            `json:"requester_id"`
	WaitShards        map[string]string `json:"wait_shards_binlog_pos"`
	WaitBinlogPos     string            `json:"wait_binlog_pos"`
	StringForwardKeys []string          `json:"string_forward_keys"`
	IntForwardKeys    []string          `json:"int_forward_keys"`
	StringForward     string            `json:"string_forward"`
	IntForward        string            `json:"int_forward"`
	CustomTimeoutMs   int32             `json:"custom_timeout_ms"`
	Compression       int32             `json:"supported_compression_version"`
	RandomDelayBits   string            `json:"random_delay_bits"`
	PQ                jPQ               `json:"persistent_query"`
	TC                jTC               `json:"trace_context"`
	ExecutionContext  string            `json:"execution_context"`
}

type jResp struct {
	Flags              []int             `json:"flags"`
	BinlogPos          string            `json:"binlog_pos"`
	BinlogTime         string            `json:"binlog_time"`
	EnginePid          [3]uint32         `json:"engine_pid"`
	RequestSize        int32             `json:"request_size"`
	ResponseSize       int32             `json:"response_size"`
	FailedSubqueries   int32             `json:"failed_subqueries"`
	CompressionVersion int32             `json:"compression_version"`
	Stats              map[string]string `json:"stats"`
	ShardsBinlogPos    map[string]string `json:"shards_binlog_pos"`
	EpochNumber        string            `json:"epoch_number"`
	ViewNumber         string            `json:"view_number"`
}

type jCase struct {
	N       int    `json:"n"`
	Req     jReq   `json:"req"`
	Actor   string `json:"actor"`
	TL2     bool   `json:"tl2"`
	CtxMs   int    `json:"ctxMs"`
	NoLocal bool   `json:"noLocal"`
	Resp    jResp  `json:"resp"`
	Outcome string `json:"outcome"`
	Code    int32  `json:"code"`
	Desc    string `json:"desc"`
}

type jObs struct {
	N          int    `json:"n"`
	CallErr    string `json:"callErr"`
	ErrText    string `json:"errText"`
	ErrCode    int32  `json:"errCode"`
	ErrDesc    string `json:"errDesc"`
	Seen       bool   `json:"seen"`
	SrvReq     jReq   `json:"srvReq"`
	SrvActor   string `json:"srvActor"`
	SrvTL2     bool   `json:"srvTL2"`
	SrvTimeout string `json:"srvTimeoutMs"`
	BodyOK     bool   `json:"bodyOK"`
	CliResp    jResp  `json:"cliResp"`
	CliTL2     bool   `json:"cliTL2"`
	RespBodyOK bool   `json:"respBodyOK"`
}

// model-side records (JSON of the TLA+ values)
type mReq struct {
	Mask []int          `json:"mask"`
	Val  map[string]any `json:"val"`
}
type mOut struct {
	K    string `json:"k"`
	Code int    `json:"code"`
	Desc string `json:"desc"`
}
type mCase struct {
	Req   mReq   `json:"req"`
	Resp  mReq   `json:"resp"`
	Out   mOut   `json:"out"`
	Actor string `json:"actor"`
	TL2   bool   `json:"tl2"`
	Ctx   bool   `json:"ctx"`
}
type mErr struct {
	Code int    `json:"code"`
	Desc string `json:"desc"`
	Kind string `json:"kind"`
}
type mExp struct {
	Rej      string         `json:"rej"`
	SrvMask  []int          `json:"srvMask"`
	SrvVal   map[string]any `json:"srvVal"`
	SrvTmo   string         `json:"srvTmo"`
	SrvActor string         `json:"srvActor"`
	SrvTL2   bool           `json:"srvTL2"`
	CliMask  []int          `json:"cliMask"`
	CliVal   map[string]any `json:"cliVal"`
	CliTL2   bool           `json:"cliTL2"`
	Err      mErr           `json:"err"`
	BodyBack bool           `json:"bodyBack"`
}

func i64s(v int64) string { return strconv.FormatInt(v, 10) }

func atomStr(v any) string { s, _ := v.(string); return s }
func atomInt(v any) int32  { f, _ := v.(float64); return int32(f) }

func sortedInts(xs []int) []int {
	r := append([]int{}, xs...)
	sort.Ints(r)
	return r
}

// buildReq materialises a request extra (mask + atoms) as the driver's struct.
func buildReq(mask []int, val map[string]any) (jReq, error) {
	r := jReq{Flags: sortedInts(mask)}
	var ok [13]bool
	var l int64
	l, ok[0] = longAtoms[atomStr(val["9"])]
	r.RequesterId = i64s(l)
	r.WaitShards, ok[1] = dictLongAtoms[atomStr(val["15"])]
	l, ok[2] = longAtoms[atomStr(val["16"])]
	r.WaitBinlogPos = i64s(l)
	r.StringForwardKeys, ok[3] = vecStrAtoms[atomStr(val["18"])]
	r.IntForwardKeys, ok[4] = vecLongAtoms[atomStr(val["19"])]
	r.StringForward, ok[5] = strAtoms[atomStr(val["20"])]
	l, ok[6] = longAtoms[atomStr(val["21"])]
	r.IntForward = i64s(l)
	r.CustomTimeoutMs = atomInt(val["23"])
	r.Compression = atomInt(val["25"])
	var d uint64
	d, ok[7] = doubleAtoms[atomStr(val["26"])]
	r.RandomDelayBits = strconv.FormatUint(d, 10)
	r.PQ, ok[8] = pqAtoms[atomStr(val["28"])]
	r.TC, ok[9] = tcAtoms[atomStr(val["29"])]
	r.ExecutionContext, ok[10] = strAtoms[atomStr(val["30"])]
	for i := 0; i <= 10; i++ {
		if !ok[i] {
			return r, fmt.Errorf("unknown atom in request extra %v", val)
		}
	}
	return r, nil
}

func buildResp(mask []int, val map[string]any) (jResp, error) {
	r := jResp{Flags: sortedInts(mask)}
	ok := true
	get := func(k string) int64 {
		v, o := longAtoms[atomStr(val[k])]
		ok = ok && o
		return v
	}
	r.BinlogPos, r.BinlogTime = i64s(get("binlog_pos")), i64s(get("binlog_time"))
	r.EpochNumber, r.ViewNumber = i64s(get("epoch_number")), i64s(get("view_number"))
	var o bool
	r.EnginePid, o = pidAtoms[atomStr(val["engine_pid"])]
	ok = ok && o
	r.RequestSize, r.ResponseSize = atomInt(val["request_size"]), atomInt(val["response_size"])
	r.FailedSubqueries, r.CompressionVersion = atomInt(val["failed_subqueries"]), atomInt(val["compression_version"])
	r.Stats, o = statsAtoms[atomStr(val["stats"])]
	ok = ok && o
	r.ShardsBinlogPos, o = dictLongAtoms[atomStr(val["shards_binlog_pos"])]
	ok = ok && o
	if !ok {
		return r, fmt.Errorf("unknown atom in response extra %v", val)
	}
	return r, nil
}

func normReq(r jReq) jReq {
	if len(r.WaitShards) == 0 {
		r.WaitShards = nil
	}
	if len(r.StringForwardKeys) == 0 {
		r.StringForwardKeys = nil
	}
	if len(r.IntForwardKeys) == 0 {
		r.IntForwardKeys = nil
	}
	if r.Flags == nil {
		r.Flags = []int{}
	}
	return r
}

func normResp(r jResp) jResp {
	if len(r.Stats) == 0 {
		r.Stats = nil
	}
	if len(r.ShardsBinlogPos) == 0 {
		r.ShardsBinlogPos = nil
	}
	if r.Flags == nil {
		r.Flags = []int{}
	}
	return r
}

const (
	noHandlerDesc  = "RPC handler for #5ca1ab1e not found"
	deadlinePrefix = "context deadline exceeded (server-adjusted request timeout was "
)

func materialise(n int, m mCase) (jCase, error) {
	req, err := buildReq(m.Req.Mask, m.Req.Val)
	if err != nil {
		return jCase{}, err
	}
	resp, err := buildResp(m.Resp.Mask, m.Resp.Val)
	if err != nil {
		return jCase{}, err
	}
	a, ok := longAtoms[m.Actor]
	d, ok2 := strAtoms[m.Out.Desc]
	if !ok || !ok2 {
		return jCase{}, fmt.Errorf("unknown actor/description atom %q %q", m.Actor, m.Out.Desc)
	}
	c := jCase{N: n, Req: req, Actor: i64s(a), TL2: m.TL2, Resp: resp, Outcome: m.Out.K, Code: int32(m.Out.Code), Desc: d}
	if m.Ctx {
		c.CtxMs = ctxMs
	}
	return c, nil
}

func rejClass(o jObs) string {
	switch {
	case o.CallErr != "other":
		return ""
	case strings.Contains(o.ErrText, "custom timeout should be set"):
		return "unset_timeout"
	case strings.Contains(o.ErrText, "should not be negative"):
		return "negative_timeout"
	case strings.Contains(o.ErrText, "no_result requests is not supported"):
		return "no_result"
	}
	return "other:" + o.ErrText
}

// compare returns "" when the observation is the one the specification prescribes.
func compareExtras(m mCase, e mExp, o jObs) string {
	if e.Rej != "" {
		if got := rejClass(o); got != e.Rej {
			return fmt.Sprintf("client must reject the call (%s), observed %q %s", e.Rej, got, o.ErrText)
		}
		if o.Seen {
			return "rejected call reached the handler"
		}
		return ""
	}
	if o.CallErr == "other" {
		return "call failed locally: " + o.ErrText
	}
	if !o.Seen {
		return "the handler never saw the request"
	}
	if !o.BodyOK {
		return "request body damaged"
	}
	wantReq, err := buildReq(e.SrvMask, e.SrvVal)
	if err != nil {
		return err.Error()
	}
	gotReq := normReq(o.SrvReq)
	wantReq = normReq(wantReq)
	if e.SrvTmo == "ctx" {
		if gotReq.CustomTimeoutMs < 1 || gotReq.CustomTimeoutMs > ctxMs || gotReq.CustomTimeoutMs < ctxMs-30000 {
			return fmt.Sprintf("custom_timeout_ms derived from the context deadline is %d, expected (%d-30000)..%d", gotReq.CustomTimeoutMs, ctxMs, ctxMs)
		}
		wantReq.CustomTimeoutMs = gotReq.CustomTimeoutMs
	}
	if !reflect.DeepEqual(gotReq, wantReq) {
		return fmt.Sprintf("request extra seen by the handler differs: want %+v got %+v", wantReq, gotReq)
	}
	wantDeadline := e.SrvTmo != "none"
	if (o.SrvTimeout != "-1") != wantDeadline {
		return fmt.Sprintf("handler context deadline present=%v, expected %v", o.SrvTimeout != "-1", wantDeadline)
	}
	if wantDeadline && o.SrvTimeout != strconv.Itoa(int(gotReq.CustomTimeoutMs)) {
		return fmt.Sprintf("handler context timeout %s ms differs from custom_timeout_ms %d", o.SrvTimeout, gotReq.CustomTimeoutMs)
	}
	if a := longAtoms[e.SrvActor]; o.SrvActor != i64s(a) {
		return fmt.Sprintf("actor id: want %d got %s", a, o.SrvActor)
	}
	if o.SrvTL2 != e.SrvTL2 || o.CliTL2 != e.CliTL2 {
		return fmt.Sprintf("body format flag: handler TL2=%v client TL2=%v, expected %v", o.SrvTL2, o.CliTL2, e.SrvTL2)
	}
	wantResp, err := buildResp(e.CliMask, e.CliVal)
	if err != nil {
		return err.Error()
	}
	if g, w := normResp(o.CliResp), normResp(wantResp); !reflect.DeepEqual(g, w) {
		return fmt.Sprintf("response extra seen by the caller differs: want %+v got %+v", w, g)
	}
	switch e.Err.Kind {
	case "none":
		if o.CallErr != "" {
			return fmt.Sprintf("unexpected error %d %q", o.ErrCode, o.ErrDesc)
		}
		if !o.RespBodyOK {
			return "response body damaged or belongs to another request"
		}
	case "exact":
		if o.CallErr != "rpc" || int(o.ErrCode) != e.Err.Code || o.ErrDesc != strAtoms[e.Err.Desc] {
			return fmt.Sprintf("error: want code %d description %q, got %q code %d description %q", e.Err.Code, strAtoms[e.Err.Desc], o.CallErr, o.ErrCode, o.ErrDesc)
		}
	case "nohandler":
		if o.CallErr != "rpc" || int(o.ErrCode) != e.Err.Code || o.ErrDesc != noHandlerDesc {
			return fmt.Sprintf("no-handler error: got %q %d %q", o.CallErr, o.ErrCode, o.ErrDesc)
		}
	case "deadline":
		if o.CallErr != "rpc" || int(o.ErrCode) != e.Err.Code || !strings.HasPrefix(o.ErrDesc, deadlinePrefix) {
			return fmt.Sprintf("deadline error: got %q %d %q", o.CallErr, o.ErrCode, o.ErrDesc)
		}
	}
	return ""
}

func caseKey(m mCase) string {
	b, _ := json.Marshal(map[string]any{"req": m.Req.Mask, "resp": m.Resp.Mask, "out": m.Out, "actor": m.Actor, "tl2": m.TL2, "ctx": m.Ctx})
	vals := []string{}
	for k, v := range m.Req.Val {
		vals = append(vals, fmt.Sprintf("%s=%v", k, v))
	}
	sort.Strings(vals)
	s := string(b) + strings.Join(vals, ",")
	if len(s) > 300 {
		s = s[:300]
	}
	return s
}

// ---------------------------------------------------------------------------

type xItem struct {
	m mCase
	e mExp
	j jCase
}

func runExtras(c *core.Ctx, drvPath string, env envCfg, items []xItem) ([]jObs, string, error) {
	d, err := startDriver(drvPath, 10*time.Minute)
	if err != nil {
		return nil, "", err
	}
	defer d.p.Close()
	if env.Net == "unix" {
		env.Dir = sockDir(c)
	}
	// batches keep every driver call well below its watchdog; server and client are re-created per batch
	var all []jObs
	for k := 0; k < len(items); k += 4000 {
		part := items[k:min(k+4000, len(items))]
		cases := make([]jCase, len(part))
		for i := range part {
			cases[i] = part[i].j
		}
		var resp struct {
			Error string `json:"error"`
			Panic string `json:"panic"`
			Obs   []jObs `json:"obs"`
		}
		if err := d.p.Call(map[string]any{"op": "extras", "env": env, "cases": cases}, &resp); err != nil {
			return nil, "", err
		}
		if resp.Error != "" || resp.Panic != "" {
			return nil, "", fmt.Errorf("driver extras: %s%s", resp.Error, resp.Panic)
		}
		if len(resp.Obs) != len(part) {
			return nil, "", fmt.Errorf("driver returned %d observations for %d cases", len(resp.Obs), len(part))
		}
		all = append(all, resp.Obs...)
	}
	_, race := d.raceReport()
	return all, race, nil
}

// obsAtoms expresses an observation in the atoms of the specification (for TraceRpcExtras).
func obsAtoms(o jObs) map[string]any {
	if rc := rejClass(o); rc != "" {
		return map[string]any{"rej": rc}
	}
	rev := func(tbl any, v any) any {
		rv := reflect.ValueOf(tbl)
		keys := rv.MapKeys()
		sort.Slice(keys, func(i, j int) bool { return keys[i].String() < keys[j].String() })
		for _, k := range keys {
			if reflect.DeepEqual(rv.MapIndex(k).Interface(), v) {
				return k.String()
			}
		}
		return "?"
	}
	revLong := func(s string) any {
		for _, k := range []string{"0", "1", "-1", "max64", "min64"} {
			if i64s(longAtoms[k]) == s {
				return k
			}
		}
		return "?"
	}
	nz := func(m map[string]string) map[string]string {
		if len(m) == 0 {
			return nil
		}
		return m
	}
	nzs := func(s []string) []string {
		if len(s) == 0 {
			return nil
		}
		return s
	}
	r := o.SrvReq
	bits, _ := strconv.ParseUint(r.RandomDelayBits, 10, 64)
	srvVal := map[string]any{
		"9": revLong(r.RequesterId), "15": rev(dictLongAtoms, nz(r.WaitShards)), "16": revLong(r.WaitBinlogPos),
		"18": rev(vecStrAtoms, nzs(r.StringForwardKeys)), "19": rev(vecLongAtoms, nzs(r.IntForwardKeys)),
		"20": rev(strAtoms, r.StringForward), "21": revLong(r.IntForward), "23": r.CustomTimeoutMs, "25": r.Compression,
		"26": rev(doubleAtoms, bits), "28": rev(pqAtoms, r.PQ), "29": rev(tcAtoms, r.TC), "30": rev(strAtoms, r.ExecutionContext),
	}
	y := o.CliResp
	cliVal := map[string]any{
		"binlog_pos": revLong(y.BinlogPos), "binlog_time": revLong(y.BinlogTime), "engine_pid": rev(pidAtoms, y.EnginePid),
		"request_size": y.RequestSize, "response_size": y.ResponseSize, "failed_subqueries": y.FailedSubqueries,
		"compression_version": y.CompressionVersion, "stats": rev(statsAtoms, nz(y.Stats)),
		"shards_binlog_pos": rev(dictLongAtoms, nz(y.ShardsBinlogPos)), "epoch_number": revLong(y.EpochNumber), "view_number": revLong(y.ViewNumber),
	}
	errRec := map[string]any{"code": 0, "desc": "", "kind": "none"}
	if o.CallErr == "rpc" {
		switch {
		case o.ErrDesc == noHandlerDesc:
			errRec = map[string]any{"code": o.ErrCode, "desc": "nohandler", "kind": "nohandler"}
		case strings.HasPrefix(o.ErrDesc, deadlinePrefix):
			errRec = map[string]any{"code": o.ErrCode, "desc": "deadline", "kind": "deadline"}
		default:
			errRec = map[string]any{"code": o.ErrCode, "desc": rev(strAtoms, o.ErrDesc), "kind": "exact"}
		}
	}
	fl := func(x []int) []int {
		if x == nil {
			return []int{}
		}
		return x
	}
	return map[string]any{"rej": "", "srvMask": fl(r.Flags), "srvVal": srvVal, "srvDeadline": o.SrvTimeout != "-1",
		"srvActor": revLong(o.SrvActor), "srvTL2": o.SrvTL2, "cliMask": fl(y.Flags), "cliVal": cliVal, "cliTL2": o.CliTL2,
		"err": errRec, "bodyBack": o.CallErr == "" && o.RespBodyOK, "seen": o.Seen}
}

// replayC40 re-runs the single round trip of a saved violation.
func replayC40(c *core.Ctx) error {
	var rf struct {
		Key    string `json:"key"`
		Replay struct {
			Env       envCfg `json:"env"`
			Case      jCase  `json:"case"`
			ModelCase mCase  `json:"model_case"`
			Expected  *mExp  `json:"expected"`
		} `json:"replay"`
	}
	lines, err := readLines(c.Replay)
	if err != nil {
		return err
	}
	if err := json.Unmarshal([]byte(strings.Join(lines, "\n")), &rf); err != nil {
		return err
	}
	drvPath, err := buildDriver(c)
	if err != nil {
		return err
	}
	env := rf.Replay.Env
	if env.Net == "" {
		env = envCfg{Net: "tcp4", MaxWorkers: 4}
	}
	it := xItem{m: rf.Replay.ModelCase, j: rf.Replay.Case}
	obs, _, err := runExtras(c, drvPath, env, []xItem{it})
	if err != nil {
		return err
	}
	c.Add("evaluations", 1)
	c.Sample(map[string]any{"case": it.j, "observed": obs[0]})
	if rf.Replay.Expected != nil {
		if bad := compareExtras(it.m, *rf.Replay.Expected, obs[0]); bad != "" {
			c.Violate(rf.Key, "replayed round trip still differs from RpcExtras: "+bad, map[string]any{"env": env, "case": it.j, "model_case": it.m, "expected": rf.Replay.Expected})
		}
		return nil
	}
	// violation found by trace validation: let TLC judge the single round trip again
	trace := toNDJSON([]event{{"tc": it.m, "obs": obsAtoms(obs[0])}})
	r, err := c.TLC(core.TLCOpts{Module: "TraceRpcExtras", Cfg: "TraceRpcExtras.cfg", Files: map[string][]byte{"trace.ndjson": trace}, Workers: 1, Timeout: 5 * time.Minute})
	if err != nil {
		return err
	}
	c.Add("states", r.Distinct)
	if !r.OK {
		c.Violate(rf.Key, "replayed round trip is not a behaviour of RpcExtras: "+string(trace), map[string]any{"case": it.j, "model_case": it.m})
	} else {
		c.Add("traces_validated_against_impl", 1)
	}
	return nil
}

func runC40(c *core.Ctx) error {
	if c.Replay != "" {
		return replayC40(c)
	}
	var drvPath string
	var buildErr error
	buildDone := make(chan struct{})
	go func() { drvPath, buildErr = buildDriver(c); close(buildDone) }()

	// 1. TLC enumerates the case space and checks the design-level rules
	var items []xItem
	var convErr error
	res, err := c.MustTLC(core.TLCOpts{Module: "RpcExtras", Cfg: "MC_RpcExtras.cfg", Consts: map[string]string{"EDITS": fmt.Sprint(c.Pick(1, 2))},
		Workers: 4, Timeout: 10 * time.Minute, OnEmit: func(raw json.RawMessage) {
			var em struct {
				Tc  mCase `json:"tc"`
				Exp mExp  `json:"exp"`
			}
			if err := json.Unmarshal(raw, &em); err != nil {
				convErr = err
				return
			}
			j, err := materialise(len(items), em.Tc)
			if err != nil {
				convErr = err
				return
			}
			items = append(items, xItem{em.Tc, em.Exp, j})
		}})
	if err != nil {
		return err
	}
	if convErr != nil {
		return fmt.Errorf("case conversion: %v", convErr)
	}
	c.Add("states", res.Distinct)
	c.Add("transitions", res.Generated)
	c.Logf("TLC RpcExtras: %d distinct cases, %v", res.Distinct, res.Wall)
	if res.NEmits != res.Distinct || len(items) != res.Distinct {
		return fmt.Errorf("emitted %d cases for %d distinct states", res.NEmits, res.Distinct)
	}
	<-buildDone
	if buildErr != nil {
		return buildErr
	}

	// 2. every case is replayed through a real client -> server -> client round trip
	envs := []envCfg{{Net: "tcp4", MaxWorkers: 4}, {Net: "unix", Key: cryptoKey, MaxWorkers: 4}}
	if c.Thorough() {
		envs = append(envs, envCfg{Net: "tcp4", Key: cryptoKey, MaxWorkers: 0}, envCfg{Net: "unix", MaxWorkers: 1})
	}
	byClass := map[string]int{}
	rejected, accepted := 0, 0
	mismatches := 0 // every mismatch is re-run in a fresh driver process: stop after a few
	var firstObs []jObs
	for ei, env := range envs {
		// the first environment replays every case; with very many cases the others replay every 6th
		items := items
		if ei > 0 && len(items) > 20000 {
			var sub []xItem
			for i := ei; i < len(items); i += 6 {
				sub = append(sub, items[i])
			}
			items = sub
		}
		obs, race, err := runExtras(c, drvPath, env, items)
		if err != nil {
			return err
		}
		c.Logf("extras %s: %d round trips", env.name(), len(items))
		if ei == 0 {
			firstObs = obs
		}
		if race != "" {
			return fmt.Errorf("race detector report during the extras round trips (C38 decides about races):\n%s", race)
		}
		for i, it := range items {
			bad := compareExtras(it.m, it.e, obs[i])
			byClass[it.m.Out.K+"/tl2="+fmt.Sprint(it.m.TL2)]++
			if it.e.Rej != "" {
				rejected++
			} else {
				accepted++
			}
			if bad != "" {
				mismatches++
				// reproduce in a fresh process
				obs2, _, err := runExtras(c, drvPath, env, []xItem{it})
				if err != nil {
					return err
				}
				if bad2 := compareExtras(it.m, it.e, obs2[0]); bad2 == "" {
					return fmt.Errorf("mismatch not reproduced in a fresh process (inconclusive): %s", bad)
				}
				c.Violate(mismatchKey(bad, it.m), fmt.Sprintf("%s (%s): %s", caseKey(it.m), env.name(), bad),
					map[string]any{"env": env, "case": it.j, "model_case": it.m, "expected": it.e, "observed": obs[i]})
			}
			c.Add("evaluations", 1)
			if mismatches >= 8 {
				break
			}
		}
		if mismatches >= 8 {
			c.Logf("stopping the replay after %d reproduced mismatches", mismatches)
			break
		}
	}
	c.Set("cases_by_outcome_and_format", byClass)
	c.Set("impl_rejected", rejected)
	c.Set("impl_accepted", accepted)
	c.Set("distinct_nontrivial", res.Distinct)
	if rejected == 0 || accepted == 0 {
		return fmt.Errorf("vacuous: accepted=%d rejected=%d", accepted, rejected)
	}
	for i := 0; i < len(items) && i < 3000; i += 499 {
		c.Sample(map[string]any{"case": items[i].j, "expected": items[i].e, "observed": firstObs[i]})
	}

	// 3. code -> spec: random cases (any number of fields set), observations validated by TLC
	rnd := rand.New(rand.NewSource(c.Seed))
	nRand := c.Pick(400, 4000)
	rItems := make([]xItem, 0, nRand)
	for i := 0; i < nRand; i++ {
		m := randomCase(rnd)
		j, err := materialise(i, m)
		if err != nil {
			return err
		}
		rItems = append(rItems, xItem{m: m, j: j})
	}
	robs, _, err := runExtras(c, drvPath, envs[int(c.Seed)%len(envs)], rItems)
	if err != nil {
		return err
	}
	var lines []event
	for i, it := range rItems {
		lines = append(lines, event{"tc": it.m, "obs": obsAtoms(robs[i])})
	}
	trace := toNDJSON(lines)
	r, err := c.TLC(core.TLCOpts{Module: "TraceRpcExtras", Cfg: "TraceRpcExtras.cfg", Files: map[string][]byte{"trace.ndjson": trace}, Workers: 4, Timeout: 8 * time.Minute})
	if err != nil {
		return err
	}
	c.Add("states", r.Distinct)
	if r.OK {
		if r.Distinct != len(lines) {
			return fmt.Errorf("trace validation covered %d of %d round trips", r.Distinct, len(lines))
		}
		c.Add("traces_validated_against_impl", 1)
		c.Add("trace_events_validated", len(lines))
	} else if r.ErrorKind == "invariant" {
		m := reTraceI.FindStringSubmatch(r.ErrorText)
		if m == nil {
			return fmt.Errorf("TraceRpcExtras rejected a round trip but the index was not found:\n%s", r.ErrorText)
		}
		idx, _ := strconv.Atoi(m[1])
		it := rItems[idx-1]
		obs2, _, err := runExtras(c, drvPath, envs[int(c.Seed)%len(envs)], []xItem{it})
		if err != nil {
			return err
		}
		if reflect.DeepEqual(obsAtoms(obs2[0]), obsAtoms(robs[idx-1])) {
			c.Violate("trace/"+caseKey(it.m), "recorded round trip is not a behaviour of RpcExtras: "+string(toNDJSON(lines[idx-1:idx])),
				map[string]any{"case": it.j, "model_case": it.m, "observed": robs[idx-1]})
		} else {
			return fmt.Errorf("rejected round trip not reproduced (inconclusive)")
		}
	} else {
		return fmt.Errorf("TraceRpcExtras failed: %s\n%s", r.ErrorKind, r.ErrorText)
	}

	// 4. binding self-test: a corrupted observation must be rejected by both bindings
	for i, it := range items {
		if it.e.Rej == "" && len(it.e.CliMask) > 0 && it.m.Out.K == "ok" {
			o := firstObs[i]
			o.CliResp.Flags = o.CliResp.Flags[1:]
			if compareExtras(it.m, it.e, o) == "" {
				return fmt.Errorf("binding self-test failed: dropped response flag not noticed")
			}
			o = firstObs[i]
			o.SrvReq.ExecutionContext += "x"
			if compareExtras(it.m, it.e, o) == "" {
				return fmt.Errorf("binding self-test failed: changed execution_context not noticed")
			}
			c.Set("selftest_vector_replay_rejects_corruption", true)
			break
		}
	}
	if len(lines) > 0 {
		bad := make([]event, len(lines))
		copy(bad, lines)
		for i := range bad {
			ob := bad[i]["obs"].(map[string]any)
			if ob["rej"] == "" {
				nb := map[string]any{}
				for k, v := range ob {
					nb[k] = v
				}
				nb["srvActor"] = "?"
				bad[i] = event{"tc": bad[i]["tc"], "obs": nb}
				break
			}
		}
		r, err := c.TLC(core.TLCOpts{Module: "TraceRpcExtras", Cfg: "TraceRpcExtras.cfg", Files: map[string][]byte{"trace.ndjson": toNDJSON(bad)}, Workers: 4, Timeout: 8 * time.Minute})
		if err != nil {
			return err
		}
		if r.OK || r.ErrorKind != "invariant" {
			return fmt.Errorf("binding self-test failed: corrupted trace was not rejected (kind=%s)", r.ErrorKind)
		}
		c.Set("selftest_corrupted_trace_rejected", true)
	}
	c.Set("rule", "TLC enumerates presence subsets x boundary values of rpcInvokeReqExtra / rpcReqResultExtra, actor id, error code/description, context deadline and both body formats (RpcExtras: every case within MaxEdits edits of 16 base cases) and checks the rules ReqUnchanged, TimeoutNeverLater, RespFiltered, ErrorKept, FormatIndependent; every case is replayed through a real rpc.Client -> rpc.Server -> rpc.Client round trip and compared with Expect; random cases are validated by TLC against TraceRpcExtras")
	c.Assume("a custom_timeout_ms derived from a 60 s context deadline is accepted in the range 30000..60000 ms (it depends on the time of the call)")
	c.Assume("field contents are boundary atoms (0, +-1, min/max int64, empty/1-byte/300-byte/UTF-8/NUL strings, empty/1/2-element vectors and dictionaries, -0.0/NaN/Inf doubles, both union constructors)")
	return nil
}

func mismatchKey(bad string, m mCase) string {
	w := strings.Fields(bad)
	if len(w) > 4 {
		w = w[:4]
	}
	return fmt.Sprintf("extras/%s/tl2=%v/%s", strings.Join(w, "_"), m.TL2, m.Out.K)
}

func randomCase(rnd *rand.Rand) mCase {
	pick := func(xs ...any) any { return xs[rnd.Intn(len(xs))] }
	reqBits := []int{0, 1, 2, 3, 4, 5, 6, 7, 8, 9, 14, 15, 16, 17, 18, 19, 20, 21, 23, 25, 26, 27, 28, 29, 30}
	respBits := []int{0, 1, 2, 3, 4, 5, 6, 9, 14, 27}
	sub := func(bits []int, p float64) []int {
		r := []int{}
		for _, b := range bits {
			if b == 7 && rnd.Intn(10) != 0 {
				continue
			}
			if rnd.Float64() < p {
				r = append(r, b)
			}
		}
		return r
	}
	la := []any{"0", "1", "-1", "max64", "min64"}
	sa := []any{"", "a", "s300", "utf8", "nul"}
	p := []float64{0.1, 0.5, 0.9}[rnd.Intn(3)]
	m := mCase{}
	m.Req.Mask = sub(reqBits, p)
	m.Req.Val = map[string]any{"9": pick(la...), "15": pick("empty", "d1", "d2"), "16": pick(la...), "18": pick("empty", "vs1", "vs2"),
		"19": pick("empty", "vl1", "vl2"), "20": pick(sa...), "21": pick(la...), "23": pick(0.0, 0.0, 40000.0, 5000.0, 2147483647.0, -5.0),
		"25": pick(0.0, 1.0, -1.0, 2147483647.0, -2147483648.0), "26": pick("0", "1.5", "-0.0", "nan", "inf"),
		"28": pick("zero", "prepare1", "commit1"), "29": pick("zero", "tc1", "tc2"), "30": pick(sa...)}
	m.Resp.Mask = sub(respBits, p)
	ia := []any{0.0, 7.0, -1.0, 2147483647.0}
	m.Resp.Val = map[string]any{"binlog_pos": pick(la...), "binlog_time": pick(la...), "engine_pid": pick("pid0", "pid1"),
		"request_size": pick(ia...), "response_size": pick(ia...), "failed_subqueries": pick(ia...), "compression_version": pick(ia...),
		"stats": pick("empty", "st1", "st2"), "shards_binlog_pos": pick("empty", "d1", "d2"), "epoch_number": pick(la...), "view_number": pick(la...)}
	switch rnd.Intn(5) {
	case 0:
		m.Out = mOut{K: "rpcerr", Code: []int{0, -1, 1, -5000, -4000, -3000, 2147483647, -2147483648}[rnd.Intn(8)], Desc: pick(sa...).(string)}
	case 1:
		m.Out = mOut{K: "err", Desc: pick(sa...).(string)}
	case 2:
		m.Out = mOut{K: []string{"nohandler", "deadline"}[rnd.Intn(2)]}
	default:
		m.Out = mOut{K: "ok"}
	}
	m.Actor = pick(la...).(string)
	m.TL2 = rnd.Intn(2) == 0
	m.Ctx = rnd.Intn(3) == 0
	return m
}
