package rpc

import "verif/core"

func runC40(c *core.Ctx) error { return nil }
