// Package rpc: C38 (calls receive exactly their own responses), C39 (server worker and
// request-memory limits), C40 (request/response extras and errors transmitted unchanged).
// Specs: spec/RpcCalls.tla (+ MC_RpcCalls, TraceRpcCalls, TraceRpcLimits), spec/RpcExtras.tla.
// Driver: harness/drivers/rpc (real rpc.NewServer / rpc.NewClient, built with -race).
package rpc

import (
	"encoding/json"
	"fmt"
	"os"
	"path/filepath"
	"regexp"
	"strconv"
	"strings"
	"sync"
	"time"

	"verif/core"
)

func init() {
	core.Register("C38", "model_checking", runC38)
	core.Register("C39", "model_checking", runC39)
	core.Register("C40", "model_checking", runC40)
}

const cryptoKey = "verif-rpc-crypto-key-0123456789abcdefghijklmnopqrstuvwxyz"

// buildDriver builds the rpc driver inside the repository under test, with the race detector.
func buildDriver(c *core.Ctx) (string, error) {
	out := filepath.Join(c.Scratch, "rpcdrv")
	err := c.BuildInRepo("internal/verifx/rpc", map[string]string{
		"internal/verifx/rpc/main.go":   core.DriverSrc("rpc/main.go"),
		"internal/verifx/rpc/extras.go": core.DriverSrc("rpc/extras.go"),
		"internal/verifx/rpc/race.go":   core.DriverSrc("rpc/race.go"),
	}, out, true, false)
	return out, err
}

type envCfg struct {
	Net        string `json:"net"`
	Key        string `json:"key"`
	Dir        string `json:"dir"`
	MaxWorkers int    `json:"maxWorkers"`
	BufSize    int    `json:"bufSize,omitempty"`
	MemLimit   int    `json:"memLimit,omitempty"`
}

func (e envCfg) name() string {
	k := "plain"
	if e.Key != "" {
		k = "aes"
	}
	return fmt.Sprintf("%s-%s-w%d", e.Net, k, e.MaxWorkers)
}

// driver wraps one driver process; stderr is scanned for race detector reports.
type driver struct {
	p    *core.Proc
	path string
}

var sockDirSeq int64
var sockDirMu sync.Mutex

// sockDir returns a fresh directory for the unix sockets of one driver process.
func sockDir(c *core.Ctx) string {
	sockDirMu.Lock()
	sockDirSeq++
	n := sockDirSeq
	sockDirMu.Unlock()
	d := filepath.Join(c.Scratch, fmt.Sprintf("u%d", n))
	_ = os.MkdirAll(d, 0o755)
	return d
}

func startDriver(path string, limit time.Duration) (*driver, error) {
	// halt_on_error=0: keep running after a report, so the trace is still recorded
	env := append(os.Environ(), "GORACE=halt_on_error=0")
	p, err := core.StartProc(path, env)
	if err != nil {
		return nil, err
	}
	p.Limit = limit
	return &driver{p: p, path: path}, nil
}

var reRaceAt = regexp.MustCompile(`(?m)^\s+\S+/pkg/rpc\.(\S+?)\(\)\n\s+(\S+:\d+)`)

// raceReport returns a short identification of the first data race report in stderr ("" if none).
func (d *driver) raceReport() (key, text string) {
	s := d.p.Stderr()
	i := strings.Index(s, "WARNING: DATA RACE")
	if i < 0 {
		return "", ""
	}
	text = s[i:]
	if j := strings.Index(text[20:], "=================="); j > 0 {
		text = text[:20+j]
	}
	key = "data-race"
	if m := reRaceAt.FindStringSubmatch(text); m != nil {
		key = "data-race/" + m[1]
	}
	if len(text) > 3000 {
		text = text[:3000]
	}
	return key, text
}

// rpcPanic recognises a driver death caused by a panic inside pkg/rpc (its invariant
// checks), which is a behaviour of the code under test, not of the harness.
func rpcPanic(err error) (string, bool) {
	if err == nil {
		return "", false
	}
	s := err.Error()
	i := strings.Index(s, "panic: ")
	if i < 0 || !strings.Contains(s, "/pkg/rpc.") {
		return "", false
	}
	line := s[i:]
	if j := strings.IndexByte(line, '\n'); j > 0 {
		line = line[:j]
	}
	return line, true
}

func readLines(path string) ([]string, error) {
	b, err := os.ReadFile(path)
	if err != nil {
		return nil, err
	}
	t := strings.TrimSpace(string(b))
	if t == "" {
		return nil, nil
	}
	return strings.Split(t, "\n"), nil
}

type event map[string]any

func parseEvents(lines []string) ([]event, error) {
	evs := make([]event, 0, len(lines))
	for _, l := range lines {
		var e event
		if err := json.Unmarshal([]byte(l), &e); err != nil {
			return nil, fmt.Errorf("bad trace line %q: %v", l, err)
		}
		evs = append(evs, e)
	}
	return evs, nil
}

func (e event) str(k string) string { s, _ := e[k].(string); return s }
func (e event) num(k string) int    { f, _ := e[k].(float64); return int(f) }

func toNDJSON(evs []event) []byte {
	var sb strings.Builder
	for _, e := range evs {
		b, _ := json.Marshal(e)
		sb.Write(b)
		sb.WriteByte('\n')
	}
	return []byte(sb.String())
}

var reTraceI = regexp.MustCompile(`(?m)^\s*(?:/\\ )?i = (\d+)`)

var reHW = regexp.MustCompile(`<<"@HW", (\d+), (\d+)>>`)

// traceVerdict is the outcome of one TLC trace validation.
type traceVerdict struct {
	OK       bool
	Matched  int // events consumed on the best path
	Total    int
	States   int
	Gen      int
	InvError string // an invariant of the model failed while explaining the trace
}

// validateTrace runs TLC on a stateful trace spec whose acceptance is a POSTCONDITION on a
// high-water mark (prints <<"@HW", matched, total>> when not accepted).
func validateTrace(c *core.Ctx, module, cfg string, consts map[string]string, trace []byte, extra map[string][]byte) (*traceVerdict, error) {
	files := map[string][]byte{"trace.ndjson": trace}
	for k, v := range extra {
		files[k] = v
	}
	// depth-first queue: the search stops at the first complete explanation (TLCSet("exit") in the spec).
	// Depth-first search can get lost in a dead branch; after a time limit it is abandoned for a
	// breadth-first search, whose cost is bounded by the number of states that explain a prefix.
	dfsLimit := time.Duration(c.Pick(90, 180)) * time.Second
	r, err := c.TLC(core.TLCOpts{Module: module, Cfg: cfg, Consts: consts, Files: files, Workers: 1, DFS: true, Timeout: dfsLimit})
	if err != nil && strings.Contains(err.Error(), "timed out") {
		c.Logf("depth-first trace validation abandoned after %v, falling back to breadth-first", dfsLimit)
		c.Add("trace_validation_bfs_fallbacks", 1)
		r, err = c.TLC(core.TLCOpts{Module: module, Cfg: cfg, Consts: consts, Files: files, Workers: 1, Timeout: 14 * time.Minute})
	}
	if err != nil {
		return nil, err
	}
	v := &traceVerdict{States: r.Distinct, Gen: r.Generated, Total: strings.Count(string(trace), "\n")}
	if r.OK {
		v.OK, v.Matched = true, v.Total
		return v, nil
	}
	if m := reHW.FindStringSubmatch(r.Tail + "\n" + r.ErrorText); m != nil && r.ErrorKind == "postcondition" {
		v.Matched, _ = strconv.Atoi(m[1])
		return v, nil
	}
	if r.ErrorKind == "invariant" {
		v.InvError = r.ErrorText
		return v, nil
	}
	return nil, fmt.Errorf("TLC %s failed: kind=%s\n%s\n%s", module, r.ErrorKind, r.ErrorText, r.Tail)
}

// parallel runs the jobs with at most n at a time and returns the first error.
func parallel(n int, jobs []func() error) error {
	sem := make(chan struct{}, n)
	var wg sync.WaitGroup
	var mu sync.Mutex
	var first error
	for _, j := range jobs {
		wg.Add(1)
		sem <- struct{}{}
		go func(j func() error) {
			defer wg.Done()
			defer func() { <-sem }()
			if err := j(); err != nil {
				mu.Lock()
				if first == nil {
					first = err
				}
				mu.Unlock()
			}
		}(j)
	}
	wg.Wait()
	return first
}

func setLit(xs []int) string {
	s := make([]string, len(xs))
	for i, x := range xs {
		s[i] = strconv.Itoa(x)
	}
	return "{" + strings.Join(s, ", ") + "}"
}

func strSetLit(xs []string) string {
	s := make([]string, len(xs))
	for i, x := range xs {
		s[i] = strconv.Quote(x)
	}
	return "{" + strings.Join(s, ", ") + "}"
}
