// Package packetconn: C35 (packet stream framing round-trips over any segmentation, with or
// without encryption, and detects any single corrupted byte after the handshake).
//
// Oracle: spec/PacketConn.tla.  Binding (a): every scenario enumerated by TLC from
// spec/MC_PacketConn.tla (exhaustive small space + seeded sample of packet sequences, each with
// all its chunkings and corruption classes) is replayed into a real rpc.PacketConn pair and every
// observation is compared with the specified one.  Binding (b): random scenarios are executed
// first, recorded as event traces and validated by TLC against spec/TracePacketConn.tla.
package packetconn

import (
	"encoding/binary"
	"encoding/hex"
	"encoding/json"
	"fmt"
	"hash/crc32"
	"hash/fnv"
	"math/rand"
	"path/filepath"
	"sort"
	"strings"
	"sync"
	"time"

	"verif/core"
)

func init() {
	core.Register("C35", "model_checking", runC35)
}

// ---------------------------------------------------------------------------
// driver protocol (mirrors drivers/packetconn/main.go)

type pktReq struct {
	Tp    uint32 `json:"tp"`
	Len   int    `json:"len"`
	Flush bool   `json:"flush"`
	Seed  int64  `json:"seed"`
	API   int    `json:"api"`
	Raw   int    `json:"raw,omitempty"`
}

type corrReq struct {
	Pos   int  `json:"pos"`
	Mask  int  `json:"mask"`
	Exact bool `json:"exact"`
}

type runReq struct {
	Op     string    `json:"op"`
	Writer string    `json:"writer"`
	Enc    bool      `json:"enc"`
	Ver    int       `json:"ver"`
	RBuf   int       `json:"rbuf"`
	WBuf   int       `json:"wbuf"`
	Pkts   []pktReq  `json:"pkts"`
	Cuts   []int     `json:"cuts"`
	Corrs  []corrReq `json:"corrs"`
	Plain  bool      `json:"plain"`
	Unlock bool      `json:"unlocked"`
	// not read by the driver: how Cuts was described to the trace specification
	CutEvery int   `json:"cutEvery,omitempty"`
	CutAt    []int `json:"cutAt,omitempty"`
}

type readRes struct {
	Kind   string `json:"kind"`
	Tp     uint32 `json:"tp"`
	Len    int    `json:"len"`
	Hash   string `json:"hash"`
	Err    string `json:"err"`
	Text   string `json:"text"`
	Served int    `json:"served"`
	EOF    bool   `json:"eof"`
}

type writeRes struct {
	Err  string `json:"err"`
	Hash string `json:"hash"`
	Wire int    `json:"wire"`
	Tail int    `json:"trailer"`
}

type runRes struct {
	Fail     string     `json:"fail"`
	HsErrA   string     `json:"hsErrA"`
	HsErrB   string     `json:"hsErrB"`
	EncA     bool       `json:"encA"`
	EncB     bool       `json:"encB"`
	VerA     int        `json:"verA"`
	VerB     int        `json:"verB"`
	NonceEnd int        `json:"nonceEnd"`
	HsEnd    int        `json:"hsEnd"`
	Total    int        `json:"total"`
	RevHsEnd int        `json:"revHsEnd"`
	RevTotal int        `json:"revTotal"`
	Writes   []writeRes `json:"writes"`
	Reads    []readRes  `json:"reads"`
	Pos      int        `json:"pos"`
	Mask     int        `json:"mask"`
	Retries  int        `json:"retries"`
	Plain    string     `json:"plainW"`
	RevPlain string     `json:"plainRev"`
	SeqR     int64      `json:"seqR"`
	SeqW     int64      `json:"seqW"`
}

type runResp struct {
	Runs  []runRes `json:"runs"`
	Panic string   `json:"panic"`
}

// ---------------------------------------------------------------------------
// what TLC prints for one finished scenario (MC_PacketConn!Emit)

type specPk struct {
	Tp    []int  `json:"tp"`
	Len   int    `json:"len"`
	Flush bool   `json:"flush"`
	Err   string `json:"err"`
	Pad   int    `json:"pad"`
}

type specSent struct {
	Tp  []int `json:"tp"`
	Len int   `json:"len"`
	Seq int   `json:"seq"`
}

type specLog struct {
	K    string `json:"k"`
	E    string `json:"e"`
	I    int    `json:"i"`
	Need int    `json:"need"`
	Cend int    `json:"cend"`
	EOF  bool   `json:"eof"`
}

type specCls struct {
	Lo   int    `json:"lo"`
	Hi   int    `json:"hi"`
	Any  bool   `json:"any"`
	Mask int    `json:"mask"`
	Kind string `json:"kind"`
}

type specEmit struct {
	Enc      bool              `json:"enc"`
	Ver      int               `json:"ver"`
	Pk       []specPk          `json:"pk"`
	Sent     []specSent        `json:"sent"`
	Segs     []json.RawMessage `json:"segs"`
	NonceEnd int               `json:"nonceEnd"`
	HsEnd    int               `json:"hsEnd"`
	N        int               `json:"n"`
	Cutm     []any             `json:"cutm"`
	Cuts     struct {
		Every int   `json:"every"`
		At    []int `json:"at"`
	} `json:"cuts"`
	Cls   specCls           `json:"cls"`
	Log   []specLog         `json:"log"`
	Pongs []int             `json:"pongs"`
	Rev   []json.RawMessage `json:"rev"`
	Revn  int               `json:"revn"`
}

type seg struct {
	Kind string
	Pkt  int
	N    int
}

func parseSegs(raw []json.RawMessage) ([]seg, error) {
	out := make([]seg, 0, len(raw))
	for _, r := range raw {
		var t []any
		if err := json.Unmarshal(r, &t); err != nil || len(t) != 3 {
			return nil, fmt.Errorf("bad segment %s", r)
		}
		k, _ := t[0].(string)
		p, _ := t[1].(float64)
		n, _ := t[2].(float64)
		out = append(out, seg{k, int(p), int(n)})
	}
	return out, nil
}

func tpOf(t []int) uint32 {
	if len(t) != 4 {
		return 0
	}
	return uint32(t[0]) | uint32(t[1])<<8 | uint32(t[2])<<16 | uint32(t[3])<<24
}

func tpBytes(tp uint32) []int {
	return []int{int(tp & 0xFF), int(tp >> 8 & 0xFF), int(tp >> 16 & 0xFF), int(tp >> 24 & 0xFF)}
}

// genBody must stay identical to the driver's generator (bodies are regenerated here to check
// the wire bytes).
func genBody(seed int64, n int) []byte {
	b := make([]byte, n)
	x := uint64(seed)*0x9E3779B97F4A7C15 + 0x1234567
	for i := range b {
		x ^= x << 13
		x ^= x >> 7
		x ^= x << 17
		v := byte(x >> 24)
		switch (x >> 40) & 7 {
		case 0:
			v = 0
		case 1:
			v = 4
		}
		b[i] = v
	}
	return b
}

var castagnoli = crc32.MakeTable(crc32.Castagnoli)

type wirePkt struct {
	tp   uint32
	seq  int
	body []byte
}

// checkLayout compares plaintext bytes with the specified segments (starting at segment index
// from): header words, body bytes, CRC32C of header+body (the materialised ideal checksum),
// zero alignment, padding words.
func checkLayout(segs []seg, pkOf func(idx int) *wirePkt, plain []byte) string {
	o := 0
	for si, s := range segs {
		if o+s.N > len(plain) {
			return fmt.Sprintf("stream too short: segment %d (%s) needs bytes %d..%d of %d", si, s.Kind, o, o+s.N, len(plain))
		}
		got := plain[o : o+s.N]
		var want []byte
		p := pkOf(s.Pkt)
		if p == nil && s.Kind != "pad" {
			return fmt.Sprintf("segment %d refers to unknown packet %d", si, s.Pkt)
		}
		switch s.Kind {
		case "len":
			want = binary.LittleEndian.AppendUint32(nil, uint32(16+len(p.body)))
		case "seq":
			want = binary.LittleEndian.AppendUint32(nil, uint32(int32(p.seq)))
		case "type":
			want = binary.LittleEndian.AppendUint32(nil, p.tp)
		case "body":
			want = p.body
		case "crc":
			h := binary.LittleEndian.AppendUint32(nil, uint32(16+len(p.body)))
			h = binary.LittleEndian.AppendUint32(h, uint32(int32(p.seq)))
			h = binary.LittleEndian.AppendUint32(h, p.tp)
			crc := crc32.Update(0, castagnoli, h)
			crc = crc32.Update(crc, castagnoli, p.body)
			want = binary.LittleEndian.AppendUint32(nil, crc)
		case "align":
			want = make([]byte, s.N)
		case "pad":
			want = make([]byte, s.N)
			for i := 0; i < s.N; i += 4 {
				want[i] = 4
			}
		default:
			return "unknown segment kind " + s.Kind
		}
		if len(want) != s.N || string(want) != string(got) {
			return fmt.Sprintf("segment %d %s of packet %d at offset %d: wire %x, specified %x", si, s.Kind, s.Pkt, o, got, want)
		}
		o += s.N
	}
	if o != len(plain) {
		return fmt.Sprintf("stream has %d bytes, specification %d", len(plain), o)
	}
	return ""
}

// ---------------------------------------------------------------------------
// driver pool

type pool struct {
	path  string
	procs chan *core.Proc
	all   []*core.Proc
}

func newPool(path string, n int) (*pool, error) {
	p := &pool{path: path, procs: make(chan *core.Proc, n)}
	for i := 0; i < n; i++ {
		pr, err := core.StartProc(path, nil)
		if err != nil {
			p.close()
			return nil, err
		}
		p.all = append(p.all, pr)
		p.procs <- pr
	}
	return p, nil
}

func (p *pool) close() {
	for _, pr := range p.all {
		pr.Close()
	}
}

func (p *pool) call(q any, resp any) error {
	pr := <-p.procs
	defer func() { p.procs <- pr }()
	return pr.Call(q, resp)
}

// fresh runs one request in a brand-new driver process (reproduction before reporting).
func (p *pool) fresh(q any, resp any) error {
	pr, err := core.StartProc(p.path, nil)
	if err != nil {
		return err
	}
	defer pr.Close()
	return pr.Call(q, resp)
}

// ---------------------------------------------------------------------------

type stats struct {
	mu        sync.Mutex
	byErr     map[string]int // reader outcome kinds observed
	byClass   map[string]int // corruption classes replayed
	byCut     map[string]int
	clean     int // runs that ended with a clean EOF and all packets delivered
	errored   int // runs in which the reader reported an error
	delivered int
	retries   int
	runs      int
	pongs     int
	rejWrites int
}

func (s *stats) note(r *runRes) {
	s.mu.Lock()
	defer s.mu.Unlock()
	s.runs++
	s.retries += r.Retries
	for _, rd := range r.Reads {
		if rd.Kind == "pkt" {
			s.delivered++
		} else {
			s.byErr[rd.Err]++
			if rd.Err == "eof" {
				s.clean++
			} else {
				s.errored++
			}
		}
	}
	for _, w := range r.Writes {
		if w.Err != "" {
			s.rejWrites++
		}
	}
}

var bufSizes = []int{1, 16, 17, 32, 48, 100, 4096}

// buildReq materialises an emitted scenario.  Everything the model leaves open (who writes,
// buffer sizes, which write API, body contents, the reader API) is drawn from rnd.
func buildReq(e *specEmit, rnd *rand.Rand) runReq {
	q := runReq{Op: "run", Enc: e.Enc, Ver: e.Ver, Plain: true}
	if rnd.Intn(2) == 0 {
		q.Writer = "client"
	} else {
		q.Writer = "server"
	}
	q.RBuf = bufSizes[rnd.Intn(len(bufSizes))]
	q.WBuf = bufSizes[rnd.Intn(len(bufSizes))]
	q.Unlock = rnd.Intn(4) == 0
	for _, p := range e.Pk {
		if p.Pad > 0 {
			q.Pkts = append(q.Pkts, pktReq{Raw: p.Pad, Flush: true})
			continue
		}
		pr := pktReq{Tp: tpOf(p.Tp), Len: p.Len, Flush: p.Flush, Seed: rnd.Int63n(1 << 40), API: rnd.Intn(3)}
		if pr.API == 1 && !p.Flush {
			pr.API = 0
		}
		q.Pkts = append(q.Pkts, pr)
	}
	if e.Cuts.Every > 0 {
		for x := e.Cuts.Every; x < e.N; x += e.Cuts.Every {
			q.Cuts = append(q.Cuts, x)
		}
	}
	q.Cuts = append(q.Cuts, e.Cuts.At...)
	sort.Ints(q.Cuts)
	return q
}

// expandClass turns a corruption class into concrete (offset, mask) pairs.
func expandClass(e *specEmit, rnd *rand.Rand, all bool) []corrReq {
	c := e.Cls
	if c.Lo == 0 {
		return nil
	}
	exact := !e.Enc // plain region: the mask acts on the byte itself
	var out []corrReq
	masks := func() []int {
		if !c.Any {
			return []int{c.Mask}
		}
		if all {
			return []int{1 + rnd.Intn(255), 1 + rnd.Intn(255), 255}
		}
		return []int{1 + rnd.Intn(255)}
	}
	if all {
		for p := c.Lo; p <= c.Hi; p++ {
			for _, m := range masks() {
				out = append(out, corrReq{Pos: p - 1, Mask: m, Exact: exact})
			}
		}
		return out
	}
	ps := map[int]bool{c.Lo + rnd.Intn(c.Hi-c.Lo+1): true, c.Lo + rnd.Intn(c.Hi-c.Lo+1): true}
	keys := make([]int, 0, 2)
	for p := range ps {
		keys = append(keys, p)
	}
	sort.Ints(keys)
	for _, p := range keys {
		for _, m := range masks() {
			out = append(out, corrReq{Pos: p - 1, Mask: m, Exact: exact})
		}
	}
	return out
}

// compare checks one run of the real pair against the specified scenario; "" = conforms.
func compare(e *specEmit, q *runReq, r *runRes) string {
	if strings.HasPrefix(r.Fail, "panic:") || strings.HasPrefix(r.Fail, "deadlock") {
		return "code under test: " + r.Fail // decided on state, not on time: a real failure of pkg/rpc
	}
	if r.Fail != "" {
		return "harness: " + r.Fail
	}
	if r.HsErrA != "" || r.HsErrB != "" {
		return fmt.Sprintf("handshake failed: writer side %q, reader side %q", r.HsErrA, r.HsErrB)
	}
	if r.EncA != e.Enc || r.EncB != e.Enc || r.VerA != e.Ver || r.VerB != e.Ver {
		return fmt.Sprintf("negotiated enc=%v/%v ver=%d/%d, specified enc=%v ver=%d", r.EncA, r.EncB, r.VerA, r.VerB, e.Enc, e.Ver)
	}
	if r.NonceEnd != e.NonceEnd || r.HsEnd != e.HsEnd {
		return fmt.Sprintf("handshake occupies %d/%d bytes, specified %d/%d", r.NonceEnd, r.HsEnd, e.NonceEnd, e.HsEnd)
	}
	if len(r.Writes) != len(e.Pk) {
		return fmt.Sprintf("%d writes recorded for %d packets", len(r.Writes), len(e.Pk))
	}
	// accepted writes <-> sent[3..]
	var wire []*wirePkt
	var hashes []string
	for i, w := range r.Writes {
		if w.Err != e.Pk[i].Err {
			return fmt.Sprintf("write %d: error %q, specified %q", i+1, w.Err, e.Pk[i].Err)
		}
		if w.Err == "" && e.Pk[i].Pad == 0 {
			wire = append(wire, &wirePkt{tp: q.Pkts[i].Tp, body: genBody(q.Pkts[i].Seed, q.Pkts[i].Len)})
			hashes = append(hashes, w.Hash)
		}
	}
	if len(wire) != len(e.Sent)-2 {
		return fmt.Sprintf("%d writes accepted, specification sent %d packets", len(wire), len(e.Sent)-2)
	}
	for i := range wire {
		wire[i].seq = e.Sent[i+2].Seq
		if e.Sent[i+2].Len != len(wire[i].body) || tpOf(e.Sent[i+2].Tp) != wire[i].tp {
			return "harness: accepted writes do not line up with the specification's sent list"
		}
	}
	if int(r.SeqW) != len(wire) {
		return fmt.Sprintf("writer sequence number %d after %d accepted packets", r.SeqW, len(wire))
	}
	if r.Total != e.N {
		return fmt.Sprintf("stream has %d bytes, specified %d", r.Total, e.N)
	}
	// wire bytes after the handshake
	segs, err := parseSegs(e.Segs)
	if err != nil {
		return "harness: " + err.Error()
	}
	o, from := 0, len(segs)
	for i, s := range segs {
		if o >= e.HsEnd {
			from = i
			break
		}
		o += s.N
	}
	plain, err := hex.DecodeString(r.Plain)
	if err != nil {
		return "harness: bad plaintext hex"
	}
	if d := checkLayout(segs[from:], func(idx int) *wirePkt {
		if idx >= 3 && idx-3 < len(wire) {
			return wire[idx-3]
		}
		return nil
	}, plain); d != "" {
		return "writer: " + d
	}
	// reads
	if len(r.Reads) != len(e.Log) {
		return fmt.Sprintf("reader made %d calls (%s), specified %d (%s)", len(r.Reads), readsStr(r.Reads), len(e.Log), logStr(e.Log))
	}
	for i, rd := range r.Reads {
		l := e.Log[i]
		if l.K == "pkt" {
			if rd.Kind != "pkt" {
				return fmt.Sprintf("read %d: error %q (%s), specified delivery of packet %d", i+1, rd.Err, rd.Text, l.I-2)
			}
			w := l.I - 3
			if w < 0 || w >= len(wire) {
				return "harness: specified delivery of an unknown packet"
			}
			if rd.Tp != wire[w].tp || rd.Len != len(wire[w].body) || rd.Hash != hashes[w] {
				return fmt.Sprintf("read %d: delivered type %#x len %d hash %s, written packet %d is type %#x len %d hash %s (ALTERED OR WRONG PACKET)",
					i+1, rd.Tp, rd.Len, rd.Hash, w+1, wire[w].tp, len(wire[w].body), hashes[w])
			}
		} else {
			if rd.Kind != "err" {
				return fmt.Sprintf("read %d: delivered type %#x len %d, specified error %q (UNDETECTED)", i+1, rd.Tp, rd.Len, l.E)
			}
			if rd.Err != l.E {
				return fmt.Sprintf("read %d: error %q (%s), specified %q", i+1, rd.Err, rd.Text, l.E)
			}
		}
		if rd.Served < l.Need || rd.Served > l.Cend {
			return fmt.Sprintf("read %d returned after pulling %d stream bytes, specified between %d (needed) and %d (end of that chunk)", i+1, rd.Served, l.Need, l.Cend)
		}
		if rd.EOF != l.EOF {
			return fmt.Sprintf("read %d: reader saw end of stream = %v, specified %v", i+1, rd.EOF, l.EOF)
		}
	}
	// what the reader wrote back (pongs)
	if r.RevTotal-r.RevHsEnd != e.Revn {
		return fmt.Sprintf("reader wrote %d bytes back, specified %d", r.RevTotal-r.RevHsEnd, e.Revn)
	}
	rsegs, err := parseSegs(e.Rev)
	if err != nil {
		return "harness: " + err.Error()
	}
	rev, err := hex.DecodeString(r.RevPlain)
	if err != nil {
		return "harness: bad reverse plaintext hex"
	}
	seqOf := map[int]int{}
	for j, idx := range e.Pongs {
		seqOf[idx] = j
	}
	if d := checkLayout(rsegs, func(idx int) *wirePkt {
		j, ok := seqOf[idx]
		if !ok || idx-3 >= len(wire) {
			return nil
		}
		return &wirePkt{tp: 0x8430eaa7, seq: j, body: wire[idx-3].body}
	}, rev); d != "" {
		return "pong: " + d
	}
	return ""
}

func readsStr(rs []readRes) string {
	var s []string
	for _, r := range rs {
		if r.Kind == "pkt" {
			s = append(s, fmt.Sprintf("pkt(%#x,%d)", r.Tp, r.Len))
		} else {
			s = append(s, r.Err)
		}
	}
	return strings.Join(s, " ")
}

func logStr(ls []specLog) string {
	var s []string
	for _, l := range ls {
		if l.K == "pkt" {
			s = append(s, fmt.Sprintf("pkt#%d", l.I-2))
		} else {
			s = append(s, l.E)
		}
	}
	return strings.Join(s, " ")
}

func scenarioKey(e *specEmit, corr *corrReq) string {
	var pk []string
	for _, p := range e.Pk {
		if p.Pad > 0 {
			pk = append(pk, fmt.Sprintf("pad%d", p.Pad))
			continue
		}
		f := "n"
		if p.Flush {
			f = "f"
		}
		pk = append(pk, fmt.Sprintf("%x:%d%s", tpOf(p.Tp), p.Len, f))
	}
	k := fmt.Sprintf("replay/enc=%v,ver=%d/%s/cut=%v", e.Enc, e.Ver, strings.Join(pk, "+"), e.Cutm)
	if corr != nil {
		k += fmt.Sprintf("/corr=%s@%d^%d", e.Cls.Kind, corr.Pos-e.HsEnd, corr.Mask)
	}
	return k
}

// replayEmit runs one emitted scenario (all concrete corruptions of its class).
func replayEmit(c *core.Ctx, pl *pool, st *stats, e *specEmit, rnd *rand.Rand, all bool) error {
	q := buildReq(e, rnd)
	q.Corrs = expandClass(e, rnd, all)
	var resp runResp
	if err := pl.call(q, &resp); err != nil {
		return fmt.Errorf("driver: %v", err)
	}
	if resp.Panic != "" {
		return fmt.Errorf("driver panic: %s", resp.Panic)
	}
	want := 1
	if len(q.Corrs) > 0 {
		want = len(q.Corrs)
	}
	if len(resp.Runs) != want {
		return fmt.Errorf("driver returned %d runs for %d", len(resp.Runs), want)
	}
	for i := range resp.Runs {
		r := &resp.Runs[i]
		if strings.HasPrefix(r.Fail, "watchdog") || strings.HasPrefix(r.Fail, "could not materialise") {
			return fmt.Errorf("driver: %s", r.Fail)
		}
		st.note(r)
		c.Add("evaluations", 1)
		bad := compare(e, &q, r)
		if bad == "" {
			continue
		}
		// reproduce once in a fresh process before reporting
		q1 := q
		var corr *corrReq
		if len(q.Corrs) > 0 {
			cc := q.Corrs[i]
			cc.Mask = r.Mask
			if r.Mask == 0 {
				cc.Mask = q.Corrs[i].Mask
			}
			q1.Corrs = []corrReq{cc}
			corr = &cc
		}
		var resp2 runResp
		if err := pl.fresh(q1, &resp2); err != nil {
			return fmt.Errorf("driver (reproduction): %v", err)
		}
		if len(resp2.Runs) != 1 {
			return fmt.Errorf("driver (reproduction) returned %d runs", len(resp2.Runs))
		}
		bad2 := compare(e, &q1, &resp2.Runs[0])
		if bad2 == "" {
			return fmt.Errorf("mismatch not reproduced (%s) for %s", bad, scenarioKey(e, corr))
		}
		if strings.HasPrefix(bad2, "harness:") {
			return fmt.Errorf("%s for %s", bad2, scenarioKey(e, corr))
		}
		c.Violate(scenarioKey(e, corr), "rpc.PacketConn disagrees with spec/PacketConn.tla: "+bad2,
			map[string]any{"request": q1, "specified": e, "observed": resp2.Runs[0]})
	}
	st.mu.Lock()
	st.byClass[e.Cls.Kind]++
	if len(e.Cutm) > 0 {
		st.byCut[fmt.Sprint(e.Cutm[0])]++
	}
	st.pongs += len(e.Pongs)
	st.mu.Unlock()
	return nil
}

func setStr(xs []int) string {
	s := make([]string, len(xs))
	for i, x := range xs {
		s[i] = fmt.Sprint(x)
	}
	return "{" + strings.Join(s, ", ") + "}"
}

type mcCfg struct {
	name       string
	maxPkts    int
	shapes     []int
	cryptos    []int
	everyK     []int
	singleCuts string
	corrEveryK []int
	lenMasks   []int
	padKs      []int
	plans      []int
	coverage   bool
	all        bool // expand corruption classes to every offset
	workers    int
}

// runMC model-checks one bounded configuration and replays every emitted scenario.
func runMC(c *core.Ctx, pl *pool, st *stats, m mcCfg, nworkers int) error {
	var wg sync.WaitGroup
	ch := make(chan json.RawMessage, 4096)
	var firstErr error
	var emu sync.Mutex
	setErr := func(err error) {
		emu.Lock()
		if firstErr == nil {
			firstErr = err
		}
		emu.Unlock()
	}
	var sampleN int64
	for w := 0; w < nworkers; w++ {
		wg.Add(1)
		go func(w int) {
			defer wg.Done()
			for raw := range ch {
				// the open choices of a scenario depend on the seed and on the scenario only,
				// not on which worker happens to pick it up
				hh := fnv.New64a()
				hh.Write(raw)
				rnd := rand.New(rand.NewSource(c.Seed*1000003 ^ int64(hh.Sum64()>>1)))
				emu.Lock()
				stop := firstErr != nil
				emu.Unlock()
				if stop {
					continue
				}
				var e specEmit
				if err := json.Unmarshal(raw, &e); err != nil {
					setErr(fmt.Errorf("unparsable emit: %v", err))
					continue
				}
				if err := replayEmit(c, pl, st, &e, rnd, m.all); err != nil {
					setErr(err)
					continue
				}
				emu.Lock()
				sampleN++
				n := sampleN
				emu.Unlock()
				if n%4001 == 1 {
					c.Sample(map[string]any{"scenario": scenarioKey(&e, nil), "class": e.Cls, "specified_reads": logStr(e.Log)})
				}
			}
		}(w)
	}
	plans := "{}"
	if len(m.plans) > 0 {
		plans = setStr(m.plans)
	}
	res, err := c.MustTLC(core.TLCOpts{Module: "MC_PacketConn", Cfg: "MC_PacketConn.cfg", Workers: m.workers, Coverage: m.coverage,
		Timeout: 14 * time.Minute, HeapMB: 2048,
		OnEmit:  func(p json.RawMessage) { ch <- append(json.RawMessage(nil), p...) },
		Consts: map[string]string{"MAXPKTS": fmt.Sprint(m.maxPkts), "SHAPES": setStr(m.shapes), "CRYPTOS": setStr(m.cryptos),
			"EVERYK": setStr(m.everyK), "SINGLECUTS": m.singleCuts, "CORREVERYK": setStr(m.corrEveryK), "LENMASKS": setStr(m.lenMasks), "PADKS": setStr(m.padKs), "PLANS": plans}})
	close(ch)
	wg.Wait()
	if err != nil {
		return err
	}
	if firstErr != nil {
		return firstErr
	}
	c.Add("states", res.Distinct)
	c.Add("transitions", res.Generated)
	c.Add("scenarios_enumerated_by_tlc", res.NEmits)
	c.Logf("TLC MC_PacketConn[%s]: %d distinct states, %d scenarios, %v", m.name, res.Distinct, res.NEmits, res.Wall)
	if res.NEmits == 0 {
		return fmt.Errorf("vacuous: TLC enumerated no scenario for %s", m.name)
	}
	if m.coverage {
		acts := []string{"MCStart", "MCRdHandshake", "MCNegotiate", "MCWriteHs", "MCOpenB", "MCWrite", "SealMC", "MCRead"}
		cov := map[string]int{}
		for _, a := range acts {
			cov[a] = res.ActionCover[a]
		}
		c.Set("action_coverage", cov)
		for _, a := range acts {
			if res.ActionCover[a] == 0 {
				return fmt.Errorf("vacuous: action %s of MC_PacketConn was never taken (coverage %v)", a, res.ActionCover)
			}
		}
	}
	return nil
}

// onePacketPlans codes every one-packet sequence over sub x cryptos (flushed and not).
func onePacketPlans(shapes, sub, cryptos []int) []int {
	var out []int
	for _, sh := range sub {
		rank := sort.SearchInts(shapes, sh)
		for f := 0; f < 2; f++ {
			for _, cr := range cryptos {
				out = append(out, (2*rank+f+1)*100+cr)
			}
		}
	}
	return out
}

// padPlans: raw padding words before, between and after packets of plain streams.
func padPlans(shapes []int, ks, cryptos []int) []int {
	item := func(shape int, flush int) int { return 2*sort.SearchInts(shapes, shape) + flush + 1 }
	var out []int
	for _, k := range ks {
		for _, cr := range cryptos {
			out = append(out,
				(item(1003, 1)+70*(60+k)+4900*item(1000, 1))*100+cr, // packet, padding, packet
				((60+k)+70*item(1016, 0))*100+cr,                    // padding first
				(item(1001, 0)+70*(60+k))*100+cr)                    // unflushed packet, padding last
		}
	}
	return out
}

// samplePlans draws packet sequences (coded as MC_PacketConn!Plans) for the sampled part.
func samplePlans(rnd *rand.Rand, shapes []int, cryptos []int, n int, minLen, maxLen int) []int {
	seen := map[int]bool{}
	var out []int
	for len(out) < n {
		p := 0
		mul := 1
		k := minLen + rnd.Intn(maxLen-minLen+1)
		for i := 0; i < k; i++ {
			d := 2*rnd.Intn(len(shapes)) + rnd.Intn(2) + 1
			p += d * mul
			mul *= 70
		}
		p = p*100 + cryptos[rnd.Intn(len(cryptos))]
		if !seen[p] {
			seen[p] = true
			out = append(out, p)
		}
	}
	sort.Ints(out)
	return out
}

func runC35(c *core.Ctx) error {
	drv := filepath.Join(c.Scratch, "pcdrv")
	if err := c.BuildInRepo("internal/verifx/packetconn", map[string]string{
		"internal/verifx/packetconn/main.go":       core.DriverSrc("packetconn/main.go"),
		"pkg/rpc/verif_packetconn_export.go":       core.DriverSrc("packetconn/verif_packetconn_export.go"),
	}, drv, false, false); err != nil {
		return err
	}
	nproc := c.Pick(4, 8)
	c.Logf("driver built")
	pl, err := newPool(drv, nproc)
	if err != nil {
		return err
	}
	defer pl.close()
	if c.Replay != "" {
		return replayFile(c, pl)
	}

	// the spec's protocol constants are the code's
	var consts map[string]float64
	if err := pl.call(map[string]any{"op": "consts"}, &consts); err != nil {
		return err
	}
	wantConsts := map[string]float64{"ping": 0x5730a2df, "pong": 0x8430eaa7, "nonce": 0x7acb87aa, "hs": 0x7682eef5,
		"overhead": 16, "maxlen": 16777215, "block": 16, "padval": 4, "startseq": -2}
	for k, v := range wantConsts {
		if consts[k] != v {
			c.Violate("constants/"+k, fmt.Sprintf("protocol constant %s is %v in pkg/rpc, %v in spec/PacketConn.tla", k, consts[k], v), consts)
		}
	}
	if c.NViolations() > 0 {
		return nil
	}

	st := &stats{byErr: map[string]int{}, byClass: map[string]int{}, byCut: map[string]int{}}
	rnd := rand.New(rand.NewSource(c.Seed))

	// ---- (a) TLC-enumerated scenarios replayed into the real pair
	allShapes := []int{1000, 1001, 1002, 1003, 1004, 1012, 1016, 1040, 2008, 3008, 3012, 4008, 5008, 5012, 6004}
	allCryptos := []int{0, 1, 2, 10, 11, 12}
	var cfgs []mcCfg
	if !c.Thorough() {
		plans := onePacketPlans(allShapes, []int{1000, 1003, 1016, 1040, 3008, 3012, 4008}, []int{0, 1, 11, 12})
		plans = append(plans, samplePlans(rnd, allShapes, allCryptos, 5, 2, 3)...)
		plans = append(plans, padPlans(allShapes, []int{3, 4}, []int{0, 1})...)
		cfgs = append(cfgs, mcCfg{name: "1-packet-exhaustive+sampled-2..3", maxPkts: 3, shapes: allShapes, cryptos: allCryptos,
			everyK: []int{1, 16}, singleCuts: "class", corrEveryK: []int{0}, lenMasks: []int{1, 16}, padKs: []int{3, 4}, plans: plans, coverage: true, workers: 4})
	} else {
		cfgs = append(cfgs, mcCfg{name: "exhaustive-1", maxPkts: 1, shapes: allShapes, cryptos: allCryptos,
			everyK: []int{1, 2, 3, 5, 7, 11, 13, 16, 17}, singleCuts: "all", corrEveryK: []int{0, 1, 16}, lenMasks: []int{1, 2, 8, 16, 64, 255}, padKs: []int{1, 3, 4, 5},
			coverage: true, all: true, workers: 6})
		cfgs = append(cfgs, mcCfg{name: "exhaustive-2", maxPkts: 2, shapes: []int{1000, 1003, 1016, 1040, 3008, 4008}, cryptos: []int{0, 1, 11, 12},
			everyK: []int{1, 7, 16}, singleCuts: "class", corrEveryK: []int{0}, lenMasks: []int{1, 16}, padKs: []int{3, 4}, all: true, workers: 8})
		cfgs = append(cfgs, mcCfg{name: "sampled-3", maxPkts: 3, shapes: allShapes, cryptos: allCryptos,
			everyK: []int{1, 3, 5, 16, 17}, singleCuts: "all", corrEveryK: []int{0, 1}, lenMasks: []int{1, 16, 255},
			padKs: []int{1, 2, 3, 4, 5}, plans: append(samplePlans(rnd, allShapes, allCryptos, 100, 3, 3), padPlans(allShapes, []int{1, 2, 3, 4, 5}, []int{0, 1, 2})...), all: true, workers: 8})
	}
	for _, m := range cfgs {
		if err := runMC(c, pl, st, m, nproc); err != nil {
			return err
		}
		if c.NViolations() > 0 {
			break
		}
	}
	c.Set("replay_runs", st.runs)
	c.Set("reader_outcomes", st.byErr)
	c.Set("corruption_classes_replayed", st.byClass)
	c.Set("chunking_modes_replayed", st.byCut)
	c.Set("impl_accepted", st.clean)
	c.Set("impl_rejected", st.errored)
	c.Set("packets_delivered", st.delivered)
	c.Set("pongs_specified", st.pongs)
	c.Set("writes_rejected", st.rejWrites)
	c.Set("garble_mask_retries", st.retries)
	c.Set("distinct_nontrivial", c.Get("scenarios_enumerated_by_tlc"))
	if c.NViolations() > 0 {
		return nil
	}
	for _, k := range []string{"eof", "size", "seq", "crc", "align", "ueof", "pong", "pinglen", "pad"} {
		if st.byErr[k] == 0 {
			return fmt.Errorf("vacuous: the real reader never produced outcome %q (%v)", k, st.byErr)
		}
	}
	for _, k := range []string{"none", "block", "len0", "lenhi", "seq", "type", "body", "crc"} {
		if st.byClass[k] == 0 {
			return fmt.Errorf("vacuous: corruption class %q never replayed (%v)", k, st.byClass)
		}
	}
	if st.clean == 0 || st.errored == 0 || st.pongs == 0 || st.rejWrites == 0 {
		return fmt.Errorf("vacuous: clean=%d errored=%d pongs=%d rejected writes=%d", st.clean, st.errored, st.pongs, st.rejWrites)
	}

	// binding self-test for (a): a wrong expectation must be noticed by compare
	if err := selfTestReplay(c, pl); err != nil {
		return err
	}

	// ---- nonce negotiation table (concurrently with the traces: both mostly wait for TLC)
	negoDone := make(chan error, 1)
	go func() { negoDone <- negoTable(c, pl) }()

	// ---- (b) random scenarios recorded as traces, validated by TLC
	terr := randomTraces(c, pl, rnd)
	nerr := <-negoDone
	if terr != nil {
		return terr
	}
	if nerr != nil {
		return nerr
	}
	if c.NViolations() > 0 {
		return nil
	}

	c.Set("rule", "every scenario TLC enumerates from MC_PacketConn (crypto x packets x chunking x corruption class) is replayed into a real client/server PacketConn pair over an in-memory connection applying the model's chunking and corrupted byte; wire bytes, delivered packets, error kinds, bytes pulled per call and pongs are compared with the specification; random scenarios are validated by TLC against TracePacketConn")
	c.Assume("ideal checksum: re-framed reads after a corrupted length and CBC-garbled blocks are detected by the real CRC32C with probability 1-2^-32 per case, single changed bytes with certainty")
	c.Assume("CBC abstraction 'every byte of the garbled block differs from the original' is materialised by the driver (it retries with another mask when a garbled byte coincides, about 6% of the cases)")
	c.Assume("bodies do not embed a well-formed frame behind a length corrupted to the padding value; scenarios have at most 3 (model checking) / 6 (traces) packets, so sequence number 4 = padding value is not reached after a corrupted length")
	c.Assume("corruption only after the handshake; truncation, reordering and timeouts (ping emission) are not part of C35")
	return nil
}

// selfTestReplay: a correct run compared against a deliberately wrong expectation must fail.
func selfTestReplay(c *core.Ctx, pl *pool) error {
	q := runReq{Op: "run", Writer: "client", Enc: true, Ver: 1, Plain: true, Pkts: []pktReq{{Tp: 0x1234, Len: 5, Flush: true, Seed: 1}}}
	var resp runResp
	if err := pl.call(q, &resp); err != nil {
		return err
	}
	if len(resp.Runs) != 1 || len(resp.Runs[0].Reads) != 2 {
		return fmt.Errorf("self-test: unexpected driver answer")
	}
	r := resp.Runs[0]
	e := specEmit{Enc: true, Ver: 1, Pk: []specPk{{Tp: tpBytes(0x1234), Len: 5, Flush: true}},
		Sent:     []specSent{{}, {}, {Tp: tpBytes(0x1234), Len: 5, Seq: 0}},
		NonceEnd: r.NonceEnd, HsEnd: r.HsEnd, N: r.Total,
		Log: []specLog{{K: "pkt", I: 3, Need: r.Total, Cend: r.Total}, {K: "err", E: "eof", Need: r.Total, Cend: r.Total, EOF: true}}}
	mk := func(k string, p, n int) json.RawMessage {
		b, _ := json.Marshal([]any{k, p, n})
		return b
	}
	e.Segs = []json.RawMessage{mk("len", 1, r.HsEnd), mk("len", 3, 4), mk("seq", 3, 4), mk("type", 3, 4), mk("body", 3, 5), mk("crc", 3, 4), mk("align", 3, 3), mk("pad", 0, 8)}
	if d := compare(&e, &q, &r); d != "" {
		return fmt.Errorf("self-test: correct expectation rejected: %s", d)
	}
	bad := 0
	e1 := e
	e1.Log = []specLog{{K: "err", E: "crc", Need: r.Total, Cend: r.Total}}
	if compare(&e1, &q, &r) != "" {
		bad++
	}
	e2 := e
	e2.Segs = append([]json.RawMessage(nil), e.Segs...)
	e2.Segs[6], e2.Segs[7] = mk("align", 3, 2), mk("pad", 0, 9)
	if compare(&e2, &q, &r) != "" {
		bad++
	}
	r3 := r
	r3.Reads = append([]readRes(nil), r.Reads...)
	r3.Reads[0].Hash = "0000000000000000"
	if compare(&e, &q, &r3) != "" {
		bad++
	}
	if bad != 3 {
		return fmt.Errorf("binding self-test failed: %d of 3 wrong expectations were noticed", bad)
	}
	c.Set("selftest_wrong_expectation_noticed", true)
	return nil
}
