package packetconn

import (
	"encoding/json"
	"fmt"

	"verif/core"
)

// Keys as in the driver: "same" = the client's key, "other" = a key with another id,
// "prefix" = same 4-byte id, different tail.
const (
	keyClient = "verif-key-0123456789abcdef0123456789abcdef"
	keyOther  = "other-key-0123456789abcdef0123456789abcdef"
	keyPrefix = "verif-KEY-with-the-same-id-but-another-tail!"
)

type negoRow struct {
	Addr   string `json:"addr"`
	CTrust bool   `json:"ctrust"`
	STrust bool   `json:"strust"`
	CForce bool   `json:"cforce"`
	SForce bool   `json:"sforce"`
	CKey   bool   `json:"ckey"`
	SKey   string `json:"skey"`
	Ver    int    `json:"ver"`
}

type negoEmit struct {
	Row negoRow `json:"row"`
	Out string  `json:"out"`
	CS  string  `json:"cs"`
	SA  string  `json:"sa"`
}

type negoRes struct {
	Fail         string `json:"fail"`
	ClientErr    string `json:"clientErr"`
	ServerErr    string `json:"serverErr"`
	EncC         bool   `json:"encC"`
	EncS         bool   `json:"encS"`
	VerC         int    `json:"verC"`
	VerS         int    `json:"verS"`
	ClientSchema int    `json:"clientSchema"`
	ServerSchema int    `json:"serverSchema"`
	Echo         bool   `json:"echo"`
	Panic        string `json:"panic"`
}

var schemaCode = map[string]int{"none": 0, "aes": 1, "noneOrAes": 2, "error": -1}

func negoCompare(e *negoEmit, r *negoRes) string {
	if r.Fail != "" || r.Panic != "" {
		return "harness: " + r.Fail + r.Panic
	}
	if r.ClientSchema != schemaCode[e.CS] {
		return fmt.Sprintf("client put schema %d on the wire, specified %s", r.ClientSchema, e.CS)
	}
	if e.CS != "error" && r.ServerSchema != schemaCode[e.SA] {
		return fmt.Sprintf("server answered schema %d, specified %s", r.ServerSchema, e.SA)
	}
	switch e.Out {
	case "plain", "aes":
		if r.ClientErr != "" || r.ServerErr != "" {
			return fmt.Sprintf("handshake failed (client %q, server %q), specified %s", r.ClientErr, r.ServerErr, e.Out)
		}
		if want := e.Out == "aes"; r.EncC != want || r.EncS != want {
			return fmt.Sprintf("encryption client=%v server=%v, specified %s", r.EncC, r.EncS, e.Out)
		}
		if r.VerC != e.Row.Ver || r.VerS != e.Row.Ver {
			return fmt.Sprintf("protocol version client=%d server=%d, specified %d", r.VerC, r.VerS, e.Row.Ver)
		}
		if !r.Echo {
			return "both handshakes succeeded but a packet did not make the round trip"
		}
	default:
		if r.ClientErr == "" || r.ServerErr == "" {
			return fmt.Sprintf("handshake result client %q server %q, specified failure %s on both ends", r.ClientErr, r.ServerErr, e.Out)
		}
	}
	return ""
}

func negoReq(row negoRow) map[string]any {
	q := map[string]any{"op": "nego", "addr": row.Addr, "ctrust": row.CTrust, "strust": row.STrust,
		"cforce": row.CForce, "sforce": row.SForce, "ver": row.Ver, "ckey": "", "skeys": []string{}}
	if row.CKey {
		q["ckey"] = keyClient
	}
	switch row.SKey {
	case "same":
		q["skeys"] = []string{keyOther, keyClient}
	case "other":
		q["skeys"] = []string{keyOther}
	case "prefix":
		q["skeys"] = []string{keyPrefix, keyOther}
	}
	return q
}

// negoTable replays every row of the negotiation table through the real handshake.
func negoTable(c *core.Ctx, pl *pool) error {
	res, err := c.MustTLC(core.TLCOpts{Module: "MC_PacketConnNego", Cfg: "MC_PacketConnNego.cfg", Workers: 2, HeapMB: 512})
	if err != nil {
		return err
	}
	if res.NEmits != res.Distinct || res.NEmits == 0 {
		return fmt.Errorf("negotiation table: %d rows printed for %d states", res.NEmits, res.Distinct)
	}
	c.Add("states", res.Distinct)
	c.Add("transitions", res.Generated)
	outs := map[string]int{}
	for _, raw := range res.Emits {
		var e negoEmit
		if err := json.Unmarshal(raw, &e); err != nil {
			return err
		}
		q := negoReq(e.Row)
		var r negoRes
		if err := pl.call(q, &r); err != nil {
			return err
		}
		outs[e.Out]++
		c.Add("evaluations", 1)
		if bad := negoCompare(&e, &r); bad != "" {
			var r2 negoRes
			if err := pl.fresh(q, &r2); err != nil {
				return err
			}
			bad2 := negoCompare(&e, &r2)
			if bad2 == "" {
				return fmt.Errorf("negotiation mismatch not reproduced: %s", bad)
			}
			if len(bad2) > 8 && bad2[:8] == "harness:" {
				return fmt.Errorf("negotiation row %+v: %s", e.Row, bad2)
			}
			c.Violate(fmt.Sprintf("nego/%s/ct=%v,st=%v,cf=%v,sf=%v,ck=%v,sk=%s,v=%d", e.Row.Addr, e.Row.CTrust, e.Row.STrust, e.Row.CForce, e.Row.SForce, e.Row.CKey, e.Row.SKey, e.Row.Ver),
				"nonce negotiation disagrees with spec/PacketConn.tla (NegoOutcome): "+bad2, map[string]any{"request": q, "specified": e, "observed": r2})
		}
	}
	c.Logf("negotiation table: %d rows replayed", res.NEmits)
	c.Set("negotiation_rows_by_outcome", outs)
	for _, k := range []string{"plain", "aes", "client_refuses", "server_refuses", "key_mismatch"} {
		if outs[k] == 0 {
			return fmt.Errorf("vacuous: negotiation outcome %q never specified (%v)", k, outs)
		}
	}
	return nil
}
