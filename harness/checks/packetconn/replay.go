package packetconn

import (
	"bytes"
	"encoding/json"
	"fmt"
	"os"

	"verif/core"
)

// replayFile re-runs the scenario stored in a replay file written for a C35 violation:
// either a TLC-enumerated scenario (request + specified observations) or a recorded trace
// (request whose fresh recording is validated again by TLC), or a negotiation row.
func replayFile(c *core.Ctx, pl *pool) error {
	b, err := os.ReadFile(c.Replay)
	if err != nil {
		return err
	}
	var f struct {
		Key    string `json:"key"`
		Replay struct {
			Request   json.RawMessage `json:"request"`
			Specified json.RawMessage `json:"specified"`
			Events    json.RawMessage `json:"events"`
		} `json:"replay"`
	}
	if err := json.Unmarshal(b, &f); err != nil {
		return err
	}
	if len(f.Replay.Request) == 0 {
		return fmt.Errorf("replay file %s has no request", c.Replay)
	}
	c.Add("evaluations", 1)
	switch {
	case bytes.Contains(f.Replay.Request, []byte(`"op":"nego"`)):
		var e negoEmit
		if err := json.Unmarshal(f.Replay.Specified, &e); err != nil {
			return err
		}
		var q map[string]any
		_ = json.Unmarshal(f.Replay.Request, &q)
		var r negoRes
		if err := pl.fresh(q, &r); err != nil {
			return err
		}
		if bad := negoCompare(&e, &r); bad != "" {
			c.Violate(f.Key, "nonce negotiation disagrees with spec/PacketConn.tla (NegoOutcome): "+bad, map[string]any{"request": q, "specified": e, "observed": r})
		}
	case len(f.Replay.Specified) > 0:
		var e specEmit
		var q runReq
		if err := json.Unmarshal(f.Replay.Specified, &e); err != nil {
			return err
		}
		if err := json.Unmarshal(f.Replay.Request, &q); err != nil {
			return err
		}
		var resp runResp
		if err := pl.fresh(q, &resp); err != nil {
			return err
		}
		if len(resp.Runs) != 1 {
			return fmt.Errorf("driver returned %d runs", len(resp.Runs))
		}
		if bad := compare(&e, &q, &resp.Runs[0]); bad != "" {
			c.Violate(f.Key, "rpc.PacketConn disagrees with spec/PacketConn.tla: "+bad, map[string]any{"request": q, "specified": e, "observed": resp.Runs[0]})
		}
	default:
		var q runReq
		if err := json.Unmarshal(f.Replay.Request, &q); err != nil {
			return err
		}
		var resp runResp
		if err := pl.fresh(q, &resp); err != nil {
			return err
		}
		if len(resp.Runs) != 1 {
			return fmt.Errorf("driver returned %d runs", len(resp.Runs))
		}
		s := traceScenFromReq(q)
		evs := s.events(&resp.Runs[0])
		one := append(bytes.Join(evs, []byte("\n")), '\n')
		ok, m, err := validate(c, one, 1)
		if err != nil {
			return err
		}
		if !ok && m < len(evs) {
			c.Violate(f.Key, fmt.Sprintf("recorded PacketConn behaviour is not a behaviour of spec/PacketConn.tla: event %d of the scenario is refused: %s", m+1, evs[m]),
				map[string]any{"request": q, "events": rawList(evs), "refused_event_index": m})
		}
	}
	c.Add("states", 1)
	c.Add("transitions", 1)
	c.Add("traces_validated_against_impl", 1)
	c.Sample(map[string]any{"replayed": c.Replay})
	return nil
}
