package packetconn

import (
	"bytes"
	"encoding/json"
	"fmt"
	"math/rand"
	"sort"
	"strings"

	"verif/core"
)

// One random scenario = one driver request (possibly many corruptions = many runs).
type traceScen struct {
	req      runReq
	cutEvery int
	cutAt    []int
}

// traceScenFromReq recovers the chunking description from a stored request (replay files).
func traceScenFromReq(q runReq) *traceScen {
	return &traceScen{req: q, cutEvery: q.CutEvery, cutAt: q.CutAt}
}

var traceLens = []int{0, 0, 1, 2, 3, 4, 5, 7, 8, 8, 11, 12, 13, 15, 16, 17, 20, 28, 31, 32, 33, 47, 48, 60, 64, 100,
	239, 240, 241, 255, 256, 1000, 4079, 4080, 4096, 5000, 65519, 65520, 65536, 70001}

// big: 0 = bodies up to 300 bytes, 1 = at least one body of 4..5 KB, 2 = bodies up to 70 KB
func randScenario(rnd *rand.Rand, big int) traceScen {
	var s traceScen
	q := runReq{Op: "run", Enc: rnd.Intn(2) == 0, Ver: rnd.Intn(3), Unlock: rnd.Intn(4) == 0}
	if rnd.Intn(2) == 0 {
		q.Writer = "client"
	} else {
		q.Writer = "server"
	}
	q.RBuf = bufSizes[rnd.Intn(len(bufSizes))]
	q.WBuf = bufSizes[rnd.Intn(len(bufSizes))]
	n := 1 + rnd.Intn(6)
	for i := 0; i < n; i++ {
		p := pktReq{Seed: rnd.Int63n(1 << 40), Flush: rnd.Intn(3) != 0, API: rnd.Intn(3)}
		switch x := rnd.Intn(20); {
		case x == 0:
			p.Tp, p.Len = 0x5730a2df, 8 // ping
		case x == 1:
			p.Tp, p.Len = 0x5730a2df, []int{0, 4, 12}[rnd.Intn(3)] // malformed ping
		case x == 2:
			p.Tp, p.Len = 0x8430eaa7, 8 // unsolicited pong
		default:
			p.Tp = rnd.Uint32()
			if rnd.Intn(4) == 0 {
				p.Tp = []uint32{0, 4, 1, 0x7acb87aa, 0x7682eef5, 0x5730a2de, 0xffffffff}[rnd.Intn(7)]
			}
			if big == 2 || rnd.Intn(3) > 0 {
				p.Len = traceLens[rnd.Intn(len(traceLens))]
			} else {
				p.Len = rnd.Intn(40)
			}
			if big < 2 && p.Len > 300 {
				p.Len = rnd.Intn(300)
			}
			if big == 1 && i == n/2 {
				p.Len = []int{4079, 4080, 4096, 5000, 4100}[rnd.Intn(5)]
				if q.Ver == 0 {
					p.Len &^= 3
				}
			}
			if q.Ver == 0 && rnd.Intn(4) > 0 {
				p.Len &^= 3
			}
		}
		if p.API == 1 && !p.Flush {
			p.API = 0
		}
		q.Pkts = append(q.Pkts, p)
		if !q.Enc && rnd.Intn(8) == 0 {
			q.Pkts = append(q.Pkts, pktReq{Raw: 1 + rnd.Intn(5), Flush: true})
		}
	}
	s.req = q
	return s
}

func (s *traceScen) setCuts(rnd *rand.Rand, total int) {
	switch rnd.Intn(4) {
	case 0:
	case 1:
		s.cutEvery = 1 + rnd.Intn(40)
		if total > 20000 && s.cutEvery < 16 {
			s.cutEvery += 500
		}
	case 2:
		s.cutEvery = []int{1, 4, 15, 16, 17, 4096}[rnd.Intn(6)]
		if total > 20000 && s.cutEvery < 16 {
			s.cutEvery = 4099
		}
	default:
		for i, k := 0, 1+rnd.Intn(8); i < k; i++ {
			s.cutAt = append(s.cutAt, 1+rnd.Intn(total-1))
		}
		sort.Ints(s.cutAt)
	}
	s.req.Cuts = nil
	if s.cutEvery > 0 {
		for x := s.cutEvery; x < total; x += s.cutEvery {
			s.req.Cuts = append(s.req.Cuts, x)
		}
	}
	s.req.Cuts = append(s.req.Cuts, s.cutAt...)
	sort.Ints(s.req.Cuts)
	s.req.CutEvery, s.req.CutAt = s.cutEvery, s.cutAt
}

// events turns one recorded run into the NDJSON events of TracePacketConn.
func (s *traceScen) events(r *runRes) [][]byte {
	var out [][]byte
	add := func(m map[string]any) {
		b, _ := json.Marshal(m)
		out = append(out, b)
	}
	add(map[string]any{"ev": "start", "enc": r.EncA, "ver": r.VerA, "nonceEnd": r.NonceEnd, "hsEnd": r.HsEnd})
	for i, w := range r.Writes {
		p := s.req.Pkts[i]
		if p.Raw > 0 {
			add(map[string]any{"ev": "rawpad", "k": p.Raw, "wire": w.Wire})
			continue
		}
		add(map[string]any{"ev": "write", "tp": tpBytes(p.Tp), "len": p.Len, "h": w.Hash, "flush": p.Flush, "err": w.Err, "wire": w.Wire, "trailer": w.Tail})
	}
	at := s.cutAt
	if at == nil {
		at = []int{}
	}
	pos, mask := 0, 0
	if r.Pos >= 0 {
		pos, mask = r.Pos+1, r.Mask
	}
	add(map[string]any{"ev": "seal", "every": s.cutEvery, "at": at, "pos": pos, "mask": mask, "total": r.Total})
	for _, rd := range r.Reads {
		add(map[string]any{"ev": "read", "k": rd.Kind, "tp": tpBytes(rd.Tp), "len": rd.Len, "h": rd.Hash, "e": rd.Err, "served": rd.Served, "eof": rd.EOF})
	}
	unit := 24
	if r.EncB {
		unit = 32
	}
	revn := r.RevTotal - r.RevHsEnd
	pongs := -1
	if revn%unit == 0 {
		pongs = revn / unit
	}
	add(map[string]any{"ev": "end", "revn": revn, "pongs": pongs})
	return out
}

type recorded struct {
	scen   *traceScen
	corr   *corrReq // nil: no corruption
	events [][]byte
	from   int // index of the first event in the concatenated trace (0-based)
}

func validate(c *core.Ctx, trace []byte, workers int) (ok bool, matched int, err error) {
	r, err := c.TLC(core.TLCOpts{Module: "TracePacketConn", Cfg: "TracePacketConn.cfg", Files: map[string][]byte{"trace.ndjson": trace}, Workers: 1, HeapMB: 1024})
	if err != nil {
		return false, 0, err
	}
	if r.OK {
		return true, 0, nil
	}
	if r.ErrorKind != "postcondition" && r.NEmits == 0 {
		return false, 0, fmt.Errorf("TracePacketConn failed: %s\n%s", r.ErrorKind, r.ErrorText)
	}
	if len(r.Emits) == 0 {
		return false, 0, fmt.Errorf("TracePacketConn rejected the trace without reporting the position:\n%s", r.ErrorText)
	}
	var m struct {
		Matched int `json:"matched"`
	}
	if err := json.Unmarshal(r.Emits[0], &m); err != nil {
		return false, 0, err
	}
	return false, m.Matched, nil
}

func randomTraces(c *core.Ctx, pl *pool, rnd *rand.Rand) error {
	nScen := c.Pick(16, 160)
	window := c.Pick(20, 72)
	var recs []*recorded
	outcomes := map[string]int{}
	nruns := 0
	for i := 0; i < nScen; i++ {
		big := 0
		if i%4 == 0 {
			big = c.Pick(1, 2)
		} else if i%4 == 1 && c.Thorough() {
			big = 1
		}
		s := randScenario(rnd, big)
		// first run, uncorrupted and unchunked, tells the layout
		var base runResp
		if err := pl.call(s.req, &base); err != nil {
			return err
		}
		if len(base.Runs) == 1 && (strings.HasPrefix(base.Runs[0].Fail, "panic:") || strings.HasPrefix(base.Runs[0].Fail, "deadlock")) {
			c.Violate(fmt.Sprintf("trace/enc=%v,ver=%d/fail", s.req.Enc, s.req.Ver), "rpc.PacketConn failed outright: "+base.Runs[0].Fail, map[string]any{"request": s.req})
			return nil
		}
		if len(base.Runs) != 1 || base.Runs[0].Fail != "" || base.Runs[0].HsErrA != "" || base.Runs[0].HsErrB != "" {
			return fmt.Errorf("trace scenario failed at harness level: %+v", base)
		}
		hsEnd, total := base.Runs[0].HsEnd, base.Runs[0].Total
		s.setCuts(rnd, total)
		sc := s
		var clean runResp
		if err := pl.call(sc.req, &clean); err != nil {
			return err
		}
		recs = append(recs, &recorded{scen: &sc, events: sc.events(&clean.Runs[0])})
		nruns++
		if total > hsEnd {
			// every byte of a window, plus a few single positions anywhere
			w0 := hsEnd
			if rnd.Intn(3) > 0 {
				w0 = hsEnd + rnd.Intn(total-hsEnd)
			}
			var corrs []corrReq
			wlen := window
			if total > 20000 {
				wlen = window / 4
			}
			for p := w0; p < w0+wlen && p < total; p++ {
				corrs = append(corrs, corrReq{Pos: p, Mask: 1 + rnd.Intn(255), Exact: !sc.req.Enc})
			}
			for k := 0; k < 4; k++ {
				corrs = append(corrs, corrReq{Pos: hsEnd + rnd.Intn(total-hsEnd), Mask: 1 + rnd.Intn(255), Exact: !sc.req.Enc})
			}
			q := sc.req
			q.Corrs = corrs
			var resp runResp
			if err := pl.call(q, &resp); err != nil {
				return err
			}
			if len(resp.Runs) != len(corrs) {
				return fmt.Errorf("driver returned %d runs for %d corruptions", len(resp.Runs), len(corrs))
			}
			for j := range resp.Runs {
				r := &resp.Runs[j]
				if strings.HasPrefix(r.Fail, "panic:") || strings.HasPrefix(r.Fail, "deadlock") {
					c.Violate(fmt.Sprintf("trace/enc=%v,ver=%d/fail@%d", q.Enc, q.Ver, corrs[j].Pos-hsEnd), "rpc.PacketConn failed outright: "+r.Fail, map[string]any{"request": q, "corruption": corrs[j]})
					return nil
				}
				if r.Fail != "" {
					return fmt.Errorf("trace run failed at harness level: %s", r.Fail)
				}
				cc := corrs[j]
				cc.Mask = r.Mask
				recs = append(recs, &recorded{scen: &sc, corr: &cc, events: sc.events(r)})
				nruns++
				last := r.Reads[len(r.Reads)-1]
				outcomes[last.Err]++
			}
		}
	}
	c.Logf("traces: %d runs of %d random scenarios recorded", nruns, nScen)
	var buf bytes.Buffer
	nev := 0
	for _, rc := range recs {
		rc.from = nev
		for _, e := range rc.events {
			buf.Write(e)
			buf.WriteByte('\n')
			nev++
		}
	}
	// binding self-test (runs concurrently with the real validation): one corrupted field of a
	// recorded trace must be refused, and at the corrupted event
	lines := bytes.Split(bytes.TrimSpace(buf.Bytes()), []byte("\n"))
	if len(lines) > 300 {
		lines = lines[:300]
	}
	kinds := []string{"hash", "err", "served", "wire"}
	if !c.Thorough() {
		kinds = []string{"hash", "err", "served"}
	}
	type stRes struct {
		kind string
		err  error
		done bool
	}
	stCh := make(chan stRes, len(kinds))
	for _, kind := range kinds {
		go func(kind string) {
			bad, at := corruptTrace(lines, kind)
			if bad == nil {
				stCh <- stRes{kind: kind}
				return
			}
			ok, m, err := validate(c, bad, 1)
			switch {
			case err != nil:
				stCh <- stRes{kind: kind, err: err}
			case ok:
				stCh <- stRes{kind: kind, err: fmt.Errorf("binding self-test failed: trace with corrupted %s was accepted", kind)}
			case m != at:
				stCh <- stRes{kind: kind, err: fmt.Errorf("binding self-test failed: corrupted %s at event %d, refusal reported at %d", kind, at, m)}
			default:
				stCh <- stRes{kind: kind, done: true}
			}
		}(kind)
	}
	ok, matched, err := validate(c, buf.Bytes(), 1)
	mut := 0
	var stErr error
	for range kinds {
		r := <-stCh
		if r.err != nil && stErr == nil {
			stErr = r.err
		}
		if r.done {
			mut++
		}
	}
	if err != nil {
		return err
	}
	c.Set("trace_outcomes_after_corruption", outcomes)
	if !ok {
		// locate the scenario, reproduce it in a fresh process, validate it alone
		var rc *recorded
		for _, x := range recs {
			if x.from <= matched {
				rc = x
			}
		}
		q := rc.scen.req
		if rc.corr != nil {
			cc := *rc.corr
			q.Corrs = []corrReq{cc}
		}
		var resp runResp
		if err := pl.fresh(q, &resp); err != nil {
			return err
		}
		if len(resp.Runs) != 1 {
			return fmt.Errorf("reproduction returned %d runs", len(resp.Runs))
		}
		evs := rc.scen.events(&resp.Runs[0])
		one := bytes.Join(evs, []byte("\n"))
		one = append(one, '\n')
		ok2, m2, err := validate(c, one, 1)
		if err != nil {
			return err
		}
		if ok2 {
			return fmt.Errorf("trace rejection at event %d not reproduced: %s", matched, rc.events[matched-rc.from])
		}
		if m2 >= len(evs) {
			return fmt.Errorf("inconsistent rejection index %d", m2)
		}
		key := fmt.Sprintf("trace/enc=%v,ver=%d/%s", q.Enc, q.Ver, traceEventKey(evs[m2]))
		if rc.corr != nil {
			key += fmt.Sprintf("/corr@%d", rc.corr.Pos-resp.Runs[0].HsEnd)
		}
		c.Violate(key, fmt.Sprintf("recorded PacketConn behaviour is not a behaviour of spec/PacketConn.tla: event %d of the scenario is refused: %s", m2+1, evs[m2]),
			map[string]any{"request": q, "events": rawList(evs), "refused_event_index": m2})
		return nil
	}
	c.Add("traces_validated_against_impl", nruns)
	c.Add("trace_events_validated", nev)
	c.Add("states", nev+1)
	c.Add("transitions", nev)
	if len(recs) > 1 {
		c.Sample(map[string]any{"trace": rawList(recs[1].events)})
	}
	c.Logf("TracePacketConn: %d runs, %d events accepted", nruns, nev)

	if stErr != nil {
		return stErr
	}
	if mut < 3 {
		return fmt.Errorf("binding self-test could corrupt only %d kinds of fields", mut)
	}
	c.Set("selftest_corrupted_traces_rejected", mut)
	return nil
}

func rawList(evs [][]byte) []json.RawMessage {
	out := make([]json.RawMessage, len(evs))
	for i, e := range evs {
		out[i] = e
	}
	return out
}

func traceEventKey(ev []byte) string {
	var m map[string]any
	_ = json.Unmarshal(ev, &m)
	switch m["ev"] {
	case "read":
		return fmt.Sprintf("read:%v:%v", m["k"], m["e"])
	case "write":
		return fmt.Sprintf("write:len=%v,err=%v", m["len"], m["err"])
	}
	return fmt.Sprint(m["ev"])
}

// corruptTrace changes one logged observation of the first suitable event.
func corruptTrace(lines [][]byte, kind string) ([]byte, int) {
	out := make([][]byte, len(lines))
	copy(out, lines)
	for i, l := range lines {
		var m map[string]any
		if json.Unmarshal(l, &m) != nil {
			continue
		}
		done := false
		switch {
		case kind == "hash" && m["ev"] == "read" && m["k"] == "pkt":
			m["h"] = strings.Repeat("0", 16)
			done = true
		case kind == "err" && m["ev"] == "read" && m["k"] == "err" && m["e"] == "crc":
			m["e"] = "seq"
			done = true
		case kind == "served" && m["ev"] == "read" && m["k"] == "pkt":
			m["served"] = 1
			done = true
		case kind == "wire" && m["ev"] == "write" && m["flush"] == true && m["err"] == "":
			m["wire"] = m["wire"].(float64) + 4
			done = true
		}
		if done {
			b, _ := json.Marshal(m)
			out[i] = b
			return append(bytes.Join(out, []byte("\n")), '\n'), i
		}
	}
	return nil, 0
}
