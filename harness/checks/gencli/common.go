// Package gencli: the generators as command-line tools — C15 (determinism),
// C16 (output directory management), C14 (accepted schemas build, no panics),
// C24 (unique non-zero tags), C26 (TLO faithful).
package gencli

import (
	"bytes"
	"context"
	"crypto/sha256"
	"encoding/hex"
	"encoding/json"
	"fmt"
	"hash/crc32"
	"os"
	"os/exec"
	"path/filepath"
	"sort"
	"strings"
	"sync"
	"time"

	"verif/core"
)

// ---------------------------------------------------------------------------
// running the real tools

type tools struct {
	tl2gen string
	tlgen  string
}

func buildTools(c *core.Ctx, needTlgen bool) (*tools, error) {
	t := &tools{}
	var err error
	if t.tl2gen, err = c.BuildRepoCmd("tl2gen"); err != nil {
		return nil, err
	}
	if needTlgen {
		if t.tlgen, err = c.BuildRepoCmd("tlgen"); err != nil {
			return nil, err
		}
	}
	return t, nil
}

type runResult struct {
	Out  string
	Exit int
	Err  error // non-exit errors (timeout, cannot start)
}

// runCmd runs a command, returning combined output and exit status.
func runCmd(dir string, env []string, timeout time.Duration, name string, args ...string) runResult {
	ctx, cancel := context.WithTimeout(context.Background(), timeout)
	defer cancel()
	cmd := exec.CommandContext(ctx, name, args...)
	cmd.Dir = dir
	if env != nil {
		cmd.Env = env
	}
	var buf bytes.Buffer
	cmd.Stdout = &buf
	cmd.Stderr = &buf
	err := cmd.Run()
	r := runResult{Out: buf.String()}
	if ctx.Err() != nil {
		r.Err = fmt.Errorf("%s timed out after %v", name, timeout)
		r.Exit = -1
		return r
	}
	if err != nil {
		if ee, ok := err.(*exec.ExitError); ok {
			r.Exit = ee.ExitCode()
		} else {
			r.Err = err
			r.Exit = -1
		}
	}
	return r
}

func envWith(kv ...string) []string {
	env := []string{}
	for _, e := range os.Environ() {
		skip := false
		for _, x := range kv {
			if strings.HasPrefix(e, strings.SplitN(x, "=", 2)[0]+"=") {
				skip = true
			}
		}
		if !skip {
			env = append(env, e)
		}
	}
	return append(env, kv...)
}

func hasStackTrace(out string) bool {
	return strings.Contains(out, "panic:") || strings.Contains(out, "goroutine ") || strings.Contains(out, "fatal error:") ||
		strings.Contains(out, "runtime error")
}

// parallel runs f(i) for i in [0,n) on `workers` goroutines.
func parallel(n, workers int, f func(i int)) {
	if workers < 1 {
		workers = 1
	}
	var wg sync.WaitGroup
	ch := make(chan int)
	for w := 0; w < workers; w++ {
		wg.Add(1)
		go func() {
			defer wg.Done()
			for i := range ch {
				f(i)
			}
		}()
	}
	for i := 0; i < n; i++ {
		ch <- i
	}
	close(ch)
	wg.Wait()
}

// ---------------------------------------------------------------------------
// file trees

func shortHash(b []byte) string {
	h := sha256.Sum256(b)
	return hex.EncodeToString(h[:8])
}

type treeFile struct {
	Hash  string
	MTime time.Time
}

// scanTree lists regular files (relative slash paths) and directories under root.
// A missing root is an empty tree.
func scanTree(root string) (files map[string]treeFile, dirs []string, err error) {
	files = map[string]treeFile{}
	if _, e := os.Stat(root); os.IsNotExist(e) {
		return files, nil, nil
	}
	err = filepath.Walk(root, func(p string, info os.FileInfo, e error) error {
		if e != nil {
			return e
		}
		rel, _ := filepath.Rel(root, p)
		rel = filepath.ToSlash(rel)
		if rel == "." {
			return nil
		}
		if info.IsDir() {
			dirs = append(dirs, rel)
			return nil
		}
		b, e := os.ReadFile(p)
		if e != nil {
			return e
		}
		files[rel] = treeFile{Hash: shortHash(b), MTime: info.ModTime()}
		return nil
	})
	sort.Strings(dirs)
	return
}

// treeDigest is the digest of a run's output: sha256 over the sorted list of
// (path, sha256(content)).
func treeDigest(roots ...string) (string, int, error) {
	h := sha256.New()
	n := 0
	for _, root := range roots {
		st, err := os.Stat(root)
		if err != nil {
			return "", 0, err
		}
		if !st.IsDir() {
			b, err := os.ReadFile(root)
			if err != nil {
				return "", 0, err
			}
			fmt.Fprintf(h, "%s %x\n", filepath.Base(root), sha256.Sum256(b))
			n++
			continue
		}
		files, _, err := scanTreeFull(root)
		if err != nil {
			return "", 0, err
		}
		var names []string
		for k := range files {
			names = append(names, k)
		}
		sort.Strings(names)
		for _, k := range names {
			fmt.Fprintf(h, "%s %s\n", k, files[k])
			n++
		}
	}
	return hex.EncodeToString(h.Sum(nil))[:32], n, nil
}

func scanTreeFull(root string) (map[string]string, []string, error) {
	files := map[string]string{}
	var dirs []string
	err := filepath.Walk(root, func(p string, info os.FileInfo, e error) error {
		if e != nil {
			return e
		}
		rel, _ := filepath.Rel(root, p)
		rel = filepath.ToSlash(rel)
		if info.IsDir() {
			if rel != "." {
				dirs = append(dirs, rel)
			}
			return nil
		}
		b, e := os.ReadFile(p)
		if e != nil {
			return e
		}
		s := sha256.Sum256(b)
		files[rel] = hex.EncodeToString(s[:])
		return nil
	})
	return files, dirs, err
}

func copyTree(src, dst string) error {
	return filepath.Walk(src, func(p string, info os.FileInfo, e error) error {
		if e != nil {
			return e
		}
		rel, _ := filepath.Rel(src, p)
		t := filepath.Join(dst, rel)
		if info.IsDir() {
			return os.MkdirAll(t, 0o755)
		}
		b, e := os.ReadFile(p)
		if e != nil {
			return e
		}
		return os.WriteFile(t, b, 0o644)
	})
}

func writeFileMk(path string, data []byte) error {
	if err := os.MkdirAll(filepath.Dir(path), 0o755); err != nil {
		return err
	}
	return os.WriteFile(path, data, 0o644)
}

// ---------------------------------------------------------------------------
// schemas emitted by SchemaSpace.tla and their rendering as TL text

type mField struct {
	N    string `json:"n"`
	K    string `json:"k"`
	A    int    `json:"a"`
	B    int    `json:"b"`
	Bare bool   `json:"bare"`
}

type mTag struct {
	K string `json:"k"`
	A int    `json:"a"`
	B int    `json:"b"`
}

type mRes struct {
	K string `json:"k"`
	A int    `json:"a"`
}

type mComb struct {
	Kind   string   `json:"kind"`
	Ns     string   `json:"ns"`
	Cn     string   `json:"cn"`
	Tn     string   `json:"tn"`
	Targs  []string `json:"targs"`
	Fields []mField `json:"fields"`
	Res    mRes     `json:"res"`
	Tag    mTag     `json:"tag"`
	TL2    bool     `json:"tl2"`
}

type mSchema struct {
	Schema   []mComb `json:"schema"`
	Mut      string  `json:"mut"`
	Opt      string  `json:"opt"`
	Accepted bool    `json:"accepted"`
	WF       bool    `json:"wf"`
	TagsOK   bool    `json:"tagsok"`
	Eff      []mTag  `json:"eff"`
}

// The standard prelude (DESIGN 3.1), copied from the repository's own test schemas:
// the kernel recognises these shapes by name.
const preludeTL1 = `int#a8509bda ? = Int;
long#22076cba ? = Long;
float#824dab22 ? = Float;
double#2210c154 ? = Double;
string#b5286e24 ? = String;
vector#1cb5c415 {t:Type} # [t] = Vector t;
tuple#9770768a {t:Type} {n:#} [t] = Tuple t n;
dictionaryField {t:Type} key:string value:t = DictionaryField t;
dictionary#1f4c618f {t:Type} %(Vector %(DictionaryField t)) = Dictionary t;
dictionaryAnyField {k:Type} {v:Type} key:k value:v = DictionaryAnyField k v;
dictionaryAny#1f4c6190 {k:Type} {v:Type} # [(dictionaryAnyField k v)] = DictionaryAny k v;
true = True;
boolFalse#bc799737 = Bool;
boolTrue#997275b5 = Bool;
resultFalse#27930a7b {t:Type} = Maybe t;
resultTrue#3f9c8ef8 {t:Type} t = Maybe t;
pair {X:Type} {Y:Type} x:X y:Y = Pair X Y;
`

// tags of the prelude constructors (explicit ones as written, implicit ones = CRC32 of
// the canonical form computed below and cross-checked against --language=canonical).
var preludeTags = map[string]uint32{
	"int": 0xa8509bda, "long": 0x22076cba, "float": 0x824dab22, "double": 0x2210c154, "string": 0xb5286e24,
	"vector": 0x1cb5c415, "tuple": 0x9770768a, "dictionary": 0x1f4c618f, "dictionaryAny": 0x1f4c6190,
	"boolFalse": 0xbc799737, "boolTrue": 0x997275b5, "resultFalse": 0x27930a7b, "resultTrue": 0x3f9c8ef8,
	"dictionaryField":    crc32.ChecksumIEEE([]byte("dictionaryField t:Type key:string value:t = DictionaryField t")),
	"dictionaryAnyField": crc32.ChecksumIEEE([]byte("dictionaryAnyField k:Type v:Type key:k value:v = DictionaryAnyField k v")),
	"true":               crc32.ChecksumIEEE([]byte("true = True")),
	"pair":               crc32.ChecksumIEEE([]byte("pair X:Type Y:Type x:X y:Y = Pair X Y")),
}

func fullName(ns, n string) string {
	if ns == "" {
		return n
	}
	return ns + "." + n
}

func upperFirst(s string) string {
	if s == "" {
		return s
	}
	return strings.ToUpper(s[:1]) + s[1:]
}

func (c *mComb) ctorName() string {
	if c.Kind == "upperctor" {
		return fullName(c.Ns, upperFirst(c.Cn))
	}
	return fullName(c.Ns, c.Cn)
}
func (c *mComb) typeName() string { return fullName(c.Ns, c.Tn) }

func targName(kind string, i int) string {
	if kind == "nat" {
		return fmt.Sprintf("n%d", i)
	}
	return fmt.Sprintf("t%d", i)
}

// renderer turns a model schema into TL1 text. Field types are rendered twice:
// `src` as written in the file and `canon` in the canonical form that the CRC32 of
// an implicitly tagged combinator is taken of (tokens separated by one space, no
// braces/parentheses, "[ T ]").
type fieldText struct{ src, canon string }

func maskName(c *mComb, idx int) string {
	if idx >= 1 && idx <= len(c.Fields) {
		return c.Fields[idx-1].N
	}
	return fmt.Sprintf("nomask%d", idx)
}

func renderFieldType(s []mComb, ci int, f mField) fieldText {
	c := &s[ci]
	ref := func(j int, bare bool) string {
		if j < 1 || j > len(s) {
			return "int"
		}
		if bare {
			return s[j-1].ctorName()
		}
		return s[j-1].typeName()
	}
	elem := func(j int) string {
		if j == 0 {
			return "int"
		}
		return ref(j, true)
	}
	switch f.K {
	case "nat":
		return fieldText{"#", "#"}
	case "int", "long", "string", "double":
		return fieldText{f.K, f.K}
	case "bool":
		return fieldText{"Bool", "Bool"}
	case "mtrue":
		m := fmt.Sprintf("%s.%d?", maskName(c, f.A), f.B)
		return fieldText{m + "true", m + "true"}
	case "mint":
		m := fmt.Sprintf("%s.%d?", maskName(c, f.A), f.B)
		return fieldText{m + "int", m + "int"}
	case "vec":
		return fieldText{"(vector " + elem(f.A) + ")", "vector " + elem(f.A)}
	case "maybe":
		return fieldText{"(Maybe " + elem(f.A) + ")", "Maybe " + elem(f.A)}
	case "arr":
		return fieldText{maskName(c, f.A) + "*[int]", maskName(c, f.A) + "*[ int ]"}
	case "arrc":
		return fieldText{fmt.Sprintf("%d*[int]", f.A), fmt.Sprintf("%d*[ int ]", f.A)}
	case "tuplec":
		return fieldText{fmt.Sprintf("(tuple int %d)", f.A), fmt.Sprintf("tuple int %d", f.A)}
	case "ref":
		return fieldText{ref(f.A, f.Bare), ref(f.A, f.Bare)}
	case "rec":
		m := fmt.Sprintf("%s.%d?", maskName(c, f.A), f.B)
		return fieldText{m + c.ctorName(), m + c.ctorName()}
	case "dict":
		return fieldText{"(dictionary int)", "dictionary int"}
	case "dictany":
		return fieldText{"(dictionaryAny int string)", "dictionaryAny int string"}
	case "pair":
		return fieldText{"(pair int string)", "pair int string"}
	case "tinst":
		if f.A >= 1 && f.A <= len(s) {
			t := &s[f.A-1]
			args := ""
			for _, k := range t.Targs {
				if k == "nat" {
					args += " 3"
				} else {
					args += " int"
				}
			}
			return fieldText{"(" + t.ctorName() + args + ")", t.ctorName() + args}
		}
		return fieldText{"int", "int"}
	case "tparam":
		n := targName("type", f.A)
		return fieldText{n, n}
	case "nparr":
		n := targName("nat", f.A)
		return fieldText{n + "*[int]", n + "*[ int ]"}
	case "npmask":
		m := fmt.Sprintf("%s.%d?", targName("nat", f.A), f.B)
		return fieldText{m + "int", m + "int"}
	case "unknown":
		return fieldText{"nonexistent.type", "nonexistent.type"}
	case "selfbare":
		return fieldText{c.ctorName(), c.ctorName()}
	case "badarity":
		return fieldText{"(vector int int)", "vector int int"}
	case "natfortype":
		return fieldText{"(vector 3)", "vector 3"}
	}
	return fieldText{"int", "int"}
}

func renderResult(s []mComb, r mRes) (src, canon string) {
	switch r.K {
	case "int": // TL1 function results cannot be bare
		return "Int", "Int"
	case "bool":
		return "Bool", "Bool"
	case "vecint":
		return "Vector int", "Vector int" // round brackets are not allowed in a function result
	case "ref":
		if r.A >= 1 && r.A <= len(s) {
			return s[r.A-1].typeName(), s[r.A-1].typeName()
		}
	}
	return "Int", "Int"
}

// canonicalForm of a model combinator (what its implicit tag is the CRC32 of).
func canonicalForm(s []mComb, ci int) string {
	c := &s[ci]
	var b strings.Builder
	b.WriteString(c.ctorName() + " ")
	for i, k := range c.Targs {
		if k == "nat" {
			b.WriteString(targName(k, i+1) + ":# ")
		} else {
			b.WriteString(targName(k, i+1) + ":Type ")
		}
	}
	for _, f := range c.Fields {
		b.WriteString(f.N + ":" + renderFieldType(s, ci, f).canon + " ")
	}
	b.WriteString("= ")
	if c.Kind == "func" {
		_, cr := renderResult(s, c.Res)
		b.WriteString(cr)
	} else {
		b.WriteString(c.typeName())
		for i, k := range c.Targs {
			b.WriteString(" " + targName(k, i+1))
		}
	}
	return b.String()
}

func implicitTag(s []mComb, ci int) uint32 { return crc32.ChecksumIEEE([]byte(canonicalForm(s, ci))) }

func freshTag(i int) uint32 { return 0x5a5a0000 + uint32(i)*0x01010101 }

// concreteTags maps the symbolic effective tags of the model to numbers. ok=false when
// the concretisation is not injective on the symbols (assumption of the symbolic TagsOK).
func concreteTags(s []mComb) (tags []uint32, has []bool, ok bool) {
	n := len(s)
	tags = make([]uint32, n)
	has = make([]bool, n)
	var eff func(i int, depth int) (uint32, bool)
	eff = func(i int, depth int) (uint32, bool) {
		t := s[i].Tag
		switch t.K {
		case "none":
			if s[i].TL2 {
				return 0, false
			}
			return implicitTag(s, i), true
		case "zero":
			return 0, true
		case "copy":
			if depth > 4 || t.A < 1 || t.A > n {
				return 0, false
			}
			return eff(t.A-1, depth+1)
		case "crc":
			return implicitTag(s, t.A-1), true
		case "fresh":
			return freshTag(t.A), true
		case "xor":
			x, _ := eff(t.A-1, depth+1)
			y, _ := eff(t.B-1, depth+1)
			return x ^ y, true
		}
		return 0, false
	}
	for i := range s {
		tags[i], has[i] = eff(i, 0)
	}
	// injectivity: distinct symbols -> distinct values; symbols other than zero -> non-zero
	sym := func(i int) string {
		t := s[i].Tag
		switch t.K {
		case "none":
			return fmt.Sprintf("crc%d", i+1)
		case "crc":
			return fmt.Sprintf("crc%d", t.A)
		case "copy":
			u := s[t.A-1].Tag
			if u.K == "none" {
				return fmt.Sprintf("crc%d", t.A)
			}
			return fmt.Sprintf("%s%d-%d", u.K, u.A, u.B)
		}
		return fmt.Sprintf("%s%d-%d", t.K, t.A, t.B)
	}
	ok = true
	bySym := map[string]uint32{}
	byVal := map[uint32]string{}
	for i := range s {
		if !has[i] {
			continue
		}
		y := sym(i)
		if v, seen := bySym[y]; seen && v != tags[i] {
			ok = false
		}
		bySym[y] = tags[i]
		if o, seen := byVal[tags[i]]; seen && o != y {
			ok = false
		}
		byVal[tags[i]] = y
		if tags[i] == 0 && s[i].Tag.K != "zero" {
			ok = false
		}
	}
	return
}

// renderTL renders the model schema as a TL1 file (with the standard prelude) and,
// when it has TL2-declared combinators, a TL2 file.
func renderTL(s []mComb) (tl1 string, tl2 string) {
	tags, has, _ := concreteTags(s)
	var types, funcs strings.Builder
	var t2 strings.Builder
	for ci := range s {
		c := &s[ci]
		if c.TL2 {
			renderTL2Comb(&t2, s, ci, tags[ci], has[ci])
			continue
		}
		var b strings.Builder
		if c.Kind == "func" {
			b.WriteString("@read ")
		}
		b.WriteString(c.ctorName())
		if c.Tag.K != "none" {
			fmt.Fprintf(&b, "#%08x", tags[ci])
		}
		for i, k := range c.Targs {
			if k == "nat" {
				fmt.Fprintf(&b, " {%s:#}", targName(k, i+1))
			} else {
				fmt.Fprintf(&b, " {%s:Type}", targName(k, i+1))
			}
		}
		for _, f := range c.Fields {
			b.WriteString(" " + f.N + ":" + renderFieldType(s, ci, f).src)
		}
		b.WriteString(" = ")
		if c.Kind == "func" {
			rs, _ := renderResult(s, c.Res)
			b.WriteString(rs)
		} else {
			b.WriteString(c.typeName())
			for i, k := range c.Targs {
				b.WriteString(" " + targName(k, i+1))
			}
		}
		if c.Kind != "nosemicolon" {
			b.WriteString(";")
		}
		b.WriteString("\n")
		if c.Kind == "func" {
			funcs.WriteString(b.String())
		} else {
			types.WriteString(b.String())
		}
	}
	tl1 = preludeTL1 + types.String()
	if funcs.Len() > 0 {
		tl1 += "---functions---\n" + funcs.String()
	}
	return tl1, t2.String()
}

func tl2Type(k string) string {
	switch k {
	case "int":
		return "int32"
	case "long":
		return "int64"
	case "string":
		return "string"
	}
	return "int32"
}

func renderTL2Comb(b *strings.Builder, s []mComb, ci int, tag uint32, has bool) {
	c := &s[ci]
	if c.Kind == "func" {
		b.WriteString("@read ")
	}
	b.WriteString(c.ctorName())
	if has {
		fmt.Fprintf(b, "#%08x", tag)
	}
	if c.Kind != "func" {
		b.WriteString(" =")
	}
	for _, f := range c.Fields {
		b.WriteString(" " + f.N + ":" + tl2Type(f.K))
	}
	if c.Kind == "func" {
		switch c.Res.K {
		case "bool":
			b.WriteString(" => bool")
		case "vecint":
			b.WriteString(" => []int32")
		case "none":
			b.WriteString(" => ")
		case "ref":
			if c.Res.A >= 1 && c.Res.A <= len(s) {
				b.WriteString(" => " + s[c.Res.A-1].ctorName())
			} else {
				b.WriteString(" => int32")
			}
		default:
			b.WriteString(" => int32")
		}
	}
	b.WriteString(";\n")
}

func hex8(v uint32) string { return fmt.Sprintf("%08x", v) }

func mustJSON(v any) string {
	b, _ := json.Marshal(v)
	return string(b)
}

func tlaStrSet(xs []string) string {
	q := make([]string, len(xs))
	for i, x := range xs {
		q[i] = `"` + x + `"`
	}
	return "{" + strings.Join(q, ", ") + "}"
}

func tail(s string, n int) string {
	if len(s) > n {
		return "…" + s[len(s)-n:]
	}
	return s
}

func stripANSI(s string) string {
	var b strings.Builder
	for i := 0; i < len(s); i++ {
		if s[i] == 0x1b && i+1 < len(s) && s[i+1] == '[' {
			j := i + 2
			for j < len(s) && !(s[j] >= '@' && s[j] <= '~') {
				j++
			}
			i = j
			continue
		}
		b.WriteByte(s[i])
	}
	return b.String()
}

func readFileStr(p string) (string, error) {
	b, err := os.ReadFile(p)
	return string(b), err
}
