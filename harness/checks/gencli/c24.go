package gencli

import (
	"encoding/json"
	"fmt"
	"path/filepath"
	"regexp"
	"strconv"
	"strings"
	"sync"
	"time"

	"verif/core"
)

func init() {
	core.Register("C24", "model_checking", runC24)
}

type c24Case struct {
	M       mSchema
	TL1     string
	TL2     string
	Tags    []uint32
	Has     []bool
	Inject  bool
	LintEx  int
	LintOut string
	OldRun  bool
	OldEx   int
	OldOut  string
	Canon   string
	CanonEx int
}

var reCanonLine = regexp.MustCompile(`^(?:@\w+ )*([A-Za-z0-9_.]+)#([0-9a-f]{8})[ \t]`)

// canonicalTags parses a --language=canonical listing: constructor/function name -> tag, in order.
func canonicalTags(text string) (names []string, tags []uint32, bad []string) {
	for _, ln := range strings.Split(text, "\n") {
		if strings.TrimSpace(ln) == "" {
			continue
		}
		m := reCanonLine.FindStringSubmatch(ln)
		if m == nil {
			bad = append(bad, ln)
			continue
		}
		v, _ := strconv.ParseUint(m[2], 16, 32)
		names = append(names, m[1])
		tags = append(tags, uint32(v))
	}
	return
}

// defectClass names what is wrong with the tags of a model schema (for violation keys).
func c24DefectClass(m *mSchema) string {
	kindOf := func(i int) string {
		k := m.Schema[i].Kind
		if k != "func" {
			k = "ctor"
		}
		if m.Schema[i].TL2 {
			k = "tl2" + k
		}
		return k
	}
	for i, e := range m.Eff {
		if e.K == "zero" {
			return "zero-tag-" + kindOf(i)
		}
	}
	for i := range m.Eff {
		for j := i + 1; j < len(m.Eff); j++ {
			if m.Eff[i].K != "absent" && m.Eff[i] == m.Eff[j] {
				how := m.Schema[j].Tag.K
				if how == "none" || how == "fresh" {
					if o := m.Schema[i].Tag.K; o != "none" {
						how = o
					}
				}
				return fmt.Sprintf("collision-%s-%s-by-%s", kindOf(i), kindOf(j), how)
			}
		}
	}
	return "none"
}

func runC24(c *core.Ctx) error {
	t, err := buildTools(c, true)
	if err != nil {
		return err
	}
	res, err := c.MustTLC(core.TLCOpts{Module: "MC_SchemaSpace", Cfg: "MC_SchemaTags.cfg", Workers: 4, Timeout: 10 * time.Minute,
		Consts: map[string]string{"TAGKINDS": `{"zero", "copy", "crc", "fresh"}`, "MAXTAGS": fmt.Sprint(c.Pick(2, 3)), "BASES": `{"b1", "b2", "b3", "b5"}`}})
	if err != nil {
		return err
	}
	c.Add("states", res.Distinct)
	c.Add("transitions", res.Generated)
	c.Logf("TLC MC_SchemaTags: %d tag assignments (%v)", res.Distinct, res.Wall)
	if res.NEmits != res.Distinct {
		return fmt.Errorf("emit count %d != distinct states %d", res.NEmits, res.Distinct)
	}
	cases := make([]*c24Case, 0, len(res.Emits))
	for _, raw := range res.Emits {
		cs := &c24Case{}
		if err := json.Unmarshal(raw, &cs.M); err != nil {
			return err
		}
		cs.Tags, cs.Has, cs.Inject = concreteTags(cs.M.Schema)
		cs.TL1, cs.TL2 = renderTL(cs.M.Schema)
		cases = append(cases, cs)
	}

	root := filepath.Join(c.Scratch, "c24")
	var mu sync.Mutex
	var hErr error
	runCase := func(i int, cs *c24Case, tag string) {
		dir := filepath.Join(root, fmt.Sprintf("%s%05d", tag, i))
		_ = writeFileMk(filepath.Join(dir, "s.tl"), []byte(cs.TL1))
		in := []string{"s.tl"}
		if cs.TL2 != "" {
			_ = writeFileMk(filepath.Join(dir, "s.tl2"), []byte(cs.TL2))
			in = append(in, "s.tl2")
		}
		fail := func(r runResult) bool {
			if r.Err != nil {
				mu.Lock()
				hErr = r.Err
				mu.Unlock()
				return true
			}
			return false
		}
		r := runCmd(dir, nil, 60*time.Second, t.tl2gen, append([]string{"--language=lint"}, in...)...)
		if fail(r) {
			return
		}
		cs.LintEx, cs.LintOut = r.Exit, stripANSI(r.Out)
		if cs.TL2 == "" {
			// the legacy front end does not take our TL2 files (see assumptions): TL1-only schemas
			r = runCmd(dir, nil, 60*time.Second, t.tlgen, in...)
			if fail(r) {
				return
			}
			cs.OldRun, cs.OldEx, cs.OldOut = true, r.Exit, stripANSI(r.Out)
		}
		if cs.LintEx == 0 {
			r = runCmd(dir, nil, 60*time.Second, t.tl2gen, append([]string{"--language=canonical", "--outfile=canon.txt"}, in...)...)
			if fail(r) {
				return
			}
			cs.CanonEx = r.Exit
			if b, err := readFileStr(filepath.Join(dir, "canon.txt")); err == nil {
				cs.Canon = b
			}
		}
	}
	parallel(len(cases), 8, func(i int) { runCase(i, cases[i], "c") })
	if hErr != nil {
		return hErr
	}

	// verdict of one case against the model; returns (key, what) or "".
	judge := func(cs *c24Case) (string, string) {
		exp := cs.M.TagsOK
		cls := c24DefectClass(&cs.M)
		check := func(front string, exit int, out string) (string, string) {
			if hasStackTrace(out) {
				return front + "/crash/" + cls, "front end crashed: " + tail(out, 500)
			}
			if exp && exit != 0 {
				return front + "/rejects-valid-tags", "tags are pairwise distinct and non-zero (TagsOK) but the schema was rejected: " + tail(out, 500)
			}
			if !exp && exit == 0 {
				return front + "/accepts-bad-tags/" + cls, "TagsOK is false (" + cls + ") but the schema was accepted"
			}
			if !exp && !(strings.Contains(out, "tag") || strings.Contains(out, "magic")) {
				return front + "/rejects-without-tag-message/" + cls, "rejected, but the message does not mention the tag: " + tail(out, 400)
			}
			return "", ""
		}
		if k, w := check("tl2gen-lint", cs.LintEx, cs.LintOut); k != "" {
			return k, w
		}
		if cs.OldRun {
			if k, w := check("tlgen", cs.OldEx, cs.OldOut); k != "" {
				return k, w
			}
		}
		if cs.LintEx == 0 {
			if cs.CanonEx != 0 {
				return "canonical/fails-after-lint-ok", "lint accepted the schema but --language=canonical failed"
			}
			names, tags, bad := canonicalTags(cs.Canon)
			if len(bad) > 0 {
				return "canonical/line-without-tag", "canonical listing has a line without name#tag: " + bad[0]
			}
			seen := map[uint32]string{}
			for i, n := range names {
				if tags[i] == 0 {
					return "readback/zero-tag", "accepted schema lists tag 0 for " + n
				}
				if o, ok := seen[tags[i]]; ok {
					return "readback/duplicate-tag", fmt.Sprintf("accepted schema lists tag %08x for both %s and %s", tags[i], o, n)
				}
				seen[tags[i]] = n
			}
			// tags read back equal the model's effective tags (concretised by the harness)
			byName := map[string]uint32{}
			for i, n := range names {
				byName[n] = tags[i]
			}
			for i := range cs.M.Schema {
				cb := &cs.M.Schema[i]
				if cb.TL2 || !cs.Has[i] {
					continue
				}
				got, ok := byName[cb.ctorName()]
				if !ok {
					return "readback/missing", "canonical listing lacks " + cb.ctorName()
				}
				if got != cs.Tags[i] {
					return "readback/tag-differs/" + cb.Tag.K, fmt.Sprintf("%s: tag read back %08x, specified %08x (tag choice %s)", cb.ctorName(), got, cs.Tags[i], cb.Tag.K)
				}
			}
		}
		return "", ""
	}

	accepted, rejected, broken := 0, 0, 0
	byClass := map[string]int{}
	for i, cs := range cases {
		c.Add("evaluations", 1)
		if !cs.Inject {
			broken++ // the symbolic model's injectivity assumption does not hold for this concretisation
			continue
		}
		byClass[c24DefectClass(&cs.M)]++
		if cs.LintEx == 0 {
			accepted++
		} else {
			rejected++
		}
		if k, w := judge(cs); k != "" {
			// reproduce in a fresh directory
			again := &c24Case{M: cs.M, TL1: cs.TL1, TL2: cs.TL2, Tags: cs.Tags, Has: cs.Has, Inject: true}
			runCase(i, again, "r")
			if k2, w2 := judge(again); k2 != "" {
				c.Violate(k2, w2+"\nschema:\n"+strings.TrimPrefix(cs.TL1, preludeTL1)+cs.TL2,
					map[string]any{"tl1": cs.TL1, "tl2": cs.TL2, "model": cs.M, "tagsok": cs.M.TagsOK})
			} else {
				return fmt.Errorf("mismatch did not reproduce: %s %s", k, w)
			}
		}
		if i%(len(cases)/10+1) == 0 {
			c.Sample(map[string]any{"schema": strings.TrimPrefix(cs.TL1, preludeTL1), "tl2": cs.TL2, "tagsok": cs.M.TagsOK, "defect": c24DefectClass(&cs.M),
				"tl2gen_lint_exit": cs.LintEx, "tlgen_exit": cs.OldEx, "tlgen_run": cs.OldRun})
		}
	}
	c.Add("traces_validated_against_impl", len(cases)-broken)
	c.Set("impl_accepted", accepted)
	c.Set("impl_rejected", rejected)
	c.Set("cases_by_defect_class", byClass)
	c.Set("cases_dropped_injectivity_assumption", broken)
	c.Set("distinct_nontrivial", len(cases)-broken)
	c.Logf("accepted %d rejected %d dropped %d; classes %v", accepted, rejected, broken, byClass)
	if accepted == 0 || rejected == 0 {
		return fmt.Errorf("vacuous: accepted=%d rejected=%d", accepted, rejected)
	}
	if broken*10 > len(cases) {
		return fmt.Errorf("too many cases (%d of %d) violate the injectivity assumption of the symbolic tag model", broken, len(cases))
	}
	need := []string{"zero-tag-ctor", "zero-tag-func", "collision-ctor-func-by-copy", "collision-ctor-ctor-by-crc", "none"}
	for _, k := range need {
		if byClass[k] == 0 {
			return fmt.Errorf("vacuous: defect class %s never enumerated (have %v)", k, byClass)
		}
	}
	hasTL2 := false
	for k := range byClass {
		if strings.Contains(k, "tl2") {
			hasTL2 = true
		}
	}
	if !hasTL2 {
		return fmt.Errorf("vacuous: no TL2 magic collision enumerated")
	}

	// binding self-test: flip the model's verdict of one accepted and one rejected case
	flipped := 0
	for _, want := range []bool{true, false} {
		for _, cs := range cases {
			if cs.Inject && cs.M.TagsOK == want && (cs.LintEx == 0) == want {
				cp := *cs
				cp.M.TagsOK = !want
				if k, _ := judge(&cp); k == "" {
					return fmt.Errorf("binding self-test failed: flipped TagsOK verdict not detected")
				}
				flipped++
				break
			}
		}
	}
	c.Set("selftest_flipped_verdicts_detected", flipped)
	c.Set("rule", "TLC enumerates every assignment of up to N explicit tags/magics (zero, tag of another combinator, implicit CRC32 of another combinator, fresh) over three small schemas (struct+function, union, TL1+TL2) and evaluates TagsOK symbolically; both front ends (tl2gen --language=lint, tlgen) must accept exactly when TagsOK; for accepted schemas the tags read back from --language=canonical must be pairwise distinct, non-zero and equal to the model's effective tags")
	c.Assume("implicit tags are CRC32-IEEE of the canonical form rendered by the harness (independent of the implementation); assignments whose concrete values accidentally collide (symbolic model not injective) are dropped and counted")
	c.Assume("TL2 magics are bound to tl2gen only: the legacy tlgen front end fails on even valid small TL2 files with an internal 'beautiful error created without context' message unrelated to tags; TL2 magics are not read back (the canonical listing covers TL1 combinators)")
	return nil
}
