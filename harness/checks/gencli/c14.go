package gencli

import (
	"encoding/json"
	"fmt"
	"math/rand"
	"os"
	"path/filepath"
	"regexp"
	"sort"
	"strings"
	"sync"
	"time"

	"verif/core"
)

func init() {
	core.Register("C14", "model_checking", runC14)
}

// option rows of the Go generator (DESIGN 3.1 / C14)
var c14OptRows = map[string][]string{
	"plain":  {},
	"tl2":    {"--tl2WhiteList=*"},
	"split":  {"--split-internal"},
	"bytes":  {"--generateByteVersions=*"},
	"random": {"--generateRandomCode"},
	"rpc":    {"--generateRPCCode"},
	// TL2-origin input: a .tl2 file next to the TL1 prelude, without and with a TL2 whitelist
	"tl2file":   {},
	"tl2filewl": {"--tl2WhiteList=*"},
}

type c14Stim struct {
	M        mSchema
	TL1      string
	TL2      string
	ID       string // directory / package prefix
	Src      string // "exhaustive" | "simulate"
	Exit     int
	Out      string
	BuildOut string // lines of the batch build output that name this stimulus
}

func c14Cfg(maxCombs, maxFields int, ns, nameMenu, fieldNames, kinds, maskBits, tagKinds, muts, optRows string) map[string]string {
	return c14CfgF(maxCombs, maxFields, ns, nameMenu, fieldNames, kinds, maskBits, tagKinds, muts, optRows, `{"get", "set"}`)
}

func c14CfgF(maxCombs, maxFields int, ns, nameMenu, fieldNames, kinds, maskBits, tagKinds, muts, optRows, funcNames string) map[string]string {
	return map[string]string{
		"UNIONMENU": "MCUnionMenu",
		"FUNCNAMES": funcNames,
		"MAXCOMBS":  fmt.Sprint(maxCombs), "MAXFIELDS": fmt.Sprint(maxFields), "NAMESPACES": ns, "NAMEMENU": nameMenu,
		"FIELDNAMES": fieldNames, "KINDS": kinds, "MASKBITS": maskBits, "TAGKINDS": tagKinds, "TL2": "FALSE",
		"MUTATIONS": muts, "OPTROWS": optRows,
	}
}

func schemaKey(m *mSchema) string {
	b, _ := json.Marshal(m.Schema)
	return m.Opt + "|" + string(b)
}

// sepCaseTwins: two combinators whose full constructor (or type) names become equal when the
// namespace separator is dropped and case is ignored (ab.cd / abCd). Used only to prioritise stimuli.
func sepCaseTwins(m *mSchema) bool { return len(twinNames(m)) > 0 }

// mutOnce: keeps, before the cap is applied, n stimuli per (mutation kind, option row, shape of the last
// combinator = the mutated one); the pool is visited in TLC's emission order, which is deterministic
func mutOnce(n int) func(m *mSchema) bool {
	seen := map[string]int{}
	return func(m *mSchema) bool {
		if m.Mut == "none" || len(m.Schema) == 0 {
			return false
		}
		last := m.Schema[len(m.Schema)-1]
		k := fmt.Sprintf("%s|%s|%s|%d|%d", m.Mut, m.Opt, last.Kind, len(m.Schema), len(last.Targs))
		seen[k]++
		return seen[k] <= n
	}
}

// deconfChain: a field whose name is an earlier field's name plus "0" (any case of the first letter):
// the name the deconflicter hands to the earlier one is then requested again. Prioritises stimuli only.
func deconfChain(m *mSchema) bool {
	for i := range m.Schema {
		fs := m.Schema[i].Fields
		for a := range fs {
			for b := range fs {
				if a != b && strings.EqualFold(fs[b].N, fs[a].N+"0") {
					return true
				}
			}
		}
	}
	return false
}

func twinNames(m *mSchema) []string {
	var r []string
	flat := func(ns, n string) string { return strings.ToLower(ns + n) }
	for i := range m.Schema {
		for j := i + 1; j < len(m.Schema); j++ {
			a, b := &m.Schema[i], &m.Schema[j]
			if a.ctorName() != b.ctorName() && flat(a.Ns, a.Cn) == flat(b.Ns, b.Cn) {
				r = append(r, "twin-ctor:"+flat(a.Ns, a.Cn))
			}
			if a.Kind != "func" && b.Kind != "func" && a.typeName() != b.typeName() && flat(a.Ns, a.Tn) == flat(b.Ns, b.Tn) {
				r = append(r, "twin-type:"+flat(a.Ns, a.Tn))
			}
		}
	}
	return r
}

func kindsOf(m *mSchema) []string {
	set := map[string]bool{}
	for _, t := range twinNames(m) {
		set[t+":"+m.Schema[0].ctorName()+"+"+m.Schema[len(m.Schema)-1].ctorName()] = true
	}
	for i := range m.Schema {
		fs := m.Schema[i].Fields
		for a := range fs {
			for b := range fs {
				if a != b && strings.EqualFold(fs[b].N, fs[a].N+"0") {
					set[fmt.Sprintf("twin-deconf:%s@%d+%s@%d", fs[a].N, a, fs[b].N, b)] = true
				}
			}
		}
	}
	for _, c := range m.Schema {
		set["c:"+c.Kind] = true
		if len(c.Targs) > 0 {
			set["c:template"] = true
		}
		if c.Tag.K != "none" {
			set["t:"+c.Tag.K] = true
		}
		if c.TL2 {
			set["tl2:"+c.Kind] = true
			if c.Kind == "func" {
				set["tl2:result-"+c.Res.K] = true
			}
		}
		for _, f := range c.Fields {
			set["f:"+f.K] = true
		}
	}
	var r []string
	for k := range set {
		r = append(r, k)
	}
	sort.Strings(r)
	return r
}

func runC14(c *core.Ctx) error {
	t, err := buildTools(c, false)
	if err != nil {
		return err
	}
	rng := rand.New(rand.NewSource(c.Seed))
	allOpts := `{"plain", "tl2", "split", "bytes", "random", "rpc"}`

	// 1. exhaustive enumeration for the smallest bounds
	exh, err := c.MustTLC(core.TLCOpts{Module: "MC_SchemaSpace", Cfg: "MC_SchemaSpace.cfg", Workers: 4, Timeout: 5 * time.Minute,
		Consts: c14Cfg(1, 1, `{"a"}`, "MCNameMenuSmall", "MCFieldNamesTiny", "MCKindsSmall", "{0}", `{"zero"}`, "MCMutationsTiny", `{"plain"}`)})
	if err != nil {
		return err
	}
	c.Add("states", exh.Distinct)
	c.Add("transitions", exh.Generated)
	c.Set("exhaustive_states", exh.Distinct)
	c.Logf("TLC exhaustive smallest bounds: %d distinct schemas (%v)", exh.Distinct, exh.Wall)
	var exhStims []mSchema
	seen := map[string]bool{}
	for _, raw := range exh.Emits {
		var m mSchema
		if err := json.Unmarshal(raw, &m); err != nil {
			return err
		}
		if len(m.Schema) == 0 || seen[schemaKey(&m)] {
			continue
		}
		seen[schemaKey(&m)] = true
		exhStims = append(exhStims, m)
	}

	// 1b. exhaustive catalogue: one struct / one union constructor with one int field named like
	// every method the Go generator emits (generated-method names as field names)
	cat, err := c.MustTLC(core.TLCOpts{Module: "MC_SchemaSpace", Cfg: "MC_SchemaSpace.cfg", Workers: 4, Timeout: 5 * time.Minute,
		Consts: c14CfgF(1, 1, `{"a"}`, "MCNameMenuOne", "MCFieldNamesMethods", "MCKindsInt", "{0}", `{}`, "MCMutationsNone", `{"plain"}`, "{}")})
	if err != nil {
		return err
	}
	c.Add("states", cat.Distinct)
	c.Add("transitions", cat.Generated)
	var catStims []mSchema
	for _, raw := range cat.Emits {
		var m mSchema
		if err := json.Unmarshal(raw, &m); err != nil {
			return err
		}
		if len(m.Schema) == 0 || len(m.Schema[0].Fields) == 0 || seen[schemaKey(&m)] {
			continue
		}
		seen[schemaKey(&m)] = true
		catStims = append(catStims, m)
	}
	c.Set("method_name_catalogue_states", len(catStims))

	// 1c. exhaustive core configurations:
	//  A recursive / masked / dictionary shapes; D field names that collide only after deconfliction
	//  (write -> Write0 meets a literal write0); B template declaration + instantiation with names differing
	//  only by namespace; S constructor / type / function names that differ only by "namespace separator vs
	//  case" (ab.cd / abCd, a.bC / aB.c, ab.Cd / AbCd); T TL2-origin combinators (struct, function with
	//  builtin / array / empty / struct result) without and with a TL2 whitelist
	with := func(m map[string]string, kv ...string) map[string]string {
		for i := 0; i+1 < len(kv); i += 2 {
			m[kv[i]] = kv[i+1]
		}
		return m
	}
	type coreCfg struct {
		name        string
		consts      map[string]string
		quick, thor int
		prefer      func(m *mSchema) bool // kept before the cap is applied
	}
	var coreStims []mSchema
	for _, cc := range []coreCfg{
		{"A", c14CfgF(1, 2, `{"a"}`, "MCNameMenuOne", "MCFieldNamesTiny", "MCKindsCore", "{0}", `{}`, "MCMutationsNone", `{"plain"}`, `{"get"}`), 60, 1000, nil},
		{"B", c14CfgF(2, 1, `{"a", "b"}`, "MCNameMenuOne", "MCFieldNamesTiny", "MCKindsTmpl", "{0}", `{}`, "MCMutationsNone", `{"plain"}`, `{}`), 40, 800, nil},
		{"D", c14CfgF(1, 3, `{"a"}`, "MCNameMenuOne", "MCFieldNamesDeconf", "MCKindsInt", "{0}", `{}`, "MCMutationsNone", `{"plain"}`, `{}`), 40, 600, deconfChain},
		// M: every single ill-forming mutation of small schemas without templates (a template that is never
		// instantiated is not resolved, so its errors stay unseen), plain and function combinators
		{"M", c14CfgF(2, 1, `{"a"}`, "MCNameMenuOne", "MCFieldNamesTiny", "MCKindsInt", "{0}", `{}`, "MCMutations", `{"plain", "rpc"}`, `{"get"}`), 30, 400,
			mutOnce(2)},
		{"S", with(c14CfgF(2, 0, `{"", "ab", "a", "aB"}`, "MCNameMenuSep", "MCFieldNamesTiny", "MCKindsNone", "{0}", `{}`, "MCMutationsNone", `{"plain"}`, `{"abCd"}`),
			"UNIONMENU", "MCUnionMenuNone"), 10, 1500, sepCaseTwins},
		{"T", with(c14CfgF(2, 1, `{"x"}`, "MCNameMenuOne", "MCFieldNamesOne", "MCKindsInt", "{0}", `{}`, "MCMutationsNone", `{"tl2file", "tl2filewl"}`, `{"get"}`),
			"UNIONMENU", "MCUnionMenuNone", "TL2", "TRUE"), 1000, 1000, nil},
	} {
		r, err := c.MustTLC(core.TLCOpts{Module: "MC_SchemaSpace", Cfg: "MC_SchemaSpace.cfg", Workers: 4, Timeout: 5 * time.Minute, Consts: cc.consts})
		if err != nil {
			return err
		}
		c.Add("states", r.Distinct)
		c.Add("transitions", r.Generated)
		c.Set("core_"+cc.name+"_states", r.Distinct)
		var pool, pref []mSchema
		for _, raw := range r.Emits {
			var m mSchema
			if err := json.Unmarshal(raw, &m); err != nil {
				return err
			}
			if len(m.Schema) == 0 || seen[schemaKey(&m)] {
				continue
			}
			seen[schemaKey(&m)] = true
			if cc.prefer != nil && cc.prefer(&m) {
				pref = append(pref, m)
			} else {
				pool = append(pool, m)
			}
		}
		rng.Shuffle(len(pool), func(i, j int) { pool[i], pool[j] = pool[j], pool[i] })
		if n := c.Pick(cc.quick, cc.thor); len(pool) > n {
			pool = pool[:n]
		}
		coreStims = append(coreStims, pref...)
		coreStims = append(coreStims, pool...)
	}
	c.Set("core_configurations_states", len(coreStims))

	// 2. seeded simulation above them; TLC evaluates the Emit invariant on every successor of
	// the random walks, so each walk contributes its whole neighbourhood
	strata := map[string][]mSchema{}
	strataSeen := map[string]int{}
	nSim := 0
	sim, err := c.TLC(core.TLCOpts{Module: "MC_SchemaSpace", Cfg: "MC_SchemaSpace.cfg", Workers: 4, Timeout: 10 * time.Minute,
		Simulate: fmt.Sprintf("num=%d", c.Pick(1, 6)), Depth: 12, Seed: c.Seed,
		Consts: c14Cfg(3, 3, `{"", "a", "b"}`, "MCNameMenu", "MCFieldNames", "MCKinds", "{0, 1, 31}", `{"zero", "copy", "crc", "fresh"}`, "MCMutations", allOpts),
		OnEmit: func(raw json.RawMessage) {
			var m mSchema
			if json.Unmarshal(raw, &m) != nil || len(m.Schema) == 0 {
				return
			}
			k := schemaKey(&m)
			if seen[k] {
				return
			}
			seen[k] = true
			nSim++
			// stratum: mutation kind (or size class for unmutated), option row
			st := m.Mut + "|" + m.Opt
			if m.Mut == "none" {
				// unmutated: the rarest shape it contains (so that every shape x option row has a stratum)
				rare := "other"
				have := map[string]bool{}
				for _, k := range kindsOf(&m) {
					have[k] = true
				}
				for _, k := range []string{"f:rec", "f:tparam", "f:nparr", "f:npmask", "f:tinst", "c:template", "f:arr", "f:mtrue", "f:mint", "f:maybe",
					"f:dict", "f:dictany", "f:pair", "f:tuplec", "f:arrc", "f:vec", "f:ref", "c:variant", "c:func", "f:bool", "f:double"} {
					if have[k] {
						rare = k
						break
					}
				}
				st = fmt.Sprintf("none-%s|%s", rare, m.Opt)
			}
			// reservoir of 40 per stratum
			strataSeen[st]++
			if len(strata[st]) < 40 {
				strata[st] = append(strata[st], m)
			} else if j := rng.Intn(strataSeen[st]); j < 40 {
				strata[st][j] = m
			}
		}})
	if err != nil {
		return err
	}
	if !sim.OK {
		return fmt.Errorf("TLC simulation of MC_SchemaSpace failed: %s\n%s", sim.ErrorKind, sim.ErrorText)
	}
	c.Add("states", nSim)
	c.Add("transitions", sim.Generated)
	c.Set("simulated_distinct_schemas", nSim)
	c.Logf("TLC simulation: %d states checked, %d distinct schemas in %d strata (%v)", sim.Generated, nSim, len(strata), sim.Wall)

	// 3. choose the stimuli
	want := c.Pick(150, 2000)
	var stims []*c14Stim
	rng.Shuffle(len(exhStims), func(i, j int) { exhStims[i], exhStims[j] = exhStims[j], exhStims[i] })
	rng.Shuffle(len(catStims), func(i, j int) { catStims[i], catStims[j] = catStims[j], catStims[i] })
	if !c.Thorough() {
		if len(exhStims) > 30 {
			exhStims = exhStims[:30]
		}
		// quick: the whole catalogue for plain structs (union constructors only in the thorough tier)
		var only []mSchema
		for _, m := range catStims {
			if m.Schema[0].Kind == "struct" {
				only = append(only, m)
			}
		}
		catStims = only
	}
	for _, m := range exhStims {
		stims = append(stims, &c14Stim{M: m, Src: "exhaustive"})
	}
	for _, m := range catStims {
		stims = append(stims, &c14Stim{M: m, Src: "catalogue"})
	}
	for _, m := range coreStims {
		stims = append(stims, &c14Stim{M: m, Src: "core"})
	}
	nExh := len(stims)
	var stKeys []string
	for k := range strata {
		stKeys = append(stKeys, k)
	}
	sort.Strings(stKeys)
	for _, k := range stKeys {
		v := strata[k]
		rng.Shuffle(len(v), func(i, j int) { v[i], v[j] = v[j], v[i] })
	}
	// round-robin over strata; unmutated strata get two picks per round so that the
	// accepted share stays well above the vacuity bound
	for round := 0; len(stims) < want+nExh; round++ {
		took := false
		for _, k := range stKeys {
			per := 1
			if strings.HasPrefix(k, "none") {
				per = 2
			}
			for x := 0; x < per; x++ {
				idx := round*per + x
				if idx < len(strata[k]) && len(stims) < want+nExh {
					stims = append(stims, &c14Stim{M: strata[k][idx], Src: "simulate"})
					took = true
				}
			}
		}
		if !took {
			break
		}
	}
	c.Logf("selected %d stimuli (%d exhaustive, %d sampled)", len(stims), nExh, len(stims)-nExh)

	// 4. run the generator on every stimulus
	mod, err := c.ScratchModule("c14mod")
	if err != nil {
		return err
	}
	inRoot := filepath.Join(c.Scratch, "c14in")
	for i, s := range stims {
		s.ID = fmt.Sprintf("g%04d", i)
		s.TL1, s.TL2 = renderTL(s.M.Schema)
	}
	var mu sync.Mutex
	var harnessErr error
	generate := func(s *c14Stim, outdir string) {
		in := filepath.Join(inRoot, s.ID)
		_ = writeFileMk(filepath.Join(in, "s.tl"), []byte(s.TL1))
		args := []string{"--language=go", "--outdir=" + outdir, "--pkgPath=c14mod/" + filepath.Base(outdir) + "/tl"}
		args = append(args, c14OptRows[s.M.Opt]...)
		args = append(args, filepath.Join(in, "s.tl"))
		if s.TL2 != "" {
			_ = writeFileMk(filepath.Join(in, "s.tl2"), []byte(s.TL2))
			args = append(args, filepath.Join(in, "s.tl2"))
		}
		r := runCmd(c.Scratch, nil, 60*time.Second, t.tl2gen, args...)
		if r.Err != nil {
			mu.Lock()
			harnessErr = r.Err
			mu.Unlock()
		}
		s.Exit, s.Out = r.Exit, stripANSI(r.Out)
	}
	parallel(len(stims), 8, func(i int) { generate(stims[i], filepath.Join(mod, stims[i].ID)) })
	if harnessErr != nil {
		return harnessErr
	}

	// 5. oracle for rejected stimuli
	accepted, rejected := 0, 0
	agree := map[string]int{}
	kindCover := map[string]int{}
	byOpt := map[string]int{}
	byMut := map[string]int{}
	var toBuild []*c14Stim
	for _, s := range stims {
		c.Add("evaluations", 1)
		byOpt[s.M.Opt]++
		byMut[s.M.Mut]++
		outdir := filepath.Join(mod, s.ID)
		key := func(class string) string {
			return fmt.Sprintf("%s/%s/%s/%s", class, s.M.Opt, s.M.Mut, shortHash([]byte(s.TL1+s.TL2)))
		}
		replay := map[string]any{"tl1": s.TL1, "tl2": s.TL2, "opt": s.M.Opt, "flags": c14OptRows[s.M.Opt], "model": s.M}
		agree[fmt.Sprintf("model_accepted=%v,impl_accepted=%v", s.M.Accepted, s.Exit == 0)]++
		if s.Exit == 0 {
			accepted++
			for _, k := range kindsOf(&s.M) {
				kindCover[k]++
			}
			toBuild = append(toBuild, s)
			if !strings.Contains(s.Out, "TL Generation Success") {
				c.Violate(key("exit0-without-success-line"), "tl2gen exited 0 without reporting success: "+tail(s.Out, 600), replay)
			}
			continue
		}
		rejected++
		files, _, _ := scanTree(outdir)
		problem := ""
		switch {
		case hasStackTrace(s.Out):
			problem = "generator crashed with a Go stack trace instead of reporting an error"
		case s.Exit != 1:
			problem = fmt.Sprintf("unexpected exit status %d", s.Exit)
		case !strings.Contains(s.Out, "TL Generation Failed") || len(strings.TrimSpace(strings.Replace(strings.Replace(s.Out, "TL Generation Failed", "", 1), "tl2gen version: (devel)", "", 1))) < 8:
			problem = "rejected without an error message"
		case len(files) != 0:
			problem = fmt.Sprintf("rejected schema left %d partially written files in the output directory", len(files))
		}
		if problem != "" {
			// reproduce once in a fresh directory
			again := *s
			fresh := filepath.Join(mod, s.ID+"r")
			generate(&again, fresh)
			files2, _, _ := scanTree(fresh)
			_ = os.RemoveAll(fresh)
			if again.Exit != 0 && (hasStackTrace(again.Out) || again.Exit != 1 || len(files2) != 0 || problem == "rejected without an error message") {
				c.Violate(key("reject"), problem+": "+tail(s.Out, 700), replay)
			}
		}
		_ = os.RemoveAll(outdir)
	}
	c.Set("impl_accepted", accepted)
	c.Set("impl_rejected", rejected)
	c.Set("model_vs_impl_acceptance", agree)
	c.Set("stimuli_by_option_row", byOpt)
	c.Set("stimuli_by_mutation", byMut)
	c.Set("accepted_shape_coverage", kindCover)
	c.Logf("generator accepted %d, rejected %d; %v", accepted, rejected, agree)

	// 6. accepted => go build ./... of the output succeeds (one module, batched)
	// generation is cheap, compiling is not: all rejected stimuli are judged above; of the accepted ones the
	// catalogue/exhaustive ones and a coverage-driven selection (every shape, every option row, every
	// shape x option-row pair first, then seeded random) are compiled
	acceptedAll := len(toBuild)
	toBuild = c14SelectBuilds(toBuild, c.Pick(130, 500), rng)
	c.Set("accepted_selected_for_build", len(toBuild))
	c.Set("accepted_not_compiled", acceptedAll-len(toBuild))
	kindCover = map[string]int{}
	builtByOpt := map[string]int{}
	for _, s := range toBuild {
		builtByOpt[s.M.Opt]++
		for _, k := range kindsOf(&s.M) {
			kindCover[k]++
		}
	}
	c.Set("accepted_shape_coverage", kindCover)
	c.Set("built_by_option_row", builtByOpt)
	failing, err := c14Build(c, mod, toBuild)
	if err != nil {
		return err
	}
	built := len(toBuild) - len(failing)
	reportedColl := map[string]bool{}
	sameClass := 0
	for _, s := range failing {
		// a class already reproduced and reported in this run is not reproduced again
		if name := methodCollision(s.BuildOut, &s.M); name != "" && reportedColl[name] {
			sameClass++
			continue
		}
		// reproduce: regenerate into a fresh directory and build it alone
		again := *s
		again.ID = s.ID + "r"
		fresh := filepath.Join(mod, again.ID)
		generate(&again, fresh)
		out, berr := c.Run(mod, 5*time.Minute, core.GoEnv(), "go", "build", "./"+again.ID+"/...")
		if again.Exit == 0 && berr != nil {
			key := fmt.Sprintf("build/%s/%s/%s", s.M.Opt, strings.Join(kindsOf(&s.M), ","), shortHash([]byte(s.TL1+s.TL2)))
			if name := methodCollision(out, &s.M); name != "" {
				key = "build/field-name-collides-with-generated-method/" + name
				reportedColl[name] = true
			} else if name := nsNameCollision(out, &s.M); name != "" {
				key = "build/go-name-collision-across-namespaces/" + name
			} else if what := tl2NoWhitelist(out, s); what != "" {
				key = "build/tl2-file-without-whitelist/" + what
			}
			c.Violate(key,
				"tl2gen accepted the schema (exit 0) but the generated Go code does not build: "+tail(out, 900),
				map[string]any{"tl1": s.TL1, "tl2": s.TL2, "opt": s.M.Opt, "flags": c14OptRows[s.M.Opt], "model": s.M})
		} else {
			built++
		}
	}
	c.Set("accepted_and_built", built)
	c.Set("build_failures_of_an_already_reported_class", sameClass)
	c.Add("traces_validated_against_impl", len(stims))
	c.Set("distinct_nontrivial", len(stims))
	for i, s := range stims {
		if i%(len(stims)/10+1) == 0 {
			c.Sample(map[string]any{"schema": strings.TrimPrefix(s.TL1, preludeTL1), "tl2": s.TL2, "opt": s.M.Opt, "mutation": s.M.Mut,
				"model_accepted": s.M.Accepted, "exit": s.Exit, "message": tail(strings.TrimSpace(s.Out), 160)})
		}
	}

	// vacuity guards
	if accepted*100 < 30*len(stims) {
		return fmt.Errorf("vacuous: only %d of %d stimuli were accepted by the generator (< 30%%)", accepted, len(stims))
	}
	if rejected == 0 {
		return fmt.Errorf("vacuous: no stimulus was rejected")
	}
	for o := range c14OptRows {
		if builtByOpt[o] == 0 {
			return fmt.Errorf("vacuous: option row %q never exercised", o)
		}
	}
	for _, k := range []string{"f:rec", "f:tinst", "f:mtrue", "f:dict", "c:variant", "c:func", "c:template"} {
		if kindCover[k] == 0 {
			return fmt.Errorf("vacuous: no accepted stimulus exercises %s", k)
		}
	}

	// binding self-test: a stimulus whose generated code is corrupted must be reported by the build oracle
	if len(toBuild) > 0 {
		s := toBuild[0]
		victim := filepath.Join(mod, s.ID, "constants", "constants.go")
		orig, rerr := os.ReadFile(victim)
		if rerr == nil {
			_ = os.WriteFile(victim, append(orig, []byte("\nvar _ = undefinedIdentifierForSelfTest\n")...), 0o644)
			bad, err := c14Build(c, mod, []*c14Stim{s})
			_ = os.WriteFile(victim, orig, 0o644)
			if err != nil {
				return err
			}
			if len(bad) != 1 {
				return fmt.Errorf("binding self-test failed: corrupted generated code was not reported by the build oracle")
			}
			c.Set("selftest_corrupted_output_detected", true)
		}
	}
	c.Set("rule", "TLC (SchemaSpace) enumerates all schemas of the smallest bounds and samples larger ones by seeded simulation, incl. mutated ill-formed ones, each with an option row; every selected state is rendered (standard prelude + combinators) and given to the real tl2gen --language=go in an empty directory; exit 0 => go build ./... of the output must succeed; exit != 0 => message, no stack trace, exit status 1, empty output directory")
	c.Assume("'the generated code compiles' is decided by the Go compiler, not by the specification; the model's Accepted predicate is used only as a vacuity guard and reported as an agreement matrix")
	c.Assume("TL2-origin schemas are not part of this stimulus space (TL1 schemas, optionally with TL2 code generation via --tl2WhiteList)")
	return nil
}

// c14SelectBuilds orders accepted stimuli so that new coverage comes first and cuts at max.
func c14SelectBuilds(all []*c14Stim, max int, rng *rand.Rand) []*c14Stim {
	if len(all) <= max {
		return all
	}
	var sel, rest []*c14Stim
	for _, s := range all {
		if s.Src == "catalogue" {
			sel = append(sel, s)
		} else {
			rest = append(rest, s)
		}
	}
	rng.Shuffle(len(rest), func(i, j int) { rest[i], rest[j] = rest[j], rest[i] })
	covered := map[string]int{}
	feats := func(s *c14Stim) []string {
		f := []string{"o:" + s.M.Opt, "src:" + s.Src}
		for _, k := range kindsOf(&s.M) {
			f = append(f, k, k+"|"+s.M.Opt)
		}
		return f
	}
	for _, s := range sel {
		for _, f := range feats(s) {
			covered[f]++
		}
	}
	used := make([]bool, len(rest))
	for len(sel) < max {
		best, bestGain := -1, -1
		for i, s := range rest {
			if used[i] {
				continue
			}
			gain := 0
			for _, f := range feats(s) {
				must := strings.HasPrefix(f, "tl2:") || strings.HasPrefix(f, "twin-")
				if covered[f] == 0 && must {
					gain += 100 // the TL2-origin and name-twin families are covered completely, whatever the seed
				} else if covered[f] == 0 {
					gain += 3
				} else if covered[f] < 3 {
					gain++
				}
			}
			if gain > bestGain {
				best, bestGain = i, gain
			}
		}
		if best < 0 {
			break
		}
		used[best] = true
		sel = append(sel, rest[best])
		for _, f := range feats(rest[best]) {
			covered[f]++
		}
	}
	return sel
}

var reMethodColl = regexp.MustCompile(`field and method with the same name (\w+)|item\.(\w+) \((?:neither addressable|value of type func)`)

// methodCollision classifies a build failure: a schema field whose Go name equals the name of a
// method the generator emits for the struct. Returns the Go name, or "".
func methodCollision(buildOut string, m *mSchema) string {
	goNames := map[string]bool{}
	for _, cb := range m.Schema {
		for _, f := range cb.Fields {
			goNames[upperFirst(f.N)] = true
		}
	}
	var found []string
	for _, mm := range reMethodColl.FindAllStringSubmatch(buildOut, -1) {
		n := mm[1]
		if n == "" {
			n = mm[2]
		}
		if goNames[n] {
			found = append(found, n)
		}
	}
	if len(found) == 0 {
		return ""
	}
	sort.Strings(found)
	return found[0]
}

var reRedeclared = regexp.MustCompile(`(\w+) redeclared in this block`)

// nsNameCollision classifies a build failure: two combinators from different namespaces whose names
// differ only by "namespace separator vs case" get the same Go identifier. Returns that identifier.
func nsNameCollision(buildOut string, m *mSchema) string {
	goName := func(ns, n string) string { return upperFirst(ns) + upperFirst(n) }
	cnt := map[string]map[string]bool{}
	for i := range m.Schema {
		cb := &m.Schema[i]
		for _, g := range []string{goName(cb.Ns, cb.Cn), goName(cb.Ns, cb.Tn)} {
			if cnt[g] == nil {
				cnt[g] = map[string]bool{}
			}
			cnt[g][cb.Ns] = true
		}
	}
	var found []string
	for _, mm := range reRedeclared.FindAllStringSubmatch(buildOut, -1) {
		if len(cnt[mm[1]]) >= 2 {
			found = append(found, mm[1])
		}
	}
	if len(found) == 0 {
		return ""
	}
	sort.Strings(found)
	return found[0]
}

// tl2NoWhitelist classifies a build failure of a schema with TL2-declared combinators generated without
// --tl2WhiteList: TL2 methods referenced but not generated. Returns the first missing method.
func tl2NoWhitelist(buildOut string, s *c14Stim) string {
	if s.TL2 == "" || len(c14OptRows[s.M.Opt]) != 0 || !strings.Contains(buildOut, "undefined") {
		return ""
	}
	for _, meth := range []string{"InternalReadTL2", "ReadTL2", "InternalWriteTL2", "WriteTL2", "CalculateLayout"} {
		for _, ln := range strings.Split(buildOut, "\n") {
			if strings.Contains(ln, "undefined") && strings.Contains(ln, meth) {
				return meth
			}
		}
	}
	return ""
}

var reBuildPkg = regexp.MustCompile(`(?m)^(?:# )?c14mod/(g\d+r?)[/ \n]`)
var reBuildFile = regexp.MustCompile(`(?m)^(g\d+r?)/`)

// c14Build builds all given stimuli's packages in one go command and returns those with errors.
func c14Build(c *core.Ctx, mod string, ss []*c14Stim) ([]*c14Stim, error) {
	if len(ss) == 0 {
		return nil, nil
	}
	byID := map[string]*c14Stim{}
	var failing []*c14Stim
	const batch = 400
	for lo := 0; lo < len(ss); lo += batch {
		hi := lo + batch
		if hi > len(ss) {
			hi = len(ss)
		}
		args := []string{"build", "-p", "8"}
		for _, s := range ss[lo:hi] {
			byID[s.ID] = s
			args = append(args, "./"+s.ID+"/...")
		}
		t0 := time.Now()
		out, err := c.Run(mod, 25*time.Minute, core.GoEnv(), "go", args...)
		c.Logf("go build of %d generated outputs: %v (err=%v)", hi-lo, time.Since(t0).Round(time.Millisecond), err != nil)
		if err == nil {
			continue
		}
		found := map[string]bool{}
		for _, m := range reBuildPkg.FindAllStringSubmatch(out, -1) {
			found[m[1]] = true
		}
		for _, m := range reBuildFile.FindAllStringSubmatch(out, -1) {
			found[m[1]] = true
		}
		if len(found) == 0 {
			return nil, fmt.Errorf("go build failed but no generated package could be identified: %v\n%s", err, tail(out, 2000))
		}
		for id := range found {
			if s, ok := byID[id]; ok {
				var own []string
				for _, ln := range strings.Split(out, "\n") {
					if strings.Contains(ln, id+"/") {
						own = append(own, ln)
					}
				}
				s.BuildOut = strings.Join(own, "\n")
				failing = append(failing, s)
			}
		}
	}
	sort.Slice(failing, func(i, j int) bool { return failing[i].ID < failing[j].ID })
	return failing, nil
}
