package gencli

import (
	"encoding/json"
	"fmt"
	"math/rand"
	"os"
	"path/filepath"
	"reflect"
	"regexp"
	"sort"
	"strconv"
	"strings"
	"sync"
	"time"

	"verif/core"
)

func init() {
	core.Register("C26", "model_checking", runC26)
}

// AST handed to TLOView.tla
type astComb struct {
	Name  string   `json:"name"`
	Tag   [4]int   `json:"tag"`
	Func  bool     `json:"func"`
	Type  string   `json:"type"`
	Targs []string `json:"targs"`
}

type astSchema struct {
	ID          string    `json:"id"`
	UniqueNames bool      `json:"uniqueNames"`
	Combs       []astComb `json:"combs"`
}

func le4(v uint32) [4]int {
	return [4]int{int(v & 255), int(v >> 8 & 255), int(v >> 16 & 255), int(v >> 24)}
}
func fromLE4(b []int) uint32 {
	if len(b) != 4 {
		return 0
	}
	return uint32(b[0]) | uint32(b[1])<<8 | uint32(b[2])<<16 | uint32(b[3])<<24
}

// what TLC prints for View(s)
type viewType struct {
	ID    string   `json:"id"`
	Name  []int    `json:"name"`
	Arity int      `json:"arity"`
	Kinds []string `json:"kinds"`
	NCons int      `json:"ncons"`
}
type viewComb struct {
	ID    string `json:"id"`
	Tag   []int  `json:"tag"`
	TName []int  `json:"tname"`
}
type tloView struct {
	ID       string     `json:"id"`
	Types    []viewType `json:"types"`
	Ctors    []viewComb `json:"ctors"`
	Funcs    []viewComb `json:"funcs"`
	NFuncs   int        `json:"nfuncs"`
	Collides bool       `json:"collides"`
}

// what the driver decodes
type drvType struct {
	ID         string `json:"id"`
	Name       uint32 `json:"name"`
	NCons      int    `json:"ncons"`
	Flags      int    `json:"flags"`
	Arity      int    `json:"arity"`
	ParamsType int64  `json:"params_type"`
}
type drvComb struct {
	ID       string `json:"id"`
	Name     uint32 `json:"name"`
	TypeName uint32 `json:"type_name"`
	Builtin  bool   `json:"builtin"`
	NArgs    int    `json:"nargs"`
	V4       bool   `json:"v4"`
}
type drvTLO struct {
	Err        string    `json:"err"`
	Panic      string    `json:"panic"`
	SchemaKind string    `json:"schema_kind"`
	Version    int32     `json:"version"`
	Date       int32     `json:"date"`
	TypesNum   int       `json:"types_num"`
	CtorNum    int       `json:"constructor_num"`
	FuncNum    int       `json:"functions_num"`
	Types      []drvType `json:"types"`
	Ctors      []drvComb `json:"ctors"`
	Funcs      []drvComb `json:"funcs"`
	Rest       int       `json:"rest"`
	ReencodeEq bool      `json:"reencode_equal"`
	Size       int       `json:"size"`
}

type c26Stim struct {
	ID     string
	Src    string            // "model" | "repo"
	Files  map[string]string // file name -> content (written to the stimulus directory)
	Args   []string
	AST    astSchema
	Model  *mSchema
	View   *tloView
	Stamps []uint32
}

// ---------------------------------------------------------------------------
// a light reader of TL1 source: names, explicit tags, template parameter kinds, declared
// type, function or constructor. Implicit tags are filled in from the canonical listing.

var (
	reLineComment = regexp.MustCompile(`//[^\n]*`)
	reHead        = regexp.MustCompile(`^((?:@\w+\s+)*)([A-Za-z_][A-Za-z0-9_.]*)(?:#([0-9a-fA-F]{1,8}))?`)
	reTarg        = regexp.MustCompile(`\{\s*(\w+)\s*:\s*(#|Type)\s*\}`)
)

type srcComb struct {
	Name     string
	HasTag   bool
	Tag      uint32
	Func     bool
	Type     string
	Targs    []string
	RightArg int
}

func parseTL1Light(text string) ([]srcComb, error) {
	text = reLineComment.ReplaceAllString(text, "")
	var out []srcComb
	inFuncs := false
	for _, st := range strings.Split(text, ";") {
		st = strings.TrimSpace(st)
		for strings.HasPrefix(st, "---") {
			end := strings.Index(st[3:], "---")
			if end < 0 {
				return nil, fmt.Errorf("bad section marker in %q", st)
			}
			sec := st[3 : 3+end]
			inFuncs = sec == "functions"
			st = strings.TrimSpace(st[3+end+3:])
		}
		if st == "" {
			continue
		}
		m := reHead.FindStringSubmatch(st)
		if m == nil {
			return nil, fmt.Errorf("cannot read combinator head of %q", st)
		}
		cb := srcComb{Name: m[2], Func: inFuncs}
		if m[3] != "" {
			v, _ := strconv.ParseUint(m[3], 16, 32)
			cb.HasTag, cb.Tag = true, uint32(v)
		}
		if arrow := strings.Index(st, "=>"); arrow >= 0 { // "name args => Result" declares a function anywhere
			cb.Func = true
			cb.Targs = []string{}
			out = append(out, cb)
			continue
		}
		eq := strings.LastIndex(st, "=")
		if eq < 0 {
			return nil, fmt.Errorf("no '=' in %q", st)
		}
		for _, ta := range reTarg.FindAllStringSubmatch(st[:eq], -1) {
			if ta[2] == "#" {
				cb.Targs = append(cb.Targs, "nat")
			} else {
				cb.Targs = append(cb.Targs, "type")
			}
		}
		right := strings.Fields(st[eq+1:])
		if len(right) == 0 {
			return nil, fmt.Errorf("empty right side in %q", st)
		}
		if !cb.Func {
			cb.Type = right[0]
			cb.RightArg = len(right) - 1
			if cb.RightArg != len(cb.Targs) {
				return nil, fmt.Errorf("unsupported declaration (template parameters without braces?): %q", st)
			}
		}
		if cb.Targs == nil {
			cb.Targs = []string{}
		}
		out = append(out, cb)
	}
	return out, nil
}

func runC26(c *core.Ctx) error {
	t, err := buildTools(c, false)
	if err != nil {
		return err
	}
	drv := filepath.Join(c.Scratch, "genclidrv")
	if err := c.BuildInRepo("internal/verifx/gencli", map[string]string{
		"internal/verifx/gencli/main.go": core.DriverSrc("gencli/main.go")}, drv, false, false); err != nil {
		return err
	}
	rng := rand.New(rand.NewSource(c.Seed))
	root := filepath.Join(c.Scratch, "c26")
	var stims []*c26Stim

	// ---- S_small: tag assignments incl. XOR collisions over fixed bases, and templates
	tagRes, err := c.MustTLC(core.TLCOpts{Module: "MC_SchemaSpace", Cfg: "MC_SchemaTLO.cfg", Workers: 4, Timeout: 10 * time.Minute,
		Consts: map[string]string{"TAGKINDS": `{"fresh", "xor", "crc"}`, "MAXTAGS": fmt.Sprint(c.Pick(2, 3)), "BASES": `{"b1", "b2", "b4"}`}})
	if err != nil {
		return err
	}
	growRes, err := c.MustTLC(core.TLCOpts{Module: "MC_SchemaSpace", Cfg: "MC_SchemaSpace.cfg", Workers: 4, Timeout: 10 * time.Minute,
		Consts: c14CfgF(1, c.Pick(1, 2), `{"", "a"}`, "MCNameMenuSmall", "MCFieldNamesTiny", "MCKindsTLO", "{0}", `{"fresh"}`, "MCMutationsNone", `{"tlo"}`, `{"get"}`)})
	if err != nil {
		return err
	}
	c.Add("states", tagRes.Distinct+growRes.Distinct)
	c.Add("transitions", tagRes.Generated+growRes.Generated)
	c.Logf("TLC: %d tag assignments, %d small schemas", tagRes.Distinct, growRes.Distinct)
	var models []mSchema
	nColl := 0
	for _, raw := range tagRes.Emits {
		var m mSchema
		if err := json.Unmarshal(raw, &m); err != nil {
			return err
		}
		if m.TagsOK { // schemas with bad tags never reach the TLO writer (C24)
			models = append(models, m)
		}
	}
	var grow []mSchema
	for _, raw := range growRes.Emits {
		var m mSchema
		if err := json.Unmarshal(raw, &m); err != nil {
			return err
		}
		if m.TagsOK && m.WF && len(m.Schema) > 0 {
			grow = append(grow, m)
		}
	}
	rng.Shuffle(len(grow), func(i, j int) { grow[i], grow[j] = grow[j], grow[i] })
	if n := c.Pick(60, 600); len(grow) > n {
		grow = grow[:n]
	}
	models = append(models, grow...)
	dropped := 0
	stampsAll := []uint32{1, 301822800, 1761907954, 2147483648, 4294967295}
	for i := range models {
		m := &models[i]
		tags, has, inj := concreteTags(m.Schema)
		if !inj {
			dropped++
			continue
		}
		tl1, _ := renderTL(m.Schema)
		st := &c26Stim{ID: fmt.Sprintf("m%04d", i), Src: "model", Files: map[string]string{"s.tl": tl1}, Args: []string{"s.tl"}, Model: m}
		ast := astSchema{ID: st.ID, UniqueNames: true}
		pre, err := parseTL1Light(preludeTL1)
		if err != nil {
			return err
		}
		for _, p := range pre {
			ast.Combs = append(ast.Combs, astComb{Name: p.Name, Tag: le4(preludeTags[p.Name]), Func: false, Type: p.Type, Targs: p.Targs})
		}
		var funcs []astComb
		for ci := range m.Schema {
			cb := &m.Schema[ci]
			if !has[ci] {
				continue
			}
			targs := cb.Targs
			if targs == nil {
				targs = []string{}
			}
			a := astComb{Name: cb.ctorName(), Tag: le4(tags[ci]), Func: cb.Kind == "func", Targs: targs}
			if a.Func {
				a.Targs = []string{}
				funcs = append(funcs, a)
			} else {
				a.Type = cb.typeName()
				ast.Combs = append(ast.Combs, a)
			}
		}
		ast.Combs = append(ast.Combs, funcs...)
		st.AST = ast
		st.Stamps = []uint32{stampsAll[i%len(stampsAll)]}
		if i%7 == 0 {
			st.Stamps = append(st.Stamps, 0)
		}
		stims = append(stims, st)
	}

	// ---- S_repo: the repository's TL1 schemas; implicit tags come from the canonical listing
	tls := filepath.Join(core.RepoDir, "internal", "tlcodegen", "test", "tls")
	repoSets := [][]string{
		{filepath.Join(testdataDir(), "small3", "x", "base.tl"), filepath.Join(testdataDir(), "small3", "x", "more.tl"), filepath.Join(testdataDir(), "small3", "y", "extra.tl")},
		{filepath.Join(tls, "cases.tl")},
		{filepath.Join(tls, "goldmaster.tl"), filepath.Join(tls, "goldmaster2.tl"), filepath.Join(tls, "goldmaster3.tl")},
		{filepath.Join(tls, "schema.tl")},
		{filepath.Join(tls, "cpp.tl")},
		{filepath.Join(core.RepoDir, "internal", "tlast", "tls.tl")},
	}
	repoSkipped := map[string]string{}
	for si, set := range repoSets {
		st := &c26Stim{ID: fmt.Sprintf("r%02d", si), Src: "repo", Files: map[string]string{}}
		var combs []srcComb
		bad := ""
		for fi, f := range set {
			b, err := os.ReadFile(f)
			if err != nil {
				return err
			}
			name := fmt.Sprintf("f%d_%s", fi, filepath.Base(f))
			st.Files[name] = string(b)
			st.Args = append(st.Args, name)
			cs, err := parseTL1Light(string(b))
			if err != nil {
				bad = err.Error()
				break
			}
			combs = append(combs, cs...)
		}
		if bad != "" {
			repoSkipped[filepath.Base(set[0])] = bad
			continue
		}
		dir := filepath.Join(root, st.ID)
		for n, txt := range st.Files {
			if err := writeFileMk(filepath.Join(dir, n), []byte(txt)); err != nil {
				return err
			}
		}
		r := runCmd(dir, nil, 2*time.Minute, t.tl2gen, append([]string{"--language=canonical", "--outfile=canon.txt"}, st.Args...)...)
		if r.Err != nil {
			return r.Err
		}
		if r.Exit != 0 {
			repoSkipped[filepath.Base(set[0])] = "rejected by tl2gen: " + tail(stripANSI(r.Out), 200)
			continue
		}
		canon, _ := readFileStr(filepath.Join(dir, "canon.txt"))
		names, tags, _ := canonicalTags(canon)
		byName := map[string]uint32{}
		for i, n := range names {
			byName[n] = tags[i]
		}
		ast := astSchema{ID: st.ID, UniqueNames: true}
		seen := map[string]bool{}
		ok := true
		for _, cb := range combs {
			tag := cb.Tag
			if !cb.HasTag {
				v, have := byName[cb.Name]
				if !have {
					ok = false
					repoSkipped[filepath.Base(set[0])] = "canonical listing lacks " + cb.Name
					break
				}
				tag = v
			}
			if seen[cb.Name] {
				ast.UniqueNames = false
			}
			seen[cb.Name] = true
			ast.Combs = append(ast.Combs, astComb{Name: cb.Name, Tag: le4(tag), Func: cb.Func, Type: cb.Type, Targs: cb.Targs})
		}
		if !ok {
			continue
		}
		st.AST = ast
		st.Stamps = []uint32{1, 301822800, 4294967295, 0}
		if !c.Thorough() {
			st.Stamps = []uint32{301822800, 0}
		}
		stims = append(stims, st)
	}
	// ---- TLOView computed by TLC from the ASTs
	var asts []astSchema
	for _, s := range stims {
		asts = append(asts, s.AST)
	}
	astJSON, _ := json.Marshal(asts)
	vres, err := c.MustTLC(core.TLCOpts{Module: "TLOView", Cfg: "TLOView.cfg", Workers: 4, Timeout: 10 * time.Minute,
		Files: map[string][]byte{"tlo_ast.json": astJSON}})
	if err != nil {
		return err
	}
	c.Add("states", vres.Distinct)
	c.Add("transitions", vres.Generated)
	views := map[string]*tloView{}
	for _, raw := range vres.Emits {
		var v tloView
		if err := json.Unmarshal(raw, &v); err != nil {
			return fmt.Errorf("TLOView emit: %v", err)
		}
		views[v.ID] = &v
	}
	for _, s := range stims {
		s.View = views[s.ID]
		if s.View == nil {
			return fmt.Errorf("TLC produced no view for %s", s.ID)
		}
		if s.View.Collides {
			nColl++
		}
	}
	c.Logf("%d stimuli (%d with colliding type names, %d dropped by the injectivity assumption)", len(stims), nColl, dropped)

	// ---- run the generator and compare
	p, err := core.StartProc(drv, nil)
	if err != nil {
		return err
	}
	defer p.Close()
	var mu sync.Mutex
	var hErr error
	type outcome struct {
		key, what string
		replay    any
	}
	evalStim := func(s *c26Stim, tag string) []outcome {
		var outs []outcome
		dir := filepath.Join(root, tag+s.ID)
		for n, txt := range s.Files {
			_ = writeFileMk(filepath.Join(dir, n), []byte(txt))
		}
		var firstBytes []byte
		for k, ts := range s.Stamps {
			of := filepath.Join(dir, fmt.Sprintf("out%d.tlo", k))
			t0 := time.Now().Unix()
			r := runCmd(dir, nil, 2*time.Minute, t.tl2gen, append([]string{"--language=tlo", "--outfile=" + of, fmt.Sprintf("--schemaTimestamp=%d", ts)}, s.Args...)...)
			t1 := time.Now().Unix()
			if r.Err != nil {
				mu.Lock()
				hErr = r.Err
				mu.Unlock()
				return nil
			}
			out := stripANSI(r.Out)
			replay := map[string]any{"files": s.Files, "args": s.Args, "timestamp": ts, "expected": s.View}
			_, statErr := os.Stat(of)
			if s.View.Collides {
				switch {
				case r.Exit == 0:
					outs = append(outs, outcome{"collision/emitted", "two types have the same XOR name but a TLO file was emitted", replay})
				case hasStackTrace(out) || r.Exit != 1 || !strings.Contains(out, "collision"):
					outs = append(outs, outcome{"collision/no-clean-error", "XOR-name collision not reported as an error: " + tail(out, 400), replay})
				case statErr == nil:
					outs = append(outs, outcome{"collision/file-written", "generation failed on a name collision but the TLO file exists", replay})
				}
				continue
			}
			if r.Exit != 0 && s.Src == "repo" && r.Exit == 1 && !hasStackTrace(out) && strings.Contains(out, "not found") {
				// a repository schema that relies on undeclared builtins (cpp.tl uses int without declaring it)
				// cannot be described as a TLO; the refusal is clean, nothing is produced
				mu.Lock()
				repoSkipped[s.ID+" "+s.Args[0]] = "clean refusal by the TLO generator: " + tail(strings.TrimSpace(out), 160)
				mu.Unlock()
				if _, e := os.Stat(of); e == nil {
					outs = append(outs, outcome{"rejected/file-written", "TLO generation failed but the file exists", replay})
				}
				return outs
			}
			if r.Exit != 0 {
				outs = append(outs, outcome{"rejected/" + s.Src, "schema without name collision was rejected by the TLO generator: " + tail(out, 500), replay})
				continue
			}
			var d drvTLO
			mu.Lock()
			cerr := p.Call(map[string]any{"op": "tlo", "path": of}, &d)
			mu.Unlock()
			if cerr != nil {
				mu.Lock()
				hErr = cerr
				mu.Unlock()
				return nil
			}
			if why := compareTLO(s.View, &d, ts, t0, t1); why != "" {
				cls := strings.SplitN(why, ":", 2)[0]
				outs = append(outs, outcome{"describe/" + cls, fmt.Sprintf("TLO of %s (timestamp %d) differs from TLOView: %s", s.ID, ts, why), replay})
				continue
			}
			b, _ := os.ReadFile(of)
			if ts != 0 {
				// same schema, different timestamps: only the 8 bytes of version/date may differ
				if firstBytes != nil && (len(b) != len(firstBytes) || !reflect.DeepEqual(b[:4], firstBytes[:4]) || !reflect.DeepEqual(b[12:], firstBytes[12:])) {
					outs = append(outs, outcome{"bytes/timestamp-leak", "TLO bytes beyond version/date depend on the timestamp", replay})
				}
				if firstBytes == nil {
					firstBytes = b
				}
			}
		}
		return outs
	}
	results := make([][]outcome, len(stims))
	parallel(len(stims), 6, func(i int) { results[i] = evalStim(stims[i], "") })
	if hErr != nil {
		return hErr
	}
	described, refused := 0, 0
	for i, s := range stims {
		c.Add("evaluations", len(s.Stamps))
		if s.View.Collides {
			refused++
		} else {
			described++
		}
		if len(results[i]) > 0 {
			again := evalStim(s, "again-")
			if hErr != nil {
				return hErr
			}
			if len(again) == 0 {
				return fmt.Errorf("mismatch did not reproduce: %s %s", results[i][0].key, results[i][0].what)
			}
			for _, o := range again {
				c.Violate(o.key, o.what, o.replay)
			}
		}
		if i%(len(stims)/8+1) == 0 || s.Src == "repo" && i%2 == 0 {
			c.Sample(map[string]any{"stimulus": s.ID, "source": s.Src, "types": len(s.View.Types), "constructors": len(s.View.Ctors), "functions": s.View.NFuncs,
				"collides": s.View.Collides, "timestamps": s.Stamps})
		}
	}
	c.Set("repo_schemas_skipped", repoSkipped)
	c.Add("traces_validated_against_impl", len(stims))
	c.Set("impl_accepted", described)
	c.Set("impl_rejected", refused)
	c.Set("stimuli_with_xor_name_collision", nColl)
	c.Set("dropped_by_injectivity_assumption", dropped)
	c.Set("distinct_nontrivial", len(stims))
	if nColl == 0 {
		return fmt.Errorf("vacuous: no schema with an XOR-name collision was enumerated")
	}
	if described < 20 {
		return fmt.Errorf("vacuous: only %d schemas described", described)
	}
	nRepo := 0
	hasTemplate := false
	for _, s := range stims {
		if s.Src == "repo" {
			nRepo++
		}
		for _, ty := range s.View.Types {
			if s.Src == "model" && ty.Arity > 0 && !preludeTypeNames[ty.ID] {
				hasTemplate = true
			}
		}
	}
	nRepo -= len(repoSkipped)
	if nRepo < 3 {
		return fmt.Errorf("vacuous: only %d repository schemas could be bound (%v)", nRepo, repoSkipped)
	}
	if !hasTemplate {
		return fmt.Errorf("vacuous: no enumerated schema declares a template type")
	}

	// binding self-test: a corrupted expectation must be detected
	for _, s := range stims {
		if s.View.Collides || len(s.View.Types) < 4 {
			continue
		}
		dir := filepath.Join(root, "selftest")
		for n, txt := range s.Files {
			_ = writeFileMk(filepath.Join(dir, n), []byte(txt))
		}
		of := filepath.Join(dir, "o.tlo")
		r := runCmd(dir, nil, 2*time.Minute, t.tl2gen, append([]string{"--language=tlo", "--outfile=" + of, "--schemaTimestamp=5"}, s.Args...)...)
		if r.Exit != 0 {
			return fmt.Errorf("self-test generation failed")
		}
		var d drvTLO
		if err := p.Call(map[string]any{"op": "tlo", "path": of}, &d); err != nil {
			return err
		}
		if why := compareTLO(s.View, &d, 5, 0, 0); why != "" {
			return fmt.Errorf("self-test: uncorrupted expectation differs: %s", why)
		}
		bad := *s.View
		bad.Types = append([]viewType(nil), s.View.Types...)
		for i := range bad.Types {
			if bad.Types[i].NCons >= 1 {
				n := append([]int(nil), bad.Types[i].Name...)
				n[0] ^= 1
				bad.Types[i].Name = n
				break
			}
		}
		if compareTLO(&bad, &d, 5, 0, 0) == "" {
			return fmt.Errorf("binding self-test failed: corrupted type name not detected")
		}
		bad2 := *s.View
		bad2.Ctors = append(append([]viewComb(nil), s.View.Ctors...), s.View.Ctors[len(s.View.Ctors)-1])
		if compareTLO(&bad2, &d, 5, 0, 0) == "" {
			return fmt.Errorf("binding self-test failed: constructor listed twice not detected")
		}
		c.Set("selftest_corrupted_expectation_detected", true)
		break
	}
	c.Set("rule", "for every schema (tag assignments incl. XOR collisions and template declarations enumerated by TLC from SchemaSpace; the repository's TL1 schemas) TLC computes TLOView from the AST; tl2gen --language=tlo output is decoded with the repository's tltls package and must list exactly the view (each constructor/function once with tag and name; types with arity, parameter kinds, constructor count, name = XOR of constructor tags, plus # and Type), decode completely, re-encode to identical bytes, carry the timestamp as version/date, and differ between timestamps only in those 8 bytes; XOR-name collisions must be refused with an error and no file")
	c.Assume("for the repository's schemas the AST is read from the source by a light reader of combinator heads (name, explicit tag, {x:Type}/{n:#}, declared type); implicit tags are taken from tl2gen --language=canonical (C25 binds that listing)")
	c.Assume("order of constructors/types/functions inside the TLO is not compared; the field-level description (args, type expressions) is outside this property")
	c.Assume("timestamp 0 means 'now' by design: version 0 and a date within the run's wall-clock window; excluded from byte comparisons")
	return nil
}

var preludeTypeNames = map[string]bool{"Vector": true, "Tuple": true, "DictionaryField": true, "Dictionary": true, "DictionaryAnyField": true,
	"DictionaryAny": true, "Maybe": true, "Pair": true}

// compareTLO returns "" when the decoded TLO equals the view, else "class: detail".
func compareTLO(v *tloView, d *drvTLO, ts uint32, t0, t1 int64) string {
	if d.Panic != "" {
		return "decoder-panic: " + d.Panic
	}
	if d.Err != "" {
		return "decode-error: " + d.Err
	}
	if d.Rest != 0 {
		return fmt.Sprintf("trailing-bytes: %d bytes left after decoding", d.Rest)
	}
	if !d.ReencodeEq {
		return "reencode: re-encoded bytes differ from the file"
	}
	if ts != 0 {
		if uint32(d.Version) != ts || uint32(d.Date) != ts {
			return fmt.Sprintf("timestamp: version=%d date=%d, expected %d", uint32(d.Version), uint32(d.Date), ts)
		}
	} else if t1 != 0 && (d.Version != 0 || int64(d.Date) < t0-1 || int64(d.Date) > t1+1) {
		return fmt.Sprintf("timestamp-now: version=%d date=%d outside [%d,%d]", d.Version, d.Date, t0, t1)
	}
	if d.TypesNum != len(d.Types) || d.CtorNum != len(d.Ctors) || d.FuncNum != len(d.Funcs) {
		return "counts: *_num fields disagree with the lists"
	}
	// types
	type tkey struct {
		ID    string
		Name  uint32
		Arity int
		Kinds string
		NCons int
	}
	var exp, got []string
	for _, t := range v.Types {
		exp = append(exp, fmt.Sprintf("%s name=%08x arity=%d kinds=%s ncons=%d", t.ID, fromLE4(t.Name), t.Arity, strings.Join(t.Kinds, ","), t.NCons))
	}
	for _, t := range d.Types {
		var kinds []string
		for i := 0; i < t.Arity; i++ {
			if t.ParamsType&(1<<uint(i)) != 0 {
				kinds = append(kinds, "nat")
			} else {
				kinds = append(kinds, "type")
			}
		}
		if t.ParamsType>>uint(t.Arity) != 0 {
			kinds = append(kinds, "extra-bits")
		}
		got = append(got, fmt.Sprintf("%s name=%08x arity=%d kinds=%s ncons=%d", t.ID, t.Name, t.Arity, strings.Join(kinds, ","), t.NCons))
	}
	if why := diffMultiset(exp, got); why != "" {
		return "types: " + why
	}
	exp, got = nil, nil
	for _, c := range v.Ctors {
		exp = append(exp, fmt.Sprintf("%s#%08x type=%08x", c.ID, fromLE4(c.Tag), fromLE4(c.TName)))
	}
	for _, c := range d.Ctors {
		got = append(got, fmt.Sprintf("%s#%08x type=%08x", c.ID, c.Name, c.TypeName))
	}
	if why := diffMultiset(exp, got); why != "" {
		return "constructors: " + why
	}
	exp, got = nil, nil
	for _, c := range v.Funcs {
		exp = append(exp, fmt.Sprintf("%s#%08x", c.ID, fromLE4(c.Tag)))
	}
	for _, c := range d.Funcs {
		got = append(got, fmt.Sprintf("%s#%08x", c.ID, c.Name))
	}
	if len(exp) != v.NFuncs {
		return "functions: the view itself lists a function twice"
	}
	if why := diffMultiset(exp, got); why != "" {
		return "functions: " + why
	}
	return ""
}

func diffMultiset(exp, got []string) string {
	sort.Strings(exp)
	sort.Strings(got)
	if reflect.DeepEqual(exp, got) {
		return ""
	}
	cnt := map[string]int{}
	for _, x := range exp {
		cnt[x]++
	}
	for _, x := range got {
		cnt[x]--
	}
	var missing, extra []string
	for k, n := range cnt {
		if n > 0 {
			missing = append(missing, k)
		} else if n < 0 {
			extra = append(extra, k)
		}
	}
	sort.Strings(missing)
	sort.Strings(extra)
	if len(missing) > 4 {
		missing = missing[:4]
	}
	if len(extra) > 4 {
		extra = extra[:4]
	}
	return fmt.Sprintf("expected but absent %v; listed but not expected (or listed too often) %v", missing, extra)
}
