package gencli

import (
	"encoding/json"
	"fmt"
	"math/rand"
	"os"
	"path/filepath"
	"sort"
	"strings"
	"sync"
	"time"

	"verif/core"
)

func init() {
	core.Register("C15", "model_checking", runC15)
}

func testdataDir() string {
	return filepath.Join(core.VerifDir, "harness", "checks", "gencli", "testdata")
}

const c15Timestamp = "301822800"

var phpFlags = []string{"--php-rpc-support=true", "--php-serialization-bodies=true", "--php-generate-fetchers=true",
	"--php-generate-switcher=true", "--php-use-builtin-data-providers=true", "--php-add-type-comments=true",
	"--php-generate-fetchers-echo-comment=false"}

type c15Set struct {
	Name  string
	Files []string // relative to the set root, slash paths
	Langs []string
}

type c15Run struct {
	Set    string   `json:"set"`
	Opts   string   `json:"opts"`
	Order  []string `json:"order"`
	Procs  int      `json:"procs"`
	Rep    int      `json:"rep"`
	Digest string   `json:"digest"`
	NFiles int      `json:"-"`
	files  map[string]string
	errOut string
}

// covers enumerates the argument lists that denote exactly the file set: every directory is
// either listed itself or replaced by its files; plus "." ; each cover in every permutation.
func c15Orders(files []string) [][]string {
	byDir := map[string][]string{}
	var dirs []string
	for _, f := range files {
		d := filepath.Dir(f)
		if _, ok := byDir[d]; !ok {
			dirs = append(dirs, d)
		}
		byDir[d] = append(byDir[d], f)
	}
	sort.Strings(dirs)
	var covers [][]string
	for mask := 0; mask < 1<<len(dirs); mask++ {
		var cv []string
		for i, d := range dirs {
			if mask&(1<<i) != 0 {
				cv = append(cv, d)
			} else {
				cv = append(cv, byDir[d]...)
			}
		}
		covers = append(covers, cv)
	}
	covers = append(covers, []string{"."})
	var out [][]string
	seen := map[string]bool{}
	for _, cv := range covers {
		permute(cv, func(p []string) {
			k := strings.Join(p, " ")
			if !seen[k] {
				seen[k] = true
				out = append(out, append([]string(nil), p...))
			}
		})
	}
	return out
}

func permute(a []string, f func([]string)) {
	var rec func(int)
	rec = func(i int) {
		if i == len(a) {
			f(a)
			return
		}
		for j := i; j < len(a); j++ {
			a[i], a[j] = a[j], a[i]
			rec(i + 1)
			a[i], a[j] = a[j], a[i]
		}
	}
	rec(0)
}

func runC15(c *core.Ctx) error {
	t, err := buildTools(c, true)
	if err != nil {
		return err
	}
	rng := rand.New(rand.NewSource(c.Seed))
	inRoot := filepath.Join(c.Scratch, "c15in")
	outRoot := filepath.Join(c.Scratch, "c15out")
	tls := filepath.Join(core.RepoDir, "internal", "tlcodegen", "test", "tls")
	place := func(set, rel, src string) error {
		b, err := os.ReadFile(src)
		if err != nil {
			return err
		}
		return writeFileMk(filepath.Join(inRoot, set, rel), b)
	}
	sets := []c15Set{
		{Name: "small3", Files: []string{"x/base.tl", "x/more.tl", "y/extra.tl"}, Langs: []string{"go", "cpp", "php", "tlo", "canonical", "tljson.html"}},
		{Name: "cases", Files: []string{"d/cases.tl"}, Langs: []string{"go", "php"}},
	}
	for _, f := range sets[0].Files {
		if err := place("small3", f, filepath.Join(testdataDir(), "small3", f)); err != nil {
			return err
		}
	}
	if err := place("cases", "d/cases.tl", filepath.Join(tls, "cases.tl")); err != nil {
		return err
	}
	if c.Thorough() {
		sets[1].Langs = []string{"go", "cpp", "php", "tlo", "canonical", "tljson.html"}
		sets = append(sets,
			c15Set{Name: "mixed", Files: []string{"m/a.tl", "n/b.tl2"}, Langs: []string{"go", "php", "tlo", "canonical", "tljson.html"}},
			c15Set{Name: "goldmaster", Files: []string{"a/goldmaster.tl", "a/goldmaster2.tl", "b/goldmaster3.tl"}, Langs: []string{"go", "cpp", "tlo", "canonical", "tljson.html"}},
			c15Set{Name: "schema", Files: []string{"s/schema.tl"}, Langs: []string{"go", "cpp", "tlo", "canonical"}})
		for _, f := range []string{"m/a.tl", "n/b.tl2"} {
			if err := place("mixed", f, filepath.Join(testdataDir(), "mixed", f)); err != nil {
				return err
			}
		}
		for rel, src := range map[string]string{"a/goldmaster.tl": "goldmaster.tl", "a/goldmaster2.tl": "goldmaster2.tl", "b/goldmaster3.tl": "goldmaster3.tl"} {
			if err := place("goldmaster", rel, filepath.Join(tls, src)); err != nil {
				return err
			}
		}
		if err := place("schema", "s/schema.tl", filepath.Join(tls, "schema.tl")); err != nil {
			return err
		}
	}

	// command line of one run; returns tool, args and the produced paths to digest
	cmdline := func(lang string, out string, order []string) (tool string, args []string, produced []string) {
		meta := []string{"--schemaTimestamp=" + c15Timestamp, "--schemaURL=https://example.org/schema.tl", "--schemaCommit=abcdefgh"}
		switch lang {
		case "go":
			args = append([]string{"--language=go", "--outdir=" + out, "--pkgPath=c15mod/gen/tl", "--tl2WhiteList=*", "--split-internal",
				"--generateRPCCode", "--generateByteVersions=*", "--generateRandomCode"}, meta...)
			return t.tl2gen, append(args, order...), []string{out}
		case "cpp":
			args = append([]string{"--language=cpp", "--cpp-generate-meta=true", "--cpp-generate-factory=true", "--outdir=" + out}, meta...)
			return t.tlgen, append(args, order...), []string{out}
		case "php":
			args = append(append([]string{"--language=php", "--outdir=" + out}, phpFlags...), meta...)
			return t.tl2gen, append(args, order...), []string{out}
		case "tlo":
			args = []string{"--language=tlo", "--outfile=" + filepath.Join(out, "schema.tlo"), "--schemaTimestamp=" + c15Timestamp}
			return t.tl2gen, append(args, order...), []string{out}
		case "canonical":
			args = []string{"--language=canonical", "--outfile=" + filepath.Join(out, "canonical.tl")}
			return t.tl2gen, append(args, order...), []string{out}
		case "tljson.html":
			args = append([]string{"--language=tljson.html", "--outfile=" + filepath.Join(out, "tljson.html")}, meta...)
			return t.tl2gen, append(args, order...), []string{out}
		}
		return "", nil, nil
	}

	// plan the runs: per key (set, lang) the first run is the reference order with GOMAXPROCS=1,
	// then sampled (order, procs) pairs covering all GOMAXPROCS values, and one exact repetition
	procsAll := []int{1, 2, 4, 16}
	var plan []*c15Run
	perKey := c.Pick(6, 19)
	for _, s := range sets {
		orders := c15Orders(s.Files)
		for _, lang := range s.Langs {
			var runs []*c15Run
			runs = append(runs, &c15Run{Set: s.Name, Opts: lang, Order: orders[0], Procs: 1, Rep: 1})
			n := perKey
			if len(orders) == 2 && n > 9 { // single-file sets: file or directory
				n = 9
			}
			for i := 1; i < n; i++ {
				o := orders[rng.Intn(len(orders))]
				if i < len(orders) && i <= 3 {
					o = orders[(i*5)%len(orders)] // make sure several different covers are used
				}
				runs = append(runs, &c15Run{Set: s.Name, Opts: lang, Order: o, Procs: procsAll[i%4], Rep: 1})
			}
			last := runs[len(runs)-1]
			runs = append(runs, &c15Run{Set: s.Name, Opts: lang, Order: last.Order, Procs: last.Procs, Rep: 2})
			plan = append(plan, runs...)
		}
	}
	c.Logf("%d generator runs planned over %d sets", len(plan), len(sets))

	var mu sync.Mutex
	var firstErr error
	exec1 := func(i int, r *c15Run, tag string) {
		out := filepath.Join(outRoot, fmt.Sprintf("%s%04d", tag, i))
		_ = os.RemoveAll(out)
		if err := os.MkdirAll(filepath.Dir(out), 0o755); err != nil {
			mu.Lock()
			firstErr = err
			mu.Unlock()
			return
		}
		if r.Opts == "tlo" || r.Opts == "canonical" || r.Opts == "tljson.html" {
			_ = os.MkdirAll(out, 0o755)
		}
		tool, args, produced := cmdline(r.Opts, out, r.Order)
		res := runCmd(filepath.Join(inRoot, r.Set), envWith(fmt.Sprintf("GOMAXPROCS=%d", r.Procs)), 5*time.Minute, tool, args...)
		if res.Err != nil || res.Exit != 0 {
			mu.Lock()
			if firstErr == nil {
				firstErr = fmt.Errorf("generator run failed (set %s, %s, order %v, exit %d): %v\n%s", r.Set, r.Opts, r.Order, res.Exit, res.Err, tail(stripANSI(res.Out), 1500))
			}
			mu.Unlock()
			return
		}
		files := map[string]string{}
		for _, p := range produced {
			fs, _, err := scanTreeFull(p)
			if err != nil {
				mu.Lock()
				firstErr = err
				mu.Unlock()
				return
			}
			for k, v := range fs {
				files[k] = v
			}
		}
		d, n, err := treeDigest(produced...)
		if err != nil {
			mu.Lock()
			firstErr = err
			mu.Unlock()
			return
		}
		r.Digest, r.NFiles, r.files = d, n, files
		_ = os.RemoveAll(out)
	}
	parallel(len(plan), 6, func(i int) { exec1(i, plan[i], "r") })
	if firstErr != nil {
		return firstErr
	}

	// the trace, in plan order
	var tb strings.Builder
	byLang := map[string]int{}
	byProcs := map[string]int{}
	orderKinds := map[string]int{}
	for _, r := range plan {
		b, _ := json.Marshal(r)
		tb.Write(b)
		tb.WriteByte('\n')
		byLang[r.Opts]++
		byProcs[fmt.Sprint(r.Procs)]++
		orderKinds[fmt.Sprintf("%s:%d-args", r.Set, len(r.Order))]++
		if r.NFiles == 0 {
			return fmt.Errorf("vacuous: run %s/%s produced no files", r.Set, r.Opts)
		}
	}
	c.Set("runs_by_language", byLang)
	c.Set("runs_by_gomaxprocs", byProcs)
	c.Set("runs_by_argument_shape", orderKinds)
	c.Add("evaluations", len(plan))

	// model-level check of GenRuns
	mc, err := c.MustTLC(core.TLCOpts{Module: "MC_GenRuns", Cfg: "MC_GenRuns.cfg", Workers: 4, Timeout: 5 * time.Minute})
	if err != nil {
		return err
	}
	c.Add("states", mc.Distinct)
	c.Add("transitions", mc.Generated)

	// trace validation
	failedAt, res, err := c15Validate(c, []byte(tb.String()))
	if err != nil {
		return err
	}
	c.Add("states", res.Distinct)
	c.Add("transitions", res.Generated)
	if failedAt == 0 {
		c.Add("traces_validated_against_impl", 1)
		c.Add("trace_events_validated", len(plan))
	} else {
		// the first event that is not a step of GenRuns: reproduce both runs in fresh directories
		bad := plan[failedAt-1]
		var ref *c15Run
		for _, r := range plan {
			if r.Set == bad.Set && r.Opts == bad.Opts {
				ref = r
				break
			}
		}
		ref2, bad2 := *ref, *bad
		exec1(0, &ref2, "x")
		exec1(1, &bad2, "y")
		if firstErr != nil {
			return firstErr
		}
		if ref2.Digest != bad2.Digest || bad2.Digest != ref.Digest {
			var diff []string
			for k, v := range ref2.files {
				if bad2.files[k] != v {
					diff = append(diff, k)
				}
			}
			for k := range bad2.files {
				if _, ok := ref2.files[k]; !ok {
					diff = append(diff, k)
				}
			}
			sort.Strings(diff)
			cause := "repetition"
			if ref2.Digest != ref.Digest {
				cause = "same-command-repeated"
			} else if strings.Join(ref.Order, " ") != strings.Join(bad.Order, " ") {
				cause = "argument-order"
			} else if ref.Procs != bad.Procs {
				cause = "gomaxprocs"
			}
			if len(diff) > 8 {
				diff = diff[:8]
			}
			c.Violate(fmt.Sprintf("nondeterministic/%s/%s/%s", bad.Set, bad.Opts, cause),
				fmt.Sprintf("output of %s for set %s differs between runs: order %v GOMAXPROCS=%d digest %s vs order %v GOMAXPROCS=%d digest %s; differing files: %v",
					bad.Opts, bad.Set, ref.Order, ref.Procs, ref2.Digest, bad.Order, bad.Procs, bad2.Digest, diff),
				map[string]any{"reference": ref, "run": bad, "differing_files": diff})
		} else {
			return fmt.Errorf("TraceGenRuns rejected event %d but the difference did not reproduce (flaky): %s", failedAt, mustJSON(bad))
		}
	}

	// binding self-test: corrupt one digest, the trace must be rejected exactly there
	lines := strings.Split(strings.TrimSpace(tb.String()), "\n")
	victim := len(lines) - 1
	var ev c15Run
	_ = json.Unmarshal([]byte(lines[victim]), &ev)
	ev.Digest = "0000" + ev.Digest[4:]
	b, _ := json.Marshal(ev)
	lines[victim] = string(b)
	if failedAt == 0 {
		at, _, err := c15Validate(c, []byte(strings.Join(lines, "\n")+"\n"))
		if err != nil {
			return err
		}
		if at != victim+1 {
			return fmt.Errorf("binding self-test failed: corrupted digest of event %d not rejected there (failed_at=%d)", victim+1, at)
		}
		c.Set("selftest_corrupted_digest_rejected", true)
	}
	for i, r := range plan {
		if i%(len(plan)/8+1) == 0 {
			c.Sample(r)
		}
	}
	c.Set("distinct_nontrivial", len(plan))
	c.Set("rule", "every run of the real generators is logged as {set, opts, order, procs, rep, digest}; TLC validates the log against GenRuns (write-once out[set, opts]): accepted iff every digest equals the first one recorded for its key; argument lists range over all covers of the file set by files and directories in all permutations, GOMAXPROCS over {1,2,4,16}")
	c.Assume("the specification contributes bookkeeping only (a write-once map); the substance is the enumeration of argument orders / GOMAXPROCS / repetitions driven through it")
	c.Assume("all argument lists spell paths the same way (relative to the set root); canonical listings embed the path of the defining file")
	c.Assume("php is generated with the option set the repository's own php Makefile uses (tl2gen --language=php panics without --php-use-builtin-data-providers; goldmaster.tl overflows the stack of the php generator and is excluded for php)")
	return nil
}

// c15Validate runs TraceGenRuns; failedAt is 0 when the trace is accepted, else the 1-based
// index of the first event that is not a step of the specification.
func c15Validate(c *core.Ctx, trace []byte) (failedAt int, res *core.TLCResult, err error) {
	res, err = c.TLC(core.TLCOpts{Module: "TraceGenRuns", Cfg: "TraceGenRuns.cfg", Workers: 1, Timeout: 5 * time.Minute,
		Files: map[string][]byte{"trace.ndjson": trace}})
	if err != nil {
		return 0, res, err
	}
	if res.OK {
		n := len(strings.Split(strings.TrimSpace(string(trace)), "\n"))
		if res.Distinct != n+1 {
			return 0, res, fmt.Errorf("trace validation covered %d states for %d events", res.Distinct, n)
		}
		return 0, res, nil
	}
	if res.ErrorKind != "postcondition" {
		return 0, res, fmt.Errorf("TraceGenRuns failed: %s\n%s", res.ErrorKind, res.ErrorText)
	}
	for _, e := range res.Emits {
		var f struct {
			FailedAt int `json:"failed_at"`
		}
		if json.Unmarshal(e, &f) == nil && f.FailedAt > 0 {
			return f.FailedAt, res, nil
		}
	}
	return 0, res, fmt.Errorf("TraceGenRuns rejected the trace without naming the event:\n%s", res.ErrorText)
}
