package gencli

import (
	"encoding/json"
	"fmt"
	"os"
	"path"
	"path/filepath"
	"sort"
	"strings"
	"sync"
	"time"

	"verif/core"
)

func init() {
	core.Register("C16", "model_checking", runC16)
}

// three small schemas sharing some output files and differing in others
const c16Common = `int#a8509bda ? = Int;
long#22076cba ? = Long;
string#b5286e24 ? = String;
vector#1cb5c415 {t:Type} # [t] = Vector t;
true = True;
boolFalse#bc799737 = Bool;
boolTrue#997275b5 = Bool;
b.bar m:# z:m.0?long = b.Bar;
`

var c16Schemas = map[string]string{
	// namespace a with a.fooBar and a function; b.bar shared with s2, s3
	"s1": c16Common + "a.fooBar x:int y:string = a.FooBar;\n---functions---\n@read a.get id:int = a.FooBar;\n",
	// a.foobar differs from s1's a.fooBar only by case; c.baz is new
	"s2": c16Common + "a.foobar x:int = a.Foobar;\nc.baz v:(vector b.bar) = c.Baz;\n",
	// no namespace a at all; c.baz has different fields than in s2
	"s3": c16Common + "c.baz m:# v:(vector b.bar) w:string t:m.1?true = c.Baz;\n",
}

var c16Stats map[string]any

type c16Lang struct {
	Name     string
	Marker   string
	Opts     map[string][]string // option row -> extra flags
	OptOrder []string
	Foreign  []string
	Keep     []string
	Empty    []string
	MaxSteps int
}

type c16Proj struct {
	Fs      map[string]string `json:"fs"`
	Written []string          `json:"written"`
	Dirs    []string          `json:"dirs"`
	Outside map[string]string `json:"outside"`
	Last    struct {
		Act string `json:"act"`
		S   string `json:"s"`
		O   string `json:"o"`
		Arg string `json:"arg"`
		Ok  bool   `json:"ok"`
	} `json:"last"`
	Clock int `json:"clock"`
}

// TLC's ToJson prints an empty function as [] — accept both.
type strMap map[string]string

func (m *strMap) UnmarshalJSON(b []byte) error {
	*m = map[string]string{}
	if len(b) > 0 && b[0] == '[' {
		return nil
	}
	var x map[string]string
	if err := json.Unmarshal(b, &x); err != nil {
		return err
	}
	*m = x
	return nil
}

func parseProj(js string) (*c16Proj, error) {
	var raw struct {
		Fs      strMap          `json:"fs"`
		Written []string        `json:"written"`
		Dirs    []string        `json:"dirs"`
		Outside strMap          `json:"outside"`
		Last    json.RawMessage `json:"last"`
		Clock   int             `json:"clock"`
	}
	if err := json.Unmarshal([]byte(js), &raw); err != nil {
		return nil, err
	}
	p := &c16Proj{Fs: raw.Fs, Written: raw.Written, Dirs: raw.Dirs, Outside: raw.Outside, Clock: raw.Clock}
	if err := json.Unmarshal(raw.Last, &p.Last); err != nil {
		return nil, err
	}
	sort.Strings(p.Written)
	sort.Strings(p.Dirs)
	return p, nil
}

var c16Past = time.Date(2001, 2, 3, 4, 5, 6, 0, time.UTC)

const (
	c16ForeignContent = "foreign file, not produced by any generation\n"
	c16EditedContent  = "// edited by hand\n"
	c16Sentinel       = "sentinel: must never be touched by a generator\n"
)

func ancestors(p string) []string {
	r := []string{}
	for d := path.Dir(p); d != "." && d != "/" && d != ""; d = path.Dir(d) {
		r = append(r, d)
	}
	sort.Strings(r)
	return r
}

type c16Env struct {
	c     *core.Ctx
	t     *tools
	lang  c16Lang
	root  string                                  // scratch root of this language
	inDir string                                  // schema files
	gen   map[string]map[string]map[string]string // s -> o -> path -> cid
	rt    map[string]map[string]string            // o -> outside path -> cid
}

// layout of a work directory W: W/gen is the output directory, W/rt/basictl the runtime-library
// location derived from the package paths, W/sentinel.txt and W/rt/basictl/keep.txt foreign files outside.
func (e *c16Env) newWork(w string) error {
	if err := writeFileMk(filepath.Join(w, "sentinel.txt"), []byte(c16Sentinel)); err != nil {
		return err
	}
	return writeFileMk(filepath.Join(w, "rt", "basictl", "keep.txt"), []byte(c16Sentinel))
}

func (e *c16Env) generate(w, s, o string) runResult {
	out := filepath.Join(w, "gen")
	var args []string
	tool := e.t.tl2gen
	if e.lang.Name == "cpp" {
		tool = e.t.tlgen
		args = []string{"--language=cpp", "--outdir=" + out, "--schemaTimestamp=" + c15Timestamp}
	} else {
		args = []string{"--language=go", "--outdir=" + out, "--pkgPath=example.com/u/r/gen/tl"}
	}
	args = append(args, e.lang.Opts[o]...)
	args = append(args, filepath.Join(e.inDir, s+".tl"))
	r := runCmd(w, nil, 60*time.Second, tool, args...)
	r.Out = stripANSI(r.Out)
	return r
}

// observe projects a work directory on the model's variables.
func (e *c16Env) observe(w string) (*c16Proj, error) {
	p := &c16Proj{Fs: map[string]string{}, Outside: map[string]string{}}
	files, dirs, err := scanTree(filepath.Join(w, "gen"))
	if err != nil {
		return nil, err
	}
	for k, f := range files {
		p.Fs[k] = f.Hash
		if !f.MTime.Equal(c16Past) {
			p.Written = append(p.Written, k)
		}
	}
	p.Dirs = dirs
	all, _, err := scanTree(w)
	if err != nil {
		return nil, err
	}
	for k, f := range all {
		if strings.HasPrefix(k, "gen/") {
			continue
		}
		if k == "sentinel.txt" || k == "rt/basictl/keep.txt" {
			if f.Hash != shortHash([]byte(c16Sentinel)) || !f.MTime.Equal(c16Past) {
				p.Outside["MODIFIED:../"+k] = f.Hash
			}
			continue
		}
		p.Outside["../"+k] = f.Hash
	}
	sort.Strings(p.Written)
	sort.Strings(p.Dirs)
	if p.Written == nil {
		p.Written = []string{}
	}
	if p.Dirs == nil {
		p.Dirs = []string{}
	}
	return p, nil
}

func setPast(w string) error {
	return filepath.Walk(w, func(p string, info os.FileInfo, err error) error {
		if err != nil {
			return err
		}
		if info.IsDir() {
			return nil
		}
		return os.Chtimes(p, c16Past, c16Past)
	})
}

// apply performs the action recorded in the target state on the work directory.
func (e *c16Env) apply(w string, exp *c16Proj) (ok bool, out string, err error) {
	gen := filepath.Join(w, "gen")
	switch exp.Last.Act {
	case "Generate":
		r := e.generate(w, exp.Last.S, exp.Last.O)
		if r.Err != nil {
			return false, r.Out, r.Err
		}
		return r.Exit == 0, fmt.Sprintf("exit=%d %s", r.Exit, r.Out), nil
	case "AddForeign":
		return true, "", writeFileMk(filepath.Join(gen, exp.Last.Arg), []byte(c16ForeignContent))
	case "RemoveMarker":
		return true, "", os.Remove(filepath.Join(gen, exp.Last.Arg))
	case "Touch":
		return true, "", os.WriteFile(filepath.Join(gen, exp.Last.Arg), []byte(c16EditedContent), 0o644)
	case "AddEmptyDir":
		return true, "", os.MkdirAll(filepath.Join(gen, exp.Last.Arg), 0o755)
	}
	return false, "", fmt.Errorf("unknown action %q", exp.Last.Act)
}

func setDiff(a, b []string) (onlyA, onlyB []string) {
	ma, mb := map[string]bool{}, map[string]bool{}
	for _, x := range a {
		ma[x] = true
	}
	for _, x := range b {
		mb[x] = true
		if !ma[x] {
			onlyB = append(onlyB, x)
		}
	}
	for _, x := range a {
		if !mb[x] {
			onlyA = append(onlyA, x)
		}
	}
	return
}

func keys(m map[string]string) []string {
	var r []string
	for k := range m {
		r = append(r, k)
	}
	sort.Strings(r)
	return r
}

// compareProj returns "" when the observation equals the model state, else (class, detail).
func compareProj(exp, got *c16Proj, gotOK bool, toolOut string) (class, detail string) {
	if exp.Last.Act == "Generate" {
		if exp.Last.Ok != gotOK {
			if exp.Last.Ok {
				return "verdict-refused", "the model accepts this generation but the generator failed: " + tail(toolOut, 400)
			}
			return "verdict-accepted", "the generation must be refused (files present, marker absent) but the generator succeeded"
		}
		if !gotOK {
			if hasStackTrace(toolOut) || !strings.Contains(toolOut, "exit=1 ") {
				return "refusal-form", "refusal without a clean error exit: " + tail(toolOut, 300)
			}
		}
	}
	if a, b := setDiff(keys(exp.Fs), keys(got.Fs)); len(a)+len(b) > 0 {
		if len(b) > 0 {
			return "stale-or-extra-files", fmt.Sprintf("files present but not in the model state: %v; missing: %v", b, a)
		}
		return "missing-files", fmt.Sprintf("files of the model state missing on disk: %v", a)
	}
	for k, v := range exp.Fs {
		if got.Fs[k] != v {
			return "content", fmt.Sprintf("content of %s differs from the model state (%s vs %s)", k, got.Fs[k], v)
		}
	}
	if a, b := setDiff(exp.Written, got.Written); len(a)+len(b) > 0 {
		if len(b) > 0 {
			return "unchanged-rewritten", fmt.Sprintf("files whose content did not change were rewritten (mtime changed): %v", b)
		}
		return "changed-not-rewritten", fmt.Sprintf("files expected to be written kept their old mtime: %v", a)
	}
	if a, b := setDiff(exp.Dirs, got.Dirs); len(a)+len(b) > 0 {
		return "dirs", fmt.Sprintf("directories differ: only in model %v, only on disk %v", a, b)
	}
	if a, b := setDiff(keys(exp.Outside), keys(got.Outside)); len(a)+len(b) > 0 {
		return "outside", fmt.Sprintf("files outside the output directory differ: only in model %v, only on disk %v", a, b)
	}
	for k, v := range exp.Outside {
		if got.Outside[k] != v {
			return "outside-content", fmt.Sprintf("content of %s differs (%s vs %s)", k, got.Outside[k], v)
		}
	}
	return "", ""
}

func runC16(c *core.Ctx) error {
	t, err := buildTools(c, c.Thorough())
	if err != nil {
		return err
	}
	goLang := c16Lang{Name: "go", Marker: "meta/meta.go",
		Opts: map[string][]string{
			"plain": {},
			"rt":    {"--basicPkgPath=example.com/u/r/rt/basictl"},
		},
		OptOrder: []string{"plain", "rt"},
		Foreign:  []string{"notes.txt", "sub/deep/x.txt"},
		Empty:    []string{"emptyd/inner"},
		MaxSteps: 3,
	}
	langs := []c16Lang{goLang}
	c16Stats = map[string]any{}
	if c.Thorough() {
		g4 := goLang
		g4.MaxSteps = 4
		g4.Foreign = []string{"notes.txt", "sub/deep/x.txt", "meta/Meta.go"}
		wide := goLang
		wide.Name = "go-wide"
		wide.Opts = map[string][]string{"plain": {}, "rt": {"--basicPkgPath=example.com/u/r/rt/basictl"},
			"split": {"--split-internal"}, "own": {"--basicPkgPath="}}
		wide.OptOrder = []string{"plain", "rt", "split", "own"}
		wide.Foreign = []string{"notes.txt", "sub/deep/x.txt", "internal/zz_foreign.go", "meta/Meta.go"}
		cpp := c16Lang{Name: "cpp", Marker: "tlgen2_version.txt", Opts: map[string][]string{"cpp": {}}, OptOrder: []string{"cpp"},
			Foreign: []string{"notes.txt", "sub/deep/x.txt", "a/details.o"}, Keep: []string{"a/details.o"},
			Empty: []string{"emptyd/inner"}, MaxSteps: 3}
		langs = []c16Lang{g4, wide, cpp}
	}
	for _, l := range langs {
		if err := c16Lang1(c, t, l); err != nil {
			return fmt.Errorf("%s: %w", l.Name, err)
		}
		if c.NViolations() > 20 {
			break
		}
	}
	c.Set("rule", "TLC dumps the complete OutDir state graph for histories up to the bound; every edge is replayed on real directories with the real generator: the source state is a directory reached by a verified history, all files get a fixed past mtime, the edge's action is applied, and the projection (file set, content hashes, files with changed mtime, directories, everything outside the output directory) must equal the model's target state; a refused generation must exit non-zero and leave the tree identical")
	c.Assume("Files(s, opts) and content ids are measured by one generation per (schema, option row) into an empty directory; the model predicts all histories from them")
	c.Assume("mtimes of the runtime-library files outside the output directory are not compared: both generators always rewrite them (they are not part of the unchanged-file bookkeeping); their set and content are compared, and every other file outside must keep bytes and mtime")
	c.Assume("tlgen --language=cpp preserves *.o files of earlier builds by design (cppFilterFile); modelled as KeepPaths")
	c.Assume("the runtime-library directory exists before generation (the generators do not create directories outside the output directory)")
	return nil
}

func c16Lang1(c *core.Ctx, t *tools, lang c16Lang) error {
	e := &c16Env{c: c, t: t, lang: lang, root: filepath.Join(c.Scratch, "c16-"+lang.Name)}
	e.inDir = filepath.Join(e.root, "in")
	var schemas []string
	for s, text := range c16Schemas {
		schemas = append(schemas, s)
		if err := writeFileMk(filepath.Join(e.inDir, s+".tl"), []byte(text)); err != nil {
			return err
		}
	}
	sort.Strings(schemas)

	// reference generations: Files(s, o), content ids, runtime-library paths
	e.gen = map[string]map[string]map[string]string{}
	e.rt = map[string]map[string]string{}
	universe := map[string]bool{}
	for _, s := range schemas {
		e.gen[s] = map[string]map[string]string{}
		for _, o := range lang.OptOrder {
			w := filepath.Join(e.root, "ref", s+"-"+o)
			if err := e.newWork(w); err != nil {
				return err
			}
			if err := setPast(w); err != nil {
				return err
			}
			r := e.generate(w, s, o)
			if r.Err != nil || r.Exit != 0 {
				return fmt.Errorf("reference generation %s/%s failed: exit %d %v\n%s", s, o, r.Exit, r.Err, tail(r.Out, 1200))
			}
			obs, err := e.observe(w)
			if err != nil {
				return err
			}
			if _, ok := obs.Fs[lang.Marker]; !ok {
				return fmt.Errorf("reference generation %s/%s has no marker file %s", s, o, lang.Marker)
			}
			e.gen[s][o] = obs.Fs
			for p := range obs.Fs {
				universe[p] = true
			}
			for p := range obs.Outside {
				if strings.HasPrefix(p, "MODIFIED:") {
					return fmt.Errorf("reference generation %s/%s modified %s outside the output directory", s, o, p)
				}
			}
			if prev, ok := e.rt[o]; ok {
				if mustJSON(prev) != mustJSON(obs.Outside) {
					return fmt.Errorf("runtime-library files differ between schemas for option row %s", o)
				}
			}
			e.rt[o] = obs.Outside
		}
	}
	// structural sanity of the measured file sets (they must reflect the schemas)
	for _, o := range lang.OptOrder {
		has := func(s, sub string) bool {
			for p := range e.gen[s][o] {
				if strings.Contains(p, sub) {
					return true
				}
			}
			return false
		}
		if !has("s1", "a.fooBar") || has("s2", "a.fooBar") || !has("s2", "a.foobar") || has("s3", "a.foo") || !has("s3", "c.baz") || !has("s1", "b.bar") {
			return fmt.Errorf("measured file sets for option row %s do not reflect the schemas", o)
		}
	}
	// a generated file present in every generation with the same content: the user edits it (Touch)
	var touch string
	var cand []string
	for p := range e.gen[schemas[0]][lang.OptOrder[0]] {
		cand = append(cand, p)
	}
	sort.Strings(cand)
	for _, p := range cand {
		okAll := p != lang.Marker
		for _, s := range schemas {
			for _, o := range lang.OptOrder {
				if _, ok := e.gen[s][o][p]; !ok {
					okAll = false
				}
			}
		}
		if okAll {
			touch = p
			break
		}
	}
	if touch == "" {
		return fmt.Errorf("no generated file common to all generations")
	}

	anc := map[string][]string{}
	for p := range universe {
		anc[p] = ancestors(p)
	}
	for _, p := range append(append([]string{}, lang.Foreign...), lang.Empty...) {
		anc[p] = ancestors(p)
	}
	rtlib := map[string][]map[string]string{}
	for _, o := range lang.OptOrder {
		rtlib[o] = []map[string]string{}
		for _, p := range keys(e.rt[o]) {
			rtlib[o] = append(rtlib[o], map[string]string{"p": p, "c": e.rt[o][p]})
		}
	}
	keep := lang.Keep
	if keep == nil {
		keep = []string{}
	}
	data := map[string]any{
		"schemas": schemas, "opts": lang.OptOrder, "marker": lang.Marker,
		"foreign": lang.Foreign, "foreignCid": shortHash([]byte(c16ForeignContent)),
		"touch": []string{touch}, "editedCid": shortHash([]byte(c16EditedContent)),
		"emptyDirs": lang.Empty, "keep": keep, "anc": anc, "gen": e.gen, "rtlib": rtlib,
	}
	dataJSON, _ := json.Marshal(data)

	res, err := c.MustTLC(core.TLCOpts{Module: "MC_OutDir", Cfg: "MC_OutDir.cfg", Workers: 4, DumpDot: true, Coverage: false,
		Timeout: 10 * time.Minute, HeapMB: 6000,
		Consts: map[string]string{"MAXSTEPS": fmt.Sprint(lang.MaxSteps)}, Files: map[string][]byte{"outdir_data.json": dataJSON}})
	if err != nil {
		return err
	}
	g, err := core.ParseDot(res.Dot)
	if err != nil {
		return err
	}
	c.Add("states", res.Distinct)
	c.Add("transitions", len(g.Edges))
	c.Logf("%s: TLC MC_OutDir MaxSteps=%d: %d states, %d edges (%v)", lang.Name, lang.MaxSteps, res.Distinct, len(g.Edges), res.Wall)
	if len(g.Labels) != res.Distinct {
		return fmt.Errorf("dot graph has %d nodes, TLC reported %d distinct states", len(g.Labels), res.Distinct)
	}
	projs := make([]*c16Proj, len(g.Labels))
	for i, l := range g.Labels {
		js, ok := core.VarString(l, "js")
		if !ok {
			return fmt.Errorf("node %d has no js variable", i)
		}
		if projs[i], err = parseProj(js); err != nil {
			return fmt.Errorf("node %d: %v", i, err)
		}
	}
	paths, reach := g.ShortestPaths()
	out := make([][]int, len(g.Labels)) // outgoing edge indices
	for i, ed := range g.Edges {
		out[ed.From] = append(out[ed.From], i)
	}
	history := func(node int) []string {
		var h []string
		for _, ei := range paths[node] {
			l := projs[g.Edges[ei].To].Last
			h = append(h, strings.TrimSpace(fmt.Sprintf("%s %s %s %s ok=%v", l.Act, l.S, l.O, l.Arg, l.Ok)))
		}
		return h
	}

	// edge replay, level by level (every edge goes from clock k to clock k+1)
	snap := map[int]string{}
	if len(g.Init) != 1 {
		return fmt.Errorf("expected one initial state, got %d", len(g.Init))
	}
	root := filepath.Join(e.root, "snap", "n0")
	if err := e.newWork(root); err != nil {
		return err
	}
	snap[g.Init[0]] = root
	var mu sync.Mutex
	var hErr error
	stats := map[string]int{}
	level := []int{g.Init[0]}
	edgeSeq := 0
	sampled := 0
	for depth := 0; len(level) > 0; depth++ {
		var edges []int
		for _, n := range level {
			if !reach[n] {
				continue
			}
			edges = append(edges, out[n]...)
		}
		nextSet := map[int]bool{}
		base := edgeSeq
		edgeSeq += len(edges)
		srcs := make([]string, len(edges))
		for k, ei := range edges {
			srcs[k] = snap[g.Edges[ei].From]
		}
		parallel(len(edges), 8, func(k int) {
			ed := g.Edges[edges[k]]
			exp := projs[ed.To]
			src := srcs[k]
			replayOnce := func(tag string) (w, class, detail string, err error) {
				w = filepath.Join(e.root, "work", fmt.Sprintf("%s%d", tag, base+k))
				if err = copyTree(src, w); err != nil {
					return
				}
				if err = setPast(w); err != nil {
					return
				}
				ok, toolOut, aerr := e.apply(w, exp)
				if aerr != nil {
					err = aerr
					return
				}
				got, oerr := e.observe(w)
				if oerr != nil {
					err = oerr
					return
				}
				class, detail = compareProj(exp, got, ok, toolOut)
				return
			}
			w, class, detail, err := replayOnce("e")
			if err != nil {
				mu.Lock()
				hErr = err
				mu.Unlock()
				return
			}
			if class != "" {
				// reproduce once more from the same verified source state
				w2, class2, detail2, err2 := replayOnce("r")
				_ = os.RemoveAll(w2)
				if err2 == nil && class2 != "" {
					l := exp.Last
					c.Violate(fmt.Sprintf("%s/%s/%s", lang.Name, l.Act, class2),
						fmt.Sprintf("after history %v the step [%s %s %s %s] leaves a directory that differs from the OutDir model: %s", history(ed.From), l.Act, l.S, l.O, l.Arg, detail2),
						map[string]any{"generator": lang.Name, "history": history(ed.From), "step": l, "expected": exp, "difference": detail, "schemas": c16Schemas, "flags": lang.Opts})
				} else if err2 == nil {
					mu.Lock()
					hErr = fmt.Errorf("edge mismatch did not reproduce (%s: %s)", class, detail)
					mu.Unlock()
				}
			}
			mu.Lock()
			defer mu.Unlock()
			src0 := projs[ed.From]
			stats["edges_"+exp.Last.Act]++
			if exp.Last.Act == "Generate" {
				if exp.Last.Ok {
					stats["generate_accepted"]++
					stale, kept := 0, 0
					for p := range src0.Fs {
						if _, ok := exp.Fs[p]; !ok {
							stale++
						}
					}
					wr := map[string]bool{}
					for _, p := range exp.Written {
						wr[p] = true
					}
					for p := range exp.Fs {
						if !wr[p] {
							kept++
						}
					}
					if stale > 0 {
						stats["generate_deleting_stale_files"]++
					}
					if kept > 0 {
						stats["generate_skipping_unchanged_files"]++
					}
					if kept > 0 && len(exp.Written) > 0 {
						stats["generate_partially_rewriting"]++
					}
					if len(exp.Outside) > 0 {
						stats["generate_with_runtime_lib_outside"]++
					}
				} else {
					stats["generate_refused"]++
				}
			}
			if class == "" && sampled < 4 && depth >= 1 && exp.Last.Act == "Generate" && (sampled%2 == 0) == exp.Last.Ok && len(src0.Fs) > 0 {
				sampled++
				c.Sample(map[string]any{"generator": lang.Name, "history": history(ed.From), "step": exp.Last, "files_after": len(exp.Fs), "written": len(exp.Written), "outside": keys(exp.Outside)})
			}
			if _, have := snap[ed.To]; !have && len(out[ed.To]) > 0 && class == "" {
				snap[ed.To] = w
			} else {
				_ = os.RemoveAll(w)
			}
			nextSet[ed.To] = true
		})
		if hErr != nil {
			return hErr
		}
		c.Add("traces_validated_against_impl", len(edges))
		for _, n := range level {
			if n != g.Init[0] {
				_ = os.RemoveAll(snap[n])
			}
		}
		level = level[:0]
		for n := range nextSet {
			if _, ok := snap[n]; ok {
				level = append(level, n)
			}
		}
		sort.Ints(level)
	}
	c.Add("evaluations", edgeSeq)
	c16Stats[lang.Name] = stats
	c.Set("edge_replay", c16Stats)
	c.Set("impl_accepted", c.Get("impl_accepted")+stats["generate_accepted"])
	c.Set("impl_rejected", c.Get("impl_rejected")+stats["generate_refused"])
	c.Logf("%s: %d edges replayed: %v", lang.Name, edgeSeq, stats)
	if edgeSeq != len(g.Edges) && c.NViolations() == 0 {
		return fmt.Errorf("replayed %d of %d edges", edgeSeq, len(g.Edges))
	}
	// vacuity guards
	for _, k := range []string{"generate_accepted", "generate_refused", "generate_deleting_stale_files", "generate_skipping_unchanged_files",
		"generate_partially_rewriting", "edges_AddForeign", "edges_RemoveMarker", "edges_Touch", "edges_AddEmptyDir"} {
		if stats[k] == 0 && c.NViolations() == 0 {
			return fmt.Errorf("vacuous: %s never exercised", k)
		}
	}
	if lang.Name != "cpp" && stats["generate_with_runtime_lib_outside"] == 0 && c.NViolations() == 0 {
		return fmt.Errorf("vacuous: no generation wrote the runtime library outside the output directory")
	}

	// binding self-test: a corrupted expectation must be reported by the comparator
	for i, ed := range g.Edges {
		exp := projs[ed.To]
		if exp.Last.Act == "Generate" && exp.Last.Ok && len(exp.Written) > 0 && len(paths[ed.From]) == 0 {
			w := filepath.Join(e.root, "work", fmt.Sprintf("selftest%d", i))
			if err := copyTree(root, w); err != nil {
				return err
			}
			_ = setPast(w)
			ok, toolOut, err := e.apply(w, exp)
			if err != nil {
				return err
			}
			got, err := e.observe(w)
			if err != nil {
				return err
			}
			bad := *exp
			bad.Written = append([]string(nil), exp.Written[1:]...)
			if cl, _ := compareProj(&bad, got, ok, toolOut); cl == "" {
				return fmt.Errorf("binding self-test failed: corrupted expectation (one written file dropped) not detected")
			}
			bad2 := *exp
			bad2.Fs = map[string]string{}
			for k, v := range exp.Fs {
				bad2.Fs[k] = v
			}
			bad2.Fs["stale/ghost.go"] = "0"
			if cl, _ := compareProj(&bad2, got, ok, toolOut); cl == "" {
				return fmt.Errorf("binding self-test failed: corrupted expectation (extra file) not detected")
			}
			if cl, d := compareProj(exp, got, ok, toolOut); cl != "" {
				return fmt.Errorf("binding self-test: the uncorrupted expectation does not match: %s %s", cl, d)
			}
			c.Set("selftest_corrupted_expectation_detected", true)
			_ = os.RemoveAll(w)
			break
		}
	}
	return nil
}
