package containers

import (
	"encoding/json"
	"fmt"
	"os"
	"path/filepath"
	"sort"
	"strconv"
	"strings"
	"time"

	"verif/core"
)

func init() {
	core.Register("C41", "model_checking", runC41)
}

func containersDriver(c *core.Ctx) (string, error) {
	return buildDriver(c, "internal/verifx/containers", map[string]string{
		"internal/vkgo/pkg/algo/verif_export.go": core.DriverSrc("containers/algo_export.go"),
		"internal/verifx/containers/main.go":     core.DriverSrc("containers/main.go"),
	}, "containersdrv")
}

type treeCfg struct {
	K, V  int
	VKeys []int // keys that take all V values; the others only value 1
}

var rotationClasses = []string{"ins:rotL", "ins:rotR", "ins:bigL", "ins:bigR",
	"rem:rotL", "rem:rotR", "rem:bigL", "rem:bigR", "ext:rotL", "ext:bigL"}

func runC41(c *core.Ctx) error {
	drv, err := containersDriver(c)
	if err != nil {
		return err
	}

	// ---- which stored height does insert() give a fresh leaf?  (the model transcribes it) ----
	probe, err := confirm(drv, map[string]any{"obj": "tree", "nk": 1, "path": []op{{Op: "Set", A: []int{1, 1}}}})
	if err != nil {
		return err
	}
	shape, _ := probe["shape"].([]any)
	if len(shape) != 5 {
		c.Violate("treemap/Set(1,1)/shape", "a single Set does not produce a single node: "+compact(probe["shape"]), probe)
		return nil
	}
	leafH := num(shape[2])
	if leafH != 0 && leafH != 1 {
		c.Violate(fmt.Sprintf("treemap-leaf-height/%d", leafH),
			fmt.Sprintf("insert() stores height %d in a fresh leaf; the AVL algorithm of Containers.tla is defined for 0 (tree_map.go as written) or 1 (textbook)", leafH), probe)
		return nil
	}
	c.Set("fresh_leaf_stored_height", leafH)
	c.Logf("fresh leaf stored height = %d", leafH)

	// ---- design level: with the textbook convention the transcribed algorithm is strictly AVL ----
	// (model only; when the code itself uses 1 the replayed configurations below check it anyway)
	if c.Thorough() && leafH != 1 {
		kd := 9
		rd, err := c.MustTLC(core.TLCOpts{Module: "MC_ContainersTree", Cfg: "MC_ContainersTree.cfg", Workers: 4, Timeout: 10 * time.Minute,
			OnEmit: func(json.RawMessage) {},
			Consts: map[string]string{"KEYS": setLit(1, kd), "VALS": "{1}", "VKEYS": "{}", "LEAFH": "1", "STRICT": "TreeStrictAVL"}})
		if err != nil {
			return fmt.Errorf("design-level model (LeafH = 1, strict AVL): %v", err)
		}
		c.Add("states", rd.Distinct)
		c.Add("transitions", rd.Generated)
		c.Set("design_strict_avl_states_leafh1", rd.Distinct)
		c.Logf("design model LeafH=1 keys 1..%d: strict AVL invariant holds on %d states (%v)", kd, rd.Distinct, rd.Wall)
	}

	// ---- TreeMap: edge replay ----
	cfgs := []treeCfg{{7, 2, []int{4}}}
	if c.Thorough() {
		cfgs = []treeCfg{{6, 2, rangeInts(1, 6)}, {9, 1, nil}}
	}
	rot := map[string]int{}
	var unbalanced []unbalancedState
	for _, tc := range cfgs {
		ub, err := replayTree(c, drv, tc, leafH, rot)
		if err != nil {
			return err
		}
		unbalanced = append(unbalanced, ub...)
	}
	c.Set("rotation_cases_on_replayed_edges", rot)
	for _, cl := range rotationClasses {
		if rot[cl] == 0 {
			return fmt.Errorf("vacuous: repairBalance case %s was never exercised by a replayed edge", cl)
		}
	}
	if err := reportUnbalanced(c, drv, unbalanced, leafH); err != nil {
		return err
	}

	// ---- CircularSlice: edge replay ----
	sliceStats := map[string]int{}
	if c.Thorough() {
		err = replaySlice(c, drv, 32, []int{0, 2, 3, 5, 8, 11, 16, 24, 32}, 3, 5, sliceStats)
	} else {
		err = replaySlice(c, drv, 16, []int{0, 2, 3, 5, 8, 11, 16}, 3, 3, sliceStats)
	}
	if err != nil {
		return err
	}
	c.Set("slice_edge_classes", sliceStats)
	for _, k := range []string{"Push", "Pop", "Reserve", "Clear", "DeepAssign", "Swap", "push_grows", "push_wraps", "pop_wraps", "target_wrapped", "reserve_unwraps", "pop_panics_observed", "front_panics_observed", "index_panics_observed"} {
		if sliceStats[k] == 0 {
			return fmt.Errorf("vacuous: circular slice case class %q was never exercised", k)
		}
	}

	// ---- code -> spec: random long histories validated by TLC ----
	if err := traceC41(c, drv, leafH); err != nil {
		return err
	}

	c.Set("rule", "every transition of TLC's state graph of MC_ContainersTree / MC_ContainersSlice is replayed on fresh real objects (shortest path to the source, then the edge's call) and the complete projection (tree: pre-order key/value/stored height/shape + every read-only call; slice: elements array, read_pos, write_pos, every read-only call, aliasing) is compared with the target node; random histories recorded from the real objects are validated by TraceContainers")
	c.Set("balance_predicate", "TrueBalanced: at every node |true height(left) - true height(right)| <= 1, true height = nodes on the longest downward path, computed from the shape (not from stored heights)")
	c.Assume("keys and values are ints with the natural order; the comparator is a strict weak order")
	c.Assume("CircularSlice.Index beyond Len() is outside the FIFO contract; the concrete model transcribes what the code does there (zero value while inside the array, panic beyond)")
	return nil
}

// ---------------------------------------------------------------------------

type unbalancedState struct {
	Path  []op
	Shape string
	Imb   int
	Req   any
}

type treeObs struct {
	raw map[string]any
	ins [][]string
	rem [][2][]string
}

func replayTree(c *core.Ctx, drv string, tc treeCfg, leafH int, rot map[string]int) ([]unbalancedState, error) {
	obs := map[string]*treeObs{}
	var emitErr error
	strict := ""
	if leafH == 1 {
		strict = "TreeStrictAVL"
	}
	res, err := c.MustTLC(core.TLCOpts{Module: "MC_ContainersTree", Cfg: "MC_ContainersTree.cfg", Workers: 4, DumpDot: true,
		Coverage: c.Thorough(), Timeout: 12 * time.Minute, HeapMB: 6144,
		Consts: map[string]string{"KEYS": setLit(1, tc.K), "VALS": setLit(1, tc.V), "VKEYS": setOf(tc.VKeys), "LEAFH": strconv.Itoa(leafH), "STRICT": strict},
		OnEmit: func(p json.RawMessage) {
			var m map[string]any
			if err := json.Unmarshal(p, &m); err != nil {
				emitErr = err
				return
			}
			o := &treeObs{raw: m}
			b, _ := json.Marshal(m["ins"])
			_ = json.Unmarshal(b, &o.ins)
			b, _ = json.Marshal(m["rem"])
			_ = json.Unmarshal(b, &o.rem)
			obs[compact(m["shape"])] = o
		}})
	if err != nil {
		return nil, err
	}
	if emitErr != nil {
		return nil, emitErr
	}
	g, err := core.ParseDot(res.Dot)
	if err != nil {
		return nil, err
	}
	_ = os.Remove(res.Dot)
	if len(g.Labels) != res.Distinct || len(obs) != res.Distinct {
		return nil, fmt.Errorf("MC_ContainersTree K=%d V=%d: %d dot nodes, %d emits, %d distinct states", tc.K, tc.V, len(g.Labels), len(obs), res.Distinct)
	}
	nodeObs := make([]*treeObs, len(g.Labels))
	nodeShape := make([]string, len(g.Labels))
	for i, l := range g.Labels {
		tv, ok := labelVar(l, "t")
		if !ok {
			return nil, fmt.Errorf("node label without t: %q", l)
		}
		js, err := tupleJSON(tv)
		if err != nil {
			return nil, err
		}
		nodeShape[i] = js
		if nodeObs[i] = obs[js]; nodeObs[i] == nil {
			return nil, fmt.Errorf("no Emit record for state %s", js)
		}
	}
	c.Add("states", res.Distinct)
	c.Add("transitions", len(g.Edges))
	c.Logf("TLC MC_ContainersTree keys 1..%d vals 1..%d (all values for keys %v) leafH=%d: %d states, %d transitions, depth %d (%v)", tc.K, tc.V, tc.VKeys, leafH, res.Distinct, len(g.Edges), res.Depth, res.Wall)
	if c.Thorough() {
		c.Set(fmt.Sprintf("tlc_action_coverage_tree_k%d_v%d", tc.K, tc.V), res.ActionCover)
		for _, a := range []string{"Set", "Delete", "Update"} {
			if res.ActionCover[a] == 0 && res.ActionCover["T"+a] == 0 {
				c.Logf("note: -coverage reported no count for action %s: %v", a, res.ActionCover)
			}
		}
	}

	fields := []string{"get", "front", "back", "empty", "lm1", "size", "th", "imb"}
	checkNode := func(node int, got map[string]any) string {
		if p, _ := got["panic"].(string); p != "" {
			return "the real call panicked: " + p
		}
		if s := compact(got["shape"]); s != nodeShape[node] {
			return fmt.Sprintf("shape (pre-order [key,value,storedHeight,left,right]): model %s, real %s", nodeShape[node], s)
		}
		if d := diffFields(nodeObs[node].raw, got, fields...); d != "" {
			return d
		}
		if v, _ := got["validate"].(string); v != "" {
			return "validate() panicked: " + v
		}
		if num(got["live"]) != num(got["size"]) {
			return fmt.Sprintf("allocator: %d nodes live, tree has %d", num(got["live"]), num(got["size"]))
		}
		if num(got["dirty"]) != 0 {
			return "allocator handed out a node that deallocate() had not cleared"
		}
		if got["getptr_agrees"] != true {
			return "GetPtr disagrees with Get"
		}
		return ""
	}
	byOp := map[string]int{}
	r := &replayer{c: c, drv: drv, g: g, workers: 4,
		mkReq: func(src int, path, edges []op) any {
			return map[string]any{"obj": "tree", "nk": tc.K, "path": path, "edges": edges}
		},
		checkInit: checkNode,
	}
	r.check = func(e int, got map[string]any) string { return checkNode(g.Edges[e].To, got) }
	t0 := time.Now()
	if err := r.run(); err != nil {
		return nil, err
	}
	selfLoops, panicsObserved := 0, 0
	for i, e := range g.Edges {
		o := r.ops[i]
		byOp[o.Op]++
		if e.From == e.To {
			selfLoops++
		}
		src := nodeObs[e.From]
		switch o.Op {
		case "Set":
			for _, cs := range src.ins[o.A[0]-1] {
				rot["ins:"+cs]++
			}
		case "Delete":
			for _, cs := range src.rem[o.A[0]-1][0] {
				rot["rem:"+cs]++
			}
			for _, cs := range src.rem[o.A[0]-1][1] {
				rot["ext:"+cs]++
			}
		}
	}
	for _, o := range nodeObs {
		if f, _ := o.raw["front"].([]any); len(f) == 0 {
			panicsObserved++
		}
	}
	c.Add("evaluations", r.replayed)
	c.Add("tree_edges_replayed", r.replayed)
	c.Add("tree_real_calls", r.opsRun)
	c.Add("tree_self_loop_edges", selfLoops)
	c.Add("tree_states_where_front_back_panic", panicsObserved)
	for k, v := range byOp {
		c.Add("tree_edges_"+k, v)
	}
	c.Logf("replayed %d tree edges (%d real calls) in %v, %d mismatches", r.replayed, r.opsRun, time.Since(t0).Round(time.Millisecond), len(r.mismatches))
	if r.replayed != len(g.Edges) {
		return nil, fmt.Errorf("replayed %d of %d edges", r.replayed, len(g.Edges))
	}
	for _, a := range []string{"Set", "Delete", "Update"} {
		if byOp[a] == 0 {
			return nil, fmt.Errorf("vacuous: no %s edge in the state graph", a)
		}
	}
	if panicsObserved == 0 {
		return nil, fmt.Errorf("vacuous: the empty map (Front/Back panic) was never observed")
	}
	// samples
	if len(g.Edges) > 0 {
		for _, i := range []int{len(g.Edges) / 3, 2 * len(g.Edges) / 3} {
			e := g.Edges[i]
			c.Sample(map[string]any{"object": "TreeMap", "path": opsString(r.pathOps(e.From)), "call": r.ops[i].String(),
				"model_target_shape": json.RawMessage(nodeShape[e.To]), "real": "equal (shape, stored heights, all observers)"})
		}
	}
	if err := reportMismatches(c, drv, "treemap", r.mismatches, func(got map[string]any, m mismatch) string {
		if m.Edge < 0 {
			return checkNode(m.Src, got)
		}
		return checkNode(g.Edges[m.Edge].To, got)
	}); err != nil {
		return nil, err
	}
	// states whose SHAPE is not strictly AVL-balanced, reached by the real code as well
	var ub []unbalancedState
	if len(r.mismatches) == 0 {
		for i, o := range nodeObs {
			if imb := num(o.raw["imb"]); imb > 1 {
				p := r.pathOps(i)
				ub = append(ub, unbalancedState{Path: p, Shape: nodeShape[i], Imb: imb,
					Req: map[string]any{"obj": "tree", "nk": tc.K, "path": p}})
			}
		}
		c.Add("tree_states_not_strictly_balanced", len(ub))
	}
	return ub, nil
}

// reportMismatches confirms the shortest mismatches in a fresh driver process and reports them.
func reportMismatches(c *core.Ctx, drv, obj string, mm []mismatch, recheck func(got map[string]any, m mismatch) string) error {
	if len(mm) == 0 {
		return nil
	}
	c.Add(obj+"_edges_mismatching", len(mm))
	reported := 0
	for _, m := range mm {
		if reported >= 4 {
			break
		}
		got, err := confirm(drv, m.Req)
		if err != nil {
			return fmt.Errorf("re-running a mismatching edge: %v", err)
		}
		bad := recheck(got, m)
		if bad == "" {
			return fmt.Errorf("%s mismatch after %s %s did not reproduce in a fresh process (%s)", obj, opsString(m.Path), m.Op, m.What)
		}
		field := strings.SplitN(bad, ":", 2)[0]
		if i := strings.Index(field, " ("); i > 0 {
			field = field[:i]
		}
		key := fmt.Sprintf("%s/%s/%s/after %s", obj, m.Op.String(), field, opsString(m.Path))
		if m.Edge < 0 {
			key = fmt.Sprintf("%s/init/%s", obj, field)
		}
		c.Violate(key, fmt.Sprintf("real %s differs from Containers.tla after [%s] then %s: %s", obj, opsString(m.Path), m.Op, bad), m.Req)
		reported++
	}
	return nil
}

// reportUnbalanced reports the minimal histories after which the real tree is not strictly balanced.
func reportUnbalanced(c *core.Ctx, drv string, ub []unbalancedState, leafH int) error {
	if len(ub) == 0 {
		c.Set("strict_avl_balance", "held in every replayed state")
		return nil
	}
	sort.SliceStable(ub, func(i, j int) bool {
		if len(ub[i].Path) != len(ub[j].Path) {
			return len(ub[i].Path) < len(ub[j].Path)
		}
		return opsString(ub[i].Path) < opsString(ub[j].Path)
	})
	minLen := len(ub[0].Path)
	seen := map[string]bool{}
	for _, u := range ub {
		if len(u.Path) != minLen {
			break
		}
		// keys only (values do not influence the shape), reduced to their order pattern:
		// set-8-set-1-set-5 is the same history as insert-3-1-2 up to order isomorphism
		keys := make([]int, len(u.Path))
		for i, o := range u.Path {
			keys[i] = o.A[0]
		}
		parts := make([]string, len(u.Path))
		for i, o := range u.Path {
			rank := 1
			seenK := map[int]bool{}
			for _, k := range keys {
				if k < o.A[0] && !seenK[k] {
					rank++
					seenK[k] = true
				}
			}
			name := strings.ToLower(o.Op)
			if o.Op == "Set" {
				name = "insert"
			}
			if i > 0 && u.Path[i-1].Op == o.Op {
				parts[i] = strconv.Itoa(rank)
			} else {
				parts[i] = name + "-" + strconv.Itoa(rank)
			}
		}
		key := "treemap-true-balance/" + strings.Join(parts, "-")
		if seen[key] {
			continue
		}
		seen[key] = true
		got, err := confirm(drv, u.Req) // fresh process
		if err != nil {
			return err
		}
		if num(got["imb"]) <= 1 || compact(got["shape"]) != u.Shape {
			return fmt.Errorf("unbalanced state after %s did not reproduce in a fresh process", opsString(u.Path))
		}
		c.Violate(key, fmt.Sprintf("after %s the real tree has shape %s: sibling true heights differ by %d (true height %d for %d nodes); strict AVL balance |diff| <= 1 does not hold. insert() stores height %d in a fresh leaf, the same as getHeight(nil), so repairBalance sees balance %d-1 here. Height stays logarithmic (TreeImbalanceBound / TreeLogHeight hold).",
			opsString(u.Path), u.Shape, num(got["imb"]), num(got["th"]), num(got["size"]), leafH, num(got["imb"])), u.Req)
	}
	c.Set("strict_avl_balance", fmt.Sprintf("violated in %d replayed states; minimal histories have %d calls", len(ub), minLen))
	return nil
}

// ---------------------------------------------------------------------------

func replaySlice(c *core.Ctx, drv string, maxCap int, reserve []int, valMod int, pairCap int, stats map[string]int) error {
	res, err := c.MustTLC(core.TLCOpts{Module: "MC_ContainersSlice", Cfg: "MC_ContainersSlice.cfg", Workers: 4, DumpDot: true,
		Coverage: c.Thorough(), Timeout: 10 * time.Minute,
		Consts: map[string]string{"MAXCAP": strconv.Itoa(maxCap), "RESERVE": setOf(reserve), "VALMOD": strconv.Itoa(valMod),
			"PAIRCAP": strconv.Itoa(pairCap)}})
	if err != nil {
		return err
	}
	g, err := core.ParseDot(res.Dot)
	if err != nil {
		return err
	}
	_ = os.Remove(res.Dot)
	if len(g.Labels) != res.Distinct {
		return fmt.Errorf("MC_ContainersSlice: %d dot nodes, %d distinct states", len(g.Labels), res.Distinct)
	}
	type sl struct {
		Rp, Wp, Len, Cap, Front int
		Idx                     []int
	}
	type proj struct{ S []sl }
	want := make([]map[string]any, len(g.Labels))
	wantP := make([]proj, len(g.Labels))
	for i, l := range g.Labels {
		js, ok := core.VarString(cleanLabel(l), "js")
		if !ok {
			return fmt.Errorf("node label without js: %q", l)
		}
		if err := json.Unmarshal([]byte(js), &want[i]); err != nil {
			return fmt.Errorf("js of node %d: %v", i, err)
		}
		_ = json.Unmarshal([]byte(js), &wantP[i])
	}
	lastOf := func(node, i int) int { // last element of slice i's contents in the model state
		ws, _ := want[node]["s"].([]any)
		w, _ := ws[i].(map[string]any)
		s1, _ := w["s1"].([]any)
		s2, _ := w["s2"].([]any)
		all := append(append([]any{}, s1...), s2...)
		if len(all) == 0 {
			return 0
		}
		return num(all[len(all)-1])
	}
	c.Add("states", res.Distinct)
	c.Add("transitions", len(g.Edges))
	c.Logf("TLC MC_ContainersSlice maxCap=%d reserve=%v valMod=%d pairCap=%d: %d states, %d transitions, depth %d (%v)", maxCap, reserve, valMod, pairCap, res.Distinct, len(g.Edges), res.Depth, res.Wall)
	if c.Thorough() {
		c.Set(fmt.Sprintf("tlc_action_coverage_slice_cap%d_paircap%d", maxCap, pairCap), res.ActionCover)
	}
	checkNode := func(node int, got map[string]any) string {
		if p, _ := got["panic"].(string); p != "" {
			return "the real call panicked: " + p
		}
		ws, _ := want[node]["s"].([]any)
		gs, _ := got["s"].([]any)
		if len(gs) != 2 || len(ws) != 2 {
			return "projection does not have two slices"
		}
		for i := 0; i < 2; i++ {
			w, _ := ws[i].(map[string]any)
			gm, _ := gs[i].(map[string]any)
			if d := diffFields(w, gm, "el", "rp", "wp", "len", "cap", "front", "idx", "idxneg", "s1", "s2", "poppanic"); d != "" {
				return fmt.Sprintf("slice %d %s", i+1, d)
			}
			if gm["ref_agrees"] != true {
				return fmt.Sprintf("slice %d IndexRef disagrees with Index", i+1)
			}
		}
		if got["alias"] != false {
			return "alias: the two slices share one backing array"
		}
		return ""
	}
	r := &replayer{c: c, drv: drv, g: g, workers: 4,
		mkReq: func(src int, path, edges []op) any {
			return map[string]any{"obj": "slice", "path": path, "edges": edges}
		},
		checkInit: checkNode,
		fixOp: func(e int, o op) op { // Push(i): the pushed value is the last element of the target queue
			if o.Op == "Push" && len(o.A) == 1 {
				o.A = append(o.A, lastOf(g.Edges[e].To, o.A[0]-1))
			}
			return o
		},
	}
	r.check = func(e int, got map[string]any) string { return checkNode(g.Edges[e].To, got) }
	t0 := time.Now()
	if err := r.run(); err != nil {
		return err
	}
	for i, e := range g.Edges {
		o := r.ops[i]
		stats[o.Op]++
		a, b := wantP[e.From].S[0], wantP[e.To].S[0]
		switch o.Op {
		case "Push":
			if b.Cap > a.Cap {
				stats["push_grows"]++
			}
			if a.Wp >= a.Cap && a.Cap > 0 && b.Cap == a.Cap {
				stats["push_wraps"]++ // written at write_pos - capacity
			}
		case "Pop":
			if a.Rp == a.Cap-1 && a.Len > 1 {
				stats["pop_wraps"]++ // read_pos returns to 0, write_pos -= capacity
			}
		case "Reserve":
			if a.Wp > a.Cap && b.Cap > a.Cap {
				stats["reserve_unwraps"]++
			}
		}
		if b.Wp > b.Cap {
			stats["target_wrapped"]++
		}
	}
	for _, p := range wantP {
		for _, s := range p.S {
			if s.Len == 0 {
				stats["pop_panics_observed"]++
				stats["front_panics_observed"]++
			}
			for _, x := range s.Idx {
				if x == -1 {
					stats["index_panics_observed"]++
					break
				}
			}
		}
	}
	c.Add("evaluations", r.replayed)
	c.Add("slice_edges_replayed", r.replayed)
	c.Add("slice_real_calls", r.opsRun)
	c.Logf("replayed %d slice edges (%d real calls) in %v, %d mismatches", r.replayed, r.opsRun, time.Since(t0).Round(time.Millisecond), len(r.mismatches))
	if r.replayed != len(g.Edges) {
		return fmt.Errorf("replayed %d of %d edges", r.replayed, len(g.Edges))
	}
	if len(g.Edges) > 0 {
		i := len(g.Edges) / 2
		c.Sample(map[string]any{"object": "CircularSlice", "path": opsString(r.pathOps(g.Edges[i].From)), "call": r.ops[i].String(),
			"model_target": want[g.Edges[i].To]["s"], "real": "equal"})
	}
	return reportMismatches(c, drv, "circularslice", r.mismatches, func(got map[string]any, m mismatch) string {
		if m.Edge < 0 {
			return checkNode(m.Src, got)
		}
		return checkNode(g.Edges[m.Edge].To, got)
	})
}

// ---------------------------------------------------------------------------

func traceC41(c *core.Ctx, drv string, leafH int) error {
	p, err := core.StartProc(drv, nil)
	if err != nil {
		return err
	}
	defer p.Close()
	p.Limit = 5 * time.Minute
	maxKey := 1000
	nTree, nSlice := c.Pick(6000, 100000), c.Pick(3000, 30000)
	tf, sf := filepath.Join(c.Scratch, "tree.ndjson"), filepath.Join(c.Scratch, "slice.ndjson")
	var got map[string]any
	if err := p.Call(map[string]any{"obj": "treetrace", "nk": maxKey, "seed": c.Seed, "count": nTree, "out": tf}, &got); err != nil {
		return err
	}
	if f, ok := got["fatal"]; ok {
		return fmt.Errorf("driver: %v", f)
	}
	if err := p.Call(map[string]any{"obj": "slicetrace", "seed": c.Seed + 7919, "count": nSlice, "out": sf}, &got); err != nil {
		return err
	}
	if f, ok := got["fatal"]; ok {
		return fmt.Errorf("driver: %v", f)
	}
	tb, err := os.ReadFile(tf)
	if err != nil {
		return err
	}
	sb, err := os.ReadFile(sf)
	if err != nil {
		return err
	}
	all := append(append([]byte{}, sb...), tb...) // slice histories first: cheap states
	lines := splitLines(all)
	consts := map[string]string{"MAXKEY": strconv.Itoa(maxKey), "LEAFH": strconv.Itoa(leafH)}
	t0 := time.Now()
	v, err := validateTrace(c, "TraceContainers", "TraceContainers.cfg", consts, all, 13*time.Minute)
	if err != nil {
		return err
	}
	// evidence about what the histories contained
	byOp := map[string]int{}
	histories, maxN, maxTh, imb2, wrapped, popPanics := 0, 0, 0, 0, 0, 0
	for _, l := range lines {
		var e map[string]any
		if json.Unmarshal([]byte(l), &e) != nil {
			continue
		}
		o, _ := e["op"].(string)
		byOp[o]++
		switch o {
		case "treset", "sreset":
			histories++
		case "pop":
			if e["panic"] == true {
				popPanics++
			}
		}
		if n := num(e["n"]); n > maxN && (o == "set" || o == "del" || o == "upd") {
			maxN = n
		}
		if th := num(e["th"]); th > maxTh {
			maxTh = th
		}
		if num(e["imb"]) > 1 {
			imb2++
		}
		if _, ok := e["wp"]; ok && num(e["wp"]) > num(e["cap"]) {
			wrapped++
		}
	}
	c.Set("trace_events_by_op", byOp)
	c.Set("trace_max_tree_size", maxN)
	c.Set("trace_max_true_height", maxTh)
	c.Set("trace_events_with_true_imbalance_2", imb2)
	c.Set("trace_slice_events_wrapped", wrapped)
	c.Set("trace_pop_panics", popPanics)
	if !v.OK {
		idx := v.Reached // 0-based index of the first rejected event
		ev := "(past the end)"
		if idx < len(lines) {
			ev = lines[idx]
		}
		var e map[string]any
		_ = json.Unmarshal([]byte(ev), &e)
		// reproduce: regenerate the trace in a fresh process and look at the same line
		p2, err := core.StartProc(drv, nil)
		if err != nil {
			return err
		}
		defer p2.Close()
		p2.Limit = 5 * time.Minute
		tf2 := filepath.Join(c.Scratch, "tree2.ndjson")
		sf2 := filepath.Join(c.Scratch, "slice2.ndjson")
		_ = p2.Call(map[string]any{"obj": "treetrace", "nk": maxKey, "seed": c.Seed, "count": nTree, "out": tf2}, &got)
		_ = p2.Call(map[string]any{"obj": "slicetrace", "seed": c.Seed + 7919, "count": nSlice, "out": sf2}, &got)
		tb2, _ := os.ReadFile(tf2)
		sb2, _ := os.ReadFile(sf2)
		l2 := splitLines(append(sb2, tb2...))
		if idx >= len(l2) || l2[idx] != ev {
			return fmt.Errorf("TraceContainers rejected event %d (%s) but a second recording differs there: not reproducible", idx+1, ev)
		}
		from := idx
		for from > 0 && !strings.Contains(lines[from], `reset"`) {
			from--
		}
		hist := lines[from : idx+1]
		if len(hist) > 400 {
			hist = hist[len(hist)-400:]
		}
		c.Violate(fmt.Sprintf("trace/%v/event-%d", e["op"], idx-from), fmt.Sprintf("recorded history is not a behaviour of Containers.tla: event %d of its history (%s) is rejected by TraceContainers", idx-from, ev),
			map[string]any{"history_tail": hist, "seed": c.Seed})
		return nil
	}
	c.Add("traces_validated_against_impl", histories)
	c.Add("trace_events_validated", v.Len)
	c.Add("states", v.Len+1)
	c.Logf("TraceContainers accepted %d events of %d histories in %v (max size %d, max true height %d)", v.Len, histories, time.Since(t0).Round(time.Millisecond), maxN, maxTh)
	c.Sample(map[string]any{"trace_event": json.RawMessage(lines[len(lines)/3])})
	c.Sample(map[string]any{"trace_event": json.RawMessage(lines[len(lines)-5])})
	if byOp["set"] == 0 || byOp["del"] == 0 || byOp["push"] == 0 || byOp["pop"] == 0 || wrapped == 0 || popPanics == 0 {
		return fmt.Errorf("vacuous trace: %v wrapped=%d popPanics=%d", byOp, wrapped, popPanics)
	}

	// binding self-test: corrupted traces must be rejected at the corrupted event
	corruptions := []struct {
		name string
		f    func(e map[string]any) bool
	}{
		{"tree get value", func(e map[string]any) bool {
			if e["op"] == "get" && e["found"] == true {
				e["v"] = float64(num(e["v"]) + 1)
				return true
			}
			return false
		}},
		{"tree root stored height", func(e map[string]any) bool {
			if e["op"] == "del" && num(e["n"]) > 3 {
				e["rh"] = float64(num(e["rh"]) + 1)
				return true
			}
			return false
		}},
		{"slice popped element", func(e map[string]any) bool {
			if e["op"] == "pop" && e["panic"] == false {
				e["x"] = float64(num(e["x"]) + 1)
				return true
			}
			return false
		}},
		{"slice write_pos", func(e map[string]any) bool {
			if e["op"] == "push" && num(e["wp"]) > num(e["cap"]) {
				e["wp"] = float64(num(e["wp"]) - num(e["cap"]))
				return true
			}
			return false
		}},
	}
	ncor := c.Pick(1, len(corruptions))
	for i := 0; i < ncor; i++ {
		co := corruptions[(int(c.Seed)+i)%len(corruptions)]
		if c.Thorough() {
			co = corruptions[i]
		}
		// keep the self-test cheap: corrupt early in the respective part
		bad, at := corruptLine(lines, 0, co.f)
		if bad == nil {
			return fmt.Errorf("self-test: no event to corrupt for %q", co.name)
		}
		// only the prefix up to a little past the corrupted line is needed
		end := at + 50
		if end > len(lines) {
			end = len(lines)
		}
		short := []byte(strings.Join(splitLines(bad)[:end], "\n") + "\n")
		cv, err := validateTrace(c, "TraceContainers", "TraceContainers.cfg", consts, short, 10*time.Minute)
		if err != nil {
			return fmt.Errorf("self-test %q: %v", co.name, err)
		}
		if cv.OK || cv.Reached != at {
			return fmt.Errorf("binding self-test failed: trace with corrupted %s at event %d was not rejected there (ok=%v reached=%d)", co.name, at+1, cv.OK, cv.Reached)
		}
		c.Add("selftest_corrupted_traces_rejected", 1)
	}
	return nil
}
