package containers

import (
	"encoding/json"
	"fmt"
	"math/rand"
	"os"
	"path/filepath"
	"strconv"
	"strings"
	"time"

	"verif/core"
)

func init() {
	core.Register("C37", "model_checking", runC37)
}

func acksDriver(c *core.Ctx) (string, error) {
	return buildDriver(c, "internal/verifx/udpacks", map[string]string{
		"pkg/rpc/udp/verif_export.go":     core.DriverSrc("udpacks/udp_export.go"),
		"internal/verifx/udpacks/main.go": core.DriverSrc("udpacks/main.go"),
	}, "udpacksdrv")
}

func runC37(c *core.Ctx) error {
	drv, err := acksDriver(c)
	if err != nil {
		return err
	}
	classes := map[string]int{}
	if err := replayAcks(c, drv, classes); err != nil {
		return err
	}
	c.Set("edge_classes", classes)
	for _, k := range []string{"prefix-extend", "prefix-absorbs-ranges", "first-range", "insert-range", "widen-range", "unlink-and-merge", "no-change",
		"ackset-cut-at-50", "ackset-cut-inside-range", "nack-cut-at-50", "ackset-below-cut", "nack-below-cut"} {
		if classes[k] == 0 {
			return fmt.Errorf("vacuous: case class %q was never exercised by a replayed edge", k)
		}
	}
	if err := traceC37(c, drv); err != nil {
		return err
	}
	c.Set("rule", "every transition of TLC's state graph of MC_UdpAcks (dense mode: every subset of 0..8/0..10; comb and wide modes: every <= 2-3 AddAckRange calls around the MaxAckSet cut-offs; the part of the dense graph that avoids 0 once more shifted to just below 2^32) is replayed on a fresh real AcksToSend and ackPrefix, the range list, HaveHoles, checkInvariantsCommon, BuildAck and BuildNegativeAck are compared with the target node; random histories recorded from the real object are validated by TraceUdpAcks")
	c.Assume("ranges are given with from <= to and to+1 < 2^32 (wrapping-free), as the transport produces them")
	c.Assume("headers are compared as built into a fresh EncHeader / ResendRequest; for a reused EncHeader only soundness (acknowledged numbers are recorded) is required, in the trace check")
	return nil
}

type ackNode struct {
	Mode   string
	Prefix int
	Ranges [][2]int
	Key    string
	Exp    map[string]any
}

func ackKey(prefix any, ranges any) string { return compact(prefix) + "|" + compact(ranges) }

func replayAcks(c *core.Ctx, drv string, classes map[string]int) error {
	emits := map[string]map[string]any{}
	modes := "ModesQuick"
	if c.Thorough() {
		modes = "ModesThorough"
	}
	res, err := c.MustTLC(core.TLCOpts{Module: "MC_UdpAcks", Cfg: "MC_UdpAcks.cfg", Workers: 4, DumpDot: true, Coverage: c.Thorough(),
		Timeout: 13 * time.Minute, Consts: map[string]string{"MODES": modes},
		OnEmit: func(p json.RawMessage) {
			var m map[string]any
			if json.Unmarshal(p, &m) == nil {
				emits[ackKey(m["prefix"], m["ranges"])] = m
			}
		}})
	if err != nil {
		return err
	}
	g, err := core.ParseDot(res.Dot)
	if err != nil {
		return err
	}
	_ = os.Remove(res.Dot)
	if len(g.Labels) != res.Distinct {
		return fmt.Errorf("MC_UdpAcks: %d dot nodes, %d distinct states", len(g.Labels), res.Distinct)
	}
	nodes := make([]ackNode, len(g.Labels))
	byMode := map[string]int{}
	for i, l := range g.Labels {
		pv, ok1 := labelVar(l, "prefix")
		rv, ok2 := labelVar(l, "ranges")
		mv, ok3 := labelVar(l, "mode")
		if !ok1 || !ok2 || !ok3 {
			return fmt.Errorf("node label without prefix/ranges/mode: %q", l)
		}
		rj, err := tupleJSON(rv)
		if err != nil {
			return err
		}
		n := ackNode{Mode: strings.Trim(mv, `"`)}
		if n.Prefix, err = strconv.Atoi(pv); err != nil {
			return fmt.Errorf("prefix %q: %v", pv, err)
		}
		if err := json.Unmarshal([]byte(rj), &n.Ranges); err != nil {
			return err
		}
		n.Key = ackKey(n.Prefix, n.Ranges)
		if n.Exp = emits[n.Key]; n.Exp == nil {
			return fmt.Errorf("no Emit record for state %s", n.Key)
		}
		nodes[i] = n
		byMode[n.Mode]++
	}
	c.Add("states", res.Distinct)
	c.Add("transitions", len(g.Edges))
	c.Set("states_by_mode", byMode)
	c.Logf("TLC MC_UdpAcks %s: %d states %v, %d transitions, depth %d (%v)", modes, res.Distinct, byMode, len(g.Edges), res.Depth, res.Wall)
	if c.Thorough() {
		c.Set("tlc_action_coverage_acks", res.ActionCover)
	}
	for _, m := range []string{"dense", "comb", "wide"} {
		if byMode[m] == 0 {
			return fmt.Errorf("vacuous: mode %s has no state", m)
		}
	}

	ops, err := replayAckGraph(c, drv, g, nodes, 0, "all modes")
	if err != nil {
		return err
	}
	for i, e := range g.Edges {
		a, b := nodes[e.From], nodes[e.To]
		o := ops[i]
		switch {
		case e.From == e.To || a.Key == b.Key:
			classes["no-change"]++
		case o.A[0] <= a.Prefix && len(b.Ranges) < len(a.Ranges):
			classes["prefix-absorbs-ranges"]++
		case o.A[0] <= a.Prefix:
			classes["prefix-extend"]++
		case len(a.Ranges) == 0:
			classes["first-range"]++
		case len(b.Ranges) == len(a.Ranges)+1:
			classes["insert-range"]++
		case len(b.Ranges) == len(a.Ranges):
			classes["widen-range"]++
		default:
			classes["unlink-and-merge"]++
		}
	}
	for _, n := range nodes {
		ack, _ := n.Exp["ack"].(map[string]any)
		set, _ := ack["set"].([]any)
		nack, _ := n.Exp["nack"].([]any)
		inTail := 0
		for _, r := range n.Ranges[min(1, len(n.Ranges)):] {
			inTail += r[1] - r[0] + 1
		}
		if len(set) == 50 && inTail > 50 {
			classes["ackset-cut-at-50"]++
			last := num(set[49])
			for _, r := range n.Ranges {
				if r[0] <= last && last < r[1] {
					classes["ackset-cut-inside-range"]++
				}
			}
		} else if len(set) > 0 {
			classes["ackset-below-cut"]++
		}
		if len(nack) == 50 && len(n.Ranges) > 50 {
			classes["nack-cut-at-50"]++
		} else if len(nack) > 0 {
			classes["nack-below-cut"]++
		}
	}

	// the part of the dense graph that never touches 0, shifted to just below 2^32
	// (2^32-2 is the largest number: to+1 never wraps)
	sub := &core.Graph{}
	idx := map[int]int{}
	var subNodes []ackNode
	maxPoint := 0
	add := func(n int) int {
		if j, ok := idx[n]; ok {
			return j
		}
		idx[n] = len(sub.Labels)
		sub.Labels = append(sub.Labels, g.Labels[n])
		subNodes = append(subNodes, nodes[n])
		return idx[n]
	}
	var queue []int
	for _, n := range g.Init {
		if nodes[n].Mode == "dense" {
			sub.Init = append(sub.Init, add(n))
			queue = append(queue, n)
		}
	}
	out := make([][]int, len(g.Labels))
	for i, e := range g.Edges {
		out[e.From] = append(out[e.From], i)
	}
	for len(queue) > 0 {
		u := queue[0]
		queue = queue[1:]
		for _, ei := range out[u] {
			if ops[ei].A[0] < 1 {
				continue
			}
			v := g.Edges[ei].To
			if _, seen := idx[v]; !seen {
				queue = append(queue, v)
			}
			sub.Edges = append(sub.Edges, core.Edge{From: add(u), To: add(v), Action: g.Edges[ei].Action})
			maxPoint = max(maxPoint, ops[ei].A[1])
		}
	}
	if len(sub.Edges) == 0 {
		return fmt.Errorf("vacuous: no zero-avoiding part of the dense graph")
	}
	off := ^uint32(0) - 1 - uint32(maxPoint)
	if _, err := replayAckGraph(c, drv, sub, subNodes, off, fmt.Sprintf("dense shifted by %d", off)); err != nil {
		return err
	}
	c.Add("acks_edges_replayed_near_2^32", len(sub.Edges))
	return nil
}

// replayAckGraph replays every edge of g (numbers shifted by off) and reports mismatches.
func replayAckGraph(c *core.Ctx, drv string, g *core.Graph, nodes []ackNode, offset uint32, name string) ([]op, error) {
	off := uint64(offset)
	var un func(v any) any // undo the offset in a decoded JSON value
	un = func(v any) any {
		switch x := v.(type) {
		case float64:
			if off != 0 && uint64(x) >= off {
				return x - float64(off)
			}
			return x
		case []any:
			o := make([]any, len(x))
			for i := range x {
				o[i] = un(x[i])
			}
			return o
		case map[string]any:
			o := map[string]any{}
			for k, e := range x {
				o[k] = un(e)
			}
			return o
		}
		return v
	}
	checkNode := func(node int, got map[string]any) string {
		gm, _ := un(got).(map[string]any)
		if d := diffFields(nodes[node].Exp, gm, "prefix", "ranges", "holes", "ack", "nack"); d != "" {
			return d
		}
		if inv, _ := got["inv"].([]any); len(inv) != 0 {
			return "checkInvariantsCommon: " + compact(inv)
		}
		return ""
	}
	rnd := rand.New(rand.NewSource(c.Seed))
	pairs := func(ops []op) [][2]int {
		out := make([][2]int, len(ops))
		for i, o := range ops {
			out[i] = [2]int{o.A[0], o.A[1]}
		}
		return out
	}
	// initial comb states are built from their ranges in a seeded random order:
	// the representation is a function of the set (invariant Canonical)
	initOf := map[int][][2]int{}
	root := make([]int, len(g.Labels)) // initial node each node's shortest path starts from
	r := &replayer{c: c, drv: drv, g: g, workers: 4}
	r.mkReq = func(src int, path, edges []op) any {
		return map[string]any{"obj": "acks", "off": offset, "init": initOf[root[src]], "path": pairs(path), "edges": pairs(edges)}
	}
	r.checkInit = checkNode
	r.check = func(e int, got map[string]any) string { return checkNode(g.Edges[e].To, got) }
	paths, _ := g.ShortestPaths()
	for i := range g.Labels {
		if len(paths[i]) == 0 {
			root[i] = i
		} else {
			root[i] = g.Edges[paths[i][0]].From
		}
	}
	for _, n := range g.Init {
		rs := append([][2]int{}, nodes[n].Ranges...)
		rnd.Shuffle(len(rs), func(i, j int) { rs[i], rs[j] = rs[j], rs[i] })
		initOf[n] = rs
	}
	t0 := time.Now()
	if err := r.run(); err != nil {
		return nil, err
	}
	c.Add("evaluations", r.replayed)
	c.Add("acks_edges_replayed", r.replayed)
	c.Add("acks_real_calls", r.opsRun)
	c.Logf("replayed %d AddAckRange edges (%s; %d real calls) in %v, %d mismatches", r.replayed, name, r.opsRun, time.Since(t0).Round(time.Millisecond), len(r.mismatches))
	if r.replayed != len(g.Edges) {
		return nil, fmt.Errorf("replayed %d of %d edges", r.replayed, len(g.Edges))
	}
	if len(g.Edges) > 0 {
		i := len(g.Edges) / 2
		c.Sample(map[string]any{"graph": name, "mode": nodes[g.Edges[i].From].Mode, "offset": offset, "init_ranges": len(initOf[root[g.Edges[i].From]]), "path": opsString(r.pathOps(g.Edges[i].From)),
			"call": r.ops[i].String(), "model_target": map[string]any{"prefix": nodes[g.Edges[i].To].Prefix, "ranges": nodes[g.Edges[i].To].Ranges}, "real": "equal (representation, BuildAck, BuildNegativeAck)"})
	}
	if len(r.mismatches) == 0 {
		return r.ops, nil
	}
	c.Add("acks_edges_mismatching", len(r.mismatches))
	reported := 0
	for _, m := range r.mismatches {
		if reported >= 4 {
			break
		}
		got, err := confirm(drv, m.Req)
		if err != nil {
			return nil, err
		}
		node := m.Src
		if m.Edge >= 0 {
			node = g.Edges[m.Edge].To
		}
		bad := checkNode(node, got)
		if bad == "" {
			return nil, fmt.Errorf("acks mismatch after %s %s did not reproduce in a fresh process (%s)", opsString(m.Path), m.Op, m.What)
		}
		field := strings.SplitN(bad, ":", 2)[0]
		src := nodes[m.Src]
		shift := ""
		if offset != 0 {
			shift = "+2^32-" + strconv.FormatUint(uint64(^uint32(0))-uint64(offset)+1, 10)
		}
		key := fmt.Sprintf("acks/%s%s/%s/%s on prefix=%d ranges=%s", src.Mode, shift, field, m.Op, src.Prefix, compact(src.Ranges))
		if len(key) > 160 {
			key = key[:160]
		}
		initDesc := fmt.Sprint(m.Req.(map[string]any)["init"])
		if len(initDesc) > 80 {
			initDesc = fmt.Sprintf("the %d one-number ranges {2},{4},.. added in a seeded random order (see replay)", len(m.Req.(map[string]any)["init"].([][2]int)))
		}
		c.Violate(key, fmt.Sprintf("real AcksToSend differs from UdpAcks.tla (mode %s, offset %d) after init %s, [%s] then %s: %s",
			src.Mode, offset, initDesc, opsString(m.Path), m.Op, bad), m.Req)
		reported++
	}
	return r.ops, nil
}

func rangeInts(a, b int) []int {
	var r []int
	for i := a; i <= b; i++ {
		r = append(r, i)
	}
	return r
}

func traceC37(c *core.Ctx, drv string) error {
	gen := func() ([]byte, error) {
		p, err := core.StartProc(drv, nil)
		if err != nil {
			return nil, err
		}
		defer p.Close()
		p.Limit = 5 * time.Minute
		f := filepath.Join(c.Scratch, fmt.Sprintf("acks-%d.ndjson", time.Now().UnixNano()))
		var got map[string]any
		if err := p.Call(map[string]any{"obj": "ackstrace", "seed": c.Seed, "count": c.Pick(4000, 60000), "out": f}, &got); err != nil {
			return nil, err
		}
		if m, ok := got["fatal"]; ok {
			return nil, fmt.Errorf("driver: %v", m)
		}
		return os.ReadFile(f)
	}
	tb, err := gen()
	if err != nil {
		return err
	}
	lines := splitLines(tb)
	t0 := time.Now()
	v, err := validateTrace(c, "TraceUdpAcks", "TraceUdpAcks.cfg", nil, tb, 13*time.Minute)
	if err != nil {
		return err
	}
	byOp := map[string]int{}
	histories, maxRanges, cutSet, cutNack, offHist := 0, 0, 0, 0, 0
	for _, l := range lines {
		var e map[string]any
		if json.Unmarshal([]byte(l), &e) != nil {
			continue
		}
		o, _ := e["op"].(string)
		byOp[o]++
		switch o {
		case "reset":
			histories++
			if e["off"] != "0" {
				offHist++
			}
		case "add":
			if rs, _ := e["ranges"].([]any); len(rs) > maxRanges {
				maxRanges = len(rs)
			}
		case "ack":
			h, _ := e["h"].(map[string]any)
			if s, _ := h["set"].([]any); len(s) == 50 {
				cutSet++
			}
		case "nack":
			if n, _ := e["n"].([]any); len(n) == 50 {
				cutNack++
			}
		}
	}
	c.Set("trace_events_by_op", byOp)
	c.Set("trace_max_ranges", maxRanges)
	c.Set("trace_acks_with_50_numbers", cutSet)
	c.Set("trace_nacks_with_50_ranges", cutNack)
	c.Set("trace_histories_near_2^32", offHist)
	if !v.OK {
		idx := v.Reached
		ev := lines[min(idx, len(lines)-1)]
		tb2, err := gen() // reproduce in a fresh process
		if err != nil {
			return err
		}
		l2 := splitLines(tb2)
		if idx >= len(l2) || l2[idx] != ev {
			return fmt.Errorf("TraceUdpAcks rejected event %d (%s) but a second recording differs there: not reproducible", idx+1, ev)
		}
		from := idx
		for from > 0 && !strings.Contains(lines[from], `"op":"reset"`) {
			from--
		}
		var e map[string]any
		_ = json.Unmarshal([]byte(ev), &e)
		hist := lines[from : idx+1]
		if len(hist) > 400 {
			hist = hist[len(hist)-400:]
		}
		c.Violate(fmt.Sprintf("acks-trace/%v/event-%d", e["op"], idx-from), fmt.Sprintf("recorded history is not a behaviour of UdpAcks.tla: event %d of its history (%s) is rejected by TraceUdpAcks", idx-from, ev),
			map[string]any{"history_tail": hist, "seed": c.Seed})
		return nil
	}
	c.Add("traces_validated_against_impl", histories)
	c.Add("trace_events_validated", v.Len)
	c.Add("states", v.Len+1)
	c.Logf("TraceUdpAcks accepted %d events of %d histories in %v (max %d ranges, %d acks / %d nacks at the cut-off)", v.Len, histories, time.Since(t0).Round(time.Millisecond), maxRanges, cutSet, cutNack)
	c.Sample(map[string]any{"trace_event": json.RawMessage(lines[len(lines)/2])})
	if byOp["add"] == 0 || byOp["ack"] == 0 || byOp["nack"] == 0 || offHist == 0 {
		return fmt.Errorf("vacuous trace: %v near-2^32 histories=%d", byOp, offHist)
	}

	// binding self-test
	corruptions := []struct {
		name string
		f    func(e map[string]any) bool
	}{
		{"range end", func(e map[string]any) bool {
			rs, _ := e["ranges"].([]any)
			if e["op"] == "add" && len(rs) >= 2 {
				r := rs[1].([]any)
				r[1] = float64(num(r[1]) + 1)
				return true
			}
			return false
		}},
		{"ack prefix", func(e map[string]any) bool {
			h, _ := e["h"].(map[string]any)
			if e["op"] == "ack" && h["hasPrefix"] == true {
				h["prefix"] = float64(num(h["prefix"]) + 1)
				return true
			}
			return false
		}},
		{"nack range", func(e map[string]any) bool {
			n, _ := e["n"].([]any)
			if e["op"] == "nack" && len(n) >= 2 {
				r := n[1].([]any)
				r[0] = float64(num(r[0]) - 1)
				return true
			}
			return false
		}},
	}
	for i := 0; i < c.Pick(1, 3); i++ {
		co := corruptions[(int(c.Seed)+i)%len(corruptions)]
		bad, at := corruptLine(lines, 0, co.f)
		if bad == nil {
			return fmt.Errorf("self-test: no event to corrupt for %q", co.name)
		}
		end := min(at+50, len(lines))
		short := []byte(strings.Join(splitLines(bad)[:end], "\n") + "\n")
		cv, err := validateTrace(c, "TraceUdpAcks", "TraceUdpAcks.cfg", nil, short, 10*time.Minute)
		if err != nil {
			return fmt.Errorf("self-test %q: %v", co.name, err)
		}
		if cv.OK || cv.Reached != at {
			return fmt.Errorf("binding self-test failed: trace with corrupted %s at event %d was not rejected there (ok=%v reached=%d)", co.name, at+1, cv.OK, cv.Reached)
		}
		c.Add("selftest_corrupted_traces_rejected", 1)
	}
	return nil
}
