// Package containers: C41 (algo.TreeMap / algo.CircularSlice) and C37 (udp.AcksToSend).
//
// Binding = edge replay of TLC's labelled state graph into the real objects
// plus TLC trace validation of random histories recorded from the real objects.
package containers

import (
	"bytes"
	"encoding/json"
	"fmt"
	"os"
	"path/filepath"
	"reflect"
	"regexp"
	"sort"
	"strconv"
	"strings"
	"sync"
	"time"

	"verif/core"
)

// op is one call of the object under test, as the drivers understand it.
type op struct {
	Op string `json:"op"`
	A  []int  `json:"a"`
}

func (o op) String() string {
	s := make([]string, len(o.A))
	for i, x := range o.A {
		s[i] = strconv.Itoa(x)
	}
	return o.Op + "(" + strings.Join(s, ",") + ")"
}

func opsString(ops []op) string {
	s := make([]string, len(ops))
	for i, o := range ops {
		s[i] = o.String()
	}
	return strings.Join(s, " ")
}

var reAction = regexp.MustCompile(`^(\w+)(?:\(([^)]*)\))?$`)

// parseAction turns a dot edge label such as "Set(1,2)" or "Swap" into an op.
func parseAction(label string) (op, error) {
	m := reAction.FindStringSubmatch(strings.TrimSpace(label))
	if m == nil {
		return op{}, fmt.Errorf("unparsable action label %q", label)
	}
	o := op{Op: m[1], A: []int{}}
	if strings.TrimSpace(m[2]) != "" {
		for _, f := range strings.Split(m[2], ",") {
			v, err := strconv.Atoi(strings.TrimSpace(f))
			if err != nil {
				return op{}, fmt.Errorf("unparsable action label %q", label)
			}
			o.A = append(o.A, v)
		}
	}
	return o, nil
}

// cleanLabel removes the tooltip copy that core.ParseDot's greedy pattern leaves
// attached to the label of non-initial nodes (label",tooltip="label).
func cleanLabel(label string) string {
	if i := strings.Index(label, "\",tooltip=\""); i >= 0 {
		return label[:i]
	}
	return label
}

// labelVar extracts the (possibly line-wrapped) value of variable name from a
// dot node label "/\ a = ...\n/\ b = ...".
func labelVar(label, name string) (string, bool) {
	for _, conj := range strings.Split("\n"+cleanLabel(label), "\n/\\ ") {
		if strings.HasPrefix(conj, name+" = ") {
			return strings.Join(strings.Fields(strings.TrimPrefix(conj, name+" = ")), " "), true
		}
	}
	return "", false
}

// tupleJSON converts a TLA+ value made of tuples and integers into compact JSON.
func tupleJSON(v string) (string, error) {
	s := strings.ReplaceAll(strings.ReplaceAll(v, "<<", "["), ">>", "]")
	var buf bytes.Buffer
	if err := json.Compact(&buf, []byte(s)); err != nil {
		return "", fmt.Errorf("value %q is not a tuple of integers: %v", v, err)
	}
	return buf.String(), nil
}

func compact(v any) string {
	b, _ := json.Marshal(v)
	return string(b)
}

func setLit(a, b int) string {
	s := make([]string, 0, b-a+1)
	for i := a; i <= b; i++ {
		s = append(s, strconv.Itoa(i))
	}
	return "{" + strings.Join(s, ",") + "}"
}

func setOf(xs []int) string {
	s := make([]string, len(xs))
	for i, x := range xs {
		s[i] = strconv.Itoa(x)
	}
	return "{" + strings.Join(s, ",") + "}"
}

// ---------------------------------------------------------------------------
// generic edge replay

type mismatch struct {
	Src   int // source node (the node itself for an initial-state mismatch)
	Edge  int
	Path  []op // shortest path to the source node
	Op    op
	What  string
	Req   any
	Depth int
}

type replayer struct {
	c       *core.Ctx
	drv     string
	g       *core.Graph
	ops     []op    // per edge
	paths   [][]int // per node: edge indices of a shortest path
	workers int
	// fixOp completes an operation whose arguments are not all in the edge label.
	fixOp func(e int, o op) op
	// mkReq builds the driver request replaying path, then (on fresh objects) each of edges.
	mkReq func(src int, path []op, edges []op) any
	// check compares the projection observed after edge e with the model's target node.
	check func(e int, got map[string]any) string
	// checkInit compares the projection of an initial node (no operation applied).
	checkInit func(node int, got map[string]any) string

	mu         sync.Mutex
	mismatches []mismatch
	replayed   int
	opsRun     int
}

type drvResp struct {
	Res   []map[string]any `json:"res"`
	Fatal string           `json:"fatal"`
}

func (r *replayer) pathOps(node int) []op {
	p := r.paths[node]
	out := make([]op, len(p))
	for i, e := range p {
		out[i] = r.ops[e]
	}
	return out
}

// run replays every edge of the graph: shortest path to the source on a fresh
// object, then the edge's operation, then comparison with the target node.
func (r *replayer) run() error {
	g := r.g
	var err error
	r.ops = make([]op, len(g.Edges))
	for i, e := range g.Edges {
		if r.ops[i], err = parseAction(e.Action); err != nil {
			return err
		}
		if r.fixOp != nil {
			r.ops[i] = r.fixOp(i, r.ops[i])
		}
	}
	var reach []bool
	r.paths, reach = g.ShortestPaths()
	for i, ok := range reach {
		if !ok {
			return fmt.Errorf("node %d of the dumped graph is unreachable from the initial states", i)
		}
	}
	bySrc := make([][]int, len(g.Labels))
	for i, e := range g.Edges {
		bySrc[e.From] = append(bySrc[e.From], i)
	}
	type job struct {
		src   int
		edges []int
	}
	jobs := make(chan job, 64)
	errs := make(chan error, r.workers+1)
	var wg sync.WaitGroup
	for w := 0; w < r.workers; w++ {
		p, err := core.StartProc(r.drv, nil)
		if err != nil {
			return err
		}
		p.Limit = 120 * time.Second
		wg.Add(1)
		go func() {
			defer wg.Done()
			defer p.Close()
			failed := false
			for j := range jobs {
				if failed {
					continue
				}
				path := r.pathOps(j.src)
				eops := make([]op, len(j.edges))
				for i, e := range j.edges {
					eops[i] = r.ops[e]
				}
				rq := r.mkReq(j.src, path, eops)
				var resp drvResp
				if err := p.Call(rq, &resp); err != nil {
					errs <- err
					failed = true
					continue
				}
				if resp.Fatal != "" {
					if strings.Contains(resp.Fatal, "runtime error") {
						// the code under test panicked where the model has an ordinary step: that is a
						// mismatch between code and model (reproduced in a fresh process), not a tool failure
						if _, err2 := confirmRaw(r.drv, rq); err2 != nil && strings.Contains(err2.Error(), "runtime error") {
							r.c.Violate(fmt.Sprintf("panic-in-code/%s/%s", r.c.Prop, opsString(path)),
								fmt.Sprintf("the real container panics (%s) on a history the model allows: path %s then one of %d operations", resp.Fatal, opsString(path), len(eops)), rq)
							continue
						}
					}
					errs <- fmt.Errorf("driver: %s", resp.Fatal)
					failed = true
					continue
				}
				want := len(j.edges)
				if want == 0 {
					want = 1
				}
				if len(resp.Res) != want {
					errs <- fmt.Errorf("driver returned %d projections for %d edges", len(resp.Res), want)
					failed = true
					continue
				}
				var mm []mismatch
				if len(j.edges) == 0 {
					if bad := r.checkInit(j.src, resp.Res[0]); bad != "" {
						mm = append(mm, mismatch{Src: j.src, Edge: -1, Path: path, What: bad, Req: rq, Depth: len(path)})
					}
				}
				for i, e := range j.edges {
					if bad := r.check(e, resp.Res[i]); bad != "" {
						mm = append(mm, mismatch{Src: j.src, Edge: e, Path: path, Op: eops[i], What: bad, Depth: len(path) + 1,
							Req: r.mkReq(j.src, path, []op{eops[i]})})
					}
				}
				r.mu.Lock()
				r.mismatches = append(r.mismatches, mm...)
				r.replayed += len(j.edges)
				r.opsRun += len(j.edges) * (len(path) + 1)
				r.mu.Unlock()
			}
		}()
	}
	for _, n := range g.Init { // initial states are compared as they are
		jobs <- job{src: n}
	}
	for src, es := range bySrc {
		for len(es) > 0 { // bounded batches keep replies small
			k := len(es)
			if k > 24 {
				k = 24
			}
			jobs <- job{src: src, edges: es[:k]}
			es = es[k:]
		}
	}
	close(jobs)
	wg.Wait()
	select {
	case err := <-errs:
		return err
	default:
	}
	sort.SliceStable(r.mismatches, func(i, j int) bool {
		a, b := r.mismatches[i], r.mismatches[j]
		if a.Depth != b.Depth {
			return a.Depth < b.Depth
		}
		return opsString(a.Path)+a.Op.String() < opsString(b.Path)+b.Op.String()
	})
	return nil
}

// confirmRaw re-runs a request in a fresh driver process and returns the driver's fatal text as error.
func confirmRaw(drv string, rq any) (*drvResp, error) {
	p, err := core.StartProc(drv, nil)
	if err != nil {
		return nil, err
	}
	defer p.Close()
	var resp drvResp
	if err := p.Call(rq, &resp); err != nil {
		return nil, err
	}
	if resp.Fatal != "" {
		return &resp, fmt.Errorf("driver: %s", resp.Fatal)
	}
	return &resp, nil
}

// confirm re-runs a single-edge request in a fresh driver process.
func confirm(drv string, rq any) (map[string]any, error) {
	p, err := core.StartProc(drv, nil)
	if err != nil {
		return nil, err
	}
	defer p.Close()
	var resp drvResp
	if err := p.Call(rq, &resp); err != nil {
		return nil, err
	}
	if resp.Fatal != "" || len(resp.Res) != 1 {
		return nil, fmt.Errorf("driver: %s (%d projections)", resp.Fatal, len(resp.Res))
	}
	return resp.Res[0], nil
}

// jsonEq compares two decoded JSON values.
func jsonEq(a, b any) bool { return reflect.DeepEqual(norm(a), norm(b)) }

func norm(v any) any {
	b, err := json.Marshal(v)
	if err != nil {
		return v
	}
	var out any
	_ = json.Unmarshal(b, &out)
	return out
}

// diffFields compares the listed fields of two JSON objects and names the first that differs.
func diffFields(want, got map[string]any, fields ...string) string {
	for _, f := range fields {
		if !jsonEq(want[f], got[f]) {
			return fmt.Sprintf("%s: model %s, real %s", f, compact(want[f]), compact(got[f]))
		}
	}
	return ""
}

// ---------------------------------------------------------------------------
// trace validation

type traceVerdict struct {
	OK      bool
	Reached int // events matched before the first rejected one
	Len     int
}

// validateTrace runs a stateful trace specification over the NDJSON bytes.
func validateTrace(c *core.Ctx, module, cfg string, consts map[string]string, tb []byte, timeout time.Duration) (*traceVerdict, error) {
	r, err := c.TLC(core.TLCOpts{Module: module, Cfg: cfg, Consts: consts, Workers: 1, Timeout: timeout,
		Files: map[string][]byte{"trace.ndjson": tb}})
	if err != nil {
		return nil, err
	}
	v := &traceVerdict{Reached: -1}
	for _, e := range r.Emits {
		var x struct{ Reached, Len int }
		if json.Unmarshal(e, &x) == nil {
			v.Reached, v.Len = x.Reached, x.Len
		}
	}
	if r.OK {
		if v.Reached != v.Len || v.Len == 0 {
			return nil, fmt.Errorf("%s reported success but matched %d of %d events", module, v.Reached, v.Len)
		}
		v.OK = true
		return v, nil
	}
	if r.ErrorKind != "postcondition" || v.Reached < 0 {
		return nil, fmt.Errorf("%s failed: kind=%s\n%s", module, r.ErrorKind, r.ErrorText)
	}
	return v, nil
}

func splitLines(tb []byte) []string {
	return strings.Split(strings.TrimRight(string(tb), "\n"), "\n")
}

// corruptLine applies f to the decoded event at the first line (from `from` on)
// for which f reports a change.
func corruptLine(lines []string, from int, f func(e map[string]any) bool) ([]byte, int) {
	for i := from; i < len(lines); i++ {
		var e map[string]any
		if json.Unmarshal([]byte(lines[i]), &e) != nil {
			continue
		}
		if f(e) {
			b, _ := json.Marshal(e)
			out := append([]string{}, lines...)
			out[i] = string(b)
			return []byte(strings.Join(out, "\n") + "\n"), i
		}
	}
	return nil, -1
}

func num(v any) int {
	f, _ := v.(float64)
	return int(f)
}

func buildDriver(c *core.Ctx, pkg string, overlay map[string]string, name string) (string, error) {
	out := filepath.Join(c.Scratch, name)
	if _, err := os.Stat(out); err == nil {
		return out, nil
	}
	return out, c.BuildInRepo(pkg, overlay, out, false, false)
}
