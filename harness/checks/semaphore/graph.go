package semaphore

import (
	"bufio"
	"encoding/json"
	"fmt"
	"os"
	"regexp"
	"strconv"
	"strings"
)

// proj is the projection of a model state carried by the spec variable js, and of the
// real semaphore as reported by the driver.
type proj struct {
	Cur    int64      `json:"cur"`
	Size   int64      `json:"size"`
	Forced int64      `json:"forced"`
	Q      [][2]int64 `json:"q"`
	St     []string   `json:"st"`
	W      []int64    `json:"w"`
}

type edge struct {
	from, to int32
	label    string
	name     string
	args     []int64
}

type graph struct {
	nodes []proj
	init  []int32
	edges []edge
}

var reDotEdge = regexp.MustCompile(`^(-?\d+) -> (-?\d+) \[label="([^"]*)"`)
var reDotNode = regexp.MustCompile(`^(-?\d+) \[label="`)

// dotUnescape undoes dot string escaping up to the closing quote of the string that
// starts at s[0] (after the opening quote).
func dotUnescape(s string) string {
	var b strings.Builder
	for i := 0; i < len(s); i++ {
		ch := s[i]
		if ch == '"' {
			break
		}
		if ch == '\\' && i+1 < len(s) {
			i++
			switch s[i] {
			case 'n':
				b.WriteByte('\n')
			default:
				b.WriteByte(s[i])
			}
			continue
		}
		b.WriteByte(ch)
	}
	return b.String()
}

func parseLabel(l string) (string, []int64) {
	i := strings.IndexByte(l, '(')
	if i < 0 || !strings.HasSuffix(l, ")") {
		return l, nil
	}
	var args []int64
	for _, a := range strings.Split(l[i+1:len(l)-1], ",") {
		v, _ := strconv.ParseInt(strings.TrimSpace(a), 10, 64)
		args = append(args, v)
	}
	return l[:i], args
}

// parseDot reads TLC's `-dump dot,actionlabels` output; node states are taken from the
// spec's js variable (a JSON text), so no TLA+ value parser is needed.
func parseDot(path string) (*graph, error) {
	f, err := os.Open(path)
	if err != nil {
		return nil, err
	}
	defer f.Close()
	g := &graph{}
	idx := map[string]int32{}
	id := func(s string) int32 {
		if i, ok := idx[s]; ok {
			return i
		}
		i := int32(len(g.nodes))
		idx[s] = i
		g.nodes = append(g.nodes, proj{Cur: -1})
		return i
	}
	sc := bufio.NewScanner(f)
	sc.Buffer(make([]byte, 1<<20), 1<<26)
	for sc.Scan() {
		l := sc.Text()
		if m := reDotEdge.FindStringSubmatch(l); m != nil {
			name, args := parseLabel(m[3])
			g.edges = append(g.edges, edge{from: id(m[1]), to: id(m[2]), label: m[3], name: name, args: args})
			continue
		}
		if m := reDotNode.FindStringSubmatch(l); m != nil {
			i := id(m[1])
			text := dotUnescape(l[len(m[0]):])
			k := strings.Index(text, "js = ")
			if k < 0 {
				return nil, fmt.Errorf("node without js variable: %.200s", l)
			}
			var js string
			if err := json.NewDecoder(strings.NewReader(text[k+5:])).Decode(&js); err != nil {
				return nil, fmt.Errorf("js literal: %v in %.200s", err, text[k:])
			}
			var p proj
			if err := json.Unmarshal([]byte(js), &p); err != nil {
				return nil, fmt.Errorf("js content: %v in %s", err, js)
			}
			if p.Q == nil {
				p.Q = [][2]int64{}
			}
			g.nodes[i] = p
			if strings.HasSuffix(l, ",style = filled]") {
				g.init = append(g.init, i)
			}
		}
	}
	if err := sc.Err(); err != nil {
		return nil, err
	}
	for i, n := range g.nodes {
		if n.Cur < 0 {
			return nil, fmt.Errorf("node %d has no label", i)
		}
	}
	if len(g.init) == 0 {
		return nil, fmt.Errorf("no initial node in dot file")
	}
	return g, nil
}

// bfs returns for every node the edge through which it is first reached (-1 for initial
// and unreachable nodes) avoiding the given edges and self-loops, and reachability.
func (g *graph) bfs(avoid map[int]bool) (parent []int32, reach []bool) {
	n := len(g.nodes)
	adj := make([][]int32, n)
	for i, e := range g.edges {
		if e.from == e.to || avoid[i] {
			continue
		}
		adj[e.from] = append(adj[e.from], int32(i))
	}
	parent = make([]int32, n)
	reach = make([]bool, n)
	for i := range parent {
		parent[i] = -1
	}
	var q []int32
	for _, i := range g.init {
		reach[i] = true
		q = append(q, i)
	}
	for len(q) > 0 {
		u := q[0]
		q = q[1:]
		for _, ei := range adj[u] {
			v := g.edges[ei].to
			if !reach[v] {
				reach[v] = true
				parent[v] = ei
				q = append(q, v)
			}
		}
	}
	return
}

// pathTo returns the edge indices of the BFS path to node v and the initial node it starts from.
func (g *graph) pathTo(parent []int32, v int32) (path []int32, start int32) {
	u := v
	for parent[u] >= 0 {
		path = append(path, parent[u])
		u = g.edges[parent[u]].from
	}
	for i, j := 0, len(path)-1; i < j; i, j = i+1, j-1 {
		path[i], path[j] = path[j], path[i]
	}
	return path, u
}
