package semaphore

import (
	"encoding/json"
	"fmt"
	"path/filepath"
	"sort"
	"strings"
	"sync"
	"time"

	"verif/core"
)

type hookEv struct {
	Ev   string `json:"ev"`
	P    int    `json:"p"`
	N    int64  `json:"n"`
	OK   bool   `json:"ok"`
	Cur  int64  `json:"cur"`
	Size int64  `json:"size"`
	W    int    `json:"w"`
	F    bool   `json:"f"`
}

type retT struct {
	P     int    `json:"p"`
	OK    bool   `json:"ok"`
	Panic string `json:"panic,omitempty"`
}

type obsT struct {
	proj
	Evs   []hookEv `json:"evs"`
	Rets  []retT   `json:"rets"`
	Raced string   `json:"raced,omitempty"`
	Err   string   `json:"err,omitempty"`
}

// tcase is one implementation test: replay a path, apply the edge's operation, compare.
type tcase struct {
	edge       int      // the model transition under test
	last       int      // the edge whose operation is executed last (differs for CtxDoneAlreadyReady)
	pre        []int32  // edges replayed before it
	Size       int64    `json:"size"`
	Ops        []string `json:"ops"`
	HookCancel int      `json:"hookCancel"`
}

func (t tcase) wire() map[string]any {
	return map[string]any{"size": t.Size, "ops": t.Ops, "hookCancel": t.HookCancel}
}

func canon(p proj) proj {
	q := p
	q.St = append([]string{}, p.St...)
	for i, s := range q.St {
		if s == "ready" { // admitted, Acquire not yet returned: the real goroutine is always waited for
			q.St[i] = "holding"
		}
	}
	return q
}

func projEq(a, b proj) bool {
	if a.Cur != b.Cur || a.Size != b.Size || a.Forced != b.Forced || len(a.Q) != len(b.Q) || len(a.St) != len(b.St) || len(a.W) != len(b.W) {
		return false
	}
	for i := range a.Q {
		if a.Q[i] != b.Q[i] {
			return false
		}
	}
	for i := range a.St {
		if a.St[i] != b.St[i] || a.W[i] != b.W[i] {
			return false
		}
	}
	return true
}

var evOfLabel = map[string]string{
	"AcquireFast": "acq_fast", "AcquireDoomed": "acq_doomed", "AcquireEnqueue": "acq_enqueue",
	"TryAcquireOK": "try", "TryAcquireFail": "try", "CtxDoneRemove": "ctx_remove", "DoomedCancel": "",
	"Release": "release", "ReleaseForced": "release", "ForceAcquire": "force", "SetSize": "setsize",
}

// checkCase compares the observation with the target node of the edge: the projected
// state, the hook event of the last operation (name, argument and the state it reports)
// and who returned from which call with which result.
func checkCase(g *graph, t tcase, o obsT) string {
	if o.Err != "" {
		return "driver: " + o.Err
	}
	tgt := g.nodes[g.edges[t.edge].to]
	if exp := canon(tgt); !projEq(exp, o.proj) {
		return "state after the operation differs"
	}
	le := g.edges[t.last]
	src, after := g.nodes[le.from], g.nodes[le.to]
	for _, r := range o.Rets {
		if r.Panic != "" {
			return "panic: " + r.Panic
		}
	}
	want := evOfLabel[le.name]
	nEv := len(o.Evs)
	if t.HookCancel > 0 && nEv == 2 && o.Evs[1].Ev == "ctx_ready" {
		if o.Evs[1].N != after.W[t.HookCancel-1] || o.Evs[1].Cur != after.Cur || o.Evs[1].W != len(after.Q) {
			return "ctx_ready event reports a different state"
		}
		nEv = 1
	}
	if want == "" {
		if nEv != 0 {
			return "unexpected hook event " + o.Evs[0].Ev
		}
	} else {
		if nEv != 1 {
			return fmt.Sprintf("expected one hook event %s, got %d", want, nEv)
		}
		e := o.Evs[0]
		arg := le.args[len(le.args)-1]
		if le.name == "CtxDoneRemove" {
			arg = src.W[le.args[0]-1]
		}
		if e.Ev != want || e.N != arg {
			return fmt.Sprintf("hook event %s(%d), expected %s(%d)", e.Ev, e.N, want, arg)
		}
		if e.Cur != after.Cur || e.Size != after.Size || e.W != len(after.Q) {
			return "hook event reports a state different from the specified one"
		}
		if want == "try" && e.OK != (le.name == "TryAcquireOK") {
			return "TryAcquire outcome reported by the hook"
		}
	}
	// returns
	exp := map[int]bool{}
	switch le.name {
	case "AcquireFast", "TryAcquireOK":
		exp[int(le.args[0])] = true
	case "TryAcquireFail", "CtxDoneRemove", "DoomedCancel":
		exp[int(le.args[0])] = false
	case "Release":
		exp[int(le.args[0])] = true
	case "ReleaseForced", "ForceAcquire", "SetSize":
		exp[0] = true
	}
	for p := range src.St {
		if src.St[p] == "waiting" && (after.St[p] == "ready" || after.St[p] == "holding") {
			exp[p+1] = true
		}
	}
	if len(exp) != len(o.Rets) {
		return fmt.Sprintf("%d calls returned, expected %d", len(o.Rets), len(exp))
	}
	for _, r := range o.Rets {
		if ok, in := exp[r.P]; !in || ok != r.OK {
			return fmt.Sprintf("call of process %d returned ok=%v unexpectedly", r.P, r.OK)
		}
	}
	return ""
}

// builder makes test cases from BFS shortest paths.
type builder struct {
	g      *graph
	parent []int32
	reach  []bool
	depth  []int
	in     [][]int32
	out    [][]int32
	avoid  map[int]bool
}

func newBuilder(g *graph, avoid map[int]bool) *builder {
	b := &builder{g: g, avoid: avoid}
	b.parent, b.reach = g.bfs(avoid)
	b.depth = make([]int, len(g.nodes))
	for v := range g.nodes {
		if b.reach[v] {
			p, _ := g.pathTo(b.parent, int32(v))
			b.depth[v] = len(p)
		}
	}
	b.in = make([][]int32, len(g.nodes))
	b.out = make([][]int32, len(g.nodes))
	for i, e := range g.edges {
		b.in[e.to] = append(b.in[e.to], int32(i))
		b.out[e.from] = append(b.out[e.from], int32(i))
	}
	return b
}

func (b *builder) step(from int32, label string) (int32, bool) {
	for _, ei := range b.out[from] {
		if b.g.edges[ei].label == label {
			return b.g.edges[ei].to, true
		}
	}
	return 0, false
}

// altOrderOK: in a staged race the cancelled waiter p may get s.mu before the admitting
// call; that execution is the model path CtxDoneRemove(p); op. It is accepted (and the
// case repeated) only if the observed state is the specified state of that path.
func (b *builder) altOrderOK(t tcase, o obsT) bool {
	le := b.g.edges[t.last]
	y1, ok := b.step(le.from, fmt.Sprintf("CtxDoneRemove(%d)", t.HookCancel))
	if !ok {
		return false
	}
	z1, ok := b.step(y1, le.label)
	if !ok {
		return false
	}
	return projEq(canon(b.g.nodes[z1]), o.proj)
}

// make builds the case of edge ei. ok=false with implied=true: a CtxDoneAlreadyReady(p)
// transition out of a state in which p was admitted some steps earlier; it commutes with
// the steps of the other processes taken since and is represented by the staged race on
// the admitting transition.
func (b *builder) make(ei int) (t tcase, ok bool, implied bool) {
	g := b.g
	e := g.edges[ei]
	t = tcase{edge: ei, last: ei}
	from := e.from
	switch e.name {
	case "AcquireWake":
		return t, false, true
	case "CtxDoneAlreadyReady":
		// exercised on an edge that admits p: the driver cancels p from inside the hook
		p := int(e.args[0])
		best := -1
		for _, ai := range b.in[e.from] {
			a := g.edges[ai]
			if a.from == a.to || b.avoid[int(ai)] || !b.reach[a.from] {
				continue
			}
			if g.nodes[a.from].St[p-1] == "waiting" && g.nodes[a.to].St[p-1] == "ready" {
				if best < 0 || b.depth[a.from] < b.depth[g.edges[best].from] {
					best = int(ai)
				}
			}
		}
		if best < 0 {
			direct := false
			for _, ai := range b.in[e.from] {
				a := g.edges[ai]
				if a.from != a.to && g.nodes[a.from].St[p-1] == "waiting" && g.nodes[a.to].St[p-1] == "ready" {
					direct = true
				}
			}
			return t, false, !direct
		}
		t.last = best
		t.HookCancel = p
		from = g.edges[best].from
	}
	if !b.reach[from] {
		return t, false, false
	}
	path, start := g.pathTo(b.parent, from)
	t.pre = path
	t.Size = g.nodes[start].Size
	for _, pe := range path {
		t.Ops = append(t.Ops, g.edges[pe].label)
	}
	if t.last != ei {
		t.pre = append(append([]int32{}, path...), int32(t.last))
	}
	t.Ops = append(t.Ops, g.edges[t.last].label)
	return t, true, false
}

// runCases executes the cases on nproc driver processes. obs[i] is nil for cases that were
// not executed (a driver gives up after a few stuck cases).
func runCases(drv string, np int, cases []tcase, nproc, batch int) ([]*obsT, error) {
	obs := make([]*obsT, len(cases))
	type rng struct{ a, b int }
	work := make(chan rng, len(cases)/batch+2)
	for a := 0; a < len(cases); a += batch {
		b := a + batch
		if b > len(cases) {
			b = len(cases)
		}
		work <- rng{a, b}
	}
	close(work)
	var wg sync.WaitGroup
	var mu sync.Mutex
	var firstErr error
	stuck := 0
	for w := 0; w < nproc; w++ {
		wg.Add(1)
		go func() {
			defer wg.Done()
			p, err := core.StartProc(drv, nil)
			if err != nil {
				mu.Lock()
				firstErr = err
				mu.Unlock()
				return
			}
			p.Limit = 10 * time.Minute
			defer p.Close()
			for r := range work {
				mu.Lock()
				stop := firstErr != nil || stuck >= 3
				mu.Unlock()
				if stop {
					continue
				}
				wire := make([]map[string]any, 0, r.b-r.a)
				for _, t := range cases[r.a:r.b] {
					wire = append(wire, t.wire())
				}
				var resp struct {
					Obs   []obsT `json:"obs"`
					Panic string `json:"panic"`
				}
				if err := p.Call(map[string]any{"op": "replay", "np": np, "cases": wire, "watchdog_ms": 20000}, &resp); err != nil || resp.Panic != "" {
					mu.Lock()
					if firstErr == nil {
						firstErr = fmt.Errorf("replay driver: %v %s", err, resp.Panic)
					}
					mu.Unlock()
					continue
				}
				mu.Lock()
				for i := range resp.Obs {
					o := resp.Obs[i]
					obs[r.a+i] = &o
					if strings.HasPrefix(o.Err, "STUCK") {
						stuck++
					}
				}
				mu.Unlock()
			}
		}()
	}
	wg.Wait()
	return obs, firstErr
}

type graphStats struct {
	Config            string         `json:"config"`
	States            int            `json:"states"`
	Transitions       int            `json:"transitions"`
	Depth             int            `json:"depth"`
	ByAction          map[string]int `json:"transitions_by_action"`
	Replayed          int            `json:"transitions_replayed"`
	WakeEdges         int            `json:"wake_transitions_covered_by_admitting_edges"`
	CtxReadySeen      int            `json:"ctx_ready_staged_and_observed"`
	CtxReadyImplied   int            `json:"ctx_ready_transitions_implied_by_commutation"`
	CtxReadyRuns      int            `json:"ctx_ready_attempts"`
	Untestable        int            `json:"transitions_not_replayable"`
	AdmittingReplayed int            `json:"replayed_transitions_that_wake_a_queued_waiter"`
	ImplOutcomes      map[string]int `json:"impl_outcomes"`
	Mismatches        int            `json:"mismatching_transitions"`
	TLCWall           float64        `json:"tlc_wall_s"`
	ReplayWall        float64        `json:"replay_wall_s"`
}

func weightClass(g *graph, t tcase) string {
	le := g.edges[t.last]
	for _, w := range g.nodes[le.from].Q {
		if w[1] == 0 {
			return "zero-weight-waiter"
		}
	}
	if len(le.args) > 0 && le.args[len(le.args)-1] == 0 && le.name != "SetSize" {
		return "zero-weight-arg"
	}
	return "weights>=1"
}

var requiredActions = []string{"AcquireFast", "AcquireDoomed", "AcquireEnqueue", "TryAcquireOK", "TryAcquireFail",
	"CtxDoneRemove", "CtxDoneAlreadyReady", "AcquireWake", "DoomedCancel", "Release", "ForceAcquire", "ReleaseForced", "SetSize"}

// replayGraph: TLC explores the bounded model and dumps the labelled state graph; every
// transition is replayed on the real semaphore.
type dumped struct {
	res *core.TLCResult
	g   *graph
	err error
}

// dumpGraph: TLC explores the bounded model (checking the invariants and action
// properties on the way) and dumps the labelled state graph.
func dumpGraph(c *core.Ctx, consts map[string]string) dumped {
	res, err := c.MustTLC(core.TLCOpts{Module: "MC_Semaphore", Cfg: "MC_Semaphore.cfg", Consts: consts, Workers: 4,
		DumpDot: true, Timeout: 12 * time.Minute})
	if err != nil {
		return dumped{err: err}
	}
	g, err := parseDot(res.Dot)
	if err != nil {
		return dumped{err: err}
	}
	if len(g.nodes) != res.Distinct {
		return dumped{err: fmt.Errorf("dot graph has %d nodes, TLC reported %d distinct states", len(g.nodes), res.Distinct)}
	}
	return dumped{res: res, g: g}
}

// replayGraph replays every transition of the dumped state graph on the real semaphore.
func replayGraph(c *core.Ctx, drv, name string, d dumped, np, nproc int, sample int) (*graphStats, *graph, error) {
	if d.err != nil {
		return nil, nil, d.err
	}
	res, g := d.res, d.g
	st := &graphStats{Config: name, States: len(g.nodes), Transitions: len(g.edges), Depth: res.Depth,
		ByAction: map[string]int{}, ImplOutcomes: map[string]int{}, TLCWall: res.Wall.Seconds()}
	for _, e := range g.edges {
		st.ByAction[e.name]++
	}
	for _, a := range requiredActions {
		if st.ByAction[a] == 0 {
			return nil, nil, fmt.Errorf("vacuous: action %s has no transition in the %s graph", a, name)
		}
	}
	st.WakeEdges = st.ByAction["AcquireWake"]
	c.Logf("graph %s: %d states, %d transitions, depth %d (TLC %.1fs)", name, len(g.nodes), len(g.edges), res.Depth, res.Wall.Seconds())
	t0 := time.Now()

	// which edges to test
	todo := make([]int, 0, len(g.edges))
	for i, e := range g.edges {
		if e.name != "AcquireWake" {
			todo = append(todo, i)
		}
	}
	if sample > 0 && sample < len(todo) {
		// seeded sample (thorough graphs that are too large to replay completely)
		r := newRand(c.Seed)
		r.Shuffle(len(todo), func(i, j int) { todo[i], todo[j] = todo[j], todo[i] })
		todo = todo[:sample]
		sort.Ints(todo)
	}

	mism := map[int]string{}  // edge -> mismatch text (own case, last run)
	obsOf := map[int]obsT{}   // edge -> observation of the mismatching run
	caseOf := map[int]tcase{} // edge -> its last case
	primary := map[int]bool{} // mismatching edges whose prefix is clean
	avoid := map[int]bool{}
	done := map[int]bool{}
	for round := 0; round < 8 && len(todo) > 0; round++ {
		b := newBuilder(g, avoid)
		var cases []tcase
		for _, ei := range todo {
			if t, ok, implied := b.make(ei); ok {
				cases = append(cases, t)
			} else if implied {
				st.CtxReadyImplied++
			} else {
				st.Untestable++
			}
		}
		// CtxDoneAlreadyReady cases are repeated until the racing cancellation wins
		pending := cases
		for attempt := 0; attempt < 60 && len(pending) > 0; attempt++ {
			obs, err := runCases(drv, np, pending, nproc, 400)
			if err != nil {
				return st, g, err
			}
			var again []tcase
			for i, t := range pending {
				if obs[i] == nil {
					continue // driver gave up after stuck cases; reported below through the stuck ones
				}
				o := *obs[i]
				caseOf[t.edge] = t
				if t.HookCancel > 0 {
					st.CtxReadyRuns++
					if o.Err == "" && o.Raced == "remove" && b.altOrderOK(t, o) {
						// the cancelled waiter got s.mu before the admitting call: that execution
						// is CtxDoneRemove(p) followed by the operation, not the transition under test
						again = append(again, t)
						continue
					}
				}
				if m := checkCase(g, t, o); m != "" {
					mism[t.edge] = m
					obsOf[t.edge] = o
					continue
				}
				delete(mism, t.edge)
				if t.HookCancel > 0 {
					if o.Raced != "ready" {
						mism[t.edge] = "staged race produced neither ctx_ready nor ctx_remove"
						obsOf[t.edge] = o
						continue
					}
					st.CtxReadySeen++
				}
				if !done[t.edge] {
					done[t.edge] = true
					st.Replayed++
					st.ImplOutcomes[g.edges[t.edge].name]++
					le := g.edges[t.last]
					for p, s0 := range g.nodes[le.from].St {
						if s0 == "waiting" && g.nodes[le.to].St[p] == "ready" && t.HookCancel == 0 {
							st.AdmittingReplayed++
							break
						}
					}
				}
			}
			pending = again
		}
		for _, t := range pending {
			mism[t.edge] = "in 60 staged races the cancelled waiter always removed itself before the admitting call ran"
			caseOf[t.edge] = t
		}
		// primary mismatches: own case mismatches and no edge of its prefix does
		var shadowed []int
		for ei := range mism {
			clean := true
			for _, pe := range caseOf[ei].pre {
				if _, bad := mism[int(pe)]; bad && int(pe) != ei {
					clean = false
				}
			}
			if clean {
				primary[ei] = true
				avoid[ei] = true
			} else {
				shadowed = append(shadowed, ei)
			}
		}
		// primaries stay recorded; the shadowed cases are re-routed around them
		sort.Ints(shadowed)
		todo = shadowed
		for _, ei := range shadowed {
			delete(mism, ei)
		}
		if len(primary) > 40 {
			break
		}
	}
	st.ReplayWall = time.Since(t0).Seconds()
	st.Mismatches = len(primary)

	// reproduce each primary mismatch in a fresh driver process, then report
	var prim []int
	for ei := range primary {
		prim = append(prim, ei)
	}
	sort.Slice(prim, func(i, j int) bool {
		a, b := caseOf[prim[i]], caseOf[prim[j]]
		if len(a.Ops) != len(b.Ops) {
			return len(a.Ops) < len(b.Ops)
		}
		return prim[i] < prim[j]
	})
	reported := map[string]bool{}
	for _, ei := range prim {
		t := caseOf[ei]
		key := fmt.Sprintf("replay/%s/%s", g.edges[t.last].name, weightClass(g, t))
		if g.edges[ei].name == "CtxDoneAlreadyReady" {
			key = fmt.Sprintf("replay/CtxDoneAlreadyReady-on-%s/%s", g.edges[t.last].name, weightClass(g, t))
		}
		if reported[key] {
			continue
		}
		var again []*obsT
		m2 := ""
		bb := newBuilder(g, nil)
		for try := 0; try < 60; try++ {
			var err error
			again, err = runCases(drv, np, []tcase{t}, 1, 1)
			if err != nil {
				return st, g, err
			}
			if again[0] == nil {
				return st, g, fmt.Errorf("reproduction run of %v did not execute", t.Ops)
			}
			if t.HookCancel > 0 && again[0].Err == "" && again[0].Raced == "remove" && bb.altOrderOK(t, *again[0]) {
				m2 = "in 60 staged races the cancelled waiter always removed itself before the admitting call ran"
				continue
			}
			m2 = checkCase(g, t, *again[0])
			break
		}
		if m2 == "" {
			return st, g, fmt.Errorf("mismatch on %v (%s) was not reproduced in a fresh driver process", t.Ops, mism[ei])
		}
		reported[key] = true
		exp := canon(g.nodes[g.edges[t.edge].to])
		eb, _ := json.Marshal(exp)
		ob, _ := json.Marshal(again[0].proj)
		c.Violate(key, fmt.Sprintf("real semaphore disagrees with spec Semaphore on transition %s (graph %s): %s; NewWeighted(%d) then %s; specified %s, observed %s (hook events %s)",
			g.edges[t.edge].label, name, m2, t.Size, strings.Join(t.Ops, "; "), eb, ob, evsText(again[0].Evs)),
			map[string]any{"kind": "replay", "np": np, "size": t.Size, "ops": t.Ops, "hook_cancel": t.HookCancel,
				"expected": exp, "observed": again[0], "transition": g.edges[t.edge].label, "graph": name})
	}
	return st, g, nil
}

func evsText(evs []hookEv) string {
	b, _ := json.Marshal(evs)
	return string(b)
}

// selfTestReplay: a driver that does not perform the last operation must be caught by
// the comparison for every state-changing transition.
func selfTestReplay(c *core.Ctx, drv string, g *graph, np int) error {
	b := newBuilder(g, nil)
	var cases []tcase
	for i, e := range g.edges {
		if e.from == e.to || e.name == "AcquireWake" || e.name == "CtxDoneAlreadyReady" {
			continue
		}
		if projEq(canon(g.nodes[e.from]), canon(g.nodes[e.to])) {
			continue
		}
		if t, ok, _ := b.make(i); ok && len(cases) < 200 && i%7 == 0 {
			t.Ops = t.Ops[:len(t.Ops)-1] // the shim: drop the operation under test
			cases = append(cases, t)
		}
	}
	if len(cases) == 0 {
		return fmt.Errorf("self-test: no case")
	}
	obs, err := runCases(drv, np, cases, 1, 400)
	if err != nil {
		return err
	}
	for i, t := range cases {
		if obs[i] == nil || checkCase(g, t, *obs[i]) == "" {
			return fmt.Errorf("binding self-test failed: dropping the operation %s went unnoticed", g.edges[t.edge].label)
		}
	}
	c.Set("selftest_dropped_operation_detected", len(cases))
	return nil
}

func driverPaths(c *core.Ctx) (plain, race string, err error) {
	ov := map[string]string{
		"internal/verifx/semaphore/main.go":           core.DriverSrc("semaphore/main.go"),
		"internal/verifx/semaphore/seq.go":            core.DriverSrc("semaphore/seq.go"),
		"internal/vkgo/pkg/semaphore/verif_export.go": core.DriverSrc("semaphore/verif_export.go"),
	}
	plain = filepath.Join(c.Scratch, "semdrv")
	race = filepath.Join(c.Scratch, "semdrv-race")
	var wg sync.WaitGroup
	var e1, e2 error
	wg.Add(2)
	go func() { defer wg.Done(); e1 = c.BuildInRepo("internal/verifx/semaphore", ov, plain, false, false) }()
	go func() { defer wg.Done(); e2 = c.BuildInRepo("internal/verifx/semaphore", ov, race, true, false) }()
	wg.Wait()
	if e1 != nil {
		return "", "", e1
	}
	return plain, race, e2
}
