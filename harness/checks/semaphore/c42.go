// Package semaphore: C42 (weighted semaphore never over-admits and never loses wake-ups).
//
// Spec: spec/Semaphore.tla. TLC checks the invariants (Accounting, HeadBlocked, ...),
// the action properties (NoOverAdmit, FIFO) and, under the specification with fairness,
// the liveness properties. Binding to internal/vkgo/pkg/semaphore:
//
//	(a) edge replay: every transition of the model's labelled state graph is replayed
//	    on a real semaphore (model processes = real goroutines) and the projected state,
//	    the hook event and the results of the calls are compared with the target node;
//	(b) trace validation: concurrent random mixes under the race detector are recorded
//	    by the `verif` hook (one event per critical section, emitted while s.mu is held)
//	    and validated by TLC against spec/TraceSemaphore.tla.
package semaphore

import (
	"bytes"
	"encoding/json"
	"fmt"
	"math/rand"
	"os"
	"path/filepath"
	"regexp"
	"sort"
	"strings"
	"sync"
	"time"

	"verif/core"
)

func init() {
	core.Register("C42", "model_checking", runC42)
}

func newRand(seed int64) *rand.Rand { return rand.New(rand.NewSource(seed)) }

type modelCfg struct {
	name    string
	np      int
	weights string
	sizes   string
	forced  int
}

func (m modelCfg) consts() map[string]string {
	return map[string]string{"NP": fmt.Sprint(m.np), "WEIGHTS": m.weights, "SIZES": m.sizes, "MAXFORCED": fmt.Sprint(m.forced)}
}

func (m modelCfg) String() string {
	return fmt.Sprintf("%s: NP=%d Weights=%s Sizes=%s MaxForced=%d", m.name, m.np, m.weights, m.sizes, m.forced)
}

var (
	cfgFull   = modelCfg{"full", 3, "{1, 2, 3}", "{0, 1, 2, 3}", 3}
	cfgSmall  = modelCfg{"small", 3, "{1, 2}", "{0, 1, 2}", 2}
	cfgZero2  = modelCfg{"zero-weight-2p", 2, "{0, 1, 2}", "{0, 1, 2}", 2}
	cfgZero3  = modelCfg{"zero-weight-3p", 3, "{0, 1, 2}", "{0, 1, 2}", 2}
	cfgZeroMC = modelCfg{"zero-weight-full", 3, "{0, 1, 2, 3}", "{0, 1, 2, 3}", 3}
)

type tlcRun struct {
	What     string  `json:"what"`
	Config   string  `json:"config"`
	Distinct int     `json:"distinct_states"`
	Gen      int     `json:"states_generated"`
	Depth    int     `json:"depth"`
	Wall     float64 `json:"wall_s"`
}

func runC42(c *core.Ctx) error {
	if c.Replay != "" {
		return replayFile(c)
	}
	plain, race, err := driverPaths(c)
	if err != nil {
		return err
	}
	c.Logf("drivers built")

	var mu sync.Mutex
	var runs []tlcRun
	addRun := func(what string, m modelCfg, r *core.TLCResult) {
		mu.Lock()
		defer mu.Unlock()
		runs = append(runs, tlcRun{what, m.String(), r.Distinct, r.Generated, r.Depth, r.Wall.Seconds()})
	}
	var wg sync.WaitGroup
	errs := make(chan error, 16)

	// 1. TLC on the model alone: safety on the full configuration, liveness under fairness
	safetyCfgs := []modelCfg{cfgFull}
	liveCfgs := []modelCfg{cfgSmall}
	if c.Thorough() {
		safetyCfgs = []modelCfg{cfgFull, cfgZeroMC}
		liveCfgs = []modelCfg{cfgFull, cfgZero3}
	}
	wg.Add(1)
	go func() {
		defer wg.Done()
		for _, m := range safetyCfgs {
			r, err := c.MustTLC(core.TLCOpts{Module: "MC_Semaphore", Cfg: "MC_Semaphore.cfg", Consts: m.consts(), Workers: 4, Timeout: 10 * time.Minute})
			if err != nil {
				errs <- fmt.Errorf("safety %s: %v", m.name, err)
				return
			}
			addRun("safety: TypeOK QueueConsistent Accounting HeadBlocked DoomedNotQueued, [][NoOverAdmit], [][FIFO]", m, r)
			c.Add("states", r.Distinct)
			c.Add("transitions", r.Generated)
			c.Logf("TLC safety %s: %d distinct states, %d generated, depth %d, %.1fs", m.name, r.Distinct, r.Generated, r.Depth, r.Wall.Seconds())
		}
		for _, m := range liveCfgs {
			r, err := c.MustTLC(core.TLCOpts{Module: "MC_Semaphore", Cfg: "MC_SemaphoreLive.cfg", Consts: m.consts(), Workers: 4, Timeout: 12 * time.Minute})
			if err != nil {
				errs <- fmt.Errorf("liveness %s: %v", m.name, err)
				return
			}
			addRun("liveness under Spec with fairness (no constraint): HeadEventuallyAdmitted ReadyEventuallyHolds HeadNotStarved", m, r)
			c.Add("states", r.Distinct)
			c.Add("transitions", r.Generated)
			c.Logf("TLC liveness %s: %d distinct states, %.1fs", m.name, r.Distinct, r.Wall.Seconds())
		}
	}()

	// 2. concurrent mixes under the race detector + trace validation
	wg.Add(1)
	go func() {
		defer wg.Done()
		if err := mixAndValidate(c, race); err != nil {
			errs <- err
		}
	}()

	// 3. edge replay
	type gjob struct {
		m      modelCfg
		sample int
	}
	jobs := []gjob{{cfgSmall, 0}, {cfgZero2, 0}}
	nproc := 4
	if c.Thorough() {
		jobs = []gjob{{cfgFull, 0}, {cfgZero3, 0}}
		nproc = 6
	}
	dumps := make([]chan dumped, len(jobs))
	for i, j := range jobs {
		dumps[i] = make(chan dumped, 1)
		go func(ch chan dumped, m modelCfg) { ch <- dumpGraph(c, m.consts()) }(dumps[i], j.m)
	}
	var gstats []*graphStats
	for i, j := range jobs {
		st, g, err := replayGraph(c, plain, j.m.String(), <-dumps[i], j.m.np, nproc, j.sample)
		if st != nil {
			gstats = append(gstats, st)
			c.Add("states", st.States)
			c.Add("transitions", st.Transitions)
			c.Add("evaluations", st.Replayed)
			c.Logf("replay %s: %d of %d transitions replayed (+%d wake, +%d ctx_ready implied by commutation), %d ctx_ready staged, %d mismatching, %.1fs",
				j.m.name, st.Replayed, st.Transitions, st.WakeEdges, st.CtxReadyImplied, st.CtxReadySeen, st.Mismatches, st.ReplayWall)
		}
		if err != nil {
			errs <- fmt.Errorf("edge replay %s: %v", j.m.name, err)
			break
		}
		if st.Mismatches == 0 && st.Replayed+st.WakeEdges+st.CtxReadyImplied+st.Untestable != st.Transitions && j.sample == 0 {
			errs <- fmt.Errorf("edge replay %s: %d replayed + %d wake + %d implied + %d untestable != %d transitions", j.m.name, st.Replayed, st.WakeEdges, st.CtxReadyImplied, st.Untestable, st.Transitions)
		}
		if st.Untestable > 0 && st.Mismatches == 0 {
			errs <- fmt.Errorf("edge replay %s: %d transitions could not be replayed", j.m.name, st.Untestable)
		}
		if i == len(jobs)-1 && g != nil {
			// binding self-test on the smaller graph: a driver that skips the operation under test
			if err := selfTestReplay(c, plain, g, j.m.np); err != nil {
				errs <- err
			}
		}
	}
	wg.Wait()
	close(errs)
	c.Set("edge_replay", gstats)
	sort.Slice(runs, func(i, j int) bool { return runs[i].What+runs[i].Config < runs[j].What+runs[j].Config })
	c.Set("tlc_model_runs", runs)
	distinct := 0
	for _, g := range gstats {
		distinct += g.Replayed
	}
	c.Set("distinct_nontrivial", distinct)
	acc, rej := 0, 0
	for _, g := range gstats {
		acc += g.ImplOutcomes["AcquireFast"] + g.ImplOutcomes["TryAcquireOK"] + g.ImplOutcomes["CtxDoneAlreadyReady"] + g.AdmittingReplayed
		rej += g.ImplOutcomes["TryAcquireFail"] + g.ImplOutcomes["CtxDoneRemove"] + g.ImplOutcomes["DoomedCancel"]
	}
	c.Set("impl_accepted", acc) // replayed calls the implementation granted (fast path, TryAcquire true, wake-ups of queued waiters)
	c.Set("impl_rejected", rej) // replayed calls it refused or that ended with ctx.Err()
	if len(gstats) == len(jobs) && c.NViolations() == 0 && (acc == 0 || rej == 0) {
		errs2 := fmt.Errorf("vacuous: accepted=%d rejected=%d", acc, rej)
		c.Logf("%v", errs2)
	}
	c.Set("rule", "model alone: TLC exhaustive on bounded Semaphore (invariants, action properties, liveness under fairness); conformance: every transition of the dumped state graph replayed on the real semaphore with goroutines as processes (state, hook event, call results compared with the target node) + concurrent mixes under -race validated by TLC against TraceSemaphore (hook events emitted under s.mu)")
	c.Assume("model bounds: 3 processes, weights <= 3, sizes <= 3, outstanding forced weight <= 3; one Acquire/TryAcquire in flight per process; processes release only what they hold (Release panic path not modelled)")
	c.Assume("AcquireWake transitions (the goroutine notices its closed channel) have no observable counterpart of their own: the replay waits for the return of every admitted goroutine on the admitting transition")
	c.Assume("concurrent mixes use weights >= 1; weight 0 is covered by the sequential edge replay of the zero-weight graphs")
	c.Assume("WaitEmpty and Observe are outside the property's operation list and are not driven concurrently (WaitEmpty reads s.size without s.mu)")
	var first error
	for e := range errs {
		if first == nil {
			first = e
		} else {
			c.Logf("further error: %v", e)
		}
	}
	return first
}

// ---------------------------------------------------------------------------
// concurrent mixes and trace validation

type mixResp struct {
	Events int            `json:"events"`
	Counts map[string]int `json:"counts"`
	Traces int            `json:"traces"`
	Procs  int            `json:"gomaxprocs"`
	Panic  string         `json:"panic"`
}

var requiredTraceEvents = []string{"acq_fast", "acq_doomed", "acq_enqueue", "ctx_remove", "ctx_remove+admit", "ctx_ready",
	"try", "try_fail", "release", "release+admit", "release_forced", "force", "setsize", "setsize+admit", "ret"}

var reRace = regexp.MustCompile(`(?s)WARNING: DATA RACE.*?={18}`)

func runMix(c *core.Ctx, drv string, seed int64, traces, ops int, out string) (*mixResp, string, error) {
	p, err := core.StartProc(drv, append(os.Environ(), "GORACE=halt_on_error=0 exitcode=0"))
	if err != nil {
		return nil, "", err
	}
	p.Limit = 8 * time.Minute
	var resp mixResp
	err = p.Call(map[string]any{"op": "mix", "np": 3, "traces": traces, "ops": ops, "seed": seed,
		"weights": []int{1, 2, 3}, "sizes": []int{0, 1, 2, 3}, "max_forced": 3, "out": out}, &resp)
	p.Close()
	stderr := p.Stderr()
	if err != nil {
		return nil, stderr, fmt.Errorf("mix driver: %v", err)
	}
	return &resp, stderr, nil
}

func mixAndValidate(c *core.Ctx, drv string) error {
	traces := c.Pick(90, 1500)
	ops := 60
	out := filepath.Join(c.Scratch, "sem-mix.ndjson")
	t0 := time.Now()
	resp, stderr, err := runMix(c, drv, c.Seed, traces, ops, out)
	if err != nil {
		return err
	}
	c.Logf("mix: %d traces, %d events, GOMAXPROCS=%d, %.1fs", resp.Traces, resp.Events, resp.Procs, time.Since(t0).Seconds())
	if m := reRace.FindString(stderr); m != "" || strings.Contains(stderr, "DATA RACE") {
		if m == "" {
			m = stderr
		}
		if !strings.Contains(m, "pkg/semaphore") {
			return fmt.Errorf("race detector report that does not involve the semaphore package (harness bug?):\n%s", m)
		}
		// run once more in a fresh process; a report of the detector is a fact either way
		_, stderr2, _ := runMix(c, drv, c.Seed+1000, traces, ops, filepath.Join(c.Scratch, "sem-mix2.ndjson"))
		again := strings.Contains(stderr2, "DATA RACE")
		c.Violate("race/"+raceKey(m), fmt.Sprintf("the race detector reports a data race in the semaphore under a concurrent mix (seen again in a second process: %v): %s", again, m),
			map[string]any{"kind": "race", "seed": c.Seed, "traces": traces, "ops": ops, "report": m})
	}
	if resp.Panic != "" {
		c.Violate("mix/panic", "a semaphore call panicked in a concurrent mix of well-behaved callers: "+resp.Panic, map[string]any{"kind": "mix", "seed": c.Seed, "traces": traces, "ops": ops})
		return nil
	}
	c.Set("trace_event_counts", resp.Counts)
	tb, err := os.ReadFile(out)
	if err != nil {
		return err
	}
	lines := bytes.Split(bytes.TrimSpace(tb), []byte("\n"))
	// split into chunks at reset boundaries
	var chunks [][][]byte
	var cur [][]byte
	for _, l := range lines {
		if bytes.HasPrefix(l, []byte(`{"ev":"reset"`)) && len(cur) >= 30000 {
			chunks = append(chunks, cur)
			cur = nil
		}
		cur = append(cur, l)
	}
	if len(cur) > 0 {
		chunks = append(chunks, cur)
	}
	sem := make(chan struct{}, 4)
	var wg sync.WaitGroup
	var mu sync.Mutex
	var firstErr error
	for ci, ch := range chunks {
		wg.Add(1)
		go func(ci int, ch [][]byte) {
			defer wg.Done()
			sem <- struct{}{}
			defer func() { <-sem }()
			if err := validateChunk(c, ch, true); err != nil {
				mu.Lock()
				if firstErr == nil {
					firstErr = err
				}
				mu.Unlock()
			}
		}(ci, ch)
	}
	wg.Wait()
	if firstErr != nil {
		return firstErr
	}
	if c.NViolations() > 0 {
		return nil
	}
	for _, k := range requiredTraceEvents {
		if resp.Counts[k] == 0 {
			return fmt.Errorf("vacuous: the concurrent mixes never produced a %q event (counts %v)", k, resp.Counts)
		}
	}
	c.Sample(map[string]any{"trace_events": rawLines(lines, 40, 52)})

	// binding self-test: corrupted traces must be rejected
	first := chunks[0]
	if len(first) > 4000 {
		first = first[:4000]
		for !bytes.HasPrefix(first[len(first)-1], []byte(`{"ev":"ret"`)) && len(first) > 10 {
			first = first[:len(first)-1]
		}
	}
	modes := []string{"cur+1", "drop", "waiters+1"}
	serrs := make([]error, len(modes))
	var swg sync.WaitGroup
	for i, mode := range modes {
		swg.Add(1)
		go func(i int, mode string) {
			defer swg.Done()
			bad, what := corrupt(first, mode)
			if bad == nil {
				serrs[i] = fmt.Errorf("self-test: no event to corrupt (%s)", mode)
				return
			}
			r, _, err := traceTLC(c, bad, "HeadBlocked", false)
			if err != nil {
				serrs[i] = err
			} else if r.OK {
				serrs[i] = fmt.Errorf("binding self-test failed: corrupted trace (%s) was accepted", what)
			}
		}(i, mode)
	}
	swg.Wait()
	for _, e := range serrs {
		if e != nil {
			return e
		}
	}
	n := len(modes)
	c.Set("selftest_corrupted_traces_rejected", n)
	return nil
}

func rawLines(lines [][]byte, a, b int) []json.RawMessage {
	var r []json.RawMessage
	for i := a; i < b && i < len(lines); i++ {
		r = append(r, json.RawMessage(lines[i]))
	}
	return r
}

func raceKey(report string) string {
	// first semaphore frame of the report
	for _, l := range strings.Split(report, "\n") {
		l = strings.TrimSpace(l)
		if strings.Contains(l, "semaphore.(*Weighted).") {
			if i := strings.Index(l, "(*Weighted)."); i >= 0 {
				l = l[i+len("(*Weighted)."):]
			}
			if i := strings.IndexAny(l, "( "); i > 0 {
				l = l[:i]
			}
			return l
		}
	}
	return "unknown"
}

// corrupt damages one event of a trace.
func corrupt(lines [][]byte, mode string) ([][]byte, string) {
	out := make([][]byte, 0, len(lines))
	start := len(lines) / 2
	for i := start; i < len(lines); i++ {
		var e map[string]any
		if json.Unmarshal(lines[i], &e) != nil {
			continue
		}
		switch mode {
		case "cur+1":
			if e["ev"] != "release" {
				continue
			}
			e["cur"] = e["cur"].(float64) + 1
		case "waiters+1":
			if e["ev"] != "acq_fast" {
				continue
			}
			e["w"] = e["w"].(float64) + 1
		case "drop":
			if e["ev"] != "acq_enqueue" {
				continue
			}
			out = append(out, lines[:i]...)
			out = append(out, lines[i+1:]...)
			return out, fmt.Sprintf("event %d (acq_enqueue) dropped", i+1)
		}
		b, _ := json.Marshal(e)
		out = append(out, lines[:i]...)
		out = append(out, b)
		out = append(out, lines[i+1:]...)
		return out, fmt.Sprintf("event %d field %s", i+1, mode)
	}
	return nil, ""
}

func traceTLC(c *core.Ctx, lines [][]byte, extraInv string, emitStates bool) (*core.TLCResult, int, error) {
	data := append(bytes.Join(lines, []byte("\n")), '\n')
	inv := extraInv
	if emitStates {
		inv += " EmitState"
	}
	r, err := c.TLC(core.TLCOpts{Module: "TraceSemaphore", Cfg: "TraceSemaphore.cfg", Workers: 1,
		Consts: map[string]string{"NP": "3", "EXTRAINV": inv}, Files: map[string][]byte{"sem-trace.ndjson": data}, Timeout: 10 * time.Minute})
	if err != nil {
		return r, 0, err
	}
	consumed := -1
	for _, e := range r.Emits {
		var x struct {
			Consumed *int `json:"consumed"`
		}
		if json.Unmarshal(e, &x) == nil && x.Consumed != nil {
			consumed = *x.Consumed
		}
	}
	return r, consumed, nil
}

var reInvName = regexp.MustCompile(`(?:Invariant|Action property) (\w+) is violated`)

// validateChunk validates a concatenation of recorded traces; a rejection is localised,
// re-validated in isolation (one recording, fresh TLC run) and then reported.
func validateChunk(c *core.Ctx, lines [][]byte, record bool) error {
	r, consumed, err := traceTLC(c, lines, "HeadBlocked", false)
	if err != nil {
		return err
	}
	if r.OK {
		if consumed != len(lines) || r.Distinct != len(lines)+1 {
			return fmt.Errorf("trace validation covered %d/%d events (%d states)", consumed, len(lines), r.Distinct)
		}
		if record {
			n := 0
			for _, l := range lines {
				if bytes.HasPrefix(l, []byte(`{"ev":"reset"`)) {
					n++
				}
			}
			c.Add("traces_validated_against_impl", n)
			c.Add("trace_events_validated", len(lines))
			c.Add("states", r.Distinct)
			c.Add("transitions", r.Generated)
		}
		return nil
	}
	// index (0-based) of the event that could not be matched / led to the bad state
	bad := -1
	switch r.ErrorKind {
	case "postcondition":
		bad = consumed
	case "invariant":
		bad = r.Distinct - 2
	default:
		return fmt.Errorf("TraceSemaphore failed: kind=%s\n%s\n%s", r.ErrorKind, r.ErrorText, r.Tail)
	}
	if bad < 0 || bad >= len(lines) {
		return fmt.Errorf("TraceSemaphore rejected the trace but the event could not be located (kind=%s consumed=%d distinct=%d)\n%s", r.ErrorKind, consumed, r.Distinct, r.Tail)
	}
	// re-validate the recording alone (fresh TLC run); the located event may be off by one
	var seg [][]byte
	var r2 *core.TLCResult
	for _, cand := range []int{bad, bad + 1, bad - 1} {
		if cand < 0 || cand >= len(lines) {
			continue
		}
		a := cand
		for a > 0 && !bytes.HasPrefix(lines[a], []byte(`{"ev":"reset"`)) {
			a--
		}
		s := lines[a : cand+1]
		rr, _, err := traceTLC(c, s, "HeadBlocked", true)
		if err != nil {
			return err
		}
		if !rr.OK {
			seg, r2, bad = s, rr, cand
			break
		}
	}
	if r2 == nil {
		return fmt.Errorf("trace rejected near event %d but its recording alone is accepted (harness bug)", bad+1)
	}
	var specState json.RawMessage
	for _, e := range r2.Emits {
		var x struct {
			L     *int            `json:"l"`
			State json.RawMessage `json:"state"`
		}
		if json.Unmarshal(e, &x) == nil && x.L != nil && *x.L == len(seg) {
			specState = x.State
		}
	}
	var ev map[string]any
	_ = json.Unmarshal(lines[bad], &ev)
	why := "no action of the specification matches the recorded critical section"
	if r.ErrorKind == "invariant" {
		why = "the recorded step violates " + strings.Join(reInvName.FindStringSubmatch(r.ErrorText), " ")
	}
	c.Violate(fmt.Sprintf("trace/%v", ev["ev"]),
		fmt.Sprintf("recorded concurrent execution is not a behaviour of spec Semaphore: %s; event #%d of its recording: %s; specification state before it: %s",
			why, len(seg), lines[bad], specState),
		map[string]any{"kind": "trace", "events": rawLines(seg, 0, len(seg)), "spec_state_before_last": specState})
	return nil
}

// ---------------------------------------------------------------------------
// --replay

func replayFile(c *core.Ctx) error {
	b, err := os.ReadFile(c.Replay)
	if err != nil {
		return err
	}
	var f struct {
		Key    string `json:"key"`
		Replay struct {
			Kind       string            `json:"kind"`
			NP         int               `json:"np"`
			Size       int64             `json:"size"`
			Ops        []string          `json:"ops"`
			HookCancel int               `json:"hook_cancel"`
			Expected   proj              `json:"expected"`
			Events     []json.RawMessage `json:"events"`
		} `json:"replay"`
	}
	if err := json.Unmarshal(b, &f); err != nil {
		return err
	}
	switch f.Replay.Kind {
	case "replay":
		plain, _, err := driverPaths(c)
		if err != nil {
			return err
		}
		t := tcase{Size: f.Replay.Size, Ops: f.Replay.Ops, HookCancel: f.Replay.HookCancel}
		for try := 0; try < 60; try++ {
			obs, err := runCases(plain, f.Replay.NP, []tcase{t}, 1, 1)
			if err != nil {
				return err
			}
			if obs[0] == nil {
				return fmt.Errorf("case not executed")
			}
			if t.HookCancel > 0 && obs[0].Raced == "remove" && obs[0].Err == "" {
				continue
			}
			c.Add("evaluations", 1)
			ob, _ := json.Marshal(obs[0].proj)
			eb, _ := json.Marshal(f.Replay.Expected)
			if obs[0].Err != "" || !projEq(f.Replay.Expected, obs[0].proj) {
				c.Violate(f.Key, fmt.Sprintf("replayed: NewWeighted(%d) then %s; specified %s, observed %s %s", t.Size, strings.Join(t.Ops, "; "), eb, ob, obs[0].Err), f.Replay)
			} else {
				c.Logf("replay matches the specified state %s", eb)
			}
			c.Sample(map[string]any{"ops": t.Ops, "observed": obs[0]})
			return nil
		}
		return fmt.Errorf("staged race never went the intended way")
	case "trace":
		var lines [][]byte
		for _, e := range f.Replay.Events {
			lines = append(lines, []byte(e))
		}
		return validateChunk(c, lines, true)
	}
	return fmt.Errorf("replay file of kind %q cannot be re-run (race reports are re-observed by running the check)", f.Replay.Kind)
}
