package linter

import (
	"fmt"
	"strings"
	"time"

	"verif/core"
)

var docUnsafeKinds = []string{"RemoveConstructor", "RemoveFunction", "RemoveField", "RemoveTemplateArg", "ChangeFieldType",
	"ChangeMaskRef", "ChangeMaskBit", "AddMaskToField", "RemoveMaskFromField", "AppendUnmaskedField", "ReuseUsedBit", "BareToUnion"}

// rejectedBy tells how the tool chain rejected the pair: "" (accepted), "linter", or "generator"
// (the CLI validates the new schema with GenerateCode before the linter runs).
func rejectedBy(r *lintResp) string {
	if !r.Accepted {
		return "linter"
	}
	if r.GenErrNew != "" {
		return "generator"
	}
	return ""
}

// C30: one documented unsafe edit at every applicable position of every base is rejected.
func runC30(c *core.Ctx) error {
	l, err := buildLinter(c)
	if err != nil {
		return err
	}
	defer l.Close()
	bases, err := chooseBases(c, l, 12, c.Pick(2, 40), c.Pick(200, 500))
	if err != nil {
		return err
	}
	byAction := map[string]int{}
	byKind := map[string]int{}
	breaking := map[string]int{}
	benign := map[string]int{}
	var evs []traceEvent
	var flagged []bool
	accepted, rejected := 0, 0
	byWho := map[string]int{}
	var unclassified []string
	res, err := runMC(c, bases, mcOpts{Mode: "unsafe", MaxEdits: 1, EvalWC: true, Strict: false, Workers: c.Pick(6, 12),
		Timeout: time.Duration(c.Pick(4, 14)) * time.Minute}, func(m mcCase) error {
		if len(m.Log) == 0 {
			return nil
		}
		old := bases[m.B-1].S
		e := m.Log[0]
		byAction[e.label()]++
		byKind[e.A]++
		if m.WC == "no" {
			breaking[e.A]++
		} else {
			benign[e.label()]++
			if !e.Benign {
				unclassified = append(unclassified, fmt.Sprintf("%s of %s in %s:\n%s\n--->\n%s", e.label(), e.C, bases[m.B-1].Name, RenderBody(old), RenderBody(m.New)))
			}
		}
		r, err := l.lint(old, m.New)
		if err != nil {
			return err
		}
		c.Add("evaluations", 1)
		if r.GenErrNew != "" && e.A != "BareToUnion" {
			return fmt.Errorf("model produced a schema the generator front end rejects (%s) after %s:\n%s", r.GenErrNew, e.label(), RenderBody(m.New))
		}
		who := rejectedBy(r)
		if r.Panic != "" {
			c.Violate("linter-panics/"+e.label(), "the linter panics on "+e.label()+": "+r.Panic,
				map[string]any{"old": RenderBody(old), "new": RenderBody(m.New), "base": bases[m.B-1].Name, "log": m.Log})
			return nil
		}
		verdict := "reject"
		isViolation := false
		if !r.Accepted {
			rejected++
			byWho["linter"]++
		} else {
			// the linter itself accepted (a generator error on the new schema does not count: C30 is about the linter)
			accepted++
			verdict = "accept"
			byWho["accepted-by-linter/"+who]++
			r2, err := l.fresh(old, m.New)
			if err != nil {
				return err
			}
			if r2.Accepted || r2.Panic != "" {
				isViolation = true
				what := fmt.Sprintf("linter accepts a documented unsafe edit: %s of %q (model: wire compatible = %s)", e.label(), e.C, m.WC)
				if r2.Panic != "" {
					what = "linter panics: " + r2.Panic
				}
				if r2.GenErrNew != "" {
					what += "; the generator front end rejects the new schema: " + r2.GenErrNew
				}
				c.Violate("linter-accepts/"+e.label(), what,
					map[string]any{"old": RenderBody(old), "new": RenderBody(m.New), "base": bases[m.B-1].Name, "log": m.Log, "old_model": old, "new_model": m.New})
			} else {
				return fmt.Errorf("acceptance of %s not reproduced in a fresh process", e.label())
			}
		}
		evs = append(evs, traceEvent{Old: old, New: m.New, Verdict: verdict, Kind: "unsafe-edit"})
		flagged = append(flagged, isViolation)
		if c.Get("evaluations")%211 == 1 {
			c.Sample(map[string]any{"base": bases[m.B-1].Name, "edit": e.label(), "combinator": e.C, "new": RenderBody(m.New), "linter_accepted": r.Accepted,
				"messages": strings.Join(r.Messages[:min(1, len(r.Messages))], ""), "model_wire_compatible": m.WC})
		}
		return nil
	})
	if err != nil {
		return err
	}
	if len(unclassified) > 0 {
		// theorem UnsafeBreaks of MC_SchemaEvolution (evaluated here on the printed verdicts so that all offenders are listed)
		return fmt.Errorf("model error: %d unsafe edits keep wire compatibility in the model but are not classified benign (UnsafeBreaks fails), e.g.\n%s",
			len(unclassified), strings.Join(unclassified[:min(4, len(unclassified))], "\n=====\n"))
	}
	c.Add("states", res.Distinct)
	c.Add("transitions", res.Generated)
	c.Logf("TLC MC_SchemaEvolution(unsafe): %d distinct states in %v; linter rejected=%d accepted=%d", res.Distinct, res.Wall.Round(time.Second), rejected, accepted)
	c.Set("impl_rejected", rejected)
	c.Set("impl_accepted", accepted)
	c.Set("cases_by_action", byAction)
	c.Set("model_breaking_instances_by_kind", breaking)
	c.Set("model_benign_instances", benign)
	c.Set("distinct_nontrivial", res.Distinct)
	for _, k := range docUnsafeKinds {
		if byKind[k] == 0 {
			return fmt.Errorf("vacuous: unsafe action %s has no applicable position in any base", k)
		}
		if breaking[k] == 0 {
			return fmt.Errorf("model error: unsafe action %s never breaks wire compatibility (catalogue entry not justified)", k)
		}
	}
	for _, a := range []string{"ChangeFieldType/name", "ChangeFieldType/boxedness", "ChangeFieldType/nested-name", "ChangeFieldType/natconst", "ChangeFieldType/natref",
		"ChangeFieldType/result-name", "RemoveField/inner", "RemoveField/last", "RemoveConstructor/union-variant", "ReuseUsedBit/local", "ReuseUsedBit/outer-scope",
		"AppendUnmaskedField/constructor-int", "AppendUnmaskedField/function-int", "AppendUnmaskedField/constructor-mask-and-masked-field",
		"AppendUnmaskedField/constructor-mask-and-masked-field-besides-masks", "RemoveTemplateArg/referenced"} {
		if byAction[a] == 0 {
			return fmt.Errorf("vacuous: position class %s was never exercised", a)
		}
	}
	if rejected == 0 {
		return fmt.Errorf("vacuous: the linter rejected nothing")
	}

	// code -> spec: recorded calls validated by TLC (new is old after one documented unsafe edit => reject)
	if len(evs) > c.Pick(100, 1500) {
		// keep every flagged event and a prefix of the others
		var ke []traceEvent
		var kf []bool
		nFlagged := 0
		for _, f := range flagged {
			if f {
				nFlagged++
			}
		}
		for i := range evs {
			if flagged[i] || (i%max(1, len(evs)/c.Pick(100, 1500)) == 0 && len(ke) < c.Pick(100, 1500)+nFlagged) {
				ke = append(ke, evs[i])
				kf = append(kf, flagged[i])
			}
		}
		evs, flagged = ke, kf
	}
	bad, tr, err := validateTrace(c, evs, "UnsafeRejectedAll", c.Pick(6, 12), time.Duration(c.Pick(3, 8))*time.Minute)
	if err != nil {
		return err
	}
	if !tr.OK {
		return fmt.Errorf("TraceSchemaEvolution failed: %s\n%s", tr.ErrorKind, tr.ErrorText)
	}
	if tr.Distinct != len(evs) {
		return fmt.Errorf("trace validation covered %d of %d events", tr.Distinct, len(evs))
	}
	nf := 0
	for i, f := range flagged {
		if f {
			nf++
			found := false
			for _, b := range bad {
				if b == i+1 {
					found = true
				}
			}
			if !found {
				return fmt.Errorf("trace validation did not flag event %d which the replay found accepted", i+1)
			}
		}
	}
	if len(bad) != nf {
		return fmt.Errorf("trace validation flags %d events, the replay %d", len(bad), nf)
	}
	c.Add("traces_validated_against_impl", 1)
	c.Add("trace_events_validated", len(evs))
	c.Add("states", tr.Distinct)

	// binding self-test: flip one recorded verdict
	var flip []traceEvent
	for i := range evs {
		if !flagged[i] {
			e := evs[i]
			e.Verdict = "accept"
			flip = append(flip, e)
			break
		}
	}
	_, tr2, err := validateTrace(c, flip, "UnsafeRejected", 2, 3*time.Minute)
	if err != nil {
		return err
	}
	if tr2.OK || tr2.ErrorKind != "invariant" {
		return fmt.Errorf("binding self-test failed: a trace with a flipped verdict was not rejected (kind=%s)", tr2.ErrorKind)
	}
	c.Set("selftest_flipped_verdict_rejected", true)
	c.Set("rule", "TLC enumerates every single documented unsafe edit at every applicable position of MC_SchemaEvolution over prototype-derived and seeded random bases, proving UnsafeBreaks (not WireCompatible, except instances classified benign) in each state; each (old,new) is rendered to .tl and given to the real CheckBackwardCompatibility, which must reject; recorded calls are validated by TraceSchemaEvolution!UnsafeRejected")
	assumptions(c)
	return nil
}
