package linter

import (
	"fmt"
	"math/rand"
)

// NamedBase is a base schema with its provenance.
type NamedBase struct {
	Name string
	S    Schema
}

// protoBases are fragments of internal/tlcodegen/test/tls/backward_compatibility_samples/
// prototype.tl (and of the evolution examples of the TL primer), transcribed into the
// model's fragment: explicit tags on every combinator, namespaces dropped, Bool -> int.
func protoBases() []NamedBase {
	return []NamedBase{
		// tasks.queueStats {fields_mask:#} + tasks.getQueueSize (mask of the request flows into the answer,
		// request uses one more bit locally: "bit-that-already-used-2-from-outer-scope")
		{"proto/queueStats", Schema{
			ctor("queueStats", "QueueStats", 1, []string{"fields_mask"},
				mfld("waiting_size", tInt(), "fields_mask", 0),
				mfld("scheduled_size", tInt(), "fields_mask", 1)),
			fn("getQueueSize", 2, tRef("QueueStats", false, aR("fields_mask")),
				fld("type_name", tStr()), fld("fields_mask", tNat()),
				mfld("local_dep", tInt(), "fields_mask", 3)),
		}},
		// service3.product {mode:#} with a constant and a variable mode ("new-function-..." sample)
		{"proto/product", Schema{
			ctor("product", "Product", 1, []string{"mode"},
				fld("type", tInt()), fld("id", tVec(tInt(), true)),
				mfld("removed", tInt(), "mode", 0)),
			fn("getScheduledProducts", 2, tVec(tRef("Product", true, aN(0)), false),
				fld("user_id", tInt())),
			fn("getProducts", 3, tVec(tRef("Product", true, aR("mode")), false),
				fld("user_id", tInt()), fld("mode", tNat()), fld("limit", tInt())),
		}},
		// service1.Value (union, used boxed only), integer (used bare), benchObject, myMcValue
		{"proto/value", Schema{
			ctor("valueNotFound", "Value", 1, nil),
			ctor("valueStr", "Value", 2, nil, fld("value", tStr()), fld("flags", tInt())),
			ctor("valueLong", "Value", 3, nil, fld("value", tLong()), fld("flags", tInt())),
			ctor("integer", "Integer", 4, nil, fld("value", tInt())),
			ctor("myMcValue", "MyMcValue", 5, nil, fld("x", tRef("Value", false))),
			ctor("benchObject", "BenchObject", 6, nil,
				fld("xs", tVec(tInt(), true)), fld("ys", tVec(tRef("Integer", true), true))),
			fn("get", 7, tRef("Value", false), fld("key", tStr())),
		}},
		// withFlags {flags1:#} {flags2:#}; service2.objectId {n:#}; service2.setObjectTtl
		{"proto/withFlags", Schema{
			ctor("withFlags", "WithFlags", 1, []string{"flags1", "flags2"},
				mfld("x", tInt(), "flags1", 0), mfld("y", tInt(), "flags2", 1)),
			ctor("objectId", "ObjectId", 2, []string{"n"}, fld("id", tTup(tInt(), aR("n"), true))),
			ctor("holder", "Holder", 3, nil, fld("f", tNat()), fld("g", tNat()),
				fld("w", tRef("WithFlags", true, aR("f"), aR("g")))),
			fn("setObjectTtl", 4, tBoxedInt(), fld("n", tNat()),
				fld("objectId", tRef("ObjectId", true, aR("n"))), fld("ttl", tInt())),
		}},
		// rpcInvokeReqExtra (local mask, several bits), service4.modifiedNewsEntry with a bare object
		{"proto/extra", Schema{
			ctor("object", "Object", 1, nil, fld("type", tInt()), fld("ids", tVec(tInt(), true))),
			ctor("extra", "Extra", 2, nil, fld("fields_mask", tNat()),
				mfld("query", tInt(), "fields_mask", 0),
				mfld("wait_binlog_pos", tLong(), "fields_mask", 2),
				mfld("string_forward_keys", tVec(tStr(), true), "fields_mask", 3)),
			ctor("entry", "Entry", 3, nil, fld("object", tRef("object", true)), fld("creation_date", tInt()),
				fld("fields_mask", tNat()),
				mfld("restoration_date", tInt(), "fields_mask", 0),
				mfld("deletion_date", tInt(), "fields_mask", 1)),
			fn("getEntry", 4, tRef("Entry", false), fld("id", tInt())),
		}},
		// TL primer, "field masks of the answer": user/getUserResult/getUser with a mask under a mask
		{"primer/getUser", Schema{
			ctor("user", "User", 1, []string{"fields_mask"}, fld("id", tInt()), fld("name", tStr()),
				mfld("height", tInt(), "fields_mask", 0)),
			ctor("getUserResult", "GetUserResult", 2, []string{"fields_mask", "user_fields_mask"},
				fld("u", tRef("user", true, aR("user_fields_mask")))),
			fn("getUser", 3, tRef("GetUserResult", false, aR("fields_mask"), aR("user_fields_mask")),
				fld("fields_mask", tNat()),
				mfld("user_fields_mask", tNat(), "fields_mask", 0),
				mfld("result_user_height", tInt(), "user_fields_mask", 0)),
		}},
		// TL primer, "#-parameters": point {F:#} / rectangle {F:#} / picture; the rectangle also uses one bit of F itself
		{"primer/picture", Schema{
			ctor("point", "Point", 1, []string{"F"}, mfld("x", tInt(), "F", 0), mfld("y", tInt(), "F", 1)),
			ctor("rectangle", "Rectangle", 2, []string{"F"}, fld("a", tRef("point", true, aR("F"))),
				fld("b", tRef("point", true, aR("F"))), mfld("color", tInt(), "F", 2)),
			ctor("picture", "Picture", 3, nil, fld("point_fields_mask", tNat()),
				fld("r", tRef("Rectangle", false, aR("point_fields_mask")))),
			fn("getPicture", 4, tRef("Picture", false), fld("id", tInt())),
		}},
		// TL primer: rectangle3D r:(rectangle 7) -- the #-parameter of the outer type is fed by constants only
		{"primer/rectangle3D", Schema{
			ctor("point", "Point", 1, []string{"F"}, mfld("x", tInt(), "F", 0), mfld("y", tInt(), "F", 1)),
			ctor("rectangle", "Rectangle", 2, []string{"F"}, fld("a", tRef("point", true, aR("F"))),
				mfld("color", tInt(), "F", 2)),
			ctor("rectangle3D", "Rectangle3D", 3, nil, fld("r", tRef("rectangle", true, aN(7)))),
			fn("getRectangle", 4, tRef("Rectangle3D", false), fld("id", tInt())),
		}},
		// TL primer: rectangle2D r:(rectangle 3) -- the constant sets bits 0 and 1 only, bit 2 is used by the outer type itself
		{"primer/rectangle2D", Schema{
			ctor("point", "Point", 1, []string{"F"}, mfld("x", tInt(), "F", 0), mfld("y", tInt(), "F", 1)),
			ctor("rectangle", "Rectangle", 2, []string{"F"}, fld("a", tRef("point", true, aR("F"))),
				mfld("color", tInt(), "F", 2)),
			ctor("rectangle2D", "Rectangle2D", 3, nil, fld("r", tRef("rectangle", true, aN(3)))),
		}},
		// service2.counterSet-like constructor with two # template arguments and one with a # argument plus a local
		// field mask; the use sites pass constants: a bit set by the constant of ONE argument is free in the OTHER mask
		{"proto/twoMasks", Schema{
			ctor("counterSet", "CounterSet", 1, []string{"m", "k"}, mfld("x", tInt(), "m", 0), mfld("y", tInt(), "k", 1)),
			ctor("record", "Record", 2, []string{"k"}, fld("f", tNat()), mfld("z", tInt(), "f", 0), mfld("w", tInt(), "k", 0)),
			ctor("deltaSet", "DeltaSet", 3, nil, fld("a", tRef("CounterSet", true, aN(0), aN(4))),
				fld("b", tRef("CounterSet", false, aN(1), aN(2))), fld("r", tRef("Record", true, aN(5)))),
			fn("getDelta", 4, tRef("CounterSet", false, aN(8), aN(2)), fld("id", tInt())),
		}},
		// implicitly tagged combinators of prototype.tl: service4.object (used bare only, here with a mask),
		// service1.Value (union, boxed), integer (bare in benchObject), tasks.taskInfo-like holder, service1.get
		{"proto/implicitTags", Schema{
			ctor("object", "Object", 0, nil, fld("type", tInt()), fld("fields_mask", tNat()),
				mfld("joint_id", tVec(tInt(), true), "fields_mask", 0)).implicit(),
			ctor("valueNotFound", "Value", 0, nil).implicit(),
			ctor("valueStr", "Value", 0, nil, fld("value", tStr()), fld("flags", tInt())).implicit(),
			ctor("integer", "Integer", 0, nil, fld("value", tInt())).implicit(),
			ctor("entry", "Entry", 1, nil, fld("object", tRef("Object", true)), fld("ys", tVec(tRef("Integer", true), true)),
				fld("v", tRef("Value", false))),
			fn("get", 0, tRef("Value", false), fld("key", tStr())).implicit(),
			fn("getEntry", 2, tRef("Entry", false), fld("id", tInt())),
		}},
		// constants passed as masks, a nat that is an array size, boxed tuple (myBoxedTupleSlice, service3.Product 0)
		{"proto/constants", Schema{
			ctor("pattern", "Pattern", 1, []string{"fields_mask"},
				mfld("id", tInt(), "fields_mask", 0), fld("flags", tInt())),
			ctor("myBoxedTupleSlice", "MyBoxedTupleSlice", 2, nil, fld("n", tNat()),
				fld("data", tTup(tBoxedInt(), aR("n"), false))),
			ctor("patterns", "Patterns", 3, nil, fld("a", tRef("Pattern", true, aN(3))),
				fld("b", tRef("Pattern", false, aN(0))), fld("c", tTup(tInt(), aN(2), true))),
			fn("getPattern", 4, tRef("Pattern", false, aN(1)), fld("id", tInt())),
		}},
	}
}

// ---------------------------------------------------------------------------
// seeded random bases

type gen struct {
	rnd    *rand.Rand
	maxBit int
	s      Schema
	tag    int
	// types declared so far: name -> (constructor names, number of template parameters)
	types []genType
}

type genType struct {
	typ   string
	ctors []string
	nargs int
}

func (g *gen) pick(n int) int { return g.rnd.Intn(n) }

func (g *gen) scalar() TE {
	t := []TE{tInt(), tInt(), tLong(), tStr()}[g.pick(4)]
	if g.pick(6) == 0 {
		t.Bare = false
	}
	return t
}

// natArg chooses an argument for a # parameter: a constant or a visible nat variable.
func (g *gen) natArg(vars []string, sizeLike bool) Arg {
	if len(vars) > 0 && g.pick(3) != 0 {
		return aR(vars[g.pick(len(vars))])
	}
	if sizeLike {
		return aN(1 + g.pick(2))
	}
	return aN(g.pick(4))
}

// typeExpr builds a field type; depth limits nesting.
func (g *gen) typeExpr(vars []string, depth int, allowNatSize bool) TE {
	k := g.pick(10)
	switch {
	case k < 4 || depth == 0 && len(g.types) == 0:
		return g.scalar()
	case k < 6 && depth > 0:
		return tVec(g.typeExpr(vars, depth-1, false), g.pick(3) != 0)
	case k < 7 && depth > 0:
		var n Arg
		if allowNatSize {
			n = g.natArg(vars, true)
		} else {
			n = aN(1 + g.pick(2))
		}
		return tTup(g.typeExpr(nil, 0, false), n, g.pick(3) != 0)
	default:
		if len(g.types) == 0 {
			return g.scalar()
		}
		t := g.types[g.pick(len(g.types))]
		args := make([]Arg, t.nargs)
		for i := range args {
			args[i] = g.natArg(vars, false)
		}
		switch {
		case len(t.ctors) == 1 && g.pick(3) == 0:
			return tRef(t.typ, true, args...) // %T
		case len(t.ctors) == 1 && g.pick(3) == 0:
			return tRef(t.ctors[0], true, args...) // by constructor name
		default:
			return tRef(t.typ, false, args...)
		}
	}
}

func (g *gen) fields(prefix string, targs []string, n int, isFn bool) []Field {
	var fs []Field
	vars := append([]string{}, targs...)
	for i := 0; i < n; i++ {
		name := fmt.Sprintf("%s%d", prefix, i+1)
		var f Field
		if g.pick(5) == 0 || (i == 0 && len(vars) == 0 && g.pick(2) == 0) {
			f = fld(name, tNat())
		} else {
			f = fld(name, g.typeExpr(vars, 2, true))
		}
		if len(vars) > 0 && g.pick(2) == 0 {
			f.Mask = vars[g.pick(len(vars))]
			f.Bit = g.pick(g.maxBit + 1)
		}
		fs = append(fs, f)
		if f.Ty.T == "#" {
			vars = append(vars, name)
		}
	}
	return fs
}

// randomBase builds one schema: 2-4 types (structs, unions, template masks) and 1-2 functions.
func randomBase(seed int64, maxBit int) Schema {
	g := &gen{rnd: rand.New(rand.NewSource(seed)), maxBit: maxBit}
	nTypes := 2 + g.pick(3)
	for ti := 0; ti < nTypes; ti++ {
		typ := fmt.Sprintf("T%c", 'a'+ti)
		lower := fmt.Sprintf("t%c", 'a'+ti)
		nargs := []int{0, 0, 1, 1, 2}[g.pick(5)]
		var targs []string
		for i := 0; i < nargs; i++ {
			targs = append(targs, fmt.Sprintf("p%d", i+1))
		}
		nct := 1
		if g.pick(4) == 0 {
			nct = 2
		}
		gt := genType{typ: typ, nargs: nargs}
		for ci := 0; ci < nct; ci++ {
			name := lower
			if nct > 1 {
				name = fmt.Sprintf("%s%c", lower, 'A'+ci)
			}
			g.tag++
			nf := 1 + g.pick(3)
			if nct > 1 && ci == 0 && g.pick(2) == 0 {
				nf = 0
			}
			g.s = append(g.s, ctor(name, typ, g.tag, targs, g.fields(fmt.Sprintf("f%c", 'a'+ci), targs, nf, false)...))
			gt.ctors = append(gt.ctors, name)
		}
		g.types = append(g.types, gt)
	}
	nFns := 1 + g.pick(2)
	for fi := 0; fi < nFns; fi++ {
		g.tag++
		fs := g.fields("a", nil, g.pick(4), true)
		var vars []string
		for _, f := range fs {
			if f.Ty.T == "#" {
				vars = append(vars, f.Name)
			}
		}
		var res TE
		switch g.pick(4) {
		case 0:
			res = tBoxedInt()
		case 1:
			res = tVec(g.typeExpr(vars, 0, false), false)
		default:
			t := g.types[g.pick(len(g.types))]
			args := make([]Arg, t.nargs)
			for i := range args {
				args[i] = g.natArg(vars, false)
			}
			res = tRef(t.typ, false, args...)
		}
		g.s = append(g.s, fn(fmt.Sprintf("q%d", fi+1), g.tag, res, fs...))
	}
	return g.s
}

// estimateValues is a coarse upper bound of the number of values the model enumerates for the
// schema (product of field domains; masks and nats counted generously). It only pre-filters
// random candidates so that the exact count (NumValues, computed by TLC) stays cheap.
func estimateValues(s Schema) float64 {
	byType := map[string][]Comb{}
	byCtor := map[string]Comb{}
	for _, c := range s {
		if !c.Fn {
			byType[c.Typ] = append(byType[c.Typ], c)
			byCtor[c.Name] = c
		}
	}
	var te func(t TE) float64
	var comb func(c Comb) float64
	memo := map[string]float64{}
	comb = func(c Comb) float64 {
		if v, ok := memo[c.Name]; ok {
			return v
		}
		p := 1.0
		for range c.Targs {
			p *= 4
		}
		for _, f := range c.Fields {
			var n float64
			if f.Ty.T == "#" {
				n = 6
			} else {
				n = te(f.Ty)
			}
			if f.Mask != "" {
				n++
			}
			p *= n
			if p > 1e12 {
				p = 1e12
			}
		}
		memo[c.Name] = p
		return p
	}
	te = func(t TE) float64 {
		switch t.T {
		case "int", "long":
			return 1
		case "string":
			return 2
		case "Vector":
			return 1 + te(*t.Args[0].Ty)
		case "Tuple":
			v := te(*t.Args[0].Ty)
			return 1 + v + v*v
		}
		if c, ok := byCtor[t.T]; ok {
			return comb(c)
		}
		sum := 0.0
		for _, c := range byType[t.T] {
			sum += comb(c)
		}
		return sum
	}
	total := 0.0
	for _, c := range s {
		v := comb(c)
		if c.Fn {
			v *= te(c.Res)
		}
		total += v
	}
	return total
}
