package linter

import (
	"fmt"
	"math/rand"
	"sort"
	"strings"
	"time"

	"verif/core"
)

func init() {
	core.Register("C29", "model_checking", runC29)
	core.Register("C30", "model_checking", runC30)
	core.Register("C28", "model_checking", runC28)
}

func chainKey(b int, log []logEntry) string {
	var sb strings.Builder
	fmt.Fprintf(&sb, "%d", b)
	for _, e := range log {
		sb.WriteString("|" + e.A + e.Pos)
	}
	return sb.String()
}

// C29: the linter accepts the identity and every sequence of documented safe edits.
func runC29(c *core.Ctx) error {
	l, err := buildLinter(c)
	if err != nil {
		return err
	}
	defer l.Close()
	bases, err := chooseBases(c, l, c.Pick(4, 12), c.Pick(1, 14), c.Pick(150, 400))
	if err != nil {
		return err
	}
	rnd := rand.New(rand.NewSource(c.Seed))

	parents := map[string]Schema{} // chain key -> schema, for states that can have successors
	var sampled []mcCase          // cases kept for trace validation
	byAction := map[string]int{}
	bySeq := map[string]int{}
	singles := make([]int, len(bases))
	accepted, rejected, wcNo := 0, 0, 0
	var rejectedCases []mcCase
	maxSampled := c.Pick(80, 800)
	run := func(sub []NamedBase, idx []int, depth int, sampleP float64, timeout time.Duration) error {
		t0 := time.Now()
		res, err := runMC(c, sub, mcOpts{Mode: "safe", MaxEdits: depth, EvalWC: true, Strict: true, Workers: c.Pick(6, 12), Timeout: timeout}, func(m mcCase) error {
			m.B = idx[m.B-1]
			old := bases[m.B-1].S
			if len(m.Log) < depth {
				parents[chainKey(m.B, m.Log)] = m.New
			}
			if len(m.Log) == 1 {
				singles[m.B-1]++
			}
			if m.WC != "yes" {
				wcNo++
			}
			var r *lintResp
			var err error
			if len(m.Log) <= 1 || rnd.Intn(8) == 0 {
				r, err = l.lint(old, m.New)
			} else {
				r, err = l.lintFast(old, m.New)
			}
			if err != nil {
				return err
			}
			c.Add("evaluations", 1)
			for _, e := range m.Log {
				byAction[e.label()]++
			}
			bySeq[seqLabel(m.Log)]++
			if r.GenErrNew != "" {
				return fmt.Errorf("model produced a schema the generator front end rejects (%s) after %s:\n%s", r.GenErrNew, logLabel(m.Log), RenderBody(m.New))
			}
			if r.Accepted && r.Panic == "" {
				accepted++
			} else {
				rejected++
				rejectedCases = append(rejectedCases, m)
			}
			if rnd.Float64() < sampleP && len(sampled) < maxSampled {
				sampled = append(sampled, m)
			}
			if c.Get("evaluations")%499 == 1 {
				c.Sample(map[string]any{"base": bases[m.B-1].Name, "edits": logLabel(m.Log), "new": RenderBody(m.New), "linter_accepted": r.Accepted, "model_wire_compatible": m.WC})
			}
			return nil
		})
		if err != nil {
			return err
		}
		c.Add("states", res.Distinct)
		c.Add("transitions", res.Generated)
		c.Add("model_theorem_SafePreserves_checked_states", res.Distinct)
		c.Logf("TLC MC_SchemaEvolution(safe, depth %d, %d bases): %d distinct states in %v (incl. replay); so far accepted=%d rejected=%d", depth, len(sub), res.Distinct, time.Since(t0).Round(time.Second), accepted, rejected)
		return nil
	}
	all := make([]int, len(bases))
	for i := range all {
		all[i] = i + 1
	}
	if err := run(bases, all, 2, float64(c.Pick(10, 5))/100, time.Duration(c.Pick(4, 12))*time.Minute); err != nil {
		return err
	}
	if bySeq["identity"] != len(bases) {
		return fmt.Errorf("vacuous: identity pairs %d != bases %d", bySeq["identity"], len(bases))
	}
	depth := 2
	if c.Thorough() {
		// sequences of three edits, exhaustively, over the four bases with the smallest edit spaces
		depth = 3
		order := append([]int{}, all...)
		sort.Slice(order, func(a, b int) bool { return singles[order[a]-1] < singles[order[b]-1] })
		var sub []NamedBase
		for _, k := range order[:4] {
			sub = append(sub, bases[k-1])
		}
		bySeq["identity"] -= 4
		if err := run(sub, order[:4], 3, 0.03, 12*time.Minute); err != nil {
			return err
		}
	}
	// every rejection is reproduced in a fresh process and attributed to the shortest sequence that explains it
	sort.SliceStable(rejectedCases, func(a, b int) bool { return len(rejectedCases[a].Log) < len(rejectedCases[b].Log) })
	roots := map[string]bool{}
	explained := 0
	for _, m := range rejectedCases {
		isExplained := false
		if len(m.Log) > 1 {
			for _, e := range m.Log {
				if roots[e.label()] {
					isExplained = true
				}
			}
		}
		if isExplained {
			explained++
			continue
		}
		old := bases[m.B-1].S
		r2, err := l.fresh(old, m.New)
		if err != nil {
			return err
		}
		if r2.Accepted && r2.Panic == "" {
			return fmt.Errorf("rejection of %s not reproduced in a fresh process", logLabel(m.Log))
		}
		if len(m.Log) == 1 {
			roots[m.Log[0].label()] = true
		}
		what := "linter rejects a documented safe evolution (" + logLabel(m.Log) + ")"
		if r2.Panic != "" {
			what = "linter panics on a documented safe evolution (" + logLabel(m.Log) + "): " + r2.Panic
		}
		c.Violate("linter-rejects/"+logLabel(m.Log), what+": "+strings.Join(r2.Messages[:min(1, len(r2.Messages))], ""),
			map[string]any{"old": RenderBody(old), "new": RenderBody(m.New), "base": bases[m.B-1].Name, "log": m.Log, "messages": r2.Messages, "old_model": old, "new_model": m.New})
	}
	c.Set("rejected_sequences_explained_by_a_single_edit_finding", explained)
	c.Set("impl_accepted", accepted)
	c.Set("impl_rejected", rejected)
	c.Set("cases_by_action", byAction)
	c.Set("cases_by_sequence_shape", bySeq)
	c.Set("single_edits_per_base", singles)
	c.Set("distinct_nontrivial", c.Get("evaluations"))
	if wcNo > 0 {
		return fmt.Errorf("model error: %d safe sequences are not wire compatible in the model", wcNo)
	}
	for _, a := range []string{"AppendMaskedField/field-mask", "AppendMaskedField/template-mask", "AppendConstructor/boxed-only", "AddType/plain", "AddType/with-mask",
		"AddFunction/mask-first", "AddFunction/no-args", "AppendFunctionMaskAndArgs/no-nat", "AppendFunctionMaskAndArgs/has-nat"} {
		if byAction[a] == 0 {
			return fmt.Errorf("vacuous: safe action %s was never exercised", a)
		}
	}
	if accepted == 0 {
		return fmt.Errorf("vacuous: the linter accepted nothing")
	}

	// code -> spec: the recorded calls (old, steps, new, verdict) validated by TLC
	var evs []traceEvent
	for _, m := range sampled {
		ev := traceEvent{Old: bases[m.B-1].S, New: m.New, Verdict: "accept", Kind: "safe-chain"}
		ok := true
		for k := 1; k < len(m.Log); k++ {
			p, found := parents[chainKey(m.B, m.Log[:k])]
			if !found {
				ok = false
				break
			}
			ev.Steps = append(ev.Steps, p)
		}
		if !ok {
			continue
		}
		if len(m.Log) > 0 {
			ev.Steps = append(ev.Steps, m.New)
		}
		// the verdict recorded is the real one
		r, err := l.lint(ev.Old, ev.New)
		if err != nil {
			return err
		}
		if !r.Accepted {
			ev.Verdict = "reject"
		}
		evs = append(evs, ev)
	}
	if len(evs) == 0 {
		return fmt.Errorf("vacuous: no trace events")
	}
	bad, tr, err := validateTrace(c, evs, "SafeAcceptedAll", c.Pick(6, 12), time.Duration(c.Pick(3, 8))*time.Minute)
	if err != nil {
		return err
	}
	if !tr.OK {
		return fmt.Errorf("TraceSchemaEvolution failed: %s\n%s", tr.ErrorKind, tr.ErrorText)
	}
	if tr.Distinct != len(evs) {
		return fmt.Errorf("trace validation covered %d of %d events", tr.Distinct, len(evs))
	}
	nRejectedInTrace := 0
	for _, e := range evs {
		if e.Verdict == "reject" {
			nRejectedInTrace++
		}
	}
	if len(bad) != nRejectedInTrace {
		return fmt.Errorf("trace validation flags %d events, the replay found %d rejected ones among them (chain reconstruction or spec problem)", len(bad), nRejectedInTrace)
	}
	c.Add("traces_validated_against_impl", 1)
	c.Add("trace_events_validated", len(evs))
	c.Add("states", tr.Distinct)

	// binding self-test: flip one recorded verdict; the strict invariant must reject the trace
	var flip []traceEvent
	for _, e := range evs {
		if e.Verdict == "accept" {
			e.Verdict = "reject"
			flip = append(flip, e)
			break
		}
	}
	_, tr2, err := validateTrace(c, flip, "SafeAccepted", 2, 3*time.Minute)
	if err != nil {
		return err
	}
	if tr2.OK || tr2.ErrorKind != "invariant" {
		return fmt.Errorf("binding self-test failed: a trace with a flipped verdict was not rejected (kind=%s)", tr2.ErrorKind)
	}
	c.Set("selftest_flipped_verdict_rejected", true)
	c.Set("rule", "TLC enumerates every sequence of <= depth documented safe edits (and the identity) of MC_SchemaEvolution over prototype-derived and seeded random bases, proving SafePreserves (WireCompatible) in each state; each (old,new) is rendered to .tl and given to the real CheckBackwardCompatibility, which must accept; recorded calls are validated by TraceSchemaEvolution!SafeAccepted")
	c.Set("edit_depth", depth)
	assumptions(c)
	c.Assume("function arguments are appended either under free bits of masks the old function has, or after one new unmasked # argument that masks every other new argument (the rule stated by the linter's own messages), not both in one evolution")
	return nil
}

func assumptions(c *core.Ctx) {
	c.Assume("schemas of the model fragment: {x:#} template parameters only, builtins int/long/string/#/Vector/Tuple, no recursive types")
	c.Assume("a textual edit of an implicitly tagged combinator changes its tag by definition (CRC32 of the text); edits are therefore applied to combinators whose tag is explicit, or whose tag is on no wire (implicitly tagged constructors used bare only: appending a masked field to them is a documented safe edit and must be accepted); functions and boxed-used constructors with implicit tags are only subject to AddExplicitTag (DESIGN 6)")
	c.Assume("effective tags of implicitly tagged combinators are taken from the real front end (tlast Combinator.Crc32(), bound to the documented rule by C23)")
	c.Assume("the linter is called like cmd/tlgen/main2.go does: both texts parsed with AllowBuiltin=false/AllowDirty=false, CheckBackwardCompatibility(new, old); error = rejected, texts of messages are not compared")
	c.Assume("a # field or parameter to which the old schema gives no meaning (no mask bit, no array size) is zero in old values")
	c.Assume("function requests: an unmasked # argument met at the end of an old request reads as zero (appended field mask)")
}

func seqLabel(log []logEntry) string {
	if len(log) == 0 {
		return "identity"
	}
	return fmt.Sprintf("%d-edits", len(log))
}
