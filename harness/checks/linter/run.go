package linter

import (
	"encoding/json"
	"fmt"
	"path/filepath"
	"reflect"
	"sort"
	"strconv"
	"strings"
	"time"

	"verif/core"
)

const maxBit = 3 // edits and random bases use mask bits 0..3

// ---------------------------------------------------------------------------
// the real linter

type lintResp struct {
	Accepted    bool     `json:"accepted"`
	Messages    []string `json:"messages"`
	ParseErrOld string   `json:"parseErrOld"`
	ParseErrNew string   `json:"parseErrNew"`
	GenErrOld   string   `json:"genErrOld"`
	GenErrNew   string   `json:"genErrNew"`
	ShapeOld    []string `json:"shapeOld"`
	ShapeNew    []string `json:"shapeNew"`
	Panic       string   `json:"panic"`
}

type linter struct {
	c    *core.Ctx
	path string
	p    *core.Proc
}

func buildLinter(c *core.Ctx) (*linter, error) {
	drv := filepath.Join(c.Scratch, "linterdrv")
	if err := c.BuildInRepo("internal/verifx/linter", map[string]string{
		"internal/verifx/linter/main.go": core.DriverSrc("linter/main.go")}, drv, false, false); err != nil {
		return nil, err
	}
	p, err := core.StartProc(drv, nil)
	if err != nil {
		return nil, err
	}
	return &linter{c: c, path: drv, p: p}, nil
}

func (l *linter) Close() { l.p.Close() }

// lint runs the real linter on the rendered pair and checks that the parser saw exactly
// the structure of the model schemas (so the text is a faithful rendering).
func (l *linter) lint(old, new Schema) (*lintResp, error) {
	return lintWith(l.p, old, new, true)
}

// lintFast skips the generator front end (GenerateCode on both texts); used for the bulk of
// deep edit sequences, whose single steps were each validated with lint.
func (l *linter) lintFast(old, new Schema) (*lintResp, error) {
	return lintWith(l.p, old, new, false)
}

func lintWith(p *core.Proc, old, new Schema, gen bool) (*lintResp, error) {
	var r lintResp
	if err := p.Call(map[string]any{"old": Render(old), "new": Render(new), "gen": gen}, &r); err != nil {
		return nil, fmt.Errorf("linter driver: %v", err)
	}
	if r.Panic != "" {
		return &r, nil // reported by the caller as a violation (the linter must not panic)
	}
	if r.ParseErrOld != "" || r.ParseErrNew != "" {
		return nil, fmt.Errorf("rendered schema does not parse (harness bug): old=%q new=%q\n%s\n---\n%s",
			r.ParseErrOld, r.ParseErrNew, RenderBody(old), RenderBody(new))
	}
	if !reflect.DeepEqual(maskImplicitTags(r.ShapeOld), Shape(old)) {
		return nil, fmt.Errorf("parsed structure of the old schema differs from the model:\n%v\n%v", r.ShapeOld, Shape(old))
	}
	if !reflect.DeepEqual(maskImplicitTags(r.ShapeNew), Shape(new)) {
		return nil, fmt.Errorf("parsed structure of the new schema differs from the model:\n%v\n%v", r.ShapeNew, Shape(new))
	}
	if r.GenErrOld != "" {
		return nil, fmt.Errorf("base schema rejected by the generator front end (harness bug): %s\n%s", r.GenErrOld, RenderBody(old))
	}
	return &r, nil
}

// fresh repeats a call in a new driver process (reproduction before reporting).
func (l *linter) fresh(old, new Schema) (*lintResp, error) {
	p, err := core.StartProc(l.path, nil)
	if err != nil {
		return nil, err
	}
	defer p.Close()
	return lintWith(p, old, new, true)
}

// ---------------------------------------------------------------------------
// cases printed by MC_SchemaEvolution

type logEntry struct {
	A      string `json:"a"`
	Safe   bool   `json:"safe"`
	Doc    bool   `json:"doc"`
	C      string `json:"c"`
	Sub    string `json:"sub"`
	Benign bool   `json:"benign"`
	Pos    string `json:"pos"`
}

func (e logEntry) label() string {
	if e.Sub == "" {
		return e.A
	}
	return e.A + "/" + e.Sub
}

type mcCase struct {
	B          int        `json:"b"`
	New        Schema     `json:"new"`
	Log        []logEntry `json:"log"`
	WC         string     `json:"wc"`
	BaseValues []int      `json:"basevalues"`
}

func logLabel(log []logEntry) string {
	if len(log) == 0 {
		return "identity"
	}
	ls := make([]string, len(log))
	for i, e := range log {
		ls[i] = e.label()
	}
	return strings.Join(ls, "+")
}

func basesJSON(bs []NamedBase) []byte {
	arr := make([]Schema, len(bs))
	for i, b := range bs {
		arr[i] = b.S.norm()
	}
	j, _ := json.Marshal(arr)
	return j
}

type mcOpts struct {
	Mode     string
	MaxEdits int
	EvalWC   bool
	Strict   bool
	Simulate int // > 0: that many random behaviours instead of exhaustive search
	Workers  int
	Timeout  time.Duration
}

func tlaBool(b bool) string {
	if b {
		return "TRUE"
	}
	return "FALSE"
}

// runMC runs MC_SchemaEvolution over the bases and streams the emitted cases to f.
func runMC(c *core.Ctx, bs []NamedBase, o mcOpts, f func(mcCase) error) (*core.TLCResult, error) {
	var ferr error
	opts := core.TLCOpts{Module: "MC_SchemaEvolution", Cfg: "MC_SchemaEvolution.cfg", Workers: o.Workers, Timeout: o.Timeout,
		Files: map[string][]byte{"bases.json": basesJSON(bs)},
		Consts: map[string]string{"MAXBIT": strconv.Itoa(maxBit), "MAXEDITS": strconv.Itoa(o.MaxEdits), "MODE": o.Mode,
			"EVALWC": tlaBool(o.EvalWC), "STRICT": tlaBool(o.Strict)},
		OnEmit: func(raw json.RawMessage) {
			if ferr != nil {
				return
			}
			var m mcCase
			if err := json.Unmarshal(raw, &m); err != nil {
				ferr = fmt.Errorf("emit: %v: %s", err, string(raw))
				return
			}
			if m.BaseValues != nil {
				return
			}
			ferr = f(m)
		}}
	if o.Simulate > 0 {
		opts.Simulate = fmt.Sprintf("num=%d", o.Simulate)
		opts.Depth = o.MaxEdits + 1
		opts.Seed = c.Seed
	}
	res, err := c.MustTLC(opts)
	if err != nil {
		return res, err
	}
	return res, ferr
}

// baseValueCounts asks the model how many (constructor, value) cases WireCompatible
// quantifies over for each base (NumValues), without exploring any edit.
func baseValueCounts(c *core.Ctx, bs []NamedBase) ([]int, error) {
	var counts []int
	opts := core.TLCOpts{Module: "MC_SchemaEvolution", Cfg: "MC_SchemaEvolution.cfg", Workers: 1, Timeout: 5 * time.Minute,
		Files: map[string][]byte{"bases.json": basesJSON(bs)},
		Consts: map[string]string{"MAXBIT": strconv.Itoa(maxBit), "MAXEDITS": "0", "MODE": "safe", "EVALWC": "FALSE", "STRICT": "FALSE"},
		OnEmit: func(raw json.RawMessage) {
			var m mcCase
			if json.Unmarshal(raw, &m) == nil && m.BaseValues != nil {
				counts = m.BaseValues
			}
		}}
	if _, err := c.MustTLC(opts); err != nil {
		return nil, err
	}
	if len(counts) != len(bs) {
		return nil, fmt.Errorf("NumValues: got %d counts for %d bases", len(counts), len(bs))
	}
	return counts, nil
}

// chooseBases: the prototype-derived bases plus seeded random ones. Random candidates must be
// accepted by the generator front end and by the linter as compatible with themselves, and must
// have a value space the model can enumerate (NumValues, decided by TLC).
func chooseBases(c *core.Ctx, l *linter, nProto, nRandom, maxValues int) ([]NamedBase, error) {
	protos := protoBases()
	if nProto < len(protos) {
		// rotate by seed so that different seeds exercise different prototype fragments in the quick tier;
		// the bases with implicitly tagged combinators and with sibling masks fed by constants are always kept
		var keep, rest []NamedBase
		for _, b := range protos {
			if b.Name == "proto/implicitTags" || b.Name == "proto/twoMasks" {
				keep = append(keep, b)
			} else {
				rest = append(rest, b)
			}
		}
		k := int(c.Seed) % len(rest)
		n := nProto - len(keep)
		if n < 0 {
			n = 0
		}
		protos = append(append(rest[k:], rest[:k]...)[:n], keep...)
	}
	var cands []NamedBase
	tried, invalid, tooBig := 0, 0, 0
	for i := 0; len(cands) < nRandom*4 && i < nRandom*60; i++ {
		seed := c.Seed*100003 + int64(i)
		s := randomBase(seed, maxBit).norm()
		tried++
		var r lintResp
		if err := l.p.Call(map[string]any{"old": Render(s), "new": Render(s), "gen": true}, &r); err != nil {
			return nil, err
		}
		if r.Panic != "" || r.ParseErrOld != "" || r.GenErrOld != "" {
			invalid++
			continue
		}
		if estimateValues(s) > float64(maxValues)*40 {
			tooBig++
			continue
		}
		cands = append(cands, NamedBase{fmt.Sprintf("random/%d", seed), s})
	}
	c.Set("random_bases_tried", tried)
	c.Set("random_bases_rejected_by_generator", invalid)
	c.Set("random_bases_skipped_value_space_estimate", tooBig)
	if tried > 0 && invalid*10 > tried*7 {
		return nil, fmt.Errorf("vacuous: %d of %d random bases rejected by the generator front end", invalid, tried)
	}
	all := append(append([]NamedBase{}, protos...), cands...)
	for i := range all {
		// implicitly tagged combinators of a base get the tag the real front end computes (Combinator.Crc32())
		all[i].S = all[i].S.norm()
		r, err := l.lint(all[i].S, all[i].S)
		if err != nil {
			return nil, err
		}
		if all[i].S, err = withEffectiveTags(all[i].S, r.ShapeOld); err != nil {
			return nil, err
		}
	}
	counts, err := baseValueCounts(c, all)
	if err != nil {
		return nil, err
	}
	var out []NamedBase
	var sizes []int
	nr := 0
	for i, b := range all {
		isRandom := i >= len(protos)
		if isRandom && (nr >= nRandom || counts[i] > maxValues || counts[i] < 4) {
			continue
		}
		if isRandom {
			nr++
		}
		out = append(out, b)
		sizes = append(sizes, counts[i])
	}
	c.Set("random_bases_used", nr)
	if nr == 0 && nRandom > 0 {
		return nil, fmt.Errorf("none of the %d random candidates has an enumerable value space", len(cands))
	}
	names := make([]string, len(out))
	for i, b := range out {
		names[i] = b.Name
	}
	c.Set("bases", names)
	c.Set("base_value_space_sizes", sizes)
	return out, nil
}

// ---------------------------------------------------------------------------
// trace validation (code -> spec)

type traceEvent struct {
	Old     Schema `json:"old"`
	New     Schema `json:"new"`
	Verdict string `json:"verdict"`
	Kind    string `json:"kind"`  // "safe-chain" | "unsafe-edit" | "pair"
	Steps   []Schema `json:"steps"` // safe-chain: the intermediate schemas, last = new
}

func traceBytes(evs []traceEvent) []byte {
	var sb strings.Builder
	for _, e := range evs {
		e.Old = e.Old.norm()
		e.New = e.New.norm()
		if e.Steps == nil {
			e.Steps = []Schema{}
		}
		for i := range e.Steps {
			e.Steps[i] = e.Steps[i].norm()
		}
		b, _ := json.Marshal(e)
		sb.Write(b)
		sb.WriteByte('\n')
	}
	return []byte(sb.String())
}

// validateTrace runs TraceSchemaEvolution with the given invariant. With an "...All"
// invariant it returns the 1-based indices of the events that violate the predicate.
func validateTrace(c *core.Ctx, evs []traceEvent, inv string, workers int, timeout time.Duration) (bad []int, res *core.TLCResult, err error) {
	opts := core.TLCOpts{Module: "TraceSchemaEvolution", Cfg: "TraceSchemaEvolution.cfg", Workers: workers, Timeout: timeout,
		Files:  map[string][]byte{"trace.ndjson": traceBytes(evs)},
		Consts: map[string]string{"MAXBIT": strconv.Itoa(maxBit), "INV": inv},
		OnEmit: func(raw json.RawMessage) {
			var m map[string]int
			if json.Unmarshal(raw, &m) == nil {
				if i, ok := m["bad"]; ok {
					bad = append(bad, i)
				}
			}
		}}
	res, err = c.TLC(opts)
	if err != nil {
		return nil, res, err
	}
	sort.Ints(bad)
	return bad, res, nil
}

func schemaKey(s Schema) string {
	b, _ := json.Marshal(s.norm())
	return string(b)
}
