// Package linter: C28 (soundness), C29 (accepts safe evolutions), C30 (rejects unsafe
// evolutions) of the backward-compatibility linter, bound to spec/SchemaEvolution.tla.
package linter

import (
	"encoding/json"
	"fmt"
	"regexp"
	"strconv"
	"strings"
	"unicode"
)

// The Go mirror of the schema records of spec/SchemaEvolution.tla. JSON produced here is
// read by TLC (JsonDeserialize) and JSON printed by TLC (ToJson) is read back here.

type TE struct {
	T    string `json:"t"`
	Bare bool   `json:"bare"`
	Args []Arg  `json:"args"`
}

// Arg is [k |-> "n", n |-> const] | [k |-> "r", r |-> natVar] | [k |-> "ty", ty |-> TE].
type Arg struct {
	K  string
	N  int
	R  string
	Ty *TE
}

func (a Arg) MarshalJSON() ([]byte, error) {
	switch a.K {
	case "n":
		return json.Marshal(map[string]any{"k": "n", "n": a.N})
	case "r":
		return json.Marshal(map[string]any{"k": "r", "r": a.R})
	case "ty":
		return json.Marshal(map[string]any{"k": "ty", "ty": a.Ty})
	}
	return nil, fmt.Errorf("bad arg kind %q", a.K)
}

func (a *Arg) UnmarshalJSON(b []byte) error {
	var raw struct {
		K  string `json:"k"`
		N  int    `json:"n"`
		R  string `json:"r"`
		Ty *TE    `json:"ty"`
	}
	if err := json.Unmarshal(b, &raw); err != nil {
		return err
	}
	*a = Arg{K: raw.K, N: raw.N, R: raw.R, Ty: raw.Ty}
	return nil
}

type Field struct {
	Name string `json:"name"`
	Ty   TE     `json:"ty"`
	Mask string `json:"mask"`
	Bit  int    `json:"bit"`
}

type Comb struct {
	Fn     bool     `json:"fn"`
	Name   string   `json:"name"`
	Typ    string   `json:"typ"`
	// Explicit: the tag is written in the text. Tag: the effective tag as 4 little-endian bytes
	// (for implicit tags: Combinator.Crc32() as reported by the driver, see withEffectiveTags).
	Explicit bool  `json:"explicit"`
	Tag      []int `json:"tag"`
	Targs  []string `json:"targs"`
	Fields []Field  `json:"fields"`
	Res    TE       `json:"res"`
}

type Schema []Comb

func normTE(t *TE) {
	if t.Args == nil {
		t.Args = []Arg{}
	}
	for i := range t.Args {
		if t.Args[i].Ty != nil {
			normTE(t.Args[i].Ty)
		}
	}
}

// norm makes nil slices empty so that JSON carries [] (a TLA+ empty sequence), never null.
func (s Schema) norm() Schema {
	for i := range s {
		if s[i].Targs == nil {
			s[i].Targs = []string{}
		}
		if s[i].Fields == nil {
			s[i].Fields = []Field{}
		}
		if len(s[i].Tag) != 4 {
			s[i].Tag = []int{0, 0, 0, 0}
		}
		for j := range s[i].Fields {
			normTE(&s[i].Fields[j].Ty)
		}
		normTE(&s[i].Res)
	}
	return s
}

// ---------------------------------------------------------------------------
// small constructors

func tInt() TE          { return TE{T: "int", Bare: true} }
func tLong() TE         { return TE{T: "long", Bare: true} }
func tStr() TE          { return TE{T: "string", Bare: true} }
func tNat() TE          { return TE{T: "#", Bare: true} }
func tBoxedInt() TE     { return TE{T: "int", Bare: false} }
func aN(n int) Arg      { return Arg{K: "n", N: n} }
func aR(r string) Arg   { return Arg{K: "r", R: r} }
func aT(t TE) Arg       { return Arg{K: "ty", Ty: &t} }
func tVec(el TE, bare bool) TE { return TE{T: "Vector", Bare: bare, Args: []Arg{aT(el)}} }
func tTup(el TE, n Arg, bare bool) TE {
	return TE{T: "Tuple", Bare: bare, Args: []Arg{aT(el), n}}
}
func tRef(name string, bare bool, args ...Arg) TE { return TE{T: name, Bare: bare, Args: args} }
func fld(name string, ty TE) Field               { return Field{Name: name, Ty: ty} }
func mfld(name string, ty TE, mask string, bit int) Field {
	return Field{Name: name, Ty: ty, Mask: mask, Bit: bit}
}
func tagBytes(v uint32) []int {
	return []int{int(v & 255), int(v >> 8 & 255), int(v >> 16 & 255), int(v >> 24 & 255)}
}
func (c Comb) tagValue() uint32 {
	if len(c.Tag) != 4 {
		return 0
	}
	return uint32(c.Tag[0]) | uint32(c.Tag[1])<<8 | uint32(c.Tag[2])<<16 | uint32(c.Tag[3])<<24
}
func ctor(name, typ string, tag int, targs []string, fields ...Field) Comb {
	return Comb{Name: name, Typ: typ, Explicit: true, Tag: tagBytes(uint32(tag)), Targs: targs, Fields: fields, Res: tInt()}
}
func fn(name string, tag int, res TE, fields ...Field) Comb {
	return Comb{Fn: true, Name: name, Explicit: true, Tag: tagBytes(uint32(tag)), Fields: fields, Res: res}
}

// implicit drops the explicit tag: the effective one is filled in from the driver.
func (c Comb) implicit() Comb {
	c.Explicit = false
	c.Tag = []int{0, 0, 0, 0}
	return c
}

// ---------------------------------------------------------------------------
// rendering to .tl text

// Prelude: the builtin declarations, copied from the repository's test schemas
// (internal/tlcodegen/test/tls/cases.tl, backward_compatibility_samples/prototype.tl).
const Prelude = `int#a8509bda ? = Int;
long#22076cba ? = Long;
string#b5286e24 ? = String;

vector#1cb5c415 {t:Type} # [t] = Vector t;
tuple#9770768a {t:Type} {n:#} [t] = Tuple t n;
`

// preludeShapes is what the driver reports for the non-builtin prelude combinators.
var preludeShapes = []string{
	"C vector #1cb5c415 explicit=true {t:Type} [:#|:<repeated>] -> Vector(t)",
	"C tuple #9770768a explicit=true {t:Type,n} [:<repeated>] -> Tuple(t,n)",
}

func isCtorName(n string) bool {
	for _, r := range n {
		return unicode.IsLower(r)
	}
	return false
}

func capFirst(s string) string { return strings.ToUpper(s[:1]) + s[1:] }

func renderTE(t TE, top bool) string {
	switch t.T {
	case "#":
		return "#"
	case "int", "long", "string":
		if t.Bare {
			return t.T
		}
		return capFirst(t.T)
	}
	name := t.T
	bare := t.Bare && !isCtorName(name)
	if len(t.Args) == 0 {
		if bare {
			return "%" + name
		}
		return name
	}
	parts := []string{name}
	for _, a := range t.Args {
		switch a.K {
		case "n":
			parts = append(parts, fmt.Sprint(a.N))
		case "r":
			parts = append(parts, a.R)
		default:
			parts = append(parts, renderTE(*a.Ty, false))
		}
	}
	inner := strings.Join(parts, " ")
	if bare {
		return "%(" + inner + ")"
	}
	if top {
		return inner
	}
	return "(" + inner + ")"
}

func renderComb(c Comb) string {
	var sb strings.Builder
	if c.Fn {
		sb.WriteString("@any ")
	}
	sb.WriteString(c.Name)
	if c.Explicit {
		fmt.Fprintf(&sb, "#%08x", c.tagValue())
	}
	for _, a := range c.Targs {
		fmt.Fprintf(&sb, " {%s:#}", a)
	}
	for _, f := range c.Fields {
		sb.WriteString(" " + f.Name + ":")
		if f.Mask != "" {
			fmt.Fprintf(&sb, "%s.%d?", f.Mask, f.Bit)
		}
		sb.WriteString(renderTE(f.Ty, false))
	}
	sb.WriteString(" = ")
	if c.Fn {
		sb.WriteString(renderTE(c.Res, true))
	} else {
		sb.WriteString(c.Typ)
		for _, a := range c.Targs {
			sb.WriteString(" " + a)
		}
	}
	sb.WriteString(";")
	return sb.String()
}

// Render gives the schema as a .tl file: prelude, then the combinators in model order.
func Render(s Schema) string {
	var sb strings.Builder
	sb.WriteString(Prelude)
	sec := "types"
	for _, c := range s {
		want := "types"
		if c.Fn {
			want = "functions"
		}
		if want != sec {
			sb.WriteString("---" + want + "---\n")
			sec = want
		}
		sb.WriteString(renderComb(c) + "\n")
	}
	return sb.String()
}

// RenderBody is Render without the prelude (for reports).
func RenderBody(s Schema) string { return strings.TrimPrefix(Render(s), Prelude) }

// ---------------------------------------------------------------------------
// the structure the parser must have seen (compared with the driver's shape output)

func shapeTE(t TE) string {
	var s string
	switch t.T {
	case "#":
		return "#"
	case "int", "long", "string":
		if t.Bare {
			return t.T
		}
		return capFirst(t.T)
	default:
		s = t.T
		if t.Bare && !isCtorName(t.T) {
			s = "%" + s
		}
	}
	if len(t.Args) > 0 {
		as := make([]string, len(t.Args))
		for i, a := range t.Args {
			switch a.K {
			case "n":
				as[i] = fmt.Sprint(a.N)
			case "r":
				as[i] = a.R
			default:
				as[i] = shapeTE(*a.Ty)
			}
		}
		s += "(" + strings.Join(as, ",") + ")"
	}
	return s
}

func Shape(s Schema) []string {
	out := append([]string{}, preludeShapes...)
	for _, c := range s {
		var sb strings.Builder
		if c.Fn {
			sb.WriteString("F ")
		} else {
			sb.WriteString("C ")
		}
		if c.Explicit {
			fmt.Fprintf(&sb, "%s #%08x explicit=true {%s} [", c.Name, c.tagValue(), strings.Join(c.Targs, ","))
		} else {
			fmt.Fprintf(&sb, "%s #???????? explicit=false {%s} [", c.Name, strings.Join(c.Targs, ","))
		}
		for i, f := range c.Fields {
			if i > 0 {
				sb.WriteString("|")
			}
			sb.WriteString(f.Name + ":")
			if f.Mask != "" {
				fmt.Fprintf(&sb, "%s.%d?", f.Mask, f.Bit)
			}
			sb.WriteString(shapeTE(f.Ty))
		}
		sb.WriteString("] -> ")
		if c.Fn {
			sb.WriteString(shapeTE(c.Res))
		} else {
			sb.WriteString(c.Typ + "(" + strings.Join(c.Targs, ",") + ")")
		}
		out = append(out, sb.String())
	}
	return out
}

var reImplicitTag = regexp.MustCompile(`#([0-9a-f]{8}) explicit=false`)
var reAnyTag = regexp.MustCompile(`#([0-9a-f]{8}) explicit=(true|false)`)

// maskImplicitTags hides the computed tag of implicitly tagged combinators in the driver's shape.
func maskImplicitTags(shapes []string) []string {
	out := make([]string, len(shapes))
	for i, l := range shapes {
		out[i] = reImplicitTag.ReplaceAllString(l, "#???????? explicit=false")
	}
	return out
}

// withEffectiveTags returns a copy of s in which every implicitly tagged combinator carries the
// tag the real front end computed for it (Combinator.Crc32(), reported in the driver's shape).
func withEffectiveTags(s Schema, shapes []string) (Schema, error) {
	if len(shapes) != len(preludeShapes)+len(s) {
		return nil, fmt.Errorf("shape has %d entries for %d combinators", len(shapes), len(s))
	}
	out := make(Schema, len(s))
	copy(out, s)
	for i := range out {
		if out[i].Explicit {
			continue
		}
		m := reAnyTag.FindStringSubmatch(shapes[len(preludeShapes)+i])
		if m == nil {
			return nil, fmt.Errorf("no tag in shape %q", shapes[len(preludeShapes)+i])
		}
		v, err := strconv.ParseUint(m[1], 16, 32)
		if err != nil {
			return nil, err
		}
		out[i].Tag = tagBytes(uint32(v))
	}
	return out, nil
}
