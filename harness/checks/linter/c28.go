package linter

import (
	"fmt"
	"math/rand"
	"sort"
	"strings"
	"time"

	"verif/core"
)

type pairCase struct {
	newEff  Schema // m.New with the effective (front-end computed) tags of implicitly tagged combinators
	m       mcCase
	verdict string
	genErr  string
}

func unsafeLabels(log []logEntry) []string {
	var ls []string
	for _, e := range log {
		if !e.Safe {
			ls = append(ls, e.label())
		}
	}
	return ls
}

// C28: whenever the real linter accepts (old, new), WireCompatible(old, new) holds in the model.
func runC28(c *core.Ctx) error {
	l, err := buildLinter(c)
	if err != nil {
		return err
	}
	defer l.Close()
	bases, err := chooseBases(c, l, 12, c.Pick(2, 10), c.Pick(150, 400))
	if err != nil {
		return err
	}
	rnd := rand.New(rand.NewSource(c.Seed))

	seen := map[string]bool{}
	var cases []pairCase
	byAction := map[string]int{}
	byLen := map[int]int{}
	accepted, rejected := 0, 0
	acceptedByLen := map[int]int{}
	handle := func(m mcCase) error {
		k := fmt.Sprintf("%d|%s", m.B, schemaKey(m.New))
		if seen[k] {
			return nil
		}
		seen[k] = true
		old := bases[m.B-1].S
		var r *lintResp
		var err error
		if len(m.Log) <= 1 || rnd.Intn(10) == 0 {
			r, err = l.lint(old, m.New)
		} else {
			r, err = l.lintFast(old, m.New)
		}
		if err != nil {
			return err
		}
		c.Add("evaluations", 1)
		for _, e := range m.Log {
			byAction[e.label()]++
		}
		byLen[len(m.Log)]++
		pc := pairCase{m: m, verdict: "reject", genErr: r.GenErrNew, newEff: m.New}
		if r.Panic == "" {
			if pc.newEff, err = withEffectiveTags(m.New, r.ShapeNew); err != nil {
				return err
			}
		}
		if r.Panic != "" {
			c.Violate("linter-panics/"+logLabel(m.Log), "the linter panics: "+r.Panic,
				map[string]any{"old": RenderBody(old), "new": RenderBody(m.New), "log": m.Log})
		} else if r.Accepted {
			pc.verdict = "accept"
			accepted++
			acceptedByLen[len(m.Log)]++
		} else {
			rejected++
		}
		cases = append(cases, pc)
		return nil
	}

	// every single edit (safe, documented unsafe, undocumented unsafe) at every position
	res1, err := runMC(c, bases, mcOpts{Mode: "mixed", MaxEdits: 1, EvalWC: false, Strict: false, Workers: c.Pick(4, 8),
		Timeout: time.Duration(c.Pick(3, 10)) * time.Minute}, handle)
	if err != nil {
		return err
	}
	c.Add("states", res1.Distinct)
	c.Add("transitions", res1.Generated)
	c.Logf("single edits: %d states (%v); accepted=%d rejected=%d", res1.Distinct, res1.Wall.Round(time.Second), accepted, rejected)
	// pairs of edits: exhaustive in the thorough tier (on the bases with the smaller edit spaces), random behaviours otherwise
	if c.Thorough() {
		var small []NamedBase
		var idx []int
		for i, b := range bases {
			if len(small) < 8 {
				small = append(small, b)
				idx = append(idx, i+1)
			}
		}
		res2, err := runMC(c, small, mcOpts{Mode: "mixed", MaxEdits: 2, EvalWC: false, Strict: false, Workers: 12, Timeout: 14 * time.Minute},
			func(m mcCase) error { m.B = idx[m.B-1]; return handle(m) })
		if err != nil {
			return err
		}
		c.Add("states", res2.Distinct)
		c.Add("transitions", res2.Generated)
		c.Logf("pairs of edits (exhaustive over %d bases): %d states (%v)", len(small), res2.Distinct, res2.Wall.Round(time.Second))
	} else {
		res2, err := runMC(c, bases, mcOpts{Mode: "mixed", MaxEdits: 2, EvalWC: false, Strict: false, Workers: 4, Simulate: 70,
			Timeout: 3 * time.Minute}, handle)
		if err != nil {
			return err
		}
		c.Add("transitions", res2.Generated)
		c.Logf("pairs of edits (random behaviours): %d states visited (%v)", res2.Generated, res2.Wall.Round(time.Second))
	}
	c.Logf("pairs recorded: %d; linter accepted=%d rejected=%d", len(cases), accepted, rejected)
	c.Set("impl_accepted", accepted)
	c.Set("impl_rejected", rejected)
	c.Set("impl_accepted_by_number_of_edits", acceptedByLen)
	c.Set("pairs_by_number_of_edits", byLen)
	c.Set("cases_by_action", byAction)
	c.Set("distinct_nontrivial", len(cases))
	if accepted == 0 || rejected == 0 {
		return fmt.Errorf("vacuous: accepted=%d rejected=%d", accepted, rejected)
	}
	if byLen[2] == 0 {
		return fmt.Errorf("vacuous: no pair reached by two edits")
	}
	for _, k := range append(append([]string{}, docUnsafeKinds...), "AppendMaskedField", "AppendConstructor", "AddType", "AddFunction",
		"AppendFunctionMaskAndArgs", "ChangeExplicitTag", "AppendFieldOnSetBit", "DropExplicitTag", "AddExplicitTag") {
		n := 0
		for a, v := range byAction {
			if a == k || strings.HasPrefix(a, k+"/") {
				n += v
			}
		}
		if n == 0 {
			return fmt.Errorf("vacuous: action %s never exercised", k)
		}
	}

	// the recorded trace: every accepted call, and a bounded sample of the rejected ones
	var evs []traceEvent
	var evCase []int
	maxRejected := c.Pick(150, 1500)
	nRej := 0
	order := rnd.Perm(len(cases))
	for _, i := range order {
		pc := cases[i]
		if pc.verdict == "reject" {
			if nRej >= maxRejected {
				continue
			}
			nRej++
		}
		evs = append(evs, traceEvent{Old: bases[pc.m.B-1].S, New: pc.newEff, Verdict: pc.verdict, Kind: "pair"})
		evCase = append(evCase, i)
	}
	c.Set("trace_rejected_events_omitted", rejected-nRej)
	t0 := time.Now()
	bad, tr, err := validateTrace(c, evs, "SoundAll", c.Pick(8, 14), time.Duration(c.Pick(4, 15))*time.Minute)
	if err != nil {
		return err
	}
	if !tr.OK {
		return fmt.Errorf("TraceSchemaEvolution failed: %s\n%s", tr.ErrorKind, tr.ErrorText)
	}
	if tr.Distinct != len(evs) {
		return fmt.Errorf("trace validation covered %d of %d events", tr.Distinct, len(evs))
	}
	c.Logf("trace validation: %d events (%d accepted) in %v; %d accepted pairs are not wire compatible in the model", len(evs), accepted, time.Since(t0).Round(time.Second), len(bad))
	c.Add("traces_validated_against_impl", 1)
	c.Add("trace_events_validated", len(evs))
	c.Add("states", tr.Distinct)
	c.Set("accepted_pairs_wire_compatible", accepted-len(bad))
	c.Set("accepted_pairs_not_wire_compatible", len(bad))

	// attribute every unsound acceptance to the smallest set of edits that explains it
	sort.Slice(bad, func(a, b int) bool {
		return len(cases[evCase[bad[a]-1]].m.Log) < len(cases[evCase[bad[b]-1]].m.Log)
	})
	roots := map[string]int{}
	explained := 0
	for _, bi := range bad {
		pc := cases[evCase[bi-1]]
		old := bases[pc.m.B-1].S
		ul := unsafeLabels(pc.m.Log)
		if len(ul) == 0 {
			return fmt.Errorf("model error: the pair %s consists of safe edits only, the linter accepts it, but it is not wire compatible in the model:\n%s\n---\n%s",
				logLabel(pc.m.Log), RenderBody(old), RenderBody(pc.m.New))
		}
		isExplained := false
		if len(pc.m.Log) > 1 {
			for _, u := range ul {
				if roots[u] > 0 {
					isExplained = true
				}
			}
		}
		if isExplained {
			explained++
			continue
		}
		key := strings.Join(ul, "+")
		if len(pc.m.Log) == 1 {
			roots[key]++
			if roots[key] > 1 {
				continue // same class as an already reproduced and reported case
			}
		}
		r2, err := l.fresh(old, pc.m.New)
		if err != nil {
			return err
		}
		if !r2.Accepted {
			return fmt.Errorf("acceptance of %s not reproduced in a fresh process", logLabel(pc.m.Log))
		}
		what := fmt.Sprintf("the linter accepts (%s) but old encodings are not preserved by the new schema (WireCompatible is false in SchemaEvolution.tla)", logLabel(pc.m.Log))
		if r2.GenErrNew != "" {
			what += "; note: the generator front end rejects the new schema: " + r2.GenErrNew
		}
		c.Violate("linter-accepts/"+key, what,
			map[string]any{"old": RenderBody(old), "new": RenderBody(pc.m.New), "base": bases[pc.m.B-1].Name, "log": pc.m.Log, "old_model": old, "new_model": pc.m.New})
	}
	c.Set("unsound_acceptances_by_single_edit", roots)
	c.Set("unsound_two_edit_pairs_explained_by_a_single_edit_finding", explained)

	// cross-check with really generated code (tl2gen --language=go): the model's bytes of every old value are read and
	// rewritten by the old code (binds the spec's wire model) and by the new code (the property itself)
	if !c.Thorough() {
		c.Set("generated_code_pairs_checked", "thorough tier only (generation and build take about a minute)")
	} else {
		isBad := map[int]bool{}
		for _, bi := range bad {
			isBad[evCase[bi-1]] = true
		}
		var gp []genPair
		var gpKey []string
		seenLabel := map[string]bool{}
		nGood := c.Pick(1, 14)
		for _, i := range order {
			pc := cases[i]
			if pc.verdict != "accept" || len(pc.m.Log) == 0 || pc.genErr != "" {
				continue
			}
			lbl := logLabel(pc.m.Log)
			if seenLabel[lbl] {
				continue
			}
			if isBad[i] {
				ul := unsafeLabels(pc.m.Log)
				if len(pc.m.Log) != 1 || len(ul) != 1 || !c.Thorough() {
					continue // findings are re-confirmed with generated code in the thorough tier only (build time)
				}
				seenLabel[lbl] = true
				gp = append(gp, genPair{Old: bases[pc.m.B-1].S, New: pc.newEff, Label: lbl})
				gpKey = append(gpKey, "linter-accepts/"+ul[0])
				continue
			}
			if nGood > 0 {
				nGood--
				seenLabel[lbl] = true
				gp = append(gp, genPair{Old: bases[pc.m.B-1].S, New: pc.newEff, Label: lbl, ExpectWC: true})
				gpKey = append(gpKey, "")
			}
		}
		t1 := time.Now()
		gr, err := codegenCrossCheck(c, gp)
		if err != nil {
			return err
		}
		confirmed := map[string]any{}
		skipped := map[string]string{}
		nCases, nPairsOK := 0, 0
		for i, r := range gr {
			nCases += r.Cases
			if r.Skipped != "" {
				skipped[gp[i].Label] = r.Skipped
				continue
			}
			if len(r.OldFailures) > 0 {
				return fmt.Errorf("wire model error: code generated from the OLD schema does not read/rewrite the model's encodings of old values (%s): %s\n%s",
					gp[i].Label, strings.Join(r.OldFailures[:min(3, len(r.OldFailures))], "; "), RenderBody(gp[i].Old))
			}
			if r.ModelWC != gp[i].ExpectWC {
				return fmt.Errorf("model verdict for %s changed between runs", gp[i].Label)
			}
			if gp[i].ExpectWC {
				if len(r.NewFailures) > 0 {
					return fmt.Errorf("model says %s is wire compatible but code generated from the NEW schema disagrees: %s\n%s\n--->\n%s",
						gp[i].Label, strings.Join(r.NewFailures[:min(3, len(r.NewFailures))], "; "), RenderBody(gp[i].Old), RenderBody(gp[i].New))
				}
				nPairsOK++
			} else {
				if len(r.NewFailures) > 0 {
					confirmed[gpKey[i]] = r.NewFailures[0]
				} else {
					confirmed[gpKey[i]] = "not observable through top-level objects of the generated code"
				}
			}
		}
		c.Set("generated_code_pairs_checked", len(gp))
		c.Set("generated_code_wire_cases", nCases)
		c.Set("generated_code_compatible_pairs_confirmed", nPairsOK)
		c.Set("generated_code_confirmation_of_findings", confirmed)
		c.Set("generated_code_pairs_skipped", skipped)
		c.Logf("generated-code cross-check: %d pairs, %d wire cases in %v", len(gp), nCases, time.Since(t1).Round(time.Second))
		if nPairsOK == 0 {
			return fmt.Errorf("vacuous: no compatible pair was cross-checked with generated code")
		}
	}

	// samples
	ns := 0
	for _, i := range order {
		if ns >= 8 {
			break
		}
		pc := cases[i]
		if (ns%2 == 0) == (pc.verdict == "accept") {
			c.Sample(map[string]any{"base": bases[pc.m.B-1].Name, "edits": logLabel(pc.m.Log), "new": RenderBody(pc.m.New), "linter_verdict": pc.verdict})
			ns++
		}
	}

	// binding self-test: flip the verdict of one rejected pair that is a single documented unsafe, non-benign edit
	var flip []traceEvent
	for _, pc := range cases {
		if pc.verdict == "reject" && len(pc.m.Log) == 1 && pc.m.Log[0].Doc && !pc.m.Log[0].Benign && !pc.m.Log[0].Safe && pc.m.Log[0].A == "RemoveField" {
			flip = append(flip, traceEvent{Old: bases[pc.m.B-1].S, New: pc.newEff, Verdict: "accept", Kind: "pair"})
			break
		}
	}
	if len(flip) == 0 {
		return fmt.Errorf("self-test: no rejected RemoveField pair to flip")
	}
	_, tr2, err := validateTrace(c, flip, "Sound", 2, 3*time.Minute)
	if err != nil {
		return err
	}
	if tr2.OK || tr2.ErrorKind != "invariant" {
		return fmt.Errorf("binding self-test failed: a trace with a flipped verdict was not rejected (kind=%s)", tr2.ErrorKind)
	}
	c.Set("selftest_flipped_verdict_rejected", true)
	c.Set("rule", "TLC enumerates the pairs (old,new) reachable by <= 2 edits (safe, documented unsafe and undocumented unsafe, mixed) of MC_SchemaEvolution over prototype-derived and seeded random bases; each pair is rendered to .tl and given to the real CheckBackwardCompatibility; the recorded calls {old,new,verdict} are validated by TLC against TraceSchemaEvolution!Sound: verdict = accept => WireCompatible(old,new), evaluated with the spec's own TL1 wire model over all old values")
	assumptions(c)
	return nil
}
