package linter

import (
	"encoding/json"
	"fmt"
	"os"
	"path/filepath"
	"strconv"
	"strings"
	"time"

	"verif/core"
)

// Cross-check of the spec's TL1 wire model and of WireCompatible against really generated
// code: for a few recorded pairs the model prints the bytes of every old value (WireCases);
// Go code is generated for both schemas with the repository's tl2gen, and a small program
// reads those bytes with the old and with the new code and writes them back.

type wireCase struct {
	Name  string  `json:"name"`
	Fn    bool    `json:"fn"`
	Bare  []int   `json:"bare"`
	Boxed []int   `json:"boxed"`
	Pad   int     `json:"pad"`
	Res   [][]int `json:"res"`
}

type wireEmit struct {
	I     int        `json:"i"`
	WC    bool       `json:"wc"`
	Cases []wireCase `json:"cases"`
}

type genPair struct {
	Old, New Schema
	Label    string
	ExpectWC bool // model verdict (recomputed by TLC together with the cases)
}

const genMainSrc = `package main

import (
	"bufio"
	"bytes"
	"encoding/json"
	"fmt"
	"os"

@IMPORTS@
)

type object interface {
	ReadTL1(w []byte) ([]byte, error)
	ReadTL1Boxed(w []byte) ([]byte, error)
	WriteTL1General(w []byte) ([]byte, error)
	WriteTL1BoxedGeneral(w []byte) ([]byte, error)
}

type function interface {
	object
	ReadResultTL1WriteResultJSON(jctx *basictl.JSONWriteContext, r []byte, w []byte) ([]byte, []byte, error)
	ReadResultJSONWriteResultTL1(jctx *basictl.JSONReadContext, r []byte, w []byte) ([]byte, []byte, error)
}

var objects = map[string]func(name string) object{
@OBJECTS@
}
var functions = map[string]func(name string) function{
@FUNCTIONS@
}

type req struct {
	Side  string  ` + "`json:\"side\"`" + `
	Name  string  ` + "`json:\"name\"`" + `
	Fn    bool    ` + "`json:\"fn\"`" + `
	Bare  []int   ` + "`json:\"bare\"`" + `
	Boxed []int   ` + "`json:\"boxed\"`" + `
	Res   [][]int ` + "`json:\"res\"`" + `
}

func bs(x []int) []byte {
	b := make([]byte, len(x))
	for i, v := range x {
		b[i] = byte(v)
	}
	return b
}

func roundTrip(read func([]byte) ([]byte, error), write func([]byte) ([]byte, error), in []byte) string {
	rest, err := read(in)
	if err != nil {
		return "read: " + err.Error()
	}
	if len(rest) != 0 {
		return fmt.Sprintf("read left %d bytes", len(rest))
	}
	out, err := write(nil)
	if err != nil {
		return "write: " + err.Error()
	}
	if !bytes.Equal(out, in) {
		return fmt.Sprintf("rewritten as %x, expected %x", out, in)
	}
	return ""
}

func handle(q req) (res string) {
	defer func() {
		if r := recover(); r != nil {
			res = fmt.Sprint("panic: ", r)
		}
	}()
	if q.Fn {
		mk := functions[q.Side]
		if mk == nil {
			return "no such side"
		}
		f := mk(q.Name)
		if f == nil {
			return "function not registered"
		}
		if e := roundTrip(f.ReadTL1Boxed, f.WriteTL1BoxedGeneral, bs(q.Boxed)); e != "" {
			return "request: " + e
		}
		for _, r := range q.Res {
			rb := bs(r)
			rest, js, err := f.ReadResultTL1WriteResultJSON(nil, rb, nil)
			if err != nil {
				return "result read: " + err.Error()
			}
			if len(rest) != 0 {
				return fmt.Sprintf("result read left %d bytes", len(rest))
			}
			_, back, err := f.ReadResultJSONWriteResultTL1(nil, js, nil)
			if err != nil {
				return "result json: " + err.Error() + " " + string(js)
			}
			if !bytes.Equal(back, rb) {
				return fmt.Sprintf("result rewritten as %x, expected %x (json %s)", back, rb, js)
			}
		}
		return ""
	}
	mk := objects[q.Side]
	if mk == nil {
		return "no such side"
	}
	o := mk(q.Name)
	if o == nil {
		return "object not registered"
	}
	if e := roundTrip(o.ReadTL1, o.WriteTL1General, bs(q.Bare)); e != "" {
		return "bare: " + e
	}
	o = mk(q.Name)
	if e := roundTrip(o.ReadTL1Boxed, o.WriteTL1BoxedGeneral, bs(q.Boxed)); e != "" {
		return "boxed: " + e
	}
	return ""
}

func main() {
	rd := bufio.NewReaderSize(os.Stdin, 1<<22)
	wr := bufio.NewWriter(os.Stdout)
	for {
		line, err := rd.ReadBytes('\n')
		if len(bytes.TrimSpace(line)) > 1 {
			var q req
			out := map[string]string{}
			if jerr := json.Unmarshal(line, &q); jerr != nil {
				out["err"] = "bad request"
			} else {
				out["err"] = handle(q)
			}
			b, _ := json.Marshal(out)
			wr.Write(b)
			wr.WriteByte('\n')
			wr.Flush()
		}
		if err != nil {
			return
		}
	}
}
`

// codegenCrossCheck returns, per pair, the number of wire cases and the failures under the old and new code.
type genResult struct {
	Skipped     string // non-empty: tl2gen refused the new schema
	Cases       int
	ModelWC     bool
	OldFailures []string // old code must read and rewrite every old value exactly as the model says
	NewFailures []string
}

func codegenCrossCheck(c *core.Ctx, pairs []genPair) ([]genResult, error) {
	// 1. the model's wire cases
	evs := make([]traceEvent, len(pairs))
	for i, p := range pairs {
		evs[i] = traceEvent{Old: p.Old, New: p.New, Verdict: "accept", Kind: "pair"}
	}
	emits := map[int]wireEmit{}
	opts := core.TLCOpts{Module: "TraceSchemaEvolution", Cfg: "TraceSchemaEvolution.cfg", Workers: 4, Timeout: 5 * time.Minute,
		Files:  map[string][]byte{"trace.ndjson": traceBytes(evs)},
		Consts: map[string]string{"MAXBIT": strconv.Itoa(maxBit), "INV": "WireAll"},
		OnEmit: func(raw json.RawMessage) {
			var w wireEmit
			if json.Unmarshal(raw, &w) == nil && w.I > 0 {
				emits[w.I] = w
			}
		}}
	if _, err := c.MustTLC(opts); err != nil {
		return nil, err
	}
	if len(emits) != len(pairs) {
		return nil, fmt.Errorf("wire cases: %d of %d pairs", len(emits), len(pairs))
	}
	// 2. generate code for both schemas of every pair
	tl2gen, err := c.BuildRepoCmd("tl2gen")
	if err != nil {
		return nil, err
	}
	mod, err := c.ScratchModule("vlint")
	if err != nil {
		return nil, err
	}
	var imports, objs, fns []string
	imports = append(imports, "\t\"github.com/VKCOM/tl/pkg/basictl\"")
	results := make([]genResult, len(pairs))
	for i, p := range pairs {
		var imp, ob, fn []string
		for _, side := range []string{"old", "new"} {
			s := p.Old
			if side == "new" {
				s = p.New
			}
			id := fmt.Sprintf("p%d%s", i, side)
			tlf := filepath.Join(mod, id+".tl")
			if err := os.WriteFile(tlf, []byte(Render(s)), 0o644); err != nil {
				return nil, err
			}
			out, err := c.Run(mod, 2*time.Minute, core.GoEnv(), tl2gen, "--language=go", "--outdir=./"+id, "--pkgPath=vlint/"+id+"/tl", tlf)
			if err != nil {
				if side == "old" {
					return nil, fmt.Errorf("tl2gen rejects a base schema (%s): %v\n%s\n%s", p.Label, err, out, RenderBody(s))
				}
				results[i].Skipped = "tl2gen rejects the new schema: " + lastLine(stripANSI(out))
				_ = os.RemoveAll(filepath.Join(mod, id))
				break
			}
			imp = append(imp, fmt.Sprintf("\t%sfactory \"vlint/%s/factory\"", id, id))
			ob = append(ob, fmt.Sprintf("\t%q: func(n string) object { if o := %sfactory.CreateObjectFromName(n); o != nil { return o }; return nil },", id, id))
			fn = append(fn, fmt.Sprintf("\t%q: func(n string) function { if o := %sfactory.CreateFunctionFromName(n); o != nil { return o }; return nil },", id, id))
		}
		if results[i].Skipped == "" {
			imports = append(imports, imp...)
			objs = append(objs, ob...)
			fns = append(fns, fn...)
		} else {
			_ = os.RemoveAll(filepath.Join(mod, fmt.Sprintf("p%dold", i)))
		}
	}
	src := strings.NewReplacer("@IMPORTS@", strings.Join(imports, "\n"), "@OBJECTS@", strings.Join(objs, "\n"), "@FUNCTIONS@", strings.Join(fns, "\n")).Replace(genMainSrc)
	if err := os.MkdirAll(filepath.Join(mod, "cmd"), 0o755); err != nil {
		return nil, err
	}
	if err := os.WriteFile(filepath.Join(mod, "cmd", "main.go"), []byte(src), 0o644); err != nil {
		return nil, err
	}
	bin := filepath.Join(c.Scratch, "vlint-bin")
	if out, err := c.Run(mod, 10*time.Minute, core.GoEnv(), "go", "build", "-o", bin, "./cmd"); err != nil {
		return nil, fmt.Errorf("building generated code: %v\n%s", err, out)
	}
	p, err := core.StartProc(bin, nil)
	if err != nil {
		return nil, err
	}
	defer p.Close()
	// 3. run the cases
	for i := range pairs {
		w := emits[i+1]
		results[i].ModelWC = w.WC
		if results[i].Skipped != "" {
			continue
		}
		results[i].Cases = len(w.Cases)
		for _, cs := range w.Cases {
			for _, side := range []string{"old", "new"} {
				boxed := cs.Boxed
				if side == "new" && cs.Fn && cs.Pad > 0 {
					boxed = append(append([]int{}, cs.Boxed...), make([]int, cs.Pad)...)
				}
				var out map[string]string
				if err := p.Call(map[string]any{"side": fmt.Sprintf("p%d%s", i, side), "name": cs.Name, "fn": cs.Fn, "bare": cs.Bare, "boxed": boxed, "res": cs.Res}, &out); err != nil {
					return nil, err
				}
				if out["err"] != "" {
					msg := fmt.Sprintf("%s %x: %s", cs.Name, toBytes(boxed), out["err"])
					if side == "old" {
						results[i].OldFailures = append(results[i].OldFailures, msg)
					} else {
						results[i].NewFailures = append(results[i].NewFailures, msg)
					}
				}
			}
		}
	}
	return results, nil
}

func toBytes(x []int) []byte {
	b := make([]byte, len(x))
	for i, v := range x {
		b[i] = byte(v)
	}
	return b
}

func stripANSI(s string) string {
	var sb strings.Builder
	in := false
	for _, r := range s {
		switch {
		case r == 0x1b:
			in = true
		case in && (r >= 'a' && r <= 'z' || r >= 'A' && r <= 'Z'):
			in = false
		case !in:
			sb.WriteRune(r)
		}
	}
	return sb.String()
}

// lastLine returns the last line that looks like the diagnostic (skipping the final status line).
func lastLine(s string) string {
	ls := strings.Split(strings.TrimSpace(s), "\n")
	for i := len(ls) - 1; i >= 0; i-- {
		l := strings.TrimSpace(ls[i])
		if l == "" || strings.HasPrefix(l, "TL Generation") || strings.HasPrefix(l, "^") {
			continue
		}
		if len(l) > 200 {
			l = l[:200]
		}
		return l
	}
	return ""
}
