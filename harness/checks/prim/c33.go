// Package prim: C33 (primitive codecs) and C34 (JSON primitive writers).
package prim

import (
	"encoding/json"
	"fmt"
	"os"
	"path/filepath"
	"reflect"
	"regexp"
	"strconv"
	"strings"

	"verif/core"
)

func init() {
	core.Register("C33", "model_checking", runC33)
}

func setStr(xs []int) string {
	s := make([]string, len(xs))
	for i, x := range xs {
		s[i] = strconv.Itoa(x)
	}
	return "{" + strings.Join(s, ", ") + "}"
}

func rangeInts(a, b int) []int {
	var r []int
	for i := a; i <= b; i++ {
		r = append(r, i)
	}
	return r
}

type primEmit struct {
	Tc  map[string]any `json:"tc"`
	Exp map[string]any `json:"exp"`
}

func num(v any) int {
	f, _ := v.(float64)
	return int(f)
}

func specErrClass(e any) string {
	s, _ := e.(string)
	switch s {
	case "":
		return ""
	case "eof":
		return "eof"
	}
	return "other"
}

func runC33(c *core.Ctx) error {
	drv := filepath.Join(c.Scratch, "primdrv")
	if err := c.BuildInRepo("internal/verifx/prim", map[string]string{
		"internal/verifx/prim/main.go": core.DriverSrc("prim/main.go")}, drv, false, false); err != nil {
		return err
	}
	p, err := core.StartProc(drv, nil)
	if err != nil {
		return err
	}
	defer p.Close()

	lens := rangeInts(0, c.Pick(300, 700))
	lens = append(lens, 65788, 65789, 65790, 65791, 65792) // TL2 medium/huge switch 254+65536
	if c.Thorough() {
		lens = append(lens, 16777213, 16777214, 16777215, 16777216, 16777217, 16777218) // TL1 medium/huge switch
	} else {
		lens = append(lens, 16777215, 16777216)
	}
	sizes := append(rangeInts(0, 300), 65789, 65790, 65791, 16777215, 16777216, 2147483647)
	res, err := c.MustTLC(core.TLCOpts{Module: "MC_Prim", Cfg: "MC_Prim.cfg", Workers: 8,
		Consts: map[string]string{"LENS": setStr(lens), "SIZES": setStr(sizes), "MAXBITS": strconv.Itoa(c.Pick(10, 13))}})
	if err != nil {
		return err
	}
	c.Add("states", res.Distinct)
	c.Add("transitions", res.Generated)
	c.Logf("TLC MC_Prim: %d distinct states, %d emits, %v", res.Distinct, res.NEmits, res.Wall)
	if res.NEmits != res.Distinct {
		return fmt.Errorf("emit count %d != distinct states %d", res.NEmits, res.Distinct)
	}

	byMut := map[string]int{}
	accepted, rejected := 0, 0
	for _, raw := range res.Emits {
		var e primEmit
		if err := json.Unmarshal(raw, &e); err != nil {
			return err
		}
		var got map[string]any
		if err := p.Call(e.Tc, &got); err != nil {
			return fmt.Errorf("driver: %v", err)
		}
		op, _ := e.Tc["op"].(string)
		mut, _ := e.Tc["mut"].(string)
		byMut[op+"/"+mut]++
		bad := comparePrim(op, e, got)
		if _, ok := got["panic"]; ok {
			bad = fmt.Sprintf("panic: %v", got["panic"])
		}
		if got["err"] == "" {
			accepted++
		} else {
			rejected++
		}
		if bad != "" {
			key := fmt.Sprintf("%s/%s/%s", op, mut, caseID(e.Tc))
			c.Violate(key, fmt.Sprintf("basictl disagrees with Prim spec: %s; expected %v got %v", bad, e.Exp, got), e)
		}
		if c.Get("evaluations")%977 == 0 {
			c.Sample(map[string]any{"case": e.Tc, "expected": e.Exp, "observed": got})
		}
		c.Add("evaluations", 1)
	}
	c.Set("cases_by_op_mutation", byMut)
	c.Set("impl_accepted", accepted)
	c.Set("impl_rejected", rejected)
	c.Set("distinct_nontrivial", res.Distinct)
	if accepted == 0 || rejected == 0 {
		return fmt.Errorf("vacuous: accepted=%d rejected=%d", accepted, rejected)
	}

	// code -> spec: random calls recorded by the driver, validated by TLC
	nEv := c.Pick(4000, 40000)
	tr := filepath.Join(c.Scratch, "prim-trace.ndjson")
	var got map[string]any
	if err := p.Call(map[string]any{"op": "randtrace", "count": nEv, "seed": c.Seed, "out": tr}, &got); err != nil {
		return err
	}
	tb, err := os.ReadFile(tr)
	if err != nil {
		return err
	}
	if err := validatePrimTrace(c, tb, true); err != nil {
		return err
	}
	// binding self-test: a corrupted trace must be rejected
	if bad := corruptTrace(tb); bad != nil {
		r, err := c.TLC(core.TLCOpts{Module: "TracePrim", Cfg: "TracePrim.cfg", Files: map[string][]byte{"trace.ndjson": bad}, Workers: 8})
		if err != nil {
			return err
		}
		if r.OK || r.ErrorKind != "invariant" {
			return fmt.Errorf("binding self-test failed: corrupted trace was not rejected (kind=%s)", r.ErrorKind)
		}
		c.Set("selftest_corrupted_trace_rejected", true)
	}
	c.Set("rule", "TLC enumerates every (length|value) x mutation case of MC_Prim (distinct states = distinct cases, all non-trivial: each is a different stream); each is replayed into pkg/basictl; plus random calls validated by TracePrim")
	c.Assume("16 MiB bodies are materialised by the harness from the symbolic stream [hdr,n,fill,tail]")
	c.Assume("error classes compared: unexpected-EOF vs any other error; error texts are not compared")
	return nil
}

var reI = regexp.MustCompile(`(?m)^\s*i = (\d+)`)

func validatePrimTrace(c *core.Ctx, tb []byte, record bool) error {
	r, err := c.TLC(core.TLCOpts{Module: "TracePrim", Cfg: "TracePrim.cfg", Files: map[string][]byte{"trace.ndjson": tb}, Workers: 8})
	if err != nil {
		return err
	}
	lines := strings.Split(strings.TrimSpace(string(tb)), "\n")
	if r.OK {
		if r.Distinct != len(lines) {
			return fmt.Errorf("trace validation covered %d of %d events", r.Distinct, len(lines))
		}
		c.Add("traces_validated_against_impl", 1)
		c.Add("trace_events_validated", len(lines))
		c.Add("states", r.Distinct)
		c.Sample(map[string]any{"trace_event": json.RawMessage(lines[len(lines)/2])})
		return nil
	}
	if r.ErrorKind != "invariant" {
		return fmt.Errorf("TracePrim failed: %s\n%s", r.ErrorKind, r.ErrorText)
	}
	m := reI.FindStringSubmatch(r.ErrorText)
	if m == nil {
		return fmt.Errorf("TracePrim rejected the trace but the event index was not found:\n%s", r.ErrorText)
	}
	idx, _ := strconv.Atoi(m[1])
	ev := lines[idx-1]
	var e map[string]any
	_ = json.Unmarshal([]byte(ev), &e)
	c.Violate(fmt.Sprintf("trace/%v/%s", e["op"], shortJSON(e["in"], e["body"], e["val"], e["bits"])),
		"recorded basictl call is not a behaviour of the Prim spec: "+ev, json.RawMessage(ev))
	return nil
}

func shortJSON(vs ...any) string {
	for _, v := range vs {
		if v != nil {
			b, _ := json.Marshal(v)
			if len(b) > 60 {
				b = b[:60]
			}
			return string(b)
		}
	}
	return ""
}

// corruptTrace flips one output byte of the first w1 event.
func corruptTrace(tb []byte) []byte {
	lines := strings.Split(strings.TrimSpace(string(tb)), "\n")
	for i, l := range lines {
		var e map[string]any
		if json.Unmarshal([]byte(l), &e) != nil || e["op"] != "w1" {
			continue
		}
		out, _ := e["out"].([]any)
		if len(out) == 0 {
			continue
		}
		out[0] = float64((num(out[0]) + 1) % 256)
		b, _ := json.Marshal(e)
		lines[i] = string(b)
		return []byte(strings.Join(lines, "\n") + "\n")
	}
	return nil
}

func caseID(tc map[string]any) string {
	s, _ := tc["s"].(map[string]any)
	id := ""
	if l, ok := tc["l"]; ok {
		id += fmt.Sprintf("l=%v,", l)
	}
	if s != nil {
		hb, _ := json.Marshal(s["hdr"])
		tb, _ := json.Marshal(s["tail"])
		id += fmt.Sprintf("hdr=%s,n=%v,fill=%v,tail=%s", hb, s["n"], s["fill"], tb)
	}
	if b, ok := tc["bits"]; ok {
		bb, _ := json.Marshal(b)
		id += string(bb)
	}
	return id
}

func comparePrim(op string, e primEmit, got map[string]any) string {
	exp := e.Exp
	mut, _ := e.Tc["mut"].(string)
	switch op {
	case "s1", "s2":
		if specErrClass(exp["err"]) != got["err"] {
			return "error class"
		}
		if exp["ok"] == true {
			if num(exp["len"]) != num(got["len"]) || num(exp["consumed"]) != num(got["consumed"]) {
				return "decoded length / consumed bytes"
			}
			if got["content"] != true {
				return "decoded content"
			}
		}
		if got["bytesSame"] != true {
			return "[]byte variant differs from string variant"
		}
		if mut == "none" && got["wr"] != true {
			return "writer output differs from specified encoding"
		}
	case "z2":
		if specErrClass(exp["err"]) != got["err"] {
			return "error class"
		}
		if exp["ok"] == true {
			if num(exp["consumed"]) != num(got["consumed"]) {
				return "consumed bytes"
			}
			if num(exp["val"]) >= 0 && num(exp["val"]) != num(got["val"]) {
				return "parsed size"
			}
			if num(exp["val"]) < 0 { // >= 2^31: the harness recomputes from the 8 bytes
				s := e.Tc["s"].(map[string]any)
				h := s["hdr"].([]any)
				var v int64
				for i := 8; i >= 1; i-- {
					v = v<<8 | int64(num(h[i]))
				}
				if gv, _ := got["val"].(float64); int64(gv) != v {
					return "parsed huge size"
				}
			}
		}
		if got["bytesSame"] != true {
			return "TL2ReadSize differs from TL2ParseSize"
		}
		if mut == "none" && got["wr"] != true {
			return "TL2WriteSize/PutSize/CalculateSize differ from specified encoding"
		}
	case "h1big":
		if !reflect.DeepEqual(toInts(exp["hdr"]), toInts(got["hdr"])) || num(exp["pad"]) != num(got["pad"]) {
			return "StringWriteLen header/padding"
		}
		rd := exp["rd"].(map[string]any)
		if specErrClass(rd["err"]) != got["err"] {
			return "error class reading a lone huge header"
		}
	case "bits":
		if !reflect.DeepEqual(toInts(exp["bytes"]), toInts(got["bytes"])) {
			return "packed bytes"
		}
		if !reflect.DeepEqual(toBools(exp["back"]), toBools(got["back"])) || got["err"] != "" {
			return "unpacked bits"
		}
		if num(got["consumed"]) != len(toInts(exp["bytes"])) {
			return "consumed bytes"
		}
		if te, ok := got["truncErr"]; ok && te != "eof" {
			return "truncated bit vector not reported as unexpected EOF"
		}
	case "fixed":
		if specErrClass(exp["err"]) != got["err"] {
			return "error class"
		}
		if m, ok := got["mismatch"]; ok {
			return fmt.Sprint(m)
		}
		if exp["ok"] == true {
			if num(exp["consumed"]) != num(got["consumed"]) || !reflect.DeepEqual(toInts(exp["val"]), toInts(got["val"])) {
				return "value bytes / consumed"
			}
		}
	case "bool":
		if specErrClass(exp["err"]) != got["err"] {
			return "error class"
		}
		if exp["ok"] == true && exp["val"] != got["val"] {
			return "bool value"
		}
	default:
		return "unknown op"
	}
	return ""
}

func toInts(v any) []int {
	a, _ := v.([]any)
	r := make([]int, 0, len(a))
	for _, x := range a {
		r = append(r, num(x))
	}
	return r
}

func toBools(v any) []bool {
	a, _ := v.([]any)
	r := make([]bool, 0, len(a))
	for _, x := range a {
		b, _ := x.(bool)
		r = append(r, b)
	}
	return r
}
