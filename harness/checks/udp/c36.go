// Package udp: C36 - the reliable UDP transport delivers every message intact exactly once.
//
// Spec: spec/UdpTransport.tla (the simulator's command alphabet as actions), checked by TLC
// (MC_UdpTransport: safety exhaustively, liveness under fairness).  Binding:
//
//	(a) command strings projected from TLC behaviours (SimUdpTransport, -simulate with the seed)
//	(b) seeded random command strings, without and with generation bumps (restarts)
//
// are executed on the real transports by the in-package driver (harness/drivers/udp), which
// records one event per command; TLC validates the recorded traces against
// TraceUdpTransport.tla.  The verdict is TLC's: the Go side only generates inputs, runs the
// driver and chooses which traces go through TLC.
package udp

import (
	"bytes"
	"encoding/hex"
	"encoding/json"
	"fmt"
	"math/rand"
	"os"
	"path/filepath"
	"regexp"
	"sort"
	"strconv"
	"strings"
	"sync"
	"time"

	"verif/core"
)

func init() {
	core.Register("C36", "model_checking", runC36)
}

// ---------------------------------------------------------------------------
// driver protocol

type scen struct {
	ID       int    `json:"id"`
	Cmds     string `json:"cmds"`
	Restarts bool   `json:"restarts"`
	Trace    bool   `json:"trace"`
	NoSettle bool   `json:"noSettle,omitempty"`
	class    string
}

type scenRes struct {
	ID        int            `json:"id"`
	Traced    bool           `json:"traced"`
	Panic     string         `json:"panic"`
	PanicAt   int            `json:"panicAt"`
	PanicCmd  string         `json:"panicCmd"`
	Settle    string         `json:"settle"`
	Rounds    int            `json:"rounds"`
	Events    int            `json:"events"`
	Sent      int            `json:"sent"`
	Delivered int            `json:"delivered"`
	Susp      []string       `json:"susp"`
	Acts      map[string]int `json:"acts"`
	Restarted int            `json:"restarted"`
	MaxMem    int64          `json:"maxMem"`
	Waited    int            `json:"waited"`
}

type batchResp struct {
	Error  string    `json:"error"`
	Res    []scenRes `json:"res"`
	Events int       `json:"events"`
}

func buildDriver(c *core.Ctx) (string, error) {
	drv := filepath.Join(c.Scratch, "udpdrv")
	err := c.BuildInRepo("internal/verifx/udp", map[string]string{
		"pkg/rpc/udp/verif_transport_driver.go": core.DriverSrc("udp/verif_transport_driver.go"),
		"internal/verifx/udp/main.go":           core.DriverSrc("udp/main.go"),
	}, drv, false, false)
	return drv, err
}

func runBatch(p *core.Proc, out string, scs []scen, flushSusp bool) (*batchResp, error) {
	var resp batchResp
	req := map[string]any{"op": "batch", "out": out, "scen": scs, "flushSusp": flushSusp, "rounds": 250, "stuckAt": 8}
	if err := p.Call(req, &resp); err != nil {
		return nil, err
	}
	if resp.Error != "" {
		return nil, fmt.Errorf("driver: %s", resp.Error)
	}
	if len(resp.Res) != len(scs) {
		return nil, fmt.Errorf("driver answered %d of %d scenarios", len(resp.Res), len(scs))
	}
	return &resp, nil
}

// ---------------------------------------------------------------------------
// command strings (the byte alphabet of udp.FuzzDyukov)

type genOpts struct {
	nt       int
	restarts bool
	minCmds  int
	maxCmds  int
	big      bool // memory pressure: many large messages
}

func genCmds(rnd *rand.Rand, o genOpts) []byte {
	n := o.minCmds + rnd.Intn(o.maxCmds-o.minCmds+1)
	var b []byte
	small := []int{4, 8, 24, 28, 32, 56, 60, 84}
	large := []int{100, 200, 252, 252, 248, 128}
	for i := 0; i < n; i++ {
		x := rnd.Float64()
		t := byte(rnd.Intn(o.nt))
		switch {
		case x < 0.18:
			s := rnd.Intn(o.nt - 1)
			d := s + 1 + rnd.Intn(o.nt-s-1)
			var size int
			switch {
			case o.big && rnd.Intn(3) > 0:
				size = large[rnd.Intn(len(large))]
			case rnd.Intn(5) == 0:
				size = 4 * (1 + rnd.Intn(63))
			case rnd.Intn(6) == 0:
				size = large[rnd.Intn(len(large))]
			default:
				size = small[rnd.Intn(len(small))]
			}
			b = append(b, 'n', byte(s|d<<4), byte(size))
		case x < 0.43:
			b = append(b, 'w', t)
		case x < 0.65:
			b = append(b, 'r', t, byte(rnd.Intn(8)))
		case x < 0.78:
			b = append(b, 'e', t)
		case x < 0.90:
			k := 3
			if o.restarts {
				k = 4
			}
			kind := rnd.Intn(k)
			if kind == 3 && rnd.Intn(2) == 0 {
				kind = 0 // regenerate timers less often
			}
			b = append(b, 't', t|byte(kind)<<4)
		case x < 0.95:
			b = append(b, 'd', t, byte(rnd.Intn(8)))
		default:
			b = append(b, 'l', t, byte(rnd.Intn(8)))
		}
	}
	return append(b, 0, 0)
}

// simCmds turns a behaviour of SimUdpTransport (list of commands) into simulator bytes.
func simCmds(hist [][]any) []byte {
	var b []byte
	num := func(v any) int { f, _ := v.(float64); return int(f) }
	for _, cm := range hist {
		if len(cm) == 0 {
			continue
		}
		op, _ := cm[0].(string)
		switch op {
		case "n":
			b = append(b, 'n', byte(num(cm[1])|num(cm[2])<<4), byte(28*num(cm[3])))
		case "w":
			b = append(b, 'w', byte(num(cm[1])))
		case "r":
			b = append(b, 'r', byte(num(cm[1])), byte(num(cm[2])))
		case "e":
			b = append(b, 'e', byte(num(cm[1])))
		case "t":
			b = append(b, 't', byte(num(cm[1])|num(cm[2])<<4))
		case "d":
			b = append(b, 'd', byte(num(cm[1])), byte(num(cm[2])))
		case "l":
			b = append(b, 'l', byte(num(cm[1])), byte(num(cm[2])))
		}
	}
	return append(b, 0, 0)
}

// ---------------------------------------------------------------------------
// trace files and TLC

type segment struct {
	sc    scen
	res   scenRes
	lines [][]byte // the scenario's events (full trace, or one "sum" line)
}

var reRejected = regexp.MustCompile(`"rejected":(\d+)`)

// validate runs TLC on the concatenation of the segments. It returns the index of the
// first rejected segment (-1 when everything was accepted) and the rejected event.
func validate(c *core.Ctx, nt int, segs []segment) (bad int, event []byte, events int, err error) {
	var buf bytes.Buffer
	ends := make([]int, len(segs))
	n := 0
	for i, s := range segs {
		for _, l := range s.lines {
			buf.Write(l)
			buf.WriteByte('\n')
			n++
		}
		ends[i] = n
	}
	if n == 0 {
		return -1, nil, 0, nil
	}
	r, err := c.TLC(core.TLCOpts{Module: "TraceUdpTransport", Cfg: "TraceUdpTransport.cfg",
		Consts: map[string]string{"NT": strconv.Itoa(nt)}, Files: map[string][]byte{"trace.ndjson": buf.Bytes()},
		Workers: 1, Timeout: 40 * time.Minute, HeapMB: 3072})
	if err != nil {
		return -1, nil, 0, err
	}
	if r.OK {
		if r.Distinct != n+1 {
			return -1, nil, 0, fmt.Errorf("trace validation covered %d states for %d events", r.Distinct, n)
		}
		return -1, nil, n, nil
	}
	if r.ErrorKind != "postcondition" {
		return -1, nil, 0, fmt.Errorf("TraceUdpTransport failed on the model level: %s\n%s", r.ErrorKind, r.ErrorText)
	}
	d := -1
	for _, e := range r.Emits {
		if m := reRejected.FindSubmatch(e); m != nil {
			d, _ = strconv.Atoi(string(m[1]))
		}
	}
	if d < 1 || d > n {
		return -1, nil, 0, fmt.Errorf("TraceUdpTransport rejected the trace but gave no event index (%d of %d)", d, n)
	}
	// event d (1-based) was not matched
	for i := range segs {
		if d <= ends[i] {
			start := 0
			if i > 0 {
				start = ends[i-1]
			}
			return i, segs[i].lines[d-1-start], ends[i] - len(segs[i].lines), nil
		}
	}
	return -1, nil, 0, fmt.Errorf("rejected event index out of range")
}

func splitLines(b []byte) [][]byte {
	var out [][]byte
	for _, l := range bytes.Split(b, []byte{'\n'}) {
		if len(l) > 0 {
			out = append(out, l)
		}
	}
	return out
}

// readSegments splits a driver output file into per scenario segments, in scenario order.
func readSegments(path string, scs []scen, res []scenRes) ([]segment, error) {
	b, err := os.ReadFile(path)
	if err != nil {
		return nil, err
	}
	lines := splitLines(b)
	var segs []segment
	i := 0
	for k, r := range res {
		if r.Traced {
			if i >= len(lines) || !bytes.HasPrefix(lines[i], []byte(`{"op":"reset"`)) {
				return nil, fmt.Errorf("trace file out of step at scenario %d", r.ID)
			}
			j := i + 1
			for j < len(lines) && !bytes.HasPrefix(lines[j], []byte(`{"op":"reset"`)) && !bytes.HasPrefix(lines[j], []byte(`{"op":"sum"`)) {
				j++
			}
			segs = append(segs, segment{sc: scs[k], res: r, lines: lines[i:j]})
			i = j
		} else if r.Panic == "" && !scs[k].NoSettle {
			if i >= len(lines) || !bytes.HasPrefix(lines[i], []byte(`{"op":"sum"`)) {
				return nil, fmt.Errorf("summary missing for scenario %d", r.ID)
			}
			segs = append(segs, segment{sc: scs[k], res: r, lines: lines[i : i+1]})
			i++
		}
	}
	if i != len(lines) {
		return nil, fmt.Errorf("trace file has %d unexpected trailing lines", len(lines)-i)
	}
	return segs, nil
}

// ---------------------------------------------------------------------------

type checker struct {
	c      *core.Ctx
	drv    string
	nt     int
	mu     sync.Mutex
	nextID int
	acts   map[string]int
	settle map[string]int
	stats  map[string]int
	failed []error
	tried  map[string]int // confirmations per class of outcome
}

// mayConfirm limits the number of re-executions per class of outcome (a mutated transport
// can make thousands of scenarios fail in the same way).
func (k *checker) mayConfirm(class string) bool {
	k.mu.Lock()
	defer k.mu.Unlock()
	if k.tried == nil {
		k.tried = map[string]int{}
	}
	k.tried[class]++
	if k.tried[class] > 2 || len(k.tried) > 40 {
		k.stats["failures_not_reexecuted_same_class"]++
		return false
	}
	return true
}

func (k *checker) fail(err error) {
	k.mu.Lock()
	k.failed = append(k.failed, err)
	k.mu.Unlock()
}

// memoryClass classifies a memory imbalance visible in the rejected event of a restart
// trace: direction (held by nobody / released twice) and whether a connection object of
// that transport was replaced by this very step.
func memoryClass(seg segment, evLine []byte, ev map[string]any) string {
	mem, ok := ev["mem"].(float64)
	cs, _ := ev["cs"].([]any)
	if !ok {
		return ""
	}
	incs := func(cs []any) string {
		var xs []string
		for _, x := range cs {
			m, _ := x.(map[string]any)
			xs = append(xs, fmt.Sprint(m["p"], ":", m["c"]))
		}
		sort.Strings(xs)
		return strings.Join(xs, ",")
	}
	held := 0.0
	for _, x := range cs {
		m, _ := x.(map[string]any)
		t, _ := m["tot"].(float64)
		b, _ := m["beg"].(float64)
		held += t - b
	}
	if mem == held {
		return ""
	}
	dir := "not-released"
	if mem < held {
		dir = "over-released"
	}
	// previous projection of the same transport
	reset := "without-reset"
	var prev map[string]any
	for _, l := range seg.lines {
		if bytes.Equal(l, evLine) {
			break
		}
		var e map[string]any
		if json.Unmarshal(l, &e) == nil && e["t"] == ev["t"] && e["cs"] != nil {
			prev = e
		}
	}
	if prev != nil {
		pcs, _ := prev["cs"].([]any)
		if incs(pcs) != incs(cs) {
			reset = "on-reset"
			// what the connection objects that disappeared were holding
			now := map[string]bool{}
			for _, x := range cs {
				m, _ := x.(map[string]any)
				now[fmt.Sprint(m["c"])] = true
			}
			gone, started := 0.0, false
			for _, x := range pcs {
				m, _ := x.(map[string]any)
				if !now[fmt.Sprint(m["c"])] {
					t, _ := m["tot"].(float64)
					b, _ := m["beg"].(float64)
					gone += t - b
					iP, _ := m["iP"].(float64)
					iN, _ := m["iN"].(float64)
					if iP < iN {
						started = true // a non-empty window always holds an allocated message
					}
				}
			}
			if dir == "not-released" && gone > 0 && mem-held >= gone && started {
				// the unchanged tree releases the allocated messages of the window and leaks only
				// what was granted for messages that had not started; releasing nothing although
				// the window held a started message is another defect
				return "memory-nothing-released-on-reset"
			}
		}
	}
	return "memory-" + dir + "-" + reset
}

func violationKey(seg segment, evLine []byte, ev map[string]any) string {
	mode := "strict"
	if seg.sc.Restarts {
		mode = "restarts"
	}
	op, _ := ev["op"].(string)
	if seg.sc.Restarts {
		if mc := memoryClass(seg, evLine, ev); mc != "" {
			return "restarts/" + mc // the leak of the unchanged tree: restarts/memory-not-released-on-reset
		}
	}
	what := "step-mismatch"
	if len(seg.res.Susp) > 0 {
		what = seg.res.Susp[0]
		if strings.HasPrefix(what, "memory-held") {
			what = "memory-held"
		}
	}
	return mode + "/" + what + "/" + op
}

// confirm re-executes one scenario in a fresh driver process with the full trace and lets
// TLC decide again; only a reproduced rejection is a violation.
func (k *checker) confirm(seg segment, why string) error {
	c := k.c
	p, err := core.StartProc(k.drv, nil)
	if err != nil {
		return err
	}
	defer p.Close()
	k.mu.Lock()
	k.nextID++
	out := filepath.Join(c.Scratch, fmt.Sprintf("confirm-%d.ndjson", k.nextID))
	k.mu.Unlock()
	sc := seg.sc
	sc.Trace = true
	resp, err := runBatch(p, out, []scen{sc}, false)
	if err != nil {
		return err
	}
	r := resp.Res[0]
	replay := map[string]any{"cmds": sc.Cmds, "restarts": sc.Restarts, "nt": k.nt, "class": sc.class,
		"go_string": fmt.Sprintf("%q", mustHex(sc.Cmds))}
	if r.Panic != "" {
		if strings.HasPrefix(r.Panic, "verif:") {
			return fmt.Errorf("driver self-check failed on %s: %s", sc.Cmds, r.Panic)
		}
		c.Violate("panic/"+panicClass(r.Panic), fmt.Sprintf("the transport (or its own checkInvariants) panics on a simulator schedule: %q at command %d (%s); restarts=%v", r.Panic, r.PanicAt, r.PanicCmd, sc.Restarts), replay)
		return nil
	}
	if r.Settle == "limit" {
		return fmt.Errorf("settle loop reached its round limit while still progressing (inconclusive): %s", sc.Cmds)
	}
	segs, err := readSegments(out, []scen{sc}, resp.Res)
	if err != nil {
		return err
	}
	bad, ev, _, err := validate(c, k.nt, segs)
	if err != nil {
		return err
	}
	if bad < 0 {
		return fmt.Errorf("a rejected trace was accepted when re-executed alone (%s): %s", why, sc.Cmds)
	}
	var e map[string]any
	_ = json.Unmarshal(ev, &e)
	segs[0].res = r
	c.Violate(violationKey(segs[0], ev, e), fmt.Sprintf("recorded transport trace is not a behaviour of TraceUdpTransport (%s): rejected event %s; prefilter hints %v; settle=%s sent=%d delivered=%d",
		why, oneLine(string(ev), 500), r.Susp, r.Settle, r.Sent, r.Delivered), replay)
	return nil
}

func mustHex(s string) []byte {
	b, _ := hex.DecodeString(s)
	return b
}

var reDigits = regexp.MustCompile(`[0-9]+`)

func panicClass(s string) string {
	s = reDigits.ReplaceAllString(s, "N")
	if len(s) > 70 {
		s = s[:70]
	}
	return s
}

func oneLine(s string, n int) string {
	s = strings.ReplaceAll(s, "\n", " ")
	if len(s) > n {
		s = s[:n] + "..."
	}
	return s
}

// validateAll validates the segments in chunks (one JVM each, `par` at a time); rejected
// scenarios are confirmed and the rest of their chunk is validated again without them.
func (k *checker) validateAll(segs []segment, chunkEvents, par, maxRounds int) {
	var chunks [][]segment
	var cur []segment
	n := 0
	for _, s := range segs {
		cur = append(cur, s)
		n += len(s.lines)
		if n >= chunkEvents {
			chunks = append(chunks, cur)
			cur, n = nil, 0
		}
	}
	if len(cur) > 0 {
		chunks = append(chunks, cur)
	}
	sem := make(chan struct{}, par)
	var wg sync.WaitGroup
	for _, ch := range chunks {
		wg.Add(1)
		go func(ch []segment) {
			defer wg.Done()
			sem <- struct{}{}
			defer func() { <-sem }()
			for round := 0; len(ch) > 0 && round < maxRounds; round++ {
				bad, _, events, err := validate(k.c, k.nt, ch)
				if err != nil {
					k.fail(err)
					return
				}
				okSegs := ch
				if bad >= 0 {
					okSegs = ch[:bad]
				}
				k.mu.Lock()
				for _, s := range okSegs {
					if s.res.Traced {
						if s.res.Settle == "stuck" {
							// TLC accepted it, so it is the named deviation SenderUnawareOfDelivery
							k.stats["sender_windows_left_open_after_full_delivery"]++
						}
						k.stats["traces_accepted"]++
						k.stats["trace_events_accepted"] += len(s.lines)
						if s.sc.Restarts {
							k.stats["traces_accepted_restarts"]++
						}
						if s.sc.class == "tlc-behaviour" {
							k.stats["traces_accepted_tlc_behaviours"]++
						}
					} else {
						k.stats["summaries_accepted"]++
					}
				}
				k.mu.Unlock()
				_ = events
				if bad < 0 {
					return
				}
				k.mu.Lock()
				k.stats["traces_rejected"]++
				k.mu.Unlock()
				if k.mayConfirm("tlc/" + strings.Join(ch[bad].res.Susp, ",") + fmt.Sprint(ch[bad].sc.Restarts)) {
					if err := k.confirm(ch[bad], "TLC rejected the recorded trace"); err != nil {
						k.fail(err)
					}
				}
				ch = ch[bad+1:]
			}
		}(ch)
	}
	wg.Wait()
}

// ---------------------------------------------------------------------------

type mcCfg struct {
	name                                       string
	nt, mem, msgs, faults, net, hdr, burst, ch int
	patient                                    bool
	live, cover                                bool
	workers                                    int
}

func (m mcCfg) consts() map[string]string {
	p := "FALSE"
	if m.patient {
		p = "TRUE"
	}
	return map[string]string{"NT": strconv.Itoa(m.nt), "MEM": strconv.Itoa(m.mem), "MSGS": strconv.Itoa(m.msgs),
		"FAULTS": strconv.Itoa(m.faults), "NET": strconv.Itoa(m.net), "HDR": strconv.Itoa(m.hdr),
		"BURST": strconv.Itoa(m.burst), "CHUNKS": strconv.Itoa(m.ch), "PATIENT": p, "SPEC": "FairSpec"}
}

func (m mcCfg) String() string {
	return fmt.Sprintf("%s[NT=%d mem=%d msgs=%d chunks<=%d faults=%d net=%d hdr=%d burst=%d patient=%v]", m.name, m.nt, m.mem, m.msgs, m.ch, m.faults, m.net, m.hdr, m.burst, m.patient)
}

func runC36(c *core.Ctx) error {
	drv, err := buildDriver(c)
	if err != nil {
		return err
	}
	k := &checker{c: c, drv: drv, nt: c.Pick(3, 4), acts: map[string]int{}, settle: map[string]int{}, stats: map[string]int{}}
	if c.Replay != "" {
		return k.replay()
	}
	rnd := rand.New(rand.NewSource(c.Seed))

	// ---------------- model checking (runs while the driver works) ----------------
	var mcs []mcCfg
	if c.Thorough() {
		mcs = []mcCfg{
			{name: "safety-3-messages-2-faults", nt: 2, mem: 4, msgs: 3, faults: 2, net: 2, hdr: 2, burst: 2, ch: 1, patient: true, workers: 4},
			{name: "safety", nt: 2, mem: 3, msgs: 2, faults: 1, net: 2, hdr: 2, burst: 2, ch: 2, patient: true, workers: 3},
			{name: "safety-2-faults", nt: 2, mem: 3, msgs: 2, faults: 2, net: 2, hdr: 1, burst: 1, ch: 2, patient: true, workers: 3},
			{name: "safety-eager-timers", nt: 2, mem: 2, msgs: 1, faults: 1, net: 2, hdr: 1, burst: 1, ch: 2, workers: 2, cover: true},
			{name: "safety-3-transports", nt: 3, mem: 3, msgs: 2, faults: 1, net: 2, hdr: 1, burst: 1, ch: 1, patient: true, workers: 2},
			{name: "liveness", nt: 2, mem: 3, msgs: 2, faults: 1, net: 2, hdr: 1, burst: 1, ch: 2, patient: true, live: true, workers: 2},
			{name: "liveness-eager-timers", nt: 2, mem: 2, msgs: 1, faults: 1, net: 2, hdr: 1, burst: 1, ch: 2, live: true, workers: 2},
		}
	} else {
		mcs = []mcCfg{
			{name: "safety", nt: 2, mem: 3, msgs: 2, faults: 1, net: 2, hdr: 1, burst: 1, ch: 2, patient: true, workers: 5},
			{name: "liveness", nt: 2, mem: 2, msgs: 1, faults: 1, net: 2, hdr: 1, burst: 1, ch: 2, patient: true, live: true, workers: 2, cover: true},
		}
	}
	var bg sync.WaitGroup
	mcOut := make([]string, len(mcs))
	cover := map[string]int{}
	for i, m := range mcs {
		bg.Add(1)
		go func(i int, m mcCfg) {
			defer bg.Done()
			cfg := "MC_UdpTransport.cfg"
			if m.live {
				cfg = "MC_UdpTransportLive.cfg"
			}
			r, err := c.MustTLC(core.TLCOpts{Module: "MC_UdpTransport", Cfg: cfg, Consts: m.consts(), Workers: m.workers,
				Coverage: m.cover, Timeout: time.Duration(c.Pick(600, 2700)) * time.Second, HeapMB: 6000})
			if err != nil {
				k.fail(fmt.Errorf("%s: %v", m, err))
				return
			}
			k.mu.Lock()
			c.Add("states", r.Distinct)
			c.Add("transitions", r.Generated)
			mcOut[i] = fmt.Sprintf("%s: %d distinct states, %d transitions, depth %d, %.0fs", m, r.Distinct, r.Generated, r.Depth, r.Wall.Seconds())
			for a, n := range r.ActionCover {
				cover[a] += n
			}
			k.mu.Unlock()
			c.Logf("TLC %s", mcOut[i])
		}(i, m)
	}

	// the liveness property must not be vacuous: without fairness TLC has to find a lasso
	if c.Thorough() {
		bg.Add(1)
		go func() {
			defer bg.Done()
			m := mcCfg{nt: 2, mem: 2, msgs: 1, faults: 1, net: 2, hdr: 1, burst: 1, ch: 2, patient: true}
			cs := m.consts()
			cs["SPEC"] = "Spec"
			r, err := c.TLC(core.TLCOpts{Module: "MC_UdpTransport", Cfg: "MC_UdpTransportLive.cfg", Consts: cs, Workers: 2, Timeout: 30 * time.Minute})
			if err != nil {
				k.fail(err)
				return
			}
			if r.OK || !(r.ErrorKind == "liveness" || strings.Contains(r.ErrorText, "Temporal properties")) {
				k.fail(fmt.Errorf("model self-test: without fairness the liveness property must fail, TLC said ok=%v kind=%s: %s", r.OK, r.ErrorKind, oneLine(r.ErrorText+" // "+r.Tail, 600)))
				return
			}
			c.Set("selftest_liveness_fails_without_fairness", true)
		}()
	}

	// (a) behaviours of the model as command strings
	var simHists [][][]any
	var bgSim sync.WaitGroup
	bgSim.Add(1)
	go func() {
		defer bgSim.Done()
		depth := 36
		consts := map[string]string{"NT": "3", "MEM": "6", "MSGS": "4", "FAULTS": "3", "NET": "4", "HDR": "3", "BURST": "2",
			"CHUNKS": "3", "PATIENT": "FALSE", "DEPTH": strconv.Itoa(depth)}
		var mu sync.Mutex
		jobs := c.Pick(1, 6)
		var wg sync.WaitGroup
		for j := 0; j < jobs; j++ {
			wg.Add(1)
			go func(j int) {
				defer wg.Done()
				r, err := c.TLC(core.TLCOpts{Module: "SimUdpTransport", Cfg: "SimUdpTransport.cfg", Consts: consts, Workers: 1,
					Simulate: fmt.Sprintf("num=%d", c.Pick(22, 220)), Depth: depth, Seed: c.Seed*1000 + int64(j),
					Timeout: time.Duration(c.Pick(600, 1800)) * time.Second, HeapMB: 2048})
				if err != nil || (!r.OK && r.ErrorKind != "") {
					if err == nil {
						err = fmt.Errorf("%s %s", r.ErrorKind, r.ErrorText)
					}
					k.fail(fmt.Errorf("SimUdpTransport: %v", err))
					return
				}
				mu.Lock()
				defer mu.Unlock()
				for _, e := range r.Emits {
					var h [][]any
					if json.Unmarshal(e, &h) == nil && len(h) > 0 {
						simHists = append(simHists, h)
					}
				}
				c.Add("transitions", r.Generated)
			}(j)
		}
		wg.Wait()
	}()

	// ---------------- (b) random command strings on the real transports ----------------
	type job struct {
		scs []scen
		out string
	}
	mk := func(class string, o genOpts, n int, traceEvery int) []scen {
		scs := make([]scen, n)
		for i := range scs {
			k.nextID++
			scs[i] = scen{ID: k.nextID, Cmds: hex.EncodeToString(genCmds(rnd, o)), Restarts: o.restarts, class: class,
				Trace: traceEvery > 0 && i%traceEvery == 0}
		}
		return scs
	}
	q, t := c.Pick, c.Thorough()
	_ = t
	var all []scen
	// traced scenarios are short so that many of them fit into TLC's event budget
	all = append(all, mk("random", genOpts{nt: 2, minCmds: 5, maxCmds: 45}, q(90, 700), 1)...)
	all = append(all, mk("random", genOpts{nt: 3, minCmds: 8, maxCmds: 50}, q(70, 600), 1)...)
	all = append(all, mk("random-memory", genOpts{nt: 3, minCmds: 10, maxCmds: 40, big: true}, q(25, 300), 1)...)
	all = append(all, mk("random-restarts", genOpts{nt: 3, restarts: true, minCmds: 8, maxCmds: 50}, q(60, 600), 1)...)
	// the bulk: summaries only (full trace when the prefilter has a hint)
	all = append(all, mk("random", genOpts{nt: 2, minCmds: 5, maxCmds: 80}, q(2600, 60000), 0)...)
	all = append(all, mk("random", genOpts{nt: 3, minCmds: 5, maxCmds: 90}, q(2600, 60000), 0)...)
	all = append(all, mk("random-memory", genOpts{nt: 3, minCmds: 10, maxCmds: 90, big: true}, q(1200, 25000), 0)...)
	all = append(all, mk("random", genOpts{nt: k.nt, minCmds: 10, maxCmds: 120}, q(500, 15000), 0)...)
	all = append(all, mk("random-restarts", genOpts{nt: 3, restarts: true, minCmds: 5, maxCmds: 90}, q(2400, 50000), 0)...)

	segs, err := k.execute(all, c.Pick(4, 8))
	if err != nil {
		return err
	}
	bgSim.Wait() // the model checking runs continue in the background while TLC validates traces
	if len(k.failed) > 0 {
		return k.failed[0]
	}

	// (a) continued: execute the model's behaviours
	var simScs []scen
	seen := map[string]bool{}
	for _, h := range simHists {
		cm := hex.EncodeToString(simCmds(h))
		if seen[cm] {
			continue
		}
		seen[cm] = true
		k.nextID++
		simScs = append(simScs, scen{ID: k.nextID, Cmds: cm, class: "tlc-behaviour", Trace: len(simScs)%c.Pick(3, 2) == 0})
	}
	if len(simScs) == 0 {
		return fmt.Errorf("vacuous: TLC simulation produced no behaviour")
	}
	simSegs, err := k.execute(simScs, 2)
	if err != nil {
		return err
	}
	c.Set("tlc_behaviours_executed", len(simScs))
	segs = append(segs, simSegs...)

	// ---------------- TLC validates what was recorded ----------------
	// order: traced first (budget), then summaries
	sort.SliceStable(segs, func(i, j int) bool { return segs[i].res.Traced && !segs[j].res.Traced })
	budget := c.Pick(60000, 600000)
	var use, hinted []segment
	total, skipped := 0, 0
	perHint := map[string]int{}
	for _, s := range segs {
		if s.res.Traced && len(s.res.Susp) > 0 {
			// recorded because of a prefilter hint: a few of every kind go through TLC, in a
			// chunk of their own (they are expected to be rejected one by one)
			h := fmt.Sprint(s.res.Susp[0], s.sc.Restarts)
			if perHint[h]++; perHint[h] > 3 {
				skipped++
				continue
			}
			hinted = append(hinted, s)
			continue
		}
		if s.res.Traced && total+len(s.lines) > budget {
			skipped++
			continue
		}
		total += len(s.lines)
		use = append(use, s)
	}
	c.Set("traces_recorded_but_not_validated", skipped)
	c.Set("traces_with_prefilter_hint_validated", len(hinted))
	c.Logf("validating %d events of %d scenario records (+%d hinted traces) with TLC", total, len(use), len(hinted))
	rnd.Shuffle(len(use), func(i, j int) { use[i], use[j] = use[j], use[i] })
	var vw sync.WaitGroup
	vw.Add(2)
	go func() {
		defer vw.Done()
		k.validateAll(hinted, 1<<30, 1, len(hinted)+1)
	}()
	go func() { // binding self-test: corrupted traces must be rejected
		defer vw.Done()
		if err := k.selfTest(segs); err != nil {
			k.fail(err)
		}
	}()
	k.validateAll(use, c.Pick(10000, 40000), c.Pick(8, 10), 6)
	vw.Wait()
	if len(k.failed) > 0 {
		return k.failed[0]
	}

	bg.Wait()
	if len(k.failed) > 0 {
		return k.failed[0]
	}

	// ---------------- evidence ----------------
	c.Set("model_checking_runs", mcOut)
	c.Set("model_action_coverage", cover)
	// (NewMessage is reported by TLC under a location suffix; a ReadSome step needs a submitted message)
	for _, a := range []string{"WriteSome", "ReadSome", "EncHdr", "Timer", "DupSome", "LossSome", "Settle"} {
		if cover[a] == 0 {
			return fmt.Errorf("vacuous: action %s was never taken in the model-checking run (coverage %v)", a, cover)
		}
	}
	c.Set("impl_commands_executed", k.acts)
	c.Set("impl_settle_outcomes", k.settle)
	if _, ok := k.stats["sender_windows_left_open_after_full_delivery"]; !ok {
		k.stats["sender_windows_left_open_after_full_delivery"] = 0
	}
	for key, v := range k.stats {
		c.Set(key, v)
	}
	c.Add("traces_validated_against_impl", k.stats["traces_accepted"])
	c.Add("evaluations", k.stats["scenarios_executed"])
	c.Set("distinct_nontrivial", k.stats["scenarios_with_delivery"])
	for _, need := range []string{"w+", "r+", "e", "t0", "t1", "t2", "d", "l", "n"} {
		if k.acts[need] == 0 {
			return fmt.Errorf("vacuous: the implementation never executed command class %q", need)
		}
	}
	if k.stats["scenarios_waiting_for_memory"] == 0 || k.stats["scenarios_with_restart"] == 0 || k.stats["traces_accepted"] == 0 ||
		k.stats["traces_accepted_restarts"] == 0 || k.stats["traces_accepted_tlc_behaviours"] == 0 || k.stats["summaries_accepted"] == 0 {
		return fmt.Errorf("vacuous: %v", k.stats)
	}
	c.Set("rule", "TLC checks UdpTransport (safety exhaustively; liveness <>[]Quiescent and per-message delivery under weak fairness of the non-fault actions); behaviours of the model (tlc -simulate) and seeded random command strings are executed on real udp.Transport objects through the simulator's own do* helpers and checkInvariants; every recorded event trace is validated by TLC against TraceUdpTransport (strict: one UdpTransport action per command with the resulting state equal to the logged projection; restarts: projection-level core), scenarios without a full trace by their summary event")
	c.Assume("the scheduling layer of UdpTransport (which chunks are eligible, which timers are armed) is model-checked but not bound to the code: trace validation runs with Sched = FALSE and binds the data plane (windows, ack sets, queues, memory, deliveries, allocator counters)")
	c.Assume("datagram contents are read at send time by decrypting the datagram with the sender's own write key inside the driver; the receiver-side header logged at read time is cross-checked against it by the trace spec")
	c.Assume("model checking uses 'patient' resend / resend-request timers (they expire only when nothing of the connection is in flight) except in the configurations named eager; spurious retransmissions are otherwise covered by Dup faults and by the traces of the real code")
	c.Assume("with restarts only the projection-level core is validated (monotone prefixes per connection object, memory <= limit and equal to what live connections hold, deliveries sent and at most once); delivery of everything is claimed only without restarts")
	c.Assume("scenarios whose full trace is not pushed through TLC are judged by TLC from their summary event (end state after the driver's own settle loop); a Go-side prefilter only selects additional traces for TLC, it never decides a verdict")
	c.Assume("named deviation SenderUnawareOfDelivery (UdpTransport.tla): a settle loop that stops without progress is accepted when everything was delivered and received, incoming memory is 0 and only outgoing windows are open; such traces are counted in sender_windows_left_open_after_full_delivery; every other stuck settle is rejected")
	c.Assume("timer queues of the simulator are ordered by wall-clock based deadlines: with several connections per transport the order of timer expirations is not fully reproducible; a rejected trace that is accepted on re-execution is reported as inconclusive, not as a violation")
	return nil
}

// execute runs the scenarios on `procs` driver processes and returns their records.
func (k *checker) execute(all []scen, procs int) ([]segment, error) {
	c := k.c
	const batch = 400
	type job struct {
		idx int
		scs []scen
	}
	var jobs []job
	for i := 0; i < len(all); i += batch {
		j := i + batch
		if j > len(all) {
			j = len(all)
		}
		jobs = append(jobs, job{len(jobs), all[i:j]})
	}
	results := make([][]segment, len(jobs))
	ch := make(chan job, len(jobs))
	for _, j := range jobs {
		ch <- j
	}
	close(ch)
	var wg sync.WaitGroup
	for w := 0; w < procs; w++ {
		wg.Add(1)
		go func() {
			defer wg.Done()
			p, err := core.StartProc(k.drv, nil)
			if err != nil {
				k.fail(err)
				return
			}
			p.Limit = 5 * time.Minute
			defer p.Close()
			for j := range ch {
				k.mu.Lock()
				k.nextID++
				out := filepath.Join(c.Scratch, fmt.Sprintf("trace-%d.ndjson", k.nextID))
				k.mu.Unlock()
				resp, err := runBatch(p, out, j.scs, true)
				if err != nil {
					k.fail(err)
					return
				}
				segs, err := readSegments(out, j.scs, resp.Res)
				_ = os.Remove(out)
				if err != nil {
					k.fail(err)
					return
				}
				results[j.idx] = segs
				k.mu.Lock()
				for i, r := range resp.Res {
					k.stats["scenarios_executed"]++
					k.settle[r.Settle]++
					for a, n := range r.Acts {
						k.acts[a] += n
					}
					if r.Delivered > 0 {
						k.stats["scenarios_with_delivery"]++
					}
					k.stats["messages_sent"] += r.Sent
					k.stats["messages_delivered"] += r.Delivered
					if r.Waited > 0 {
						k.stats["scenarios_waiting_for_memory"]++
					}
					if r.Restarted > 0 {
						k.stats["scenarios_with_restart"]++
					}
					if len(r.Susp) > 0 {
						k.stats["scenarios_flagged_by_prefilter"]++
					}
					if r.Traced {
						k.stats["traces_recorded"]++
					}
					if c.Get("sampled") < 6 && r.Traced && r.Delivered > 1 {
						c.Add("sampled", 1)
						c.Sample(map[string]any{"class": j.scs[i].class, "commands": fmt.Sprintf("%q", mustHex(j.scs[i].Cmds)), "restarts": j.scs[i].Restarts,
							"sent": r.Sent, "delivered": r.Delivered, "settle_rounds": r.Rounds, "events": r.Events, "commands_executed": r.Acts})
					}
				}
				k.mu.Unlock()
				// panics and settle-limit outcomes never reach TLC: handle them here
				for i, r := range resp.Res {
					if (r.Panic != "" || r.Settle == "limit") && k.mayConfirm("driver/"+panicClass(r.Panic)+r.Settle) {
						if err := k.confirm(segment{sc: j.scs[i], res: r}, "driver outcome "+r.Settle); err != nil {
							k.fail(err)
						}
					}
				}
			}
		}()
	}
	wg.Wait()
	if len(k.failed) > 0 {
		return nil, k.failed[0]
	}
	var segs []segment
	for _, r := range results {
		segs = append(segs, r...)
	}
	return segs, nil
}

// replay re-runs one recorded violation.
func (k *checker) replay() error {
	b, err := os.ReadFile(k.c.Replay)
	if err != nil {
		return err
	}
	var f struct {
		Replay struct {
			Cmds     string `json:"cmds"`
			Restarts bool   `json:"restarts"`
			NT       int    `json:"nt"`
			Class    string `json:"class"`
		} `json:"replay"`
	}
	if err := json.Unmarshal(b, &f); err != nil {
		return err
	}
	if f.Replay.Cmds == "" {
		return fmt.Errorf("replay file has no command string")
	}
	if f.Replay.NT > 0 {
		k.nt = f.Replay.NT
	}
	// a replay validates one recorded trace: one TLC behaviour
	k.c.Add("states", 1)
	k.c.Add("transitions", 1)
	k.c.Sample(map[string]any{"replayed_commands": fmt.Sprintf("%q", mustHex(f.Replay.Cmds)), "restarts": f.Replay.Restarts})
	err = k.confirm(segment{sc: scen{ID: 1, Cmds: f.Replay.Cmds, Restarts: f.Replay.Restarts, class: f.Replay.Class}}, "replay")
	if err != nil && strings.Contains(err.Error(), "accepted when re-executed alone") {
		k.c.Logf("replay: the trace is accepted now")
		k.c.Add("traces_validated_against_impl", 1)
		return nil
	}
	return err
}
