package udp

import (
	"bytes"
	"encoding/json"
	"fmt"
	"sync"
)

// corruption returns a corrupted copy of the segment's lines and the index of the line that
// TLC must reject, or nil when the segment offers no place for it.
type corruption struct {
	name string
	mode string // "strict" | "loose" | "sum"
	f    func(lines [][]byte) ([][]byte, int)
}

func editLine(line []byte, f func(e map[string]any) bool) []byte {
	var e map[string]any
	if json.Unmarshal(line, &e) != nil || !f(e) {
		return nil
	}
	b, err := json.Marshal(e)
	if err != nil {
		return nil
	}
	return b
}

func cloneLines(l [][]byte) [][]byte { return append([][]byte(nil), l...) }

// decConnField decrements the first positive field `name` of a connection projection.
func decConnField(name string) func(e map[string]any) bool {
	return func(e map[string]any) bool {
		cs, _ := e["cs"].([]any)
		for _, x := range cs {
			m, _ := x.(map[string]any)
			if v, ok := m[name].(float64); ok && v > 0 {
				m[name] = v - 1
				return true
			}
		}
		return false
	}
}

func lastMatching(lines [][]byte, ops string, f func(e map[string]any) bool) ([][]byte, int) {
	for i := len(lines) - 1; i >= 0; i-- {
		var e map[string]any
		if json.Unmarshal(lines[i], &e) != nil {
			continue
		}
		op, _ := e["op"].(string)
		if len(op) != 1 || !bytes.Contains([]byte(ops), []byte(op)) {
			continue
		}
		if nl := editLine(lines[i], f); nl != nil {
			out := cloneLines(lines)
			out[i] = nl
			return out, i
		}
	}
	return nil, -1
}

var corruptions = []corruption{
	{"a delivery event is dropped", "strict", func(lines [][]byte) ([][]byte, int) {
		return lastMatching(lines, "r", func(e map[string]any) bool {
			dl, _ := e["dl"].([]any)
			if len(dl) == 0 {
				return false
			}
			e["dl"] = dl[1:]
			return true
		})
	}},
	{"the receiver's acknowledged prefix moves backwards", "strict", func(lines [][]byte) ([][]byte, int) {
		return lastMatching(lines, "rwextn", decConnField("iP"))
	}},
	{"the sender's acknowledged prefix moves backwards", "strict", func(lines [][]byte) ([][]byte, int) {
		return lastMatching(lines, "rwextn", decConnField("oP"))
	}},
	{"4 bytes of incoming memory are not released", "strict", func(lines [][]byte) ([][]byte, int) {
		return lastMatching(lines, "r", func(e map[string]any) bool {
			dl, _ := e["dl"].([]any)
			if len(dl) == 0 {
				return false
			}
			e["mem"] = e["mem"].(float64) + 4
			return true
		})
	}},
	{"a datagram acknowledges a chunk that was not received", "strict", func(lines [][]byte) ([][]byte, int) {
		return lastMatching(lines, "w", func(e map[string]any) bool {
			if k, _ := e["kind"].(string); k != "ack" && k != "nack" {
				return false
			}
			e["ap"] = e["ap"].(float64) + 1
			return true
		})
	}},
	{"the settle loop ends with an unfinished connection", "strict", func(lines [][]byte) ([][]byte, int) {
		i := len(lines) - 1
		nl := bytes.Replace(lines[i], []byte(`"settle":"ok"`), []byte(`"settle":"stuck"`), 1)
		if bytes.Equal(nl, lines[i]) {
			return nil, -1
		}
		out := cloneLines(lines)
		out[i] = nl
		return out, i
	}},
	{"a message is delivered twice (restarts)", "loose", func(lines [][]byte) ([][]byte, int) {
		for i := len(lines) - 1; i >= 0; i-- {
			var e map[string]any
			if json.Unmarshal(lines[i], &e) != nil || e["op"] != "r" {
				continue
			}
			if dl, _ := e["dl"].([]any); len(dl) > 0 {
				out := append(cloneLines(lines[:i+1]), lines[i])
				out = append(out, lines[i+1:]...)
				return out, i + 1
			}
		}
		return nil, -1
	}},
	{"memory of a reset connection is not released (restarts)", "loose", func(lines [][]byte) ([][]byte, int) {
		return lastMatching(lines, "rwext", func(e map[string]any) bool {
			e["mem"] = e["mem"].(float64) + 28
			return true
		})
	}},
	{"a prefix moves backwards within one connection object (restarts)", "loose", func(lines [][]byte) ([][]byte, int) {
		// needs two consecutive projections of the same endpoint with the same positive prefix
		type key struct{ t, p, c float64 }
		last := map[key]float64{}
		for i, l := range lines {
			var e map[string]any
			if json.Unmarshal(l, &e) != nil {
				continue
			}
			t, ok := e["t"].(float64)
			cs, _ := e["cs"].([]any)
			if !ok {
				continue
			}
			for _, x := range cs {
				m, _ := x.(map[string]any)
				k := key{t, m["p"].(float64), m["c"].(float64)}
				v := m["iP"].(float64)
				if v > 0 && last[k] == v {
					m["iP"] = v - 1
					b, _ := json.Marshal(e)
					out := cloneLines(lines)
					out[i] = b
					return out, i
				}
				last[k] = v
			}
		}
		return nil, -1
	}},
	{"a summary misses one delivery", "sum", func(lines [][]byte) ([][]byte, int) {
		nl := editLine(lines[0], func(e map[string]any) bool {
			d, _ := e["dlv"].([]any)
			if len(d) == 0 || e["restarts"].(float64) != 0 {
				return false
			}
			e["dlv"] = d[1:]
			return true
		})
		if nl == nil {
			return nil, -1
		}
		return [][]byte{nl}, 0
	}},
}

// selfTest corrupts recorded traces and requires TLC to reject each corruption at exactly
// the corrupted event.
func (k *checker) selfTest(segs []segment) error {
	c := k.c
	var wg sync.WaitGroup
	var mu sync.Mutex
	var errs []error
	done := map[string]bool{}
	for _, cr := range corruptions {
		var lines [][]byte
		at := -1
		for _, s := range segs {
			mode := "sum"
			if s.res.Traced {
				mode = "strict"
				if s.sc.Restarts {
					mode = "loose"
				}
			}
			if mode != cr.mode || len(s.res.Susp) > 0 || s.res.Settle != "ok" || len(s.lines) > 1500 {
				continue
			}
			if lines, at = cr.f(s.lines); lines != nil {
				break
			}
		}
		if lines == nil {
			return fmt.Errorf("binding self-test: no recorded trace offers a place for corruption %q", cr.name)
		}
		wg.Add(1)
		go func(cr corruption, lines [][]byte, at int) {
			defer wg.Done()
			bad, ev, _, err := validate(c, k.nt, []segment{{lines: lines}})
			mu.Lock()
			defer mu.Unlock()
			switch {
			case err != nil:
				errs = append(errs, fmt.Errorf("binding self-test %q: %v", cr.name, err))
			case bad != 0:
				errs = append(errs, fmt.Errorf("binding self-test failed: corruption %q was accepted by TLC", cr.name))
			case !bytes.Equal(ev, lines[at]):
				errs = append(errs, fmt.Errorf("binding self-test: corruption %q was rejected at another event: %s", cr.name, oneLine(string(ev), 200)))
			default:
				done[cr.name] = true
			}
		}(cr, lines, at)
	}
	wg.Wait()
	if len(errs) > 0 {
		return errs[0]
	}
	names := make([]string, 0, len(done))
	for n := range done {
		names = append(names, n)
	}
	c.Set("selftest_corrupted_traces_rejected", len(names))
	c.Set("selftest_corruptions", names)
	return nil
}
