package codec

import (
	"encoding/binary"
	"math"

	"verif/core"
)

func init() { core.Register("C34", "model_checking", runC34) }

func le32(v uint32) []int {
	b := make([]byte, 4)
	binary.LittleEndian.PutUint32(b, v)
	return []int{int(b[0]), int(b[1]), int(b[2]), int(b[3])}
}

func le64(v uint64) []int {
	b := make([]byte, 8)
	binary.LittleEndian.PutUint64(b, v)
	r := make([]int, 8)
	for i, x := range b {
		r[i] = int(x)
	}
	return r
}

// runC34: JSON primitive writers (and the readers that must decode them): the codec
// pipeline on a schema of bare primitives with large leaf domains — every string over a
// set of byte classes (UTF-8 lead/continuation/over-long/surrogate bytes, escapes, controls,
// U+2028), integer boundaries and float classes. TLJson (UTF8Valid, JStr, JNum) is the oracle.
func runC34(c *core.Ctx) error {
	classes := []int{0x00, 0x1f, 0x20, 0x22, 0x5c, 0x0a, 0x0d, 0x09, 0x7f, 0x41, 0x2f, 0x3c, 0x80, 0xbf, 0xc2, 0xdf, 0xc0, 0xe0, 0xa0, 0xed, 0x9f, 0xe2, 0xa8, 0xa9, 0xef, 0xf0, 0x90, 0xf4, 0x8f, 0xf5, 0xff}
	var strs [][]int
	for _, a := range classes {
		strs = append(strs, []int{a})
		for _, b := range classes {
			strs = append(strs, []int{a, b})
		}
	}
	leads := []int{0xe0, 0xed, 0xe2, 0xef, 0xf0, 0xf4, 0x41}
	if !c.Thorough() {
		leads = []int{0xe0, 0xed, 0xe2, 0xf0}
	}
	for _, l := range leads {
		for _, a := range classes {
			for _, b := range classes {
				if !c.Thorough() && (a < 0x80 || b < 0x80) && (a+b+int(c.Seed))%3 != 0 {
					continue
				}
				strs = append(strs, []int{l, a, b})
			}
		}
	}
	for _, l := range []int{0xf0, 0xf4, 0xf1} {
		for _, a := range []int{0x80, 0x8f, 0x90, 0xbf} {
			for _, b := range []int{0x80, 0xbf, 0x41} {
				for _, d := range []int{0x80, 0xbf, 0x22} {
					strs = append(strs, []int{l, a, b, d})
				}
			}
		}
	}
	strs = append(strs, []int{0xe2, 0x80, 0xa8, 0x41, 0xe2, 0x80, 0xa9}, []int{0x41, 0xe2, 0x80, 0xa8}, []int{0xf0, 0x9f, 0x98, 0x80}, []int{0xed, 0xa0, 0x80})
	var i32, i64, f32, f64 [][]int
	for _, v := range []uint32{0, 1, 9, 10, 0x7fffffff, 0x80000000, 0x80000001, 0xffffffff, 0xfffffffe, 1000000000, 4294967295, 123456789} {
		i32 = append(i32, le32(v))
	}
	for _, v := range []uint64{0, 1, 1 << 31, 1 << 32, 1<<53 - 1, 1 << 53, 1<<53 + 1, 1<<63 - 1, 1 << 63, 1<<63 + 1, 1<<64 - 1, 9007199254740993, 1000000000000000000} {
		i64 = append(i64, le64(v))
	}
	for _, v := range []uint32{0, 0x80000000, 1, 0x80000001, 0x007fffff, 0x00800000, 0x7f7fffff, 0xff7fffff, 0x3f800000, 0x3eaaaaab, 0x3dcccccd, 0x4b800001, 0x7f800000, 0xff800000, 0x7fc00000, 0x501502f9, 0x33d6bf95, 0x5d5e0b6b} {
		f32 = append(f32, le32(v))
	}
	for _, v := range []uint64{0, 1 << 63, 1, 1<<63 | 1, 0x000fffffffffffff, 0x0010000000000000, 0x7fefffffffffffff, 0xffefffffffffffff,
		math.Float64bits(1), math.Float64bits(1.0 / 3), math.Float64bits(0.1), math.Float64bits(1e21), math.Float64bits(1e20), math.Float64bits(1e-7), math.Float64bits(123456789.125),
		math.Float64bits(math.Inf(1)), math.Float64bits(math.Inf(-1)), math.Float64bits(math.NaN()), math.Float64bits(5e-324), math.Float64bits(2.2250738585072011e-308), math.Float64bits(9007199254740993)} {
		f64 = append(f64, le64(v))
	}
	extraVals = map[string][][]int{"string": strs, "int32": i32, "uint32": i32, "int64": i64, "float32": f32, "float64": f64}
	defer func() { extraVals = nil }()
	cp := Corpus{Name: "prims", Files: []string{probe("prims.tl")}, TL2: "*", Sanity: true, BytesVers: "*"}
	if err := runCorpusTL1(c, "C34", cp, 1, 0, 0, 0, 0, 0); err != nil {
		return err
	}
	// the primitives only TL2 has (uint64, byte, bool as a value, int64 under its own name)
	extraVals = map[string][][]int{"uint64": i64, "int64": i64, "int32": i32, "uint32": i32, "float32": f32, "float64": f64,
		"byte": {{0x7f}, {0x80}, {0x0a}, {0x22}}}
	cp2 := Corpus{Name: "prims2", Files: []string{probe("prims2.tl2")}, TL2: "*", Sanity: true, BytesVers: "*"}
	if err := runCorpusTL1(c, "C34", cp2, 1, 0, 0, 0, 0, 0); err != nil {
		return err
	}
	c.Set("string_values", len(strs))
	c.Set("rule", "one TLC state per (primitive type, value): all byte-class strings of length <= 2, lead-byte triples and 4-byte forms (UTF-8 boundaries, escapes, controls, U+2028/9), integer boundaries, float classes; written JSON must be valid, equal the spec tree (text or base64 object, numbers bit-exact, NaN/Inf strings) and read back to the same TL1/TL2/JSON; string and []byte variants")
	c.Assume("JSON validity and string decoding are judged by Go's encoding/json; the readers are the generated Json2Read* helpers reached through the generated objects")
	return nil
}
