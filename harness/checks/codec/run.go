package codec

import (
	"encoding/json"
	"fmt"
	"os"
	"path/filepath"
	"reflect"
	"strconv"
	"strings"
	"time"

	"verif/core"
)

func init() {
	for _, id := range []string{"C01", "C02", "C03", "C04", "C05", "C06", "C07", "C08", "C09", "C10", "C12", "C13"} {
		id := id
		core.Register(id, "model_checking", func(c *core.Ctx) error { return runTL1(c, id) })
	}
}

func tls(name string) string {
	return filepath.Join(core.RepoDir, "internal/tlcodegen/test/tls", name)
}

func probe(name string) string { return filepath.Join(core.VerifDir, "harness", "corpus", name) }

type stepRes struct {
	Err       string `json:"err"`
	EOF       bool   `json:"eof"`
	Panic     string `json:"panic"`
	ReadPanic bool   `json:"readpanic"`
	Consumed  int    `json:"consumed"`
	Dump      *struct {
		TL1     []int  `json:"tl1"`
		TL1Err  string `json:"tl1err"`
		TL1B    []int  `json:"tl1b"`
		TL1BErr string `json:"tl1berr"`
		TL2     []int  `json:"tl2"`
		HasTL2  bool   `json:"hastl2"`
		JSON    string `json:"json"`
		JSONErr string `json:"jsonerr"`
	} `json:"dump"`
	Alloc uint64         `json:"alloc"`
	Ns    int64          `json:"ns"`
	Skip  string         `json:"skip"`
	IsSet map[string]any `json:"isset"`
	Fn    map[string]struct {
		Panic    string `json:"panic"`
		Err      string `json:"err"`
		Consumed int    `json:"consumed"`
		Out      []int  `json:"out"`
		Text     string `json:"text"`
	} `json:"fn"`
}

type scriptRes struct {
	Fatal string    `json:"fatal"`
	Steps []stepRes `json:"steps"`
}

func (b *Built) item(tn string) string {
	t := b.Schema["types"].(map[string]any)[tn].(map[string]any)
	s, _ := t["item"].(string)
	return s
}

func (b *Built) script(tn string, bytesVariant bool, steps ...map[string]any) (*scriptRes, error) {
	var r scriptRes
	if err := b.Drv.Call(map[string]any{"tn": b.item(tn), "bytes": bytesVariant, "steps": steps}, &r); err != nil {
		return nil, err
	}
	if r.Fatal != "" {
		return nil, fmt.Errorf("driver: %s", r.Fatal)
	}
	return &r, nil
}

type valPayload struct {
	Kind     string `json:"kind"`
	Tn       string `json:"tn"`
	K        int    `json:"k"`
	TL1OK    bool   `json:"tl1ok"`
	TL1      []int  `json:"tl1"`
	TL1B     []int  `json:"tl1b"`
	Small    bool   `json:"small"`
	Orig2    bool   `json:"origin2"`
	NegZ     bool   `json:"negzero"`
	BadKey   bool   `json:"badkey"`
	TL2Opt   bool   `json:"tl2opt"`
	HasTL2   bool   `json:"hastl2"`
	TL2      []int  `json:"tl2"`
	JSON     *JT    `json:"json"`
	Alt      *JT    `json:"alt"`
	M        string `json:"m"`
	Bad      bool   `json:"bad"`
	Accept   bool   `json:"accept"`
	Dec2OK   bool   `json:"dec2ok"`
	Dec2Pos  int    `json:"dec2consumed"`
	Dec2Re   []int  `json:"dec2re"`
	Dec2Val  bool   `json:"dec2valid"`
	Dec2TL1  []int  `json:"dec2tl1"`
	Writable bool   `json:"writable"`
	Req      []int  `json:"req"`
	Res1     []int  `json:"res1"`
	Res2     []int  `json:"res2"`
	ResJ     *JT    `json:"resj"`
	From     *encs  `json:"from"`
	To       *encs  `json:"to"`
	Boxed    bool   `json:"boxed"`
	B        []int  `json:"b"`
	Dec      struct {
		OK       bool  `json:"ok"`
		Unk      bool  `json:"unk"`
		Big      bool  `json:"big"`
		Consumed int   `json:"consumed"`
		Re       []int `json:"re"`
	} `json:"dec"`
}

type encs struct {
	TL1  []int `json:"tl1"`
	TL1B []int `json:"tl1b"`
	TL2  []int `json:"tl2"`
	JSON *JT   `json:"json"`
}

func hexs(a []int) string {
	var sb strings.Builder
	for _, x := range a {
		fmt.Fprintf(&sb, "%02x", x)
	}
	return sb.String()
}

func eqInts(a, b []int) bool {
	if len(a) == 0 && len(b) == 0 {
		return true
	}
	return reflect.DeepEqual(a, b)
}

// runTL1 serves C01 (value round trips, deep value graph) and C02 (byte-level
// mutations of every encoding, canonical-form acceptance).
func runTL1(c *core.Ctx, prop string) error {
	corpora := corporaFor(c)
	k, kmut, kjson, kre := c.Pick(2, 3), 0, 0, 0
	kmut2, kfn := 0, 0
	if prop == "C13" {
		k, kre = c.Pick(2, 3), c.Pick(3, 4)
		kmut2 = c.Pick(2, 2) // byte mutations of TL2 encodings, judged by the tolerant reference reader Dec2
	}
	if prop == "C08" {
		k, kmut, kmut2 = 1, 2, 2
	}
	if prop == "C07" {
		k, kfn = c.Pick(1, 2), c.Pick(2, 3)
	}
	if prop == "C12" {
		k, kmut = c.Pick(2, 2), c.Pick(1, 2)
	}
	if prop == "C02" {
		k, kmut = c.Pick(1, 2), c.Pick(2, 3)
	}
	if prop == "C06" {
		k, kjson = c.Pick(2, 3), c.Pick(3, 4)
	}
	for _, cp := range corpora {
		if prop == "C08" {
			cp.Sanity = true // the allocation clause is about generated code with length sanity checks enabled
			cp.Name += "-sane"
		}
		if err := runCorpusTL1(c, prop, cp, k, kmut, kjson, kre, kmut2, kfn); err != nil {
			return err
		}
	}
	c.Set("rule", "TLC walks the value graph (<=K single-leaf modifications from the default value) of every top-level type of every corpus schema; C02 additionally mutates every byte / truncates every prefix of each TL1 encoding; a case = one distinct TLC state (type,value) or (type,bytes)")
	c.Assume("instance graph of repository schemas is exported from the implementation's kernel (binds templates + runtime, inherits kernel resolution)")
	return nil
}

func runCorpusTL1(c *core.Ctx, prop string, cp Corpus, k, kmut, kjson, kre, kmut2, kfn int) error {
	b, err := Build(c, cp)
	if err != nil {
		return err
	}
	defer b.Close()
	var tops []string
	types := b.Schema["types"].(map[string]any)
	for _, n := range b.Tops {
		if types[n].(map[string]any)["tl2"] != true && (prop == "C03" || prop == "C13" || prop == "C04") {
			continue // TL2-only properties
		}
		if types[n].(map[string]any)["origin2"] == true && (prop == "C01" || prop == "C02" || prop == "C04") {
			continue // TL1-only properties
		}
		tops = append(tops, n)
	}
	if len(tops) == 0 {
		c.Logf("corpus %s: no applicable top-level types for %s", cp.Name, prop)
		return nil
	}
	c.Logf("corpus %s: %d top-level TL1 types, K=%d KMut=%d", cp.Name, len(tops), k, kmut)
	kbad := 0
	if prop == "C01" {
		kbad = k
	}
	var otf *core.Proc
	if prop == "C12" {
		if otf, err = startOTF(c, cp); err != nil {
			return err
		}
		defer otf.Close()
	}
	var firstErr error
	nVal, nBytes, nAlt, nEdge, nRe, nFn, nBad, acc, rej, unk := 0, 0, 0, 0, 0, 0, 0, 0, 0, 0
	onEmit := func(raw json.RawMessage) {
		if firstErr != nil {
			return
		}
		var p valPayload
		if err := json.Unmarshal(raw, &p); err != nil {
			firstErr = err
			return
		}
		if prop == "C12" {
			replayOTF(c, otf, cp, &p)
			switch p.Kind {
			case "val":
				nVal++
				if nVal%307 == 1 {
					c.Sample(map[string]any{"corpus": cp.Name, "type": p.Tn, "tl1": hexs(p.TL1), "tl2": hexs(p.TL2)})
				}
			case "bytes":
				nBytes++
			}
			return
		}
		if prop == "C08" {
			total08(c, b, cp, &p, &firstErr)
			switch p.Kind {
			case "val":
				nVal++
			case "bytes", "bytes2":
				nBytes++
			}
			return
		}
		if p.Kind == "val" {
			nVal++
			if !wantVal(prop, p.K) {
				return
			}
			if !p.TL1OK {
				firstErr = fmt.Errorf("spec produced an unencodable valid value for %s", p.Tn)
				return
			}
			fs, err := replayVal(c, b, &p)
			if err != nil {
				firstErr = err
				return
			}
			for _, f := range fs {
				if classOf[prop][f.class] {
					c.Violate(fmt.Sprintf("%s/%s/%s/%s", f.class, cp.Name, p.Tn, negKey(&p, f)), fmt.Sprintf("type %s: %s", p.Tn, f.what),
						map[string]any{"corpus": cp, "payload": p})
				} else {
					c.Add("other_property_mismatches_seen", 1)
				}
			}
			if nVal%211 == 1 {
				c.Sample(map[string]any{"corpus": cp.Name, "type": p.Tn, "tl1": hexs(p.TL1), "tl1_boxed": hexs(p.TL1B), "tl2": hexs(p.TL2)})
			}
			return
		}
		if p.Kind == "edge" {
			nEdge++
			if prop != "C09" {
				return
			}
			fs, err := replayEdge(c, b, &p, nEdge)
			if err != nil {
				firstErr = err
				return
			}
			// and the same edge backwards (the value graph is explored one way only up to K steps)
			rev := p
			rev.From, rev.To = p.To, p.From
			fs2, err := replayEdge(c, b, &rev, nEdge+2)
			if err != nil {
				firstErr = err
				return
			}
			fs = append(fs, fs2...)
			for _, f := range fs {
				c.Violate(fmt.Sprintf("%s/%s/%s/%s", f.class, cp.Name, p.Tn, negKey(&p, f)), fmt.Sprintf("type %s: %s", p.Tn, f.what),
					map[string]any{"corpus": cp, "payload": p})
			}
			if nEdge%499 == 1 {
				c.Sample(map[string]any{"corpus": cp.Name, "type": p.Tn, "history": "decode " + hexs(p.From.TL1) + " then " + hexs(p.To.TL1) + " into one object"})
			}
			return
		}
		if prop == "C08" {
			total08(c, b, cp, &p, &firstErr)
			switch p.Kind {
			case "val":
				nVal++
			case "bytes", "bytes2":
				nBytes++
			}
			return
		}
		if p.Kind == "bytes2" {
			// C11: the TL2 readers accept exactly the byte strings the reference reader (Dec2) accepts,
			// consume as much, and hold the value the reference decodes (compared through its encoding)
			nBytes++
			bytesVar := nBytes%2 == 0 && cp.BytesVers != ""
			r, err := b.script(p.Tn, bytesVar, map[string]any{"op": "read2", "in": p.B})
			if err != nil {
				firstErr = err
				return
			}
			s := r.Steps[0]
			c.Add("evaluations", 1)
			c.Add("tl2_byte_strings", 1)
			bad := ""
			switch {
			case s.Panic != "":
				bad = "panic: " + s.Panic
			case p.Dec2OK && s.Err != "":
				bad = "reference accepts, implementation rejects: " + s.Err
			case !p.Dec2OK && s.Err == "":
				bad = fmt.Sprintf("reference rejects, implementation accepts (consumed %d, rewrites %s)", s.Consumed, hexs(s.Dump.TL2))
			case p.Dec2OK && s.Consumed != p.Dec2Pos:
				bad = fmt.Sprintf("consumed %d, reference %d", s.Consumed, p.Dec2Pos)
			case bytesVar:
				// slice-backed dictionaries keep order and duplicates of the input: only verdict and
				// consumption are compared for the []byte variant (C10 compares the variants' contents)
			case p.Dec2OK && p.Dec2Val && s.Dump != nil && p.Orig2 && !eqInts(s.Dump.TL2, p.Dec2Re):
				bad = fmt.Sprintf("decoded value re-encodes to %s, reference %s", hexs(s.Dump.TL2), hexs(p.Dec2Re))
			case p.Dec2OK && p.Dec2Val && s.Dump != nil && !p.Orig2 && (s.Dump.TL1Err != "" || !eqInts(s.Dump.TL1, p.Dec2TL1)):
				bad = fmt.Sprintf("decoded value is written in TL1 as %s %s, reference %s", hexs(s.Dump.TL1), s.Dump.TL1Err, hexs(p.Dec2TL1))
			}
			if s.Err == "" {
				acc++
			} else {
				rej++
			}
			if bad != "" && (prop == "C11" || prop == "C13") {
				key := fmt.Sprintf("tl2-bytes/%s/%s/read2/%s", cp.Name, p.Tn, hexs(p.B))
				if p.NegZ {
					key = fmt.Sprintf("tl2/%s/%s/negative-zero-float", cp.Name, p.Tn)
				}
				c.Violate(key, fmt.Sprintf("type %s, read2 of %s: %s", p.Tn, hexs(p.B), bad), map[string]any{"corpus": cp, "payload": p})
			}
			return
		}
		if p.Kind == "bad" {
			if prop != "C01" {
				return
			}
			nBad++
			// the invalid value is injected through TL2 (which carries its own element counts)
			r, err := b.script(p.Tn, nBad%2 == 1 && cp.BytesVers != "", map[string]any{"op": "read2", "in": p.TL2})
			if err != nil {
				firstErr = err
				return
			}
			s := r.Steps[0]
			c.Add("evaluations", 1)
			if s.Err != "" || s.Dump == nil {
				c.Add("invalid_values_not_injectable", 1)
				return
			}
			key := fmt.Sprintf("tl1-invalid/%s/%s/%s", cp.Name, p.Tn, hexs(p.TL2))
			if s.Panic != "" {
				c.Violate(key, "writer panics on an invalid value: "+s.Panic, p)
			} else if s.Dump.TL1Err == "" || s.Dump.TL1BErr == "" {
				c.Violate(key, fmt.Sprintf("type %s: a value whose array length disagrees with its size parameter (TL2 %s) is encoded in TL1 as %s / %s instead of a write error",
					p.Tn, hexs(p.TL2), hexs(s.Dump.TL1), hexs(s.Dump.TL1B)), p)
			}
			if nBad%53 == 1 {
				c.Sample(map[string]any{"corpus": cp.Name, "type": p.Tn, "invalid_value_as_tl2": hexs(p.TL2), "write_error": s.Dump.TL1Err})
			}
			return
		}
		if p.Kind == "fn" {
			nFn++
			if prop != "C07" {
				return
			}
			fs, err := replayFn(c, b, &p)
			if err != nil {
				firstErr = err
				return
			}
			for _, f := range fs {
				c.Violate(fmt.Sprintf("%s/%s/%s/%s", f.class, cp.Name, p.Tn, negKey(&p, f)), fmt.Sprintf("function %s: %s", p.Tn, f.what),
					map[string]any{"corpus": cp, "payload": p})
			}
			if nFn%97 == 1 {
				c.Sample(map[string]any{"corpus": cp.Name, "function": p.Tn, "request": hexs(p.Req), "result_tl1": hexs(p.Res1), "result_tl2": hexs(p.Res2)})
			}
			return
		}
		if p.Kind == "reenc" {
			nRe++
			r, err := b.script(p.Tn, nRe%2 == 1 && cp.BytesVers != "", map[string]any{"op": "read2", "in": p.B})
			if err != nil {
				firstErr = err
				return
			}
			s := r.Steps[0]
			c.Add("evaluations", 1)
			bad := ""
			switch {
			case s.Panic != "":
				bad = "panic: " + s.Panic
			case !p.Accept && s.Err == "":
				bad = fmt.Sprintf("object whose declared size exceeds the input is accepted (consumed %d of %d)", s.Consumed, len(p.B))
			case !p.Accept:
			case s.Err != "":
				bad = fmt.Sprintf("admissible non-minimal encoding (%s) %s rejected: %s", p.M, hexs(p.B), s.Err)
			case s.Consumed != len(p.B):
				bad = fmt.Sprintf("non-minimal encoding (%s) %s: consumed %d of %d", p.M, hexs(p.B), s.Consumed, len(p.B))
			case !eqInts(s.Dump.TL2, p.TL2):
				bad = fmt.Sprintf("non-minimal encoding (%s) %s decodes to a value written as %s, minimal encoding is %s", p.M, hexs(p.B), hexs(s.Dump.TL2), hexs(p.TL2))
			case !p.Orig2 && !eqInts(s.Dump.TL1, p.TL1) && nRe%2 == 0:
				bad = fmt.Sprintf("non-minimal encoding (%s) %s decodes to TL1 %s, expected %s", p.M, hexs(p.B), hexs(s.Dump.TL1), hexs(p.TL1))
			}
			if s.Err == "" {
				acc++
			} else {
				rej++
			}
			if bad != "" && classOf[prop]["reenc"] {
				c.Violate(fmt.Sprintf("reenc/%s/%s/%s", cp.Name, p.Tn, negKey(&p, finding{"reenc", p.M + "/" + hexs(p.B), ""})), fmt.Sprintf("type %s: %s", p.Tn, bad), map[string]any{"corpus": cp, "payload": p})
			}
			if nRe%307 == 1 {
				c.Sample(map[string]any{"corpus": cp.Name, "type": p.Tn, "mode": p.M, "bytes": hexs(p.B), "minimal": hexs(p.TL2)})
			}
			return
		}
		if p.Kind == "json" {
			if p.BadKey {
				c.Add("values_without_json_spelling_skipped", 1)
				return
			}
			nAlt++
			fs, err := replayAlt(c, b, &p)
			if err != nil {
				firstErr = err
				return
			}
			for _, f := range fs {
				if classOf[prop][f.class] {
					c.Violate(fmt.Sprintf("%s/%s/%s/%s", f.class, cp.Name, p.Tn, negKey(&p, f)), fmt.Sprintf("type %s: %s", p.Tn, f.what),
						map[string]any{"corpus": cp, "payload": p})
				}
			}
			if nAlt%397 == 1 {
				var sb strings.Builder
				_ = p.Alt.Render(&sb)
				c.Sample(map[string]any{"corpus": cp.Name, "type": p.Tn, "mode": p.M, "alternative_json": sb.String()})
			}
			return
		}
		nBytes++
		if p.Dec.Unk {
			// announced count beyond the model with the sanity rule off: the real reader may
			// legitimately try to allocate it; not sent to the implementation (C08 covers sanity on)
			unk++
			return
		}
		op := "read1"
		if p.Boxed {
			op = "read1b"
		}
		r, err := b.script(p.Tn, false, map[string]any{"op": op, "in": p.B})
		if err != nil {
			firstErr = err
			return
		}
		s := r.Steps[0]
		c.Add("evaluations", 1)
		bad := ""
		got := s.Dump
		switch {
		case s.Panic != "":
			bad = "panic: " + s.Panic
		case p.Dec.OK && s.Err != "" && cp.Sanity && strings.Contains(s.Err, "min object size"):
			// a valid input refused by the constant-4 length sanity rule: C01's known finding; C02 speaks
			// only of what readers accept
			c.Add("valid_inputs_refused_by_length_sanity", 1)
		case p.Dec.OK && s.Err != "":
			bad = "spec accepts, implementation rejects: " + s.Err
		case !p.Dec.OK && s.Err == "":
			bad = fmt.Sprintf("spec rejects, implementation accepts (consumed %d, rewrites %s)", s.Consumed, hexs(pick(got.TL1, got.TL1B, p.Boxed)))
		case p.Dec.OK && s.Consumed != p.Dec.Consumed:
			bad = fmt.Sprintf("consumed %d, spec %d", s.Consumed, p.Dec.Consumed)
		case p.Dec.OK && !eqInts(pick(got.TL1, got.TL1B, p.Boxed), p.Dec.Re):
			bad = fmt.Sprintf("accepted prefix re-encodes to %s, spec %s", hexs(pick(got.TL1, got.TL1B, p.Boxed)), hexs(p.Dec.Re))
		}
		if s.Err == "" {
			acc++
		} else {
			rej++
		}
		if bad != "" {
			c.Violate(fmt.Sprintf("tl1-bytes/%s/%s/%s/%s", cp.Name, p.Tn, op, hexs(p.B)),
				fmt.Sprintf("type %s, %s of %s: %s", p.Tn, op, hexs(p.B), bad), map[string]any{"corpus": cp, "payload": p})
		}
		if nBytes%1499 == 1 {
			c.Sample(map[string]any{"corpus": cp.Name, "type": p.Tn, "bytes": hexs(p.B), "boxed": p.Boxed, "spec_accepts": p.Dec.OK, "impl_err": s.Err})
		}
		// the []byte variant is a generated TL1 reader too: same verdict, same consumption, and what it
		// accepted is rewritten exactly (its dictionaries are slices: no sorting, no deduplication)
		if prop == "C02" && cp.BytesVers != "" && (cp.BytesVers == "*" || strings.HasPrefix(p.Tn, cp.BytesVers)) && (nBytes%2 == 0 || len(p.B) > 80) {
			r2, err := b.script(p.Tn, true, map[string]any{"op": op, "in": p.B})
			if err != nil {
				firstErr = err
				return
			}
			s2 := r2.Steps[0]
			c.Add("evaluations", 1)
			c.Add("bytes_variant_inputs", 1)
			bad2 := ""
			switch {
			case s2.Panic != "":
				bad2 = "panic: " + s2.Panic
			case p.Dec.OK && s2.Err != "" && cp.Sanity && strings.Contains(s2.Err, "min object size"):
				c.Add("valid_inputs_refused_by_length_sanity", 1)
			case p.Dec.OK && s2.Err != "":
				bad2 = "spec accepts, implementation rejects: " + s2.Err
			case !p.Dec.OK && s2.Err == "":
				bad2 = fmt.Sprintf("spec rejects, implementation accepts (consumed %d)", s2.Consumed)
			case p.Dec.OK && s2.Consumed != p.Dec.Consumed:
				bad2 = fmt.Sprintf("consumed %d, spec %d", s2.Consumed, p.Dec.Consumed)
			case p.Dec.OK && s2.Dump != nil:
				re := pick(s2.Dump.TL1, s2.Dump.TL1B, p.Boxed)
				if !eqInts(re, p.B[:p.Dec.Consumed]) && !eqInts(re, p.Dec.Re) {
					bad2 = fmt.Sprintf("accepted prefix re-encodes to %s", hexs(re))
				}
			}
			if bad2 != "" {
				c.Violate(fmt.Sprintf("tl1-bytes-bytesvar/%s/%s/%s/%s", cp.Name, p.Tn, op, hexs(p.B)),
					fmt.Sprintf("type %s, []byte variant, %s of %s: %s", p.Tn, op, hexs(p.B), bad2), map[string]any{"corpus": cp, "payload": p})
			}
		}
	}
	longStr := "{}"
	if prop == "C02" {
		longStr = "{253}" // the longest string of the one-byte length form: its 4-byte re-spelling must be refused
	}
	res, err := c.TLC(core.TLCOpts{Module: "MC_Codec", Cfg: "MC_Codec.cfg", Workers: 8, Timeout: time.Duration(c.Pick(20, 90)) * time.Minute,
		Files:  map[string][]byte{"SchemaData.tla": b.SchemaModuleX(tops, extraVals)},
		OnEmit: onEmit,
		Consts: map[string]string{"SANITY": tlaBool(cp.Sanity), "MAXLEN": "2", "LONGSTR": longStr, "K": strconv.Itoa(k), "KMUT": strconv.Itoa(kmut), "KJSON": strconv.Itoa(kjson), "KRE": strconv.Itoa(kre), "KMUT2": strconv.Itoa(kmut2), "KFN": strconv.Itoa(kfn), "KBAD": strconv.Itoa(kbad), "EDGES": tlaBool(prop == "C09")}})
	if err != nil {
		return err
	}
	if !res.OK {
		return fmt.Errorf("TLC MC_Codec on corpus %s: %s\n%s\n%s", cp.Name, res.ErrorKind, res.ErrorText, tail(res.Tail, 1500))
	}
	if firstErr != nil {
		return firstErr
	}
	c.Logf("corpus %s: %d distinct states (%d values, %d byte strings: impl accepted %d rejected %d, outside model %d) in %v",
		cp.Name, res.Distinct, nVal, nBytes, acc, rej, unk, res.Wall)
	c.Add("states", res.Distinct)
	c.Add("transitions", res.Generated)
	c.Add("distinct_nontrivial", res.Distinct)
	c.Add("values", nVal)
	c.Add("byte_strings", nBytes)
	c.Add("alternative_json_forms", nAlt)
	c.Add("history_edges", nEdge)
	c.Add("tl2_reencodings", nRe)
	c.Add("function_results", nFn)
	c.Add("invalid_values", nBad)
	c.Add("impl_accepted", acc)
	c.Add("impl_rejected", rej)
	c.Add("outside_model", unk)
	c.Add("traces_validated_against_impl", 0)
	if prop == "C08" {
		acc, rej = c.Get("c08_accepted"), c.Get("c08_rejected")
	}
	if prop == "C07" && nFn == 0 && cp.Name != "probe" {
		c.Logf("corpus %s has no functions", cp.Name)
	}
	if (prop == "C02" || prop == "C08") && (acc == 0 || rej == 0) {
		return fmt.Errorf("vacuous mutation run on %s: accepted=%d rejected=%d", cp.Name, acc, rej)
	}
	return nil
}

func pick(bare, boxed []int, isBoxed bool) []int {
	if isBoxed {
		return boxed
	}
	return bare
}

func tlaBool(b bool) string {
	if b {
		return "TRUE"
	}
	return "FALSE"
}

// extraVals: additional leaf values per primitive type for the current run (C34)
var extraVals map[string][][]int

// which finding classes decide which property
var classOf = map[string]map[string]bool{
	"C01": {"tl1": true},
	"C02": {"tl1": true},
	"C03": {"tl2": true},
	"C04": {"conv": true},
	"C05": {"json": true},
	"C34": {"json": true, "bytesvar": true},
	"C06": {"jsonalt": true},
	"C07": {"fn": true},
	"C08": {"total": true},
	"C09": {"reuse": true},
	"C10": {"bytesvar": true},
	"C13": {"reenc": true},
	"C11": {"tl1": true, "tl2": true, "reenc": true},
}

func wantVal(prop string, k int) bool {
	if prop == "C02" || prop == "C06" || prop == "C13" {
		return k == 0
	}
	return true
}

type finding struct{ class, key, what string }

// replayVal drives the generated code with the spec's encodings of one value
// and compares every observable with the spec.
func replayVal(c *core.Ctx, b *Built, p *valPayload) ([]finding, error) {
	var fs []finding
	add := func(class, key, what string) { fs = append(fs, finding{class, key, what}) }
	var jsonFromTL1 string
	for _, boxed := range []bool{false, true} {
		if p.Orig2 {
			break
		}
		in, op := p.TL1, "read1"
		if boxed {
			in, op = p.TL1B, "read1b"
		}
		r, err := b.script(p.Tn, false, map[string]any{"op": op, "in": in})
		if err != nil {
			return nil, err
		}
		s := r.Steps[0]
		c.Add("evaluations", 1)
		key := op + "/" + hexs(in)
		switch {
		case s.Panic != "":
			add("tl1", key, "panic: "+s.Panic)
			continue
		case s.Err != "":
			if p.Small && b.Corpus.Sanity && strings.Contains(s.Err, "min object size") {
				// the fixed "4 bytes per element" rule of --checkLengthSanity refusing elements that are smaller
				add("tl1", "sanity-small-elements", fmt.Sprintf("%s of valid encoding %s rejected: %s", op, hexs(in), s.Err))
				continue
			}
			add("tl1", key, fmt.Sprintf("%s of valid encoding %s rejected: %s", op, hexs(in), s.Err))
			continue
		case s.Consumed != len(in):
			add("tl1", key, fmt.Sprintf("%s of %s consumed %d of %d bytes", op, hexs(in), s.Consumed, len(in)))
		case s.Dump.TL1Err != "" || s.Dump.TL1BErr != "":
			add("tl1", key, "write error on a valid value: "+s.Dump.TL1Err+s.Dump.TL1BErr)
		case !eqInts(s.Dump.TL1, p.TL1) || !eqInts(s.Dump.TL1B, p.TL1B):
			add("tl1", key, fmt.Sprintf("%s of %s re-encodes to %s / %s", op, hexs(in), hexs(s.Dump.TL1), hexs(s.Dump.TL1B)))
		}
		if !boxed {
			jsonFromTL1 = s.Dump.JSON
			if p.JSON != nil {
				checkJSON(c, b, p, s.Dump.JSON, add)
			}
			if p.HasTL2 && s.Dump.HasTL2 && !eqInts(s.Dump.TL2, p.TL2) {
				add("tl2", "write2/"+hexs(in), fmt.Sprintf("value read from TL1 %s is written in TL2 as %s, spec %s", hexs(in), hexs(s.Dump.TL2), hexs(p.TL2)))
			}
		}
	}
	if p.HasTL2 {
		r, err := b.script(p.Tn, false, map[string]any{"op": "read2", "in": p.TL2})
		if err != nil {
			return nil, err
		}
		s := r.Steps[0]
		c.Add("evaluations", 1)
		key := "read2/" + hexs(p.TL2)
		switch {
		case s.Panic != "":
			add("tl2", key, "panic: "+s.Panic)
		case s.Err != "":
			add("tl2", key, fmt.Sprintf("ReadTL2 of valid encoding %s rejected: %s", hexs(p.TL2), s.Err))
		default:
			if s.Consumed != len(p.TL2) {
				add("tl2", key, fmt.Sprintf("ReadTL2 of %s consumed %d of %d bytes", hexs(p.TL2), s.Consumed, len(p.TL2)))
			}
			if !eqInts(s.Dump.TL2, p.TL2) {
				add("tl2", key, fmt.Sprintf("ReadTL2 of %s re-encodes to %s", hexs(p.TL2), hexs(s.Dump.TL2)))
			}
			if !p.Orig2 && (s.Dump.TL1Err != "" || !eqInts(s.Dump.TL1, p.TL1)) {
				add("conv", "tl1-tl2-tl1/"+hexs(p.TL1), fmt.Sprintf("TL1 %s -> TL2 %s -> TL1 gives %s %s", hexs(p.TL1), hexs(p.TL2), hexs(s.Dump.TL1), s.Dump.TL1Err))
			}
			if p.Orig2 && p.JSON != nil {
				checkJSON(c, b, p, s.Dump.JSON, add)
				jsonFromTL1 = s.Dump.JSON // reference text of the string variant for TL2-declared types
			}
			// (no TL1-side JSON when the TL1 read itself was refused: that is C01's subject - e.g. its known
			// length-sanity finding - and C04 speaks of values decoded from TL1 bytes)
			if !p.Orig2 && jsonFromTL1 != "" && s.Dump.JSON != jsonFromTL1 {
				add("conv", "json-differs/"+hexs(p.TL1), fmt.Sprintf("JSON after TL1 decode %s, after TL2 decode %s", jsonFromTL1, s.Dump.JSON))
			}
		}
	}
	if b.Corpus.BytesVers != "" {
		bytesVariantChecks(c, b, p, jsonFromTL1, add)
	}
	return fs, nil
}

// bytesVariantChecks (C10): the []byte variant, given the same inputs, must produce the
// same outputs as the specification prescribes for the string variant.
func bytesVariantChecks(c *core.Ctx, b *Built, p *valPayload, stringVariantJSON string, add func(class, key, what string)) {
	type inp struct {
		op   string
		step map[string]any
	}
	var ins []inp
	if !p.Orig2 { // types declared in TL2 have no TL1 form
		ins = append(ins, inp{"read1", map[string]any{"op": "read1", "in": p.TL1}})
	}
	if p.HasTL2 {
		ins = append(ins, inp{"read2", map[string]any{"op": "read2", "in": p.TL2}})
	}
	if p.JSON != nil && !p.BadKey {
		var sb strings.Builder
		if p.JSON.Render(&sb) == nil {
			ins = append(ins, inp{"readj", map[string]any{"op": "readj", "text": sb.String()}})
		}
	}
	for _, in := range ins {
		r, err := b.script(p.Tn, true, in.step)
		if err != nil {
			add("bytesvar", in.op+"/"+hexs(p.TL1), "driver: "+err.Error())
			return
		}
		s := r.Steps[0]
		c.Add("evaluations", 1)
		key := in.op + "/" + hexs(p.TL1)
		if p.Orig2 {
			key = in.op + "/" + hexs(p.TL2)
		}
		switch {
		case s.Panic != "":
			add("bytesvar", key, "[]byte variant panics: "+s.Panic)
		case s.Err != "" && in.op == "read1" && p.Small && b.Corpus.Sanity && strings.Contains(s.Err, "min object size"):
			// the constant-4 length sanity rule (C01's known finding) refuses this input in both variants
			// alike; C10 asks for equal behaviour of the variants, which holds
			c.Add("inputs_refused_alike_by_both_variants", 1)
		case s.Err != "":
			add("bytesvar", key, fmt.Sprintf("[]byte variant rejects %s of a valid input: %s", in.op, s.Err))
		default:
			if !p.Orig2 && (s.Dump.TL1Err != "" || !eqInts(s.Dump.TL1, p.TL1)) {
				add("bytesvar", key, fmt.Sprintf("[]byte variant after %s writes TL1 %s %s, string variant/spec %s", in.op, hexs(s.Dump.TL1), s.Dump.TL1Err, hexs(p.TL1)))
			}
			if p.HasTL2 && s.Dump.HasTL2 && !eqInts(s.Dump.TL2, p.TL2) {
				add("bytesvar", key, fmt.Sprintf("[]byte variant after %s writes TL2 %s, string variant/spec %s", in.op, hexs(s.Dump.TL2), hexs(p.TL2)))
			}
			if p.JSON != nil && !p.BadKey { // with a non-UTF-8 key only the text equality below applies
				if got, err := parseJSON(s.Dump.JSON); err != nil || p.JSON.Match(got, "$") != nil {
					add("bytesvar", key, fmt.Sprintf("[]byte variant after %s writes JSON %s which differs from the string variant/spec", in.op, s.Dump.JSON))
				}
			}
			// "identical encodings": for the same content the two variants must print the same JSON text
			if stringVariantJSON != "" && (in.op == "read1" || p.Orig2 && in.op == "read2") && s.Dump.JSON != stringVariantJSON {
				add("bytesvar", key, fmt.Sprintf("[]byte variant prints JSON %s, the string variant %s", s.Dump.JSON, stringVariantJSON))
			}
		}
	}
}

// replayEdge (C09): decode `from`, then `to`, into ONE object (in formats chosen round-robin),
// also with a failing read in between, and Reset; the result must be what the spec prescribes
// for `to` alone, i.e. what a fresh object gives.
func replayEdge(c *core.Ctx, b *Built, p *valPayload, n int) ([]finding, error) {
	var fs []finding
	mk := func(e *encs, f int) (map[string]any, int) {
		switch {
		case f == 1 && !p.Orig2:
			return map[string]any{"op": "read1b", "in": e.TL1B}, len(e.TL1B)
		case f == 2 && p.HasTL2:
			return map[string]any{"op": "read2", "in": e.TL2}, len(e.TL2)
		case f == 3 && e.JSON != nil && !p.BadKey: // a value with a non-UTF-8 dictionary key has no JSON spelling
			var sb strings.Builder
			if e.JSON.Render(&sb) == nil {
				return map[string]any{"op": "readj", "text": sb.String()}, -1
			}
		}
		if p.Orig2 { // types declared in TL2 have no TL1 form
			return map[string]any{"op": "read2", "in": e.TL2}, len(e.TL2)
		}
		return map[string]any{"op": "read1", "in": e.TL1}, len(e.TL1)
	}
	// every history in its pure forms (TL1 -> TL1, TL2 -> TL2, JSON -> JSON) and in one mixed pair that
	// rotates with the edge number and the seed
	f1, f2 := (n+int(c.Seed))%4, ((n+int(c.Seed))/4)%4
	seenPair := map[string]bool{}
	pairs := [][2]int{{0, 0}, {2, 2}, {3, 3}, {f1, f2}}
	if c.Thorough() && b.Corpus.Name != "probe" {
		// thorough tier (K = 3, six corpora; the replay is sequential): the repository's cases.tl gets one pure
		// pair rotating with the edge plus the mixed one, the additional corpora the mixed pair only
		pure := [][2]int{{0, 0}, {2, 2}, {3, 3}}[n%3]
		pairs = [][2]int{pure, {f1, f2}}
		if b.Corpus.Name != "cases" {
			pairs = [][2]int{{f1, f2}}
		}
	}
	for _, fp := range pairs {
		s1, _ := mk(p.From, fp[0])
		s2, want2 := mk(p.To, fp[1])
		pk := fmt.Sprint(s1["op"], s2["op"])
		if seenPair[pk] {
			continue
		}
		seenPair[pk] = true
		for _, bytesVariant := range []bool{false, true} {
			if bytesVariant && b.Corpus.BytesVers == "" {
				continue
			}
			steps := []map[string]any{s1, s2}
			// a failing read in between (truncated input), then the good one again
			if in, ok := s2["in"].([]int); ok && len(in) > 0 {
				steps = []map[string]any{s1, {"op": s2["op"], "in": in[:len(in)-1]}, s2}
			}
			steps = append(steps, map[string]any{"op": "reset"})
			r, err := b.script(p.Tn, bytesVariant, steps...)
			if err != nil {
				return nil, err
			}
			fresh, err := b.script(p.Tn, bytesVariant, map[string]any{"op": "new"})
			if err != nil {
				return nil, err
			}
			c.Add("evaluations", 1)
			key := fmt.Sprintf("%v/%v->%v/%s->%s", bytesVariant, s1["op"], s2["op"], hexs(p.From.TL1), hexs(p.To.TL1))
			last := r.Steps[len(r.Steps)-2]
			rst := r.Steps[len(r.Steps)-1]
			for _, st := range r.Steps {
				if st.Panic != "" {
					fs = append(fs, finding{"reuse", key, "panic: " + st.Panic})
				}
			}
			if len(r.Steps) == 4 {
				mid := r.Steps[1]
				fr, err := b.script(p.Tn, bytesVariant, steps[1])
				if err != nil {
					return nil, err
				}
				if (mid.Err == "") != (fr.Steps[0].Err == "") {
					fs = append(fs, finding{"reuse", key, fmt.Sprintf("truncated input: reused object err=%q, fresh object err=%q", mid.Err, fr.Steps[0].Err)})
				}
			}
			switch {
			case last.Err != "" && b.Corpus.Sanity && strings.Contains(last.Err, "min object size"):
				// refused by the constant-4 length sanity rule, as a fresh object refuses it too (C01's known finding)
				c.Add("inputs_refused_by_length_sanity", 1)
			case last.Err != "":
				fs = append(fs, finding{"reuse", key, fmt.Sprintf("valid input rejected by the reused object: %s", last.Err)})
			case last.Dump != nil:
				if want2 >= 0 && last.Consumed != want2 {
					fs = append(fs, finding{"reuse", key, fmt.Sprintf("reused object consumed %d of %d", last.Consumed, want2)})
				}
				if !p.Orig2 && (last.Dump.TL1Err != "" || !eqInts(last.Dump.TL1, p.To.TL1)) {
					fs = append(fs, finding{"reuse", key, fmt.Sprintf("reused object holds TL1 %s %s, a fresh one %s", hexs(last.Dump.TL1), last.Dump.TL1Err, hexs(p.To.TL1))})
				}
				if p.HasTL2 && last.Dump.HasTL2 && !eqInts(last.Dump.TL2, p.To.TL2) {
					fs = append(fs, finding{"reuse", key, fmt.Sprintf("reused object holds TL2 %s, a fresh one %s", hexs(last.Dump.TL2), hexs(p.To.TL2))})
				}
				if p.BadKey {
					// no valid JSON exists for this value (C05's known finding); C09 only asks for "same as fresh"
					fr2, err := b.script(p.Tn, bytesVariant, s2)
					if err != nil {
						return nil, err
					}
					if d := fr2.Steps[0].Dump; d != nil && d.JSON != last.Dump.JSON {
						fs = append(fs, finding{"reuse", key, fmt.Sprintf("reused object prints JSON %s, a fresh one %s", last.Dump.JSON, d.JSON)})
					}
				} else if got, err := parseJSON(last.Dump.JSON); err != nil || p.To.JSON.Match(got, "$") != nil {
					fs = append(fs, finding{"reuse", key, fmt.Sprintf("reused object prints JSON %s, not the fresh object's", last.Dump.JSON)})
				}
			}
			if rst.Err == "" && rst.Dump != nil && fresh.Steps[0].Dump != nil {
				a, f := rst.Dump, fresh.Steps[0].Dump
				if !eqInts(a.TL1, f.TL1) || !eqInts(a.TL2, f.TL2) || a.JSON != f.JSON || a.TL1Err != f.TL1Err {
					fs = append(fs, finding{"reuse", key + "/reset", fmt.Sprintf("after Reset the object writes %s / %s / %s, a fresh one %s / %s / %s", hexs(a.TL1), hexs(a.TL2), a.JSON, hexs(f.TL1), hexs(f.TL2), f.JSON)})
				}
			}
		}
	}
	return fs, nil
}

// checkJSON: the JSON written by the implementation must be valid JSON, equal the
// specified tree, and read back into a value with the same three encodings (C05).
func checkJSON(c *core.Ctx, b *Built, p *valPayload, text string, add func(class, key, what string)) {
	key := "json/" + hexs(p.TL1)
	if p.Orig2 {
		key = "json2/" + hexs(p.TL2)
	}
	got, err := parseJSON(text)
	if err != nil {
		add("json", key, fmt.Sprintf("written JSON %s is invalid: %v", text, err))
		return
	}
	if err := p.JSON.Match(got, "$"); err != nil {
		var sb strings.Builder
		_ = p.JSON.Render(&sb)
		add("json", key, fmt.Sprintf("written JSON %s differs from the specified %s: %v", text, sb.String(), err))
		return
	}
	r, err := b.script(p.Tn, false, map[string]any{"op": "readj", "text": text})
	if err != nil {
		add("json", key, "driver: "+err.Error())
		return
	}
	s := r.Steps[0]
	c.Add("evaluations", 1)
	switch {
	case s.Panic != "":
		add("json", key, "panic reading own JSON "+text+": "+s.Panic)
	case s.Err != "":
		add("json", key, fmt.Sprintf("own JSON %s rejected: %s", text, s.Err))
	default:
		if s.Dump.JSON != text {
			add("json", key, fmt.Sprintf("JSON %s reads back and is written as %s", text, s.Dump.JSON))
		}
		if !p.Orig2 && (s.Dump.TL1Err != "" || !eqInts(s.Dump.TL1, p.TL1)) {
			add("json", key, fmt.Sprintf("JSON %s reads back to TL1 %s %s, original %s", text, hexs(s.Dump.TL1), s.Dump.TL1Err, hexs(p.TL1)))
		}
		if p.HasTL2 && s.Dump.HasTL2 && !eqInts(s.Dump.TL2, p.TL2) {
			add("json", key, fmt.Sprintf("JSON %s reads back to TL2 %s, original %s", text, hexs(s.Dump.TL2), hexs(p.TL2)))
		}
	}
}

// replayAlt: an alternative spelling must decode to the same value as the canonical one (C06).
func replayAlt(c *core.Ctx, b *Built, p *valPayload) ([]finding, error) {
	var fs []finding
	var sb strings.Builder
	if err := p.Alt.Render(&sb); err != nil {
		return nil, err
	}
	text := sb.String()
	key := "alt-" + p.M + "/" + text
	r, err := b.script(p.Tn, false, map[string]any{"op": "readj", "text": text})
	if err != nil {
		return nil, err
	}
	s := r.Steps[0]
	c.Add("evaluations", 1)
	switch {
	case s.Panic != "":
		fs = append(fs, finding{"jsonalt", key, "panic: " + s.Panic})
	case p.Bad:
		if s.Err == "" {
			fs = append(fs, finding{"jsonalt", key, fmt.Sprintf("invalid form (%s) %s accepted; written back as %s", p.M, text, s.Dump.JSON)})
		}
	case s.Err != "":
		fs = append(fs, finding{"jsonalt", key, fmt.Sprintf("documented alternative form (%s) %s rejected: %s", p.M, text, s.Err)})
	default:
		if s.Dump.TL1Err != "" || !eqInts(s.Dump.TL1, p.TL1) {
			fs = append(fs, finding{"jsonalt", key, fmt.Sprintf("alternative form (%s) %s decodes to TL1 %s %s, canonical form gives %s", p.M, text, hexs(s.Dump.TL1), s.Dump.TL1Err, hexs(p.TL1))})
		} else if p.HasTL2 && s.Dump.HasTL2 && !eqInts(s.Dump.TL2, p.TL2) {
			fs = append(fs, finding{"jsonalt", key, fmt.Sprintf("alternative form (%s) %s decodes to TL2 %s, canonical form gives %s", p.M, text, hexs(s.Dump.TL2), hexs(p.TL2))})
		} else if got, err := parseJSON(s.Dump.JSON); err != nil || p.JSON.Match(got, "$") != nil {
			fs = append(fs, finding{"jsonalt", key, fmt.Sprintf("alternative form (%s) %s is written back as %s, not the canonical form", p.M, text, s.Dump.JSON)})
		}
	}
	return fs, nil
}

// corporaFor lists the generation units of a tier. VERIF_CORPUS restricts to one (debugging).
func corporaFor(c *core.Ctx) []Corpus {
	all := []Corpus{
		{Name: "probe", Files: []string{probe("probe1.tl")}, TL2: "", Sanity: true},
		{Name: "cases", Files: []string{tls("cases.tl")}, TL2: "*", Sanity: false, BytesVers: "cases_bytes."},
	}
	if c.Thorough() || os.Getenv("VERIF_CORPUS") != "" {
		all = append(all,
			Corpus{Name: "cases-sane-split", Files: []string{tls("cases.tl")}, TL2: "*", Sanity: true, BytesVers: "*", Split: true},
			Corpus{Name: "goldmaster", Files: []string{tls("goldmaster.tl"), tls("goldmaster2.tl"), tls("goldmaster3.tl")}, TL2: "*", Sanity: false, BytesVers: "*"},
			Corpus{Name: "schema", Files: []string{tls("schema.tl")}, TL2: "", Sanity: true},
			Corpus{Name: "casestl2", Files: []string{tls("cases.tl2")}, TL2: "*", Sanity: true, BytesVers: "cases_bytes."},
		)
	}
	if only := os.Getenv("VERIF_CORPUS"); only != "" {
		var r []Corpus
		for _, cp := range all {
			if cp.Name == only {
				r = append(r, cp)
			}
		}
		return r
	}
	return all
}

// negKey: values holding a negative-zero float are a known class (emptiness of float
// fields is tested with x != 0, so -0.0 in a required field is dropped from TL2 and JSON);
// their mismatches outside TL1 get one stable key per class instead of one per input.
func negKey(p *valPayload, f finding) string {
	if p.NegZ && f.class != "tl1" {
		return "negative-zero-float"
	}
	// a string dictionary key that is not valid UTF-8 cannot be a JSON member name: the writers emit
	// {"base64":...} in key position, i.e. invalid JSON; one stable key for the class
	if p.BadKey && (f.class == "json" || f.class == "fn") {
		return "non-utf8-dictionary-key"
	}
	return f.key
}

// allocation allowed for reading an input of n bytes with length sanity checks on
func allocBound(n int) uint64 { return 256<<10 + 4096*uint64(n) }

// total08 (C08): every reader returns normally on every stimulus derived from the model:
// no panic, no hang (watchdog), and with sanity checks on no allocation out of proportion.
func total08(c *core.Ctx, b *Built, cp Corpus, p *valPayload, firstErr *error) {
	run := func(what string, n int, step map[string]any) {
		r, err := b.script(p.Tn, c.Get("evaluations")%2 == 1 && cp.BytesVers != "", step)
		c.Add("evaluations", 1)
		key := fmt.Sprintf("total/%s/%s/%s", cp.Name, p.Tn, what)
		if err != nil {
			// dead or hung driver: reproduce once in the restarted process before reporting
			if _, err2 := b.script(p.Tn, false, step); err2 != nil {
				c.Violate(key+"/no-return", fmt.Sprintf("reader does not return normally on %s: %v", what, oneLine(err2.Error(), 300)), map[string]any{"corpus": cp, "step": step, "type": p.Tn})
			}
			return
		}
		s := r.Steps[0]
		if s.Panic != "" && s.ReadPanic {
			c.Violate(key+"/panic", fmt.Sprintf("reader panics on %s: %s", what, s.Panic), map[string]any{"corpus": cp, "step": step, "type": p.Tn})
		} else if s.Panic != "" {
			c.Add("writer_panics_after_accepted_read_seen", 1) // a writer failing on what a reader accepted: C03/C06 territory
		}
		if cp.Sanity && s.Alloc > allocBound(n) {
			c.Violate(key+"/alloc", fmt.Sprintf("reader allocated %d bytes for an input of %d bytes (%s)", s.Alloc, n, what), map[string]any{"corpus": cp, "step": step, "type": p.Tn})
		}
		if s.Alloc > uint64(c.Get("max_alloc_seen")) {
			c.Set("max_alloc_seen", int(s.Alloc))
		}
		if s.Err == "" {
			c.Add("c08_accepted", 1)
		} else {
			c.Add("c08_rejected", 1)
		}
	}
	switch p.Kind {
	case "bytes":
		if p.Dec.Unk && !cp.Sanity {
			return // without the sanity rule the reader may legitimately allocate what the count announces
		}
		op := "read1"
		if p.Boxed {
			op = "read1b"
		}
		run(op+"/"+hexs(p.B), len(p.B), map[string]any{"op": op, "in": p.B})
	case "bytes2":
		run("read2/"+hexs(p.B), len(p.B), map[string]any{"op": "read2", "in": p.B})
	case "val":
		if p.JSON == nil {
			return
		}
		var sb strings.Builder
		if p.JSON.Render(&sb) != nil {
			return
		}
		text := sb.String()
		var muts []string
		for i := 0; i < len(text); i++ {
			muts = append(muts, text[:i])
		}
		for i := 0; i < len(text); i++ {
			for _, ch := range []string{"{", "}", "[", "]", "\"", ",", ":", "9", "e", "-", "\\", "\x00", "n"} {
				if (i*7+len(ch)+int(c.Seed))%5 == 0 { // a deterministic sample of single-character replacements
					muts = append(muts, text[:i]+ch+text[i+1:])
				}
			}
		}
		muts = append(muts, strings.Repeat("[", 3000), strings.Repeat(`{"a":`, 2000), text+text, "1e999999", `"`+strings.Repeat("\\u12", 50))
		for _, m := range muts {
			run("readj/"+m, len(m), map[string]any{"op": "readj", "text": m})
		}
	}
}

// replayFn (C07): with the request read, each of the six result transcoders must produce
// exactly what the specification prescribes for the result value under the request's parameters.
func replayFn(c *core.Ctx, b *Built, p *valPayload) ([]finding, error) {
	var fs []finding
	var sb strings.Builder
	if err := p.ResJ.Render(&sb); err != nil {
		return nil, err
	}
	text := sb.String()
	step := map[string]any{"op": "fnres", "in": p.Res1, "text": text}
	if p.HasTL2 {
		step["in2"] = p.Res2
	}
	r, err := b.script(p.Tn, false, map[string]any{"op": "read1b", "in": p.Req}, step)
	if err != nil {
		return nil, err
	}
	c.Add("evaluations", 1)
	key := hexs(p.Req) + "/" + hexs(p.Res1)
	if b.Corpus.Sanity && strings.Contains(r.Steps[0].Err, "min object size") {
		// the request itself is refused by the constant-4 length sanity rule (C01's known finding):
		// no typed request, so no result transcoder to judge
		c.Add("requests_refused_by_length_sanity", 1)
		return nil, nil
	}
	if r.Steps[0].Err != "" || r.Steps[0].Panic != "" {
		return []finding{{"fn", key, "request rejected: " + r.Steps[0].Err + r.Steps[0].Panic}}, nil
	}
	fn := r.Steps[1].Fn
	if fn == nil {
		return []finding{{"fn", key, "no transcoders: " + r.Steps[1].Err + r.Steps[1].Panic}}, nil
	}
	bad := func(name, what string) {
		k := name + "/" + key
		if p.Small && b.Corpus.Sanity && strings.Contains(what, "min object size") {
			k = "sanity-small-elements" // the constant-4 length sanity rule refusing smaller elements (see C01)
		}
		fs = append(fs, finding{"fn", k, fmt.Sprintf("request %s, result %s: transcoder %s: %s", hexs(p.Req), hexs(p.Res1), name, what)})
	}
	checkBytes := func(name string, want []int, inLen int) {
		x, ok := fn[name]
		switch {
		case !ok:
			bad(name, "missing")
		case x.Panic != "":
			bad(name, "panic: "+x.Panic)
		case x.Err != "":
			bad(name, "error on a valid result: "+x.Err)
		case !eqInts(x.Out, want):
			bad(name, fmt.Sprintf("writes %s, spec %s", hexs(x.Out), hexs(want)))
		case inLen >= 0 && x.Consumed != inLen:
			bad(name, fmt.Sprintf("consumed %d of %d", x.Consumed, inLen))
		}
	}
	checkJSON := func(name string, inLen int) {
		x, ok := fn[name]
		switch {
		case !ok:
			bad(name, "missing")
		case x.Panic != "":
			bad(name, "panic: "+x.Panic)
		case x.Err != "":
			bad(name, "error on a valid result: "+x.Err)
		default:
			if got, err := parseJSON(x.Text); err != nil {
				bad(name, "invalid JSON "+x.Text)
			} else if err := p.ResJ.Match(got, "$"); err != nil {
				bad(name, fmt.Sprintf("writes %s, spec %s (%v)", x.Text, text, err))
			}
			if x.Consumed != inLen {
				bad(name, fmt.Sprintf("consumed %d of %d", x.Consumed, inLen))
			}
		}
	}
	checkJSON("1j", len(p.Res1))
	// the caller's JSON context must reach the writer on every path (legacy constructor names: name#tag)
	LegacyNames = true
	checkJSON("1Lj", len(p.Res1))
	if p.HasTL2 {
		checkJSON("2Lj", len(p.Res2))
	}
	LegacyNames = false
	checkBytes("j1", p.Res1, -1)
	if p.HasTL2 {
		checkBytes("12", p.Res2, len(p.Res1))
		checkBytes("21", p.Res1, len(p.Res2))
		checkJSON("2j", len(p.Res2))
		checkBytes("j2", p.Res2, -1)
	}
	return fs, nil
}
