package codec

import (
	"encoding/json"
	"fmt"
	"path/filepath"
	"reflect"
	"strconv"
	"strings"
	"time"

	"verif/core"
)

func init() {
	core.Register("C01", "model_checking", func(c *core.Ctx) error { return runTL1(c, "C01") })
	core.Register("C02", "model_checking", func(c *core.Ctx) error { return runTL1(c, "C02") })
}

func tls(name string) string {
	return filepath.Join(core.RepoDir, "internal/tlcodegen/test/tls", name)
}

func probe(name string) string { return filepath.Join(core.VerifDir, "harness", "corpus", name) }

type stepRes struct {
	Err      string `json:"err"`
	EOF      bool   `json:"eof"`
	Panic    string `json:"panic"`
	Consumed int    `json:"consumed"`
	Dump     *struct {
		TL1     []int  `json:"tl1"`
		TL1Err  string `json:"tl1err"`
		TL1B    []int  `json:"tl1b"`
		TL1BErr string `json:"tl1berr"`
		TL2     []int  `json:"tl2"`
		HasTL2  bool   `json:"hastl2"`
		JSON    string `json:"json"`
		JSONErr string `json:"jsonerr"`
	} `json:"dump"`
	Alloc uint64 `json:"alloc"`
	Ns    int64  `json:"ns"`
}

type scriptRes struct {
	Fatal string    `json:"fatal"`
	Steps []stepRes `json:"steps"`
}

func (b *Built) item(tn string) string {
	t := b.Schema["types"].(map[string]any)[tn].(map[string]any)
	s, _ := t["item"].(string)
	return s
}

func (b *Built) script(tn string, bytesVariant bool, steps ...map[string]any) (*scriptRes, error) {
	var r scriptRes
	if err := b.Drv.Call(map[string]any{"tn": b.item(tn), "bytes": bytesVariant, "steps": steps}, &r); err != nil {
		return nil, err
	}
	if r.Fatal != "" {
		return nil, fmt.Errorf("driver: %s", r.Fatal)
	}
	return &r, nil
}

type valPayload struct {
	Kind  string `json:"kind"`
	Tn    string `json:"tn"`
	K     int    `json:"k"`
	TL1OK bool   `json:"tl1ok"`
	TL1   []int  `json:"tl1"`
	TL1B  []int  `json:"tl1b"`
	Boxed bool   `json:"boxed"`
	B     []int  `json:"b"`
	Dec   struct {
		OK       bool  `json:"ok"`
		Unk      bool  `json:"unk"`
		Consumed int   `json:"consumed"`
		Re       []int `json:"re"`
	} `json:"dec"`
}

func hexs(a []int) string {
	var sb strings.Builder
	for _, x := range a {
		fmt.Fprintf(&sb, "%02x", x)
	}
	return sb.String()
}

func eqInts(a, b []int) bool {
	if len(a) == 0 && len(b) == 0 {
		return true
	}
	return reflect.DeepEqual(a, b)
}

// runTL1 serves C01 (value round trips, deep value graph) and C02 (byte-level
// mutations of every encoding, canonical-form acceptance).
func runTL1(c *core.Ctx, prop string) error {
	corpora := []Corpus{
		{Name: "probe", Files: []string{probe("probe1.tl")}, TL2: "", Sanity: false},
		{Name: "cases", Files: []string{tls("cases.tl")}, TL2: "*", Sanity: false, BytesVers: "cases_bytes."},
	}
	k, kmut := c.Pick(2, 3), 0
	if prop == "C02" {
		k, kmut = c.Pick(1, 2), c.Pick(2, 3)
	}
	for _, cp := range corpora {
		if err := runCorpusTL1(c, prop, cp, k, kmut); err != nil {
			return err
		}
	}
	c.Set("rule", "TLC walks the value graph (<=K single-leaf modifications from the default value) of every top-level type of every corpus schema; C02 additionally mutates every byte / truncates every prefix of each TL1 encoding; a case = one distinct TLC state (type,value) or (type,bytes)")
	c.Assume("instance graph of repository schemas is exported from the implementation's kernel (binds templates + runtime, inherits kernel resolution)")
	return nil
}

func runCorpusTL1(c *core.Ctx, prop string, cp Corpus, k, kmut int) error {
	b, err := Build(c, cp)
	if err != nil {
		return err
	}
	defer b.Close()
	var tops []string
	types := b.Schema["types"].(map[string]any)
	for _, n := range b.Tops {
		if types[n].(map[string]any)["origin2"] == true {
			continue
		}
		tops = append(tops, n)
	}
	if len(tops) == 0 {
		return fmt.Errorf("corpus %s: no TL1 top-level types", cp.Name)
	}
	c.Logf("corpus %s: %d top-level TL1 types, K=%d KMut=%d", cp.Name, len(tops), k, kmut)
	var firstErr error
	nVal, nBytes, acc, rej, unk := 0, 0, 0, 0, 0
	onEmit := func(raw json.RawMessage) {
		if firstErr != nil {
			return
		}
		var p valPayload
		if err := json.Unmarshal(raw, &p); err != nil {
			firstErr = err
			return
		}
		if p.Kind == "val" {
			nVal++
			if prop != "C01" && p.K > 0 {
				return
			}
			if !p.TL1OK {
				firstErr = fmt.Errorf("spec produced an unencodable valid value for %s", p.Tn)
				return
			}
			for _, boxed := range []bool{false, true} {
				in, op := p.TL1, "read1"
				if boxed {
					in, op = p.TL1B, "read1b"
				}
				r, err := b.script(p.Tn, false, map[string]any{"op": op, "in": in})
				if err != nil {
					firstErr = err
					return
				}
				s := r.Steps[0]
				bad := ""
				switch {
				case s.Panic != "":
					bad = "panic: " + s.Panic
				case s.Err != "":
					bad = "valid encoding rejected: " + s.Err
				case s.Consumed != len(in):
					bad = fmt.Sprintf("consumed %d of %d bytes", s.Consumed, len(in))
				case s.Dump.TL1Err != "" || s.Dump.TL1BErr != "":
					bad = "write error on a valid value: " + s.Dump.TL1Err + s.Dump.TL1BErr
				case !eqInts(s.Dump.TL1, p.TL1) || !eqInts(s.Dump.TL1B, p.TL1B):
					bad = fmt.Sprintf("re-encoding differs: got %s / %s", hexs(s.Dump.TL1), hexs(s.Dump.TL1B))
				}
				c.Add("evaluations", 1)
				if bad != "" {
					c.Violate(fmt.Sprintf("tl1-roundtrip/%s/%s/%s/%s", cp.Name, p.Tn, op, hexs(in)),
						fmt.Sprintf("type %s, %s of %s: %s", p.Tn, op, hexs(in), bad),
						map[string]any{"corpus": cp, "payload": p})
				}
			}
			if nVal%211 == 1 {
				c.Sample(map[string]any{"corpus": cp.Name, "type": p.Tn, "tl1": hexs(p.TL1), "tl1_boxed": hexs(p.TL1B)})
			}
			return
		}
		nBytes++
		op := "read1"
		if p.Boxed {
			op = "read1b"
		}
		r, err := b.script(p.Tn, false, map[string]any{"op": op, "in": p.B})
		if err != nil {
			firstErr = err
			return
		}
		s := r.Steps[0]
		c.Add("evaluations", 1)
		if p.Dec.Unk {
			unk++
			if s.Panic != "" {
				c.Violate(fmt.Sprintf("tl1-bytes/%s/%s/%s/%s", cp.Name, p.Tn, op, hexs(p.B)), "panic: "+s.Panic, p)
			}
			return
		}
		bad := ""
		got := s.Dump
		switch {
		case s.Panic != "":
			bad = "panic: " + s.Panic
		case p.Dec.OK && s.Err != "":
			bad = "spec accepts, implementation rejects: " + s.Err
		case !p.Dec.OK && s.Err == "":
			bad = fmt.Sprintf("spec rejects, implementation accepts (consumed %d, rewrites %s)", s.Consumed, hexs(pick(got.TL1, got.TL1B, p.Boxed)))
		case p.Dec.OK && s.Consumed != p.Dec.Consumed:
			bad = fmt.Sprintf("consumed %d, spec %d", s.Consumed, p.Dec.Consumed)
		case p.Dec.OK && !eqInts(pick(got.TL1, got.TL1B, p.Boxed), p.Dec.Re):
			bad = fmt.Sprintf("accepted prefix re-encodes to %s, spec %s", hexs(pick(got.TL1, got.TL1B, p.Boxed)), hexs(p.Dec.Re))
		}
		if s.Err == "" {
			acc++
		} else {
			rej++
		}
		if bad != "" {
			c.Violate(fmt.Sprintf("tl1-bytes/%s/%s/%s/%s", cp.Name, p.Tn, op, hexs(p.B)),
				fmt.Sprintf("type %s, %s of %s: %s", p.Tn, op, hexs(p.B), bad), map[string]any{"corpus": cp, "payload": p})
		}
		if nBytes%1499 == 1 {
			c.Sample(map[string]any{"corpus": cp.Name, "type": p.Tn, "bytes": hexs(p.B), "boxed": p.Boxed, "spec_accepts": p.Dec.OK, "impl_err": s.Err})
		}
	}
	res, err := c.TLC(core.TLCOpts{Module: "MC_Codec", Cfg: "MC_Codec.cfg", Workers: 8, Timeout: 20 * time.Minute,
		Files:  map[string][]byte{"SchemaData.tla": b.SchemaModule(tops)},
		OnEmit: onEmit,
		Consts: map[string]string{"SANITY": tlaBool(cp.Sanity), "MAXLEN": "2", "LONGSTR": "{}", "K": strconv.Itoa(k), "KMUT": strconv.Itoa(kmut)}})
	if err != nil {
		return err
	}
	if !res.OK {
		return fmt.Errorf("TLC MC_Codec on corpus %s: %s\n%s\n%s", cp.Name, res.ErrorKind, res.ErrorText, tail(res.Tail, 1500))
	}
	if firstErr != nil {
		return firstErr
	}
	c.Logf("corpus %s: %d distinct states (%d values, %d byte strings: impl accepted %d rejected %d, outside model %d) in %v",
		cp.Name, res.Distinct, nVal, nBytes, acc, rej, unk, res.Wall)
	c.Add("states", res.Distinct)
	c.Add("transitions", res.Generated)
	c.Add("distinct_nontrivial", res.Distinct)
	c.Add("values", nVal)
	c.Add("byte_strings", nBytes)
	c.Add("impl_accepted", acc)
	c.Add("impl_rejected", rej)
	c.Add("outside_model", unk)
	c.Add("traces_validated_against_impl", 0)
	if prop == "C02" && (acc == 0 || rej == 0) {
		return fmt.Errorf("vacuous mutation run on %s: accepted=%d rejected=%d", cp.Name, acc, rej)
	}
	return nil
}

func pick(bare, boxed []int, isBoxed bool) []int {
	if isBoxed {
		return boxed
	}
	return bare
}

func tlaBool(b bool) string {
	if b {
		return "TRUE"
	}
	return "FALSE"
}
