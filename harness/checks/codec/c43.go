package codec

import (
	"encoding/json"
	"fmt"
	"strconv"
	"strings"
	"time"

	"verif/core"
)

func init() { core.Register("C43", "model_checking", runC43) }

type setterOp struct {
	Op  string          `json:"op"`
	F   string          `json:"f"`
	I   int             `json:"i"`
	X   json.RawMessage `json:"x"`
	Bit bool            `json:"bit"`

	Parent string `json:"parent"`
	Mask   string `json:"mask"`
}

// xInts: the value argument as little-endian bytes (booleans as one byte)
func (o setterOp) xInts() []int {
	var a []int
	if json.Unmarshal(o.X, &a) == nil {
		return a
	}
	var bl bool
	if json.Unmarshal(o.X, &bl) == nil {
		if bl {
			return []int{1}
		}
		return []int{0}
	}
	return nil
}

type setterEmit struct {
	Tn       string     `json:"tn"`
	Start    string     `json:"start"`
	Orig2    bool       `json:"origin2"`
	StartTL1 []int      `json:"startTL1"`
	Ops      []setterOp `json:"ops"`
	Obs      struct {
		IsSet  boolMap `json:"isset"`
		Names  strMap  `json:"names"`
		Nested []struct {
			Parent string `json:"parent"`
			F      string `json:"f"`
			Set    bool   `json:"set"`
		} `json:"nested"`
		TL1    []int `json:"tl1"`
		HasTL2 bool  `json:"hastl2"`
		TL2    []int `json:"tl2"`
		JSON   *JT   `json:"json"`
	} `json:"obs"`
}

// TLC renders a function with an empty domain as [] rather than {}
type boolMap map[string]bool
type strMap map[string]string

func (m *boolMap) UnmarshalJSON(b []byte) error {
	*m = boolMap{}
	if len(b) > 0 && b[0] == '[' {
		return nil
	}
	return json.Unmarshal(b, (*map[string]bool)(m))
}
func (m *strMap) UnmarshalJSON(b []byte) error {
	*m = strMap{}
	if len(b) > 0 && b[0] == '[' {
		return nil
	}
	return json.Unmarshal(b, (*map[string]string)(m))
}

// runC43: every accessor-call sequence enumerated by TLC (MC_Setters) is replayed through the
// real SetX/ClearX/IsSetX methods (reflection); IsSet of every eligible field and the three
// encodings of the object must equal the model state after the last call.
func runC43(c *core.Ctx) error {
	k := c.Pick(2, 3)
	for _, cp := range corporaFor(c) {
		b, err := Build(c, cp)
		if err != nil {
			return err
		}
		var tops []string
		types := b.Schema["types"].(map[string]any)
		for _, n := range b.Tops {
			if t := types[n].(map[string]any); t["k"] == "struct" && t["fn"] != true {
				tops = append(tops, n)
			}
		}
		var firstErr error
		n, skipped := 0, 0
		onEmit := func(raw json.RawMessage) {
			if firstErr != nil {
				return
			}
			var e setterEmit
			if err := json.Unmarshal(raw, &e); err != nil {
				firstErr = err
				return
			}
			if len(e.Ops) == 0 {
				return
			}
			if e.Start == "allset" && e.Orig2 {
				return
			}
			for _, bytesVariant := range []bool{false, true} {
				if bytesVariant && cp.BytesVers == "" {
					continue
				}
				var steps []map[string]any
				if e.Start == "allset" {
					steps = append(steps, map[string]any{"op": "read1", "in": e.StartTL1})
				} else {
					steps = append(steps, map[string]any{"op": "new"})
				}
				var desc []string
				for _, o := range e.Ops {
					steps = append(steps, map[string]any{"op": o.Op, "name": o.F, "x": o.xInts(), "parent": o.Parent, "mask": o.Mask})
					if o.Parent != "" {
						desc = append(desc, fmt.Sprintf("%s.%s(%s,%s,mask=%q)", o.Parent, o.Op, o.F, hexs(o.xInts()), o.Mask))
					} else {
						desc = append(desc, fmt.Sprintf("%s(%s,%s)", o.Op, o.F, hexs(o.xInts())))
					}
				}
				var names []string
				for _, nm := range e.Obs.Names {
					names = append(names, nm)
				}
				var pairs [][]string
				for _, ne := range e.Obs.Nested {
					pairs = append(pairs, []string{ne.Parent, ne.F})
				}
				steps = append(steps, map[string]any{"op": "issetn", "pairs": pairs}, map[string]any{"op": "isset", "names": names}, map[string]any{"op": "dump"})
				r, err := b.script(e.Tn, bytesVariant, steps...)
				if err != nil {
					firstErr = err
					return
				}
				c.Add("evaluations", 1)
				key := fmt.Sprintf("setters/%s/%s/%v/%s/%s", cp.Name, e.Tn, bytesVariant, e.Start, strings.Join(desc, ";"))
				skip := ""
				for _, s := range r.Steps {
					if s.Skip != "" {
						skip = s.Skip
					}
					if s.Panic != "" {
						c.Violate(key+"/panic", "accessor sequence panics: "+s.Panic, e)
						skip = "panic"
					}
					if s.Err != "" {
						skip = "error: " + s.Err
					}
				}
				if skip != "" {
					skipped++
					c.Set("last_skip_reason", skip)
					continue
				}
				iss := r.Steps[len(r.Steps)-2]
				issn := r.Steps[len(r.Steps)-3]
				d := r.Steps[len(r.Steps)-1].Dump
				var bad []string
				for _, ne := range e.Obs.Nested {
					if got, ok := issn.IsSet[ne.Parent+"."+ne.F].(bool); ok && got != ne.Set {
						bad = append(bad, fmt.Sprintf("%s.IsSet(%s) = %v, model %v", ne.Parent, ne.F, got, ne.Set))
					}
				}
				for idx, nm := range e.Obs.Names {
					want := e.Obs.IsSet[idx]
					got, ok := iss.IsSet[nm].(bool)
					if !ok {
						continue // no IsSet method for this field: nothing to compare
					}
					if got != want {
						bad = append(bad, fmt.Sprintf("IsSet(%s) = %v, model %v", nm, got, want))
					}
				}
				if d == nil {
					bad = append(bad, "no dump")
				} else {
					if !e.Orig2 && (d.TL1Err != "" || !eqInts(d.TL1, e.Obs.TL1)) {
						bad = append(bad, fmt.Sprintf("TL1 %s %s, model %s", hexs(d.TL1), d.TL1Err, hexs(e.Obs.TL1)))
					}
					if e.Obs.HasTL2 && d.HasTL2 && !eqInts(d.TL2, e.Obs.TL2) {
						bad = append(bad, fmt.Sprintf("TL2 %s, model %s", hexs(d.TL2), hexs(e.Obs.TL2)))
					}
					if got, err := parseJSON(d.JSON); err != nil {
						bad = append(bad, "invalid JSON "+d.JSON)
					} else if err := e.Obs.JSON.Match(got, "$"); err != nil {
						bad = append(bad, fmt.Sprintf("JSON %s differs from the model: %v", d.JSON, err))
					}
				}
				if len(bad) > 0 {
					c.Violate(key, fmt.Sprintf("type %s, start %s, calls %s: %s", e.Tn, e.Start, strings.Join(desc, "; "), strings.Join(bad, "; ")), e)
				}
				n++
				if n%211 == 1 {
					c.Sample(map[string]any{"corpus": cp.Name, "type": e.Tn, "start": e.Start, "calls": desc, "tl1_after": hexs(e.Obs.TL1)})
				}
			}
		}
		res, err := c.TLC(core.TLCOpts{Module: "MC_Setters", Cfg: "MC_Setters.cfg", Workers: 8, Timeout: 20 * time.Minute,
			Files: map[string][]byte{"SchemaData.tla": b.SchemaModule(tops)}, OnEmit: onEmit,
			Consts: map[string]string{"K": strconv.Itoa(k)}})
		b.Close()
		if err != nil {
			return err
		}
		if !res.OK {
			return fmt.Errorf("TLC MC_Setters on %s: %s\n%s", cp.Name, res.ErrorKind, res.ErrorText)
		}
		if firstErr != nil {
			return firstErr
		}
		c.Logf("corpus %s: %d accessor histories (%d distinct states), %d replayed, %d skipped (unbindable accessor)", cp.Name, res.NEmits, res.Distinct, n, skipped)
		c.Add("states", res.Distinct)
		c.Add("transitions", res.Generated)
		c.Add("distinct_nontrivial", n)
		c.Add("skipped_unbindable", skipped)
	}
	if c.Get("distinct_nontrivial") < 10 {
		return fmt.Errorf("vacuous: only %d accessor histories replayed", c.Get("distinct_nontrivial"))
	}
	c.Add("traces_validated_against_impl", 0)
	c.Set("rule", "every sequence of <= K SetX/ClearX calls over the eligible fields of every top-level struct, from the default object and from the object with every eligible field set; a case = one distinct call sequence replayed on a real object (string and []byte variants)")
	c.Assume("eligible fields: optional fields of primitive / true type under a local unmasked # field with an unshared bit, TL2 optional fields, and fields of a directly nested struct whose mask is an outer parameter fed by a # field of the parent (accessors called with &parent.mask and with a nil mask pointer); mask chains and shared bits are excluded (shared bits couple siblings by the format)")
	return nil
}
