package codec

import (
	"fmt"
	"path/filepath"
	"time"

	"verif/core"
)

type otfRes struct {
	Fatal     string `json:"fatal"`
	Panic     string `json:"panic"`
	Err       string `json:"err"`
	Consumed  int    `json:"consumed"`
	TL1       []int  `json:"tl1"`
	TL1B      []int  `json:"tl1b"`
	TL2       []int  `json:"tl2"`
	TL1Panic  string `json:"tl1panic"`
	TL1BPanic string `json:"tl1bpanic"`
	TL2Panic  string `json:"tl2panic"`
}

// startOTF builds and starts the dynamic-interpreter driver for a corpus.
func startOTF(c *core.Ctx, cp Corpus) (*core.Proc, error) {
	bin := filepath.Join(c.Scratch, "otf")
	if err := c.BuildInRepo("internal/verifx/otf", map[string]string{
		"internal/verifx/otf/main.go": core.DriverSrc("otf/main.go")}, bin, false, false); err != nil {
		return nil, err
	}
	args := []string{}
	if cp.TL2 != "" {
		args = append(args, "-tl2", cp.TL2)
	}
	args = append(args, cp.Files...)
	return core.StartProc(bin, nil, args...)
}

// replayOTF (C12): the dynamic interpreter must accept what the spec (and hence, by C01-C03,
// the generated code) accepts, reject what it rejects, and write the same bytes.
var otfUnsupported = map[string]bool{}

func replayOTF(c *core.Ctx, otf *core.Proc, cp Corpus, p *valPayload) {
	if otfUnsupported[cp.Name+"/"+p.Tn] {
		c.Add("outside_interpreter_support", 1)
		return
	}
	call := func(op string, in []int) *otfRes {
		var r otfRes
		t0 := time.Now()
		defer func() {
			if d := time.Since(t0); d > 2*time.Second {
				c.Logf("slow interpreter call (%v): %s %s %s", d, p.Tn, op, hexs(in))
			}
		}()
		if err := otf.Call(map[string]any{"tn": p.Tn, "op": op, "in": in}, &r); err != nil {
			if contains(err.Error(), "stack overflow") && contains(err.Error(), "CreateValue") {
				// the interpreter cannot even create a value of this (recursive) type: not a supported type
				otfUnsupported[cp.Name+"/"+p.Tn] = true
				c.Add("outside_interpreter_support", 1)
				c.Set("unsupported_recursive_type_example", p.Tn)
				return nil
			}
			c.Violate(fmt.Sprintf("otf/%s/%s/no-return/%s", cp.Name, p.Tn, op), "interpreter does not return: "+oneLine(err.Error(), 200), p)
			return nil
		}
		c.Add("evaluations", 1)
		return &r
	}
	unsupported := func(r *otfRes) bool {
		if r.Fatal != "" || (r.Panic != "" && (contains(r.Panic, "not implemented in onthefly") || contains(r.Panic, "please report TL"))) {
			c.Add("outside_interpreter_support", 1)
			return true
		}
		return false
	}
	switch p.Kind {
	case "val":
		if !p.Orig2 {
			for _, boxed := range []bool{false, true} {
				in, op := p.TL1, "read1"
				if boxed {
					in, op = p.TL1B, "read1b"
				}
				r := call(op, in)
				if r == nil || unsupported(r) {
					return
				}
				key := fmt.Sprintf("otf/%s/%s/%s/%s", cp.Name, p.Tn, op, hexs(in))
				if p.NegZ {
					key = fmt.Sprintf("otf/%s/%s/negative-zero-float", cp.Name, p.Tn)
				}
				switch {
				case r.Panic != "":
					c.Violate(key, "interpreter panics: "+r.Panic, p)
				case r.Err != "":
					c.Violate(key, fmt.Sprintf("interpreter rejects the valid encoding %s (generated code accepts it): %s", hexs(in), r.Err), p)
				case r.Consumed != len(in):
					c.Violate(key, fmt.Sprintf("interpreter consumed %d of %d", r.Consumed, len(in)), p)
				case r.TL1Panic != "" || r.TL2Panic != "" || r.TL1BPanic != "":
					c.Violate(key, "interpreter panics while writing: "+r.TL1Panic+r.TL1BPanic+r.TL2Panic, p)
				case !eqInts(r.TL1, p.TL1) || !eqInts(r.TL1B, p.TL1B):
					c.Violate(key, fmt.Sprintf("interpreter writes TL1 %s / %s, generated code %s / %s", hexs(r.TL1), hexs(r.TL1B), hexs(p.TL1), hexs(p.TL1B)), p)
				case p.HasTL2 && !eqInts(r.TL2, p.TL2):
					c.Violate(key, fmt.Sprintf("interpreter writes TL2 %s, generated code %s (value %s)", hexs(r.TL2), hexs(p.TL2), hexs(p.TL1)), p)
				}
			}
		}
		if p.HasTL2 {
			r := call("read2", p.TL2)
			if r == nil || unsupported(r) {
				return
			}
			key := fmt.Sprintf("otf/%s/%s/read2/%s", cp.Name, p.Tn, hexs(p.TL2))
			if p.TL2Opt {
				key = fmt.Sprintf("otf/%s/%s/tl2-only-optional-field", cp.Name, p.Tn)
			}
			if p.NegZ {
				key = fmt.Sprintf("otf/%s/%s/negative-zero-float", cp.Name, p.Tn)
			}
			switch {
			case r.Panic != "":
				c.Violate(key, "interpreter panics: "+r.Panic, p)
			case r.Err != "":
				c.Violate(key, fmt.Sprintf("interpreter rejects the valid TL2 encoding %s: %s", hexs(p.TL2), r.Err), p)
			case r.Consumed != len(p.TL2) || !eqInts(r.TL2, p.TL2):
				c.Violate(key, fmt.Sprintf("interpreter reads TL2 %s (consumed %d) and writes %s", hexs(p.TL2), r.Consumed, hexs(r.TL2)), p)
			case !p.Orig2 && !eqInts(r.TL1, p.TL1):
				c.Violate(key, fmt.Sprintf("interpreter reads TL2 %s and writes TL1 %s, generated code %s", hexs(p.TL2), hexs(r.TL1), hexs(p.TL1)), p)
			}
		}
	case "bytes":
		if p.Dec.Unk || p.Dec.Big {
			// an announced count of thousands of elements: the interpreter has no length sanity
			// rule and allocates before it notices the end of input; not part of "same verdict"
			c.Add("huge_count_inputs_not_sent", 1)
			return
		}
		op := "read1"
		if p.Boxed {
			op = "read1b"
		}
		r := call(op, p.B)
		if r == nil || unsupported(r) {
			return
		}
		key := fmt.Sprintf("otf-bytes/%s/%s/%s/%s", cp.Name, p.Tn, op, hexs(p.B))
		got := r.TL1
		if p.Boxed {
			got = r.TL1B
		}
		switch {
		case r.Panic != "":
			c.Violate(key, "interpreter panics: "+r.Panic, p)
		case p.Dec.OK && r.Err != "":
			c.Violate(key, fmt.Sprintf("generated code accepts %s, interpreter rejects: %s", hexs(p.B), r.Err), p)
		case !p.Dec.OK && r.Err == "":
			c.Violate(key, fmt.Sprintf("generated code rejects %s, interpreter accepts (consumed %d)", hexs(p.B), r.Consumed), p)
		case p.Dec.OK && (r.Consumed != p.Dec.Consumed || !eqInts(got, p.Dec.Re)):
			c.Violate(key, fmt.Sprintf("%s: interpreter consumed %d and rewrites %s, generated code %d / %s", hexs(p.B), r.Consumed, hexs(got), p.Dec.Consumed, hexs(p.Dec.Re)), p)
		}
		if r.Err == "" {
			c.Add("otf_accepted", 1)
		} else {
			c.Add("otf_rejected", 1)
		}
	}
}

func contains(s, sub string) bool {
	return len(sub) <= len(s) && (func() bool {
		for i := 0; i+len(sub) <= len(s); i++ {
			if s[i:i+len(sub)] == sub {
				return true
			}
		}
		return false
	})()
}
