package codec

import (
	"fmt"
	"math/rand"
	"os"
	"path/filepath"

	"verif/core"
)

func init() { core.Register("C11", "model_checking", runC11) }

// runC11: random schemas whose resolved instance graph is produced by the harness's own
// generator (not by the implementation): the TLA+ codec spec over THAT graph is the
// independent reference for bytes written (TL1, TL2) and for the accept sets (byte mutations);
// additionally the kernel's own graph must be structurally equal to the reference graph.
func runC11(c *core.Ctx) error {
	nSchemas := c.Pick(2, 8)
	rnd := rand.New(rand.NewSource(c.Seed*7919 + 17))
	for si := 0; si < nSchemas; si++ {
		gs := randomSchema(rnd, c.Pick(7, 10))
		text := gs.Text()
		path := filepath.Join(c.Scratch, fmt.Sprintf("ref%d.tl", si))
		if err := os.WriteFile(path, []byte(text), 0o644); err != nil {
			return err
		}
		ref := gs.Graph()
		cp := Corpus{Name: fmt.Sprintf("ref%d", si), Files: []string{path}, TL2: "*", Sanity: si%2 == 0, BytesVers: "*", RefGraph: ref}
		// first the kernel binding: build once to get the kernel graph and compare
		b, err := Build(c, cp)
		if err != nil {
			c.Add("schemas_rejected_by_generator", 1)
			c.Logf("reference schema %d not accepted: %v", si, oneLine(err.Error(), 400))
			c.Set("last_rejected_schema", text)
			continue
		}
		c.Add("schemas_accepted", 1)
		rt, kt := ref["types"].(map[string]any), b.Kernel["types"].(map[string]any)
		seen := map[string]bool{}
		for _, n := range b.Tops {
			c.Add("evaluations", 1)
			if d := diffGraphs(rt, kt, n, n, seen); d != "" {
				c.Violate(fmt.Sprintf("kernel-graph/%s", n), "the kernel resolves the schema differently from the reference reading of TL1: "+d+"\nschema:\n"+text, map[string]any{"schema": text, "type": n})
			}
		}
		c.Add("instances_compared_with_kernel", len(seen))
		b.Close()
		c.Sample(map[string]any{"reference_schema": text})
		k, kmut := c.Pick(1, 2), c.Pick(1, 1)
		if err := runCorpusTL1(c, "C11", cp, k, kmut, 0, c.Pick(1, 2), k+1, 0); err != nil {
			return fmt.Errorf("%v\nschema:\n%s", err, text)
		}
	}
	if c.Get("schemas_accepted") == 0 {
		return fmt.Errorf("vacuous: the generator accepted none of %d reference schemas", nSchemas)
	}
	c.Set("rule", "random TL1 schemas (structs with masks, sizes, vectors, tuples, Maybe, unions, enums, dictionaries, bare/boxed references, functions) rendered by the harness; their instance graph is resolved by the harness itself; TLC walks the value graph, TL1 and TL2 byte mutations (accept/reject, consumption and decoded value against the reference readers Dec1 / Dec2) and non-minimal TL2 re-encodings over that graph; a case = one distinct TLC state")
	c.Assume("every generated constructor has an explicit tag (implicit CRC32 tags are C23's subject)")
	return nil
}
