// Package codec: the generated-code codec family (C01 ...): schema corpora,
// generation with the real tl2gen, the generic driver, TLC runs over MC_Codec.
package codec

import (
	"encoding/json"
	"fmt"
	"os"
	"path/filepath"
	"sort"
	"strings"
	"time"

	"verif/core"
)

// Corpus is one generation unit: schema files + generator options.
type Corpus struct {
	Name      string
	Files     []string       // absolute paths
	TL2       string         // --tl2WhiteList value ("" = none)
	Sanity    bool           // --checkLengthSanity
	BytesVers string         // --generateByteVersions
	Split     bool           // --split-internal
	OnlyTops  []string       // optional restriction of top-level types
	RefGraph  map[string]any `json:"-"` // C11: instance graph from the independent generator (used instead of the kernel's)
}

type Built struct {
	Corpus Corpus
	Dir    string
	Drv    *core.Proc
	Schema map[string]any // post-processed instance graph (with tops, dom)
	Kernel map[string]any // the kernel's own graph (astdump), when Schema comes from the reference generator
	Tops   []string
	Items  map[string]map[string]any // runtime registry as listed by the driver
}

type tools struct {
	tl2gen, astdump string
}

func getTools(c *core.Ctx) (*tools, error) {
	t := &tools{}
	var err error
	if t.tl2gen, err = c.BuildRepoCmd("tl2gen"); err != nil {
		return nil, err
	}
	t.astdump = filepath.Join(c.Scratch, "astdump")
	if _, e := os.Stat(t.astdump); e != nil {
		if err = c.BuildInRepo("internal/verifx/astdump", map[string]string{
			"internal/verifx/astdump/main.go": core.DriverSrc("astdump/main.go")}, t.astdump, false, false); err != nil {
			return nil, err
		}
	}
	return t, nil
}

var buildSeq int

// Build generates Go code for the corpus with the tl2gen built from the tree
// under test, builds the generic driver against it and exports the kernel's
// instance graph.
func Build(c *core.Ctx, cp Corpus) (*Built, error) {
	t, err := getTools(c)
	if err != nil {
		return nil, err
	}
	buildSeq++
	mod := fmt.Sprintf("vgen%d", buildSeq)
	dir, err := c.ScratchModule(mod)
	if err != nil {
		return nil, err
	}
	args := []string{"--language=go", "--outdir=" + filepath.Join(dir, "gen"), "--pkgPath=" + mod + "/gen/tl",
		"--generateRandomCode", fmt.Sprintf("--checkLengthSanity=%v", cp.Sanity)}
	if cp.TL2 != "" {
		args = append(args, "--tl2WhiteList="+cp.TL2)
	}
	if cp.BytesVers != "" {
		args = append(args, "--generateByteVersions="+cp.BytesVers)
	}
	if cp.Split {
		args = append(args, "--split-internal")
	}
	args = append(args, cp.Files...)
	out, err := c.Run(dir, 3*time.Minute, nil, t.tl2gen, args...)
	if err != nil {
		return nil, fmt.Errorf("tl2gen rejected corpus %s: %v\n%s", cp.Name, err, tail(out, 1500))
	}
	tmpl, err := os.ReadFile(core.DriverSrc("gen/main.go.tmpl"))
	if err != nil {
		return nil, err
	}
	_ = os.MkdirAll(filepath.Join(dir, "drv"), 0o755)
	src := string(tmpl)
	if _, e := os.Stat(filepath.Join(dir, "gen", "factory_bytes")); e == nil {
		src = strings.ReplaceAll(src, "//BYTESIMPORT", `_ "MODNAME/gen/factory_bytes"`)
	}
	if err := os.WriteFile(filepath.Join(dir, "drv", "main.go"), []byte(strings.ReplaceAll(src, "MODNAME", mod)), 0o644); err != nil {
		return nil, err
	}
	bin := filepath.Join(dir, "drvbin")
	if out, err := c.Run(dir, 10*time.Minute, core.GoEnv(), "go", "build", "-o", bin, "./drv"); err != nil {
		return nil, fmt.Errorf("generated code for corpus %s does not build: %v\n%s", cp.Name, err, tail(out, 3000))
	}
	// instance graph from the kernel
	gpath := filepath.Join(dir, "graph.json")
	dargs := []string{"-o", gpath}
	if cp.TL2 != "" {
		dargs = append(dargs, "-tl2", cp.TL2)
	}
	dargs = append(dargs, cp.Files...)
	if out, err := c.Run(dir, time.Minute, nil, t.astdump, dargs...); err != nil {
		return nil, fmt.Errorf("astdump: %v\n%s", err, tail(out, 1500))
	}
	gb, err := os.ReadFile(gpath)
	if err != nil {
		return nil, err
	}
	var g map[string]any
	if err := json.Unmarshal(gb, &g); err != nil {
		return nil, err
	}
	p, err := core.StartProc(bin, nil)
	if err != nil {
		return nil, err
	}
	b := &Built{Corpus: cp, Dir: dir, Drv: p, Schema: g, Kernel: g, Items: map[string]map[string]any{}}
	if cp.RefGraph != nil {
		b.Schema = cp.RefGraph
		g = cp.RefGraph
	}
	var lst struct {
		Items []map[string]any `json:"items"`
	}
	if err := p.Call(map[string]any{"list": true}, &lst); err != nil {
		return nil, err
	}
	for _, it := range lst.Items {
		b.Items[it["name"].(string)] = it
	}
	PostProcess(g)
	types := g["types"].(map[string]any)
	enumElem := map[string]bool{} // variants of enums are served by the generic TLItemImpl (no real object): not explored
	for _, tx := range types {
		t := tx.(map[string]any)
		if t["k"] == "union" && t["enum"] == true {
			for _, v := range toStrings(t["variants"]) {
				enumElem[v] = true
			}
		}
	}
	only := map[string]bool{}
	for _, n := range cp.OnlyTops {
		only[n] = true
	}
	for _, n := range toStrings(g["order"]) {
		t := types[n].(map[string]any)
		if t["top"] != true || len(toStrings(t["np"])) != 0 {
			continue
		}
		if k := t["k"]; k != "struct" && k != "union" {
			continue
		}
		if enumElem[n] {
			continue
		}
		name := n
		if tl, ok := t["tlname"].(string); ok && t["k"] == "struct" {
			name = tl
		}
		if _, ok := b.Items[name]; !ok {
			continue
		}
		t["item"] = name
		if len(only) > 0 && !only[n] {
			continue
		}
		b.Tops = append(b.Tops, n)
	}
	sort.Strings(b.Tops)
	return b, nil
}

func (b *Built) Close() {
	if b.Drv != nil {
		b.Drv.Close()
	}
}

// SchemaJSON renders the graph restricted to the given tops for TLC.
func (b *Built) SchemaJSON(tops []string) []byte {
	g := map[string]any{"types": b.Schema["types"], "tops": tops}
	out, _ := json.Marshal(g)
	return out
}

func tail(s string, n int) string {
	if len(s) > n {
		return "…" + s[len(s)-n:]
	}
	return s
}

func toStrings(v any) []string {
	a, _ := v.([]any)
	r := make([]string, 0, len(a))
	for _, x := range a {
		s, _ := x.(string)
		r = append(r, s)
	}
	return r
}

func toInt(v any) int {
	f, _ := v.(float64)
	return int(f)
}

// ---------------------------------------------------------------------------
// nat usage analysis: candidate values ("dom") for # fields

type usage struct {
	size bool
	bits map[int]bool
}

func (u *usage) merge(o usage) {
	u.size = u.size || o.size
	for b := range o.bits {
		if u.bits == nil {
			u.bits = map[int]bool{}
		}
		u.bits[b] = true
	}
}

type analyzer struct {
	types map[string]any
	memo  map[string]usage
	busy  map[string]bool
}

func (a *analyzer) typ(n string) map[string]any {
	t, _ := a.types[n].(map[string]any)
	return t
}

// paramUsage: how nat parameter j of instance tn is used inside it.
func (a *analyzer) paramUsage(tn string, j int) usage {
	key := fmt.Sprintf("%s#%d", tn, j)
	if u, ok := a.memo[key]; ok {
		return u
	}
	if a.busy[key] {
		return usage{}
	}
	a.busy[key] = true
	defer delete(a.busy, key)
	t := a.typ(tn)
	var u usage
	if t == nil {
		return u
	}
	argsUse := func(child string, na any) {
		for p, x := range na.([]any) {
			arg := x.(map[string]any)
			if arg["k"] == "param" && toInt(arg["i"]) == j {
				u.merge(a.paramUsage(child, p))
			}
		}
	}
	switch t["k"] {
	case "struct":
		for _, fx := range t["fields"].([]any) {
			f := fx.(map[string]any)
			m := f["mask"].(map[string]any)
			if m["k"] == "param" && toInt(m["i"]) == j {
				u.merge(usage{bits: map[int]bool{toInt(f["bit"]): true}})
			}
			argsUse(f["t"].(string), f["na"])
		}
		if r, _ := t["res"].(string); r != "" {
			argsUse(r, t["resNa"])
		}
	case "union":
		for _, v := range toStrings(t["variants"]) {
			argsUse(v, t["elemNa"])
		}
	case "array", "dict":
		if t["k"] == "array" && t["dyn"] == true && j == 0 {
			u.size = true
		}
		e := t["elem"].(map[string]any)
		argsUse(e["t"].(string), e["na"])
	}
	a.memo[key] = u
	return u
}

func le4(v uint32) []any {
	return []any{float64(v & 255), float64(v >> 8 & 255), float64(v >> 16 & 255), float64(v >> 24)}
}

// PostProcess fills f.dom for every # field of every struct.
func PostProcess(g map[string]any) {
	a := &analyzer{types: g["types"].(map[string]any), memo: map[string]usage{}, busy: map[string]bool{}}
	for _, tx := range a.types {
		t := tx.(map[string]any)
		if e, ok := t["elem"].(map[string]any); ok {
			e["omit"] = false
		}
		if t["k"] != "struct" {
			continue
		}
		fields := t["fields"].([]any)
		for i, fx := range fields {
			f := fx.(map[string]any)
			f["dom"] = []any{}
			name, _ := f["n"].(string)
			f["omit"] = strings.HasPrefix(name, "_")
			ft := a.typ(f["t"].(string))
			if ft == nil || ft["k"] != "prim" || ft["prim"] != "uint32" {
				continue
			}
			var u usage
			for _, gx := range fields[i+1:] {
				gf := gx.(map[string]any)
				m := gf["mask"].(map[string]any)
				if m["k"] == "field" && toInt(m["i"]) == i {
					u.merge(usage{bits: map[int]bool{toInt(gf["bit"]): true}})
				}
				for p, x := range gf["na"].([]any) {
					arg := x.(map[string]any)
					if arg["k"] == "field" && toInt(arg["i"]) == i {
						u.merge(a.paramUsage(gf["t"].(string), p))
					}
				}
			}
			if r, _ := t["res"].(string); r != "" {
				for p, x := range t["resNa"].([]any) {
					arg := x.(map[string]any)
					if arg["k"] == "field" && toInt(arg["i"]) == i {
						u.merge(a.paramUsage(r, p))
					}
				}
			}
			vals := map[uint32]bool{}
			if u.size {
				for _, v := range []uint32{0, 1, 2, 3} {
					vals[v] = true
				}
			}
			if len(u.bits) > 0 {
				var all uint32
				var bs []int
				for b := range u.bits {
					bs = append(bs, b)
				}
				sort.Ints(bs)
				vals[0] = true
				for n, b := range bs {
					all |= 1 << uint(b)
					if n < 6 {
						vals[1<<uint(b)] = true
					}
				}
				vals[all] = true
				if !u.size {
					for _, ub := range []int{31, 30, 7, 1, 0} {
						if !u.bits[ub] {
							vals[all|1<<uint(ub)] = true
							break
						}
					}
				}
			}
			var keys []uint32
			for v := range vals {
				keys = append(keys, v)
			}
			sort.Slice(keys, func(x, y int) bool { return keys[x] < keys[y] })
			dom := []any{}
			for _, v := range keys {
				dom = append(dom, le4(v))
			}
			f["dom"] = dom
		}
	}
}
