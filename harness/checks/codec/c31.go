package codec

import (
	"bufio"
	"encoding/json"
	"fmt"
	"io"
	"os"
	"os/exec"
	"path/filepath"
	"regexp"
	"sort"
	"strconv"
	"strings"
	"time"

	"verif/core"
)

func init() { core.Register("C31", "model_checking", runC31) }

type cppDrv struct {
	cmd *exec.Cmd
	in  io.WriteCloser
	out *bufio.Reader
}

func (d *cppDrv) call(name string, boxed bool, in []int) (string, error) {
	mode := "r"
	if boxed {
		mode = "b"
	}
	h := hexs(in)
	if h == "" {
		h = "-"
	}
	if _, err := fmt.Fprintf(d.in, "%s %s %s\n", name, mode, h); err != nil {
		return "", err
	}
	type res struct {
		l   string
		err error
	}
	ch := make(chan res, 1)
	go func() {
		l, err := d.out.ReadString('\n')
		ch <- res{l, err}
	}()
	select {
	case r := <-ch:
		return strings.TrimSpace(r.l), r.err
	case <-time.After(30 * time.Second):
		return "", fmt.Errorf("C++ driver watchdog")
	}
}

var reObj = regexp.MustCompile(`__build/[A-Za-z_0-9]+\.o`)

// buildCpp generates C++ with the tlgen built from the tree, compiles it and the generic driver.
func buildCpp(c *core.Ctx, cp Corpus, idx int) (*cppDrv, error) {
	tlgen, err := c.BuildRepoCmd("tlgen")
	if err != nil {
		return nil, err
	}
	dir := filepath.Join(c.Scratch, fmt.Sprintf("cpp%d", idx))
	args := append([]string{"-language=cpp", "--cpp-generate-meta=true", "--cpp-generate-factory=true", "--outdir=" + dir}, cp.Files...)
	if out, err := c.Run(c.Scratch, 3*time.Minute, nil, tlgen, args...); err != nil {
		return nil, fmt.Errorf("tlgen cpp rejected corpus %s: %v\n%s", cp.Name, err, tail(out, 1500))
	}
	mk, err := os.ReadFile(filepath.Join(dir, "Makefile"))
	if err != nil {
		return nil, err
	}
	set := map[string]bool{}
	for _, o := range reObj.FindAllString(string(mk), -1) {
		if o != "__build/main.o" {
			set[o] = true
		}
	}
	var objs []string
	for o := range set {
		objs = append(objs, o)
	}
	sort.Strings(objs)
	_ = os.MkdirAll(filepath.Join(dir, "__build"), 0o755)
	margs := append([]string{"-j16", "CFLAGS=-std=c++20 -O0 -w"}, objs...)
	if out, err := c.Run(dir, 20*time.Minute, nil, "make", margs...); err != nil {
		return nil, fmt.Errorf("generated C++ for corpus %s does not compile: %v\n%s", cp.Name, err, tail(out, 3000))
	}
	gargs := append([]string{"-std=c++20", "-O0", "-w", "-I.", "-o", "drv", core.DriverSrc("cpp/driver.cpp")}, objs...)
	if out, err := c.Run(dir, 10*time.Minute, nil, "g++", gargs...); err != nil {
		return nil, fmt.Errorf("C++ driver link failed: %v\n%s", err, tail(out, 3000))
	}
	cmd := exec.Command(filepath.Join(dir, "drv"))
	in, _ := cmd.StdinPipe()
	so, _ := cmd.StdoutPipe()
	if err := cmd.Start(); err != nil {
		return nil, err
	}
	return &cppDrv{cmd: cmd, in: in, out: bufio.NewReader(so)}, nil
}

// runC31: the TL1 encodings the Go code writes (= the spec's, by C01) must be read by the
// generated C++ and written back identically; byte strings the Go readers reject (= the
// spec's verdict, by C02) must be rejected by the C++ readers.
func runC31(c *core.Ctx) error {
	corpora := []Corpus{{Name: "probe", Files: []string{probe("probe1.tl")}, TL2: "", Sanity: true}}
	if c.Thorough() {
		corpora = append(corpora, Corpus{Name: "cpp", Files: []string{tls("cpp.tl")}, TL2: "", Sanity: true},
			Corpus{Name: "schema", Files: []string{tls("schema.tl")}, TL2: "", Sanity: true},
			Corpus{Name: "cases", Files: []string{tls("cases.tl")}, TL2: "", Sanity: true})
	}
	for ci, cp := range corpora {
		b, err := Build(c, cp) // Go side: graph + items (the Go code itself is bound by C01/C02)
		if err != nil {
			return err
		}
		drv, err := buildCpp(c, cp, ci)
		if err != nil {
			b.Close()
			if ci == 0 {
				// the probe schema is the harness's own and its C++ compiles on the unchanged tree: a compiler
				// diagnostic inside the generated files (reproduced by a second generation + build) means the
				// C++ back end emits code that cannot serve the schema at all
				if strings.Contains(err.Error(), "does not compile") && strings.Contains(err.Error(), ": error: ") {
					if _, err2 := buildCpp(c, cp, 100); err2 != nil && strings.Contains(err2.Error(), ": error: ") {
						c.Violate("cpp-build/"+cp.Name+"/generated-code-does-not-compile", "tlgen accepted the schema but the generated C++ does not compile: "+tail(err2.Error(), 1200), map[string]any{"corpus": cp})
						continue
					}
				}
				return err
			}
			// the property is about schemas whose C++ compiles; a schema the C++ back end cannot
			// handle (e.g. cases.tl: fields named read/write collide with methods) is skipped and counted
			c.Add("corpora_whose_cpp_does_not_compile", 1)
			c.Logf("corpus %s skipped: %s", cp.Name, oneLine(err.Error(), 300))
			continue
		}
		var tops []string
		types := b.Schema["types"].(map[string]any)
		for _, n := range b.Tops {
			if t := types[n].(map[string]any); t["origin2"] != true {
				tops = append(tops, n)
			}
		}
		var firstErr error
		nVal, nBytes, noitem, agreeAcc, cppAccMore := 0, 0, 0, 0, 0
		onEmit := func(raw json.RawMessage) {
			if firstErr != nil {
				return
			}
			var p valPayload
			if err := json.Unmarshal(raw, &p); err != nil {
				firstErr = err
				return
			}
			name := b.item(p.Tn)
			switch p.Kind {
			case "val":
				nVal++
				for _, boxed := range []bool{false, true} {
					in := pick(p.TL1, p.TL1B, boxed)
					r, err := drv.call(name, boxed, in)
					if err != nil {
						firstErr = fmt.Errorf("C++ driver: %v", err)
						return
					}
					c.Add("evaluations", 1)
					if r == "noitem" {
						noitem++
						return
					}
					key := fmt.Sprintf("cpp/%s/%s/%v/%s", cp.Name, p.Tn, boxed, hexs(in))
					if r == "err" {
						c.Violate(key, fmt.Sprintf("C++ rejects TL1 %s written by the Go code for %s", hexs(in), p.Tn), p)
					} else if got := strings.TrimPrefix(r, "ok "); strings.TrimSpace(got) != hexs(in) && !(got == "ok" && len(in) == 0) {
						c.Violate(key, fmt.Sprintf("C++ reads %s and writes back %s (%s)", hexs(in), got, p.Tn), p)
					}
				}
				if nVal%101 == 1 {
					c.Sample(map[string]any{"corpus": cp.Name, "type": p.Tn, "tl1_boxed": hexs(p.TL1B)})
				}
			case "bytes":
				if p.Dec.Unk || p.Dec.Big {
					return
				}
				nBytes++
				r, err := drv.call(name, p.Boxed, p.B)
				if err != nil {
					firstErr = fmt.Errorf("C++ driver: %v", err)
					return
				}
				c.Add("evaluations", 1)
				if r == "noitem" {
					return
				}
				if !p.Dec.OK && r != "err" {
					c.Violate(fmt.Sprintf("cpp-bytes/%s/%s/%v/%s", cp.Name, p.Tn, p.Boxed, hexs(p.B)),
						fmt.Sprintf("the Go readers reject %s for %s, the C++ reader accepts it (%s)", hexs(p.B), p.Tn, r), p)
				}
				if p.Dec.OK && r != "err" {
					agreeAcc++
				}
				if p.Dec.OK && r == "err" {
					cppAccMore++
				}
			}
		}
		res, err := c.TLC(core.TLCOpts{Module: "MC_Codec", Cfg: "MC_Codec.cfg", Workers: 8, Timeout: 20 * time.Minute,
			Files: map[string][]byte{"SchemaData.tla": b.SchemaModule(tops)}, OnEmit: onEmit,
			Consts: map[string]string{"SANITY": "TRUE", "MAXLEN": "2", "LONGSTR": "{}", "K": strconv.Itoa(c.Pick(2, 2)), "KMUT": strconv.Itoa(c.Pick(1, 2)),
				"KJSON": "0", "KRE": "0", "KMUT2": "0", "KFN": "0", "KBAD": "0", "EDGES": "FALSE"}})
		_ = drv.in.Close()
		_ = drv.cmd.Wait()
		b.Close()
		if err != nil {
			return err
		}
		if !res.OK {
			return fmt.Errorf("TLC MC_Codec on %s: %s\n%s", cp.Name, res.ErrorKind, res.ErrorText)
		}
		if firstErr != nil {
			return firstErr
		}
		c.Logf("corpus %s: %d values, %d byte strings through C++ (%d items without C++ object; both accept %d, C++ stricter %d)", cp.Name, nVal, nBytes, noitem, agreeAcc, cppAccMore)
		c.Add("states", res.Distinct)
		c.Add("transitions", res.Generated)
		c.Add("distinct_nontrivial", nVal+nBytes)
		c.Add("values", nVal)
		c.Add("byte_strings", nBytes)
		c.Add("cpp_stricter_than_go", cppAccMore)
		if nVal-noitem < 10 {
			return fmt.Errorf("vacuous: only %d values reached C++ objects", nVal-noitem)
		}
	}
	c.Add("traces_validated_against_impl", 0)
	c.Set("rule", "the TLC-enumerated values and TL1 byte mutations of C01/C02 over C++-compatible corpora; a case = one distinct value or byte string sent through the C++ generated read/write (bare and boxed)")
	c.Assume("the Go side of the comparison is the TLA+ spec, to which C01/C02 bind the generated Go code on the same vectors; g++ -O0")
	return nil
}
