package codec

import (
	"bytes"
	"encoding/json"
	"fmt"
	"regexp"
	"strconv"
	"strings"
	"time"

	"verif/core"
)

func init() { core.Register("C18", "model_checking", runC18) }

var reTraceI = regexp.MustCompile(`(?m)^\s*i = (\d+)`)

type randEvent struct {
	Tn   string `json:"tn"`
	Fmt  string `json:"fmt"`
	B    []int  `json:"b"`
	seed int64
	tl2  []int
	js   string
}

// runC18: FillRandom terminates, yields values every writer accepts, reproducibly;
// the written bytes are validated by TLC against the codec spec (TraceCodec).
func runC18(c *core.Ctx) error {
	nSeeds := c.Pick(6, 40)
	for _, cp := range corporaFor(c) {
		b, err := Build(c, cp)
		if err != nil {
			return err
		}
		b.Drv.Limit = 20 * time.Second
		types := b.Schema["types"].(map[string]any)
		var events []randEvent
		for _, tn := range b.Tops {
			t := types[tn].(map[string]any)
			orig2 := t["origin2"] == true
			for sd := 0; sd < nSeeds; sd++ {
				seed := c.Seed*1000 + int64(sd)
				key := fmt.Sprintf("rand/%s/%s/seed=%d", cp.Name, tn, seed)
				var dumps [2]*stepRes
				for rep := 0; rep < 2; rep++ {
					r, err := b.script(tn, false, map[string]any{"op": "rand", "seed": seed})
					if err != nil {
						// the driver died or hung: reproduce once in a fresh process before reporting
						if _, err2 := b.script(tn, false, map[string]any{"op": "rand", "seed": seed}); err2 != nil {
							c.Violate(fmt.Sprintf("rand/%s/%s/no-termination", cp.Name, tn),
								fmt.Sprintf("FillRandom(seed %d) of %s does not return: %v", seed, tn, oneLine(err2.Error(), 300)), map[string]any{"corpus": cp, "type": tn, "seed": seed})
						}
						dumps[0] = nil
						break
					}
					s := r.Steps[0]
					dumps[rep] = &s
				}
				c.Add("evaluations", 1)
				a := dumps[0]
				if a == nil {
					continue
				}
				if a.Panic != "" || a.Dump == nil {
					c.Violate(key+"/panic", "FillRandom panics: "+a.Panic+a.Err, nil)
					continue
				}
				if a.Dump.TL1Err != "" && !orig2 {
					c.Violate(fmt.Sprintf("rand/%s/%s/write-error", cp.Name, tn), fmt.Sprintf("value of FillRandom(seed %d) is refused by WriteTL1: %s", seed, a.Dump.TL1Err), nil)
					continue
				}
				if bb := dumps[1]; bb != nil && bb.Dump != nil {
					if !eqInts(a.Dump.TL1, bb.Dump.TL1) || !eqInts(a.Dump.TL2, bb.Dump.TL2) || a.Dump.JSON != bb.Dump.JSON {
						c.Violate(fmt.Sprintf("rand/%s/%s/not-reproducible", cp.Name, tn), fmt.Sprintf("seed %d gives %s and then %s", seed, hexs(a.Dump.TL1), hexs(bb.Dump.TL1)), nil)
					}
				}
				if cp.BytesVers != "" { // the []byte variant: termination, writers accept, same seed same bytes
					var bd [2]string
					for rep := 0; rep < 2; rep++ {
						if r, err := b.script(tn, true, map[string]any{"op": "rand", "seed": seed}); err == nil && r.Steps[0].Dump != nil {
							d := r.Steps[0].Dump
							bd[rep] = hexs(d.TL1) + "/" + hexs(d.TL2) + "/" + d.JSON + "/" + d.TL1Err + r.Steps[0].Panic
							if (d.TL1Err != "" && !orig2) || r.Steps[0].Panic != "" {
								c.Violate(fmt.Sprintf("rand/%s/%s/bytes-variant-write-error", cp.Name, tn), fmt.Sprintf("[]byte variant, seed %d: %s %s", seed, d.TL1Err, r.Steps[0].Panic), nil)
							}
						} else if err != nil {
							c.Violate(fmt.Sprintf("rand/%s/%s/bytes-variant-no-termination", cp.Name, tn), oneLine(err.Error(), 300), nil)
						}
					}
					if bd[0] != bd[1] {
						c.Violate(fmt.Sprintf("rand/%s/%s/bytes-variant-not-reproducible", cp.Name, tn), fmt.Sprintf("seed %d gives two different values", seed), nil)
					}
				}
				ev := randEvent{Tn: tn, Fmt: "tl1", B: a.Dump.TL1, seed: seed, tl2: a.Dump.TL2, js: a.Dump.JSON}
				if orig2 {
					ev.Fmt, ev.B = "tl2", a.Dump.TL2
				}
				if len(ev.B) > 600 { // keep TLC's work bounded; long values are still checked for errors / determinism above
					c.Add("long_values_not_sent_to_tlc", 1)
					continue
				}
				if ev.B == nil {
					ev.B = []int{}
				}
				events = append(events, ev)
			}
		}
		if len(events) == 0 {
			b.Close()
			return fmt.Errorf("corpus %s: no random events", cp.Name)
		}
		var buf bytes.Buffer
		enc := json.NewEncoder(&buf)
		for _, e := range events {
			_ = enc.Encode(e)
		}
		type emit struct {
			I    int   `json:"i"`
			OK   bool  `json:"ok"`
			TL2  []int `json:"tl2"`
			JSON *JT   `json:"json"`
		}
		res, err := c.TLC(core.TLCOpts{Module: "TraceCodec", Cfg: "TraceCodec.cfg", Workers: 8, Timeout: 15 * time.Minute,
			Files:  map[string][]byte{"SchemaData.tla": b.SchemaModule(nil), "trace.ndjson": buf.Bytes()},
			Consts: map[string]string{}})
		if err != nil {
			b.Close()
			return err
		}
		if !res.OK {
			if res.ErrorKind == "invariant" && strings.Contains(res.ErrorText, "EventOK") {
				if m := reTraceI.FindStringSubmatch(res.ErrorText); m != nil {
					idx, _ := strconv.Atoi(m[1])
					e := events[idx-1]
					c.Violate(fmt.Sprintf("rand/%s/%s/invalid-value", cp.Name, e.Tn),
						fmt.Sprintf("FillRandom(seed %d) of %s wrote %s %s, which is not a valid canonical encoding under the spec", e.seed, e.Tn, e.Fmt, hexs(e.B)), e)
					b.Close()
					continue
				}
			}
			b.Close()
			return fmt.Errorf("TraceCodec on %s: %s\n%s", cp.Name, res.ErrorKind, res.ErrorText)
		}
		for _, raw := range res.Emits {
			var em emit
			if err := json.Unmarshal(raw, &em); err != nil {
				b.Close()
				return err
			}
			e := events[em.I-1]
			if e.Fmt == "tl1" && len(e.tl2) > 0 && !eqInts(em.TL2, e.tl2) {
				c.Violate(fmt.Sprintf("rand/%s/%s/tl2-differs", cp.Name, e.Tn), fmt.Sprintf("random value %s: WriteTL2 gives %s, spec %s", hexs(e.B), hexs(e.tl2), hexs(em.TL2)), e)
			}
			if got, err := parseJSON(e.js); err != nil || em.JSON.Match(got, "$") != nil {
				c.Violate(fmt.Sprintf("rand/%s/%s/json-differs", cp.Name, e.Tn), fmt.Sprintf("random value %s: JSON %s differs from the spec (%v)", hexs(e.B), e.js, err), e)
			}
		}
		c.Add("states", res.Distinct)
		c.Add("transitions", res.Generated)
		c.Add("traces_validated_against_impl", 1)
		c.Add("trace_events_validated", len(events))
		c.Add("distinct_nontrivial", len(events))
		c.Sample(map[string]any{"corpus": cp.Name, "type": events[len(events)/2].Tn, "seed": events[len(events)/2].seed, "written": hexs(events[len(events)/2].B)})
		c.Logf("corpus %s: %d random values validated by TLC", cp.Name, len(events))
		b.Close()
	}
	c.Set("rule", "FillRandom with a deterministic basictl.Rand for several seeds per top-level type; each written value is one trace event validated by TLC (TraceCodec: decodes, valid, canonical) and its TL2/JSON are compared with the spec's for that value")
	return nil
}

func oneLine(s string, n int) string {
	s = strings.ReplaceAll(s, "\n", " ")
	if len(s) > n {
		s = s[:n]
	}
	return s
}
