package codec

import (
	"encoding/json"
	"fmt"
	"os"
	"path/filepath"
	"strconv"
	"strings"
	"time"

	"verif/core"
)

func init() { core.Register("C27", "model_checking", runC27) }

// runC27: TL1 -> TL2 migration. The original schema's TL2 view (spec: Enc2 / WJ over the
// kernel graph of the ORIGINAL schema) is the reference; code generated from the MIGRATED
// files must accept exactly those TL2 bytes, write them back identically and print the same JSON.
func runC27(c *core.Ctx) error {
	type row struct {
		name, file, wl string
	}
	// migr1.tl: two namespaces, generics with # parameters used with constants and with variables,
	// functions with explicit and implicit magics; migrated as a whole and one namespace at a time
	rows := []row{{"probe", probe("probe1.tl"), "*"}, {"migr", probe("migr1.tl"), "*"}, {"migr-app", probe("migr1.tl"), "app."}}
	if c.Thorough() {
		rows = append(rows, row{"cases", tls("cases.tl"), "*"}, row{"probe-ns", probe("probe1.tl"), "a."})
	}
	t, err := getTools(c)
	if err != nil {
		return err
	}
	for ri, r := range rows {
		dir := filepath.Join(c.Scratch, fmt.Sprintf("mig%d", ri))
		_ = os.MkdirAll(dir, 0o755)
		src, err := os.ReadFile(r.file)
		if err != nil {
			return err
		}
		mtl := filepath.Join(dir, "s.tl")
		if err := os.WriteFile(mtl, src, 0o644); err != nil {
			return err
		}
		out, err := c.Run(dir, 2*time.Minute, nil, t.tl2gen, "--language=tl2migration", "--tl2WhiteList="+r.wl, mtl)
		if err != nil {
			c.Add("migration_refused", 1)
			c.Logf("migration of %s with whitelist %s refused: %s", r.name, r.wl, tail(out, 300))
			continue
		}
		if strings.Contains(out, "panic:") || strings.Contains(out, "goroutine ") {
			c.Violate(fmt.Sprintf("migration/%s/%s/panic", r.name, r.wl), "migration panics: "+tail(out, 600), nil)
			continue
		}
		var files []string
		ents, _ := os.ReadDir(dir)
		for _, e := range ents {
			if strings.HasSuffix(e.Name(), ".tl") || strings.HasSuffix(e.Name(), ".tl2") {
				files = append(files, filepath.Join(dir, e.Name()))
			}
		}
		orig, err := Build(c, Corpus{Name: r.name + "-orig", Files: []string{r.file}, TL2: "*", Sanity: false})
		if err != nil {
			return err
		}
		mig, err := Build(c, Corpus{Name: r.name + "-migrated", Files: files, TL2: "*", Sanity: false})
		if err != nil {
			orig.Close()
			mb, _ := os.ReadFile(filepath.Join(dir, "s.tl2"))
			c.Violate(fmt.Sprintf("migration/%s/%s/does-not-compile", r.name, r.wl),
				fmt.Sprintf("the migrated schema is not accepted / does not build: %s\nmigrated .tl2:\n%s", oneLine(err.Error(), 600), string(mb)), nil)
			continue
		}
		// the registry of the migrated schema: every item keeps its name, its function-ness and its
		// magic (the TL2 request of a function starts with it)
		for name, it := range orig.Items {
			mit, ok := mig.Items[name]
			c.Add("evaluations", 1)
			switch {
			case !ok:
				if it["fn"] == true {
					c.Violate(fmt.Sprintf("migration/%s/%s/%s/function-missing", r.name, r.wl, name), "function "+name+" does not exist after migration", nil)
				}
			case it["fn"] != mit["fn"]:
				c.Violate(fmt.Sprintf("migration/%s/%s/%s/function-ness", r.name, r.wl, name), "item "+name+" changes between function and type", nil)
			case it["fn"] == true && it["tag"] != mit["tag"]:
				c.Violate(fmt.Sprintf("migration/%s/%s/%s/function-magic", r.name, r.wl, name),
					fmt.Sprintf("function %s has magic %08x in the original schema and %08x after migration", name, uint32(it["tag"].(float64)), uint32(mit["tag"].(float64))), nil)
			}
		}
		var tops []string
		types := orig.Schema["types"].(map[string]any)
		for _, n := range orig.Tops {
			if tt := types[n].(map[string]any); tt["tl2"] == true {
				if _, ok := mig.Items[orig.item(n)]; ok {
					tops = append(tops, n)
				} else {
					c.Add("types_missing_after_migration", 1)
				}
			}
		}
		var firstErr error
		n := 0
		onEmit := func(raw json.RawMessage) {
			if firstErr != nil {
				return
			}
			var p valPayload
			if err := json.Unmarshal(raw, &p); err != nil || p.Kind != "val" {
				firstErr = err
				return
			}
			var res scriptRes
			if err := mig.Drv.Call(map[string]any{"tn": orig.item(p.Tn), "steps": []map[string]any{{"op": "read2", "in": p.TL2}}}, &res); err != nil {
				firstErr = err
				return
			}
			if res.Fatal != "" {
				firstErr = fmt.Errorf("driver: %s", res.Fatal)
				return
			}
			c.Add("evaluations", 1)
			n++
			s := res.Steps[0]
			key := fmt.Sprintf("migration/%s/%s/%s/%s", r.name, r.wl, p.Tn, hexs(p.TL2))
			if p.NegZ {
				key = fmt.Sprintf("migration/%s/%s/%s/negative-zero-float", r.name, r.wl, p.Tn)
			}
			if p.NegZ {
				// -0.0 in a required float field is dropped by every generated writer (known finding of C03/C05);
				// C27 asks for "the same as the original schema's code", so that is what is compared
				ro, err := orig.script(p.Tn, false, map[string]any{"op": "read2", "in": p.TL2})
				if err == nil && ro.Steps[0].Dump != nil && s.Dump != nil && s.Err == "" && s.Panic == "" {
					if !eqInts(ro.Steps[0].Dump.TL2, s.Dump.TL2) || ro.Steps[0].Dump.JSON != s.Dump.JSON {
						c.Violate(fmt.Sprintf("migration/%s/%s/%s/%s", r.name, r.wl, p.Tn, hexs(p.TL2)), fmt.Sprintf("migrated type %s: TL2 %s is re-written as %s / %s, by the original schema's code as %s / %s",
							p.Tn, hexs(p.TL2), hexs(s.Dump.TL2), s.Dump.JSON, hexs(ro.Steps[0].Dump.TL2), ro.Steps[0].Dump.JSON), p)
					}
					return
				}
			}
			switch {
			case s.Panic != "":
				c.Violate(key, "migrated code panics: "+s.Panic, p)
			case s.Err != "":
				c.Violate(key, fmt.Sprintf("migrated type %s rejects the original's TL2 encoding %s: %s", p.Tn, hexs(p.TL2), s.Err), p)
			case s.Consumed != len(p.TL2) || !eqInts(s.Dump.TL2, p.TL2):
				c.Violate(key, fmt.Sprintf("migrated type %s: TL2 %s (original schema) is re-written as %s (consumed %d)", p.Tn, hexs(p.TL2), hexs(s.Dump.TL2), s.Consumed), p)
			case p.BadKey:
				// no valid JSON exists for a non-UTF-8 dictionary key (C05's known finding); C27 only asks
				// for the same JSON as the original schema's code prints
				if ro, err := orig.script(p.Tn, false, map[string]any{"op": "read2", "in": p.TL2}); err == nil && ro.Steps[0].Dump != nil && ro.Steps[0].Dump.JSON != s.Dump.JSON {
					c.Violate(key, fmt.Sprintf("migrated type %s prints JSON %s, the original schema's code %s", p.Tn, s.Dump.JSON, ro.Steps[0].Dump.JSON), p)
				}
			default:
				if got, err := parseJSON(s.Dump.JSON); err != nil {
					c.Violate(key, "migrated code writes invalid JSON "+s.Dump.JSON, p)
				} else if err := p.JSON.Match(got, "$"); err != nil {
					var sb strings.Builder
					_ = p.JSON.Render(&sb)
					c.Violate(key, fmt.Sprintf("migrated type %s prints JSON %s, the original schema %s (%v)", p.Tn, s.Dump.JSON, sb.String(), err), p)
				}
			}
			if n%151 == 1 {
				c.Sample(map[string]any{"schema": r.name, "whitelist": r.wl, "type": p.Tn, "tl2": hexs(p.TL2), "json": s.Dump.JSON})
			}
		}
		res, err := c.TLC(core.TLCOpts{Module: "MC_Codec", Cfg: "MC_Codec.cfg", Workers: 8, Timeout: 20 * time.Minute,
			Files: map[string][]byte{"SchemaData.tla": orig.SchemaModule(tops)}, OnEmit: onEmit,
			Consts: map[string]string{"SANITY": "FALSE", "MAXLEN": "2", "LONGSTR": "{}", "K": strconv.Itoa(c.Pick(2, 2)), "KMUT": "0",
				"KJSON": "0", "KRE": "0", "KMUT2": "0", "KFN": "0", "KBAD": "0", "EDGES": "FALSE"}})
		orig.Close()
		mig.Close()
		if err != nil {
			return err
		}
		if !res.OK {
			return fmt.Errorf("TLC on %s: %s\n%s", r.name, res.ErrorKind, res.ErrorText)
		}
		if firstErr != nil {
			return firstErr
		}
		c.Logf("migration %s (whitelist %s): %d types, %d values compared", r.name, r.wl, len(tops), n)
		c.Add("states", res.Distinct)
		c.Add("transitions", res.Generated)
		c.Add("distinct_nontrivial", n)
		c.Add("programs", 1)
	}
	if c.Get("distinct_nontrivial") < 10 {
		return fmt.Errorf("vacuous: %d values compared", c.Get("distinct_nontrivial"))
	}
	c.Add("traces_validated_against_impl", 0)
	c.Set("rule", "per (schema, whitelist): migrate a copy with the real tl2gen, generate Go for the original (TL2 view) and for the migrated files; TLC walks the value graph of the original; a case = one value whose spec TL2 bytes / JSON tree are checked against the migrated code")
	return nil
}
