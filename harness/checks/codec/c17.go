package codec

import (
	"encoding/json"
	"fmt"
	"sort"
	"strings"

	"verif/core"
)

func init() { core.Register("C17", "model_checking", runC17) }

type regItem struct {
	Inst  string   `json:"inst"`
	Name  string   `json:"name"`
	Tag   []int    `json:"tag"`
	Fn    bool     `json:"fn"`
	TL1   bool     `json:"tl1"`
	TL2   bool     `json:"tl2"`
	Annot []string `json:"annot"`
	Union bool     `json:"union"`
	Boxed []int    `json:"boxed"`
}

func tagOf(a []int) uint32 {
	if len(a) != 4 {
		return 0
	}
	return uint32(a[0]) | uint32(a[1])<<8 | uint32(a[2])<<16 | uint32(a[3])<<24
}

// runC17: Registry(schema) computed by TLC must equal the generated meta/factory.
func runC17(c *core.Ctx) error {
	// "alphabet": an item in a namespace of every initial letter, generated with --split-internal
	// (the generator spreads meta and factory over per-letter files in that mode)
	cps := append(corporaFor(c), Corpus{Name: "alphabet-split", Files: []string{probe("alphabet.tl")}, TL2: "", Sanity: true, Split: true})
	for _, cp := range cps {
		b, err := Build(c, cp)
		if err != nil {
			return err
		}
		res, err := c.MustTLC(core.TLCOpts{Module: "MC_Registry", Cfg: "MC_Registry.cfg", Workers: 4,
			Files: map[string][]byte{"SchemaData.tla": b.SchemaModule(nil)}})
		if err != nil {
			b.Close()
			return err
		}
		c.Add("states", res.Distinct)
		c.Add("transitions", res.Generated)
		expected := map[string]regItem{}
		for _, raw := range res.Emits {
			var it regItem
			if err := json.Unmarshal(raw, &it); err != nil {
				b.Close()
				return err
			}
			expected[it.Name] = it
		}
		// enum variants are served by the generic item; they are items all the same
		for name := range b.Items {
			if _, ok := expected[name]; !ok {
				c.Violate(fmt.Sprintf("registry/%s/extra/%s", cp.Name, name), "registry lists item "+name+" which the schema does not define as a top-level item", nil)
			}
		}
		names := make([]string, 0, len(expected))
		for n := range expected {
			names = append(names, n)
		}
		sort.Strings(names)
		for i, name := range names {
			e := expected[name]
			var got map[string]any
			if err := b.Drv.Call(map[string]any{"lookup": name}, &got); err != nil {
				b.Close()
				return err
			}
			c.Add("evaluations", 1)
			key := fmt.Sprintf("registry/%s/%s", cp.Name, name)
			if got["panic"] != nil {
				c.Violate(key+"/panic", fmt.Sprint(got["panic"]), e)
				continue
			}
			if got["missing"] == true {
				c.Violate(key+"/missing", "item "+name+" of the schema is not in the registry", e)
				continue
			}
			it := got["item"].(map[string]any)
			var bad []string
			if uint32(it["tag"].(float64)) != tagOf(e.Tag) {
				bad = append(bad, fmt.Sprintf("tag %08x, schema %08x", uint32(it["tag"].(float64)), tagOf(e.Tag)))
			}
			if it["fn"] != e.Fn {
				bad = append(bad, "function-ness")
			}
			if it["tl1"] != e.TL1 || it["tl2"] != e.TL2 {
				bad = append(bad, fmt.Sprintf("HasTL1/HasTL2 = %v/%v, schema %v/%v", it["tl1"], it["tl2"], e.TL1, e.TL2))
			}
			ga := toStrings(it["annot"])
			ea := append([]string{}, e.Annot...)
			sort.Strings(ga)
			sort.Strings(ea)
			if strings.Join(ga, ",") != strings.Join(ea, ",") {
				bad = append(bad, fmt.Sprintf("annotations %v, schema %v", ga, ea))
			}
			if got["byTagMismatch"] == true {
				bad = append(bad, "lookup by tag returns a different item")
			}
			if !e.Union {
				if got["objName"] != name || uint32(got["objTag"].(float64)) != tagOf(e.Tag) {
					bad = append(bad, fmt.Sprintf("created object reports %v/%08x", got["objName"], uint32(got["objTag"].(float64))))
				}
				if e.TL1 {
					if bx := intsOf(got["boxed"]); !eqInts(bx, e.Boxed) {
						bad = append(bad, fmt.Sprintf("boxed default encoding %s, spec %s", hexs(bx), hexs(e.Boxed)))
					}
					if br := intsOf(got["boxedRand"]); len(br) == 4 && tagOf(br) != tagOf(e.Tag) {
						bad = append(bad, fmt.Sprintf("boxed encoding of a random value starts with %s", hexs(br)))
					}
				}
			}
			if e.Fn && (got["fnName"] != name) {
				bad = append(bad, "CreateFunction reports another name")
			}
			if len(bad) > 0 {
				c.Violate(key, "registry item "+name+": "+strings.Join(bad, "; "), map[string]any{"expected": e, "observed": got})
			}
			if i%17 == 0 {
				c.Sample(map[string]any{"corpus": cp.Name, "item": e.Name, "tag": fmt.Sprintf("%08x", tagOf(e.Tag)), "fn": e.Fn, "tl2": e.TL2})
			}
		}
		c.Add("distinct_nontrivial", len(expected))
		c.Add("registry_items", len(b.Items))
		b.Close()
	}
	c.Add("traces_validated_against_impl", 0)
	c.Set("rule", "one TLC state per registry item of each corpus schema (distinct items); each is looked up by name and by tag in the generated meta/factory and created")
	return nil
}

func intsOf(v any) []int {
	a, _ := v.([]any)
	r := make([]int, 0, len(a))
	for _, x := range a {
		f, _ := x.(float64)
		r = append(r, int(f))
	}
	return r
}
