package codec

import (
	"bytes"
	"encoding/base64"
	"encoding/binary"
	"encoding/json"
	"fmt"
	"io"
	"math"
	"strconv"
	"strings"
	"unicode/utf8"
)

// JT is the specification's abstract JSON tree (see spec/TLJson.tla).
type JT struct {
	T     string              `json:"t"`
	KV    [][]json.RawMessage `json:"kv"`
	Items []JT                `json:"items"`
	B     []int               `json:"b"`
	P     string              `json:"p"`
	Q     bool                `json:"q"`
	V     bool                `json:"v"`
	S     string              `json:"s"`
	Tag   []int               `json:"tag"`
}

// LegacyNames switches Match to the legacy spelling of constructor names: "name#%08x".
var LegacyNames bool

func (t *JT) nameText() string {
	if LegacyNames && len(t.Tag) == 4 {
		return fmt.Sprintf("%s#%02x%02x%02x%02x", t.S, t.Tag[3], t.Tag[2], t.Tag[1], t.Tag[0])
	}
	return t.S
}

func bytesFromInts(a []int) []byte {
	r := make([]byte, len(a))
	for i, x := range a {
		r[i] = byte(x)
	}
	return r
}

func numText(p string, b []byte) (text string, isString bool) {
	switch p {
	case "uint32":
		return strconv.FormatUint(uint64(binary.LittleEndian.Uint32(b)), 10), false
	case "int32":
		return strconv.FormatInt(int64(int32(binary.LittleEndian.Uint32(b))), 10), false
	case "uint64":
		return strconv.FormatUint(binary.LittleEndian.Uint64(b), 10), false
	case "int64":
		return strconv.FormatInt(int64(binary.LittleEndian.Uint64(b)), 10), false
	case "byte":
		return strconv.Itoa(int(b[0])), false
	case "float32":
		f := float64(math.Float32frombits(binary.LittleEndian.Uint32(b)))
		if s, ok := specialFloat(f); ok {
			return s, true
		}
		return strconv.FormatFloat(f, 'g', -1, 32), false
	case "float64":
		f := math.Float64frombits(binary.LittleEndian.Uint64(b))
		if s, ok := specialFloat(f); ok {
			return s, true
		}
		return strconv.FormatFloat(f, 'g', -1, 64), false
	}
	return "0", false
}

func specialFloat(f float64) (string, bool) {
	switch {
	case math.IsNaN(f):
		return "NaN", true
	case math.IsInf(f, 1):
		return "+Inf", true
	case math.IsInf(f, -1):
		return "-Inf", true
	}
	return "", false
}

func (t *JT) kvPairs() (keys []json.RawMessage, vals []JT, err error) {
	for _, kv := range t.KV {
		if len(kv) != 2 {
			return nil, nil, fmt.Errorf("bad kv")
		}
		var v JT
		if err := json.Unmarshal(kv[1], &v); err != nil {
			return nil, nil, err
		}
		keys = append(keys, kv[0])
		vals = append(vals, v)
	}
	return
}

func keyString(raw json.RawMessage) (string, error) {
	var s string
	if json.Unmarshal(raw, &s) == nil {
		return s, nil
	}
	var k JT
	if err := json.Unmarshal(raw, &k); err != nil {
		return "", err
	}
	switch k.T {
	case "str", "b64": // dictionary key: the text itself
		return string(bytesFromInts(k.B)), nil
	case "num":
		s, _ := numText(k.P, bytesFromInts(k.B))
		return s, nil
	case "name":
		return k.S, nil
	case "bool":
		return strconv.FormatBool(k.V), nil
	}
	return "", fmt.Errorf("bad key node %q", k.T)
}

func quote(s string) string {
	b, _ := json.Marshal(s)
	return string(b)
}

// Render writes the tree as JSON text (used to feed alternative spellings to the readers).
func (t *JT) Render(sb *strings.Builder) error {
	switch t.T {
	case "obj", "dict":
		keys, vals, err := t.kvPairs()
		if err != nil {
			return err
		}
		sb.WriteByte('{')
		for i := range keys {
			if i > 0 {
				sb.WriteByte(',')
			}
			ks, err := keyString(keys[i])
			if err != nil {
				return err
			}
			sb.WriteString(quote(ks))
			sb.WriteByte(':')
			if err := vals[i].Render(sb); err != nil {
				return err
			}
		}
		sb.WriteByte('}')
	case "arr":
		sb.WriteByte('[')
		for i := range t.Items {
			if i > 0 {
				sb.WriteByte(',')
			}
			if err := t.Items[i].Render(sb); err != nil {
				return err
			}
		}
		sb.WriteByte(']')
	case "str":
		sb.WriteString(quote(string(bytesFromInts(t.B))))
	case "name":
		sb.WriteString(quote(t.S))
	case "b64":
		sb.WriteString(`{"base64":"` + base64.StdEncoding.EncodeToString(bytesFromInts(t.B)) + `"}`)
	case "num":
		s, isStr := numText(t.P, bytesFromInts(t.B))
		if isStr || t.Q {
			sb.WriteString(quote(s))
		} else {
			sb.WriteString(s)
		}
	case "bool":
		sb.WriteString(strconv.FormatBool(t.V))
	default:
		return fmt.Errorf("unknown tree node %q", t.T)
	}
	return nil
}

// ---------------------------------------------------------------------------
// order-preserving JSON parser (detects duplicate keys, keeps number text)

type jv struct {
	kind  byte // o a s n b
	keys  []string
	vals  []*jv
	items []*jv
	s     string
	b     bool
}

func parseJSON(text string) (*jv, error) {
	if !json.Valid([]byte(text)) {
		return nil, fmt.Errorf("not valid JSON (encoding/json)")
	}
	if !utf8.ValidString(text) {
		return nil, fmt.Errorf("JSON text is not valid UTF-8")
	}
	dec := json.NewDecoder(bytes.NewReader([]byte(text)))
	dec.UseNumber()
	v, err := parseVal(dec)
	if err != nil {
		return nil, err
	}
	if _, err := dec.Token(); err != io.EOF {
		return nil, fmt.Errorf("trailing data after JSON value")
	}
	return v, nil
}

func parseVal(dec *json.Decoder) (*jv, error) {
	tok, err := dec.Token()
	if err != nil {
		return nil, err
	}
	switch x := tok.(type) {
	case json.Delim:
		switch x {
		case '{':
			o := &jv{kind: 'o'}
			for dec.More() {
				kt, err := dec.Token()
				if err != nil {
					return nil, err
				}
				k, _ := kt.(string)
				for _, e := range o.keys {
					if e == k {
						return nil, fmt.Errorf("duplicate key %q", k)
					}
				}
				v, err := parseVal(dec)
				if err != nil {
					return nil, err
				}
				o.keys = append(o.keys, k)
				o.vals = append(o.vals, v)
			}
			_, err = dec.Token()
			return o, err
		case '[':
			a := &jv{kind: 'a'}
			for dec.More() {
				v, err := parseVal(dec)
				if err != nil {
					return nil, err
				}
				a.items = append(a.items, v)
			}
			_, err = dec.Token()
			return a, err
		}
	case string:
		return &jv{kind: 's', s: x}, nil
	case json.Number:
		return &jv{kind: 'n', s: string(x)}, nil
	case bool:
		return &jv{kind: 'b', b: x}, nil
	case nil:
		return nil, fmt.Errorf("null is never written")
	}
	return nil, fmt.Errorf("unexpected token %v", tok)
}

func numEqual(p string, b []byte, got *jv) bool {
	want, isStr := numText(p, b)
	if isStr {
		return got.kind == 's' && got.s == want
	}
	if got.kind != 'n' {
		return false
	}
	switch p {
	case "uint32", "uint64", "byte":
		g, err := strconv.ParseUint(got.s, 10, 64)
		w, _ := strconv.ParseUint(want, 10, 64)
		return err == nil && g == w
	case "int32", "int64":
		g, err := strconv.ParseInt(got.s, 10, 64)
		w, _ := strconv.ParseInt(want, 10, 64)
		return err == nil && g == w
	case "float32":
		g, err := strconv.ParseFloat(got.s, 32)
		return err == nil && math.Float32bits(float32(g)) == binary.LittleEndian.Uint32(b)
	case "float64":
		g, err := strconv.ParseFloat(got.s, 64)
		return err == nil && math.Float64bits(g) == binary.LittleEndian.Uint64(b)
	}
	return false
}

// Match compares JSON produced by the implementation with the specified tree.
// Object member order is not part of the mapping; duplicates are errors.
func (t *JT) Match(got *jv, path string) error {
	switch t.T {
	case "obj", "dict":
		if got.kind != 'o' {
			return fmt.Errorf("%s: expected object", path)
		}
		keys, vals, err := t.kvPairs()
		if err != nil {
			return err
		}
		if len(keys) != len(got.keys) {
			return fmt.Errorf("%s: object has keys %v, spec has %d keys", path, got.keys, len(keys))
		}
		for i := range keys {
			ks, err := keyString(keys[i])
			if err != nil {
				return err
			}
			found := false
			for j, gk := range got.keys {
				if gk == ks {
					found = true
					if err := vals[i].Match(got.vals[j], path+"."+ks); err != nil {
						return err
					}
				}
			}
			if !found {
				return fmt.Errorf("%s: key %q missing (has %v)", path, ks, got.keys)
			}
		}
	case "arr":
		if got.kind != 'a' || len(got.items) != len(t.Items) {
			return fmt.Errorf("%s: expected array of %d", path, len(t.Items))
		}
		for i := range t.Items {
			if err := t.Items[i].Match(got.items[i], fmt.Sprintf("%s[%d]", path, i)); err != nil {
				return err
			}
		}
	case "str":
		if got.kind != 's' || got.s != string(bytesFromInts(t.B)) {
			return fmt.Errorf("%s: expected string %q", path, string(bytesFromInts(t.B)))
		}
	case "name":
		if got.kind != 's' || got.s != t.nameText() {
			return fmt.Errorf("%s: expected %q", path, t.nameText())
		}
	case "b64":
		if got.kind != 'o' || len(got.keys) != 1 || got.keys[0] != "base64" || got.vals[0].kind != 's' {
			return fmt.Errorf("%s: expected base64 object", path)
		}
		dec, err := base64.StdEncoding.DecodeString(got.vals[0].s)
		if err != nil || !bytes.Equal(dec, bytesFromInts(t.B)) {
			return fmt.Errorf("%s: base64 content differs", path)
		}
	case "num":
		if !numEqual(t.P, bytesFromInts(t.B), got) {
			w, _ := numText(t.P, bytesFromInts(t.B))
			return fmt.Errorf("%s: expected number %s (%s), got %q", path, w, t.P, got.s)
		}
	case "bool":
		if got.kind != 'b' || got.b != t.V {
			return fmt.Errorf("%s: expected %v", path, t.V)
		}
	default:
		return fmt.Errorf("unknown tree node %q", t.T)
	}
	return nil
}
