package codec

import (
	"fmt"
	"math/rand"
	"strings"
)

// Independent schema generator (C11): produces TL1 schema text AND the resolved
// instance graph from its own AST, without consulting the implementation's kernel.
// Every constructor carries an explicit tag, so no CRC32 rule is involved here
// (C23 covers implicit tags).  The graph has the layout of astdump (see TLSchema.tla).

const genPrelude = `int#a8509bda ? = Int;
long#22076cba ? = Long;
string#b5286e24 ? = String;
double#2210c154 ? = Double;
float#824dab22 ? = Float;
vector#1cb5c415 {t:Type} # [t] = Vector t;
tuple#9770768a {t:Type} {n:#} [t] = Tuple t n;
dictionaryField {t:Type} key:string value:t = DictionaryField t;
dictionary#1f4c618f {t:Type} %(Vector %(DictionaryField t)) = Dictionary t;
true#3fedd339 = True;
boolFalse#bc799737 = Bool;
boolTrue#997275b5 = Bool;
resultFalse#27930a7b {t:Type} = Maybe t;
resultTrue#3f9c8ef8 {t:Type} t = Maybe t;
`

type gType struct { // a type expression of the generator's own AST
	kind  string // int long string double float nat bool vec tupc tupn maybe struct structboxed union dict true
	elem  *gType
	ref   string // struct / union name (constructor name for structs, type name for unions)
	count uint32 // tupc
	natF  int    // tupn: index of the local # field giving the size
}

type gField struct {
	name    string
	typ     *gType
	maskF   int // -1: none, else index of the local # field
	maskBit int
}

type gStruct struct {
	name   string // constructor name, e.g. g.s3
	tag    uint32
	fields []gField
	fn     bool
	result *gType
	union  string // type name of the union this constructor belongs to ("" for plain structs)
	uidx   int
}

type gUnion struct {
	name     string // g.U1
	variants []string
	enum     bool
}

type genSchema struct {
	structs []*gStruct
	unions  []*gUnion
	byName  map[string]*gStruct
	uByName map[string]*gUnion
	types   map[string]any // resolved graph under construction
}

func upperFirst(s string) string { // g.s1 -> g.S1
	i := strings.LastIndex(s, ".") + 1
	return s[:i] + strings.ToUpper(s[i:i+1]) + s[i+1:]
}

// ---- rendering to TL1 text -------------------------------------------------

func (t *gType) text(fields []gField) string {
	switch t.kind {
	case "int", "long", "string", "double", "float":
		return t.kind
	case "nat":
		return "#"
	case "bool":
		return "Bool"
	case "true":
		return "true"
	case "vec":
		return "(vector " + t.elem.text(fields) + ")"
	case "tupc":
		return fmt.Sprintf("(tuple %s %d)", t.elem.text(fields), t.count)
	case "tupn":
		return fields[t.natF].name + "*[" + t.elem.text(fields) + "]"
	case "maybe":
		return "(Maybe " + t.elem.text(fields) + ")"
	case "struct":
		return t.ref
	case "structboxed":
		return upperFirst(t.ref)
	case "union":
		return t.ref
	case "dict":
		return "(dictionary " + t.elem.text(fields) + ")"
	}
	panic("text: " + t.kind)
}

func (g *genSchema) Text() string {
	var sb strings.Builder
	sb.WriteString(genPrelude)
	for _, s := range g.structs {
		if s.fn {
			sb.WriteString("@read ")
		}
		fmt.Fprintf(&sb, "%s#%08x", s.name, s.tag)
		for _, f := range s.fields {
			sb.WriteString(" " + f.name + ":")
			if f.maskF >= 0 {
				fmt.Fprintf(&sb, "%s.%d?", s.fields[f.maskF].name, f.maskBit)
			}
			sb.WriteString(f.typ.text(s.fields))
		}
		switch {
		case s.fn:
			if s.result.kind == "tupn" {
				fmt.Fprintf(&sb, " => Tuple %s %s;\n", s.result.elem.text(s.fields), s.fields[s.result.natF].name)
			} else {
				r := s.result.text(s.fields)
				sb.WriteString(" => " + strings.TrimSuffix(strings.TrimPrefix(r, "("), ")") + ";\n")
			}
		case s.union != "":
			sb.WriteString(" = " + s.union + ";\n")
		default:
			sb.WriteString(" = " + upperFirst(s.name) + ";\n")
		}
	}
	return sb.String()
}

// ---- resolution to the instance graph (the reference's own reading of TL1) ----

func leA(v uint32) []any {
	return []any{float64(v & 255), float64(v >> 8 & 255), float64(v >> 16 & 255), float64(v >> 24)}
}

func noArg() map[string]any { return map[string]any{"k": "none", "i": float64(0), "num": leA(0)} }

func mkField(name, typ string, bare bool) map[string]any {
	return map[string]any{"n": name, "t": typ, "bare": bare, "mask": noArg(), "bit": float64(0), "na": []any{},
		"tl2bit": float64(-1), "isbit": false, "dom": []any{}, "omit": false}
}

func (g *genSchema) base(kind, name string) map[string]any {
	t := map[string]any{"k": kind, "name": name, "tlname": name, "tag": leA(0), "np": []any{}, "tl2": true, "origin2": false,
		"top": false, "fn": false, "annot": []any{}, "boxedOnly": false, "fields": []any{}, "typedef": false, "alias": false,
		"unwrap": false, "unionElem": false, "uidx": float64(0), "res": "", "resBare": false, "resNa": []any{}, "resAlias": false,
		"vnames": []any{}, "variants": []any{}, "elemNa": []any{}, "enum": false, "maybe": false, "tuple": false, "dyn": false,
		"count": leA(0), "elem": mkField("", "", false), "dictField": "", "prim": "", "falseTag": leA(0), "trueTag": leA(0)}
	g.types[name] = t
	return t
}

func (g *genSchema) prim(p string) string {
	if _, ok := g.types[p]; !ok {
		t := g.base("prim", p)
		t["prim"] = p
		if p == "bool" {
			t["falseTag"], t["trueTag"] = leA(0xbc799737), leA(0x997275b5)
		}
	}
	return p
}

var primOf = map[string]string{"int": "int32", "long": "int64", "string": "string", "double": "float64", "float": "float32", "nat": "uint32"}

// inst returns (instance name, bare, natArgs) for a type expression used as a field of s.
func (g *genSchema) inst(t *gType, paramOf func(natF int) map[string]any) (string, bool, []any) {
	switch t.kind {
	case "int", "long", "string", "double", "float", "nat":
		return g.prim(primOf[t.kind]), true, []any{}
	case "bool":
		return g.prim("bool"), false, []any{}
	case "true":
		if _, ok := g.types["true"]; !ok {
			x := g.base("struct", "true")
			x["tag"], x["top"] = leA(0x3fedd339), true
		}
		return "true", true, []any{}
	case "struct", "structboxed":
		return t.ref, t.kind == "struct", []any{}
	case "union":
		return t.ref, false, []any{}
	case "vec":
		en, ebare, _ := g.inst(t.elem, paramOf)
		mark := ""
		if !ebare {
			mark = "+"
		}
		arr := "[]" + mark + en
		if _, ok := g.types[arr]; !ok {
			a := g.base("array", arr)
			a["elem"] = mkField("", en, ebare)
		}
		name := "vector<" + mark + en + ">"
		if _, ok := g.types[name]; !ok {
			w := g.base("struct", name)
			w["tlname"], w["tag"] = "vector", leA(0x1cb5c415)
			w["typedef"], w["alias"], w["unwrap"] = true, true, true
			w["fields"] = []any{mkField("", arr, true)}
		}
		return name, true, []any{}
	case "tupc":
		en, ebare, _ := g.inst(t.elem, paramOf)
		if !ebare {
			en2 := "+" + en
			arr := fmt.Sprintf("[%d]%s", t.count, en2)
			if _, ok := g.types[arr]; !ok {
				a := g.base("array", arr)
				a["tuple"], a["count"] = true, leA(t.count)
				a["elem"] = mkField("", en, ebare)
			}
			name := fmt.Sprintf("tuple<%s,%d>", en2, t.count)
			if _, ok := g.types[name]; !ok {
				w := g.base("struct", name)
				w["tlname"], w["tag"] = "tuple", leA(0x9770768a)
				w["typedef"], w["alias"], w["unwrap"] = true, true, true
				w["fields"] = []any{mkField("", arr, true)}
			}
			return name, true, []any{}
		}
		arr := fmt.Sprintf("[%d]%s", t.count, en)
		if _, ok := g.types[arr]; !ok {
			a := g.base("array", arr)
			a["tuple"], a["count"] = true, leA(t.count)
			a["elem"] = mkField("", en, ebare)
		}
		name := fmt.Sprintf("tuple<%s,%d>", en, t.count)
		if _, ok := g.types[name]; !ok {
			w := g.base("struct", name)
			w["tlname"], w["tag"] = "tuple", leA(0x9770768a)
			w["typedef"], w["alias"], w["unwrap"] = true, true, true
			w["fields"] = []any{mkField("", arr, true)}
		}
		return name, true, []any{}
	case "tupn": // n*[T]: the array instance itself, parameterised by the size
		en, ebare, _ := g.inst(t.elem, paramOf)
		arr := "[*]" + en
		if !ebare {
			arr = "[*]+" + en
		}
		if _, ok := g.types[arr]; !ok {
			a := g.base("array", arr)
			a["tuple"], a["dyn"], a["np"] = true, true, []any{"n"}
			a["elem"] = mkField("", en, ebare)
		}
		return arr, true, []any{paramOf(t.natF)}
	case "maybe":
		en, mbare, _ := g.inst(t.elem, paramOf)
		mmark := ""
		if !mbare {
			mmark = "+"
		}
		name := "Maybe<" + mmark + en + ">"
		if _, ok := g.types[name]; !ok {
			u := g.base("union", name)
			u["tlname"], u["boxedOnly"], u["maybe"] = "Maybe", true, true
			u["vnames"] = []any{"resultFalse", "resultTrue"}
			u["variants"] = []any{"resultFalse<" + mmark + en + ">", "resultTrue<" + mmark + en + ">"}
			f := g.base("struct", "resultFalse<"+mmark+en+">")
			f["tlname"], f["tag"], f["boxedOnly"], f["unionElem"] = "resultFalse", leA(0x27930a7b), true, true
			tr := g.base("struct", "resultTrue<"+mmark+en+">")
			tr["tlname"], tr["tag"], tr["boxedOnly"], tr["unionElem"], tr["uidx"], tr["typedef"] = "resultTrue", leA(0x3f9c8ef8), true, true, float64(1), true
			tr["fields"] = []any{mkField("", en, mbare)}
		}
		return name, false, []any{}
	case "dict":
		en, _, _ := g.inst(t.elem, paramOf)
		df := "__dict_field<string," + en + ">"
		if _, ok := g.types[df]; !ok {
			d := g.base("struct", df)
			d["tlname"] = "__dict_field"
			d["fields"] = []any{mkField("key", g.prim("string"), true), mkField("value", en, true)}
		}
		dn := "[string]" + en
		if _, ok := g.types[dn]; !ok {
			d := g.base("dict", dn)
			d["elem"], d["dictField"] = mkField("", df, true), df
		}
		name := "dictionary<" + en + ">"
		if _, ok := g.types[name]; !ok {
			w := g.base("struct", name)
			w["tlname"], w["tag"] = "dictionary", leA(0x1f4c618f)
			w["typedef"], w["alias"], w["unwrap"] = true, true, true
			w["fields"] = []any{mkField("", dn, true)}
		}
		return name, true, []any{}
	}
	panic("inst: " + t.kind)
}

// Graph resolves the generator's AST into the instance graph.
func (g *genSchema) Graph() map[string]any {
	g.types = map[string]any{}
	for _, p := range []string{"uint32", "int32", "int64", "float32", "float64", "string", "bool"} {
		g.prim(p)
	}
	for _, s := range g.structs {
		t := g.base("struct", s.name)
		t["tag"], t["top"] = leA(s.tag), true
		if s.fn {
			t["fn"], t["annot"] = true, []any{"read"}
		}
		if s.union != "" {
			t["unionElem"], t["uidx"], t["boxedOnly"] = true, float64(s.uidx), true
		}
	}
	for _, u := range g.unions {
		t := g.base("union", u.name)
		t["top"], t["boxedOnly"], t["enum"] = true, true, u.enum
		var vs, vn []any
		for _, v := range u.variants {
			vs = append(vs, v)
			vn = append(vn, v)
		}
		t["variants"], t["vnames"] = vs, vn
	}
	for _, s := range g.structs {
		t := g.types[s.name].(map[string]any)
		fieldArg := func(natF int) map[string]any { return map[string]any{"k": "field", "i": float64(natF), "num": leA(0)} }
		var fs []any
		opt := 0
		for _, f := range s.fields {
			tn, bare, na := g.inst(f.typ, fieldArg)
			fr := mkField(f.name, tn, bare)
			fr["na"] = na
			if f.maskF >= 0 {
				fr["mask"], fr["bit"] = fieldArg(f.maskF), float64(f.maskBit)
				fr["tl2bit"] = float64(opt)
				opt++
				fr["isbit"] = f.typ.kind == "true"
			}
			fs = append(fs, fr)
		}
		if fs == nil {
			fs = []any{}
		}
		t["fields"] = fs
		if s.fn {
			rn, rbare, rna := g.inst(s.result, fieldArg)
			if s.result.kind == "tupn" { // => Tuple T q : the Tuple wrapper parameterised by the request's field
				en, _, _ := g.inst(s.result.elem, fieldArg)
				name := "tuple<" + en + ",*>"
				if _, ok := g.types[name]; !ok {
					w := g.base("struct", name)
					w["tlname"], w["tag"], w["np"] = "tuple", leA(0x9770768a), []any{"n"}
					w["typedef"], w["alias"], w["unwrap"] = true, true, true
					f := mkField("", rn, true)
					f["na"] = []any{map[string]any{"k": "param", "i": float64(0), "num": leA(0)}}
					w["fields"] = []any{f}
				}
				rn, rbare = name, false
			}
			_ = rbare
			t["res"], t["resBare"], t["resNa"] = rn, false, rna
		}
	}
	var order []any
	for n := range g.types {
		order = append(order, n)
	}
	return map[string]any{"types": g.types, "order": order}
}

// ---- random generation ------------------------------------------------------

func randomSchema(rnd *rand.Rand, nStructs int) *genSchema {
	g := &genSchema{byName: map[string]*gStruct{}, uByName: map[string]*gUnion{}}
	tag := uint32(0x10000000 + rnd.Intn(0x1000)<<8)
	next := func() uint32 { tag++; return tag }
	// unions and enums first (their variants are small structs)
	nU := 1 + rnd.Intn(2)
	for u := 0; u < nU; u++ {
		un := &gUnion{name: fmt.Sprintf("g.U%d", u)}
		nv := 2 + rnd.Intn(2)
		un.enum = rnd.Intn(3) == 0
		for v := 0; v < nv; v++ {
			s := &gStruct{name: fmt.Sprintf("g.u%dv%d", u, v), tag: next(), union: un.name, uidx: v}
			if !un.enum && (v > 0 || rnd.Intn(2) == 0) {
				for f := 0; f < 1+rnd.Intn(2); f++ {
					s.fields = append(s.fields, gField{name: fmt.Sprintf("f%d", f), typ: &gType{kind: []string{"int", "string", "long"}[rnd.Intn(3)]}, maskF: -1})
				}
			}
			if !un.enum && v == nv-1 && len(s.fields) == 0 {
				s.fields = append(s.fields, gField{name: "f0", typ: &gType{kind: "int"}, maskF: -1})
			}
			un.variants = append(un.variants, s.name)
			g.structs = append(g.structs, s)
			g.byName[s.name] = s
		}
		g.unions = append(g.unions, un)
		g.uByName[un.name] = un
	}
	var plain []*gStruct
	leafKinds := []string{"int", "long", "string", "double", "float"}
	elemType := func() *gType {
		switch rnd.Intn(6) {
		case 0:
			if len(plain) > 0 {
				return &gType{kind: "struct", ref: plain[rnd.Intn(len(plain))].name}
			}
		case 1:
			return &gType{kind: "vec", elem: &gType{kind: leafKinds[rnd.Intn(3)]}}
		case 2:
			if len(plain) > 0 {
				return &gType{kind: "structboxed", ref: plain[rnd.Intn(len(plain))].name}
			}
		}
		return &gType{kind: leafKinds[rnd.Intn(len(leafKinds))]}
	}
	for si := 0; si < nStructs; si++ {
		s := &gStruct{name: fmt.Sprintf("g.s%d", si), tag: next()}
		nf := 1 + rnd.Intn(6)
		var maskNats, sizeNats []int
		for fi := 0; fi < nf; fi++ {
			f := gField{name: fmt.Sprintf("f%d", fi), maskF: -1}
			switch k := rnd.Intn(14); {
			case k == 0: // a # used as a mask by later fields
				f.typ = &gType{kind: "nat"}
				maskNats = append(maskNats, fi)
			case k == 1: // a # used as a size by later fields
				f.typ = &gType{kind: "nat"}
				sizeNats = append(sizeNats, fi)
			case k == 2:
				f.typ = &gType{kind: "bool"}
			case k == 3:
				f.typ = &gType{kind: "vec", elem: elemType()}
			case k == 4:
				f.typ = &gType{kind: "tupc", elem: elemType(), count: uint32(rnd.Intn(3))}
			case k == 5 && len(sizeNats) > 0:
				f.typ = &gType{kind: "tupn", elem: elemType(), natF: sizeNats[rnd.Intn(len(sizeNats))]}
			case k == 6:
				f.typ = &gType{kind: "maybe", elem: elemType()}
			case k == 7 && len(plain) > 0:
				f.typ = &gType{kind: "struct", ref: plain[rnd.Intn(len(plain))].name}
			case k == 8 && len(plain) > 0:
				f.typ = &gType{kind: "structboxed", ref: plain[rnd.Intn(len(plain))].name}
			case k == 9:
				f.typ = &gType{kind: "union", ref: g.unions[rnd.Intn(len(g.unions))].name}
			case k == 10:
				f.typ = &gType{kind: "dict", elem: &gType{kind: leafKinds[rnd.Intn(3)]}}
			default:
				f.typ = &gType{kind: leafKinds[rnd.Intn(len(leafKinds))]}
			}
			if f.typ.kind != "nat" && len(maskNats) > 0 && rnd.Intn(3) == 0 {
				f.maskF = maskNats[rnd.Intn(len(maskNats))]
				f.maskBit = []int{0, 1, 2, 7, 8, 31}[rnd.Intn(6)]
				if rnd.Intn(4) == 0 {
					f.typ = &gType{kind: "true"}
				}
			}
			s.fields = append(s.fields, f)
		}
		g.structs = append(g.structs, s)
		g.byName[s.name] = s
		plain = append(plain, s)
	}
	// one function whose result depends on a request field, one with a plain result
	f1 := &gStruct{name: "g.fn0", tag: next(), fn: true, fields: []gField{{name: "q", typ: &gType{kind: "nat"}, maskF: -1}, {name: "x", typ: &gType{kind: "int"}, maskF: -1}},
		result: &gType{kind: "tupn", elem: &gType{kind: "int"}, natF: 0}}
	f2 := &gStruct{name: "g.fn1", tag: next(), fn: true, fields: []gField{{name: "s", typ: &gType{kind: "string"}, maskF: -1}},
		result: &gType{kind: "structboxed", ref: plain[rnd.Intn(len(plain))].name}}
	g.structs = append(g.structs, f1, f2)
	g.byName[f1.name], g.byName[f2.name] = f1, f2
	return g
}

// ---- structural comparison with the kernel's graph ---------------------------

// diffGraphs walks both graphs from instance `a` (reference) / `b` (kernel) and returns the first difference.
func diffGraphs(ref, ker map[string]any, a, b string, seen map[string]bool) string {
	key := a + "|" + b
	if seen[key] {
		return ""
	}
	seen[key] = true
	ta, _ := ref[a].(map[string]any)
	tb, _ := ker[b].(map[string]any)
	if ta == nil || tb == nil {
		return fmt.Sprintf("instance %s / %s missing (%v %v)", a, b, ta != nil, tb != nil)
	}
	for _, k := range []string{"k", "fn", "typedef", "alias", "unionElem", "uidx", "enum", "maybe", "tuple", "dyn", "prim", "tl2", "origin2", "resBare"} {
		if fmt.Sprint(ta[k]) != fmt.Sprint(tb[k]) {
			return fmt.Sprintf("%s: %s = %v, kernel %v", a, k, ta[k], tb[k])
		}
	}
	for _, k := range []string{"tag", "count", "falseTag", "trueTag"} {
		if fmt.Sprint(ta[k]) != fmt.Sprint(tb[k]) {
			return fmt.Sprintf("%s: %s = %v, kernel %v", a, k, ta[k], tb[k])
		}
	}
	if len(toStrings(ta["np"])) != len(toStrings(tb["np"])) {
		return fmt.Sprintf("%s: nat parameters %v, kernel %v", a, ta["np"], tb["np"])
	}
	cmpArgs := func(what string, x, y any) string {
		xa, _ := x.([]any)
		ya, _ := y.([]any)
		if len(xa) != len(ya) {
			return fmt.Sprintf("%s: %s count %d, kernel %d", a, what, len(xa), len(ya))
		}
		for i := range xa {
			p, q := xa[i].(map[string]any), ya[i].(map[string]any)
			if p["k"] != q["k"] || (p["k"] != "num" && toInt(p["i"]) != toInt(q["i"])) || (p["k"] == "num" && fmt.Sprint(p["num"]) != fmt.Sprint(q["num"])) {
				return fmt.Sprintf("%s: %s[%d] = %v, kernel %v", a, what, i, p, q)
			}
		}
		return ""
	}
	cmpField := func(fa, fb map[string]any, what string) string {
		for _, k := range []string{"n", "bare", "bit", "tl2bit", "isbit"} {
			if fmt.Sprint(fa[k]) != fmt.Sprint(fb[k]) {
				if k == "bit" && fa["mask"].(map[string]any)["k"] == "none" {
					continue
				}
				return fmt.Sprintf("%s.%s: %s = %v, kernel %v", a, what, k, fa[k], fb[k])
			}
		}
		ma, mb := fa["mask"].(map[string]any), fb["mask"].(map[string]any)
		if ma["k"] != mb["k"] || (ma["k"] != "none" && toInt(ma["i"]) != toInt(mb["i"])) {
			return fmt.Sprintf("%s.%s: mask %v, kernel %v", a, what, ma, mb)
		}
		if d := cmpArgs(what+" nat args", fa["na"], fb["na"]); d != "" {
			return d
		}
		return diffGraphs(ref, ker, fa["t"].(string), fb["t"].(string), seen)
	}
	switch ta["k"] {
	case "struct":
		fa, _ := ta["fields"].([]any)
		fb, _ := tb["fields"].([]any)
		if len(fa) != len(fb) {
			return fmt.Sprintf("%s: %d fields, kernel %d", a, len(fa), len(fb))
		}
		for i := range fa {
			if d := cmpField(fa[i].(map[string]any), fb[i].(map[string]any), fmt.Sprintf("field%d", i)); d != "" {
				return d
			}
		}
		if ta["fn"] == true {
			if d := cmpArgs("result nat args", ta["resNa"], tb["resNa"]); d != "" {
				return d
			}
			return diffGraphs(ref, ker, ta["res"].(string), tb["res"].(string), seen)
		}
	case "union":
		va, vb := toStrings(ta["variants"]), toStrings(tb["variants"])
		if len(va) != len(vb) {
			return fmt.Sprintf("%s: %d variants, kernel %d", a, len(va), len(vb))
		}
		for i := range va {
			if d := diffGraphs(ref, ker, va[i], vb[i], seen); d != "" {
				return d
			}
		}
		return cmpArgs("variant nat args", ta["elemNa"], tb["elemNa"])
	case "array", "dict":
		return cmpField(ta["elem"].(map[string]any), tb["elem"].(map[string]any), "elem")
	}
	return ""
}
