package codec

import (
	"fmt"
	"regexp"
	"sort"
	"strconv"
	"strings"
)

var identRe = regexp.MustCompile(`^[A-Za-z][A-Za-z0-9_]*$`)

// tlaValue renders a JSON-like Go value as a TLA+ expression.
func tlaValue(v any) string {
	switch x := v.(type) {
	case bool:
		if x {
			return "TRUE"
		}
		return "FALSE"
	case float64:
		return strconv.Itoa(int(x))
	case int:
		return strconv.Itoa(x)
	case string:
		return strconv.Quote(x)
	case []string:
		parts := make([]string, len(x))
		for i, e := range x {
			parts[i] = strconv.Quote(e)
		}
		return "<<" + strings.Join(parts, ", ") + ">>"
	case []any:
		parts := make([]string, len(x))
		for i, e := range x {
			parts[i] = tlaValue(e)
		}
		return "<<" + strings.Join(parts, ", ") + ">>"
	case map[string]any:
		if len(x) == 0 {
			return "<<>>"
		}
		keys := make([]string, 0, len(x))
		ident := true
		for k := range x {
			keys = append(keys, k)
			if !identRe.MatchString(k) {
				ident = false
			}
		}
		sort.Strings(keys)
		parts := make([]string, len(keys))
		for i, k := range keys {
			if ident {
				parts[i] = k + " |-> " + tlaValue(x[k])
			} else {
				parts[i] = strconv.Quote(k) + " :> " + tlaValue(x[k])
			}
		}
		if ident {
			return "[" + strings.Join(parts, ", ") + "]"
		}
		return "(" + strings.Join(parts, " @@ ") + ")"
	case nil:
		return "<<>>"
	}
	panic(fmt.Sprintf("tlaValue: unsupported %T", v))
}

// SchemaModule renders module SchemaData: one constant definition per instance,
// TY(n) as a CASE over them, TopNames.
func (b *Built) SchemaModule(tops []string) []byte { return b.SchemaModuleX(tops, nil) }

// SchemaModuleX additionally defines ExtraVals(p): extra leaf values per primitive type.
func (b *Built) SchemaModuleX(tops []string, extra map[string][][]int) []byte {
	types := b.Schema["types"].(map[string]any)
	names := make([]string, 0, len(types))
	for n := range types {
		names = append(names, n)
	}
	sort.Strings(names)
	var sb strings.Builder
	sb.WriteString("---- MODULE SchemaData ----\nEXTENDS Integers, TLC\n")
	for i, n := range names {
		fmt.Fprintf(&sb, "T%d == %s\n", i, tlaValue(types[n]))
	}
	sb.WriteString("TY(n) ==\n  CASE ")
	for i, n := range names {
		if i > 0 {
			sb.WriteString("\n    [] ")
		}
		fmt.Fprintf(&sb, "n = %s -> T%d", strconv.Quote(n), i)
	}
	sb.WriteString("\nTopNames == " + tlaValue(tops) + "\nAllNames == " + tlaValue(names) + "\n")
	if len(extra) == 0 {
		sb.WriteString("ExtraVals(p) == {}\n====\n")
		return []byte(sb.String())
	}
	sb.WriteString("ExtraVals(p) ==\n  CASE ")
	var prims []string
	for p := range extra {
		prims = append(prims, p)
	}
	sort.Strings(prims)
	for _, p := range prims {
		var vals []string
		for _, v := range extra[p] {
			parts := make([]string, len(v))
			for i, x := range v {
				parts[i] = strconv.Itoa(x)
			}
			vals = append(vals, "<<"+strings.Join(parts, ", ")+">>")
		}
		fmt.Fprintf(&sb, "p = %s -> {%s}\n    [] ", strconv.Quote(p), strings.Join(vals, ", "))
	}
	sb.WriteString("OTHER -> {}\n====\n")
	return []byte(sb.String())
}
