package syntax

import (
	"encoding/json"
	"fmt"
	"os"
	"path/filepath"
	"strings"
	"sync"
	"sync/atomic"
	"time"

	"verif/core"
)

func init() {
	core.Register("C25", "model_checking", runC25)
}

type listItem struct {
	Listed  bool   `json:"listed"`
	Line    string `json:"line"`
	Coded   string `json:"coded"`
	Denotes any    `json:"denotes"`
}

type semCase struct {
	laidCase
	Header  []string   `json:"header"`
	Listing []listItem `json:"listing"`
}

type c25ctx struct {
	c        *core.Ctx
	tool     string
	seq      int64
	nschemas int64
	ncli     int64
	allCLI   bool
	nsNames  int // accepted schemas' combinators with a namespace
	nsPrim   int // ... whose short name is a primitive wrapper name
	mu       sync.Mutex
	acc      int
	rej      int
	lines    int
	repar    int
	equal    int
	flat     int
}

// runTool runs `tl2gen --language=canonical` on the files (relative to dir) and returns the listing lines.
func (x *c25ctx) runTool(dir string, files ...string) (lines []string, accepted bool, out string, err error) {
	outfile := filepath.Join(dir, "canonical.out")
	_ = os.Remove(outfile)
	args := append([]string{"--language=canonical", "--outfile=" + outfile}, files...)
	out, rerr := x.c.Run(dir, 60*time.Second, nil, x.tool, args...)
	if strings.Contains(out, "panic:") || strings.Contains(out, "goroutine ") {
		return nil, false, out, nil
	}
	if rerr != nil {
		if strings.Contains(rerr.Error(), "timed out") {
			return nil, false, out, rerr
		}
		return nil, false, out, nil // schema rejected by the compiler: outside the quantifier ("accepted schemas")
	}
	b, err := os.ReadFile(outfile)
	if err != nil {
		return nil, true, out, fmt.Errorf("tl2gen succeeded but wrote no listing: %v", err)
	}
	txt := string(b)
	if !strings.HasSuffix(txt, "\n") && txt != "" {
		return strings.Split(txt, "\n"), true, out, nil
	}
	return strings.Split(strings.TrimSuffix(txt, "\n"), "\n"), true, out, nil
}

func effectiveTag(comb any, canon string) string {
	if t := combTag(comb); t != "" {
		return t
	}
	return crcOf(canon)
}

// structural projection compared by the property: names, tag, template arguments, fields, result
func project(comb any) map[string]any {
	m, _ := comb.(map[string]any)
	out := map[string]any{}
	for _, k := range []string{"ns", "nm", "tag", "ta", "bi", "fs", "fn", "dns", "dnm", "da", "res"} {
		out[k] = m[k]
	}
	return out
}

// evalListing: one accepted schema: listing text = specified listing; each terminated line denotes the source combinator.
func (x *c25ctx) evalListing(d *drv, sc *semCase) ([]finding, error) {
	var fs []finding
	text := joinToks(sc.Toks)
	fk := featureKey(sc.Ast[len(sc.Ast)-1:])
	add := func(aspect, key, what string) {
		fs = append(fs, finding{aspect, aspect + "/" + key, what + fmt.Sprintf(" (schema tail %q)", clip(text[strings.LastIndex(strings.TrimRight(text, "\n;"), ";")+1:], 300))})
	}
	dir := filepath.Join(x.c.Scratch, fmt.Sprintf("c25-%d", atomic.AddInt64(&x.seq, 1)))
	if err := os.MkdirAll(dir, 0o755); err != nil {
		return nil, err
	}
	defer os.RemoveAll(dir)
	if err := os.WriteFile(filepath.Join(dir, "s.tl"), []byte(text), 0o644); err != nil {
		return nil, err
	}
	n := atomic.AddInt64(&x.nschemas, 1)
	viaCLI := x.allCLI || n%10 == 1
	var lines []string
	var accepted bool
	var out string
	// in-process run of the same code path as cmd/tl2gen (options binding, kernel, generator)
	var reply struct {
		Panic string `json:"panic"`
		Res   []struct {
			Panic    string `json:"panic"`
			HErr     string `json:"harness_error"`
			Accepted bool   `json:"accepted"`
			Error    string `json:"error"`
			Listing  string `json:"listing"`
		} `json:"res"`
	}
	if err := d.p.Call(map[string]any{"op": "canonical", "schemas": [][][2]string{{{"s.tl", text}}}}, &reply); err != nil {
		return nil, err
	}
	if reply.Panic != "" || len(reply.Res) != 1 || reply.Res[0].HErr != "" {
		return nil, fmt.Errorf("canonical op failed in the driver: %s %v", reply.Panic, reply.Res)
	}
	ip := reply.Res[0]
	if ip.Panic != "" {
		add("panic", fk, "canonical listing generation panicked: "+ip.Panic)
		return fs, nil
	}
	accepted = ip.Accepted
	if accepted {
		lines = strings.Split(strings.TrimSuffix(ip.Listing, "\n"), "\n")
	}
	if viaCLI {
		cl, cacc, cout, err := x.runTool(dir, "s.tl")
		if err != nil {
			return nil, err
		}
		atomic.AddInt64(&x.ncli, 1)
		if cacc != accepted || strings.Join(cl, "\n") != strings.Join(lines, "\n") {
			if !(strings.Contains(cout, "panic:")) {
				return nil, fmt.Errorf("the CLI and the in-process run of the canonical generator disagree (accepted %v/%v) on %q", cacc, accepted, clip(text, 300))
			}
		}
		lines, accepted, out = cl, cacc, cout
	}
	if !accepted {
		if strings.Contains(out, "panic:") {
			add("panic", fk, "tl2gen --language=canonical panicked: "+clip(out, 600))
			return fs, nil
		}
		x.mu.Lock()
		x.rej++
		if x.rej <= 3 {
			x.c.Logf("schema rejected by the compiler (%s): %s", clip(ip.Error, 200), clip(text[len(text)*3/4:], 160))
		}
		x.mu.Unlock()
		return nil, nil
	}
	x.mu.Lock()
	x.acc++
	for _, cm := range sc.Ast {
		m, _ := cm.(map[string]any)
		ns, _ := m["ns"].(string)
		nm, _ := m["nm"].(string)
		if ns != "" {
			x.nsNames++
			if nm == "int" || nm == "long" || nm == "float" || nm == "double" || nm == "string" {
				x.nsPrim++
			}
		}
	}
	x.mu.Unlock()
	// expected listing from the specification (tags computed here: explicit, or CRC32 of the canonical text)
	var want, wantCoded []string
	var owner []int
	for _, h := range sc.Header {
		want = append(want, h)
		wantCoded = append(wantCoded, h)
		owner = append(owner, -1)
	}
	tags := make([]string, len(sc.Ast))
	for i, it := range sc.Listing {
		tags[i] = effectiveTag(sc.Ast[i], sc.Canon[i])
		if !it.Listed {
			continue
		}
		r := strings.NewReplacer("@TAG@", tags[i], "@FILE@", "s.tl")
		want = append(want, r.Replace(it.Line))
		wantCoded = append(wantCoded, r.Replace(it.Coded))
		owner = append(owner, i)
	}
	if len(lines) != len(want) {
		have := map[string]bool{}
		for _, l := range lines {
			have[l] = true
		}
		key, missing := "count", ""
		for i, w := range want {
			if !have[w] && owner[i] >= 0 {
				m, _ := sc.Ast[owner[i]].(map[string]any)
				ns, _ := m["ns"].(string)
				nm, _ := m["nm"].(string)
				if ns != "" {
					nm = ns + "." + nm
				}
				key, missing = "missing-line/"+nm, w
				break
			}
		}
		add("listing", key, fmt.Sprintf("listing has %d lines, specified %d (one per constructor/function plus %d header lines); first specified line that is absent: %q", len(lines), len(want), len(sc.Header), missing))
		return fs, nil
	}
	var reparse []string
	var rIdx []int
	for i := range want {
		x.mu.Lock()
		x.lines++
		x.mu.Unlock()
		if lines[i] != want[i] {
			key := "line/" + fk
			if owner[i] < 0 {
				key = "header"
			} else if lines[i] == wantCoded[i] && hasFeature(sc.Ast[owner[i]:owner[i]+1], "arith-sum-in-body") {
				key = "arith-in-repeat-body"
			}
			add("listing", key, fmt.Sprintf("line %d is %q, specified %q", i+1, lines[i], want[i]))
			continue
		}
		if owner[i] >= 0 {
			m, _ := sc.Ast[owner[i]].(map[string]any)
			pre := ""
			if fn, _ := m["fn"].(bool); fn {
				pre = "---functions---\n"
			}
			reparse = append(reparse, pre+lines[i]+"\n;")
			rIdx = append(rIdx, owner[i])
		}
	}
	rs, err := d.run("tl1", 1, reparse, wants{ast: true})
	if err != nil {
		return nil, err
	}
	for k, r := range rs {
		i := rIdx[k]
		src := sc.Ast[i : i+1]
		flatClass := hasFeature(src, "app") // the listing writes type applications without brackets
		x.mu.Lock()
		x.repar++
		x.mu.Unlock()
		var denotes any
		b, _ := json.Marshal(sc.Listing[i].Denotes)
		_ = json.Unmarshal([]byte(strings.ReplaceAll(string(b), "@TAG@", tags[i])), &denotes)
		same := r.OK && len(r.Combs1) == 1 && sameJSON(project(r.Combs1[0]), project(denotes))
		if same {
			x.mu.Lock()
			x.equal++
			x.mu.Unlock()
			continue
		}
		what := ""
		switch {
		case r.Panic != "":
			add("panic", featureKey(src), "re-parsing a listing line panicked: "+r.Panic)
			continue
		case !r.OK:
			what = fmt.Sprintf("terminated listing line %q does not parse: %s", reparse[k], r.Err.Msg)
		default:
			what = fmt.Sprintf("terminated listing line %q parses to %s, the source combinator is %s", reparse[k], short(r.Combs1, 500), short(denotes, 500))
		}
		if flatClass {
			x.mu.Lock()
			x.flat++
			x.mu.Unlock()
			add("reparse", "flattened-application", what)
		} else {
			add("reparse", featureKey(src), what)
		}
	}
	return fs, nil
}

func runC25(c *core.Ctx) error {
	d, err := startDriver(c)
	if err != nil {
		return err
	}
	defer d.Close()
	tool, err := c.BuildRepoCmd("tl2gen")
	if err != nil {
		return err
	}
	x := &c25ctx{c: c, tool: tool}
	st := newStats("panic", "listing", "reparse")

	evalRaw := func(fd *drv, raw json.RawMessage) ([]finding, error) {
		var sc semCase
		if err := json.Unmarshal(raw, &sc); err != nil {
			return nil, err
		}
		return x.evalListing(fd, &sc)
	}
	if c.Replay != "" {
		raw, err := readReplay(c.Replay)
		if err != nil {
			return err
		}
		var p struct {
			Kind string          `json:"kind"`
			Case json.RawMessage `json:"case"`
		}
		if err := json.Unmarshal(raw, &p); err != nil {
			return err
		}
		if p.Kind != "listing" {
			return fmt.Errorf("replay kind %q is not handled by C25", p.Kind)
		}
		fs, err := evalRaw(d, p.Case)
		if err != nil {
			return err
		}
		for _, f := range fs {
			c.Violate(f.Key, f.What, p)
		}
		c.Add("states", 1)
		c.Add("transitions", 1)
		c.Add("traces_validated_against_impl", 1)
		return nil
	}

	handle := func(hd *drv, raws []json.RawMessage) error {
		for _, raw := range raws {
			fs, err := evalRaw(hd, raw)
			if err != nil {
				return err
			}
			c.Add("evaluations", 1)
			raw := raw
			report(c, hd, st, fs, map[string]any{"kind": "listing", "case": raw}, func(fd *drv) ([]finding, error) { return evalRaw(fd, raw) })
			if c.Get("evaluations")%211 == 0 {
				var sc semCase
				_ = json.Unmarshal(raw, &sc)
				c.Sample(map[string]any{"schema_tail": joinToks(sc.Toks[len(sc.Toks)*3/4:]), "specified_line": sc.Listing[len(sc.Listing)-1].Line})
			}
		}
		return nil
	}
	// the name domain of the listing rule (namespaced constructors / functions / type names, short names equal to a
	// primitive wrapper name) is enumerated by a dedicated small job
	names := deriveOpts(c.Pick(3, 4), 2, 0, true, []int{1})
	names.Consts["SEMNAMES"] = "TRUE"
	jobs := []mcJob{{"derived_accepted_schemas", deriveOpts(c.Pick(5, 7), 1, 0, true, []int{1})},
		{"derived_accepted_schemas_2", deriveOpts(c.Pick(4, 6), 2, 0, true, []int{1})},
		{"derived_names_of_the_listing_rule", names}}
	run := func(j mcJob) error {
		dj, err := d.fresh()
		if err != nil {
			return err
		}
		defer dj.Close()
		p, err := newPool(c, dj, 3, 8, handle)
		if err != nil {
			return err
		}
		j.opts.OnEmit = p.emit
		j.opts.Workers = workers(c)/2 + 1
		res, err := c.MustTLC(j.opts)
		perr := p.wait()
		if err != nil {
			return err
		}
		if perr != nil {
			return perr
		}
		c.Logf("%s: %d distinct states, %d schemas emitted, %v", j.label, res.Distinct, res.NEmits, res.Wall)
		c.Add("states", res.Distinct)
		c.Add("transitions", res.Generated)
		c.Add("cases_"+j.label, res.NEmits)
		return nil
	}
	errs := make(chan error, len(jobs)+1)
	for _, j := range jobs {
		j := j
		go func() { errs <- run(j) }()
	}
	go func() {
		d3, err := d.fresh()
		if err != nil {
			errs <- err
			return
		}
		defer d3.Close()
		errs <- listingRepo(c, d3, x, st)
	}()
	var first error
	for i := 0; i < len(jobs)+1; i++ {
		if err := <-errs; err != nil && first == nil {
			first = err
		}
	}
	if first != nil {
		return first
	}
	if err := selfTestC25(c, d, &c25ctx{c: c, tool: tool, allCLI: true}); err != nil {
		return err
	}
	c.Set("schemas_accepted_by_compiler", x.acc)
	c.Set("schemas_rejected_by_compiler", x.rej)
	c.Set("impl_accepted", x.acc)
	c.Set("impl_rejected", x.rej)
	c.Set("schemas_listed_by_the_real_CLI", int(x.ncli))
	c.Set("listed_combinators_with_namespace", x.nsNames)
	c.Set("listed_combinators_with_namespace_and_primitive_short_name", x.nsPrim)
	if x.nsPrim == 0 {
		return fmt.Errorf("vacuous: no accepted schema had a namespaced combinator whose short name is a primitive wrapper name")
	}
	c.Set("listing_lines_compared", x.lines)
	c.Set("lines_reparsed", x.repar)
	c.Set("lines_reparsed_equal_to_source", x.equal)
	c.Set("lines_reparsed_flattened_application_class", x.flat)
	c.Set("distinct_nontrivial", c.Get("states"))
	if x.acc < 50 || x.equal == 0 {
		return fmt.Errorf("vacuous: only %d derived schemas were accepted by the compiler (%d rejected), %d lines re-parsed equal", x.acc, x.rej, x.equal)
	}
	c.Set("rule", "TLC derives schemas (fixed prelude + 1..2 derived constructors/functions from compiler-safe pools; names a/b and, in a dedicated job, the name domain of the listing rule: namespaced constructors, functions and type names, namespaced names whose short name is int/long/float/double/string) of weight <= MaxW; each is listed by the canonical generator (every 10th schema and all repository schemas through the real CLI `tl2gen --language=canonical`, the others through the same options/kernel/generator code in the driver process; both must agree); the listing must equal the specified listing (5 header lines, one ListingLine per constructor/function in source order, effective tag = explicit tag or CRC32 of CanonText, modifiers ordered by flag, ` //  <file>`), and every line terminated with a line break and `;` must parse (TL1 parser) to ListingDenotes(combinator); repository schemas: listing lines validated by TLC (TraceTLSyntax)")
	c.Assume("schemas rejected by the compiler are outside the quantifier (accepted schemas) and only counted")
	c.Assume("a function line is re-parsed after a ---functions--- marker (the listing itself carries no sections); modifiers are compared in listing order")
	c.Assume("the header lines are fixed text of the tool (int, long, float, double, string) and combinators with these names are not listed again")
	return nil
}

// listingRepo: listings of the repository schemas; (AST, canonical text, listing line, tag) events are validated by TLC.
func listingRepo(c *core.Ctx, d *drv, x *c25ctx, st *stats) error {
	tls := filepath.Join(core.RepoDir, "internal/tlcodegen/test/tls")
	groups := [][]string{
		{filepath.Join(tls, "goldmaster.tl"), filepath.Join(tls, "goldmaster2.tl"), filepath.Join(tls, "goldmaster3.tl")},
		{filepath.Join(tls, "schema.tl")}, {filepath.Join(tls, "cases.tl")}, {filepath.Join(tls, "cpp.tl")},
		{filepath.Join(core.RepoDir, "pkg/rpc/rpc.tl")}, {filepath.Join(core.RepoDir, "cmd/tl2client/test.tl")},
		{filepath.Join(core.RepoDir, "internal/tlast/tls.tl")},
	}
	var events []string
	ngroups := 0
	for gi, g := range groups {
		dir := filepath.Join(c.Scratch, fmt.Sprintf("c25-repo-%d", gi))
		if err := os.MkdirAll(dir, 0o755); err != nil {
			return err
		}
		var names []string
		var combs []any
		var canon []string
		var files []string
		ok := true
		for fi, f := range g {
			b, err := os.ReadFile(f)
			if err != nil {
				ok = false
				break
			}
			name := fmt.Sprintf("f%d.tl", fi)
			if err := os.WriteFile(filepath.Join(dir, name), b, 0o644); err != nil {
				return err
			}
			names = append(names, name)
			rs, err := d.run("tl1", 1, []string{string(b)}, wants{ast: true, canon: true})
			if err != nil {
				return err
			}
			if !rs[0].OK {
				ok = false
				break
			}
			for i := range rs[0].Combs1 {
				combs = append(combs, rs[0].Combs1[i])
				canon = append(canon, rs[0].Canon[i])
				files = append(files, name)
			}
		}
		if !ok {
			continue
		}
		lines, accepted, out, err := x.runTool(dir, names...)
		if err != nil {
			return err
		}
		if !accepted {
			if strings.Contains(out, "panic:") {
				c.Violate("panic/repo-listing", "tl2gen --language=canonical panicked on "+strings.Join(g, " "), nil)
			}
			continue
		}
		ngroups++
		if len(lines) < 5 {
			c.Violate("listing/header", "listing of "+g[0]+" has fewer than 5 lines", nil)
			continue
		}
		k := 5
		for i, cm := range combs {
			m, _ := cm.(map[string]any)
			nm, _ := m["nm"].(string)
			ns, _ := m["ns"].(string)
			if ns == "" && (nm == "int" || nm == "long" || nm == "float" || nm == "double" || nm == "string") {
				continue
			}
			if k >= len(lines) {
				c.Violate("listing/count", fmt.Sprintf("listing of %s ends before combinator %d (%s)", g[0], i+1, nm), nil)
				break
			}
			line := lines[k]
			k++
			suffix := " //  " + files[i]
			if !strings.HasSuffix(line, suffix) {
				c.Violate("listing/line/file-comment", fmt.Sprintf("listing line %q does not end with %q", line, suffix), nil)
				continue
			}
			body := strings.TrimSuffix(line, suffix)
			tag := ""
			if j := strings.IndexByte(body, '#'); j >= 0 && len(body) >= j+9 {
				// first '#' followed by 8 hex digits after the (modifiers and) name
				for j >= 0 && !(len(body) >= j+9 && isHex8(body[j+1:j+9])) {
					n := strings.IndexByte(body[j+1:], '#')
					if n < 0 {
						j = -1
					} else {
						j += 1 + n
					}
				}
				if j >= 0 {
					tag = body[j+1 : j+9]
				}
			}
			if want := effectiveTag(cm, canon[i]); tag != want {
				c.Violate("listing/tag/"+featureKey([]any{cm}), fmt.Sprintf("listing line %q carries tag %q, the effective tag is %s", line, tag, want), nil)
				continue
			}
			ev, _ := json.Marshal(map[string]any{"ev": "comb", "text": files[i], "ast": cm, "canon": canon[i], "print": "", "crc": tag, "listing": body})
			events = append(events, string(ev))
			x.mu.Lock()
			x.lines++
			x.mu.Unlock()
		}
		if k != len(lines) {
			c.Violate("listing/count", fmt.Sprintf("listing of %s has %d lines for %d listed combinators", g[0], len(lines)-5, k-5), nil)
		}
	}
	c.Set("repository_schema_groups_listed", ngroups)
	if len(events) == 0 {
		return fmt.Errorf("vacuous: no repository schema was listed")
	}
	return validateTrace1(c, d, st, []byte(strings.Join(events, "\n")+"\n"), true)
}

func isHex8(s string) bool {
	if len(s) != 8 {
		return false
	}
	for i := 0; i < 8; i++ {
		if !(s[i] >= '0' && s[i] <= '9' || s[i] >= 'a' && s[i] <= 'f') {
			return false
		}
	}
	return true
}

// selfTestC25: corrupted expectations must be rejected by the comparator.
func selfTestC25(c *core.Ctx, d *drv, x *c25ctx) error {
	mk := func(line string, tag string) *semCase {
		var comb any
		_ = json.Unmarshal([]byte(`{"mods":[],"ns":"","nm":"a","tag":"`+tag+`","ta":[],"bi":false,"fs":[{"n":"x","m":[],"ex":false,"rep":[],"t":[{"b":false,"ns":"","nm":"int","as":[]}]}],"fn":false,"dns":"","dnm":"A","da":[],"res":[]}`), &comb)
		var intc any
		_ = json.Unmarshal([]byte(`{"mods":[],"ns":"","nm":"int","tag":"a8509bda","ta":[],"bi":true,"fs":[],"fn":false,"dns":"","dnm":"Int","da":[],"res":[]}`), &intc)
		den := comb
		sc := &semCase{Header: []string{"int#a8509bda ? = Int", "long#22076cba ? = Long", "float#824dab22 ? = Float", "double#2210c154 ? = Double", "string#b5286e24 ? = String"}}
		sc.Ast = []any{intc, comb}
		sc.Canon = []string{"int ? = Int", "a x:int = A"}
		sc.Toks = []tokPair{{"x", "int#a8509bda ? = Int;\na"}, {"x", map[bool]string{true: "", false: "#" + tag}[tag == ""]}, {"x", " x:int = A;\n"}}
		var d2 any
		b, _ := json.Marshal(den)
		_ = json.Unmarshal([]byte(strings.Replace(string(b), `"tag":"`+tag+`"`, `"tag":"@TAG@"`, 1)), &d2)
		sc.Listing = []listItem{{Listed: false}, {Listed: true, Line: line, Coded: line, Denotes: d2}}
		return sc
	}
	good := mk("a#@TAG@ x:int = A //  @FILE@", "")
	fs, err := x.evalListing(d, good)
	if err != nil {
		return err
	}
	if len(fs) != 0 {
		return fmt.Errorf("self-test: a correct listing expectation was rejected: %v", fs)
	}
	bad := mk("a#@TAG@ x:int  = A //  @FILE@", "") // double space
	fs, err = x.evalListing(d, bad)
	if err != nil {
		return err
	}
	if len(fs) == 0 {
		return fmt.Errorf("self-test: a corrupted expected listing line was not detected")
	}
	bad2 := mk("a#@TAG@ x:int = A //  @FILE@", "")
	bad2.Canon[1] = "a x:int  = A" // wrong canonical text => wrong expected tag
	fs, err = x.evalListing(d, bad2)
	if err != nil {
		return err
	}
	if len(fs) == 0 {
		return fmt.Errorf("self-test: a corrupted expected tag was not detected")
	}
	bad3 := mk("a#@TAG@ x:int = A //  @FILE@", "")
	m := bad3.Listing[1].Denotes.(map[string]any)
	m["dnm"] = "B" // wrong denotation
	fs, err = x.evalListing(d, bad3)
	if err != nil {
		return err
	}
	if len(fs) == 0 {
		return fmt.Errorf("self-test: a corrupted expected denotation of a line was not detected")
	}
	c.Set("selftest_corrupted_expectations_rejected", 3)
	return nil
}
