// Package syntax: concrete-syntax family — C19, C20 (parsers total, positions in
// range), C21 (TL1 printer round trip), C22 (TL2 formatter), C23 (implicit tags =
// CRC32 of the canonical form), C25 (canonical listing).  The oracle is
// spec/TLSyntax.tla and spec/TL2Syntax.tla; this package only joins lexemes,
// computes CRC32 (hash/crc32) and compares.
package syntax

import (
	"encoding/base64"
	"encoding/json"
	"fmt"
	"os"
	"path/filepath"
	"reflect"
	"regexp"
	"sort"
	"strconv"
	"strings"
	"sync"
	"time"

	"verif/core"
)

// ---------------------------------------------------------------------------
// driver

type posInfo struct {
	Off  int `json:"off"`
	Line int `json:"line"`
	Col  int `json:"col"`
	SLO  int `json:"slo"`
}

type errInfo struct {
	Msg          string  `json:"msg"`
	IsPE         bool    `json:"pe"`
	Begin        posInfo `json:"begin"`
	End          posInfo `json:"end"`
	Outer        posInfo `json:"outer"`
	SameContent  bool    `json:"same_content"`
	ConsolePanic string  `json:"console_panic"`
	ConsoleLen   int     `json:"console_len"`
	Corrupted    bool    `json:"corrupted"`
	MsgPanic     string  `json:"msg_panic"`
}

type tokInfo struct {
	K   int    `json:"k"`
	V   string `json:"v"`
	Off int    `json:"off"`
	N   int    `json:"n"`
	L   int    `json:"l"`
	C   int    `json:"c"`
}

type result struct {
	Panic      string    `json:"panic"`
	OK         bool      `json:"ok"`
	Err        *errInfo  `json:"err"`
	Combs1     []any     `json:"combs1"`
	Combs2     []any     `json:"combs2"`
	NCombs     int       `json:"ncombs"`
	Secs       []string  `json:"secs"`
	Crc        []string  `json:"crc"`
	Canon      []string  `json:"canon"`
	CanonTag   []string  `json:"canontag"`
	Print      string    `json:"print"`
	PrintC     string    `json:"printc"`
	PrintPanic string    `json:"print_panic"`
	Toks       []tokInfo `json:"toks"`
	Recombined bool      `json:"recombined"`
	LexErr     *errInfo  `json:"lexerr"`
}

type drv struct {
	c    *core.Ctx
	path string
	p    *core.Proc
}

var buildMu sync.Mutex

func driverOverlay() map[string]string {
	return map[string]string{
		"internal/verifx/syntax/main.go": core.DriverSrc("syntax/main.go"),
		"internal/tlast/verif_export.go": core.DriverSrc("syntax/verif_export.go"),
	}
}

// startDriver builds the driver from the working tree (once per check run) and starts it.
func startDriver(c *core.Ctx) (*drv, error) {
	buildMu.Lock()
	defer buildMu.Unlock()
	path := filepath.Join(c.Scratch, "syntaxdrv")
	if _, err := os.Stat(path); err != nil {
		if err := c.BuildInRepo("internal/verifx/syntax", driverOverlay(), path, false, false); err != nil {
			return nil, err
		}
	}
	p, err := core.StartProc(path, nil)
	if err != nil {
		return nil, err
	}
	p.Limit = 120 * time.Second
	return &drv{c: c, path: path, p: p}, nil
}

func (d *drv) fresh() (*drv, error) {
	p, err := core.StartProc(d.path, nil)
	if err != nil {
		return nil, err
	}
	p.Limit = 120 * time.Second
	return &drv{c: d.c, path: d.path, p: p}, nil
}

func (d *drv) Close() { d.p.Close() }

type wants struct{ ast, print, canon, lex bool }

// run sends the texts (base64: they may hold invalid UTF-8) in chunks.
func (d *drv) run(op string, lang int, texts []string, w wants) ([]result, error) {
	out := make([]result, 0, len(texts))
	const chunk = 400
	for i := 0; i < len(texts); i += chunk {
		j := i + chunk
		if j > len(texts) {
			j = len(texts)
		}
		enc := make([]string, j-i)
		for k, t := range texts[i:j] {
			enc[k] = base64.StdEncoding.EncodeToString([]byte(t))
		}
		var reply struct {
			Panic string   `json:"panic"`
			Res   []result `json:"res"`
		}
		req := map[string]any{"op": op, "lang": lang, "texts": enc, "b64": true, "ast": w.ast, "print": w.print, "canon": w.canon, "lex": w.lex}
		if err := d.p.Call(req, &reply); err != nil {
			return nil, fmt.Errorf("syntax driver: %v", err)
		}
		if reply.Panic != "" {
			return nil, fmt.Errorf("syntax driver failed outside the code under test: %s", reply.Panic)
		}
		if len(reply.Res) != j-i {
			return nil, fmt.Errorf("syntax driver returned %d results for %d texts", len(reply.Res), j-i)
		}
		out = append(out, reply.Res...)
	}
	return out, nil
}

// ---------------------------------------------------------------------------
// token kinds of internal/tlast/tllexer.go -> kind names of the specification

var goKind = map[int]string{
	-1: "sec_t", -2: "sec_f", -3: "tag", -4: "ann", -5: "#", -6: "num", -7: "cmt", -8: "undef",
	-9: "lc", -10: "uc", -11: "lcns", -12: "ucns", -13: "eof", -14: "=>", -15: "nl", -16: "<=>", -17: "dep", -18: "Type",
	' ': "SP", '\t': "TAB",
}

func kindName(k int) string {
	if s, ok := goKind[k]; ok {
		return s
	}
	if k > 32 && k < 127 {
		return string(rune(k))
	}
	return "?" + strconv.Itoa(k)
}

// bytes of a character class of the lexer model
func classBytes(c string) string {
	switch c {
	case "SP":
		return " "
	case "TAB":
		return "\t"
	case "LF":
		return "\n"
	case "CR":
		return "\r"
	case "BAD":
		return "\x80"
	case "U2":
		return "é"
	case "TYPES":
		return "---types---"
	case "FUNCS":
		return "---functions---"
	case "h7":
		return "0000000"
	case "g":
		return "q"
	case "T":
		return "Z"
	}
	return c
}

// ---------------------------------------------------------------------------
// positions: the rule of the specification (TLSyntax.Lex): line = 1 + number of
// line feeds before the offset, column = 1 + bytes since the last line feed; an
// error covers one token, so its end is on the same line as its begin.

func lineColOf(text string, off int) (line, col, slo int) {
	line = 1 + strings.Count(text[:off], "\n")
	slo = strings.LastIndexByte(text[:off], '\n') + 1
	return line, off - slo + 1, slo
}

func checkErrPos(text string, e *errInfo) string {
	if !e.IsPE {
		return "" // no position reported
	}
	if !e.SameContent {
		return "position refers to another text"
	}
	n := len(text)
	b, en := e.Begin, e.End
	if b.Off < 0 || b.Off > n || en.Off < b.Off || en.Off > n {
		return fmt.Sprintf("position out of range: begin %d end %d, text length %d", b.Off, en.Off, n)
	}
	l, c, slo := lineColOf(text, b.Off)
	if b.Line != l || b.Col != c || b.SLO != slo {
		return fmt.Sprintf("begin line/column %d:%d (line start %d) inconsistent with the text: offset %d is %d:%d (line start %d)", b.Line, b.Col, b.SLO, b.Off, l, c, slo)
	}
	if en.Line != b.Line || en.Col != b.Col+(en.Off-b.Off) || en.SLO != b.SLO {
		return fmt.Sprintf("end %d:%d inconsistent with begin %d:%d and the offsets %d..%d", en.Line, en.Col, b.Line, b.Col, b.Off, en.Off)
	}
	if e.Outer.Off < 0 || e.Outer.Off > b.Off {
		return fmt.Sprintf("outer position %d not in 0..begin(%d)", e.Outer.Off, b.Off)
	}
	if e.Outer.Line != 0 { // the outer position (start of the combinator) is also a position of the text
		ol, oc, oslo := lineColOf(text, e.Outer.Off)
		if e.Outer.Line != ol || e.Outer.Col != oc || e.Outer.SLO != oslo {
			return fmt.Sprintf("outer line/column %d:%d inconsistent with offset %d (%d:%d)", e.Outer.Line, e.Outer.Col, e.Outer.Off, ol, oc)
		}
	}
	return ""
}

// totality: what must hold for any input whatsoever
func checkTotal(text string, r *result) string {
	if r.Panic != "" {
		return "panic: " + r.Panic
	}
	if r.PrintPanic != "" {
		return "printing panicked: " + r.PrintPanic
	}
	if r.OK {
		if r.Err != nil {
			return "value and error returned together"
		}
		return ""
	}
	if r.Err == nil {
		return "neither a value nor an error"
	}
	if r.Err.MsgPanic != "" {
		return "Error() panicked: " + r.Err.MsgPanic
	}
	if r.Err.ConsolePanic != "" {
		return "ConsolePrint panicked: " + r.Err.ConsolePanic
	}
	if !r.Err.IsPE {
		return "error carries no position (not a ParseError)"
	}
	if s := checkErrPos(text, r.Err); s != "" {
		return s
	}
	if r.Err.Corrupted {
		return "ConsolePrint reported a corrupted error context for in-range positions"
	}
	return ""
}

// ---------------------------------------------------------------------------
// generic JSON helpers

func norm(v any) any {
	switch x := v.(type) {
	case nil:
		return []any{}
	case []any:
		for i := range x {
			x[i] = norm(x[i])
		}
		if x == nil {
			return []any{}
		}
		return x
	case map[string]any:
		for k := range x {
			x[k] = norm(x[k])
		}
		return x
	}
	return v
}

func sameJSON(a, b any) bool {
	ja, _ := json.Marshal(a)
	jb, _ := json.Marshal(b)
	var va, vb any
	_ = json.Unmarshal(ja, &va)
	_ = json.Unmarshal(jb, &vb)
	return reflect.DeepEqual(norm(va), norm(vb))
}

func short(v any, n int) string {
	b, _ := json.Marshal(v)
	if len(b) > n {
		return string(b[:n]) + "…"
	}
	return string(b)
}

func clip(s string, n int) string {
	if len(s) > n {
		return s[:n] + "…"
	}
	return s
}

type tokPair [2]string // kind, lexeme

func joinToks(ts []tokPair) string {
	var b strings.Builder
	for _, t := range ts {
		b.WriteString(t[1])
	}
	return b.String()
}

func setLit(xs []string) string {
	q := make([]string, len(xs))
	for i, x := range xs {
		q[i] = strconv.Quote(x)
	}
	return "{" + strings.Join(q, ", ") + "}"
}

// ---------------------------------------------------------------------------
// features of a TL1 combinator AST (used for violation keys: the key names the
// syntactic class of the failing input, not the input itself)

func walk(v any, f func(m map[string]any, path string), path string) {
	switch x := v.(type) {
	case []any:
		for _, e := range x {
			walk(e, f, path)
		}
	case map[string]any:
		f(x, path)
		for k, e := range x {
			walk(e, f, path+"/"+k)
		}
	}
}

func features1(comb any) []string {
	set := map[string]bool{}
	walk(comb, func(m map[string]any, path string) {
		inBody := strings.Contains(path, "/body")
		if b, ok := m["b"].(bool); ok && b {
			set["bare"] = true
		}
		if as, ok := m["as"].([]any); ok && len(as) > 0 {
			set["app"] = true
			if strings.Contains(path, "/as/t") {
				set["nested-app"] = true
			}
		}
		if ar, ok := m["ar"].([]any); ok && len(ar) > 0 {
			set["arith"] = true
			if len(ar) > 1 {
				set["arith-sum"] = true
				if inBody {
					set["arith-sum-in-body"] = true
				}
			}
		}
		if mk, ok := m["m"].([]any); ok && len(mk) > 0 {
			set["mask"] = true
			if inBody {
				set["mask-in-body"] = true
			}
		}
		if ex, ok := m["ex"].(bool); ok && ex {
			set["excl"] = true
		}
		if rp, ok := m["rep"].([]any); ok && len(rp) > 0 {
			set["repeat"] = true
			if inBody {
				set["nested-repeat"] = true
			}
		}
		if sk, ok := m["sk"].(string); ok && sk != "none" && sk != "" {
			set["scale-"+sk] = true
		}
		if sa, ok := m["sa"].([]any); ok && len(sa) > 1 {
			set["arith-sum"] = true
		}
		if _, ok := m["mods"]; ok { // combinator level
			if l, _ := m["mods"].([]any); len(l) > 0 {
				set["mods"] = true
			}
			if s, _ := m["ns"].(string); s != "" && path == "" {
				set["ns"] = true
			}
			if s, _ := m["tag"].(string); s != "" {
				set["tag"] = true
				if s == "00000000" {
					set["tag0"] = true
				}
			}
			if l, _ := m["ta"].([]any); len(l) > 0 {
				set["targs"] = true
			}
			if b, _ := m["bi"].(bool); b {
				set["builtin"] = true
			}
			if b, _ := m["fn"].(bool); b {
				set["fn"] = true
			}
		}
	}, "")
	var fs []string
	for k := range set {
		fs = append(fs, k)
	}
	sort.Strings(fs)
	return fs
}

func featureKey(combs []any) string {
	set := map[string]bool{}
	for _, c := range combs {
		for _, f := range features1(c) {
			set[f] = true
		}
	}
	var fs []string
	for k := range set {
		fs = append(fs, k)
	}
	sort.Strings(fs)
	if len(fs) == 0 {
		return "plain"
	}
	return strings.Join(fs, "+")
}

func hasFeature(combs []any, f string) bool {
	for _, c := range combs {
		for _, x := range features1(c) {
			if x == f {
				return true
			}
		}
	}
	return false
}

// ---------------------------------------------------------------------------
// TLC runs of the MC modules

type mcParams struct {
	Mode                string
	Lang                int
	MaxChars, FullChars int
	Chars, Chars2       []string
	MaxToks             int
	Prune               bool
	EmitEvery           int
	MaxW, MaxCombs      int
	MutW                int
	Sem                 bool
	TokSel              string
	Focus               bool
}

func boolTLA(b bool) string {
	if b {
		return "TRUE"
	}
	return "FALSE"
}

func (p mcParams) consts() map[string]string {
	if p.Lang == 0 {
		p.Lang = 1
	}
	if p.EmitEvery == 0 {
		p.EmitEvery = 1
	}
	if p.MaxCombs == 0 {
		p.MaxCombs = 1
	}
	if len(p.Chars) == 0 {
		p.Chars = []string{"a"}
	}
	if len(p.Chars2) == 0 {
		p.Chars2 = []string{"a"}
	}
	if p.TokSel == "" {
		p.TokSel = "full"
	}
	return map[string]string{
		"MODE": p.Mode, "LANG": strconv.Itoa(p.Lang), "MAXCHARS": strconv.Itoa(p.MaxChars), "FULLCHARS": strconv.Itoa(p.FullChars),
		"CHARS": setLit(p.Chars), "CHARS2": setLit(p.Chars2), "MAXTOKS": strconv.Itoa(p.MaxToks), "PRUNE": boolTLA(p.Prune),
		"EMITEVERY": strconv.Itoa(p.EmitEvery), "MAXW": strconv.Itoa(p.MaxW), "MAXCOMBS": strconv.Itoa(p.MaxCombs),
		"MUTW": strconv.Itoa(p.MutW), "SEM": boolTLA(p.Sem), "TOKSEL": p.TokSel, "FOCUS": boolTLA(p.Focus), "SEMNAMES": "FALSE",
	}
}

// pool runs consumers of emitted cases in parallel, each with its own driver process.
type pool struct {
	ch   chan json.RawMessage
	wg   sync.WaitGroup
	mu   sync.Mutex
	err  error
	stop bool
}

func newPool(c *core.Ctx, first *drv, workers int, batch int, handle func(d *drv, cases []json.RawMessage) error) (*pool, error) {
	p := &pool{ch: make(chan json.RawMessage, 4096)}
	for w := 0; w < workers; w++ {
		d := first
		if w > 0 {
			var err error
			if d, err = first.fresh(); err != nil {
				return nil, err
			}
		}
		p.wg.Add(1)
		go func(d *drv, own bool) {
			defer p.wg.Done()
			if own {
				defer d.Close()
			}
			var buf []json.RawMessage
			flush := func() {
				if len(buf) == 0 {
					return
				}
				p.mu.Lock()
				failed := p.err != nil
				p.mu.Unlock()
				if !failed {
					if err := handle(d, buf); err != nil {
						p.mu.Lock()
						if p.err == nil {
							p.err = err
						}
						p.mu.Unlock()
					}
				}
				buf = buf[:0]
			}
			for m := range p.ch {
				buf = append(buf, m)
				if len(buf) >= batch {
					flush()
				}
			}
			flush()
		}(d, w > 0)
	}
	return p, nil
}

func (p *pool) emit(m json.RawMessage) {
	cp := make(json.RawMessage, len(m))
	copy(cp, m)
	p.ch <- cp
}

func (p *pool) wait() error {
	close(p.ch)
	p.wg.Wait()
	return p.err
}

// confirm re-runs a failing case in a fresh driver process; only a reproduced
// mismatch is reported as a violation.
func confirm(c *core.Ctx, d *drv, key, what string, replay any, again func(fd *drv) (bool, error)) {
	if c.NViolations() >= 40 { // enough reproduced evidence; do not spend the time budget on more of the same
		c.Add("mismatches_not_confirmed_after_40", 1)
		return
	}
	fd, err := d.fresh()
	if err != nil {
		c.Logf("cannot start a fresh driver to confirm %s: %v", key, err)
		return
	}
	defer fd.Close()
	bad, err := again(fd)
	if err != nil {
		c.Logf("confirmation of %s failed to run: %v", key, err)
		return
	}
	if !bad {
		c.Logf("mismatch %s was not reproduced in a fresh process; not reported", key)
		c.Add("unreproduced_mismatches", 1)
		return
	}
	c.Violate(key, what, replay)
}

func workers(c *core.Ctx) int {
	if s := os.Getenv("VERIF_WORKERS"); s != "" {
		if n, err := strconv.Atoi(s); err == nil && n > 0 {
			return n
		}
	}
	return 8
}

// repository schema files
func repoFiles(ext string) ([]string, error) {
	var out []string
	err := filepath.Walk(core.RepoDir, func(path string, info os.FileInfo, err error) error {
		if err != nil {
			return nil
		}
		if info.IsDir() && (info.Name() == ".git" || info.Name() == "node_modules") {
			return filepath.SkipDir
		}
		if !info.IsDir() && strings.HasSuffix(path, ext) {
			out = append(out, path)
		}
		return nil
	})
	sort.Strings(out)
	return out, err
}

// readReplay returns the payload of a replay file written by core (c.Replay).
func readReplay(path string) (json.RawMessage, error) {
	b, err := os.ReadFile(path)
	if err != nil {
		return nil, err
	}
	var f struct {
		Replay json.RawMessage `json:"replay"`
	}
	if err := json.Unmarshal(b, &f); err != nil {
		return nil, err
	}
	if len(f.Replay) == 0 {
		return nil, fmt.Errorf("replay file %s has no payload", path)
	}
	return f.Replay, nil
}

var reTraceIdx = regexp.MustCompile(`(?m)^\s*(?:/\\ )?i = (\d+)`)

func atoi(s string) int {
	n, _ := strconv.Atoi(s)
	return n
}
