package syntax

import (
	"encoding/json"
	"fmt"
	"os"
	"sort"
	"strings"

	"verif/core"
)

func init() {
	core.Register("C20", "model_checking", runC20)
	core.Register("C22", "model_checking", runC22)
}

type laid2Case struct {
	Ph     string    `json:"ph"`
	W      int       `json:"w"`
	L      int       `json:"l"`
	Ast    []any     `json:"ast"`
	Toks   []tokPair `json:"toks"`
	Offs   []int     `json:"offs"`
	Fmt    string    `json:"fmt"`
	FmtC   string    `json:"fmtc"`
	NoBar  string    `json:"nobar"`  // classification only: one-variant union written without its bar
	NoBarC string    `json:"nobarc"` // ... with the canonical options
	Den    []any     `json:"den"`
	DenC   []any     `json:"denc"`
}

// features of a TL2 declaration AST
func features2(comb any) []string {
	set := map[string]bool{}
	walk(comb, func(m map[string]any, path string) {
		if b, ok := m["br"].(bool); ok && b {
			set["bracket"] = true
			if ix, _ := m["ix"].([]any); len(ix) > 0 {
				set["index"] = true
			}
		}
		if as, ok := m["as"].([]any); ok && len(as) > 0 {
			set["generic"] = true
		}
		if _, ok := m["opt"]; ok { // field
			if b, _ := m["opt"].(bool); b {
				set["optional"] = true
			}
			if b, _ := m["ign"].(bool); b {
				set["ignored"] = true
			}
			if s, _ := m["cr"].(string); s != "" {
				set["comment-right"] = true
			}
			if n, _ := m["n"].(string); len(n) > 20 {
				set["long-name"] = true
			}
		}
		if cb, ok := m["cb"].([]any); ok && len(cb) > 0 {
			set["comment"] = true
		}
		if _, ok := m["un"]; ok { // definition
			if b, _ := m["al"].(bool); b {
				set["alias"] = true
			}
			if b, _ := m["un"].(bool); b {
				set["union"] = true
				if vs, _ := m["vs"].([]any); len(vs) == 1 {
					set["single-variant-union"] = true
				}
			}
		}
		if _, ok := m["an"]; ok { // declaration
			if l, _ := m["an"].([]any); len(l) > 0 {
				set["annotation"] = true
			}
			if b, _ := m["fn"].(bool); b {
				set["fn"] = true
			}
			if l, _ := m["ta"].([]any); len(l) > 0 {
				set["targs"] = true
			}
			if s, _ := m["mg"].(string); s != "" {
				set["magic"] = true
			}
		}
	}, "")
	var fs []string
	for k := range set {
		fs = append(fs, k)
	}
	sort.Strings(fs)
	return fs
}

func featureKey2(combs []any) string {
	set := map[string]bool{}
	for _, c := range combs {
		for _, f := range features2(c) {
			set[f] = true
		}
	}
	var fs []string
	for k := range set {
		fs = append(fs, k)
	}
	sort.Strings(fs)
	if len(fs) == 0 {
		return "plain"
	}
	return strings.Join(fs, "+")
}

func hasFeature2(combs []any, f string) bool {
	for _, c := range combs {
		for _, x := range features2(c) {
			if x == f {
				return true
			}
		}
	}
	return false
}

// evalLaid2: r = parse(text); r2 = parse(r.Print); r3 = parse(r.PrintC)
func evalLaid2(lc *laid2Case, r, r2, r3 *result) []finding {
	var fs []finding
	text := joinToks(lc.Toks)
	fk := featureKey2(lc.Ast)
	single := hasFeature2(lc.Ast, "single-variant-union")
	add := func(aspect, key, what string) {
		fs = append(fs, finding{aspect, aspect + "/" + key, what + fmt.Sprintf(" (layout %d, text %q)", lc.L, clip(text, 400))})
	}
	if s := checkTotal(text, r); s != "" {
		add("total", fk, s)
		return fs
	}
	if !r.OK {
		add("rejected", fk, "derived sentence rejected: "+r.Err.Msg)
		return fs
	}
	if !sameJSON(r.Combs2, lc.Ast) {
		add("ast", fk, fmt.Sprintf("parsed AST differs from the derivation: got %s want %s", short(r.Combs2, 700), short(lc.Ast, 700)))
	}
	if len(r.Toks) != len(lc.Toks)+1 {
		add("lex", fk, fmt.Sprintf("lexer produced %d tokens for %d lexemes", len(r.Toks)-1, len(lc.Toks)))
	} else {
		for i, t := range lc.Toks {
			g := r.Toks[i]
			if g.V != t[1] || kindName(g.K) != t[0] || g.Off != lc.Offs[i] {
				add("lex", fk, fmt.Sprintf("token %d is %s %q at %d, specified %s %q at %d", i+1, kindName(g.K), g.V, g.Off, t[0], t[1], lc.Offs[i]))
				break
			}
		}
	}
	// formatter output = the specified text
	knownBar := false
	if r.Print != lc.Fmt {
		if single && r.Print == lc.NoBar {
			knownBar = true
			add("fmt", "single-variant-union", fmt.Sprintf("default format %q drops the vertical bar of a one-variant union, specified %q", r.Print, lc.Fmt))
		} else {
			add("fmt", fk, fmt.Sprintf("default format is %q, specified %q", r.Print, lc.Fmt))
		}
	}
	if r.PrintC != lc.FmtC {
		if single && r.PrintC == lc.NoBarC {
			knownBar = true
			add("fmt", "single-variant-union", fmt.Sprintf("canonical format %q drops the vertical bar of a one-variant union, specified %q", r.PrintC, lc.FmtC))
		} else {
			add("fmt", fk, fmt.Sprintf("canonical format is %q, specified %q", r.PrintC, lc.FmtC))
		}
	}
	// the formatted texts parse to the same declarations; formatting is idempotent
	second := func(name string, rr *result, src string, den []any, canonical bool) {
		if rr == nil {
			return
		}
		key := fk
		if s := checkTotal(src, rr); s != "" {
			add("total", fk, name+" text: "+s)
			return
		}
		if !rr.OK {
			add("reparse", key, fmt.Sprintf("%s text %q does not parse: %s", name, src, rr.Err.Msg))
			return
		}
		if !sameJSON(rr.Combs2, den) {
			add("reparse", key, fmt.Sprintf("%s text %q parses to %s, specified %s", name, src, short(rr.Combs2, 700), short(den, 700)))
		}
		again := rr.Print
		if canonical {
			again = rr.PrintC
		}
		if again != src {
			add("idempotence", key, fmt.Sprintf("formatting the %s text again gives %q, not %q", name, again, src))
		}
		if rr.PrintC != r.PrintC {
			add("idempotence", key, fmt.Sprintf("canonical format of the %s text is %q, of the source %q", name, rr.PrintC, r.PrintC))
		}
	}
	if !knownBar { // the consequences of the known deviation (text without the bar) are determined by it
		second("default-format", r2, r.Print, lc.Den, false)
		second("canonical-format", r3, r.PrintC, lc.DenC, true)
	}
	return fs
}

func evalLaid2Batch(d *drv, cases []laid2Case) ([][]finding, []result, error) {
	texts := make([]string, len(cases))
	for i := range cases {
		texts[i] = joinToks(cases[i].Toks)
	}
	rs, err := d.run("tl2", 2, texts, wants{ast: true, print: true, lex: true})
	if err != nil {
		return nil, nil, err
	}
	var t2 []string
	var idx []int
	for i := range rs {
		if rs[i].OK && rs[i].Panic == "" && rs[i].PrintPanic == "" {
			t2 = append(t2, rs[i].Print, rs[i].PrintC)
			idx = append(idx, i)
		}
	}
	r2, err := d.run("tl2", 2, t2, wants{ast: true, print: true})
	if err != nil {
		return nil, nil, err
	}
	out := make([][]finding, len(cases))
	k := 0
	for i := range cases {
		if k < len(idx) && idx[k] == i {
			out[i] = evalLaid2(&cases[i], &rs[i], &r2[2*k], &r2[2*k+1])
			k++
		} else {
			out[i] = evalLaid2(&cases[i], &rs[i], nil, nil)
		}
	}
	return out, rs, nil
}

// handleTL2 dispatches emitted cases of MC_TL2Syntax (and of MC_TLSyntax with Lang = 2).
func handleTL2(c *core.Ctx, st *stats) func(d *drv, raws []json.RawMessage) error {
	h1 := handleTL1(c, st, 2) // lex / tok / mut cases are language-independent in shape
	return func(d *drv, raws []json.RawMessage) error {
		var other []json.RawMessage
		var laid []laid2Case
		var laidRaw []json.RawMessage
		for _, raw := range raws {
			var ph struct {
				Ph string `json:"ph"`
			}
			if err := json.Unmarshal(raw, &ph); err != nil {
				return err
			}
			if ph.Ph == "laid" {
				var x laid2Case
				if err := json.Unmarshal(raw, &x); err != nil {
					return err
				}
				laid, laidRaw = append(laid, x), append(laidRaw, raw)
			} else {
				other = append(other, raw)
			}
		}
		if len(other) > 0 {
			if err := h1(d, other); err != nil {
				return err
			}
		}
		if len(laid) > 0 {
			fss, rs, err := evalLaid2Batch(d, laid)
			if err != nil {
				return err
			}
			for i := range laid {
				st.count("laid", &rs[i])
				c.Add("evaluations", 1)
				if hasFeature2(laid[i].Ast, "long-name") {
					st.countErr("threshold-straddling-name")
				}
				if len(fss[i]) > 0 {
					one := laid[i]
					report(c, d, st, fss[i], map[string]any{"kind": "laid2", "case": laidRaw[i]}, func(fd *drv) ([]finding, error) {
						f, _, err := evalLaid2Batch(fd, []laid2Case{one})
						if err != nil {
							return nil, err
						}
						return f[0], nil
					})
				}
				if c.Get("evaluations")%1499 == 0 {
					c.Sample(map[string]any{"text": joinToks(laid[i].Toks), "specified_default_format": laid[i].Fmt, "specified_canonical_format": laid[i].FmtC})
				}
			}
		}
		return nil
	}
}

func mc2Opts(p mcParams, layouts []int) core.TLCOpts {
	m := p.consts()
	ls := make([]string, len(layouts))
	for i, l := range layouts {
		ls[i] = fmt.Sprint(l)
	}
	m["LAYOUTS"] = "{" + strings.Join(ls, ", ") + "}"
	return core.TLCOpts{Module: "MC_TL2Syntax", Cfg: "MC_TL2Syntax.cfg", Timeout: 14 * 60e9, HeapMB: 6144, Consts: m}
}

func layouts2For(c *core.Ctx) []int {
	if c.Thorough() {
		return []int{1, 2, 3, 4, 5, 6}
	}
	k := int((c.Seed%5 + 5) % 5)
	return []int{1, 2 + k}
}

func replayTL2(c *core.Ctx, d *drv, st *stats) error {
	raw, err := readReplay(c.Replay)
	if err != nil {
		return err
	}
	var p struct {
		Kind string          `json:"kind"`
		Case json.RawMessage `json:"case"`
	}
	if err := json.Unmarshal(raw, &p); err != nil {
		return err
	}
	switch p.Kind {
	case "lex", "spaced", "laid2":
		c.Add("states", 1)
		c.Add("transitions", 1)
		c.Add("traces_validated_against_impl", 1)
		return handleTL2(c, st)(d, []json.RawMessage{p.Case})
	}
	return fmt.Errorf("replay kind %q is not handled by this check", p.Kind)
}

// ---------------------------------------------------------------------------
// C20

func runC20(c *core.Ctx) error {
	d, err := startDriver(c)
	if err != nil {
		return err
	}
	defer d.Close()
	st := newStats("panic", "total", "lex", "errpos", "accepted", "rejected")
	if c.Replay != "" {
		return replayTL2(c, d, st)
	}
	h := handleTL2(c, st)
	var jobs []mcJob
	if c.Thorough() {
		jobs = append(jobs, mcJob{"chars<=3_full", lexOpts(2, 3, 3, charsFull, charsFull)},
			mcJob{"chars<=4_reduced", lexOpts(2, 4, 3, charsReduced, charsTiny)},
			mcJob{"chars<=5_tiny", lexOpts(2, 5, 5, charsTiny, charsTiny)},
			mcJob{"tokens<=3_full", mc2Opts(mcParams{Mode: "tok", MaxToks: 3, TokSel: "full"}, []int{1})},
			mcJob{"tokens=4_core", mc2Opts(mcParams{Mode: "tok", MaxToks: 4, TokSel: "core", Prune: true, EmitEvery: 4}, []int{1})})
	} else {
		jobs = append(jobs, mcJob{"chars<=3_reduced", lexOpts(2, 3, 3, charsReduced, charsReduced)},
			mcJob{"tokens<=2_full", mc2Opts(mcParams{Mode: "tok", MaxToks: 2, TokSel: "full"}, []int{1})},
			mcJob{"tokens<=3_core", mc2Opts(mcParams{Mode: "tok", MaxToks: 3, TokSel: "core", Prune: true}, []int{1})})
	}
	jobs = append(jobs, mcJob{"derived+mutants", mc2Opts(mcParams{Mode: "derive", MaxW: c.Pick(3, 4), MaxCombs: 1, MutW: c.Pick(2, 3)}, layouts2For(c))},
		// a number in every position that takes one x all layouts x ALL single-token mutations (boundary numerals included)
		mcJob{"number_focus+mutants", mc2Opts(mcParams{Mode: "derive", MaxW: 0, MaxCombs: 1, MutW: 1, Focus: true}, []int{1, 2, 3, 4, 5, 6})})
	o := mc2Opts(mcParams{Mode: "tok", MaxToks: 40, TokSel: "full"}, []int{1})
	o.Simulate = fmt.Sprintf("num=%d", c.Pick(6, 60))
	o.Depth = 41
	o.Seed = c.Seed
	o.Workers = c.Pick(1, 4)
	jobs = append(jobs, mcJob{"soups", o})
	if err := runJobs(c, d, jobs, h); err != nil {
		return err
	}
	c.Add("traces_validated_against_impl", c.Pick(6, 240))
	if err := selfTestTL2(c, d); err != nil {
		return err
	}
	_ = finishStats(c, st)
	if st.accepted == 0 || st.rejected == 0 {
		return fmt.Errorf("vacuous: accepted=%d rejected=%d", st.accepted, st.rejected)
	}
	for _, cls := range []string{"lexer:lex", "lexer:illegal", "lexer:", "spaced:lex", "spaced:illegal", "spaced:parse"} {
		if st.byErr[cls] == 0 {
			return fmt.Errorf("vacuous: no case of specified class %q was exercised", cls)
		}
	}
	for _, ph := range []string{"laid", "mut:delete", "mut:dup", "mut:swap", "mut:trunc", "mut:replace", "mut:insert", "tok", "lex"} {
		if st.byPhase[ph] == 0 {
			return fmt.Errorf("vacuous: no case of phase %q", ph)
		}
	}
	c.Set("rule", "as C19 for TL2: TLC enumerates character-class strings of the lexer model (lang = 2: <=>, Type, _name, tokens illegal in TL2), token strings over the TL2 alphabet, derivations of TL2 declarations with layouts and all single-token mutations, seeded random walks; every case is replayed into tlast.ParseTL2File and compared with the specified tokens, error class and position; derived sentences must be accepted with the derivation's AST")
	c.Assume("character classes stand for one representative byte sequence each; the reduced alphabet keeps one member of every class handled by the same lexer branch")
	c.Assume("for an input that lexes cleanly the specification fixes the error position only up to 'exactly one token of the text' (TL2 errors may point at a blank token: the parser reads some tokens without skipping blanks)")
	c.Assume("modelled, not flagged: no blank is accepted between ':' and the category (# / Type) of a template argument declaration")
	return nil
}

func selfTestTL2(c *core.Ctx, d *drv) error {
	lc := lexCase{Ph: "lex", Cs: []string{"<", "=", ">", "_", "a"}, Lang: 2}
	lc.Lex = lexView{Toks: [][]any{{"<=>", 0.0, 3.0, 1.0, 1.0}, {"dep", 3.0, 5.0, 1.0, 4.0}, {"eof", 5.0, 5.0, 1.0, 6.0}}, Err: [][]int{}, Class: ""}
	fs, _, err := evalLexBatch(d, 2, []lexCase{lc})
	if err != nil {
		return err
	}
	if len(fs[0]) != 0 {
		return fmt.Errorf("self-test: a correct TL2 lexer expectation was rejected: %v", fs[0])
	}
	lc.Lex.Toks[1] = []any{"dep", 3.0, 4.0, 1.0, 4.0}
	fs, _, err = evalLexBatch(d, 2, []lexCase{lc})
	if err != nil {
		return err
	}
	if len(fs[0]) == 0 {
		return fmt.Errorf("self-test: a corrupted TL2 token boundary was not detected")
	}
	tc := tokCase{Ph: "tok", Toks: []tokPair{{"lc", "a"}, {"SP", " "}, {"%", "%"}}, Exp: expSpaced{Class: "illegal", B: 2, E: 3}}
	fs, _, err = evalSpacedBatch(d, "tl2", []tokCase{tc})
	if err != nil {
		return err
	}
	if len(fs[0]) != 0 {
		return fmt.Errorf("self-test: a correct TL2 token-string expectation was rejected: %v", fs[0])
	}
	tc.Exp.E = 4
	fs, _, err = evalSpacedBatch(d, "tl2", []tokCase{tc})
	if err != nil {
		return err
	}
	if len(fs[0]) == 0 {
		return fmt.Errorf("self-test: a corrupted expected error range was not detected")
	}
	c.Set("selftest_corrupted_expectations_rejected", 2)
	return nil
}

// ---------------------------------------------------------------------------
// C22

func runC22(c *core.Ctx) error {
	d, err := startDriver(c)
	if err != nil {
		return err
	}
	defer d.Close()
	st := newStats("panic", "total", "rejected", "ast", "fmt", "reparse", "idempotence")
	if c.Replay != "" {
		return replayTL2(c, d, st)
	}
	h := handleTL2(c, st)
	w := workers(c)/2 + 1
	errs := make(chan error, 3)
	go func() {
		o := mc2Opts(mcParams{Mode: "derive", MaxW: c.Pick(3, 5), MaxCombs: 1}, layouts2For(c))
		o.Workers = w
		_, err := runMC(c, d, "derived", o, h)
		errs <- err
	}()
	go func() {
		d2, err := d.fresh()
		if err != nil {
			errs <- err
			return
		}
		defer d2.Close()
		o := mc2Opts(mcParams{Mode: "derive", MaxW: c.Pick(3, 4), MaxCombs: 2}, layouts2For(c)[1:])
		o.Workers = w
		_, err = runMC(c, d2, "derived_2_declarations", o, h)
		errs <- err
	}()
	go func() {
		d3, err := d.fresh()
		if err != nil {
			errs <- err
			return
		}
		defer d3.Close()
		errs <- traceTL2(c, d3, st)
	}()
	var first error
	for i := 0; i < 3; i++ {
		if err := <-errs; err != nil && first == nil {
			first = err
		}
	}
	if first != nil {
		return first
	}
	if err := selfTestC22(c, d); err != nil {
		return err
	}
	_ = finishStats(c, st)
	if st.byPhase["laid"] == 0 || st.accepted == 0 {
		return fmt.Errorf("vacuous: no derived TL2 text was accepted")
	}
	if st.byErr["threshold-straddling-name"] == 0 {
		return fmt.Errorf("vacuous: no derivation with a name next to a line-breaking threshold was generated")
	}
	c.Set("cases_with_threshold_straddling_names", st.byErr["threshold-straddling-name"])
	c.Set("rule", "every TL2 derivation of weight <= MaxW (types, unions with/without leading bar, aliases, functions with the four result forms, optional/ignored/deprecated fields, []T, [n]T, [K]V, generics, annotations, comments before declarations/fields/variants and to the right of fields, names padded so that the one-line length is threshold-1..threshold+2 for the 120 and 80 column rules) x layouts: parse(Render) = ast; Print(default) and Print(canonical) = FFile of the specification; both texts parse to Denotes2(ast); formatting them again gives the same text; random and repository .tl2 files: recorded (AST, formatted texts) validated by TLC (TraceTL2Syntax) plus differential round trip")
	c.Assume("modelled, not flagged: the formatter writes '_' for every ignored field (a deprecated name _x is lost), drops comments to the right of fields and comments of function arguments, trims comment lines; comments are compared line by line after trimming")
	c.Assume("the thresholds 120/80 are parameters OneLine/UnionLine of the specification")
	return nil
}

func selfTestC22(c *core.Ctx, d *drv) error {
	var ast []any
	_ = json.Unmarshal([]byte(`[{"an":[],"ns":"","nm":"a","mg":"","fn":false,"ta":[],"def":[{"al":false,"t":[],"un":false,"fs":[{"n":"x","opt":false,"ign":false,"t":{"br":false,"ix":[],"el":[],"ns":"","nm":"int","as":[]},"cb":[],"cr":""}],"vs":[]}],"args":[],"ret":[],"cb":[]}]`), &ast)
	mk := func() laid2Case {
		return laid2Case{Ph: "laid", L: 1, Ast: ast, Toks: []tokPair{{"lc", "a"}, {"=", "="}, {"lc", "x"}, {":", ":"}, {"lc", "int"}, {";", ";"}}, Offs: []int{0, 1, 2, 3, 4, 7},
			Fmt: "a = x:int;\n", FmtC: "a = x:int;\n", NoBar: "a = x:int;\n", NoBarC: "a = x:int;\n", Den: ast, DenC: ast}
	}
	good := mk()
	fs, _, err := evalLaid2Batch(d, []laid2Case{good})
	if err != nil {
		return err
	}
	if len(fs[0]) != 0 {
		return fmt.Errorf("self-test: a correct formatter expectation was rejected: %v", fs[0])
	}
	bad := mk()
	bad.Fmt = "a = x:int ;\n"
	fs, _, err = evalLaid2Batch(d, []laid2Case{bad})
	if err != nil {
		return err
	}
	if len(fs[0]) == 0 {
		return fmt.Errorf("self-test: a corrupted expected format was not detected")
	}
	bad = mk()
	var den []any
	_ = json.Unmarshal([]byte(strings.Replace(short(ast, 1<<20), `"nm":"int"`, `"nm":"long"`, 1)), &den)
	bad.Den = den
	fs, _, err = evalLaid2Batch(d, []laid2Case{bad})
	if err != nil {
		return err
	}
	if len(fs[0]) == 0 {
		return fmt.Errorf("self-test: a corrupted expected denotation was not detected")
	}
	c.Set("selftest_corrupted_expectations_rejected", 2)
	return nil
}

// ---------------------------------------------------------------------------
// code -> spec (TL2): random declarations and repository files

func traceTL2(c *core.Ctx, d *drv, st *stats) error {
	tr := c.Scratch + "/tl2-trace.ndjson"
	var reply map[string]any
	n := c.Pick(1500, 30000)
	if err := d.p.Call(map[string]any{"op": "randtrace2", "count": n, "seed": c.Seed, "out": tr}, &reply); err != nil {
		return err
	}
	if p, ok := reply["panic"]; ok {
		c.Violate("trace/panic-while-recording", fmt.Sprintf("real TL2 parser/formatter panicked on a generated declaration: %v", p), map[string]any{"kind": "randtrace2", "seed": c.Seed, "count": n})
		return nil
	}
	tb, err := os.ReadFile(tr)
	if err != nil {
		return err
	}
	lines := strings.Split(strings.TrimSpace(string(tb)), "\n")
	// every recorded event also goes through the differential round trip
	files, err := repoFiles(".tl2")
	if err != nil {
		return err
	}
	nrepo := 0
	for _, f := range files {
		b, err := os.ReadFile(f)
		if err != nil {
			return err
		}
		evs, fs, err := repoEvents2(d, f, string(b))
		if err != nil {
			return err
		}
		for _, f := range fs {
			if st.aspects[f.Aspect] {
				c.Violate(f.Key, f.What, map[string]any{"kind": "repo-file"})
			}
		}
		lines = append(lines, evs...)
		nrepo += len(evs)
	}
	c.Set("repository_tl2_files", len(files))
	c.Set("repository_declarations_validated", nrepo)
	// differential round trip of the generated texts (idempotence / same declarations on real texts)
	var texts []string
	for _, l := range lines {
		var e struct {
			Ev   string `json:"ev"`
			Text string `json:"text"`
		}
		_ = json.Unmarshal([]byte(l), &e)
		if e.Ev == "comb" && e.Text != "" {
			texts = append(texts, e.Text)
		}
	}
	if err := roundTrip2(c, d, st, texts); err != nil {
		return err
	}
	return validateTrace2(c, st, lines)
}

func repoEvents2(d *drv, name, text string) ([]string, []finding, error) {
	base := name[strings.LastIndex(name, "/")+1:]
	rs, err := d.run("tl2", 2, []string{text}, wants{ast: true, print: true})
	if err != nil {
		return nil, nil, err
	}
	r := rs[0]
	if s := checkTotal(text, &r); s != "" {
		return nil, []finding{{"total", "total/repo-file/" + base, name + ": " + s}}, nil
	}
	if !r.OK {
		return nil, nil, nil
	}
	fs := roundTripFindings(d, base, text, &r)
	// one event for the whole file: FFile
	ev, _ := json.Marshal(map[string]any{"ev": "file", "text": "", "asts": r.Combs2, "fmt": r.Print, "fmtc": r.PrintC, "name": base})
	return []string{string(ev)}, fs, nil
}

func roundTripFindings(d *drv, label, text string, r *result) []finding {
	var fs []finding
	rs, err := d.run("tl2", 2, []string{r.Print, r.PrintC}, wants{ast: true, print: true})
	if err != nil {
		return []finding{{"total", "total/driver", err.Error()}}
	}
	fk := featureKey2(r.Combs2)
	single := hasFeature2(r.Combs2, "single-variant-union")
	for k, rr := range rs {
		name, src := "default-format", r.Print
		if k == 1 {
			name, src = "canonical-format", r.PrintC
		}
		key := fk
		switch {
		case rr.Panic != "":
			fs = append(fs, finding{"total", "total/" + fk, fmt.Sprintf("%s: parsing the %s text panicked: %s", label, name, rr.Panic)})
		case !rr.OK:
			if single && strings.Contains(rr.Err.Msg, "union with one constructor") {
				fs = append(fs, finding{"fmt", "fmt/single-variant-union", fmt.Sprintf("%s: %s text %q lost the vertical bar of a one-variant union and does not parse: %s (source %q)", label, name, clip(src, 300), rr.Err.Msg, clip(text, 300))})
			} else {
				fs = append(fs, finding{"reparse", "reparse/" + key, fmt.Sprintf("%s: %s text %q does not parse: %s (source %q)", label, name, clip(src, 300), rr.Err.Msg, clip(text, 300))})
			}
		default:
			if !sameJSON(normDecls(rr.Combs2, true), normDecls(r.Combs2, true)) {
				if single {
					fs = append(fs, finding{"fmt", "fmt/single-variant-union", fmt.Sprintf("%s: %s text %q lost the vertical bar of a one-variant union and parses to different declarations (source %q)", label, name, clip(src, 300), clip(text, 300))})
				} else {
					fs = append(fs, finding{"reparse", "reparse/" + key, fmt.Sprintf("%s: %s text %q parses to different declarations than the source %q", label, name, clip(src, 300), clip(text, 300))})
				}
			}
			again := rr.Print
			if k == 1 {
				again = rr.PrintC
			}
			if again != src {
				fs = append(fs, finding{"idempotence", "idempotence/" + key, fmt.Sprintf("%s: formatting the %s text %q again gives %q", label, name, clip(src, 300), clip(again, 300))})
			}
		}
	}
	return fs
}

// normDecls: the comparison "same declarations" on real texts: comments and names of ignored fields aside.
func normDecls(combs []any, dropComments bool) any {
	b, _ := json.Marshal(combs)
	var cp any
	_ = json.Unmarshal(b, &cp)
	walk(cp, func(m map[string]any, path string) {
		if _, ok := m["cb"]; ok && dropComments {
			m["cb"] = []any{}
		}
		if _, ok := m["cr"]; ok {
			m["cr"] = ""
		}
		if ign, _ := m["ign"].(bool); ign {
			m["n"] = "_"
		}
	}, "")
	return cp
}

func roundTrip2(c *core.Ctx, d *drv, st *stats, texts []string) error {
	rs, err := d.run("tl2", 2, texts, wants{ast: true, print: true})
	if err != nil {
		return err
	}
	n := 0
	for i := range rs {
		if !rs[i].OK {
			continue
		}
		n++
		for _, f := range roundTripFindings(d, "generated declaration", texts[i], &rs[i]) {
			if !st.aspects[f.Aspect] {
				continue
			}
			st.mu.Lock()
			dup := st.reported[f.Key]
			st.reported[f.Key] = true
			st.mu.Unlock()
			if !dup {
				c.Violate(f.Key, f.What, map[string]any{"kind": "text2", "text": texts[i]})
			}
		}
	}
	c.Set("generated_texts_round_tripped", n)
	return nil
}

func trace2Cfg(bar bool) string {
	return "CONSTANTS\n  LowerNames = {}\n  LongNamesLower = FALSE\n  OneLine = 120\n  UnionLine = 80\n  Bar = " + boolTLA(bar) + "\nINIT Init\nNEXT Next\nINVARIANT EventOK\nCHECK_DEADLOCK FALSE\n"
}

func validateTrace2(c *core.Ctx, st *stats, lines []string) error {
	var plain, single []string
	ncomb := 0
	for _, l := range lines {
		var e map[string]any
		if err := json.Unmarshal([]byte(l), &e); err != nil {
			return fmt.Errorf("bad trace line: %v", err)
		}
		if nb, err := json.Marshal(norm(e)); err == nil { // no JSON null reaches TLC
			l = string(nb)
		}
		if e["ev"] == "file" { // a repository file: one event per declaration is not available, validate the file text
			asts, _ := e["asts"].([]any)
			if hasFeature2(asts, "single-variant-union") {
				single = append(single, l)
			} else {
				plain = append(plain, l)
			}
			ncomb++
			continue
		}
		if e["ev"] != "comb" {
			plain = append(plain, l)
			continue
		}
		ncomb++
		if hasFeature2([]any{e["ast"]}, "single-variant-union") {
			single = append(single, l)
		} else {
			plain = append(plain, l)
		}
	}
	if ncomb == 0 {
		return fmt.Errorf("vacuous: no accepted declaration was recorded")
	}
	violate := func(key, ev string) {
		c.Violate(key, "recorded formatter output is not a behaviour of the TL2Syntax specification (FComb of the recorded AST differs): "+clip(ev, 900), map[string]any{"kind": "trace-event2", "event": json.RawMessage(ev)})
	}
	evKey := func(ev string) string {
		var e map[string]any
		_ = json.Unmarshal([]byte(ev), &e)
		if a, ok := e["asts"].([]any); ok {
			return "trace/" + featureKey2(a)
		}
		return "trace/" + featureKey2([]any{e["ast"]})
	}
	validated := 0
	rest := plain
	for round := 0; ; round++ {
		idx, r, err := tlcTrace(c, "TraceTL2Syntax", trace2Cfg(true), rest)
		if err != nil {
			return err
		}
		if idx < 0 {
			validated += len(rest)
			c.Add("states", r.Distinct)
			break
		}
		violate(evKey(rest[idx]), rest[idx])
		rest = append(append([]string{}, rest[:idx]...), rest[idx+1:]...)
		if round >= 4 {
			break
		}
	}
	if len(single) > 0 {
		idx, r, err := tlcTrace(c, "TraceTL2Syntax", trace2Cfg(true), single)
		if err != nil {
			return err
		}
		if idx < 0 {
			validated += len(single)
			c.Add("states", r.Distinct)
		} else {
			first := single[idx]
			idx2, _, err := tlcTrace(c, "TraceTL2Syntax", trace2Cfg(false), single)
			if err != nil {
				return err
			}
			if idx2 < 0 {
				violate("fmt/single-variant-union", first)
			} else {
				violate(evKey(single[idx2]), single[idx2])
			}
		}
		c.Set("trace_events_with_one_variant_union", len(single))
	}
	c.Add("traces_validated_against_impl", 1)
	c.Add("trace_events_validated", validated)
	c.Sample(map[string]any{"trace_event": json.RawMessage(lines[len(lines)/3])})
	// binding self-test
	for i, l := range plain {
		var e map[string]any
		_ = json.Unmarshal([]byte(l), &e)
		if e["ev"] != "comb" {
			continue
		}
		s, _ := e["fmt"].(string)
		e["fmt"] = strings.Replace(s, ";", " ;", 1)
		b, _ := json.Marshal(e)
		lo, hi := i-10, i+10
		if lo < 0 {
			lo = 0
		}
		if hi > len(plain) {
			hi = len(plain)
		}
		cp := append([]string{}, plain[lo:hi]...)
		cp[i-lo] = string(b)
		idx, _, err := tlcTrace(c, "TraceTL2Syntax", trace2Cfg(true), cp)
		if err != nil {
			return err
		}
		if idx != i-lo {
			return fmt.Errorf("binding self-test failed: a corrupted fmt field was not rejected by TraceTL2Syntax (rejected %d, corrupted %d)", idx, i-lo)
		}
		c.Set("selftest_corrupted_trace_rejected", true)
		break
	}
	return nil
}
