package syntax

import (
	"encoding/json"
	"fmt"
	"os"
	"sort"
	"strings"
	"sync"
	"sync/atomic"
	"time"

	"verif/core"
)

func init() {
	core.Register("C19", "model_checking", runC19)
	core.Register("C21", "model_checking", runC21)
	core.Register("C23", "model_checking", runC23)
}

// character classes of the lexer model: the reduced alphabet keeps one member of
// every class of characters that the lexer handles by the same branch.
var (
	charsFull = []string{"a", "g", "T", "Type", "0", "h7", "_", "(", ")", "[", "]", "{", "}", ">", ".", "+", "*", "!", ":", ";", "SP", "TAB", "?", "%", ",", "|",
		"CR", "LF", "=", "<", "@", "/", "-", "#", "$", "U2", "BAD", "TYPES", "FUNCS"}
	charsReduced = []string{"a", "g", "T", "Type", "0", "h7", "_", "(", ".", "*", "|", "SP", "LF", "CR", "=", "<", ">", "@", "/", "-", "#", "$", "U2", "BAD", "TYPES"}
	charsTiny    = []string{"a", "T", "0", ".", "/", "LF", "CR", "=", ">", "#", "BAD", "U2", "_", "-"}
)

// stats shared by the evaluators of one check run
type stats struct {
	mu       sync.Mutex
	accepted int
	rejected int
	byPhase  map[string]int
	byErr    map[string]int
	aspects  map[string]bool // aspects this check decides
	reported map[string]bool // violation keys already handled (a class is confirmed and reported once)
}

func newStats(aspects ...string) *stats {
	s := &stats{byPhase: map[string]int{}, byErr: map[string]int{}, aspects: map[string]bool{}, reported: map[string]bool{}}
	for _, a := range aspects {
		s.aspects[a] = true
	}
	return s
}

func (s *stats) count(phase string, r *result) {
	s.mu.Lock()
	defer s.mu.Unlock()
	s.byPhase[phase]++
	if r.OK {
		s.accepted++
	} else {
		s.rejected++
	}
}

func (s *stats) countErr(class string) {
	s.mu.Lock()
	s.byErr[class]++
	s.mu.Unlock()
}

// report files the findings that belong to this check; each is confirmed in a fresh driver first.
func report(c *core.Ctx, d *drv, st *stats, fs []finding, replay map[string]any, again func(fd *drv) ([]finding, error)) {
	for _, f := range fs {
		if !st.aspects[f.Aspect] {
			continue
		}
		st.mu.Lock()
		dup := st.reported[f.Key]
		st.reported[f.Key] = true
		st.mu.Unlock()
		if dup {
			continue
		}
		f := f
		confirm(c, d, f.Key, f.What, replay, func(fd *drv) (bool, error) {
			fs2, err := again(fd)
			if err != nil {
				return false, err
			}
			for _, g := range fs2 {
				if g.Key == f.Key {
					return true, nil
				}
			}
			return false, nil
		})
	}
}

// ---------------------------------------------------------------------------
// evaluation of batches of emitted cases (TL1)

func evalLexBatch(d *drv, lang int, cases []lexCase) ([][]finding, []result, error) {
	texts := make([]string, len(cases))
	for i := range cases {
		texts[i] = cases[i].text()
	}
	lexed, err := d.run("lex", lang, texts, wants{})
	if err != nil {
		return nil, nil, err
	}
	op := "tl1"
	if lang == 2 {
		op = "tl2"
	}
	parsed, err := d.run(op, lang, texts, wants{print: true})
	if err != nil {
		return nil, nil, err
	}
	out := make([][]finding, len(cases))
	for i := range cases {
		out[i] = evalLex(&cases[i], &lexed[i], &parsed[i])
	}
	return out, parsed, nil
}

func evalSpacedBatch(d *drv, op string, cases []tokCase) ([][]finding, []result, error) {
	texts := make([]string, len(cases))
	for i := range cases {
		texts[i] = joinToks(cases[i].Toks)
	}
	rs, err := d.run(op, 0, texts, wants{print: true})
	if err != nil {
		return nil, nil, err
	}
	out := make([][]finding, len(cases))
	for i := range cases {
		out[i] = evalSpaced(&cases[i], &rs[i])
	}
	return out, rs, nil
}

func evalLaidBatch(d *drv, cases []laidCase) ([][]finding, []result, error) {
	texts := make([]string, len(cases))
	for i := range cases {
		texts[i] = joinToks(cases[i].Toks)
	}
	rs, err := d.run("tl1", 1, texts, wants{ast: true, print: true, canon: true, lex: true})
	if err != nil {
		return nil, nil, err
	}
	var t2 []string
	var idx []int
	for i := range rs {
		if rs[i].OK && rs[i].Panic == "" && rs[i].PrintPanic == "" {
			t2 = append(t2, rs[i].Print)
			idx = append(idx, i)
		}
	}
	r2, err := d.run("tl1", 1, t2, wants{ast: true, print: true})
	if err != nil {
		return nil, nil, err
	}
	second := make([]*result, len(cases))
	for k, i := range idx {
		second[i] = &r2[k]
	}
	out := make([][]finding, len(cases))
	for i := range cases {
		out[i] = evalLaid(&cases[i], &rs[i], second[i])
	}
	return out, rs, nil
}

// handleTL1 dispatches a batch of emitted MC cases of any phase.
func handleTL1(c *core.Ctx, st *stats, lang int) func(d *drv, raws []json.RawMessage) error {
	return func(d *drv, raws []json.RawMessage) error {
		var lex []lexCase
		var lexRaw []json.RawMessage
		var spaced []tokCase
		var spRaw []json.RawMessage
		var laid []laidCase
		var laidRaw []json.RawMessage
		for _, raw := range raws {
			var ph struct {
				Ph string `json:"ph"`
			}
			if err := json.Unmarshal(raw, &ph); err != nil {
				return fmt.Errorf("bad emitted case: %v", err)
			}
			switch ph.Ph {
			case "lex":
				var x lexCase
				if err := json.Unmarshal(raw, &x); err != nil {
					return err
				}
				lex, lexRaw = append(lex, x), append(lexRaw, raw)
			case "tok", "mut":
				var x tokCase
				if err := json.Unmarshal(raw, &x); err != nil {
					return err
				}
				spaced, spRaw = append(spaced, x), append(spRaw, raw)
			case "laid":
				var x laidCase
				if err := json.Unmarshal(raw, &x); err != nil {
					return err
				}
				laid, laidRaw = append(laid, x), append(laidRaw, raw)
			default:
				return fmt.Errorf("unexpected phase %q in emitted case", ph.Ph)
			}
		}
		if len(lex) > 0 {
			fss, rs, err := evalLexBatch(d, lang, lex)
			if err != nil {
				return err
			}
			for i := range lex {
				st.count("lex", &rs[i])
				st.countErr("lexer:" + lex[i].Lex.Class)
				c.Add("evaluations", 1)
				if len(fss[i]) > 0 {
					one := lex[i]
					report(c, d, st, fss[i], map[string]any{"kind": "lex", "lang": lang, "case": lexRaw[i]}, func(fd *drv) ([]finding, error) {
						f, _, err := evalLexBatch(fd, lang, []lexCase{one})
						if err != nil {
							return nil, err
						}
						return f[0], nil
					})
				}
				if c.Get("evaluations")%3001 == 0 {
					c.Sample(map[string]any{"chars": lex[i].Cs, "specified": lex[i].Lex, "parser_ok": rs[i].OK})
				}
			}
		}
		if len(spaced) > 0 {
			op := "tl1"
			if lang == 2 {
				op = "tl2"
			}
			fss, rs, err := evalSpacedBatch(d, op, spaced)
			if err != nil {
				return err
			}
			for i := range spaced {
				ph := spaced[i].Ph
				if ph == "mut" {
					ph = "mut:" + spaced[i].How
				}
				st.count(ph, &rs[i])
				st.countErr("spaced:" + spaced[i].Exp.Class)
				c.Add("evaluations", 1)
				if len(fss[i]) > 0 {
					one := spaced[i]
					report(c, d, st, fss[i], map[string]any{"kind": "spaced", "lang": lang, "case": spRaw[i]}, func(fd *drv) ([]finding, error) {
						f, _, err := evalSpacedBatch(fd, op, []tokCase{one})
						if err != nil {
							return nil, err
						}
						return f[0], nil
					})
				}
				if c.Get("evaluations")%7919 == 0 {
					c.Sample(map[string]any{"text": joinToks(spaced[i].Toks), "specified": spaced[i].Exp, "accepted": rs[i].OK})
				}
			}
		}
		if len(laid) > 0 {
			fss, rs, err := evalLaidBatch(d, laid)
			if err != nil {
				return err
			}
			for i := range laid {
				st.count("laid", &rs[i])
				c.Add("evaluations", 1)
				if len(fss[i]) > 0 {
					one := laid[i]
					report(c, d, st, fss[i], map[string]any{"kind": "laid", "case": laidRaw[i]}, func(fd *drv) ([]finding, error) {
						f, _, err := evalLaidBatch(fd, []laidCase{one})
						if err != nil {
							return nil, err
						}
						return f[0], nil
					})
				}
				if c.Get("evaluations")%1499 == 0 {
					c.Sample(map[string]any{"text": joinToks(laid[i].Toks), "canonical": laid[i].Canon, "printed": laid[i].Print, "tags": rs[i].Crc})
				}
			}
		}
		return nil
	}
}

// runMC runs one TLC enumeration and feeds the emitted cases to a pool of drivers.
func runMC(c *core.Ctx, d *drv, label string, o core.TLCOpts, handle func(d *drv, raws []json.RawMessage) error) (*core.TLCResult, error) {
	var busy int64
	timed := func(d *drv, raws []json.RawMessage) error {
		t := time.Now()
		err := handle(d, raws)
		atomic.AddInt64(&busy, int64(time.Since(t)))
		return err
	}
	p, err := newPool(c, d, 3, 200, timed)
	if err != nil {
		return nil, err
	}
	o.OnEmit = p.emit
	if o.Workers == 0 {
		o.Workers = workers(c)
	}
	t0 := time.Now()
	res, err := c.MustTLC(o)
	perr := p.wait()
	if err != nil {
		return res, err
	}
	if perr != nil {
		return res, perr
	}
	c.Logf("%s: %d distinct states, %d generated, %d cases emitted, %.1fs (TLC %.1fs, replay busy %.1fs over 3 drivers)", label, res.Distinct, res.Generated, res.NEmits, time.Since(t0).Seconds(), res.Wall.Seconds(), time.Duration(atomic.LoadInt64(&busy)).Seconds())
	c.Add("states", res.Distinct)
	c.Add("transitions", res.Generated)
	c.Add("cases_"+label, res.NEmits)
	if res.NEmits == 0 {
		return res, fmt.Errorf("%s: TLC emitted no case", label)
	}
	return res, nil
}

type mcJob struct {
	label string
	opts  core.TLCOpts
}

// runJobs runs independent TLC enumerations side by side (3 at a time), each with its own drivers.
func runJobs(c *core.Ctx, d *drv, jobs []mcJob, h func(d *drv, raws []json.RawMessage) error) error {
	sem := make(chan struct{}, 3)
	errs := make(chan error, len(jobs))
	for _, j := range jobs {
		j := j
		go func() {
			sem <- struct{}{}
			defer func() { <-sem }()
			dj, err := d.fresh()
			if err != nil {
				errs <- err
				return
			}
			defer dj.Close()
			if j.opts.Workers == 0 {
				j.opts.Workers = workers(c)/2 + 1
			}
			_, err = runMC(c, dj, j.label, j.opts, h)
			errs <- err
		}()
	}
	var first error
	for range jobs {
		if err := <-errs; err != nil && first == nil {
			first = err
		}
	}
	return first
}

func lexOpts(lang, maxChars, fullChars int, chars, chars2 []string) core.TLCOpts {
	return core.TLCOpts{Module: "MC_TLSyntax", Cfg: "MC_TLSyntax.cfg", Timeout: 12 * time.Minute,
		Consts: (mcParams{Mode: "lex", Lang: lang, MaxChars: maxChars, FullChars: fullChars, Chars: chars, Chars2: chars2}).consts()}
}

func tokOpts(maxToks int, coreOnly bool, prune bool, emitEvery int) core.TLCOpts {
	sel := "full"
	if coreOnly {
		sel = "core"
	}
	return core.TLCOpts{Module: "MC_TLSyntax", Cfg: "MC_TLSyntax.cfg", Timeout: 12 * time.Minute,
		Consts: (mcParams{Mode: "tok", MaxToks: maxToks, TokSel: sel, Prune: prune, EmitEvery: emitEvery}).consts()}
}

func deriveOpts(maxW, maxCombs, mutW int, sem bool, layouts []int) core.TLCOpts {
	m := (mcParams{MaxW: maxW, MaxCombs: maxCombs, MutW: mutW, Sem: sem}).consts()
	ls := make([]string, len(layouts))
	for i, l := range layouts {
		ls[i] = fmt.Sprint(l)
	}
	m["LAYOUTS"] = "{" + strings.Join(ls, ", ") + "}"
	return core.TLCOpts{Module: "MC_TLDerive", Cfg: "MC_TLDerive.cfg", Timeout: 14 * time.Minute, HeapMB: 6144, Consts: m}
}

const nLayouts = 10

// focusOpts: the arithmetic-focus enumeration: every position of the grammar that takes arithmetic x all layouts
// (incl. the parenthesised operand spellings) x ALL single-token mutations and operand edits.
func focusOpts() core.TLCOpts {
	o := deriveOpts(0, 1, 1, false, []int{1, 2, 3, 4, 5, 6, 7, 8, 9, 10})
	o.Consts["FOCUS"] = "TRUE"
	return o
}

// layoutsFor: the thorough tier applies all layouts; the quick tier the plain one and one chosen by the seed
// (seeds 1..9 together cover all of them).
func layoutsFor(c *core.Ctx) []int {
	if c.Thorough() {
		return []int{1, 2, 3, 4, 5, 6, 7, 8, 9, 10}
	}
	k := int((c.Seed%9 + 9) % 9)
	return []int{1, 2 + k}
}

// replayTL1 re-evaluates the case stored in a replay file.
func replayTL1(c *core.Ctx, d *drv, st *stats) error {
	raw, err := readReplay(c.Replay)
	if err != nil {
		return err
	}
	var p struct {
		Kind string          `json:"kind"`
		Lang int             `json:"lang"`
		Case json.RawMessage `json:"case"`
	}
	if err := json.Unmarshal(raw, &p); err != nil {
		return err
	}
	if p.Lang == 0 {
		p.Lang = 1
	}
	switch p.Kind {
	case "lex", "spaced", "laid":
		c.Add("states", 1)
		c.Add("transitions", 1)
		c.Add("traces_validated_against_impl", 1)
		return handleTL1(c, st, p.Lang)(d, []json.RawMessage{p.Case})
	}
	return fmt.Errorf("replay kind %q is not handled by this check", p.Kind)
}

func finishStats(c *core.Ctx, st *stats) error {
	c.Set("impl_accepted", st.accepted)
	c.Set("impl_rejected", st.rejected)
	c.Set("cases_by_phase", st.byPhase)
	c.Set("cases_by_specified_error_class", st.byErr)
	c.Set("distinct_nontrivial", c.Get("states"))
	return nil
}

// ---------------------------------------------------------------------------
// C19

func runC19(c *core.Ctx) error {
	d, err := startDriver(c)
	if err != nil {
		return err
	}
	defer d.Close()
	st := newStats("panic", "total", "lex", "errpos", "accepted", "rejected")
	if c.Replay != "" {
		return replayTL1(c, d, st)
	}
	h := handleTL1(c, st, 1)
	var jobs []mcJob
	// (ii) the lexer model on exhaustive character-class strings
	if c.Thorough() {
		jobs = append(jobs, mcJob{"chars<=3_full", lexOpts(1, 3, 3, charsFull, charsFull)},
			mcJob{"chars<=4_reduced", lexOpts(1, 4, 3, charsReduced, charsTiny)},
			mcJob{"chars<=5_tiny", lexOpts(1, 5, 5, charsTiny, charsTiny)})
	} else {
		jobs = append(jobs, mcJob{"chars<=3_reduced", lexOpts(1, 3, 3, charsReduced, charsReduced)})
	}
	// (i) exhaustive token strings
	if c.Thorough() {
		jobs = append(jobs, mcJob{"tokens<=3_full", tokOpts(3, false, false, 1)}, mcJob{"tokens=4_core", tokOpts(4, true, true, 4)})
	} else {
		jobs = append(jobs, mcJob{"tokens<=2_full", tokOpts(2, false, false, 1)}, mcJob{"tokens<=3_core", tokOpts(3, true, true, 1)})
	}
	// (iii) derived sentences (accepted, AST of the derivation) and their mutation neighbours
	jobs = append(jobs, mcJob{"derived+mutants", deriveOpts(c.Pick(3, 4), 1, c.Pick(2, 4), false, layoutsFor(c))},
		mcJob{"arithmetic_focus+mutants", focusOpts()})
	// (iv) token soups: seeded random walks of the token-string model (TLC evaluates every successor of every
	// visited state, so all of them are cases: lengths 1..40)
	o := tokOpts(40, false, false, 1)
	o.Simulate = fmt.Sprintf("num=%d", c.Pick(6, 60))
	o.Depth = 41
	o.Seed = c.Seed
	o.Workers = c.Pick(1, 4)
	jobs = append(jobs, mcJob{"soups", o})
	if err := runJobs(c, d, jobs, h); err != nil {
		return err
	}
	c.Add("traces_validated_against_impl", c.Pick(6, 240))

	if err := selfTestTL1(c, d); err != nil {
		return err
	}
	_ = finishStats(c, st)
	if st.accepted == 0 || st.rejected == 0 {
		return fmt.Errorf("vacuous: accepted=%d rejected=%d", st.accepted, st.rejected)
	}
	for _, cls := range []string{"lexer:lex", "lexer:illegal", "lexer:", "spaced:lex", "spaced:illegal", "spaced:parse"} {
		if st.byErr[cls] == 0 {
			return fmt.Errorf("vacuous: no case of specified class %q was exercised", cls)
		}
	}
	for _, ph := range []string{"laid", "mut:delete", "mut:dup", "mut:swap", "mut:trunc", "mut:replace", "mut:insert", "mut:operand", "tok", "lex"} {
		if st.byPhase[ph] == 0 {
			return fmt.Errorf("vacuous: no case of phase %q", ph)
		}
	}
	c.Set("rule", "TLC enumerates (a) all character-class strings of the lexer model up to the bound, (b) all token strings up to the bound, (c) every derivation of weight <= MaxW with its layouts and all single-token mutations of it, (d) seeded random walks of the token-string model; every case is replayed into tlast.ParseTLFile (and the lexer through an in-package accessor) and compared with the specified tokens, error class and error position; derived sentences must be accepted with the derivation's AST")
	c.Assume("character classes stand for one representative byte sequence each (a/q/Z/0/é/0x80/$ ...); the reduced alphabet keeps one member of every class handled by the same lexer branch")
	c.Assume("for an input that lexes cleanly the specification fixes the error position only up to 'exactly one token of the text'; acceptance of non-derived token strings is not specified")
	c.Assume("line/column rule: line = 1 + line feeds before the offset, column = 1 + bytes since the last line feed; an error covers one token so its end is on the line of its begin")
	return nil
}

// selfTestTL1: the comparators must reject corrupted expectations.
func selfTestTL1(c *core.Ctx, d *drv) error {
	// 1. lexer case with a shifted specified token boundary / error position
	lc := lexCase{Ph: "lex", Cs: []string{"a", ".", "T", "SP", "$"}, Lang: 1}
	good := lexView{Toks: [][]any{{"ucns", 0.0, 3.0, 1.0, 1.0}, {"SP", 3.0, 4.0, 1.0, 4.0}, {"undef", 4.0, 5.0, 1.0, 5.0}}, Err: [][]int{{4, 5, 1, 5}}, Class: "lex"}
	lc.Lex = good
	fs, _, err := evalLexBatch(d, 1, []lexCase{lc})
	if err != nil {
		return err
	}
	if len(fs[0]) != 0 {
		return fmt.Errorf("self-test: a correct lexer expectation was rejected: %v", fs[0])
	}
	bad := lc
	bad.Lex = lexView{Toks: [][]any{{"ucns", 0.0, 3.0, 1.0, 1.0}, {"SP", 3.0, 4.0, 1.0, 4.0}, {"undef", 4.0, 5.0, 1.0, 5.0}}, Err: [][]int{{4, 6, 1, 5}}, Class: "lex"}
	fs, _, err = evalLexBatch(d, 1, []lexCase{bad})
	if err != nil {
		return err
	}
	if len(fs[0]) == 0 {
		return fmt.Errorf("self-test: a corrupted error position (end+1) was not detected")
	}
	bad.Lex = lexView{Toks: [][]any{{"lcns", 0.0, 3.0, 1.0, 1.0}, {"SP", 3.0, 4.0, 1.0, 4.0}, {"undef", 4.0, 5.0, 1.0, 5.0}}, Err: [][]int{{4, 5, 1, 5}}, Class: "lex"}
	fs, _, err = evalLexBatch(d, 1, []lexCase{bad})
	if err != nil {
		return err
	}
	if len(fs[0]) == 0 {
		return fmt.Errorf("self-test: a corrupted token kind was not detected")
	}
	// 2. spaced token string with a corrupted expected error offset
	tc := tokCase{Ph: "tok", Toks: []tokPair{{"lc", "a"}, {"SP", " "}, {"bad1", "$"}}, Exp: expSpaced{Class: "lex", B: 2, E: 3}}
	fs, _, err = evalSpacedBatch(d, "tl1", []tokCase{tc})
	if err != nil {
		return err
	}
	if len(fs[0]) != 0 {
		return fmt.Errorf("self-test: a correct token-string expectation was rejected: %v", fs[0])
	}
	tc.Exp.B = 1
	fs, _, err = evalSpacedBatch(d, "tl1", []tokCase{tc})
	if err != nil {
		return err
	}
	if len(fs[0]) == 0 {
		return fmt.Errorf("self-test: a corrupted expected error offset was not detected")
	}
	// 3. the position rule itself: an error claimed one column off is inconsistent with the text
	e := &errInfo{IsPE: true, SameContent: true, Begin: posInfo{Off: 4, Line: 2, Col: 2, SLO: 3}, End: posInfo{Off: 5, Line: 2, Col: 3, SLO: 3}, Outer: posInfo{Off: 0, Line: 1, Col: 1}}
	if s := checkErrPos("ab\nc$", e); s != "" {
		return fmt.Errorf("self-test: consistent position rejected: %s", s)
	}
	e.Begin.Col = 3
	if s := checkErrPos("ab\nc$", e); s == "" {
		return fmt.Errorf("self-test: a column off by one was not detected")
	}
	c.Set("selftest_corrupted_expectations_rejected", 4)
	return nil
}

// ---------------------------------------------------------------------------
// C21 and C23 share the derivation run (different aspects are decided)

func runDerived(c *core.Ctx, st *stats, traceModuleAspects string) error {
	d, err := startDriver(c)
	if err != nil {
		return err
	}
	defer d.Close()
	if c.Replay != "" {
		return replayTL1(c, d, st)
	}
	h := handleTL1(c, st, 1)
	// three independent activities run side by side (each TLC run gets a share of the workers)
	w := workers(c)/2 + 1
	errs := make(chan error, 3)
	go func() {
		o := deriveOpts(c.Pick(4, 5), 1, 0, false, layoutsFor(c))
		o.Workers = w
		_, err := runMC(c, d, "derived", o, h)
		errs <- err
	}()
	go func() {
		d2, err := d.fresh()
		if err != nil {
			errs <- err
			return
		}
		defer d2.Close()
		o := deriveOpts(c.Pick(3, 4), 2, 0, false, layoutsFor(c))
		o.Workers = w
		_, err = runMC(c, d2, "derived_2_combinators", o, h)
		errs <- err
	}()
	go func() {
		// code -> spec: random schemas and the repository schemas, parsed by the real parser,
		// validated by TLC against Canon / Print / ListingLine of the specification
		d3, err := d.fresh()
		if err != nil {
			errs <- err
			return
		}
		defer d3.Close()
		errs <- traceTL1(c, d3, st)
	}()
	var first error
	for i := 0; i < 3; i++ {
		if err := <-errs; err != nil && first == nil {
			first = err
		}
	}
	if first != nil {
		return first
	}
	if st.byPhase["laid"] == 0 || st.accepted == 0 {
		return fmt.Errorf("vacuous: no derived sentence was accepted")
	}
	_ = finishStats(c, st)
	return nil
}

func runC21(c *core.Ctx) error {
	st := newStats("panic", "total", "rejected", "ast", "print", "reparse", "fixpoint")
	if err := runDerived(c, st, "print"); err != nil {
		return err
	}
	if c.Replay != "" {
		return nil
	}
	c.Set("rule", "every derivation of weight <= MaxW (1 and 2 combinators) x 7 layouts: parse(Render(ast, layout)) = ast, TL.String() = PrintSchema(ast) of the specification, parse(print) = ast (explicit tag 00000000 lost, modelled), print(parse(print)) = print; random and repository schemas: recorded (AST, printed text) validated by TLC (TraceTLSyntax), plus differential parse(print(parse f)) = parse f")
	c.Assume("known printer limitation modelled, not flagged: Constructor.String omits an explicit tag equal to 00000000")
	c.Assume("comments are not part of the compared AST (the printer drops them)")
	return nil
}

func runC23(c *core.Ctx) error {
	st := newStats("panic", "total", "rejected", "ast", "crc")
	if err := runDerived(c, st, "crc"); err != nil {
		return err
	}
	if c.Replay != "" {
		return nil
	}
	c.Set("rule", "every derivation of weight <= MaxW x 7 layouts (whitespace, tabs, line breaks, CRLF, comments, (T a) vs T<a>, redundant parentheses, %(T a) vs (%T a), 1+2 vs (1+2) vs 3 vs 01+02, => vs section): Combinator.Crc32() = explicit tag, else crc32.ChecksumIEEE(CanonText(ast)) with CanonText from the specification; the layouts of one AST therefore share the tag; TLC checks CanonText(FoldC(ast)) = CanonText(ast); recorded canonical forms of random and repository schemas are validated by TLC (TraceTLSyntax)")
	c.Assume("CRC32 (IEEE) itself is computed by Go's hash/crc32 (trusted)")
	c.Assume("modelled as the code has it, not flagged: inside a repetition body parentheses, % and ! are kept in the hashed text, and the field mask of a nested repeated field is not hashed")
	return nil
}

// ---------------------------------------------------------------------------
// code -> spec trace validation (TL1)

func lowerNamesOf(v any, set map[string]bool) {
	switch x := v.(type) {
	case []any:
		for _, e := range x {
			lowerNamesOf(e, set)
		}
	case map[string]any:
		for _, e := range x {
			lowerNamesOf(e, set)
		}
	case string:
		if x != "" && x[0] >= 'a' && x[0] <= 'z' {
			set[x] = true
		}
	}
}

func traceTL1(c *core.Ctx, d *drv, st *stats) error {
	tr := c.Scratch + "/tl1-trace.ndjson"
	var reply map[string]any
	n := c.Pick(1500, 30000)
	if err := d.p.Call(map[string]any{"op": "randtrace1", "count": n, "seed": c.Seed, "out": tr}, &reply); err != nil {
		return err
	}
	if p, ok := reply["panic"]; ok {
		// a panic of the real parser/printer while recording is a totality failure
		c.Violate("trace/panic-while-recording", fmt.Sprintf("real parser/printer panicked on a generated schema: %v", p), map[string]any{"kind": "randtrace1", "seed": c.Seed, "count": n})
		return nil
	}
	tb, err := os.ReadFile(tr)
	if err != nil {
		return err
	}
	// repository schemas, one event per combinator
	files, err := repoFiles(".tl")
	if err != nil {
		return err
	}
	var extra strings.Builder
	nrepo := 0
	seenRepo := map[string]bool{}
	for _, f := range files {
		b, err := os.ReadFile(f)
		if err != nil {
			return err
		}
		evs, fs, err := repoEvents1(d, f, string(b))
		if err != nil {
			return err
		}
		for _, f := range fs {
			if st.aspects[f.Aspect] {
				c.Violate(f.Key, f.What, map[string]any{"kind": "repo-file"})
			}
		}
		for _, e := range evs {
			var ev struct{ Canon, Print, Listing string }
			_ = json.Unmarshal(e, &ev)
			k := ev.Canon + "|" + ev.Print + "|" + ev.Listing
			if seenRepo[k] { // the repository holds many copies of the same combinators
				continue
			}
			seenRepo[k] = true
			extra.Write(e)
			extra.WriteByte('\n')
			nrepo++
		}
	}
	c.Set("repository_tl_files", len(files))
	c.Set("repository_combinators_validated", nrepo)
	all := append(tb, []byte(extra.String())...)
	return validateTrace1(c, d, st, all, true)
}

// repoEvents1 parses a repository file, does the differential print/parse round trip and returns trace events.
func repoEvents1(d *drv, name, text string) ([]json.RawMessage, []finding, error) {
	rs, err := d.run("tl1", 1, []string{text}, wants{ast: true, print: true, canon: true})
	if err != nil {
		return nil, nil, err
	}
	r := rs[0]
	var fs []finding
	base := name[strings.LastIndex(name, "/")+1:]
	if s := checkTotal(text, &r); s != "" {
		fs = append(fs, finding{"total", "total/repo-file/" + base, name + ": " + s})
		return nil, fs, nil
	}
	if !r.OK {
		return nil, nil, nil // not a TL1 schema (e.g. a deliberately broken sample)
	}
	r2s, err := d.run("tl1", 1, []string{r.Print}, wants{ast: true, print: true})
	if err != nil {
		return nil, nil, err
	}
	r2 := r2s[0]
	switch {
	case !r2.OK:
		msg := r2.Panic
		if r2.Err != nil {
			msg = r2.Err.Msg
		}
		fs = append(fs, finding{"reparse", "reparse/repo-file/" + base, name + ": printed schema is rejected: " + msg})
	case !sameJSON(stripTag0(r.Combs1), r2.Combs1):
		fs = append(fs, finding{"reparse", "reparse/repo-file/" + base, name + ": printed schema parses to different combinators: " + firstDiff(r.Combs1, r2.Combs1)})
	case r2.Print != r.Print:
		fs = append(fs, finding{"fixpoint", "fixpoint/repo-file/" + base, name + ": printing is not a fixpoint"})
	}
	var evs []json.RawMessage
	lines := strings.Split(strings.TrimSuffix(r.Print, "\n"), "\n")
	var combLines []string
	for _, l := range lines {
		if l != "---functions---" && l != "---types---" {
			combLines = append(combLines, l)
		}
	}
	if len(combLines) != len(r.Combs1) {
		fs = append(fs, finding{"print", "print/repo-file/" + base, fmt.Sprintf("%s: %d printed lines for %d combinators", name, len(combLines), len(r.Combs1))})
		return nil, fs, nil
	}
	for i, cm := range r.Combs1 {
		ev := map[string]any{"ev": "comb", "text": base, "ast": cm, "canon": r.Canon[i], "print": combLines[i], "crc": r.Crc[i], "listing": r.CanonTag[i]}
		b, _ := json.Marshal(ev)
		evs = append(evs, b)
	}
	return evs, fs, nil
}

func stripTag0(combs []any) []any {
	b, _ := json.Marshal(combs)
	var cp []any
	_ = json.Unmarshal(b, &cp)
	for _, c := range cp {
		if m, ok := c.(map[string]any); ok && m["tag"] == "00000000" {
			m["tag"] = ""
		}
	}
	return cp
}

func firstDiff(a, b []any) string {
	for i := range a {
		if i >= len(b) {
			return fmt.Sprintf("combinator %d missing", i+1)
		}
		if !sameJSON(a[i], b[i]) {
			return fmt.Sprintf("combinator %d: %s vs %s", i+1, short(a[i], 400), short(b[i], 400))
		}
	}
	return fmt.Sprintf("%d vs %d combinators", len(a), len(b))
}

// traceCfg: configuration of TraceTLSyntax for one run.
func traceCfg(names []string, checkPrint, checkCanon, documented bool) string {
	return "CONSTANTS\n  LongNamesLower = FALSE\n  LowerNames = " + setLit(names) + "\n  CheckPrint = " + boolTLA(checkPrint) + "\n  CheckCanon = " + boolTLA(checkCanon) +
		"\n  Documented = " + boolTLA(documented) + "\nINIT Init\nNEXT Next\nINVARIANT EventOK\nCHECK_DEADLOCK FALSE\n"
}

// tlcTrace validates the events; it returns the index of the first rejected event or -1.
func tlcTrace(c *core.Ctx, module, cfg string, lines []string) (int, *core.TLCResult, error) {
	if len(lines) == 0 {
		return -1, &core.TLCResult{OK: true}, nil
	}
	r, err := c.TLC(core.TLCOpts{Module: module, CfgText: cfg, Files: map[string][]byte{"trace.ndjson": []byte(strings.Join(lines, "\n") + "\n")},
		Workers: workers(c)/2 + 1, Timeout: 10 * time.Minute})
	if err != nil {
		return -1, r, err
	}
	if r.OK {
		if r.Distinct != len(lines) {
			return -1, r, fmt.Errorf("%s covered %d of %d events", module, r.Distinct, len(lines))
		}
		return -1, r, nil
	}
	if r.ErrorKind != "invariant" {
		return -1, r, fmt.Errorf("%s failed: %s\n%s", module, r.ErrorKind, r.ErrorText)
	}
	m := reTraceIdx.FindStringSubmatch(r.ErrorText)
	if m == nil {
		return -1, r, fmt.Errorf("%s rejected the trace but the event index was not found:\n%s", module, r.ErrorText)
	}
	return atoi(m[1]) - 1, r, nil
}

// validateTrace1 runs TraceTLSyntax over recorded events; the CRC over the validated canonical text is compared here.
func validateTrace1(c *core.Ctx, d *drv, st *stats, tb []byte, selftest bool) error {
	var lines []string
	seen := map[string]bool{}
	for _, l := range strings.Split(strings.TrimSpace(string(tb)), "\n") {
		if !seen[l] { // identical events are validated once
			seen[l] = true
			lines = append(lines, l)
		}
	}
	checkCanon := st.aspects["crc"] || st.aspects["listing"]
	names := map[string]bool{}
	ncomb, nrej := 0, 0
	var plain, arith []string // arith: combinators with a sum of literals inside a repetition body (known deviation class)
	for _, l := range lines {
		var e map[string]any
		if err := json.Unmarshal([]byte(l), &e); err != nil {
			return fmt.Errorf("bad trace line: %v", err)
		}
		if e["ev"] == "reject" {
			nrej++
			plain = append(plain, l)
			continue
		}
		ncomb++
		lowerNamesOf(e["ast"], names)
		// tag = explicit, or CRC32 of the (TLC-validated) canonical text
		ast, _ := e["ast"].(map[string]any)
		canon, _ := e["canon"].(string)
		want, _ := ast["tag"].(string)
		if want == "" {
			want = crcOf(canon)
		}
		if e["crc"] != want && st.aspects["crc"] {
			c.Violate("crc/trace/"+featureKey([]any{ast}), fmt.Sprintf("recorded combinator %q has tag %v, but CRC32 of its canonical text %q is %s", e["text"], e["crc"], canon, want), map[string]any{"kind": "trace-event", "event": json.RawMessage(l)})
		}
		if checkCanon && hasFeature([]any{ast}, "arith-sum-in-body") {
			arith = append(arith, l)
		} else {
			plain = append(plain, l)
		}
	}
	if ncomb == 0 {
		return fmt.Errorf("vacuous: the recorded trace holds no accepted combinator")
	}
	var ln []string
	for k := range names {
		ln = append(ln, k)
	}
	sort.Strings(ln)
	cfgDoc := traceCfg(ln, st.aspects["print"], checkCanon, true)
	violate := func(key, ev string) {
		c.Violate(key, "recorded parse is not a behaviour of the TLSyntax specification (canonical form / printed form / listing line differ from Canon / Print / ListingLine of the recorded AST): "+clip(ev, 900), map[string]any{"kind": "trace-event", "event": json.RawMessage(ev)})
	}
	evKey := func(ev string) string {
		var e map[string]any
		_ = json.Unmarshal([]byte(ev), &e)
		return "trace/" + featureKey([]any{e["ast"]})
	}
	// the events outside the known deviation class: every rejection is reported (the offending event is removed and
	// validation repeated so that one rejection does not hide another)
	rest := plain
	validated := 0
	for round := 0; ; round++ {
		idx, r, err := tlcTrace(c, "TraceTLSyntax", cfgDoc, rest)
		if err != nil {
			return err
		}
		if idx < 0 {
			validated += len(rest)
			c.Add("states", r.Distinct)
			break
		}
		violate(evKey(rest[idx]), rest[idx])
		rest = append(append([]string{}, rest[:idx]...), rest[idx+1:]...)
		if round >= 4 {
			break
		}
	}
	// the known class: must satisfy the documented rule; if not, it must at least be exactly the "as coded" variant
	if len(arith) > 0 {
		idx, r, err := tlcTrace(c, "TraceTLSyntax", cfgDoc, arith)
		if err != nil {
			return err
		}
		if idx < 0 {
			validated += len(arith)
			c.Add("states", r.Distinct)
		} else {
			first := arith[idx]
			idx2, _, err := tlcTrace(c, "TraceTLSyntax", traceCfg(ln, st.aspects["print"], checkCanon, false), arith)
			if err != nil {
				return err
			}
			if idx2 < 0 {
				violate("crc/arith-in-repeat-body", first)
			} else {
				violate(evKey(arith[idx2]), arith[idx2])
			}
		}
		c.Set("trace_events_with_arithmetic_in_repetition_body", len(arith))
	}
	c.Add("traces_validated_against_impl", 1)
	c.Add("trace_events_validated", validated)
	c.Add("trace_events_rejected_by_impl", nrej)
	c.Sample(map[string]any{"trace_event": json.RawMessage(lines[len(lines)/3])})
	if !selftest {
		return nil
	}
	// binding self-test: one corrupted field of one recorded event must be rejected
	for i, l := range plain {
		var e map[string]any
		_ = json.Unmarshal([]byte(l), &e)
		if e["ev"] != "comb" {
			continue
		}
		field := "canon"
		if st.aspects["print"] {
			field = "print"
		}
		s, _ := e[field].(string)
		e[field] = strings.Replace(s, "=", "= ", 1)
		b, _ := json.Marshal(e)
		lo, hi := i-10, i+10
		if lo < 0 {
			lo = 0
		}
		if hi > len(plain) {
			hi = len(plain)
		}
		cp := append([]string{}, plain[lo:hi]...)
		cp[i-lo] = string(b)
		idx, _, err := tlcTrace(c, "TraceTLSyntax", cfgDoc, cp)
		if err != nil {
			return err
		}
		if idx != i-lo {
			return fmt.Errorf("binding self-test failed: a corrupted %s field was not rejected by TraceTLSyntax (rejected index %d, corrupted %d)", field, idx, i-lo)
		}
		c.Set("selftest_corrupted_trace_rejected", true)
		break
	}
	return nil
}
