package syntax

import (
	"encoding/json"
	"fmt"
	"hash/crc32"
	"strings"
)

// finding: one disagreement between the real code and the specification.
type finding struct {
	Aspect string // panic | total | rejected | ast | lex | errpos | crc | print | reparse | fixpoint | accepted
	Key    string // class of the failing input
	What   string
}

// ---- cases emitted by MC_TLSyntax

type lexView struct {
	Toks  [][]any `json:"toks"` // [kind, b, e, line, col]
	Err   [][]int `json:"err"`  // [[b, e, line, col]] or []
	Class string  `json:"class"`
}

type lexCase struct {
	Ph   string   `json:"ph"`
	Cs   []string `json:"cs"`
	Lang int      `json:"lang"`
	Lex  lexView  `json:"lex"`
}

func (lc *lexCase) text() string {
	var b strings.Builder
	for _, c := range lc.Cs {
		b.WriteString(classBytes(c))
	}
	return b.String()
}

type expSpaced struct {
	Class string `json:"class"` // lex | illegal | parse
	B     int    `json:"b"`
	E     int    `json:"e"`
}

type tokCase struct {
	Ph   string    `json:"ph"` // tok | mut
	How  string    `json:"how"`
	Toks []tokPair `json:"toks"`
	Exp  expSpaced `json:"exp"`
}

type laidCase struct {
	Ph       string          `json:"ph"`
	W        int             `json:"w"`
	L        int             `json:"l"`
	Lay      json.RawMessage `json:"lay"`
	Ast      []any           `json:"ast"`
	Toks     []tokPair       `json:"toks"`
	Offs     []int           `json:"offs"`
	Canon    []string        `json:"canon"`
	Coded    []string        `json:"coded"` // canonical text with the literals of arithmetic kept inside repetition bodies (classification only)
	Words    [][]string      `json:"words"`
	Print    string          `json:"print"`
	Reparsed []any           `json:"reparsed"`
}

func num(v any) int {
	f, _ := v.(float64)
	return int(f)
}

// evalLex: one character-class string against the lexer model, and the parser on the same bytes.
func evalLex(lc *lexCase, lexed *result, parsed *result) []finding {
	var fs []finding
	text := lc.text()
	cls := strings.Join(lc.Cs, " ")
	add := func(aspect, what string) {
		fs = append(fs, finding{aspect, aspect + "/chars[" + cls + "]", what + fmt.Sprintf(" (text %q)", text)})
	}
	if lexed.Panic != "" {
		add("panic", "lexer panicked: "+lexed.Panic)
		return fs
	}
	// tokens
	if len(lexed.Toks) != len(lc.Lex.Toks) {
		add("lex", fmt.Sprintf("token count %d, specified %d: got %s", len(lexed.Toks), len(lc.Lex.Toks), short(lexed.Toks, 300)))
	} else {
		for i, t := range lexed.Toks {
			e := lc.Lex.Toks[i]
			ek, _ := e[0].(string)
			if kindName(t.K) != ek || t.Off != num(e[1]) || t.Off+t.N != num(e[2]) || t.L != num(e[3]) || t.C != num(e[4]) {
				add("lex", fmt.Sprintf("token %d is %s at %d..%d (%d:%d), specified %s at %d..%d (%d:%d)", i+1, kindName(t.K), t.Off, t.Off+t.N, t.L, t.C, ek, num(e[1]), num(e[2]), num(e[3]), num(e[4])))
				break
			}
		}
	}
	if !lexed.Recombined {
		add("lex", "token texts plus the unread rest do not recombine to the input")
	}
	specErr := len(lc.Lex.Err) > 0
	if specErr != (lexed.LexErr != nil) {
		add("lex", fmt.Sprintf("lexer error=%v, specified error=%v", lexed.LexErr != nil, specErr))
	} else if specErr {
		e := lc.Lex.Err[0]
		g := lexed.LexErr
		if g.Begin.Off != e[0] || g.End.Off != e[1] || g.Begin.Line != e[2] || g.Begin.Col != e[3] {
			add("errpos", fmt.Sprintf("lexer error at %d..%d (%d:%d), specified %d..%d (%d:%d)", g.Begin.Off, g.End.Off, g.Begin.Line, g.Begin.Col, e[0], e[1], e[2], e[3]))
		}
		if s := checkErrPos(text, g); s != "" {
			add("errpos", "lexer error: "+s)
		}
	}
	// the parser on the same text: total; a lexical / token-validation error is reported at the specified place
	if s := checkTotal(text, parsed); s != "" {
		add("total", s)
	} else if specErr {
		if parsed.OK {
			add("accepted", "parser accepted a text with a specified lexical error")
		} else {
			e := lc.Lex.Err[0]
			if parsed.Err.Begin.Off != e[0] || parsed.Err.End.Off != e[1] {
				add("errpos", fmt.Sprintf("parser reports the lexical error at %d..%d, specified %d..%d", parsed.Err.Begin.Off, parsed.Err.End.Off, e[0], e[1]))
			}
		}
	}
	return fs
}

// evalSpaced: a token string written with single spaces (exhaustive strings, soups, mutants).
func evalSpaced(tc *tokCase, r *result) []finding {
	var fs []finding
	text := joinToks(tc.Toks)
	add := func(aspect, what string) {
		fs = append(fs, finding{aspect, aspect + "/tokens[" + clip(text, 120) + "]", what + fmt.Sprintf(" (text %q)", text)})
	}
	if s := checkTotal(text, r); s != "" {
		add("total", s)
		return fs
	}
	switch tc.Exp.Class {
	case "lex", "illegal":
		if r.OK {
			add("accepted", "accepted although the specification gives a "+tc.Exp.Class+" error")
		} else if r.Err.Begin.Off != tc.Exp.B || r.Err.End.Off != tc.Exp.E {
			add("errpos", fmt.Sprintf("%s error reported at %d..%d, specified %d..%d", tc.Exp.Class, r.Err.Begin.Off, r.Err.End.Off, tc.Exp.B, tc.Exp.E))
		}
	default:
		if !r.OK {
			// a parse error covers exactly one token of the text (or the end of the text)
			ok := r.Err.Begin.Off == len(text) && r.Err.End.Off == len(text)
			off := 0
			for _, t := range tc.Toks {
				if r.Err.Begin.Off == off && r.Err.End.Off == off+len(t[1]) {
					ok = true
				}
				if t[0] == "cmt" { // the rest of the line belongs to the comment token
					rest := len(text) - off
					if i := strings.IndexByte(text[off:], '\n'); i >= 0 {
						rest = i
					}
					if r.Err.Begin.Off == off && r.Err.End.Off == off+rest {
						ok = true
					}
				}
				off += len(t[1])
			}
			if !ok {
				add("errpos", fmt.Sprintf("parse error %d..%d does not cover one token of the text", r.Err.Begin.Off, r.Err.End.Off))
			}
		}
	}
	return fs
}

func crcOf(s string) string { return fmt.Sprintf("%08x", crc32.ChecksumIEEE([]byte(s))) }

func combTag(c any) string {
	m, _ := c.(map[string]any)
	s, _ := m["tag"].(string)
	return s
}

// evalLaid: a derived schema in one layout. r = parse of the text (ast, print, canon, lex wanted),
// r2 = parse of r.Print (nil when r is not ok).
func evalLaid(lc *laidCase, r *result, r2 *result) []finding {
	var fs []finding
	text := joinToks(lc.Toks)
	fk := featureKey(lc.Ast)
	add := func(aspect, key, what string) {
		fs = append(fs, finding{aspect, aspect + "/" + key, what + fmt.Sprintf(" (layout %d, text %q)", lc.L, clip(text, 400))})
	}
	if s := checkTotal(text, r); s != "" {
		add("total", fk, s)
		return fs
	}
	if !r.OK {
		add("rejected", fk, "derived sentence rejected: "+r.Err.Msg)
		return fs
	}
	if !sameJSON(r.Combs1, lc.Ast) {
		add("ast", fk, fmt.Sprintf("parsed AST differs from the derivation: got %s want %s", short(r.Combs1, 600), short(lc.Ast, 600)))
	}
	// lexer: tokens = the lexemes of the rendering
	if len(r.Toks) != len(lc.Toks)+1 {
		add("lex", fk, fmt.Sprintf("lexer produced %d tokens for %d lexemes", len(r.Toks)-1, len(lc.Toks)))
	} else {
		for i, t := range lc.Toks {
			g := r.Toks[i]
			if g.V != t[1] || kindName(g.K) != t[0] || g.Off != lc.Offs[i] {
				add("lex", fk, fmt.Sprintf("token %d is %s %q at %d, specified %s %q at %d", i+1, kindName(g.K), g.V, g.Off, t[0], t[1], lc.Offs[i]))
				break
			}
		}
		if !r.Recombined {
			add("lex", fk, "tokens do not recombine to the input")
		}
	}
	// tags
	if len(r.Crc) == len(lc.Ast) {
		for i, c := range lc.Ast {
			want := combTag(c)
			kind := "explicit tag"
			if want == "" {
				want = crcOf(lc.Canon[i])
				kind = "CRC32 of canonical form " + fmt.Sprintf("%q", lc.Canon[i])
			}
			if r.Crc[i] != want {
				key := fk
				if combTag(c) == "" && hasFeature([]any{c}, "arith-sum-in-body") && i < len(lc.Coded) && r.Crc[i] == crcOf(lc.Coded[i]) {
					key = "arith-in-repeat-body" // exactly the known deviation: literals hashed as written inside a repetition body
				}
				got := ""
				if i < len(r.Canon) {
					got = fmt.Sprintf(", implementation hashed %q", r.Canon[i])
				}
				add("crc", key, fmt.Sprintf("combinator %d has tag %s, specified %s = %s%s", i+1, r.Crc[i], kind, want, got))
			}
		}
	}
	// printer
	if r.Print != lc.Print {
		add("print", fk, fmt.Sprintf("printed %q, specified %q", r.Print, lc.Print))
	}
	if r2 != nil {
		if s := checkTotal(r.Print, r2); s != "" {
			add("reparse", fk, "printed text: "+s)
		} else if !r2.OK {
			add("reparse", fk, fmt.Sprintf("printed text %q is rejected: %s", r.Print, r2.Err.Msg))
		} else {
			if !sameJSON(r2.Combs1, lc.Reparsed) {
				add("reparse", fk, fmt.Sprintf("printed text %q parses to %s, specified %s", r.Print, short(r2.Combs1, 600), short(lc.Reparsed, 600)))
			}
			if r2.Print != r.Print {
				add("fixpoint", fk, fmt.Sprintf("printing the re-parsed schema gives %q, not %q", r2.Print, r.Print))
			}
			for i := range r2.Crc {
				if i < len(r.Crc) && r2.Crc[i] != r.Crc[i] && combTag(lc.Ast[i]) != "00000000" {
					add("reparse", fk, fmt.Sprintf("tag changes from %s to %s by printing and re-parsing", r.Crc[i], r2.Crc[i]))
				}
			}
		}
	}
	return fs
}
