//go:build verif

package main

import (
	"bufio"
	"context"
	"math/rand"
	"os"
	"sort"
	"sync"
	"time"

	"github.com/VKCOM/tl/pkg/rpc"
)

// op race (C38): the Timeout / Cancel step of a call racing with the delivery of its own
// response, followed by further calls on the same client (which reuse the pooled call
// contexts).  Many goroutines issue calls whose context deadline is swept around the
// measured latency of the (ungated) handler, so that for a fraction of the calls the
// timer fires in the same instant the response arrives; a batch of follow-up calls
// without deadline comes last.  Nothing here orders events by time: the deadlines are
// the stimulus, the recorded trace is judged by the specification.

type raceParams struct {
	Goroutines int `json:"goroutines"` // per client
	Calls      int `json:"calls"`      // calls with a deadline, per goroutine
	Follow     int `json:"follow"`     // follow-up calls without deadline, per goroutine
	CancelPct  int `json:"cancelPct"`  // percentage of calls cancelled by a second goroutine instead of a deadline
}

// doCall issues one call synchronously; d > 0: context deadline, cancelAfter > 0: a helper
// goroutine cancels the context after that long (logged as `cancel` before cancel()).
func (s *scen) doCall(id int, client string, d, cancelAfter time.Duration) (res string, took time.Duration) {
	cs := s.newCall(id, client, 0)
	cl := s.clients[client]
	ctx := context.Background()
	if d > 0 {
		ctx, cs.cancel = context.WithTimeout(ctx, d)
	} else {
		ctx, cs.cancel = context.WithCancel(ctx)
	}
	defer cs.cancel()
	req := cl.GetRequest()
	req.Body = append(req.Body[:0], makeReq(cs.uid, 0)...)
	s.rec.logS(s, map[string]any{"ev": "start", "id": id, "cl": client, "tmo": d > 0, "ff": false}, nil)
	var tm *time.Timer
	if cancelAfter > 0 {
		tm = time.AfterFunc(cancelAfter, func() {
			s.rec.logS(s, map[string]any{"ev": "cancel", "id": id}, nil)
			cs.cancel()
		})
	}
	t0 := time.Now()
	resp, err := cl.Do(ctx, s.env.Net, s.addrFor(client), req)
	took = time.Since(t0)
	if tm != nil {
		tm.Stop()
	}
	res, got, detail := classify(cs, resp, err)
	ev := map[string]any{"ev": "ret", "id": id, "res": res, "got": got}
	if detail != "" {
		ev["detail"] = detail
	}
	s.rec.logS(s, ev, func(map[string]any) { cs.once[2].Do(func() { close(cs.returned) }) })
	cl.PutResponse(resp)
	return res, took
}

func opRace(q request) map[string]any {
	rec := newRecorder()
	mkHandler := func(s *scen) rpc.HandlerFunc {
		return func(ctx context.Context, hctx *rpc.HandlerContext) error {
			uid, ok := parseReq(hctx.Request)
			s.mu.Lock()
			cs := s.calls[uid]
			s.mu.Unlock()
			if !ok || cs == nil {
				rec.logS(s, map[string]any{"ev": "badreq", "uid": uid, "len": len(hctx.Request)}, nil)
				return &rpc.Error{Code: -1, Description: "bad request"}
			}
			rec.logS(s, map[string]any{"ev": "enter", "id": cs.id}, nil)
			rec.logS(s, map[string]any{"ev": "exit", "id": cs.id, "out": "ok"}, nil)
			hctx.Response = append(hctx.Response, makeResp(uid)...)
			return nil
		}
	}
	clients := []string{"c1", "c2"}
	s, err := newScenH(q.Env, rec, mkHandler, clients, false)
	if err != nil {
		return map[string]any{"error": err.Error()}
	}
	var idMu sync.Mutex
	nextID := 0
	newID := func() int {
		idMu.Lock()
		defer idMu.Unlock()
		nextID++
		return nextID
	}
	// latency of the round trip, measured on calls without deadline
	var lat []time.Duration
	for i := 0; i < 40; i++ {
		_, took := s.doCall(newID(), clients[i%2], 0, 0)
		lat = append(lat, took)
	}
	sort.Slice(lat, func(i, j int) bool { return lat[i] < lat[j] })
	base := lat[len(lat)/2]
	if base < 50*time.Microsecond {
		base = 50 * time.Microsecond
	}
	var wg sync.WaitGroup
	var statMu sync.Mutex
	stat := map[string]int{}
	for ci, c := range clients {
		for g := 0; g < q.Race.Goroutines; g++ {
			wg.Add(1)
			go func(c string, seed int64) {
				defer wg.Done()
				rnd := rand.New(rand.NewSource(seed))
				mine := base // adapts to the latency this goroutine observes under load
				local := map[string]int{}
				for i := 0; i < q.Race.Calls; i++ {
					// sweep 0.5 .. 1.5 of the current latency estimate
					f := 0.5 + float64(i%11)/10 + rnd.Float64()*0.1
					d := time.Duration(float64(mine) * f)
					var res string
					var took time.Duration
					if rnd.Intn(100) < q.Race.CancelPct {
						res, took = s.doCall(newID(), c, 0, d)
					} else {
						res, took = s.doCall(newID(), c, d, 0)
					}
					local[res]++
					if res == "ok" {
						mine = (mine*7 + took) / 8
					} else if res == "deadline" || res == "cancel" {
						mine = mine * 21 / 20 // too short for the current load: creep up
					}
				}
				for i := 0; i < q.Race.Follow; i++ {
					res, _ := s.doCall(newID(), c, 0, 0)
					local["follow-"+res]++
				}
				statMu.Lock()
				for k, v := range local {
					stat[k] += v
				}
				statMu.Unlock()
			}(c, q.Seed*1000+int64(ci*100+g))
		}
	}
	wg.Wait()
	hung := s.finish(time.Duration(q.Watchdog) * time.Millisecond)
	f, err := os.Create(q.Out)
	if err != nil {
		return map[string]any{"error": err.Error()}
	}
	defer f.Close()
	w := bufio.NewWriter(f)
	defer w.Flush()
	r := map[string]any{"events": rec.flush(w), "calls": nextID, "stat": stat, "baseLatencyUs": base.Microseconds()}
	if len(hung) > 0 {
		r["hung"] = hung
		r["rpclog"] = s.logs()
	}
	return r
}
