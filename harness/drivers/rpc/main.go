//go:build verif

// rpc driver: real rpc.NewServer / rpc.NewClient on loopback TCP or Unix sockets, with
// and without crypto keys, behind a driver-controlled forwarding proxy (fault injection).
// NDJSON on stdin/stdout; injected into the repository with `go build -overlay` and built
// with -race.  Schedules are forced with handler-side gates (channels), never with sleeps;
// every wait below is a wait for a condition with a watchdog.
//
// ops: scenarios (C38, shapes from TLC), mix (C38, seeded random mixes), burst (C39),
// extras (C40).
package main

import (
	"bufio"
	"context"
	"encoding/binary"
	"encoding/json"
	"errors"
	"fmt"
	"io"
	"math/rand"
	"net"
	"os"
	"path/filepath"
	"sort"
	"strings"
	"sync"
	"time"

	"github.com/VKCOM/tl/pkg/rpc"
)

// ---------------------------------------------------------------------------
// deterministic content

const (
	reqTag  = 0x5ca1ab1e
	respTag = 0x0ddba110
)

func stream(seed uint64, n int) []byte {
	b := make([]byte, n)
	x := seed*0x9E3779B97F4A7C15 + 0x1234567
	for i := range b {
		x ^= x << 13
		x ^= x >> 7
		x ^= x << 17
		b[i] = byte(x >> 24)
	}
	return b
}

func reqPadLen(uid uint64) int { return int(uid*37%61) * 4 }
func respLen(uid uint64) int   { return int((uid*53+7)%257) * 4 }

// request body: tag, uid, extra length, pad(uid)
func makeReq(uid uint64, size int) []byte {
	n := reqPadLen(uid)
	if size > 0 {
		n = (size + 3) / 4 * 4
	}
	b := make([]byte, 0, 16+n)
	b = binary.LittleEndian.AppendUint32(b, reqTag)
	b = binary.LittleEndian.AppendUint64(b, uid)
	b = binary.LittleEndian.AppendUint32(b, uint32(n))
	return append(b, stream(uid^0xabc, n)...)
}

func parseReq(b []byte) (uid uint64, ok bool) {
	if len(b) < 16 || binary.LittleEndian.Uint32(b) != reqTag {
		return 0, false
	}
	uid = binary.LittleEndian.Uint64(b[4:])
	n := int(binary.LittleEndian.Uint32(b[12:]))
	if len(b) != 16+n || string(b[16:]) != string(stream(uid^0xabc, n)) {
		return uid, false
	}
	return uid, true
}

func makeResp(uid uint64) []byte {
	n := respLen(uid)
	b := make([]byte, 0, 16+n)
	b = binary.LittleEndian.AppendUint32(b, respTag)
	b = binary.LittleEndian.AppendUint64(b, uid)
	b = binary.LittleEndian.AppendUint32(b, uint32(n))
	return append(b, stream(uid^0xdef, n)...)
}

// parseResp returns the uid the payload was derived from and whether it is exactly that payload.
func parseResp(b []byte) (uid uint64, exact bool) {
	if len(b) < 16 || binary.LittleEndian.Uint32(b) != respTag {
		return 0, false
	}
	uid = binary.LittleEndian.Uint64(b[4:])
	return uid, string(b) == string(makeResp(uid))
}

func errCode(uid uint64) int32 { return -5000 - int32(uid%900) }
func errDesc(kind string, uid uint64) string {
	return fmt.Sprintf("%s|%d|%x", kind, uid, stream(uid^0x777, int(uid%23)))
}

func parseDesc(kind, d string) (uid uint64, exact bool) {
	p := strings.SplitN(d, "|", 3)
	if len(p) != 3 || p[0] != kind {
		return 0, false
	}
	if _, err := fmt.Sscanf(p[1], "%d", &uid); err != nil {
		return 0, false
	}
	return uid, d == errDesc(kind, uid)
}

// ---------------------------------------------------------------------------
// recorder: one mutex orders the events of all goroutines

type recorder struct {
	t0     time.Time
	mu     sync.Mutex
	cond   *sync.Cond
	events []map[string]any
	seq    int
}

func newRecorder() *recorder {
	r := &recorder{t0: time.Now()}
	r.cond = sync.NewCond(&r.mu)
	return r
}

// log appends an event; f (optional) runs under the recorder mutex before the event is
// stored, so that counters it reads or updates are consistent with the event order.
func (r *recorder) log(ev map[string]any, f func(ev map[string]any)) {
	r.mu.Lock()
	if f != nil {
		f(ev)
	}
	r.seq++
	ev["seq"] = r.seq
	r.events = append(r.events, ev)
	r.cond.Broadcast()
	r.mu.Unlock()
}

// logS logs an event of scenario s unless that scenario is already finished.
func (r *recorder) logS(s *scen, ev map[string]any, f func(ev map[string]any)) {
	r.mu.Lock()
	if s.finished {
		r.mu.Unlock()
		return
	}
	if f != nil {
		f(ev)
	}
	r.seq++
	ev["seq"] = r.seq
	ev["t"] = time.Since(r.t0).Milliseconds() // diagnostics only: never used for ordering
	r.events = append(r.events, ev)
	r.cond.Broadcast()
	r.mu.Unlock()
}

func (r *recorder) flush(w *bufio.Writer) int {
	r.mu.Lock()
	defer r.mu.Unlock()
	enc := json.NewEncoder(w)
	for _, e := range r.events {
		_ = enc.Encode(e)
	}
	n := len(r.events)
	r.events = r.events[:0]
	return n
}

// ---------------------------------------------------------------------------
// forwarding proxy with fault injection

type proxy struct {
	ln       net.Listener
	network  string
	backend  string
	mu       sync.Mutex
	mode     string // pass | refuse | hold (accepted connections are parked until the mode changes)
	held     []net.Conn
	conns    map[net.Conn]struct{}
	accepted int
	refused  int
	closed   bool
}

func newProxy(network, addr, backend string) (*proxy, error) {
	ln, err := net.Listen(network, addr)
	if err != nil {
		return nil, err
	}
	p := &proxy{ln: ln, network: network, backend: backend, mode: "pass", conns: map[net.Conn]struct{}{}}
	go p.run()
	return p, nil
}

func (p *proxy) addr() string { return p.ln.Addr().String() }

func (p *proxy) run() {
	for {
		c, err := p.ln.Accept()
		if err != nil {
			return
		}
		p.mu.Lock()
		if p.closed || p.mode == "refuse" {
			p.refused++
			p.mu.Unlock()
			_ = c.Close()
			continue
		}
		p.accepted++
		p.conns[c] = struct{}{}
		if p.mode == "hold" {
			p.held = append(p.held, c)
			p.mu.Unlock()
			continue
		}
		p.mu.Unlock()
		go p.serve(c)
	}
}

func (p *proxy) serve(c net.Conn) {
	b, err := net.DialTimeout(p.network, p.backend, 5*time.Second)
	if err != nil {
		p.drop(c)
		return
	}
	p.mu.Lock()
	if _, ok := p.conns[c]; !ok || p.closed { // cut while dialing
		p.mu.Unlock()
		_ = b.Close()
		_ = c.Close()
		return
	}
	p.conns[b] = struct{}{}
	p.mu.Unlock()
	done := make(chan struct{}, 2)
	cp := func(dst, src net.Conn) {
		_, _ = io.Copy(dst, src)
		// propagate EOF / error: close both so that each side notices
		_ = dst.Close()
		_ = src.Close()
		done <- struct{}{}
	}
	go cp(b, c)
	go cp(c, b)
	<-done
	<-done
	p.drop(c)
	p.drop(b)
}

func (p *proxy) drop(c net.Conn) {
	p.mu.Lock()
	delete(p.conns, c)
	p.mu.Unlock()
	_ = c.Close()
}

// cut closes every transport currently going through the proxy.
func (p *proxy) cut() int {
	p.mu.Lock()
	n := len(p.conns)
	for c := range p.conns {
		_ = c.Close()
		delete(p.conns, c)
	}
	p.held = nil
	p.mu.Unlock()
	return n
}

func (p *proxy) getMode() string {
	p.mu.Lock()
	defer p.mu.Unlock()
	return p.mode
}

func (p *proxy) attempts() int {
	p.mu.Lock()
	defer p.mu.Unlock()
	return p.accepted + p.refused
}

func (p *proxy) setMode(m string) {
	p.mu.Lock()
	p.mode = m
	held := p.held
	if m != "hold" {
		p.held = nil
	}
	p.mu.Unlock()
	if m == "hold" {
		return
	}
	for _, c := range held {
		if m == "pass" {
			go p.serve(c) // serve() notices a connection that was cut in the meantime
		} else {
			p.drop(c)
		}
	}
}

func (p *proxy) close() {
	p.mu.Lock()
	p.closed = true
	p.mu.Unlock()
	_ = p.ln.Close()
	p.cut()
}

// ---------------------------------------------------------------------------
// one scenario = one server, its clients, proxies and calls

type env struct {
	Net        string `json:"net"` // tcp4 | unix
	Key        string `json:"key"` // crypto key ("" = none)
	Dir        string `json:"dir"` // scratch dir for unix sockets
	MaxWorkers int    `json:"maxWorkers"`
	BufSize    int    `json:"bufSize"`  // ServerWithRequestBufSize (0 = default)
	MemLimit   int    `json:"memLimit"` // ServerWithRequestMemoryLimit (0 = default)
}

type callSt struct {
	id       int
	uid      uint64
	client   string
	gate     chan string
	entered  chan struct{}
	exited   chan struct{}
	returned chan struct{}
	once     [3]sync.Once
	cancel   context.CancelFunc
	res      string
	size     int
}

type scen struct {
	finished bool // under rec.mu: late goroutines of a finished scenario must not log into the next one
	env      env
	epoch    uint64
	rec      *recorder
	mu       sync.Mutex
	calls    map[uint64]*callSt // by uid
	byID     map[int]*callSt
	srv      *rpc.Server
	srvAddr  string
	clients  map[string]rpc.Client
	proxies  map[string]*proxy
	closing  map[string]chan struct{} // side -> closed when Close() returned
	rpcLog   []string
	sockN    int
	// burst accounting (under rec.mu)
	running int
	peak    int
}

var epochCounter uint64

func (s *scen) logf(format string, args ...any) {
	s.mu.Lock()
	if len(s.rpcLog) < 200 {
		s.rpcLog = append(s.rpcLog, fmt.Sprintf(format, args...))
	}
	s.mu.Unlock()
}

func (s *scen) logs() []string {
	s.mu.Lock()
	defer s.mu.Unlock()
	return append([]string(nil), s.rpcLog...)
}

func (s *scen) listenAddr(name string) string {
	if s.env.Net == "unix" {
		s.sockN++
		return filepath.Join(s.env.Dir, fmt.Sprintf("%s-%d-%d.sock", name, s.epoch, s.sockN))
	}
	return "127.0.0.1:0"
}

func newScen(e env, rec *recorder, clients []string, useProxy bool) (*scen, error) {
	return newScenH(e, rec, nil, clients, useProxy)
}

// newScenH: mkHandler (optional) builds the handler once the scenario object exists and
// before the server starts serving.
func newScenH(e env, rec *recorder, mkHandler func(*scen) rpc.HandlerFunc, clients []string, useProxy bool) (*scen, error) {
	epochCounter++
	s := &scen{env: e, epoch: epochCounter, rec: rec, calls: map[uint64]*callSt{}, byID: map[int]*callSt{},
		clients: map[string]rpc.Client{}, proxies: map[string]*proxy{}, closing: map[string]chan struct{}{}}
	opts := []rpc.ServerOptionsFunc{rpc.ServerWithLogf(s.logf), rpc.ServerWithMaxWorkers(e.MaxWorkers)}
	handler := s.handle
	if mkHandler != nil {
		handler = mkHandler(s)
	}
	opts = append(opts, rpc.ServerWithHandler(func(ctx context.Context, hctx *rpc.HandlerContext) error {
		return handler(ctx, hctx)
	}))
	if e.Key != "" {
		opts = append(opts, rpc.ServerWithCryptoKeys([]string{e.Key}), rpc.ServerWithForceEncryption(true))
	}
	if e.BufSize > 0 {
		opts = append(opts, rpc.ServerWithRequestBufSize(e.BufSize))
	}
	if e.MemLimit > 0 {
		opts = append(opts, rpc.ServerWithRequestMemoryLimit(e.MemLimit))
	}
	s.srv = rpc.NewServer(opts...)
	ln, err := rpc.Listen(e.Net, s.listenAddr("srv"), false)
	if err != nil {
		return nil, err
	}
	s.srvAddr = ln.Addr().String()
	go func() { _ = s.srv.Serve(ln) }()
	for _, c := range clients {
		// A long packet timeout keeps the client from pinging: while a server receive loop waits
		// for request memory or a worker it does not answer pings, and a client with the default
		// 10 s timeout would drop the connection after ~20 s of such waiting (seen on a loaded machine).
		copts := []rpc.ClientOptionsFunc{rpc.ClientWithLogf(s.logf), rpc.ClientWithMaxReconnectDelay(50 * time.Millisecond),
			rpc.ClientWithPacketTimeout(3 * time.Minute)}
		if e.Key != "" {
			copts = append(copts, rpc.ClientWithCryptoKey(e.Key), rpc.ClientWithForceEncryption(true))
		}
		s.clients[c] = rpc.NewClient(copts...)
		if useProxy {
			p, err := newProxy(e.Net, s.listenAddr("px-"+c), s.srvAddr)
			if err != nil {
				return nil, err
			}
			s.proxies[c] = p
		}
	}
	return s, nil
}

func (s *scen) addrFor(c string) string {
	if p := s.proxies[c]; p != nil {
		return p.addr()
	}
	return s.srvAddr
}

func (s *scen) newCall(id int, client string, size int) *callSt {
	cs := &callSt{id: id, uid: s.epoch<<20 | uint64(id), client: client, gate: make(chan string, 4),
		entered: make(chan struct{}), exited: make(chan struct{}), returned: make(chan struct{}), size: size}
	s.mu.Lock()
	s.calls[cs.uid] = cs
	s.byID[id] = cs
	s.mu.Unlock()
	return cs
}

func (s *scen) call(id int) *callSt {
	s.mu.Lock()
	defer s.mu.Unlock()
	return s.byID[id]
}

// handle is the server handler of the C38 scenarios: enter, wait at the gate (or for the
// context), exit with the outcome the gate carried.
func (s *scen) handle(ctx context.Context, hctx *rpc.HandlerContext) error {
	uid, ok := parseReq(hctx.Request)
	s.mu.Lock()
	cs := s.calls[uid]
	s.mu.Unlock()
	if !ok || cs == nil {
		// a request nobody sent (or with damaged content) reached the handler
		s.rec.logS(s, map[string]any{"ev": "badreq", "uid": uid, "len": len(hctx.Request)}, nil)
		return &rpc.Error{Code: -1, Description: "bad request"}
	}
	// the channels are closed under the recorder mutex: whoever sees the event also sees the channel closed
	s.rec.logS(s, map[string]any{"ev": "enter", "id": cs.id}, func(map[string]any) {
		s.running++
		cs.once[0].Do(func() { close(cs.entered) })
	})
	cs.once[0].Do(func() { close(cs.entered) })
	var out string
	select {
	case out = <-cs.gate:
	case <-ctx.Done():
		if errors.Is(ctx.Err(), context.DeadlineExceeded) {
			out = "tmo"
		} else {
			out = "cancelled"
		}
	}
	s.rec.logS(s, map[string]any{"ev": "exit", "id": cs.id, "out": out}, func(map[string]any) {
		s.running--
		cs.once[1].Do(func() { close(cs.exited) })
	})
	cs.once[1].Do(func() { close(cs.exited) })
	switch out {
	case "ok":
		hctx.Response = append(hctx.Response, makeResp(uid)...)
		return nil
	case "rpcerr":
		return &rpc.Error{Code: errCode(uid), Description: errDesc("E", uid)}
	case "err":
		return errors.New(errDesc("P", uid))
	}
	return ctx.Err()
}

// classify maps what Do returned onto the result classes of the specification.
func classify(cs *callSt, resp *rpc.Response, err error) (res string, got int, detail string) {
	epoch := cs.uid >> 20
	local := func(uid uint64) int {
		if uid>>20 != epoch {
			return -1
		}
		return int(uid & (1<<20 - 1))
	}
	if err == nil {
		uid, exact := parseResp(resp.Body)
		if !exact {
			return "corrupt", local(uid), fmt.Sprintf("response body of %d bytes is not the payload derived from any id", len(resp.Body))
		}
		return "ok", local(uid), ""
	}
	var re *rpc.Error
	switch {
	case errors.As(err, &re):
		switch {
		case re.Code == -3000:
			return "tmo", cs.id, re.Description
		case re.Code == -4000:
			uid, exact := parseDesc("P", re.Description)
			if !exact {
				return "corrupt", local(uid), "error description damaged: " + re.Description
			}
			return "err", local(uid), ""
		case re.Code <= -5000 && re.Code > -5900:
			uid, exact := parseDesc("E", re.Description)
			if !exact || errCode(uid) != re.Code {
				return "corrupt", local(uid), fmt.Sprintf("rpc error damaged: %d %s", re.Code, re.Description)
			}
			return "rpcerr", local(uid), ""
		}
		return "other", 0, err.Error()
	case errors.Is(err, context.Canceled):
		return "cancel", 0, ""
	case errors.Is(err, context.DeadlineExceeded):
		return "deadline", 0, ""
	case err == rpc.ErrClientConnClosedSideEffect:
		return "closedSE", 0, ""
	case err == rpc.ErrClientConnClosedNoSideEffect:
		return "closedNoSE", 0, ""
	case err == rpc.ErrClientClosed:
		return "clientClosed", 0, ""
	}
	return "other", 0, err.Error()
}

func (s *scen) start(id int, client string, tmoMs int, ff bool, size int) *callSt {
	cs := s.newCall(id, client, size)
	cl := s.clients[client]
	var ctx context.Context
	if tmoMs > 0 {
		ctx, cs.cancel = context.WithTimeout(context.Background(), time.Duration(tmoMs)*time.Millisecond)
	} else {
		ctx, cs.cancel = context.WithCancel(context.Background())
	}
	req := cl.GetRequest()
	req.Body = append(req.Body[:0], makeReq(cs.uid, size)...)
	req.FailIfNoConnection = ff
	s.rec.logS(s, map[string]any{"ev": "start", "id": id, "cl": client, "tmo": tmoMs > 0, "ff": ff}, nil)
	go func() {
		resp, err := cl.Do(ctx, s.env.Net, s.addrFor(client), req)
		res, got, detail := classify(cs, resp, err)
		ev := map[string]any{"ev": "ret", "id": id, "res": res, "got": got}
		if detail != "" {
			ev["detail"] = detail
		}
		cs.res = res
		s.rec.logS(s, ev, func(map[string]any) { cs.once[2].Do(func() { close(cs.returned) }) })
		cl.PutResponse(resp)
		cs.once[2].Do(func() { close(cs.returned) })
	}()
	return cs
}

func waitCh(ch <-chan struct{}, d time.Duration) bool {
	t := time.NewTimer(d)
	defer t.Stop()
	select {
	case <-ch:
		return true
	case <-t.C:
		return false
	}
}

func (s *scen) closeSide(side string) chan struct{} {
	s.mu.Lock()
	if ch, ok := s.closing[side]; ok {
		s.mu.Unlock()
		return ch
	}
	ch := make(chan struct{})
	s.closing[side] = ch
	s.mu.Unlock()
	s.rec.logS(s, map[string]any{"ev": "close", "side": side}, nil)
	go func() {
		if side == "server" {
			_ = s.srv.Close()
		} else {
			_ = s.clients[side].Close()
		}
		s.rec.logS(s, map[string]any{"ev": "closed", "side": side}, nil)
		close(ch)
	}()
	return ch
}

// finish releases every gate, closes both sides and waits (generous watchdog) for every
// started call to return; the ids that did not are reported.
func (s *scen) finish(watchdog time.Duration) (hung []int) {
	s.mu.Lock()
	var cs []*callSt
	for _, c := range s.byID {
		cs = append(cs, c)
	}
	s.mu.Unlock()
	sort.Slice(cs, func(i, j int) bool { return cs[i].id < cs[j].id })
	for _, c := range cs {
		select {
		case c.gate <- "ok":
		default:
		}
	}
	var names []string
	for n := range s.clients {
		names = append(names, n)
	}
	sort.Strings(names)
	deadline := time.Now().Add(watchdog)
	// a proxy that still holds a connection attempt lets it go: Client.Close() waits for the
	// connect goroutine, which sits in the handshake until the peer answers or PacketTimeout expires
	for _, n := range names {
		if p := s.proxies[n]; p != nil && p.getMode() == "hold" {
			s.rec.logS(s, map[string]any{"ev": "proxy", "cl": n, "mode": "pass"}, nil)
			p.setMode("pass")
		}
	}
	// one side after the other: the order of the teardown is then visible in the trace
	for _, n := range names {
		if !waitCh(s.closeSide(n), time.Until(deadline)) {
			hung = append(hung, -1)
		}
	}
	for _, c := range cs {
		if !waitCh(c.returned, time.Until(deadline)) {
			hung = append(hung, c.id)
		}
	}
	if !waitCh(s.closeSide("server"), time.Until(deadline)+2*time.Second) {
		hung = append(hung, -1)
	}
	for _, c := range cs {
		if c.cancel != nil {
			c.cancel()
		}
	}
	for _, p := range s.proxies {
		p.close()
	}
	if len(hung) == 0 {
		s.rec.logS(s, map[string]any{"ev": "end"}, nil)
	} else {
		s.rec.logS(s, map[string]any{"ev": "hung", "ids": hung}, nil)
	}
	s.rec.mu.Lock()
	s.finished = true
	s.rec.mu.Unlock()
	return hung
}

// ---------------------------------------------------------------------------
// op scenarios

type step struct {
	Op    string `json:"op"`
	ID    int    `json:"id"`
	Cl    string `json:"cl"`
	TmoMs int    `json:"tmoMs"`
	FF    bool   `json:"ff"`
	Out   string `json:"out"`
	Side  string `json:"side"`
	Mode  string `json:"mode"`
}

type scenario struct {
	Name  string `json:"name"`
	Steps []step `json:"steps"`
}

type request struct {
	Op        string          `json:"op"`
	Env       env             `json:"env"`
	Scenarios []scenario      `json:"scenarios"`
	Out       string          `json:"out"`
	Seed      int64           `json:"seed"`
	StepWait  int             `json:"stepWaitMs"`
	Watchdog  int             `json:"watchdogMs"`
	Mix       mixParams       `json:"mix"`
	Burst     burstParams     `json:"burst"`
	Race      raceParams      `json:"race"`
	Cases     json.RawMessage `json:"cases"`
}

func runScenario(e env, sc scenario, rec *recorder, stepWait, watchdog time.Duration) (diverged string, hung []int, rpclog []string, err error) {
	s, err := newScen(e, rec, []string{"c1", "c2"}, true)
	if err != nil {
		return "", nil, nil, err
	}
	for i, st := range sc.Steps {
		ok := true
		switch st.Op {
		case "start":
			s.start(st.ID, st.Cl, st.TmoMs, st.FF, 0)
		case "cancel":
			if cs := s.call(st.ID); cs != nil {
				s.rec.logS(s, map[string]any{"ev": "cancel", "id": st.ID}, nil)
				cs.cancel()
			}
		case "waitenter":
			if cs := s.call(st.ID); cs != nil {
				ok = waitCh(cs.entered, stepWait)
			}
		case "release":
			if cs := s.call(st.ID); cs != nil {
				select {
				case cs.gate <- st.Out:
				default:
				}
				ok = waitCh(cs.exited, stepWait)
			}
		case "waitexit":
			if cs := s.call(st.ID); cs != nil {
				ok = waitCh(cs.exited, stepWait)
			}
		case "waitret":
			if cs := s.call(st.ID); cs != nil {
				ok = waitCh(cs.returned, stepWait)
			}
		case "close":
			s.closeSide(st.Side)
		case "waitclosed":
			ok = waitCh(s.closeSide(st.Side), stepWait)
		case "shutdown":
			s.rec.logS(s, map[string]any{"ev": "shutdown", "side": "server"}, nil)
			s.srv.Shutdown()
		case "cut":
			if p := s.proxies[st.Cl]; p != nil {
				s.rec.logS(s, map[string]any{"ev": "cut", "cl": st.Cl}, nil)
				p.cut()
			}
		case "proxy":
			if p := s.proxies[st.Cl]; p != nil {
				s.rec.logS(s, map[string]any{"ev": "proxy", "cl": st.Cl, "mode": st.Mode}, nil)
				p.setMode(st.Mode)
			}
		case "waitproxy": // the client has tried to connect at least st.ID times (so its first call is set up)
			if p := s.proxies[st.Cl]; p != nil {
				t0 := time.Now()
				for p.attempts() < st.ID && time.Since(t0) < stepWait {
					time.Sleep(time.Millisecond) // polling interval of a condition wait
				}
				ok = p.attempts() >= st.ID
			}
		default:
			return "", nil, nil, fmt.Errorf("unknown step %q", st.Op)
		}
		if !ok {
			diverged = fmt.Sprintf("step %d (%s %d%s) did not happen within %v", i, st.Op, st.ID, st.Side, stepWait)
			break
		}
	}
	hung = s.finish(watchdog)
	return diverged, hung, s.logs(), nil
}

func opScenarios(q request) map[string]any {
	rec := newRecorder()
	f, err := os.Create(q.Out)
	if err != nil {
		return map[string]any{"error": err.Error()}
	}
	defer f.Close()
	w := bufio.NewWriter(f)
	defer w.Flush()
	stepWait := time.Duration(q.StepWait) * time.Millisecond
	watchdog := time.Duration(q.Watchdog) * time.Millisecond
	var results []map[string]any
	for i, sc := range q.Scenarios {
		if i > 0 {
			rec.log(map[string]any{"ev": "reset"}, nil)
		}
		div, hung, rl, err := runScenario(q.Env, sc, rec, stepWait, watchdog)
		if err != nil {
			return map[string]any{"error": err.Error()}
		}
		r := map[string]any{"name": sc.Name, "events": rec.flush(w)}
		if div != "" {
			r["diverged"] = div
		}
		if len(hung) > 0 {
			r["hung"] = hung
			r["rpclog"] = rl
		}
		results = append(results, r)
	}
	return map[string]any{"results": results}
}

// ---------------------------------------------------------------------------
// op mix: seeded random mix of many concurrent calls on two clients

type mixParams struct {
	Calls    int  `json:"calls"`    // per client
	Cut      bool `json:"cut"`      // one transport cut somewhere
	CloseSrv bool `json:"closeSrv"` // server closed while calls are pending
	CloseCli bool `json:"closeCli"` // client c1 closed while calls are pending
}

func opMix(q request) map[string]any {
	rnd := rand.New(rand.NewSource(q.Seed))
	rec := newRecorder()
	s, err := newScen(q.Env, rec, []string{"c1", "c2"}, true)
	if err != nil {
		return map[string]any{"error": err.Error()}
	}
	type plan struct {
		cs     *callSt
		out    string
		fate   string // normal | cancel | tmo
		acted  bool
		client string
	}
	var plans []*plan
	n := q.Mix.Calls
	for i := 0; i < 2*n; i++ {
		client := "c1"
		if i%2 == 1 {
			client = "c2"
		}
		p := &plan{client: client, out: []string{"ok", "ok", "rpcerr", "err"}[rnd.Intn(4)], fate: "normal"}
		switch rnd.Intn(6) {
		case 0:
			p.fate = "cancel"
		case 1:
			p.fate = "tmo"
		}
		plans = append(plans, p)
	}
	// all calls are issued concurrently
	for i, p := range plans {
		tmo := 0
		if p.fate == "tmo" {
			tmo = 250 + rnd.Intn(200)
		}
		p.cs = s.start(i+1, p.client, tmo, false, 0)
	}
	total := len(plans)
	faultAt := map[string]int{}
	if q.Mix.Cut {
		faultAt["cut"] = rnd.Intn(total)
	}
	if q.Mix.CloseSrv {
		faultAt["closeSrv"] = total/2 + rnd.Intn(total/2+1)
	}
	if q.Mix.CloseCli {
		faultAt["closeCli"] = total/3 + rnd.Intn(total/2+1)
	}
	isDone := func(ch chan struct{}) bool {
		select {
		case <-ch:
			return true
		default:
			return false
		}
	}
	// controller: acts on one call at a time; it only picks calls that are in their handler
	// or have already returned (condition wait on the recorder, watchdog 3 s), in random
	// order.  Handlers that were entered are released, cancelled calls are cancelled while
	// their handler is held, calls with a timeout are held until they returned.
	for k := 0; k < total; k++ {
		for name, at := range faultAt {
			if at == k {
				switch name {
				case "cut":
					c := []string{"c1", "c2"}[rnd.Intn(2)]
					rec.logS(s, map[string]any{"ev": "cut", "cl": c}, nil)
					s.proxies[c].cut()
				case "closeSrv":
					s.closeSide("server")
				case "closeCli":
					s.closeSide("c1")
				}
			}
		}
		var p *plan
		t0 := time.Now()
		for p == nil {
			var cand, rest []*plan
			for _, x := range plans {
				if x.acted {
					continue
				}
				if isDone(x.cs.entered) || isDone(x.cs.returned) {
					cand = append(cand, x)
				} else {
					rest = append(rest, x)
				}
			}
			switch {
			case len(cand) > 0:
				p = cand[rnd.Intn(len(cand))]
			case time.Since(t0) > 3*time.Second:
				p = rest[rnd.Intn(len(rest))] // nothing moves (e.g. requests queued behind a closed server)
			default:
				rec.mu.Lock()
				waitCond(rec.cond, 20*time.Millisecond)
				rec.mu.Unlock()
			}
		}
		p.acted = true
		switch p.fate {
		case "cancel":
			rec.logS(s, map[string]any{"ev": "cancel", "id": p.cs.id}, nil)
			p.cs.cancel()
			waitCh(p.cs.returned, 5*time.Second)
			p.cs.gate <- p.out
		case "tmo":
			waitCh(p.cs.returned, 5*time.Second)
			p.cs.gate <- p.out
		default:
			p.cs.gate <- p.out
			if rnd.Intn(2) == 0 {
				waitCh(p.cs.returned, 5*time.Second)
			}
		}
	}
	hung := s.finish(time.Duration(q.Watchdog) * time.Millisecond)
	f, err := os.Create(q.Out)
	if err != nil {
		return map[string]any{"error": err.Error()}
	}
	defer f.Close()
	w := bufio.NewWriter(f)
	defer w.Flush()
	r := map[string]any{"events": rec.flush(w), "calls": total}
	if len(hung) > 0 {
		r["hung"] = hung
		r["rpclog"] = s.logs()
	}
	return r
}

// ---------------------------------------------------------------------------
// op burst (C39): many requests against small worker / request-memory limits

type burstParams struct {
	Conns int   `json:"conns"`
	Calls int   `json:"calls"` // per connection
	Sizes []int `json:"sizes"` // request body sizes, cycled
	Cap   int   `json:"cap"`   // expected number of handlers that can be admitted at once
	// BigFirst: requests larger than the server's RequestBufSize are issued first and the rest
	// only after their handlers were entered (so that a large request never waits for memory)
	BigFirst bool `json:"bigFirst"`
	// ReleaseAll: all held handlers are released at the same moment (several workers are returned
	// to the pool while several receive loops wait for one), round after round
	ReleaseAll bool `json:"releaseAll"`
	// AbortWait: a connection whose request waits for request memory is abandoned by its client and
	// torn down by the server (Shutdown makes the server write to it) while the memory is still held
	// by the running handlers; further requests keep waiting and are served afterwards
	AbortWait bool `json:"abortWait"`
	// HoldMs: after the pile-up keep the handlers held for this long (probe of the server's
	// packet read deadline; the only deliberate wall-clock wait of this driver)
	HoldMs int `json:"holdMs"`
}

func opBurst(q request) map[string]any {
	rnd := rand.New(rand.NewSource(q.Seed))
	rec := newRecorder()
	mkHandler := func(s *scen) rpc.HandlerFunc {
		return func(ctx context.Context, hctx *rpc.HandlerContext) error {
			srvRef := s.srv
			uid, ok := parseReq(hctx.Request)
			s.mu.Lock()
			cs := s.calls[uid]
			s.mu.Unlock()
			if !ok || cs == nil {
				rec.logS(s, map[string]any{"ev": "badreq", "uid": uid, "len": len(hctx.Request)}, nil)
				return &rpc.Error{Code: -1, Description: "bad request"}
			}
			// counter and server-side accounting are read under the recorder mutex: every handler
			// counted in `running` has acquired its request memory and not yet released it.
			rec.logS(s, map[string]any{"ev": "enter", "id": cs.id, "len": len(hctx.Request)}, func(ev map[string]any) {
				s.running++
				if s.running > s.peak {
					s.peak = s.running
				}
				ev["running"] = s.running
				cur, size := srvRef.RequestsMemory()
				ev["mem"], ev["limit"] = cur, size
				created, total := srvRef.WorkersPoolSize()
				ev["workers"], ev["maxWorkers"] = created, total
				cs.once[0].Do(func() { close(cs.entered) }) // under the recorder mutex: visible together with the event
			})
			select {
			case <-cs.gate:
			case <-ctx.Done():
				rec.logS(s, map[string]any{"ev": "exit", "id": cs.id, "out": "cancelled"}, func(map[string]any) { s.running-- })
				return ctx.Err()
			}
			rec.logS(s, map[string]any{"ev": "exit", "id": cs.id, "out": "ok"}, func(ev map[string]any) {
				s.running--
				ev["running"] = s.running
				cur, _ := srvRef.RequestsMemory()
				ev["mem"] = cur
				cs.once[1].Do(func() { close(cs.exited) })
			})
			hctx.Response = append(hctx.Response, makeResp(uid)...)
			return nil
		}
	}
	var clients []string
	for i := 0; i < q.Burst.Conns; i++ {
		clients = append(clients, fmt.Sprintf("c%d", i+1))
	}
	s, err := newScenH(q.Env, rec, mkHandler, clients, false)
	if err != nil {
		return map[string]any{"error": err.Error()}
	}
	_, limit := s.srv.RequestsMemory()
	_, maxW := s.srv.WorkersPoolSize()
	if q.Burst.AbortWait {
		return burstAbortWait(q, s, rec, rnd)
	}
	var all []*callSt
	type pendingStart struct {
		id   int
		cl   string
		size int
	}
	var later []pendingStart
	id := 0
	for ci, c := range clients {
		for j := 0; j < q.Burst.Calls; j++ {
			id++
			size := q.Burst.Sizes[(ci*q.Burst.Calls+j)%len(q.Burst.Sizes)]
			if q.Burst.BigFirst && size <= q.Env.BufSize {
				later = append(later, pendingStart{id, c, size})
				continue
			}
			all = append(all, s.start(id, c, 0, false, size))
		}
	}
	if q.Burst.BigFirst {
		for _, cs := range all {
			waitCh(cs.entered, 20*time.Second)
		}
		for _, p := range later {
			all = append(all, s.start(p.id, p.cl, 0, false, p.size))
		}
	}
	total := len(all)
	// pile-up: wait (condition + watchdog, no ordering by time) until `cap` handlers are held
	// at their gates and the server has at least one more request waiting in a receive loop
	expectCap := q.Burst.Cap
	piled := false
	deadline := time.Now().Add(30 * time.Second)
	for time.Now().Before(deadline) {
		rec.mu.Lock()
		run := s.running
		rec.mu.Unlock()
		if run >= expectCap && (q.Env.MaxWorkers == 0 || s.srv.RequestsCurrent() > int64(run)) {
			piled = true
			break
		}
		time.Sleep(2 * time.Millisecond) // polling interval of the condition wait only
	}
	rec.logS(s, map[string]any{"ev": "sample", "piled": piled}, func(ev map[string]any) {
		cur, _ := s.srv.RequestsMemory()
		ev["mem"], ev["running"], ev["waiting"] = cur, s.running, s.srv.RequestsCurrent()
	})
	if q.Burst.HoldMs > 0 {
		time.Sleep(time.Duration(q.Burst.HoldMs) * time.Millisecond)
	}
	// release the held handlers one at a time, in random order among those that entered
	released := map[int]bool{}
	for len(released) < total {
		// the event count is read BEFORE looking for held handlers: an `enter` logged in between
		// changes it and the wait below returns at once
		rec.mu.Lock()
		n0 := len(rec.events)
		rec.mu.Unlock()
		var cand []*callSt
		for _, cs := range all {
			if released[cs.id] {
				continue
			}
			select {
			case <-cs.entered:
				cand = append(cand, cs)
			default:
			}
		}
		if len(cand) == 0 {
			// nothing held: wait for the next handler to enter (watchdog)
			rec.mu.Lock()
			t0 := time.Now()
			for len(rec.events) == n0 && time.Since(t0) < 10*time.Second {
				waitCond(rec.cond, 50*time.Millisecond)
			}
			stuck := len(rec.events) == n0
			rec.mu.Unlock()
			if stuck {
				break
			}
			continue
		}
		if q.Burst.ReleaseAll {
			for _, cs := range cand {
				released[cs.id] = true
			}
			for _, cs := range cand {
				cs.gate <- "ok"
			}
			for _, cs := range cand {
				waitCh(cs.exited, 10*time.Second)
			}
		} else {
			cs := cand[rnd.Intn(len(cand))]
			released[cs.id] = true
			cs.gate <- "ok"
			waitCh(cs.exited, 10*time.Second)
		}
		rec.logS(s, map[string]any{"ev": "sample"}, func(ev map[string]any) {
			cur, _ := s.srv.RequestsMemory()
			ev["mem"], ev["running"], ev["waiting"] = cur, s.running, s.srv.RequestsCurrent()
		})
	}
	return burstFinish(q, s, rec, all, total, limit, maxW, piled, nil)
}

// burstFinish waits for every call to return, tears the scenario down and writes the trace.
func burstFinish(q request, s *scen, rec *recorder, all []*callSt, total int, limit int64, maxW int, piled bool, extra map[string]any) map[string]any {
	// every request must be answered while both sides are still open
	retDeadline := time.Now().Add(time.Duration(q.Watchdog) * time.Millisecond)
	for _, cs := range all {
		waitCh(cs.returned, time.Until(retDeadline))
	}
	hung := s.finish(time.Duration(q.Watchdog) * time.Millisecond)
	f, err := os.Create(q.Out)
	if err != nil {
		return map[string]any{"error": err.Error()}
	}
	defer f.Close()
	w := bufio.NewWriter(f)
	defer w.Flush()
	r := map[string]any{"calls": total, "peak": s.peak, "limit": limit, "maxWorkers": maxW, "piled": piled}
	for k, v := range extra {
		r[k] = v
	}
	r["events"] = rec.flush(w)
	r["rpclog"] = s.logs()
	if len(hung) > 0 {
		r["hung"] = hung
	}
	return r
}

// releaseOneByOne releases the held handlers of `all` one at a time (random order among those that
// entered), sampling the server's accounting after each.
func releaseOneByOne(s *scen, rec *recorder, rnd *rand.Rand, all []*callSt, skip map[int]bool) {
	released := map[int]bool{}
	for id := range skip {
		released[id] = true
	}
	for len(released) < len(all) {
		rec.mu.Lock()
		n0 := len(rec.events)
		rec.mu.Unlock()
		var cand []*callSt
		for _, cs := range all {
			if released[cs.id] {
				continue
			}
			select {
			case <-cs.entered:
				cand = append(cand, cs)
			default:
			}
		}
		if len(cand) == 0 {
			rec.mu.Lock()
			t0 := time.Now()
			for len(rec.events) == n0 && time.Since(t0) < 10*time.Second {
				waitCond(rec.cond, 50*time.Millisecond)
			}
			stuck := len(rec.events) == n0
			rec.mu.Unlock()
			if stuck {
				return
			}
			continue
		}
		cs := cand[rnd.Intn(len(cand))]
		released[cs.id] = true
		cs.gate <- "ok"
		waitCh(cs.exited, 10*time.Second)
		rec.logS(s, map[string]any{"ev": "sample"}, func(ev map[string]any) {
			cur, _ := s.srv.RequestsMemory()
			ev["mem"], ev["running"], ev["waiting"] = cur, s.running, s.srv.RequestsCurrent()
		})
	}
}

// burstAbortWait: see burstParams.AbortWait.  Connections c1..c(n-2) each get one request, which
// fill the request memory; the requests of the last two connections wait for memory.  The client
// of the first waiting connection is closed, then Server.Shutdown() makes the server write to that
// connection, notice that it is gone and abort its memory wait.  The accounted memory must still
// cover the running handlers, and the other waiting request must keep waiting until memory is freed.
func burstAbortWait(q request, s *scen, rec *recorder, rnd *rand.Rand) map[string]any {
	_, limit := s.srv.RequestsMemory()
	_, maxW := s.srv.WorkersPoolSize()
	n := q.Burst.Conns
	var all []*callSt
	size := q.Burst.Sizes[0]
	for i := 1; i <= n-2; i++ {
		all = append(all, s.start(i, fmt.Sprintf("c%d", i), 0, false, size))
	}
	for _, cs := range all {
		waitCh(cs.entered, 20*time.Second)
	}
	victim := s.start(n-1, fmt.Sprintf("c%d", n-1), 0, false, size)
	other := s.start(n, fmt.Sprintf("c%d", n), 0, false, size)
	all = append(all, victim, other)
	// pile-up: all n requests are inside the server, n-2 of them in handlers
	piled := false
	deadline := time.Now().Add(30 * time.Second)
	for time.Now().Before(deadline) {
		rec.mu.Lock()
		run := s.running
		rec.mu.Unlock()
		if run == n-2 && s.srv.RequestsCurrent() == int64(n) {
			piled = true
			break
		}
		time.Sleep(2 * time.Millisecond) // polling interval of the condition wait only
	}
	sample := func(ev string, more map[string]any) {
		e := map[string]any{"ev": ev}
		for k, v := range more {
			e[k] = v
		}
		rec.logS(s, e, func(ev map[string]any) {
			cur, _ := s.srv.RequestsMemory()
			ev["mem"], ev["running"], ev["waiting"] = cur, s.running, s.srv.RequestsCurrent()
		})
	}
	sample("sample", map[string]any{"piled": piled})
	// the caller abandons the waiting request: its client is closed
	rec.logS(s, map[string]any{"ev": "drop", "id": victim.id}, nil)
	waitCh(s.closeSide(victim.client), 20*time.Second)
	waitCh(victim.returned, 20*time.Second)
	conns0 := s.srv.ConnectionsCurrent()
	rec.logS(s, map[string]any{"ev": "shutdown", "side": "server"}, nil)
	s.srv.Shutdown()
	// the server has torn the abandoned connection down once its connection count drops
	aborted := false
	deadline = time.Now().Add(15 * time.Second)
	for time.Now().Before(deadline) {
		if s.srv.ConnectionsCurrent() < conns0 {
			aborted = true
			break
		}
		time.Sleep(2 * time.Millisecond) // polling interval of the condition wait only
	}
	if aborted {
		sample("abort", map[string]any{"id": victim.id})
	}
	sample("sample", nil)
	releaseOneByOne(s, rec, rnd, all, map[int]bool{victim.id: true})
	return burstFinish(q, s, rec, all, len(all), limit, maxW, piled, map[string]any{"aborted": aborted})
}

// waitCond waits on c (its lock held) for at most d.
func waitCond(c *sync.Cond, d time.Duration) {
	t := time.AfterFunc(d, c.Broadcast)
	c.Wait()
	t.Stop()
}

// ---------------------------------------------------------------------------

func handleReq(q request) (resp map[string]any) {
	defer func() {
		if r := recover(); r != nil {
			resp = map[string]any{"panic": fmt.Sprint(r)}
		}
	}()
	switch q.Op {
	case "scenarios":
		return opScenarios(q)
	case "mix":
		return opMix(q)
	case "burst":
		return opBurst(q)
	case "extras":
		return opExtras(q)
	case "race":
		return opRace(q)
	case "ping":
		return map[string]any{"ok": true}
	}
	return map[string]any{"error": "unknown op " + q.Op}
}

func main() {
	rd := bufio.NewReaderSize(os.Stdin, 1<<24)
	wr := bufio.NewWriter(os.Stdout)
	for {
		line, err := rd.ReadBytes('\n')
		if len(line) > 1 {
			var q request
			if jerr := json.Unmarshal(line, &q); jerr != nil {
				fmt.Fprintf(wr, "{\"error\":%q}\n", "bad request: "+jerr.Error())
			} else {
				b, _ := json.Marshal(handleReq(q))
				wr.Write(b)
				wr.WriteByte('\n')
			}
			wr.Flush()
		}
		if err != nil {
			return
		}
	}
}
