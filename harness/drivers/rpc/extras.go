//go:build verif

package main

import (
	"context"
	"encoding/json"
	"errors"
	"math"
	"strconv"
	"sync"
	"time"

	"github.com/VKCOM/tl/pkg/rpc"
)

// op extras (C40): every case is one real client -> server -> client round trip.
// The request extra is built field by field on Request.Extra, observed as
// HandlerContext.RequestExtra in the handler; the response extra / error is set by the
// handler and observed on Response.Extra / the returned error.

// i64 travels as a decimal string (JSON numbers lose 64-bit boundary values).
type i64 int64

func (v i64) MarshalJSON() ([]byte, error) { return json.Marshal(strconv.FormatInt(int64(v), 10)) }
func (v *i64) UnmarshalJSON(b []byte) error {
	var s string
	if err := json.Unmarshal(b, &s); err != nil {
		return err
	}
	x, err := strconv.ParseInt(s, 10, 64)
	*v = i64(x)
	return err
}

type xPQ struct {
	Kind string `json:"kind"` // prepare | commit
	Q    [2]i64 `json:"q"`
	S    [2]i64 `json:"s"`
}

type xTC struct {
	Mask   uint32 `json:"mask"`
	Lo     i64    `json:"lo"`
	Hi     i64    `json:"hi"`
	Parent i64    `json:"parent"`
	Source string `json:"source"`
}

type xReq struct {
	Flags             []int          `json:"flags"` // bit numbers of Extra.Flags
	RequesterId       i64            `json:"requester_id"`
	WaitShards        map[string]i64 `json:"wait_shards_binlog_pos"`
	WaitBinlogPos     i64            `json:"wait_binlog_pos"`
	StringForwardKeys []string       `json:"string_forward_keys"`
	IntForwardKeys    []i64          `json:"int_forward_keys"`
	StringForward     string         `json:"string_forward"`
	IntForward        i64            `json:"int_forward"`
	CustomTimeoutMs   int32          `json:"custom_timeout_ms"`
	Compression       int32          `json:"supported_compression_version"`
	RandomDelayBits   string         `json:"random_delay_bits"` // float64 bits, decimal
	PQ                xPQ            `json:"persistent_query"`
	TC                xTC            `json:"trace_context"`
	ExecutionContext  string         `json:"execution_context"`
}

type xResp struct {
	Flags              []int             `json:"flags"`
	BinlogPos          i64               `json:"binlog_pos"`
	BinlogTime         i64               `json:"binlog_time"`
	EnginePid          [3]uint32         `json:"engine_pid"`
	RequestSize        int32             `json:"request_size"`
	ResponseSize       int32             `json:"response_size"`
	FailedSubqueries   int32             `json:"failed_subqueries"`
	CompressionVersion int32             `json:"compression_version"`
	Stats              map[string]string `json:"stats"`
	ShardsBinlogPos    map[string]i64    `json:"shards_binlog_pos"`
	EpochNumber        i64               `json:"epoch_number"`
	ViewNumber         i64               `json:"view_number"`
}

type xCase struct {
	N       int    `json:"n"`
	Req     xReq   `json:"req"`
	Actor   i64    `json:"actor"`
	TL2     bool   `json:"tl2"`
	CtxMs   int    `json:"ctxMs"`   // context deadline (0 = none)
	NoLocal bool   `json:"noLocal"` // DoNotCreateLocalCancellationContext
	Resp    xResp  `json:"resp"`
	Outcome string `json:"outcome"` // ok | rpcerr | err | nohandler | deadline
	Code    int32  `json:"code"`
	Desc    string `json:"desc"`
}

type xObs struct {
	N          int    `json:"n"`
	CallErr    string `json:"callErr"` // "" | rpc | other
	ErrText    string `json:"errText"`
	ErrCode    int32  `json:"errCode"`
	ErrDesc    string `json:"errDesc"`
	Seen       bool   `json:"seen"` // the handler ran
	SrvReq     xReq   `json:"srvReq"`
	SrvActor   i64    `json:"srvActor"`
	SrvTL2     bool   `json:"srvTL2"`
	SrvTimeout i64    `json:"srvTimeoutMs"` // handler ctx deadline - request time, -1 = no deadline
	BodyOK     bool   `json:"bodyOK"`       // request body arrived intact
	CliResp    xResp  `json:"cliResp"`
	CliTL2     bool   `json:"cliTL2"`
	RespBodyOK bool   `json:"respBodyOK"`
}

func bitsOf(flags uint32) []int {
	r := []int{}
	for i := 0; i < 32; i++ {
		if flags&(1<<uint(i)) != 0 {
			r = append(r, i)
		}
	}
	return r
}

func maskOf(bits []int) uint32 {
	var m uint32
	for _, b := range bits {
		m |= 1 << uint(b)
	}
	return m
}

func buildReqExtra(x xReq, e *rpc.RequestExtra) {
	e.RequesterId = int64(x.RequesterId)
	if x.WaitShards != nil {
		e.WaitShardsBinlogPos = map[string]int64{}
		for k, v := range x.WaitShards {
			e.WaitShardsBinlogPos[k] = int64(v)
		}
	}
	e.WaitBinlogPos = int64(x.WaitBinlogPos)
	e.StringForwardKeys = append([]string(nil), x.StringForwardKeys...)
	for _, v := range x.IntForwardKeys {
		e.IntForwardKeys = append(e.IntForwardKeys, int64(v))
	}
	e.StringForward = x.StringForward
	e.IntForward = int64(x.IntForward)
	e.CustomTimeoutMs = x.CustomTimeoutMs
	e.SupportedCompressionVersion = x.Compression
	if x.RandomDelayBits != "" {
		b, _ := strconv.ParseUint(x.RandomDelayBits, 10, 64)
		e.RandomDelay = math.Float64frombits(b)
	}
	if x.PQ.Kind == "commit" {
		p := e.PersistentQuery.ResetToCommitRequest()
		p.PersistentQueryUuid.Lo, p.PersistentQueryUuid.Hi = int64(x.PQ.Q[0]), int64(x.PQ.Q[1])
		p.PersistentSlotUuid.Lo, p.PersistentSlotUuid.Hi = int64(x.PQ.S[0]), int64(x.PQ.S[1])
	} else {
		p := e.PersistentQuery.ResetToPrepareRequest()
		p.PersistentQueryUuid.Lo, p.PersistentQueryUuid.Hi = int64(x.PQ.Q[0]), int64(x.PQ.Q[1])
	}
	e.TraceContext = rpc.TraceContext{FieldsMask: x.TC.Mask, TraceId: rpc.TraceID{Lo: int64(x.TC.Lo), Hi: int64(x.TC.Hi)},
		ParentId: int64(x.TC.Parent), SourceId: x.TC.Source}
	e.ExecutionContext = x.ExecutionContext
	e.Flags = maskOf(x.Flags) // last: raw mask exactly as the case says
}

func observeReqExtra(e *rpc.RequestExtra) xReq {
	x := xReq{Flags: bitsOf(e.Flags), RequesterId: i64(e.RequesterId), WaitBinlogPos: i64(e.WaitBinlogPos),
		StringForward: e.StringForward, IntForward: i64(e.IntForward), CustomTimeoutMs: e.CustomTimeoutMs,
		Compression: e.SupportedCompressionVersion, ExecutionContext: e.ExecutionContext,
		RandomDelayBits: strconv.FormatUint(math.Float64bits(e.RandomDelay), 10)}
	if len(e.WaitShardsBinlogPos) > 0 {
		x.WaitShards = map[string]i64{}
		for k, v := range e.WaitShardsBinlogPos {
			x.WaitShards[k] = i64(v)
		}
	}
	if len(e.StringForwardKeys) > 0 {
		x.StringForwardKeys = append([]string(nil), e.StringForwardKeys...)
	}
	for _, v := range e.IntForwardKeys {
		x.IntForwardKeys = append(x.IntForwardKeys, i64(v))
	}
	if p, ok := e.PersistentQuery.AsCommitRequest(); ok {
		x.PQ = xPQ{Kind: "commit", Q: [2]i64{i64(p.PersistentQueryUuid.Lo), i64(p.PersistentQueryUuid.Hi)},
			S: [2]i64{i64(p.PersistentSlotUuid.Lo), i64(p.PersistentSlotUuid.Hi)}}
	} else if p, ok := e.PersistentQuery.AsPrepareRequest(); ok {
		x.PQ = xPQ{Kind: "prepare", Q: [2]i64{i64(p.PersistentQueryUuid.Lo), i64(p.PersistentQueryUuid.Hi)}}
	}
	t := e.TraceContext
	x.TC = xTC{Mask: t.FieldsMask, Lo: i64(t.TraceId.Lo), Hi: i64(t.TraceId.Hi), Parent: i64(t.ParentId), Source: t.SourceId}
	return x
}

func buildRespExtra(x xResp, e *rpc.ResponseExtra) {
	e.BinlogPos, e.BinlogTime = int64(x.BinlogPos), int64(x.BinlogTime)
	e.EnginePid.Ip, e.EnginePid.PortPid, e.EnginePid.Utime = x.EnginePid[0], x.EnginePid[1], x.EnginePid[2]
	e.RequestSize, e.ResponseSize = x.RequestSize, x.ResponseSize
	e.FailedSubqueries, e.CompressionVersion = x.FailedSubqueries, x.CompressionVersion
	if x.Stats != nil {
		e.Stats = map[string]string{}
		for k, v := range x.Stats {
			e.Stats[k] = v
		}
	}
	if x.ShardsBinlogPos != nil {
		e.ShardsBinlogPos = map[string]int64{}
		for k, v := range x.ShardsBinlogPos {
			e.ShardsBinlogPos[k] = int64(v)
		}
	}
	e.EpochNumber, e.ViewNumber = int64(x.EpochNumber), int64(x.ViewNumber)
	e.Flags = maskOf(x.Flags)
}

func observeRespExtra(e *rpc.ResponseExtra) xResp {
	x := xResp{Flags: bitsOf(e.Flags), BinlogPos: i64(e.BinlogPos), BinlogTime: i64(e.BinlogTime),
		EnginePid:   [3]uint32{e.EnginePid.Ip, e.EnginePid.PortPid, e.EnginePid.Utime},
		RequestSize: e.RequestSize, ResponseSize: e.ResponseSize, FailedSubqueries: e.FailedSubqueries,
		CompressionVersion: e.CompressionVersion, EpochNumber: i64(e.EpochNumber), ViewNumber: i64(e.ViewNumber)}
	if len(e.Stats) > 0 {
		x.Stats = map[string]string{}
		for k, v := range e.Stats {
			x.Stats[k] = v
		}
	}
	if len(e.ShardsBinlogPos) > 0 {
		x.ShardsBinlogPos = map[string]i64{}
		for k, v := range e.ShardsBinlogPos {
			x.ShardsBinlogPos[k] = i64(v)
		}
	}
	return x
}

type plainErr string

func (e plainErr) Error() string { return string(e) }

func opExtras(q request) map[string]any {
	var cases []xCase
	if err := json.Unmarshal(q.Cases, &cases); err != nil {
		return map[string]any{"error": "cases: " + err.Error()}
	}
	var mu sync.Mutex
	byUID := map[uint64]*xCase{}
	obs := map[int]*xObs{}
	handlerFor := func(s *scen) rpc.HandlerFunc {
		return func(ctx context.Context, hctx *rpc.HandlerContext) error {
			uid, ok := parseReq(hctx.Request)
			mu.Lock()
			c := byUID[uid]
			var o *xObs
			if c != nil {
				o = obs[c.N]
			}
			mu.Unlock()
			if c == nil {
				return &rpc.Error{Code: -1, Description: "unknown case"}
			}
			mu.Lock()
			defer mu.Unlock()
			o.Seen = true
			o.BodyOK = ok
			o.SrvReq = observeReqExtra(&hctx.RequestExtra)
			o.SrvActor = i64(hctx.ActorID())
			o.SrvTL2 = hctx.BodyFormatTL2()
			o.SrvTimeout = -1
			if dl, has := ctx.Deadline(); has {
				o.SrvTimeout = i64(dl.Sub(hctx.RequestTime()) / time.Millisecond)
			}
			buildRespExtra(c.Resp, &hctx.ResponseExtra)
			switch c.Outcome {
			case "rpcerr":
				return &rpc.Error{Code: c.Code, Description: c.Desc}
			case "err":
				return plainErr(c.Desc)
			case "nohandler":
				return rpc.ErrNoHandler
			case "deadline":
				return context.DeadlineExceeded
			}
			hctx.Response = append(hctx.Response, makeResp(uid)...)
			return nil
		}
	}
	s, err := newScenH(q.Env, newRecorder(), handlerFor, []string{"c1"}, false)
	if err != nil {
		return map[string]any{"error": err.Error()}
	}
	cl := s.clients["c1"]
	out := make([]*xObs, 0, len(cases))
	for i := range cases {
		c := &cases[i]
		uid := s.epoch<<20 | uint64(i+1)
		o := &xObs{N: c.N}
		mu.Lock()
		byUID[uid] = c
		obs[c.N] = o
		mu.Unlock()
		req := cl.GetRequest()
		req.Body = append(req.Body[:0], makeReq(uid, 0)...)
		req.ActorID = int64(c.Actor)
		req.BodyFormatTL2 = c.TL2
		req.DoNotCreateLocalCancellationContext = c.NoLocal
		buildReqExtra(c.Req, &req.Extra)
		ctx := context.Background()
		cancel := func() {}
		if c.CtxMs > 0 {
			ctx, cancel = context.WithTimeout(ctx, time.Duration(c.CtxMs)*time.Millisecond)
		}
		resp, err := cl.Do(ctx, s.env.Net, s.srvAddr, req)
		cancel()
		mu.Lock()
		var re *rpc.Error
		switch {
		case err == nil:
		case errors.As(err, &re):
			o.CallErr, o.ErrCode, o.ErrDesc = "rpc", re.Code, re.Description
		default:
			o.CallErr, o.ErrText = "other", err.Error()
		}
		if resp != nil {
			o.CliResp = observeRespExtra(&resp.Extra)
			o.CliTL2 = resp.BodyFormatTL2()
			if err == nil {
				ruid, exact := parseResp(resp.Body)
				o.RespBodyOK = exact && ruid == uid
			}
			cl.PutResponse(resp)
		}
		mu.Unlock()
		out = append(out, o)
	}
	hung := s.finish(10 * time.Second)
	r := map[string]any{"obs": out}
	if len(hung) > 0 {
		r["hung"] = hung
	}
	return r
}
