//go:build verif

// astdump: exports the kernel's resolved instance graph as JSON (virtual path
// internal/verifx/astdump/main.go). Usage: astdump [-tl2 whitelist] files...
package main

import (
	"encoding/json"
	"flag"
	"fmt"
	"io"
	"os"

	"github.com/VKCOM/tl/internal/pure"
)

type natArg struct {
	K   string `json:"k"` // num | field | param
	I   int    `json:"i"` // field index or nat-param index (0-based)
	Num []int  `json:"num"`
}

type field struct {
	Name   string   `json:"n"`
	Type   string   `json:"t"`
	Bare   bool     `json:"bare"`
	Mask   natArg   `json:"mask"`
	Bit    int      `json:"bit"`
	NatArg []natArg `json:"na"`
	TL2Bit int      `json:"tl2bit"` // -1 when none
	IsBit  bool     `json:"isbit"`
	Dom    [][]int  `json:"dom"` // candidate values of a nat field (filled by the harness)
}

type inst struct {
	Kind      string   `json:"k"`
	Name      string   `json:"name"`
	TLName    string   `json:"tlname"`
	Tag       []int    `json:"tag"`
	NatParams []string `json:"np"`
	HasTL2    bool     `json:"tl2"`
	Origin2   bool     `json:"origin2"`
	Top       bool     `json:"top"`
	Fn        bool     `json:"fn"`
	Annot     []string `json:"annot"`
	BoxedOnly bool     `json:"boxedOnly"`
	// struct
	Fields      []field  `json:"fields"`
	Typedef     bool     `json:"typedef"`
	Alias       bool     `json:"alias"`
	Unwrap      bool     `json:"unwrap"`
	UnionElem   bool     `json:"unionElem"`
	UnionIndex  int      `json:"uidx"`
	Result      string   `json:"res"`
	ResultBare  bool     `json:"resBare"`
	ResultNA    []natArg `json:"resNa"`
	ResultAlias bool     `json:"resAlias"`
	// union
	VNames   []string `json:"vnames"`
	Variants []string `json:"variants"`
	ElemNA   []natArg `json:"elemNa"`
	Enum     bool     `json:"enum"`
	Maybe    bool     `json:"maybe"`
	// array
	Tuple bool   `json:"tuple"`
	Dyn   bool   `json:"dyn"`
	Count []int  `json:"count"`
	Elem  field  `json:"elem"`
	// dict
	DictField string `json:"dictField"`
	// prim
	Prim     string `json:"prim"`
	FalseTag []int  `json:"falseTag"`
	TrueTag  []int  `json:"trueTag"`
}

func le(v uint32) []int { return []int{int(v & 255), int(v >> 8 & 255), int(v >> 16 & 255), int(v >> 24)} }

func paramIndex(owner pure.TypeInstance, a pure.ActualNatArg) int {
	for i, p := range owner.Common().NatParams() {
		if p == a.NatParamName() {
			return i
		}
	}
	return a.FieldIndex()
}

func cvArg(owner pure.TypeInstance, a pure.ActualNatArg) natArg {
	switch {
	case a.IsNumber():
		return natArg{K: "num", Num: le(a.Number())}
	case a.IsField():
		return natArg{K: "field", I: a.FieldIndex(), Num: le(0)}
	default:
		return natArg{K: "param", I: paramIndex(owner, a), Num: le(0)}
	}
}

func cvArgs(owner pure.TypeInstance, as []pure.ActualNatArg) []natArg {
	r := []natArg{}
	for _, a := range as {
		r = append(r, cvArg(owner, a))
	}
	return r
}

func cvField(owner pure.TypeInstance, f pure.Field) field {
	r := field{Name: f.Name(), Type: f.TypeInstance().CanonicalName(), Bare: f.Bare(), Bit: int(f.BitNumber()),
		NatArg: cvArgs(owner, f.NatArgs()), TL2Bit: -1, IsBit: f.IsBit(), Mask: natArg{K: "none", Num: le(0)}, Dom: [][]int{}}
	if m := f.FieldMask(); m != nil {
		r.Mask = cvArg(owner, *m)
	}
	if b := f.MaskTL2Bit(); b != nil {
		r.TL2Bit = *b
	}
	return r
}

func main() {
	tl2 := flag.String("tl2", "", "tl2 whitelist")
	out := flag.String("o", "", "output file")
	flag.Parse()
	opts := &pure.OptionsKernel{TypesWhiteList: "*", TL2WhiteList: *tl2, ErrorWriter: io.Discard, InstantiateConstants: true}
	k := pure.NewKernel(opts)
	if err := k.AddFilesFromPaths(flag.Args()); err != nil {
		fmt.Fprintln(os.Stderr, "astdump:", err)
		os.Exit(3)
	}
	stdout := os.Stdout
	os.Stdout, _ = os.Open(os.DevNull) // the kernel prints progress to stdout
	err := k.Compile()
	os.Stdout = stdout
	if err != nil {
		fmt.Fprintln(os.Stderr, "astdump:", err)
		os.Exit(3)
	}
	res := map[string]*inst{}
	order := []string{}
	var add func(ti pure.TypeInstance)
	add = func(ti pure.TypeInstance) {
		if _, ok := res[ti.CanonicalName()]; ok {
			return
		}
		c := ti.Common()
		in := &inst{Name: ti.CanonicalName(), TLName: c.TLName().String(), Tag: le(c.TLTag()), NatParams: c.NatParams(),
			HasTL2: c.HasTL2(), Origin2: c.OriginTL2(), Top: c.IsTopLevel(), BoxedOnly: ti.BoxedOnly(), Annot: []string{},
			Fields: []field{}, ResultNA: []natArg{}, VNames: []string{}, Variants: []string{}, ElemNA: []natArg{}, Count: le(0),
			FalseTag: le(0), TrueTag: le(0),
			Elem: field{Mask: natArg{K: "none", Num: le(0)}, NatArg: []natArg{}, TL2Bit: -1, Dom: [][]int{}}}
		if in.NatParams == nil {
			in.NatParams = []string{}
		}
		if kt := ti.KernelType(); kt != nil {
			in.Fn = kt.IsFunction()
			in.Annot = append(in.Annot, kt.Annotations()...)
		}
		switch t := ti.(type) {
		case *pure.TypeInstanceStruct:
			in.Kind = "struct"
			for _, f := range t.Fields() {
				in.Fields = append(in.Fields, cvField(ti, f))
			}
			in.Typedef, in.Alias, in.Unwrap = t.IsTypedef(), t.IsAlias(), t.IsUnwrap()
			in.UnionElem, in.UnionIndex = t.IsUnionElement(), t.UnionIndex()
			if rt := t.ResultType(); rt != nil {
				in.Result, in.ResultBare, in.ResultNA, in.ResultAlias = rt.CanonicalName(), t.ResultTypeBare(), cvArgs(ti, t.ResultNatArgs()), t.IsResultAlias()
			}
		case *pure.TypeInstanceUnion:
			in.Kind = "union"
			in.VNames = t.VariantNames()
			for _, v := range t.VariantTypes() {
				in.Variants = append(in.Variants, v.CanonicalName())
				defer add(v)
			}
			in.ElemNA = cvArgs(ti, t.ElementNatArgs())
			in.Enum = t.IsEnum()
			in.Maybe, _ = t.IsUnionMaybe()
		case *pure.TypeInstanceArray:
			in.Kind = "array"
			in.Tuple, in.Dyn, in.Count = t.IsTuple(), t.DynamicSize(), le(t.Count())
			in.Elem = cvField(ti, t.Field())
		case *pure.TypeInstanceDict:
			in.Kind = "dict"
			in.Elem = cvField(ti, t.Field())
			in.DictField = t.FieldType().CanonicalName()
		case *pure.TypeInstancePrimitive:
			in.Kind = "prim"
			in.Prim = ti.CanonicalName()
			if ok, ft, tt := t.IsTL1Bool(); ok {
				in.FalseTag, in.TrueTag = le(ft), le(tt)
			}
		default:
			in.Kind = fmt.Sprintf("unknown:%T", ti)
		}
		res[in.Name] = in
		order = append(order, in.Name)
	}
	for _, ti := range k.AllTypeInstances() {
		add(ti)
	}
	b, _ := json.MarshalIndent(map[string]any{"types": res, "order": order}, "", " ")
	if *out != "" {
		if err := os.WriteFile(*out, b, 0o644); err != nil {
			fmt.Fprintln(os.Stderr, err)
			os.Exit(3)
		}
		return
	}
	os.Stdout.Write(b)
}
