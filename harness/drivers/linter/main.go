//go:build verif

// linter driver: runs the backward-compatibility linter of internal/tlcodegen on a pair
// of schema texts exactly the way cmd/tlgen/main2.go does (parse both files with
// AllowBuiltin=false/AllowDirty=false, validate the NEW schema with GenerateCode in
// linter mode, then CheckBackwardCompatibility(new, old)).  NDJSON on stdin/stdout;
// injected into the tree under test with `go build -overlay`.
package main

import (
	"bufio"
	"bytes"
	"encoding/json"
	"fmt"
	"io"
	"os"
	"strings"

	"github.com/VKCOM/tl/internal/tlast"
	"github.com/VKCOM/tl/internal/tlcodegen"
)

type req struct {
	Old string `json:"old"`
	New string `json:"new"`
	// Gen: also run the generator front end (GenerateCode, Language "") on both texts.
	Gen bool `json:"gen"`
}

type resp struct {
	Accepted    bool     `json:"accepted"`
	Messages    []string `json:"messages"`
	ParseErrOld string   `json:"parseErrOld"`
	ParseErrNew string   `json:"parseErrNew"`
	GenErrOld   string   `json:"genErrOld"`
	GenErrNew   string   `json:"genErrNew"`
	GenWarnNew  string   `json:"genWarnNew"`
	ShapeOld    []string `json:"shapeOld"` // structure of the parsed ASTs (binds the rendered text to the model)
	ShapeNew    []string `json:"shapeNew"`
	Panic       string   `json:"panic"`
}

func parse(text, name string) (*tlast.TL, error) {
	// cmd/tlgen/main2.go parseTlFile(file, replaceStrange=true)
	for _, s := range []string{
		"_ {X:Type} result:X = ReqResult X;",
		"engine.query {X:Type} query:!X = engine.Query;",
		"engine.queryShortened query:%(VectorTotal int) = engine.Query;"} {
		text = strings.ReplaceAll(text, s, "")
	}
	return tlast.ParseTLFile(text, name, tlast.LexerOptions{AllowBuiltin: false, AllowDirty: false})
}

func errText(err error) string {
	if err == nil {
		return ""
	}
	s := err.Error()
	if s == "" {
		s = "error"
	}
	return s
}

func gen(ast []*tlast.Combinator) (errS string, warn string) {
	var w bytes.Buffer
	opt := tlcodegen.Gen2Options{ErrorWriter: &w, TypesWhiteList: "*", UseCheckLengthSanity: true}
	_, err := tlcodegen.GenerateCode(ast, tlast.TL2File{}, opt)
	return errText(err), w.String()
}

func refShape(t tlast.TypeRef) string {
	s := t.Type.String()
	if t.Bare {
		s = "%" + s
	}
	if len(t.Args) > 0 {
		as := make([]string, len(t.Args))
		for i, a := range t.Args {
			if a.IsArith {
				as[i] = fmt.Sprint(a.Arith.Res)
			} else {
				as[i] = refShape(a.T)
			}
		}
		s += "(" + strings.Join(as, ",") + ")"
	}
	return s
}

// shape renders every non-builtin combinator of a parsed file in a canonical form.
func shape(ast []*tlast.Combinator) []string {
	out := []string{}
	for _, c := range ast {
		if c.Builtin {
			continue
		}
		var sb strings.Builder
		if c.IsFunction {
			sb.WriteString("F ")
		} else {
			sb.WriteString("C ")
		}
		fmt.Fprintf(&sb, "%s #%08x explicit=%v {", c.Construct.Name.String(), c.Construct.ID, c.Construct.IDExplicit)
		for i, a := range c.TemplateArguments {
			if i > 0 {
				sb.WriteString(",")
			}
			sb.WriteString(a.FieldName)
			if !a.IsNat {
				sb.WriteString(":Type")
			}
		}
		sb.WriteString("} [")
		for i, f := range c.Fields {
			if i > 0 {
				sb.WriteString("|")
			}
			sb.WriteString(f.FieldName + ":")
			if f.Mask != nil {
				fmt.Fprintf(&sb, "%s.%d?", f.Mask.MaskName, f.Mask.BitNumber)
			}
			if f.IsRepeated {
				sb.WriteString("<repeated>")
			}
			sb.WriteString(refShape(f.FieldType))
		}
		sb.WriteString("] -> ")
		if c.IsFunction {
			sb.WriteString(refShape(c.FuncDecl))
		} else {
			sb.WriteString(c.TypeDecl.Name.String() + "(" + strings.Join(c.TypeDecl.Arguments, ",") + ")")
		}
		out = append(out, sb.String())
	}
	return out
}

func handle(q req) (r resp) {
	r.Messages = []string{}
	defer func() {
		if p := recover(); p != nil {
			r.Panic = fmt.Sprint(p)
			r.Accepted = false
		}
	}()
	oldTL, err := parse(q.Old, "old.tl")
	if err != nil {
		r.ParseErrOld = errText(err)
	}
	newTL, err := parse(q.New, "new.tl")
	if err != nil {
		r.ParseErrNew = errText(err)
	}
	if r.ParseErrOld != "" || r.ParseErrNew != "" {
		return r
	}
	oldAst := oldTL.Combinators()
	newAst := newTL.Combinators()
	r.ShapeOld = shape(oldAst)
	r.ShapeNew = shape(newAst)
	for i := range oldAst {
		oldAst[i].OriginalOrderIndex = i
	}
	for i := range newAst {
		newAst[i].OriginalOrderIndex = i
	}
	if q.Gen {
		r.GenErrNew, r.GenWarnNew = gen(newAst)
		r.GenErrOld, _ = gen(oldAst)
		// GenerateCode may rewrite the AST: parse again for the linter, as the CLI
		// parses the old file separately and passes the (already used) new ast.
		oldTL2, _ := parse(q.Old, "old.tl")
		oldAst = oldTL2.Combinators()
	}
	if compErr := tlcodegen.CheckBackwardCompatibility(newAst, oldAst); compErr != nil {
		r.Accepted = false
		var sb strings.Builder
		compErr.ConsolePrint(&sb, compErr, true)
		msg := compErr.Error()
		if msg == "" {
			msg = "incompatible"
		}
		r.Messages = append(r.Messages, msg, sb.String())
		return r
	}
	r.Accepted = true
	return r
}

func main() {
	rd := bufio.NewReaderSize(os.Stdin, 1<<22)
	wr := bufio.NewWriter(os.Stdout)
	for {
		line, err := rd.ReadBytes('\n')
		if len(bytes.TrimSpace(line)) > 1 {
			var q req
			var out resp
			if jerr := json.Unmarshal(line, &q); jerr != nil {
				out = resp{Panic: "bad request: " + jerr.Error(), Messages: []string{}}
			} else {
				out = handle(q)
			}
			b, _ := json.Marshal(out)
			wr.Write(b)
			wr.WriteByte('\n')
			wr.Flush()
		}
		if err != nil {
			if err != io.EOF {
				os.Exit(1)
			}
			return
		}
	}
}
