//go:build verif

// In-package accessors for the verification driver (overlaid as
// internal/tlast/verif_export.go at build time; never added to the repository).
package tlast

type VerifTok struct {
	Kind int
	Val  string
	Off  int
	Line int
	Col  int
}

// VerifLex runs the real lexer (including validateTokens) and reports the tokens
// it produced, the recombined text and the error.
func VerifLex(s string, opts LexerOptions) (toks []VerifTok, recombined string, err error) {
	lex := newLexer(s, "", opts)
	all, err := lex.generateTokens()
	for _, t := range all {
		toks = append(toks, VerifTok{Kind: t.tokenType, Val: t.val, Off: t.pos.offset, Line: t.pos.line, Col: t.pos.column})
	}
	return toks, lex.recombineTokens(), err
}

// VerifPos exposes the unexported fields of a Position.
func (p Position) VerifPos() (line, column, startLineOffset, offset int) {
	return p.line, p.column, p.startLineOffset, p.offset
}

func (descriptor *Combinator) VerifCanonicalForm() string { return descriptor.canonicalForm() }

func (descriptor *Combinator) VerifCanonicalFormWithTag() string {
	return descriptor.canonicalFormWithTag()
}
