//go:build verif

// syntax driver: runs the real TL1/TL2 lexer, parsers, printers and the canonical
// form of internal/tlast on texts produced from the TLSyntax / TL2Syntax
// specifications.  NDJSON on stdin/stdout; injected into the repository tree with
// `go build -overlay` (together with internal/tlast/verif_export.go).
package main

import (
	"bufio"
	"bytes"
	"encoding/base64"
	"encoding/json"
	"errors"
	"fmt"
	"math/rand"
	"os"
	"strings"

	"flag"
	"io"
	"path/filepath"

	"github.com/VKCOM/tl/internal/pure"
	"github.com/VKCOM/tl/internal/puregen"
	"github.com/VKCOM/tl/internal/puregen/gencanonical"
	"github.com/VKCOM/tl/internal/tlast"
)

type req struct {
	Op    string   `json:"op"`
	Texts []string `json:"texts"`
	Lang  int      `json:"lang"` // lex: 1 | 2
	B64   bool     `json:"b64"`  // texts are base64 (needed for invalid UTF-8)
	// which parts of the answer are wanted (all cheap, but they make replies big)
	WantAST   bool `json:"ast"`
	WantPrint bool `json:"print"`
	WantCanon bool `json:"canon"`
	WantLex   bool `json:"lex"`
	// canonical listing in-process: schemas[i] = list of [file name, content]
	Schemas [][][2]string `json:"schemas"`
	// random traces
	N    int    `json:"count"`
	Seed int64  `json:"seed"`
	Out  string `json:"out"`
}

type num [2]int // hi, lo 16-bit halves of a uint32 (TLC integers are 32-bit signed)

func mkNum(v uint32) num { return num{int(v >> 16), int(v & 0xffff)} }

// ---------------------------------------------------------------------------
// neutral AST forms (identical in shape to the records of the specifications)

type targ struct {
	N   string `json:"n"`
	Nat bool   `json:"nat"`
}

type typ1 struct {
	B  bool   `json:"b"`
	Ns string `json:"ns"`
	Nm string `json:"nm"`
	As []arg1 `json:"as"`
}

type arg1 struct {
	Ar []num  `json:"ar"`
	T  []typ1 `json:"t"`
}

type mask1 struct {
	N   string `json:"n"`
	Bit num    `json:"bit"`
}

type rep1 struct {
	Sk   string   `json:"sk"` // none | name | ar
	Sn   string   `json:"sn"`
	Sa   []num    `json:"sa"`
	Body []field1 `json:"body"`
}

type field1 struct {
	N   string  `json:"n"`
	M   []mask1 `json:"m"`
	Ex  bool    `json:"ex"`
	Rep []rep1  `json:"rep"`
	T   []typ1  `json:"t"`
}

type comb1 struct {
	Mods []string `json:"mods"`
	Ns   string   `json:"ns"`
	Nm   string   `json:"nm"`
	Tag  string   `json:"tag"` // explicit tag (8 hex digits) or ""
	Ta   []targ   `json:"ta"`
	Bi   bool     `json:"bi"`
	Fs   []field1 `json:"fs"`
	Fn   bool     `json:"fn"`
	Dns  string   `json:"dns"`
	Dnm  string   `json:"dnm"`
	Da   []string `json:"da"`
	Res  []typ1   `json:"res"`
}

func dumpType1(t tlast.TypeRef) typ1 {
	r := typ1{B: t.Bare, Ns: t.Type.Namespace, Nm: t.Type.Name, As: []arg1{}}
	for _, a := range t.Args {
		if a.IsArith {
			x := arg1{Ar: []num{}, T: []typ1{}}
			for _, n := range a.Arith.Nums {
				x.Ar = append(x.Ar, mkNum(n))
			}
			r.As = append(r.As, x)
		} else {
			r.As = append(r.As, arg1{Ar: []num{}, T: []typ1{dumpType1(a.T)}})
		}
	}
	return r
}

func dumpField1(f tlast.Field) field1 {
	r := field1{N: f.FieldName, M: []mask1{}, Ex: f.Excl, Rep: []rep1{}, T: []typ1{}}
	if f.Mask != nil {
		r.M = append(r.M, mask1{N: f.Mask.MaskName, Bit: mkNum(f.Mask.BitNumber)})
	}
	if f.IsRepeated {
		x := rep1{Sk: "none", Sa: []num{}, Body: []field1{}}
		if f.ScaleRepeat.ExplicitScale {
			if f.ScaleRepeat.Scale.IsArith {
				x.Sk = "ar"
				for _, n := range f.ScaleRepeat.Scale.Arith.Nums {
					x.Sa = append(x.Sa, mkNum(n))
				}
			} else {
				x.Sk = "name"
				x.Sn = f.ScaleRepeat.Scale.Scale
			}
		}
		for _, b := range f.ScaleRepeat.Rep {
			x.Body = append(x.Body, dumpField1(b))
		}
		r.Rep = append(r.Rep, x)
	} else {
		r.T = append(r.T, dumpType1(f.FieldType))
	}
	return r
}

func dumpComb1(c *tlast.Combinator) comb1 {
	r := comb1{Mods: []string{}, Ns: c.Construct.Name.Namespace, Nm: c.Construct.Name.Name, Ta: []targ{},
		Bi: c.Builtin, Fs: []field1{}, Fn: c.IsFunction, Da: []string{}, Res: []typ1{}}
	for _, m := range c.Modifiers {
		r.Mods = append(r.Mods, m.Name)
	}
	if c.Construct.IDExplicit {
		r.Tag = fmt.Sprintf("%08x", c.Construct.ID)
	}
	for _, a := range c.TemplateArguments {
		r.Ta = append(r.Ta, targ{N: a.FieldName, Nat: a.IsNat})
	}
	for _, f := range c.Fields {
		r.Fs = append(r.Fs, dumpField1(f))
	}
	if c.IsFunction {
		r.Res = append(r.Res, dumpType1(c.FuncDecl))
	} else {
		r.Dns, r.Dnm = c.TypeDecl.Name.Namespace, c.TypeDecl.Name.Name
		r.Da = append(r.Da, c.TypeDecl.Arguments...)
	}
	return r
}

// ---- TL2

type type2 struct {
	Br bool    `json:"br"`
	Ix []arg2  `json:"ix"`
	El []type2 `json:"el"`
	Ns string  `json:"ns"`
	Nm string  `json:"nm"`
	As []arg2  `json:"as"`
}

type arg2 struct {
	Num []num   `json:"num"`
	T   []type2 `json:"t"`
}

type field2 struct {
	N   string `json:"n"`
	Opt bool   `json:"opt"`
	Ign bool   `json:"ign"`
	T   type2    `json:"t"`
	Cb  []string `json:"cb"` // lines of the comment before, each trimmed (the neutral form)
	Cr  string   `json:"cr"`
}

type variant2 struct {
	Nm string   `json:"nm"`
	Al bool     `json:"al"`
	T  []type2  `json:"t"`
	Fs []field2 `json:"fs"`
	Cb []string `json:"cb"`
}

type def2 struct {
	Al bool       `json:"al"`
	T  []type2    `json:"t"`
	Un bool       `json:"un"`
	Fs []field2   `json:"fs"`
	Vs []variant2 `json:"vs"`
}

type comb2 struct {
	An   []string `json:"an"`
	Ns   string   `json:"ns"`
	Nm   string   `json:"nm"`
	Mg   string   `json:"mg"`
	Fn   bool     `json:"fn"`
	Ta   []targ   `json:"ta"`
	Def  []def2   `json:"def"`
	Args []field2 `json:"args"`
	Ret  []def2   `json:"ret"`
	Cb   []string `json:"cb"`
}

func cmtLines(s string) []string {
	out := []string{}
	if s == "" {
		return out
	}
	for _, l := range strings.Split(s, "\n") {
		out = append(out, strings.TrimSpace(l))
	}
	return out
}

func dumpArg2(a tlast.TL2TypeArgument) arg2 {
	if a.IsNumber {
		return arg2{Num: []num{mkNum(a.Number)}, T: []type2{}}
	}
	return arg2{Num: []num{}, T: []type2{dumpType2(a.Type)}}
}

func dumpType2(t tlast.TL2TypeRef) type2 {
	r := type2{Ix: []arg2{}, El: []type2{}, As: []arg2{}}
	if t.BracketType != nil {
		r.Br = true
		if t.BracketType.HasIndex {
			r.Ix = append(r.Ix, dumpArg2(t.BracketType.IndexType))
		}
		r.El = append(r.El, dumpType2(t.BracketType.ArrayType))
		return r
	}
	r.Ns, r.Nm = t.SomeType.Name.Namespace, t.SomeType.Name.Name
	for _, a := range t.SomeType.Arguments {
		r.As = append(r.As, dumpArg2(a))
	}
	return r
}

func dumpFields2(fs []tlast.TL2Field) []field2 {
	r := []field2{}
	for _, f := range fs {
		r = append(r, field2{N: f.Name, Opt: f.IsOptional, Ign: f.IsIgnored, T: dumpType2(f.Type), Cb: cmtLines(f.CommentBefore), Cr: f.CommentRight})
	}
	return r
}

func dumpDef2(d tlast.TL2TypeDefinition) def2 {
	r := def2{Al: d.IsTypeAlias, T: []type2{}, Fs: []field2{}, Vs: []variant2{}}
	if d.IsTypeAlias {
		r.T = append(r.T, dumpType2(d.TypeAlias))
		return r
	}
	if d.StructType.IsUnionType {
		r.Un = true
		for _, v := range d.StructType.UnionType.Variants {
			x := variant2{Nm: v.Name, Al: v.IsTypeAlias, T: []type2{}, Fs: []field2{}, Cb: cmtLines(v.CommentBefore)}
			if v.IsTypeAlias {
				x.T = append(x.T, dumpType2(v.TypeAlias))
			} else {
				x.Fs = dumpFields2(v.Fields)
			}
			r.Vs = append(r.Vs, x)
		}
		return r
	}
	r.Fs = dumpFields2(d.StructType.ConstructorFields)
	return r
}

func dumpComb2(c tlast.TL2Combinator) comb2 {
	r := comb2{An: []string{}, Fn: c.IsFunction, Ta: []targ{}, Def: []def2{}, Args: []field2{}, Ret: []def2{}, Cb: cmtLines(c.CommentBefore)}
	for _, a := range c.Annotations {
		r.An = append(r.An, a.Name)
	}
	if c.IsFunction {
		r.Ns, r.Nm = c.FuncDecl.Name.Namespace, c.FuncDecl.Name.Name
		if c.FuncDecl.Magic != 0 {
			r.Mg = fmt.Sprintf("%08x", c.FuncDecl.Magic)
		}
		r.Args = dumpFields2(c.FuncDecl.Arguments)
		r.Ret = append(r.Ret, dumpDef2(c.FuncDecl.ReturnType))
	} else {
		r.Ns, r.Nm = c.TypeDecl.Name.Namespace, c.TypeDecl.Name.Name
		if c.TypeDecl.Magic != 0 {
			r.Mg = fmt.Sprintf("%08x", c.TypeDecl.Magic)
		}
		for _, a := range c.TypeDecl.TemplateArguments {
			r.Ta = append(r.Ta, targ{N: a.Name, Nat: a.Category.IsNatValue})
		}
		r.Def = append(r.Def, dumpDef2(c.TypeDecl.Type))
	}
	return r
}

// ---------------------------------------------------------------------------

type posInfo struct {
	Off  int `json:"off"`
	Line int `json:"line"`
	Col  int `json:"col"`
	SLO  int `json:"slo"`
}

func mkPos(p tlast.Position) posInfo {
	l, c, s, o := p.VerifPos()
	return posInfo{Off: o, Line: l, Col: c, SLO: s}
}

type errInfo struct {
	Msg          string  `json:"msg"`
	IsPE         bool    `json:"pe"` // a *ParseError is in the chain
	Begin        posInfo `json:"begin"`
	End          posInfo `json:"end"`
	Outer        posInfo `json:"outer"`
	SameContent  bool    `json:"same_content"` // positions refer to the parsed text
	ConsolePanic string  `json:"console_panic,omitempty"`
	ConsoleLen   int     `json:"console_len"`
	Corrupted    bool    `json:"corrupted"` // ConsolePrint reported "context corrupted"
	MsgPanic     string  `json:"msg_panic,omitempty"`
}

func describeErr(err error, text string) (ei *errInfo) {
	ei = &errInfo{}
	func() {
		defer func() {
			if r := recover(); r != nil {
				ei.MsgPanic = fmt.Sprint(r)
			}
		}()
		ei.Msg = err.Error()
	}()
	var pe *tlast.ParseError
	if errors.As(err, &pe) {
		ei.IsPE = true
		ei.Begin, ei.End, ei.Outer = mkPos(pe.Pos.Begin), mkPos(pe.Pos.End), mkPos(pe.Pos.Outer)
		ei.SameContent = pe.Pos.Begin.FileContent() == text && pe.Pos.End.FileContent() == text
		func() {
			defer func() {
				if r := recover(); r != nil {
					ei.ConsolePanic = fmt.Sprint(r)
				}
			}()
			var buf bytes.Buffer
			pe.ConsolePrint(&buf, err, false)
			pe.PrintWarning(&buf, nil)
			ei.ConsoleLen = buf.Len()
			ei.Corrupted = bytes.Contains(buf.Bytes(), []byte("context corrupted"))
		}()
	}
	return ei
}

type tokInfo struct {
	K   int    `json:"k"`
	V   string `json:"v"`
	Off int    `json:"off"`
	N   int    `json:"n"` // byte length (V may be altered by JSON when it is not valid UTF-8)
	L   int    `json:"l"`
	C   int    `json:"c"`
}

type result struct {
	Panic      string    `json:"panic,omitempty"`
	OK         bool      `json:"ok"`
	Err        *errInfo  `json:"err,omitempty"`
	Combs1     []comb1   `json:"combs1,omitempty"`
	Combs2     []comb2   `json:"combs2,omitempty"`
	NCombs     int       `json:"ncombs"`
	Secs       []string  `json:"secs,omitempty"` // order of sections and combinators: "T" "F" "c"
	Crc        []string  `json:"crc,omitempty"`
	Canon      []string  `json:"canon,omitempty"`
	CanonTag   []string  `json:"canontag,omitempty"`
	Print      string    `json:"print"`
	PrintC     string    `json:"printc"` // TL2 canonical options
	PrintPanic string    `json:"print_panic,omitempty"`
	Toks       []tokInfo `json:"toks,omitempty"`
	Recombined bool      `json:"recombined"`
	LexErr     *errInfo  `json:"lexerr,omitempty"`
}

func lexOne(text string, lang int) (r result) {
	defer func() {
		if p := recover(); p != nil {
			r.Panic = fmt.Sprint(p)
		}
	}()
	opts := tlast.LexerOptions{LexerLanguage: tlast.TL1}
	if lang == 2 {
		opts.LexerLanguage = tlast.TL2
	}
	toks, rec, err := tlast.VerifLex(text, opts)
	r.Toks = []tokInfo{}
	for _, t := range toks {
		r.Toks = append(r.Toks, tokInfo{K: t.Kind, V: t.Val, Off: t.Off, N: len(t.Val), L: t.Line, C: t.Col})
	}
	r.Recombined = rec == text
	r.OK = err == nil
	if err != nil {
		r.LexErr = describeErr(err, text)
	}
	return r
}

func tl1One(text string, q *req) (r result) {
	defer func() {
		if p := recover(); p != nil {
			r.Panic = fmt.Sprint(p)
		}
	}()
	tl, err := tlast.ParseTLFile(text, "f.tl", tlast.LexerOptions{LexerLanguage: tlast.TL1})
	if err != nil {
		r.Err = describeErr(err, text)
		return r
	}
	if tl == nil {
		r.Panic = "nil schema returned without an error"
		return r
	}
	r.OK = true
	r.NCombs = len(tl.Combinators())
	for _, cs := range tl.CS {
		switch {
		case cs.C != nil:
			r.Secs = append(r.Secs, "c")
		case cs.S.IsFunctions:
			r.Secs = append(r.Secs, "F")
		default:
			r.Secs = append(r.Secs, "T")
		}
	}
	for _, c := range tl.Combinators() {
		if q.WantAST {
			r.Combs1 = append(r.Combs1, dumpComb1(c))
		}
		r.Crc = append(r.Crc, fmt.Sprintf("%08x", c.Crc32()))
		if q.WantCanon {
			r.Canon = append(r.Canon, c.VerifCanonicalForm())
			r.CanonTag = append(r.CanonTag, c.VerifCanonicalFormWithTag())
		}
	}
	if q.WantPrint {
		func() {
			defer func() {
				if p := recover(); p != nil {
					r.PrintPanic = fmt.Sprint(p)
				}
			}()
			r.Print = tl.String()
		}()
	}
	return r
}

func tl2One(text string, q *req) (r result) {
	defer func() {
		if p := recover(); p != nil {
			r.Panic = fmt.Sprint(p)
		}
	}()
	f, err := tlast.ParseTL2File(text, "f.tl2", tlast.LexerOptions{LexerLanguage: tlast.TL2})
	if err != nil {
		r.Err = describeErr(err, text)
		return r
	}
	r.OK = true
	r.NCombs = len(f.Combinators)
	if q.WantAST {
		for _, c := range f.Combinators {
			r.Combs2 = append(r.Combs2, dumpComb2(c))
		}
	}
	if q.WantPrint {
		func() {
			defer func() {
				if p := recover(); p != nil {
					r.PrintPanic = fmt.Sprint(p)
				}
			}()
			var sb strings.Builder
			f.Print(&sb, tlast.NewDefaultFormatOptions())
			r.Print = sb.String()
			if r.Print != f.String() {
				r.PrintPanic = "TL2File.String() differs from Print(default options)"
			}
			var sc strings.Builder
			f.Print(&sc, tlast.NewCanonicalFormatOptions())
			r.PrintC = sc.String()
		}()
	}
	return r
}

// canonicalOne does what cmd/tl2gen does for --language=canonical (same options binding, kernel, generator),
// inside this process: the process start of the CLI dominates otherwise.  The check also runs the real CLI on a
// sample and requires identical output.
func canonicalOne(files [][2]string) (res map[string]any) {
	res = map[string]any{}
	defer func() {
		if p := recover(); p != nil {
			res["panic"] = fmt.Sprint(p)
		}
	}()
	dir, err := os.MkdirTemp("", "verif-canon-")
	if err != nil {
		res["harness_error"] = err.Error()
		return res
	}
	defer os.RemoveAll(dir)
	old, _ := os.Getwd()
	if err := os.Chdir(dir); err != nil {
		res["harness_error"] = err.Error()
		return res
	}
	defer os.Chdir(old)
	var names []string
	for _, f := range files {
		if err := os.WriteFile(filepath.Join(dir, f[0]), []byte(f[1]), 0o644); err != nil {
			res["harness_error"] = err.Error()
			return res
		}
		names = append(names, f[0])
	}
	var errOut bytes.Buffer
	opt := puregen.Options{ErrorWriter: &errOut}
	fs := flag.NewFlagSet("tl2gen", flag.ContinueOnError)
	fs.SetOutput(io.Discard)
	opt.Bind(fs, "")
	if err := fs.Parse(append([]string{"--language=canonical", "--outfile=canonical.out"}, names...)); err != nil {
		res["harness_error"] = err.Error()
		return res
	}
	run := func() error {
		if err := opt.Validate(); err != nil {
			return err
		}
		kernel := pure.NewKernel(&opt.Kernel)
		if err := kernel.AddFilesFromPaths(fs.Args()); err != nil {
			return err
		}
		return gencanonical.Generate(kernel, &opt)
	}
	if err := run(); err != nil {
		res["accepted"] = false
		res["error"] = err.Error()
		return res
	}
	b, err := os.ReadFile(filepath.Join(dir, "canonical.out"))
	if err != nil {
		res["harness_error"] = "no listing written: " + err.Error()
		return res
	}
	res["accepted"] = true
	res["listing"] = string(b)
	return res
}

func handle(q *req) map[string]any {
	out := map[string]any{}
	if q.B64 {
		for i, t := range q.Texts {
			b, err := base64.StdEncoding.DecodeString(t)
			if err != nil {
				return map[string]any{"panic": "bad base64: " + err.Error()}
			}
			q.Texts[i] = string(b)
		}
	}
	switch q.Op {
	case "lex":
		rs := make([]result, len(q.Texts))
		for i, t := range q.Texts {
			rs[i] = lexOne(t, q.Lang)
		}
		out["res"] = rs
	case "tl1":
		rs := make([]result, len(q.Texts))
		for i, t := range q.Texts {
			rs[i] = tl1One(t, q)
			if q.WantLex {
				l := lexOne(t, 1)
				rs[i].Toks, rs[i].Recombined, rs[i].LexErr = l.Toks, l.Recombined, l.LexErr
				if l.Panic != "" && rs[i].Panic == "" {
					rs[i].Panic = "lexer: " + l.Panic
				}
			}
		}
		out["res"] = rs
	case "tl2":
		rs := make([]result, len(q.Texts))
		for i, t := range q.Texts {
			rs[i] = tl2One(t, q)
			if q.WantLex {
				l := lexOne(t, 2)
				rs[i].Toks, rs[i].Recombined, rs[i].LexErr = l.Toks, l.Recombined, l.LexErr
				if l.Panic != "" && rs[i].Panic == "" {
					rs[i].Panic = "lexer: " + l.Panic
				}
			}
		}
		out["res"] = rs
	case "canonical":
		rs := make([]map[string]any, len(q.Schemas))
		for i, sch := range q.Schemas {
			rs[i] = canonicalOne(sch)
		}
		out["res"] = rs
	case "randtrace1":
		n, err := randTrace1(q)
		out["events"] = n
		if err != nil {
			out["panic"] = err.Error()
		}
	case "randtrace2":
		n, err := randTrace2(q)
		out["events"] = n
		if err != nil {
			out["panic"] = err.Error()
		}
	default:
		out["panic"] = "unknown op " + q.Op
	}
	return out
}

// ---------------------------------------------------------------------------
// code -> spec: random schemas written by a seeded generator that is independent
// of the specification; the real parser's AST, canonical form, printed form and
// tag are recorded and validated by TLC (TraceTLSyntax / TraceTL2Syntax).

type gen struct {
	r *rand.Rand
}

func (g *gen) pick(xs ...string) string { return xs[g.r.Intn(len(xs))] }
func (g *gen) chance(p int) bool        { return g.r.Intn(100) < p }

func (g *gen) ws() string {
	switch g.r.Intn(12) {
	case 0:
		return "  "
	case 1:
		return "\t"
	case 2:
		return "\n"
	case 3:
		return " // c\n"
	case 4:
		return "\r\n"
	}
	return " "
}

func (g *gen) lc() string { return g.pick("a", "b", "foo", "x1", "q_w", "int", "n", "k") }
func (g *gen) uc() string { return g.pick("A", "Foo", "T", "X", "Int", "Vector", "Q_1") }
func (g *gen) lcns() string {
	if g.chance(30) {
		return g.pick("ns", "a", "m1") + "." + g.lc()
	}
	return g.lc()
}
func (g *gen) ucns() string {
	if g.chance(30) {
		return g.pick("ns", "a", "m1") + "." + g.uc()
	}
	return g.uc()
}

func (g *gen) number() string {
	switch g.r.Intn(10) {
	case 0:
		return "0"
	case 1:
		return "4294967294"
	case 2:
		return "2147483648"
	case 3:
		return "65536"
	case 4:
		return "007"
	}
	return fmt.Sprint(g.r.Intn(40))
}

func (g *gen) arith(depth int) string {
	switch {
	case depth > 0 && g.chance(30):
		return "(" + g.arith(depth-1) + ")"
	case depth > 0 && g.chance(40):
		return fmt.Sprint(g.r.Intn(9)) + g.pick("+", " + ", "+ ") + g.arith(depth-1)
	}
	return g.number()
}

// type expression; top = may be written as a bare application (function result)
func (g *gen) typ(depth int, top bool) string {
	if g.chance(12) && !top {
		return "#"
	}
	bare := ""
	if g.chance(20) {
		bare = "%"
	}
	name := g.lcns()
	if g.chance(50) {
		name = g.ucns()
	}
	if depth == 0 || g.chance(45) {
		return bare + name
	}
	n := 1 + g.r.Intn(2)
	var args []string
	for i := 0; i < n; i++ {
		if g.chance(30) {
			if g.chance(50) {
				args = append(args, g.number())
			} else {
				args = append(args, "("+g.arith(1)+")")
			}
		} else {
			args = append(args, g.typ(depth-1, false))
		}
	}
	switch {
	case top && g.chance(40):
		return bare + name + " " + strings.Join(args, g.ws())
	case g.chance(50):
		for i := range args { // inside <> an argument may itself be a bare application
			args[i] = strings.TrimSuffix(strings.TrimPrefix(args[i], "("), ")")
			if strings.ContainsAny(args[i], "+") {
				args[i] = "(" + args[i] + ")"
			}
		}
		return bare + name + "<" + strings.Join(args, g.pick(",", ", ", " ,")) + ">"
	}
	s := "(" + name + " " + strings.Join(args, " ") + ")"
	if bare != "" && g.chance(50) {
		return "(" + bare + name + " " + strings.Join(args, " ") + ")"
	}
	return bare + s
}

func (g *gen) field(depth int, nats []string) string {
	s := ""
	if g.chance(75) {
		s += g.pick(g.lc(), g.uc()) + ":"
	}
	if len(nats) > 0 && g.chance(30) {
		s += nats[g.r.Intn(len(nats))] + "." + g.pick("0", "1", "31", "32", "4294967295") + "?"
	}
	if g.chance(10) {
		s += "!"
	}
	if depth > 0 && g.chance(25) {
		switch g.r.Intn(4) {
		case 0:
		case 1:
			s += g.pick("n", "k", "a") + "*"
		case 2:
			s += g.number() + "*"
		case 3:
			s += "(" + g.arith(1) + ")" + g.pick("*", " * ")
		}
		s += "["
		n := g.r.Intn(3)
		for i := 0; i < n; i++ {
			s += g.ws() + g.field(depth-1, nats)
		}
		return s + g.pick("", " ") + "]"
	}
	return s + g.typ(2, false)
}

func (g *gen) combinator(fn bool) string {
	var b strings.Builder
	for g.chance(25) {
		b.WriteString("@" + g.pick("any", "read", "write", "readwrite", "internal", "kphp") + g.ws())
	}
	b.WriteString(g.lcns())
	if g.chance(30) {
		b.WriteString(fmt.Sprintf("#%08x", g.r.Uint32()|1))
	}
	var nats []string
	for g.chance(25) {
		n := g.pick("n", "t", "X", "k")
		if g.chance(50) {
			b.WriteString(g.ws() + "{" + n + ":#}")
			nats = append(nats, n)
		} else {
			b.WriteString(g.ws() + "{" + n + g.pick(":", " : ") + "Type}")
		}
	}
	if !fn && g.chance(8) {
		b.WriteString(g.ws() + "?")
	} else {
		for g.chance(60) {
			b.WriteString(g.ws() + g.field(2, append(nats, "n", "k")))
		}
	}
	if fn {
		b.WriteString(g.ws() + g.pick("=", "=", "=>") + g.ws())
		t := g.typ(2, true)
		if strings.HasPrefix(t, "(") || strings.HasPrefix(t, "%(") { // round brackets are not allowed at the top of a result
			t = g.ucns()
		}
		b.WriteString(t)
	} else {
		b.WriteString(g.ws() + "=" + g.ws() + g.ucns())
		for g.chance(30) {
			b.WriteString(" " + g.pick("n", "t", "X", "k"))
		}
	}
	b.WriteString(g.pick(";", " ;"))
	return b.String()
}

func writeTrace(path string, f func(enc *json.Encoder) (int, error)) (int, error) {
	file, err := os.Create(path)
	if err != nil {
		return 0, err
	}
	defer file.Close()
	bw := bufio.NewWriter(file)
	defer bw.Flush()
	enc := json.NewEncoder(bw)
	enc.SetEscapeHTML(false)
	return f(enc)
}

func randTrace1(q *req) (int, error) {
	g := &gen{r: rand.New(rand.NewSource(q.Seed))}
	return writeTrace(q.Out, func(enc *json.Encoder) (n int, err error) {
		defer func() {
			if p := recover(); p != nil {
				err = fmt.Errorf("panic while recording: %v", p)
			}
		}()
		for n < q.N {
			fn := g.chance(35)
			text := g.combinator(fn)
			if fn {
				text = "---functions---\n" + text
			}
			tl, perr := tlast.ParseTLFile(text, "f.tl", tlast.LexerOptions{LexerLanguage: tlast.TL1})
			if perr != nil {
				// the generator aims at valid text, but e.g. an arithmetic overflow is legitimately rejected
				_ = enc.Encode(map[string]any{"ev": "reject", "text": text})
				n++
				continue
			}
			for _, c := range tl.Combinators() {
				_ = enc.Encode(map[string]any{"ev": "comb", "text": text, "ast": dumpComb1(c),
					"canon": c.VerifCanonicalForm(), "print": c.String(), "crc": fmt.Sprintf("%08x", c.Crc32()),
					"listing": c.VerifCanonicalFormWithTag()})
				n++
			}
		}
		return n, nil
	})
}

// ---- TL2 generator

func (g *gen) name2() string {
	if g.chance(30) {
		return g.pick("ns", "a", "m1") + "." + g.pick(g.lc(), g.uc())
	}
	return g.pick(g.lc(), g.uc())
}

func (g *gen) type2(depth int) string {
	if depth > 0 && g.chance(30) {
		switch g.r.Intn(3) {
		case 0:
			return "[]" + g.type2(depth-1)
		case 1:
			return "[" + g.pick("3", "0", "4294967295", "n") + "]" + g.type2(depth-1)
		}
		return "[" + g.type2(depth-1) + "]" + g.type2(depth-1)
	}
	s := g.name2()
	if depth > 0 && g.chance(35) {
		n := 1 + g.r.Intn(2)
		var args []string
		for i := 0; i < n; i++ {
			if g.chance(25) {
				args = append(args, g.number())
			} else {
				args = append(args, g.type2(depth-1))
			}
		}
		s += "<" + strings.Join(args, g.pick(",", ", ", " , ")) + ">"
	}
	return s
}

func (g *gen) cmt2() string {
	switch {
	case g.chance(15):
		return "// " + g.pick("c", "tlgen:tl1name:\"x\"", "  spaced  ", "a // b") + "\n" + g.pick("", "\t", "    ")
	case g.chance(6): // several lines, the later ones indented
		return "// first\n" + g.pick("\t", "  ", "") + "// second  \n" + g.pick("\t\t// third\n", "") + g.pick("", "\t")
	}
	return ""
}

func (g *gen) field2() string {
	s := g.cmt2()
	switch g.r.Intn(8) {
	case 0:
		s += "_:"
	case 1:
		s += "_" + g.lc() + ":"
	case 2:
		s += g.lc() + "?:"
	default:
		s += g.pick(g.lc(), g.uc()) + ":"
	}
	return s + g.type2(2)
}

func (g *gen) fields2(max int, long bool) string {
	n := g.r.Intn(max + 1)
	var fs []string
	for i := 0; i < n; i++ {
		f := g.field2()
		if long && g.chance(30) {
			f = strings.Repeat("z", 20+g.r.Intn(60)) + f
		}
		fs = append(fs, f)
	}
	return strings.Join(fs, g.ws())
}

func (g *gen) combinator2() string {
	var b strings.Builder
	b.WriteString(g.cmt2())
	for g.chance(20) {
		b.WriteString("@" + g.pick("read", "any", "x1") + g.ws())
	}
	b.WriteString(g.name2())
	long := g.chance(40)
	switch g.r.Intn(5) {
	case 0: // function
		b.WriteString(fmt.Sprintf("#%08x", g.r.Uint32()|1))
		b.WriteString(" " + g.fields2(3, long) + g.ws() + "=>" + g.ws())
		switch g.r.Intn(4) {
		case 0:
			b.WriteString("<=> " + g.type2(2))
		case 1:
			b.WriteString(g.type2(2))
		case 2:
			b.WriteString(g.fields2(2, long))
		case 3:
			b.WriteString("| " + g.lc() + " " + g.fields2(2, false) + " | " + g.uc())
		}
	case 1: // alias
		if g.chance(30) {
			b.WriteString(fmt.Sprintf("#%08x", g.r.Uint32()|1))
		}
		b.WriteString(g.ws() + "<=>" + g.ws() + g.type2(2))
	case 2: // union
		if g.chance(30) {
			b.WriteString("<" + g.pick("t", "X") + ":Type>")
		}
		b.WriteString(g.ws() + "=" + g.ws())
		n := 1 + g.r.Intn(3)
		for i := 0; i < n; i++ {
			if i > 0 || n == 1 || g.chance(50) {
				b.WriteString(g.cmt2() + "|" + g.pick(" ", ""))
			}
			b.WriteString(g.pick(g.lc(), g.uc(), "Type"))
			switch g.r.Intn(3) {
			case 0:
				b.WriteString(" " + g.type2(1))
			case 1:
				b.WriteString(" " + g.fields2(3, long))
			}
			b.WriteString(g.ws())
		}
	default: // struct
		if g.chance(30) {
			b.WriteString(fmt.Sprintf("#%08x", g.r.Uint32()|1))
		}
		if g.chance(30) {
			b.WriteString("<" + g.pick("t", "X") + ":Type" + g.pick(",", ", ") + g.pick("n", "k") + ":#>")
		}
		b.WriteString(g.ws() + "=" + g.ws() + g.fields2(4, long))
	}
	b.WriteString(g.pick(";", " ;", "\n;"))
	return b.String()
}

func randTrace2(q *req) (int, error) {
	g := &gen{r: rand.New(rand.NewSource(q.Seed))}
	return writeTrace(q.Out, func(enc *json.Encoder) (n int, err error) {
		defer func() {
			if p := recover(); p != nil {
				err = fmt.Errorf("panic while recording: %v", p)
			}
		}()
		for n < q.N {
			text := g.combinator2()
			f, perr := tlast.ParseTL2File(text, "f.tl2", tlast.LexerOptions{LexerLanguage: tlast.TL2})
			if perr != nil {
				_ = enc.Encode(map[string]any{"ev": "reject", "text": text})
				n++
				continue
			}
			for _, c := range f.Combinators {
				var sd, sc strings.Builder
				c.Print(&sd, tlast.NewDefaultFormatOptions())
				c.Print(&sc, tlast.NewCanonicalFormatOptions())
				_ = enc.Encode(map[string]any{"ev": "comb", "text": text, "ast": dumpComb2(c), "fmt": sd.String(), "fmtc": sc.String()})
				n++
			}
		}
		return n, nil
	})
}

func main() {
	rd := bufio.NewReaderSize(os.Stdin, 1<<24)
	wr := bufio.NewWriterSize(os.Stdout, 1<<20)
	// the code under test prints progress to os.Stdout; keep the protocol stream clean
	if null, err := os.OpenFile(os.DevNull, os.O_WRONLY, 0); err == nil {
		os.Stdout = null
	}
	for {
		line, err := rd.ReadBytes('\n')
		if len(line) > 1 {
			var q req
			var reply map[string]any
			if jerr := json.Unmarshal(line, &q); jerr != nil {
				reply = map[string]any{"panic": "bad request: " + jerr.Error()}
			} else {
				func() {
					defer func() {
						if p := recover(); p != nil {
							reply = map[string]any{"panic": fmt.Sprint(p)}
						}
					}()
					reply = handle(&q)
				}()
			}
			var buf bytes.Buffer
			enc := json.NewEncoder(&buf)
			enc.SetEscapeHTML(false)
			_ = enc.Encode(reply)
			wr.Write(buf.Bytes())
			wr.Flush()
		}
		if err != nil {
			return
		}
	}
}
