//go:build verif

// Sequential edge replay: every model process is a real goroutine.
package main

import (
	"context"
	"fmt"
	"runtime"
	"strconv"
	"strings"
	"sync/atomic"
	"time"

	"github.com/VKCOM/tl/internal/vkgo/pkg/semaphore"
)

type req struct {
	Op string `json:"op"`
	NP int    `json:"np"`
	// replay
	Cases      []caseT `json:"cases"`
	WatchdogMS int     `json:"watchdog_ms"`
	// mix
	Traces    int     `json:"traces"`
	Ops       int     `json:"ops"`
	Seed      int64   `json:"seed"`
	Weights   []int64 `json:"weights"`
	Sizes     []int64 `json:"sizes"`
	MaxForced int64   `json:"max_forced"`
	Out       string  `json:"out"`
}

const (
	cAcquire = iota
	cTry
	cRelease
	cForce
	cSetSize
)

type seqCmd struct {
	kind int
	n    int64
	ctx  context.Context
	sem  *semaphore.Weighted
}

type seqRet struct {
	P     int    `json:"p"`
	OK    bool   `json:"ok"`
	Panic string `json:"panic,omitempty"`
	kind  int
}

// goroutines: 0 = environment (ForceAcquire, Release of forced weight, SetSize),
// 1..np = the model processes, np+1 = the gate used to stage the CtxDoneAlreadyReady race.
type seqRun struct {
	sem    *semaphore.Weighted
	semID  uintptr
	np     int
	cmd    []chan seqCmd
	evCh   chan hookEv
	retCh  chan seqRet
	status []string
	w      []int64
	pend   []int64 // weight of the call in flight
	cancel []context.CancelFunc
	elem   []uintptr
	forced int64
	lastW  int
	// gate: the next "setsize" critical section announces itself and keeps s.mu until released
	gateArmed   int32
	gateEntered chan struct{}
	gateRelease chan struct{}
	watchdog    time.Duration
}

var seqCur atomic.Pointer[seqRun]

func seqHook(ev string, ok bool, n, cur, size int64, waiters int, id uintptr) {
	r := seqCur.Load()
	if r == nil || id != r.semID {
		return
	}
	e := hookEv{Ev: ev, OK: ok, N: n, Cur: cur, Size: size, W: waiters}
	if ev == "acq_enqueue" {
		e.elem = r.sem.VerifBackLocked()
	}
	if ev == "setsize" && atomic.CompareAndSwapInt32(&r.gateArmed, 1, 0) {
		e.Ev = "gate"
		r.evCh <- e
		close(r.gateEntered)
		<-r.gateRelease // s.mu stays locked meanwhile
		return
	}
	r.evCh <- e
}

func seqProcLoop(p int, cmd chan seqCmd, ret chan seqRet) {
	for c := range cmd {
		func() {
			res := seqRet{P: p, kind: c.kind, OK: true}
			defer func() {
				if x := recover(); x != nil {
					res.Panic = fmt.Sprint(x)
					res.OK = false
				}
				ret <- res
			}()
			switch c.kind {
			case cAcquire:
				res.OK = c.sem.Acquire(c.ctx, c.n) == nil
			case cTry:
				res.OK = c.sem.TryAcquire(c.n)
			case cRelease:
				c.sem.Release(c.n)
			case cForce:
				c.sem.ForceAcquire(c.n)
			case cSetSize:
				c.sem.SetSize(c.n)
			}
		}()
	}
}

type seqPool struct {
	np    int
	cmd   []chan seqCmd
	evCh  chan hookEv
	retCh chan seqRet
}

func newSeqPool(np int) *seqPool {
	sp := &seqPool{np: np, evCh: make(chan hookEv, 1024), retCh: make(chan seqRet, 1024)}
	for p := 0; p <= np+1; p++ {
		ch := make(chan seqCmd, 1)
		sp.cmd = append(sp.cmd, ch)
		go seqProcLoop(p, ch, sp.retCh)
	}
	return sp
}

func (sp *seqPool) close() {
	for _, ch := range sp.cmd {
		close(ch)
	}
}

type obsT struct {
	Cur    int64      `json:"cur"`
	Size   int64      `json:"size"`
	Forced int64      `json:"forced"`
	Q      [][2]int64 `json:"q"`
	St     []string   `json:"st"`
	W      []int64    `json:"w"`
	Evs    []hookEv   `json:"evs"`  // hook events of the last operation
	Rets   []seqRet   `json:"rets"` // calls that returned during the last operation
	Raced  string     `json:"raced,omitempty"`
	Err    string     `json:"err,omitempty"`
}

func parseLabel(l string) (name string, args []int64, err error) {
	i := strings.IndexByte(l, '(')
	if i < 0 || !strings.HasSuffix(l, ")") {
		return l, nil, nil
	}
	name = l[:i]
	for _, a := range strings.Split(l[i+1:len(l)-1], ",") {
		v, e := strconv.ParseInt(strings.TrimSpace(a), 10, 64)
		if e != nil {
			return "", nil, fmt.Errorf("bad label %q", l)
		}
		args = append(args, v)
	}
	return name, args, nil
}

type stuckErr string

func (e stuckErr) Error() string { return string(e) }

// The watchdog only detects a hang (a goroutine that never comes back); it is re-armed for
// every single wait and never orders events.
func (r *seqRun) waitEv(tm *time.Timer, what string) (hookEv, error) {
	tm.Reset(r.watchdog)
	select {
	case e := <-r.evCh:
		return e, nil
	case <-tm.C:
		return hookEv{}, stuckErr("stuck: no hook event for " + what)
	}
}

func (r *seqRun) waitRet(tm *time.Timer, what string) (seqRet, error) {
	tm.Reset(r.watchdog)
	select {
	case x := <-r.retCh:
		return x, nil
	case <-tm.C:
		return seqRet{}, stuckErr("stuck: " + what + " did not return")
	}
}

// applyRet books the return of a call.
func (r *seqRun) applyRet(x seqRet) {
	p := x.P
	switch x.kind {
	case cAcquire, cTry:
		if p < 1 || p > r.np {
			return
		}
		if x.OK {
			r.status[p] = "holding"
			r.w[p] = r.pend[p]
		} else {
			r.status[p] = "idle"
			r.w[p] = 0
		}
		r.elem[p] = 0
	}
}

// begin starts the operation of a model edge: bookkeeping of what the caller asked for,
// then the call is issued on the goroutine of the model process (or the cancellation is
// delivered). It returns the goroutine that executes the critical section.
func (r *seqRun) begin(label, name string, a []int64) (int, error) {
	switch name {
	case "AcquireFast", "AcquireDoomed", "AcquireEnqueue":
		p, n := int(a[0]), a[1]
		if r.status[p] != "idle" {
			return 0, fmt.Errorf("harness: %s but process is %s", label, r.status[p])
		}
		ctx, cancel := context.WithCancel(context.Background())
		r.cancel[p] = cancel
		r.pend[p] = n
		r.cmd[p] <- seqCmd{kind: cAcquire, n: n, ctx: ctx, sem: r.sem}
		return p, nil
	case "TryAcquireOK", "TryAcquireFail":
		p, n := int(a[0]), a[1]
		if r.status[p] != "idle" {
			return 0, fmt.Errorf("harness: %s but process is %s", label, r.status[p])
		}
		r.pend[p] = n
		r.cmd[p] <- seqCmd{kind: cTry, n: n, sem: r.sem}
		return p, nil
	case "Release":
		p, n := int(a[0]), a[1]
		if r.status[p] != "holding" || n > r.w[p] {
			return 0, fmt.Errorf("harness: %s but process is %s with %d", label, r.status[p], r.w[p])
		}
		if n == r.w[p] {
			r.status[p] = "idle"
		}
		r.w[p] -= n
		r.cmd[p] <- seqCmd{kind: cRelease, n: n, sem: r.sem}
		return p, nil
	case "ForceAcquire":
		r.forced += a[0]
		r.cmd[0] <- seqCmd{kind: cForce, n: a[0], sem: r.sem}
		return 0, nil
	case "ReleaseForced":
		if a[0] > r.forced {
			return 0, fmt.Errorf("harness: %s but only %d forced", label, r.forced)
		}
		r.forced -= a[0]
		r.cmd[0] <- seqCmd{kind: cRelease, n: a[0], sem: r.sem}
		return 0, nil
	case "SetSize":
		r.cmd[0] <- seqCmd{kind: cSetSize, n: a[0], sem: r.sem}
		return 0, nil
	case "CtxDoneRemove", "DoomedCancel":
		p := int(a[0])
		if st := r.status[p]; st != "waiting" && st != "doomed" {
			return 0, fmt.Errorf("harness: %s but process is %s", label, st)
		}
		r.cancel[p]()
		return p, nil
	}
	return 0, fmt.Errorf("unknown label %q", label)
}

// doOp performs one model edge on the real semaphore and returns when the system is
// quiescent again: the operation's goroutine has returned or has announced (through the
// hook, under s.mu) that it is going to block, and every waiter whose admission the hook
// reported has returned from Acquire.
func (r *seqRun) doOp(label string, tm *time.Timer, o *obsT) error {
	name, a, err := parseLabel(label)
	if err != nil {
		return err
	}
	if name == "AcquireWake" || name == "CtxDoneAlreadyReady" {
		// nothing to do here: admitted goroutines are always waited for; the
		// CtxDoneAlreadyReady window is staged by doRace on the admitting edge
		return nil
	}
	p, err := r.begin(label, name, a)
	if err != nil {
		return err
	}
	expectRets := 0
	var evs []hookEv
	var rets []seqRet
	switch name {
	case "DoomedCancel":
		expectRets = 1 // no critical section: Acquire just returns ctx.Err()
	default:
		e, err := r.waitEv(tm, label)
		if err != nil {
			return err
		}
		e.P = p
		evs = append(evs, e)
		switch e.Ev {
		case "acq_enqueue":
			r.status[p], r.w[p], r.elem[p] = "waiting", r.pend[p], e.elem
		case "acq_doomed":
			r.status[p], r.w[p] = "doomed", r.pend[p]
		case "ctx_remove":
			expectRets = 1 + r.lastW - 1 - e.W
		case "ctx_ready":
			expectRets = 1
		default: // acq_fast, try, release, force, setsize: the call returns, admitted waiters return
			expectRets = 1 + r.lastW - e.W
		}
		r.lastW = e.W
	}
	for i := 0; i < expectRets; i++ {
		x, err := r.waitRet(tm, label)
		if err != nil {
			return err
		}
		rets = append(rets, x)
		r.applyRet(x)
	}
	o.Evs, o.Rets = evs, rets
	return nil
}

func yield(n int) {
	for i := 0; i < n; i++ {
		runtime.Gosched()
	}
}

// doRace performs an admitting edge (Release, ReleaseForced, SetSize, CtxDoneRemove of the
// head) in such a way that process p, which the edge admits, has already left its select
// through ctx.Done when it is admitted, i.e. the edge is followed by CtxDoneAlreadyReady(p).
//
// A goroutine parked in select has its case fixed by whoever wakes it, so the cancellation
// has to come first and the admitting critical section has to run before p gets s.mu. The
// gate goroutine executes SetSize(current size) (a self-loop of the model) and its hook
// keeps s.mu locked while the admitting call is started (it blocks on s.mu) and then p is
// cancelled (p wakes up and blocks on s.mu, normally behind the admitting call). Which of
// the two gets s.mu first is up to the runtime; the result says which order happened:
// Raced = "ready" (admitted first: ctx_ready) or "remove" (p first: a plain CtxDoneRemove(p)).
// The yields only bias the race, nothing depends on them.
func (r *seqRun) doRace(label string, p int, tm *time.Timer, o *obsT) error {
	name, a, err := parseLabel(label)
	if err != nil {
		return err
	}
	if r.status[p] != "waiting" {
		return fmt.Errorf("harness: race on %s but process %d is %s", label, p, r.status[p])
	}
	_, size, _, _ := r.sem.VerifSnapshot()
	gate := r.np + 1
	r.gateEntered, r.gateRelease = make(chan struct{}), make(chan struct{})
	atomic.StoreInt32(&r.gateArmed, 1)
	r.cmd[gate] <- seqCmd{kind: cSetSize, n: size, sem: r.sem}
	tm.Reset(r.watchdog)
	select {
	case <-r.gateEntered:
	case <-tm.C:
		return stuckErr("stuck: gate did not enter its critical section")
	}
	opProc, err := r.begin(label, name, a)
	if err != nil {
		close(r.gateRelease)
		return err
	}
	yield(300)
	r.cancel[p]()
	yield(30)
	close(r.gateRelease)

	must := map[int]bool{gate: true, opProc: true, p: true}
	var rets []seqRet
	nret := 0
	for len(must) > 0 {
		x, err := r.waitRet(tm, label+" (race)")
		if err != nil {
			return err
		}
		nret++
		delete(must, x.P)
		r.applyRet(x)
		if x.P != gate {
			rets = append(rets, x)
		}
	}
	// every critical section of gate, opProc and p has happened: their events are queued
	var evs []hookEv
	admitted := 0
	for more := true; more; {
		select {
		case e := <-r.evCh:
			switch e.Ev {
			case "gate":
				r.lastW = e.W
				continue
			case "ctx_remove":
				admitted += r.lastW - 1 - e.W
				e.P = -1 // of p or of the admitting CtxDoneRemove: not told apart here
			case "ctx_ready":
				e.P = p
				o.Raced = "ready"
			default:
				admitted += r.lastW - e.W
				e.P = opProc
			}
			r.lastW = e.W
			evs = append(evs, e)
		default:
			more = false
		}
	}
	if o.Raced == "" {
		o.Raced = "remove"
	}
	others := admitted
	if o.Raced == "ready" {
		others-- // p itself was among the admitted and has returned already
	}
	for want := 3 + others; nret < want; nret++ {
		x, err := r.waitRet(tm, label+" (race, admitted)")
		if err != nil {
			return err
		}
		r.applyRet(x)
		rets = append(rets, x)
	}
	o.Evs, o.Rets = evs, rets
	return nil
}

type caseT struct {
	Size       int64    `json:"size"`
	Ops        []string `json:"ops"`
	HookCancel int      `json:"hookCancel"` // >0: stage the CtxDoneAlreadyReady race for this process on the last op
}

func (sp *seqPool) runCase(c caseT, wd time.Duration) (o obsT) {
	np := sp.np
	r := &seqRun{sem: semaphore.NewWeighted(c.Size), np: np, cmd: sp.cmd, evCh: sp.evCh, retCh: sp.retCh,
		status: make([]string, np+2), w: make([]int64, np+2), pend: make([]int64, np+2),
		cancel: make([]context.CancelFunc, np+2), elem: make([]uintptr, np+2), watchdog: wd}
	r.semID = semID(r.sem)
	for p := range r.status {
		r.status[p] = "idle"
	}
	seqCur.Store(r)
	tm := time.NewTimer(wd)
	defer tm.Stop()
	var err error
	for i, op := range c.Ops {
		o.Evs, o.Rets = nil, nil
		if i == len(c.Ops)-1 && c.HookCancel > 0 {
			err = r.doRace(op, c.HookCancel, tm, &o)
		} else {
			err = r.doOp(op, tm, &o)
		}
		if err != nil {
			o.Err = fmt.Sprintf("op %d %s: %v", i, op, err)
			break
		}
	}
	_, stuck := err.(stuckErr)
	if stuck {
		// goroutines may be lost inside the semaphore (possibly holding s.mu): report
		// what the controller knows and do not touch the semaphore or the pool again
		o.Err = "STUCK " + o.Err
		o.Q = [][2]int64{}
		o.Cur, o.Size = -1, -1
	} else {
		cur, size, ns, ids := r.sem.VerifSnapshot()
		o.Cur, o.Size = cur, size
		o.Q = [][2]int64{}
		for i := range ns {
			who := int64(0)
			for p := 1; p <= np; p++ {
				if r.status[p] == "waiting" && r.elem[p] == ids[i] {
					who = int64(p)
				}
			}
			o.Q = append(o.Q, [2]int64{who, ns[i]})
		}
	}
	o.Forced = r.forced
	o.St = append([]string{}, r.status[1:np+1]...)
	o.W = append([]int64{}, r.w[1:np+1]...)
	if stuck {
		return o
	}
	// unblock everybody so that the goroutines can be reused
	for p := 1; p <= np; p++ {
		if r.status[p] == "waiting" || r.status[p] == "doomed" {
			r.cancel[p]()
			if _, e := r.waitRet(tm, "cleanup"); e != nil {
				o.Err = "STUCK cleanup: " + e.Error()
				return o
			}
		}
	}
	for more := true; more; {
		select {
		case <-r.evCh:
		case x := <-r.retCh:
			if o.Err == "" {
				o.Err = fmt.Sprintf("unexpected return of process %d", x.P)
			}
		default:
			more = false
		}
	}
	return o
}

func doReplay(q req) map[string]any {
	semaphore.VerifTrace = seqHook
	wd := time.Duration(q.WatchdogMS) * time.Millisecond
	if wd == 0 {
		wd = 10 * time.Second
	}
	sp := newSeqPool(q.NP)
	obs := make([]obsT, 0, len(q.Cases))
	nStuck := 0
	for _, c := range q.Cases {
		o := sp.runCase(c, wd)
		obs = append(obs, o)
		if strings.HasPrefix(o.Err, "STUCK") {
			sp = newSeqPool(q.NP) // abandon the stuck goroutines
			if nStuck++; nStuck >= 3 {
				break // a broken semaphore: do not burn one watchdog period per remaining case
			}
		}
	}
	sp.close()
	seqCur.Store(nil)
	return map[string]any{"obs": obs}
}
