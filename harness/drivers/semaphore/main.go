//go:build verif

// semaphore driver (C42). Injected into the tree under test with `go build -overlay` as
// internal/verifx/semaphore/main.go; speaks NDJSON on stdin/stdout.
//
//	{"op":"replay", ...}  sequential edge replay: every model process is a real goroutine,
//	                      blocked acquirers really block; the controller decides that the
//	                      system is quiescent from the hook events (emitted under s.mu) and
//	                      from the returns they announce, never from sleeps.
//	{"op":"mix", ...}     concurrent random mixes (meant to run under -race); the hook
//	                      records one event per critical section while s.mu is held.
package main

import (
	"bufio"
	"context"
	"encoding/json"
	"fmt"
	"math/rand"
	"os"
	"runtime"
	"sync"
	"sync/atomic"
	"unsafe"

	"github.com/VKCOM/tl/internal/vkgo/pkg/semaphore"
)

type hookEv struct {
	Ev   string `json:"ev"`
	P    int    `json:"p"`
	N    int64  `json:"n"`
	OK   bool   `json:"ok"`
	Cur  int64  `json:"cur"`
	Size int64  `json:"size"`
	W    int    `json:"w"`
	F    bool   `json:"f"` // caller's intent: this Release gives back force-acquired weight
	k    int    // per-goroutine index of this event (mix)
	elem uintptr
}

func semID(s *semaphore.Weighted) uintptr { return uintptr(unsafe.Pointer(s)) }

// ---------------------------------------------------------------------------
// concurrent random mixes

type mixRet struct {
	k  int
	ok bool
}

type mixWorker struct {
	p            int
	goid         uint64
	ncs          int  // critical sections executed by this goroutine (written in the hook, same goroutine)
	intentForced bool // same goroutine
	rets         []mixRet
}

type mix struct {
	sem    *semaphore.Weighted
	semID  uintptr
	byGoid map[uint64]*mixWorker // read-only while the goroutines run
	// everything below is only touched inside the hook, i.e. under s.mu; if the hook were
	// ever called without s.mu the race detector reports it
	events []hookEv
	lastW  int
	rng    *rand.Rand
	slots  []atomic.Pointer[context.CancelFunc]
}

var mixCur *mix

func goid() uint64 {
	var buf [64]byte
	n := runtime.Stack(buf[:], false)
	s := buf[:n]
	const pre = "goroutine "
	if len(s) < len(pre) {
		return 0
	}
	var id uint64
	for _, c := range s[len(pre):] {
		if c < '0' || c > '9' {
			break
		}
		id = id*10 + uint64(c-'0')
	}
	return id
}

func mixHook(ev string, ok bool, n, cur, size int64, waiters int, id uintptr) {
	m := mixCur
	if m == nil || id != m.semID {
		return
	}
	e := hookEv{Ev: ev, OK: ok, N: n, Cur: cur, Size: size, W: waiters, P: -1}
	if w := m.byGoid[goid()]; w != nil {
		w.ncs++
		e.P, e.F, e.k = w.p, w.intentForced, w.ncs
	}
	m.events = append(m.events, e)
	was := m.lastW
	if ev == "ctx_remove" {
		was--
	}
	if waiters < was && m.rng.Intn(2) == 0 {
		// somebody was just admitted (channel closed, s.mu still held): deliver a
		// cancellation now so that the CtxDoneAlreadyReady branch gets exercised
		if c := m.slots[1+m.rng.Intn(len(m.slots)-1)].Load(); c != nil {
			(*c)()
		}
	}
	m.lastW = waiters
}

func runMixTrace(q req, rng *rand.Rand, enc *json.Encoder, counts map[string]int) (int, error) {
	size0 := q.Sizes[rng.Intn(len(q.Sizes))]
	m := &mix{sem: semaphore.NewWeighted(size0), byGoid: map[uint64]*mixWorker{}, rng: rand.New(rand.NewSource(rng.Int63())),
		slots: make([]atomic.Pointer[context.CancelFunc], q.NP+1)}
	m.semID = semID(m.sem)
	workers := make([]*mixWorker, q.NP+1)
	seeds := make([]int64, q.NP+1)
	for p := range workers {
		workers[p] = &mixWorker{p: p}
		seeds[p] = rng.Int63()
	}
	var ready, done, envDone sync.WaitGroup
	start := make(chan struct{})
	var progress atomic.Int64
	var finished atomic.Bool
	var wpanic atomic.Pointer[string]
	guard := func() {
		if x := recover(); x != nil {
			s := fmt.Sprint(x)
			wpanic.Store(&s)
		}
	}

	worker := func(w *mixWorker) {
		defer done.Done()
		defer guard()
		w.goid = goid()
		ready.Done()
		<-start
		r := rand.New(rand.NewSource(seeds[w.p]))
		sem := m.sem
		holding, held := false, int64(0)
		for i := 0; i < q.Ops; i++ {
			progress.Add(1)
			if holding {
				k := held
				if held > 0 && r.Intn(3) == 0 {
					k = r.Int63n(held + 1)
				}
				sem.Release(k)
				if k == held {
					holding = false
				}
				held -= k
				continue
			}
			n := q.Weights[r.Intn(len(q.Weights))]
			if r.Intn(4) == 0 {
				ok := sem.TryAcquire(n)
				w.rets = append(w.rets, mixRet{w.ncs, ok})
				if ok {
					holding, held = true, n
				}
				continue
			}
			ctx, cancel := context.WithCancel(context.Background())
			if r.Intn(16) == 0 {
				cancel() // "If ctx is already done, Acquire may still succeed without blocking"
			}
			m.slots[w.p].Store(&cancel)
			err := sem.Acquire(ctx, n)
			m.slots[w.p].Store(nil)
			cancel()
			w.rets = append(w.rets, mixRet{w.ncs, err == nil})
			if err == nil {
				holding, held = true, n
			}
		}
		if holding {
			sem.Release(held)
		}
	}

	env := func(w *mixWorker) {
		defer envDone.Done()
		defer guard()
		w.goid = goid()
		ready.Done()
		<-start
		r := rand.New(rand.NewSource(seeds[0]))
		sem := m.sem
		forcedOut := int64(0)
		cancelOne := func() {
			if c := m.slots[1+r.Intn(q.NP)].Load(); c != nil {
				(*c)()
			}
		}
		last, idle := int64(-1), 0
		for !finished.Load() {
			runtime.Gosched()
			if c := progress.Load(); c == last {
				if idle++; idle < 200 {
					continue
				}
				// nobody moves: everybody is probably blocked; unstick
				idle = 0
				switch r.Intn(3) {
				case 0:
					cancelOne()
				case 1:
					sem.SetSize(q.Sizes[len(q.Sizes)-1])
				case 2:
					if forcedOut > 0 {
						w.intentForced = true
						sem.Release(forcedOut)
						w.intentForced = false
						forcedOut = 0
					} else {
						cancelOne()
					}
				}
				continue
			} else {
				last, idle = c, 0
			}
			if r.Intn(3) != 0 {
				continue
			}
			switch x := r.Intn(10); {
			case x < 4:
				sem.SetSize(q.Sizes[r.Intn(len(q.Sizes))])
			case x < 7:
				n := q.Weights[r.Intn(len(q.Weights))]
				if forcedOut+n <= q.MaxForced {
					sem.ForceAcquire(n)
					forcedOut += n
				}
			case x < 9:
				if forcedOut > 0 {
					k := 1 + r.Int63n(forcedOut)
					w.intentForced = true
					sem.Release(k)
					w.intentForced = false
					forcedOut -= k
				}
			default:
				cancelOne()
			}
		}
		if forcedOut > 0 {
			w.intentForced = true
			sem.Release(forcedOut)
			w.intentForced = false
		}
	}

	ready.Add(q.NP + 1)
	done.Add(q.NP)
	envDone.Add(1)
	for p := 1; p <= q.NP; p++ {
		go worker(workers[p])
	}
	go env(workers[0])
	ready.Wait()
	for _, w := range workers {
		m.byGoid[w.goid] = w
	}
	mixCur = m
	close(start)
	done.Wait()
	finished.Store(true)
	envDone.Wait()
	mixCur = nil
	if s := wpanic.Load(); s != nil {
		return 0, fmt.Errorf("panic in semaphore call: %s", *s)
	}

	// merge: the critical-section events are totally ordered by s.mu; the return of a call
	// is placed right before the caller's next critical section (it only changes the
	// caller's own status and commutes with everything the other processes do)
	nev := 0
	emit := func(e hookEv) {
		_ = enc.Encode(e)
		counts[e.Ev]++
		nev++
	}
	emit(hookEv{Ev: "reset", Size: size0})
	next := make([]int, q.NP+1)
	flush := func(p, k int) {
		w := workers[p]
		for next[p] < len(w.rets) && w.rets[next[p]].k < k {
			emit(hookEv{Ev: "ret", P: p, OK: w.rets[next[p]].ok})
			next[p]++
		}
	}
	prevW := 0
	for _, e := range m.events {
		if e.P >= 0 {
			flush(e.P, e.k)
		}
		switch {
		case e.Ev == "ctx_remove" && e.W < prevW-1:
			counts["ctx_remove+admit"]++
		case e.Ev == "try" && !e.OK:
			counts["try_fail"]++
		case e.Ev == "release" && e.F:
			counts["release_forced"]++
		case (e.Ev == "release" || e.Ev == "setsize") && e.W < prevW:
			counts[e.Ev+"+admit"]++
		}
		prevW = e.W
		emit(e)
	}
	for p := 1; p <= q.NP; p++ {
		flush(p, 1<<30)
	}
	cur, _, ns, _ := m.sem.VerifSnapshot()
	if cur != 0 || len(ns) != 0 {
		emit(hookEv{Ev: "leftover", Cur: cur, W: len(ns)})
	}
	return nev, nil
}

func doMix(q req) map[string]any {
	semaphore.VerifTrace = mixHook
	f, err := os.Create(q.Out)
	if err != nil {
		return map[string]any{"panic": err.Error()}
	}
	defer f.Close()
	bw := bufio.NewWriterSize(f, 1<<20)
	defer bw.Flush()
	enc := json.NewEncoder(bw)
	rng := rand.New(rand.NewSource(q.Seed))
	counts := map[string]int{}
	total := 0
	for t := 0; t < q.Traces; t++ {
		n, err := runMixTrace(q, rng, enc, counts)
		if err != nil {
			return map[string]any{"panic": err.Error(), "trace": t}
		}
		total += n
	}
	return map[string]any{"events": total, "counts": counts, "traces": q.Traces, "gomaxprocs": runtime.GOMAXPROCS(0)}
}

// ---------------------------------------------------------------------------

func handle(q req) (resp map[string]any) {
	defer func() {
		if r := recover(); r != nil {
			resp = map[string]any{"panic": fmt.Sprint(r)}
		}
	}()
	switch q.Op {
	case "replay":
		return doReplay(q)
	case "mix":
		return doMix(q)
	}
	return map[string]any{"panic": "unknown op " + q.Op}
}

func main() {
	rd := bufio.NewReaderSize(os.Stdin, 1<<24)
	wr := bufio.NewWriterSize(os.Stdout, 1<<20)
	for {
		line, err := rd.ReadBytes('\n')
		if len(line) > 1 {
			var q req
			if jerr := json.Unmarshal(line, &q); jerr != nil {
				fmt.Fprintln(wr, `{"panic":"bad request"}`)
			} else {
				b, _ := json.Marshal(handle(q))
				wr.Write(b)
				wr.WriteByte('\n')
			}
			wr.Flush()
		}
		if err != nil {
			return
		}
	}
}
