//go:build verif

// Read-only accessors for the verification driver. This file is NOT part of the
// repository: it is overlaid at build time as internal/vkgo/pkg/semaphore/verif_export.go.
package semaphore

import "unsafe"

// VerifSnapshot returns cur, size and the waiter list (weights and list-element
// identities, front first), read under s.mu.
func (s *Weighted) VerifSnapshot() (cur, size int64, ns []int64, ids []uintptr) {
	s.mu.Lock()
	defer s.mu.Unlock()
	for e := s.waiters.Front(); e != nil; e = e.Next() {
		ns = append(ns, e.Value.(waiter).n)
		ids = append(ids, uintptr(unsafe.Pointer(e)))
	}
	return s.cur, s.size, ns, ids
}

// VerifBackLocked returns the identity of the last list element. It may only be
// called from inside the VerifTrace callback (s.mu is held by the caller).
func (s *Weighted) VerifBackLocked() uintptr {
	return uintptr(unsafe.Pointer(s.waiters.Back()))
}
