//go:build verif

// C36 driver (virtual path internal/verifx/udp/main.go): NDJSON on stdin/stdout.
//
//	{"op":"batch","out":"trace.ndjson","scen":[{"id":1,"cmds":"6e10..","restarts":false,"trace":true}],
//	 "flushSusp":true,"rounds":400}
//
// Every scenario is executed by udp.VerifRun; its event trace is appended to `out` when
// the scenario asked for it or (flushSusp) when the prefilter found something to look at.
package main

import (
	"bufio"
	"bytes"
	"encoding/hex"
	"encoding/json"
	"fmt"
	"io"
	"log"
	"os"

	"github.com/VKCOM/tl/pkg/rpc/udp"
)

type scen struct {
	ID       int    `json:"id"`
	Cmds     string `json:"cmds"`
	Restarts bool   `json:"restarts"`
	Trace    bool   `json:"trace"`
	NoSettle bool   `json:"noSettle"`
}

type req struct {
	Op        string `json:"op"`
	Out       string `json:"out"`
	Scen      []scen `json:"scen"`
	FlushSusp bool   `json:"flushSusp"`
	Rounds    int    `json:"rounds"`
	StuckAt   int    `json:"stuckAt"`
}

type scenRes struct {
	ID     int  `json:"id"`
	Traced bool `json:"traced"`
	udp.VerifResult
}

func handle(q req) map[string]any {
	switch q.Op {
	case "ping":
		return map[string]any{"ok": true}
	case "batch":
		var out *bufio.Writer
		if q.Out != "" {
			f, err := os.OpenFile(q.Out, os.O_APPEND|os.O_CREATE|os.O_WRONLY, 0o644)
			if err != nil {
				return map[string]any{"error": err.Error()}
			}
			defer f.Close()
			out = bufio.NewWriterSize(f, 1<<20)
			defer out.Flush()
		}
		var buf, sum bytes.Buffer
		res := make([]scenRes, 0, len(q.Scen))
		events := 0
		for _, s := range q.Scen {
			cmds, err := hex.DecodeString(s.Cmds)
			if err != nil {
				return map[string]any{"error": "bad hex: " + err.Error()}
			}
			run := func(trace bool) udp.VerifResult {
				buf.Reset()
				sum.Reset()
				return udp.VerifRun(udp.VerifScenario{Cmds: cmds, Restarts: s.Restarts, Trace: trace, MaxRounds: q.Rounds,
					StuckAt: q.StuckAt, NoSettle: s.NoSettle}, &buf, &sum)
			}
			r := run(out != nil && s.Trace)
			traced := out != nil && s.Trace
			if !traced && out != nil && q.FlushSusp && len(r.Susp) > 0 {
				// the prefilter found something: run it again with the full trace for TLC
				r = run(true)
				traced = true
			}
			sr := scenRes{ID: s.ID, VerifResult: r, Traced: traced}
			if traced {
				_, _ = out.Write(buf.Bytes())
				events += r.Events
			} else if out != nil && !s.NoSettle && r.Panic == "" {
				_, _ = out.Write(sum.Bytes())
				events++
			}
			res = append(res, sr)
		}
		return map[string]any{"res": res, "events": events}
	}
	return map[string]any{"error": "unknown op " + q.Op}
}

func main() {
	log.SetOutput(io.Discard)
	rd := bufio.NewReaderSize(os.Stdin, 1<<24)
	wr := bufio.NewWriter(os.Stdout)
	for {
		line, err := rd.ReadBytes('\n')
		if len(line) > 1 {
			var q req
			var resp map[string]any
			if jerr := json.Unmarshal(line, &q); jerr != nil {
				resp = map[string]any{"error": "bad request: " + jerr.Error()}
			} else {
				func() {
					defer func() {
						if r := recover(); r != nil {
							resp = map[string]any{"error": fmt.Sprint("driver panic: ", r)}
						}
					}()
					resp = handle(q)
				}()
			}
			b, _ := json.Marshal(resp)
			wr.Write(b)
			wr.WriteByte('\n')
			wr.Flush()
		}
		if err != nil {
			return
		}
	}
}
