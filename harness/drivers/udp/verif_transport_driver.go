//go:build verif

// In-package part of the C36 driver (overlaid as pkg/rpc/udp/verif_transport_driver.go).
//
// It re-implements the command loop of FuzzDyukov with the repository's own do*
// helpers and checkInvariants, but
//   - logs after every command the projection of the transports' state,
//   - decodes every datagram at send time (own AES-IGE decryption with the sender's
//     write key) so that trace validation is determinate,
//   - has its own settle loop (the simulator's gives up while chunks are still unacked).
//
// Nothing here changes the transport: only unexported state is read.
package udp

import (
	"bytes"
	"crypto/aes"
	"fmt"
	"net"
	"net/netip"
	"sort"
	"strconv"
	"time"

	"github.com/VKCOM/tl/pkg/rpc/internal/gen/tlnet"
	"github.com/VKCOM/tl/pkg/rpc/internal/gen/tlnetUdpPacket"
	"github.com/gotd/ige"
)

type VerifScenario struct {
	Cmds      []byte
	Restarts  bool
	Trace     bool // record events into the buffer
	MaxRounds int  // settle round limit (inconclusive when reached)
	StuckAt   int  // consecutive rounds without progress that mean "stuck"
	NoSettle  bool
}

type VerifDelivery struct {
	Src, Dst, ID, Size int
	Hash               uint32
}

type VerifResult struct {
	Panic     string         `json:"panic,omitempty"`
	PanicAt   int            `json:"panicAt"`
	PanicCmd  string         `json:"panicCmd,omitempty"`
	Settle    string         `json:"settle"` // ok | stuck | limit | skipped | panic
	Rounds    int            `json:"rounds"`
	Events    int            `json:"events"`
	Sent      int            `json:"sent"`
	Delivered int            `json:"delivered"`
	Susp      []string       `json:"susp,omitempty"`
	Acts      map[string]int `json:"acts"`
	Restarted int            `json:"restarted"`
	MaxMem    int64          `json:"maxMem"`
	Waited    int            `json:"waited"` // commands after which some connection waited for memory
	Dups      int            `json:"dups"`   // chunks read that were already received
}

type verifCtx struct {
	fctx     *FuzzTransportContext
	sc       VerifScenario
	buf      *bytes.Buffer
	res      *VerifResult
	netIDs   [transports][]int
	nextDg   int
	nextMsg  int
	deliv    []VerifDelivery // deliveries during the current command
	allDeliv []VerifDelivery
	sent     map[[3]int]uint32
	dcount   map[[3]int]int
	used     [transports]bool
	mono     map[[3]int][4]uint32 // (t, peer, gen) -> oP, oN, iP, kP
	seenGen  map[[2]int]uint32
	incOf    map[*Connection]int
	curCmd   [4]int
	progress uint64
}

func verifHash(b []byte) uint32 {
	h := uint32(2166136261)
	for _, x := range b {
		h ^= uint32(x)
		h *= 16777619
	}
	return h & 0x3fffffff
}

var verifSpecialTags = []uint32{
	tlnetUdpPacket.ObsoletePid{}.TLTag(), tlnetUdpPacket.ObsoleteGeneration{}.TLTag(),
	tlnetUdpPacket.ObsoleteHash{}.TLTag(), tlnetUdpPacket.ResendRequest{}.TLTag(), 0x6e321c96,
}

func verifContent(id, size int) []byte {
	m := make([]byte, size)
	for i := range m {
		m[i] = byte(id*7 + i*13 + 1)
	}
	m[0] = byte(id)
	m[1] = byte(id >> 8)
	if size >= 4 {
		tag := uint32(m[0]) | uint32(m[1])<<8 | uint32(m[2])<<16 | uint32(m[3])<<24
		for _, s := range verifSpecialTags {
			if tag == s {
				m[2] ^= 0x55
			}
		}
	}
	return m
}

func (v *verifCtx) handler(src, dst int) MessageHandler {
	return func(message *[]byte, canSave bool) {
		m := *message
		id := -1
		if len(m) >= 2 {
			id = int(m[0]) | int(m[1])<<8
		}
		v.deliv = append(v.deliv, VerifDelivery{Src: src, Dst: dst, ID: id, Size: len(m), Hash: verifHash(m)})
		v.fctx.receivedMessages[RandomMessage{src: src, dst: dst, message: string(m)}] += 1
		v.fctx.deallocatedMessages++
	}
}

// VerifRun executes one scenario. Events (NDJSON lines) are appended to buf when sc.Trace.
func VerifRun(sc VerifScenario, buf *bytes.Buffer, sum *bytes.Buffer) (res VerifResult) {
	MaxChunkSize = MaxFuzzChunkSize
	if sc.MaxRounds == 0 {
		sc.MaxRounds = 400
	}
	if sc.StuckAt == 0 {
		sc.StuckAt = 8
	}
	res.Acts = map[string]int{}
	res.PanicAt = -1
	fctx := &FuzzTransportContext{
		sentMessages:     make(map[RandomMessage]int),
		receivedMessages: make(map[RandomMessage]int),
	}
	v := &verifCtx{fctx: fctx, sc: sc, buf: buf, res: &res, sent: map[[3]int]uint32{}, dcount: map[[3]int]int{},
		mono: map[[3]int][4]uint32{}, seenGen: map[[2]int]uint32{}, incOf: map[*Connection]int{}}
	for tId := 0; tId < transports; tId++ {
		udpAddr, err := net.ResolveUDPAddr("udp", transportIdToAddress(tId))
		if err != nil {
			panic(err)
		}
		tIdCopy := tId
		fctx.ts[tId], err = NewTransport(
			MaxFuzzTransportMemory,
			[]string{"01234567890123456789012345678901"},
			nil, udpAddr, uint32(time.Now().Unix()),
			func(conn *Connection) {
				conn.MessageHandle = v.handler(addressToTransportId(conn.remoteAddr().String()), tIdCopy)
				conn.StreamLikeIncoming = testStreamLikeIncoming
			},
			func(_ *Connection) {},
			func(size int) *[]byte {
				fctx.allocatedMessages++
				m := make([]byte, size)
				return &m
			},
			func(*[]byte) { fctx.deallocatedMessages++ },
			0, 0, false, false, nil, nil, nil, nil, nil, nil,
		)
		if err != nil {
			panic(err)
		}
	}
	defer func() {
		for _, t := range fctx.ts {
			_ = t.Close()
		}
	}()

	mode := "strict"
	if sc.Restarts {
		mode = "loose"
	}
	if sc.Trace {
		fmt.Fprintf(buf, `{"op":"reset","mode":%q,"lim":%d}`+"\n", mode, MaxFuzzTransportMemory)
		res.Events++
	}

	ok := v.guard(-1, func() { v.commands() })
	if ok && !sc.NoSettle {
		v.emitSimple("settle")
		ok = v.guard(len(sc.Cmds), func() { v.settle() })
	} else if ok {
		res.Settle = "skipped"
	}
	if !ok {
		res.Settle = "panic"
		if sc.Trace {
			fmt.Fprintf(buf, `{"op":"panic","at":%d,"what":%s}`+"\n", res.PanicAt, strconv.Quote(res.Panic))
			res.Events++
		}
	}
	res.Sent = len(v.sent)
	for _, n := range v.dcount {
		res.Delivered += n
	}
	v.finalSusp(ok)
	if sum != nil {
		v.summary(sum)
	}
	return res
}

// summary writes the state independent "sum" event of the scenario.
func (v *verifCtx) summary(b *bytes.Buffer) {
	fctx := v.fctx
	fmt.Fprintf(b, `{"op":"sum","restarts":%d,"settle":%q,"sent":[`, b2i(v.sc.Restarts), v.res.Settle)
	keys := make([][3]int, 0, len(v.sent))
	for k := range v.sent {
		keys = append(keys, k)
	}
	sort.Slice(keys, func(i, j int) bool {
		for x := 0; x < 3; x++ {
			if keys[i][x] != keys[j][x] {
				return keys[i][x] < keys[j][x]
			}
		}
		return false
	})
	for i, k := range keys {
		if i > 0 {
			b.WriteByte(',')
		}
		fmt.Fprintf(b, `[%d,%d,%d,%d]`, k[0], k[1], k[2], v.sent[k])
	}
	b.WriteString(`],"dlv":[`)
	for i, d := range v.allDeliv {
		if i > 0 {
			b.WriteByte(',')
		}
		fmt.Fprintf(b, `[%d,%d,%d,%d]`, d.Src, d.Dst, d.ID, d.Hash)
	}
	b.WriteString(`],"ts":[`)
	first := true
	save := v.buf
	v.buf = b
	for tId := range fctx.ts {
		if !v.used[tId] {
			continue
		}
		if !first {
			b.WriteByte(',')
		}
		first = false
		fmt.Fprintf(b, `{"t":%d`, tId)
		v.proj(tId)
		b.WriteByte('}')
	}
	v.buf = save
	fmt.Fprintf(b, `],"al":%d,"de":%d}`+"\n", fctx.allocatedMessages, fctx.deallocatedMessages)
}

func (v *verifCtx) guard(at int, f func()) (ok bool) {
	defer func() {
		if r := recover(); r != nil {
			v.res.Panic = fmt.Sprint(r)
			if v.res.PanicAt < 0 {
				v.res.PanicAt = at
			}
			v.res.PanicCmd = fmt.Sprintf("%c %d %d %d", rune(v.curCmd[0]), v.curCmd[1], v.curCmd[2], v.curCmd[3])
			ok = false
		}
	}()
	f()
	return true
}

func (v *verifCtx) susp(s string) {
	for _, x := range v.res.Susp {
		if x == s {
			return
		}
	}
	if len(v.res.Susp) < 8 {
		v.res.Susp = append(v.res.Susp, s)
	}
}

// ---------------------------------------------------------------------------
// command loop (same byte alphabet as FuzzDyukov)

func (v *verifCtx) commands() {
	fuzz := v.sc.Cmds
	for i := 0; i+2 < len(fuzz); {
		v.res.PanicAt = i
		switch fuzz[i] {
		case 'n':
			src := fuzzVerbToTransportId(fuzz[i+1])
			dst := fuzzVerbToDstId(fuzz[i+1])
			size := fuzzVerbToMessageSize(fuzz[i+2])
			if dst <= src || size == 0 {
				i += 3
				continue
			}
			v.cmdNew(src, dst, size)
			i += 3
		case 'w':
			v.cmdWrite(fuzzVerbToTransportId(fuzz[i+1]))
			i += 2
		case 'r':
			v.cmdRead(fuzzVerbToTransportId(fuzz[i+1]), int(fuzz[i+2]))
			i += 3
		case 'e':
			v.cmdEnc(fuzzVerbToTransportId(fuzz[i+1]))
			i += 2
		case 't':
			t := fuzzVerbToTransportId(fuzz[i+1])
			k := fuzzVerbToDstId(fuzz[i+1])
			if k <= 2 || (k == 3 && v.sc.Restarts) {
				v.cmdTimer(t, k)
			}
			i += 2
		case 'd':
			v.cmdDup(fuzzVerbToTransportId(fuzz[i+1]), int(fuzz[i+2]))
			i += 3
		case 'l':
			v.cmdLoss(fuzzVerbToTransportId(fuzz[i+1]), int(fuzz[i+2]))
			i += 3
		default:
			i++
		}
	}
	v.res.PanicAt = -1
}

func (v *verifCtx) cmdNew(src, dst, size int) {
	v.curCmd = [4]int{'n', src, dst, size}
	v.res.Acts["n"]++
	v.used[src], v.used[dst] = true, true
	fctx := v.fctx
	fctx.allocatedMessages++
	id := v.nextMsg
	v.nextMsg++
	message := verifContent(id, size)
	h := verifHash(message)
	func() {
		// mirrors doNewMessage (only the message contents differ: position dependent bytes)
		defer checkInvariants(fctx)
		conn, err := fctx.ts[src].ConnectTo(
			netip.MustParseAddrPort(fctx.ts[dst].socketAddr.String()),
			v.handler(dst, src), testStreamLikeIncoming, nil)
		if err != nil {
			panic(err)
		}
		fctx.sentMessages[RandomMessage{src: src, dst: dst, message: string(message)}] += 1
		if err = conn.SendMessage(&message); err != nil {
			panic(err)
		}
	}()
	v.sent[[3]int{src, dst, id}] = h
	if v.begin("n", src) {
		fmt.Fprintf(v.buf, `,"dst":%d,"id":%d,"size":%d,"hash":%d`, dst, id, size, h)
		v.end(src)
	}
	v.after(src)
}

func (v *verifCtx) cmdWrite(t int) {
	v.curCmd = [4]int{'w', t}
	v.res.Acts["w"]++
	fctx := v.fctx
	var before [transports]int
	for d := range fctx.network {
		before[d] = len(fctx.network[d])
	}
	oldNext := map[*Connection]uint32{}
	for _, c := range fctx.ts[t].handshakeByPid {
		oldNext[c] = c.outgoing.nextSeqNo
	}
	doGoWriteStep(fctx, t)
	dst := -1
	for d := range fctx.network {
		if len(fctx.network[d]) != before[d] {
			if len(fctx.network[d]) != before[d]+1 || dst >= 0 {
				panic("verif: write step changed the network by more than one datagram")
			}
			dst = d
		}
	}
	if dst < 0 {
		if v.begin("w", t) {
			v.buf.WriteString(`,"to":-1`)
			v.end(t)
		}
		v.after(t)
		return
	}
	v.used[dst] = true
	v.res.Acts["w+"]++
	id := v.nextDg
	v.nextDg++
	v.netIDs[dst] = append(v.netIDs[dst], id)
	if !v.sc.Trace {
		v.after(t)
		return
	}
	dg := fctx.network[dst][len(fctx.network[dst])-1]
	info, err := v.decodeSent(t, dst, dg.datagram)
	if err != nil {
		panic("verif: cannot decode own datagram: " + err.Error())
	}
	if v.begin("w", t) {
		fmt.Fprintf(v.buf, `,"to":%d,"id":%d,"lo":%d,"hi":%d,"ap":%d,"as":%s,"nk":%s,"nkf":%d,"kind":%q,"g":%d`,
			dst, id, info.lo, info.hi, info.ackP, u32s(info.ackS), u32s(info.nack), b2i(info.nackDg), info.kind, info.gen)
		// messages sliced by this step on the connection that sent
		v.buf.WriteString(`,"sl":[`)
		first := true
		for _, c := range fctx.ts[t].handshakeByPid {
			if addressToTransportId(c.remoteAddr().String()) != dst {
				continue
			}
			on, known := oldNext[c]
			if !known {
				on = 0
			}
			for s := on; s < c.outgoing.nextSeqNo; {
				ch := c.outgoing.window.GetPtr(s)
				if ch == nil || ch.message == nil {
					panic("verif: sliced chunk missing from the outgoing window")
				}
				m := ch.message
				p := *m.payload
				if !first {
					v.buf.WriteByte(',')
				}
				first = false
				fmt.Fprintf(v.buf, `[%d,%d,%d,%d]`, int(p[0])|int(p[1])<<8, len(p), m.seqNo, m.parts)
				s = m.seqNo + m.parts
			}
		}
		v.buf.WriteString(`]`)
		v.end(t)
	}
	v.after(t)
}

func (v *verifCtx) cmdRead(t, i int) {
	v.curCmd = [4]int{'r', t, i}
	v.res.Acts["r"]++
	fctx := v.fctx
	l := len(fctx.network[t])
	nh := len(fctx.encHdrs[t])
	id, src := -1, -1
	if l > 0 {
		k := i % l
		id = v.netIDs[t][k]
		src = addressToTransportId(fctx.network[t][k].addr.String())
		v.netIDs[t][k] = v.netIDs[t][l-1]
		v.netIDs[t] = v.netIDs[t][:l-1]
		v.res.Acts["r+"]++
	}
	v.deliv = v.deliv[:0]
	doGoReadStep(fctx, t, i)
	if len(v.netIDs[t]) != len(fctx.network[t]) {
		panic("verif: datagram id bookkeeping out of step")
	}
	for _, d := range v.deliv {
		k := [3]int{d.Src, d.Dst, d.ID}
		v.allDeliv = append(v.allDeliv, d)
		v.dcount[k]++
		if h, ok := v.sent[k]; !ok || h != d.Hash {
			v.susp("delivered-not-sent")
		} else if v.dcount[k] > 1 {
			v.susp("delivered-twice")
		}
	}
	if l == 0 {
		if v.begin("x", t) {
			v.end(t)
		}
		v.after(t)
		return
	}
	if v.begin("r", t) {
		fmt.Fprintf(v.buf, `,"i":%d,"id":%d,"p":%d`, i, id, src)
		if len(fctx.encHdrs[t]) == nh+1 {
			h := fctx.encHdrs[t][nh]
			lo, hi := uint32(1), uint32(0)
			if h.enc.IsSetPacketNum() && h.enc.PacketNum != ^uint32(0) {
				lo, hi = h.enc.PacketNum, h.enc.PacketNum
			}
			if h.enc.IsSetPacketsFrom() {
				lo, hi = h.enc.PacketsFrom, h.enc.PacketsFrom+h.enc.PacketsCount-1
			}
			ap, as := ackFields(&h.enc)
			fmt.Fprintf(v.buf, `,"h":1,"lo":%d,"hi":%d,"ap":%d,"as":%s`, lo, hi, ap, u32s(as))
		} else {
			v.buf.WriteString(`,"h":0,"lo":1,"hi":0,"ap":0,"as":[]`)
		}
		v.buf.WriteString(`,"dl":[`)
		for j, d := range v.deliv {
			if j > 0 {
				v.buf.WriteByte(',')
			}
			fmt.Fprintf(v.buf, `[%d,%d,%d,%d]`, d.Src, d.ID, d.Size, d.Hash)
		}
		v.buf.WriteString(`]`)
		v.end(t)
	}
	v.after(t)
}

func (v *verifCtx) cmdEnc(t int) {
	v.curCmd = [4]int{'e', t}
	v.res.Acts["e"]++
	n := len(v.fctx.encHdrs[t])
	doEncHdrRcv(v.fctx, t)
	op := "e"
	if n == 0 {
		op = "x"
	}
	if v.begin(op, t) {
		v.end(t)
	}
	v.after(t)
}

func (v *verifCtx) cmdTimer(t, k int) {
	v.curCmd = [4]int{'t', t, k}
	v.res.Acts[[]string{"t0", "t1", "t2", "t3"}[k]]++
	switch k {
	case 0:
		doResendTimerBurn(v.fctx, t)
	case 1:
		doAckTimerBurn(v.fctx, t)
	case 2:
		doResendRequestTimerBurn(v.fctx, t)
	case 3:
		doRegenerateTimerBurn(v.fctx, t)
	}
	if v.begin("t", t) {
		fmt.Fprintf(v.buf, `,"k":%d`, k)
		v.end(t)
	}
	v.after(t)
}

func (v *verifCtx) cmdDup(t, i int) {
	v.curCmd = [4]int{'d', t, i}
	v.res.Acts["d"]++
	fctx := v.fctx
	l := len(fctx.network[t])
	id := -1
	if l > 0 {
		fctx.network[t] = append(fctx.network[t], fctx.network[t][i%l])
		id = v.netIDs[t][i%l]
		v.netIDs[t] = append(v.netIDs[t], id)
	}
	checkInvariants(fctx)
	op := "d"
	if l == 0 {
		op = "x"
	}
	if v.begin(op, t) {
		fmt.Fprintf(v.buf, `,"i":%d,"id":%d`, i, id)
		v.end(t)
	}
	v.after(t)
}

func (v *verifCtx) cmdLoss(t, i int) {
	v.curCmd = [4]int{'l', t, i}
	v.res.Acts["l"]++
	fctx := v.fctx
	l := len(fctx.network[t])
	id := -1
	if l > 0 {
		id = v.netIDs[t][i%l]
		fctx.network[t][i%l] = fctx.network[t][l-1]
		fctx.network[t] = fctx.network[t][:l-1]
		v.netIDs[t][i%l] = v.netIDs[t][l-1]
		v.netIDs[t] = v.netIDs[t][:l-1]
	}
	checkInvariants(fctx)
	op := "l"
	if l == 0 {
		op = "x"
	}
	if v.begin(op, t) {
		fmt.Fprintf(v.buf, `,"i":%d,"id":%d`, i, id)
		v.end(t)
	}
	v.after(t)
}

// ---------------------------------------------------------------------------
// own settle loop

func (v *verifCtx) pending() bool {
	fctx := v.fctx
	for tId, t := range fctx.ts {
		if len(fctx.network[tId]) > 0 || len(fctx.encHdrs[tId]) > 0 || t.newHdrRcvs.Len() > 0 ||
			t.newMessages.Len() > 0 || t.newResendRequestsRcvs.Len() > 0 || t.closedConnections.Len() > 0 ||
			t.newGoReadRegenerates.Len() > 0 {
			return true
		}
		for _, c := range t.handshakeByPid {
			if c.outgoing.messageQueue.Len() > 0 || c.outgoing.ackSeqNoPrefix != c.outgoing.nextSeqNo {
				return true
			}
			// after a generation bump the peer may be gone for ever: a receiver's half open
			// window is then not something the settle loop can wait for
			if !v.sc.Restarts && (c.incoming.ackPrefix != c.incoming.nextSeqNo || c.acks.HaveHoles() ||
				c.acks.ackPrefix != c.incoming.ackPrefix) {
				return true
			}
		}
	}
	return false
}

// stateSig is the logical state whose change counts as progress.
func (v *verifCtx) stateSig() uint64 {
	h := uint64(1469598103934665603)
	mix := func(x uint64) {
		h ^= x
		h *= 1099511628211
	}
	for tId, t := range v.fctx.ts {
		if !v.used[tId] {
			continue
		}
		mix(uint64(t.acquiredMemory))
		for _, c := range v.conns(tId) {
			mix(uint64(c.generation))
			mix(uint64(c.outgoing.ackSeqNoPrefix))
			mix(uint64(c.outgoing.nextSeqNo))
			mix(uint64(c.outgoing.messageQueue.Len()))
			for s := c.outgoing.ackSeqNoPrefix; s < c.outgoing.nextSeqNo; s++ {
				if p := c.outgoing.window.GetPtr(s); p != nil && p.acked() {
					mix(uint64(s) + 1<<40)
				}
			}
			mix(uint64(c.incoming.ackPrefix))
			mix(uint64(c.incoming.nextSeqNo))
			for s := c.incoming.ackPrefix; s < c.incoming.nextSeqNo; s++ {
				if ch, _ := c.incoming.windowChunks.Get(s); ch.received() {
					mix(uint64(s) + 1<<41)
				}
			}
			mix(uint64(c.acks.ackPrefix))
			for r := c.acks.firstRange; r != nil; r = r.next {
				mix(uint64(r.ackFrom)<<20 + uint64(r.ackTo))
			}
			mix(uint64(c.incoming.messagesTotalOffset))
		}
	}
	mix(uint64(len(v.dcount)))
	mix(uint64(v.fctx.deallocatedMessages))
	return h
}

func (v *verifCtx) settle() {
	fctx := v.fctx
	still := 0
	sig := v.stateSig()
	for round := 1; ; round++ {
		v.res.Rounds = round
		if !v.pending() {
			v.res.Settle = "ok"
			break
		}
		if round > v.sc.MaxRounds {
			v.res.Settle = "limit"
			break
		}
		for tId, t := range fctx.ts {
			if !v.used[tId] {
				continue
			}
			for n := t.resendRequestTimers.Len(); n > 0; n-- {
				v.cmdTimer(tId, 2)
			}
			for n := t.resendTimers.Len(); n > 0; n-- {
				v.cmdTimer(tId, 0)
			}
			for n := t.ackTimers.Len(); n > 0; n-- {
				v.cmdTimer(tId, 1)
			}
		}
		for pass := 0; pass < 2; pass++ {
			for tId, t := range fctx.ts {
				if !v.used[tId] {
					continue
				}
				for n := 0; n < 48 && !t.noGoWriteEvents(); n++ {
					v.cmdWrite(tId)
				}
			}
			for tId := range fctx.ts {
				for n := len(fctx.network[tId]); n > 0; n-- {
					v.cmdRead(tId, 0)
				}
				if v.sc.Restarts && v.used[tId] && len(fctx.network[tId]) == 0 && fctx.ts[tId].newGoReadRegenerates.Len() > 0 {
					v.cmdRead(tId, 0)
				}
			}
			for tId := range fctx.ts {
				for n := len(fctx.encHdrs[tId]); n > 0; n-- {
					v.cmdEnc(tId)
				}
			}
		}
		for tId, t := range fctx.ts {
			if v.used[tId] && !t.noGoWriteEvents() {
				v.cmdWrite(tId)
			}
		}
		if s := v.stateSig(); s != sig {
			sig = s
			still = 0
		} else {
			still++
			if still >= v.sc.StuckAt {
				v.res.Settle = "stuck"
				break
			}
		}
	}
	if v.sc.Trace {
		// final projection of every transport that took part
		fmt.Fprintf(v.buf, `{"op":"done","settle":%q,"ts":[`, v.res.Settle)
		first := true
		for tId := range fctx.ts {
			if !v.used[tId] {
				continue
			}
			if !first {
				v.buf.WriteByte(',')
			}
			first = false
			fmt.Fprintf(v.buf, `{"t":%d`, tId)
			v.proj(tId)
			v.buf.WriteByte('}')
		}
		fmt.Fprintf(v.buf, `],"al":%d,"de":%d,"nsent":%d,"ndlv":%d}`+"\n", fctx.allocatedMessages, fctx.deallocatedMessages, len(v.sent), v.totalDelivered())
		v.res.Events++
	}
}

func (v *verifCtx) totalDelivered() int {
	n := 0
	for _, c := range v.dcount {
		n += c
	}
	return n
}

func (v *verifCtx) finalSusp(ok bool) {
	if !ok {
		v.susp("panic")
		return
	}
	if v.sc.NoSettle {
		return
	}
	if v.res.Settle != "ok" {
		v.susp("settle-" + v.res.Settle)
	}
	if !v.sc.Restarts {
		for tId, t := range v.fctx.ts {
			if t.acquiredMemory != 0 {
				v.susp(fmt.Sprintf("memory-held-%d", tId))
			}
		}
		if v.fctx.allocatedMessages != v.fctx.deallocatedMessages {
			v.susp("alloc-dealloc")
		}
		for k := range v.sent {
			if v.dcount[k] != 1 {
				v.susp("not-delivered-once")
			}
		}
	}
}

// ---------------------------------------------------------------------------
// projection

func (v *verifCtx) conns(t int) []*Connection {
	m := v.fctx.ts[t].handshakeByPid
	cs := make([]*Connection, 0, len(m))
	for _, c := range m {
		cs = append(cs, c)
	}
	sort.Slice(cs, func(i, j int) bool { return cs[i].remotePort < cs[j].remotePort })
	return cs
}

func (v *verifCtx) inc(c *Connection) int {
	if n, ok := v.incOf[c]; ok {
		return n
	}
	n := len(v.incOf) + 1
	v.incOf[c] = n
	return n
}

func (v *verifCtx) emitSimple(op string) {
	if v.sc.Trace {
		fmt.Fprintf(v.buf, `{"op":%q}`+"\n", op)
		v.res.Events++
	}
}

func (v *verifCtx) begin(op string, t int) bool {
	if !v.sc.Trace {
		return false
	}
	fmt.Fprintf(v.buf, `{"op":%q,"t":%d`, op, t)
	return true
}

func (v *verifCtx) end(t int) {
	v.proj(t)
	fmt.Fprintf(v.buf, `,"al":%d,"de":%d}`+"\n", v.fctx.allocatedMessages, v.fctx.deallocatedMessages)
	v.res.Events++
}

func (v *verifCtx) proj(t int) {
	tr := v.fctx.ts[t]
	b := v.buf
	fmt.Fprintf(b, `,"mem":%d,"wq":[`, tr.acquiredMemory)
	for i := 0; i < tr.memoryWaiters.Len(); i++ {
		if i > 0 {
			b.WriteByte(',')
		}
		b.WriteString(strconv.Itoa(addressToTransportId(tr.memoryWaiters.Index(i).remoteAddr().String())))
	}
	b.WriteString(`],"cs":[`)
	for i, c := range v.conns(t) {
		if i > 0 {
			b.WriteByte(',')
		}
		q := c.outgoing.messageQueue.Len()
		for j := 0; j < tr.newMessages.Len(); j++ {
			if tr.newMessages.Index(j).conn == c {
				q++
			}
		}
		fmt.Fprintf(b, `{"p":%d,"g":%d,"c":%d,"oP":%d,"oN":%d,"oA":[`, addressToTransportId(c.remoteAddr().String()), c.generation, v.inc(c),
			c.outgoing.ackSeqNoPrefix, c.outgoing.nextSeqNo)
		first := true
		for s := c.outgoing.ackSeqNoPrefix; s < c.outgoing.nextSeqNo; s++ {
			if p := c.outgoing.window.GetPtr(s); p != nil && p.acked() {
				if !first {
					b.WriteByte(',')
				}
				first = false
				b.WriteString(strconv.Itoa(int(s)))
			}
		}
		fmt.Fprintf(b, `],"q":%d,"iP":%d,"iN":%d,"iR":[`, q, c.incoming.ackPrefix, c.incoming.nextSeqNo)
		first = true
		for s := c.incoming.ackPrefix; s < c.incoming.nextSeqNo; s++ {
			if ch, _ := c.incoming.windowChunks.Get(s); ch.received() {
				if !first {
					b.WriteByte(',')
				}
				first = false
				b.WriteString(strconv.Itoa(int(s)))
			}
		}
		fmt.Fprintf(b, `],"tot":%d,"beg":%d,"rq":%d,"kP":%d,"kS":[`, c.incoming.messagesTotalOffset, c.incoming.messagesBeginOffset, c.incoming.requestedMemorySize, c.acks.ackPrefix)
		first = true
		for r := c.acks.firstRange; r != nil; r = r.next {
			for s := r.ackFrom; s <= r.ackTo; s++ {
				if !first {
					b.WriteByte(',')
				}
				first = false
				b.WriteString(strconv.Itoa(int(s)))
			}
		}
		b.WriteString(`]}`)
	}
	b.WriteString(`]`)
}

// after runs the cheap prefilter on transport t (chooses traces to push through TLC;
// it never decides a verdict).
func (v *verifCtx) after(t int) {
	tr := v.fctx.ts[t]
	if tr.acquiredMemory > v.res.MaxMem {
		v.res.MaxMem = tr.acquiredMemory
	}
	if tr.acquiredMemory > tr.incomingMessagesMemoryLimit || tr.acquiredMemory < 0 {
		v.susp("memory-limit")
	}
	if tr.memoryWaiters.Len() > 0 {
		v.res.Waited++
	}
	var held int64
	for _, c := range tr.handshakeByPid {
		p := addressToTransportId(c.remoteAddr().String())
		if g, ok := v.seenGen[[2]int{t, p}]; ok && g != c.generation {
			v.res.Restarted++
		}
		v.seenGen[[2]int{t, p}] = c.generation
		held += c.incoming.messagesTotalOffset - c.incoming.messagesBeginOffset
		k := [3]int{t, p, v.inc(c)}
		cur := [4]uint32{c.outgoing.ackSeqNoPrefix, c.outgoing.nextSeqNo, c.incoming.ackPrefix, c.acks.ackPrefix}
		if old, ok := v.mono[k]; ok {
			for j := range cur {
				if cur[j] < old[j] {
					v.susp("prefix-backwards")
				}
			}
		}
		v.mono[k] = cur
		if cur[0] > cur[1] || cur[3] > cur[2] || c.incoming.ackPrefix > c.incoming.nextSeqNo {
			v.susp("prefix-order")
		}
	}
	if held != tr.acquiredMemory {
		v.susp("memory-accounting")
	}
}

// ---------------------------------------------------------------------------
// decoding of a datagram at send time

type verifDgInfo struct {
	lo, hi uint32
	ackP   uint32
	ackS   []uint32
	nack   []uint32
	nackDg bool
	kind   string
	gen    uint32
}

func u32s(xs []uint32) string {
	var b bytes.Buffer
	b.WriteByte('[')
	for i, x := range xs {
		if i > 0 {
			b.WriteByte(',')
		}
		b.WriteString(strconv.FormatUint(uint64(x), 10))
	}
	b.WriteByte(']')
	return b.String()
}

func b2i(b bool) int {
	if b {
		return 1
	}
	return 0
}

func ackFields(enc *tlnetUdpPacket.EncHeader) (ackP uint32, ackS []uint32) {
	if enc.IsSetPacketAckPrefix() {
		ackP = enc.PacketAckPrefix + 1
	}
	if enc.IsSetPacketAckFrom() {
		for s := enc.PacketAckFrom; s <= enc.PacketAckTo; s++ {
			ackS = append(ackS, s)
		}
	}
	if enc.IsSetPacketAckSet() {
		ackS = append(ackS, enc.PacketAckSet...)
	}
	return
}

func (v *verifCtx) decodeSent(src, dst int, datagram []byte) (info verifDgInfo, err error) {
	t := v.fctx.ts[src]
	if len(datagram) < 8 {
		return info, fmt.Errorf("short datagram")
	}
	payload := datagram[:len(datagram)-4]
	var unenc tlnetUdpPacket.UnencHeader
	payload, err = unenc.ReadTL1Boxed(payload)
	if err != nil {
		return info, err
	}
	var conn *Connection
	for _, c := range t.handshakeByPid {
		if addressToTransportId(c.remoteAddr().String()) == dst {
			conn = c
		}
	}
	type cand struct {
		key        string
		local, rem tlnet.Pid
		gen        uint32
	}
	var cands []cand
	if unenc.IsSetLocalPid() {
		cands = append(cands, cand{t.cryptoKeys[getKeyID(unenc.CryptoFlags)], unenc.LocalPid, unenc.RemotePid, unenc.Generation})
		info.gen = unenc.Generation
	}
	if conn != nil {
		cands = append(cands, cand{t.cryptoKeys[conn.keyID], conn.localPid(), conn.remotePid(), conn.generation})
		if !unenc.IsSetLocalPid() {
			info.gen = conn.generation
		}
	}
	var ivb [32]byte
	CopyIVTo(&ivb, unenc.CryptoRandom)
	for _, cd := range cands {
		keys := DeriveCryptoKeysUdp(cd.key, &cd.local, &cd.rem, cd.gen)
		block, kerr := aes.NewCipher(keys.WriteKey[:])
		if kerr != nil {
			return info, kerr
		}
		plain := make([]byte, len(payload))
		iv := ivb
		ige.DecryptBlocks(block, iv[:], plain, payload)
		var enc tlnetUdpPacket.EncHeader
		body, rerr := enc.ReadTL1(plain)
		if rerr != nil || unenc.Flags&EncryptedFlagsMask != enc.Flags&EncryptedFlagsMask || !enc.IsSetVersion() ||
			enc.Version != int32(TransportVersion|TransportVersion<<16) {
			continue
		}
		pad := 0
		if enc.IsSetZeroPadding1Byte() {
			pad += 1
		}
		if enc.IsSetZeroPadding2Bytes() {
			pad += 2
		}
		if enc.IsSetZeroPadding4Bytes() {
			pad += 4
		}
		if enc.IsSetZeroPadding8Bytes() {
			pad += 8
		}
		u2 := encryptedUnencHeaderSize(unenc)
		if len(body) < u2+pad {
			continue
		}
		var unenc2 tlnetUdpPacket.UnencHeader
		if _, e := t.readEncryptedUnencHeader(body[len(body)-u2:], unenc, &unenc2); e != nil ||
			unenc.PidHash != unenc2.PidHash || unenc.LocalPid != unenc2.LocalPid || unenc.RemotePid != unenc2.RemotePid {
			continue
		}
		body = body[:len(body)-u2-pad]
		info.lo, info.hi = 1, 0
		info.kind = "data"
		info.ackP, info.ackS = ackFields(&enc)
		if enc.IsSetPacketsFrom() {
			info.lo, info.hi = enc.PacketsFrom, enc.PacketsFrom+enc.PacketsCount-1
		} else if enc.IsSetPacketNum() {
			if enc.PacketNum != ^uint32(0) {
				info.lo, info.hi = enc.PacketNum, enc.PacketNum
			} else {
				info.kind = "unreliable"
				if len(body) >= 4 {
					tag := uint32(body[0]) | uint32(body[1])<<8 | uint32(body[2])<<16 | uint32(body[3])<<24
					switch tag {
					case tlnetUdpPacket.ResendRequest{}.TLTag():
						var req tlnetUdpPacket.ResendRequest
						if _, e := req.ReadTL1Boxed(body); e != nil {
							return info, e
						}
						info.nackDg = true
						info.kind = "nack"
						for _, r := range req.Ranges {
							for s := r.PacketNumFrom; s <= r.PacketNumTo; s++ {
								info.nack = append(info.nack, s)
							}
						}
					case tlnetUdpPacket.ObsoleteHash{}.TLTag():
						info.kind = "obsoleteHash"
					case tlnetUdpPacket.ObsoletePid{}.TLTag():
						info.kind = "obsoletePid"
					case tlnetUdpPacket.ObsoleteGeneration{}.TLTag():
						info.kind = "obsoleteGeneration"
					}
				}
			}
		} else {
			info.kind = "ack"
		}
		return info, nil
	}
	return info, fmt.Errorf("no key decrypts the datagram (pid form %v, %d candidates)", unenc.IsSetLocalPid(), len(cands))
}
