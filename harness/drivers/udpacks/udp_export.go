//go:build verif

// In-package accessor for pkg/rpc/udp, injected with `go build -overlay` as
// pkg/rpc/udp/verif_export.go.  Reads the unexported representation of
// AcksToSend and builds headers into plain structs; all mutations go through
// AddAckRange.
package udp

import (
	"github.com/VKCOM/tl/pkg/rpc/internal/gen/tlnetUdpPacket"
)

// VAcksState returns ackPrefix and the linked list of ranges.
func VAcksState(a *AcksToSend) (prefix uint32, ranges [][2]uint32) {
	ranges = [][2]uint32{}
	n := 0
	for r := a.firstRange; r != nil; r = r.next {
		ranges = append(ranges, [2]uint32{r.ackFrom, r.ackTo})
		if n++; n > 1<<20 {
			panic("ackRange list has a cycle")
		}
	}
	return a.ackPrefix, ranges
}

// VAcksInvariants runs the package's own checkInvariantsCommon.
func VAcksInvariants(a *AcksToSend) []string {
	errs := []string{}
	a.checkInvariantsCommon(func(s string) { errs = append(errs, s) })
	return errs
}

type VAckHeader struct {
	HasPrefix bool     `json:"hasPrefix"`
	Prefix    uint32   `json:"prefix"`
	HasRange  bool     `json:"hasRange"`
	From      uint32   `json:"from"`
	To        uint32   `json:"to"`
	HasSet    bool     `json:"hasSet"`
	Set       []uint32 `json:"set"`
}

func VHeaderOf(enc *tlnetUdpPacket.EncHeader) VAckHeader {
	h := VAckHeader{
		HasPrefix: enc.IsSetPacketAckPrefix(), Prefix: enc.PacketAckPrefix,
		HasRange: enc.IsSetPacketAckFrom() && enc.IsSetPacketAckTo(), From: enc.PacketAckFrom, To: enc.PacketAckTo,
		HasSet: enc.IsSetPacketAckSet(), Set: []uint32{},
	}
	if h.HasSet {
		h.Set = append(h.Set, enc.PacketAckSet...)
	}
	return h
}

// VEncHeader lets the driver keep one header alive across calls (the transport reuses them).
type VEncHeader = tlnetUdpPacket.EncHeader

// VBuildAck builds the acknowledgement part of enc (a fresh header when enc == nil).
func VBuildAck(a *AcksToSend, enc *VEncHeader) VAckHeader {
	if enc == nil {
		enc = &tlnetUdpPacket.EncHeader{}
	}
	a.BuildAck(enc)
	return VHeaderOf(enc)
}

// VBuildNack builds a resend request into a fresh ResendRequest.
func VBuildNack(a *AcksToSend) [][2]uint32 {
	var req tlnetUdpPacket.ResendRequest
	a.BuildNegativeAck(&req)
	out := [][2]uint32{}
	for _, r := range req.Ranges {
		out = append(out, [2]uint32{r.PacketNumFrom, r.PacketNumTo})
	}
	return out
}
