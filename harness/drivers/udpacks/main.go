//go:build verif

// udpacks driver: replays AddAckRange sequences on the real udp.AcksToSend and
// reports its representation and the headers built from it; records random
// histories as NDJSON traces.  Injected at internal/verifx/udpacks/main.go.
package main

import (
	"bufio"
	"encoding/json"
	"fmt"
	"math/rand"
	"os"

	"github.com/VKCOM/tl/pkg/rpc/udp"
)

type req struct {
	Obj   string      `json:"obj"` // acks | ackstrace
	Off   uint32      `json:"off"` // added to every model number >= 1 (0: none)
	Init  [][2]uint32 `json:"init"`
	Path  [][2]uint32 `json:"path"`
	Edges [][2]uint32 `json:"edges"`
	Seed  int64       `json:"seed"`
	Count int         `json:"count"`
	Out   string      `json:"out"`
}

func project(a *udp.AcksToSend) map[string]any {
	p, rs := udp.VAcksState(a)
	return map[string]any{
		"prefix": p, "ranges": rs, "holes": a.HaveHoles(),
		"ack": udp.VBuildAck(a, nil), "nack": udp.VBuildNack(a),
		"inv": udp.VAcksInvariants(a),
	}
}

func run(q req) any {
	add := func(a *udp.AcksToSend, r [2]uint32) {
		a.AddAckRange(r[0]+q.Off, r[1]+q.Off)
	}
	build := func() *udp.AcksToSend {
		a := &udp.AcksToSend{}
		for _, r := range q.Init {
			add(a, r)
		}
		for _, r := range q.Path {
			add(a, r)
		}
		return a
	}
	if len(q.Edges) == 0 {
		return map[string]any{"res": []any{project(build())}}
	}
	res := make([]any, 0, len(q.Edges))
	for _, e := range q.Edges {
		a := build()
		add(a, e)
		res = append(res, project(a))
	}
	return map[string]any{"res": res}
}

func trace(q req) any {
	f, err := os.Create(q.Out)
	if err != nil {
		panic(err)
	}
	defer f.Close()
	bw := bufio.NewWriterSize(f, 1<<20)
	defer bw.Flush()
	enc := json.NewEncoder(bw)
	rnd := rand.New(rand.NewSource(q.Seed))
	n := 0
	ev := func(m map[string]any) { _ = enc.Encode(m); n++ }
	left := q.Count
	for h := 0; left > 0; h++ {
		dom := []int{12, 40, 160, 400}[h%4]
		maxLen := []int{3, 6, 2, 3}[rnd.Intn(4)]
		if dom == 400 { // many small islands: more than MaxAckSet ranges
			maxLen = 1 + rnd.Intn(2)
		}
		var off uint32
		lo := 0
		if h%5 == 4 { // numbers just below 2^32; the model sees them minus off
			off = ^uint32(0) - uint32(dom) - 1
			lo = 1
		}
		un := func(v uint32) uint32 {
			if off != 0 && v >= off {
				return v - off
			}
			return v
		}
		hl := 40 + rnd.Intn(dom)
		if dom == 400 {
			hl = 250 + rnd.Intn(200)
		}
		if hl > left {
			hl = left
		}
		left -= hl
		ev(map[string]any{"op": "reset", "off": fmt.Sprint(off)})
		a := &udp.AcksToSend{}
		reused := &udp.VEncHeader{}
		hdr := func(h udp.VAckHeader) map[string]any {
			set := make([]uint32, 0, len(h.Set))
			for _, x := range h.Set {
				set = append(set, un(x))
			}
			return map[string]any{"hasPrefix": h.HasPrefix, "prefix": un(h.Prefix), "hasRange": h.HasRange,
				"from": un(h.From), "to": un(h.To), "hasSet": h.HasSet, "set": set}
		}
		for i := 0; i < hl; i++ {
			switch c := rnd.Intn(10); {
			case c < 6:
				f := lo + rnd.Intn(dom-lo)
				if rnd.Intn(8) == 0 && (dom != 400 || rnd.Intn(4) == 0) {
					f = lo // touches the prefix
				}
				if p, _ := udp.VAcksState(a); rnd.Intn(6) == 0 && off == 0 && (dom != 400 || rnd.Intn(4) == 0) {
					f = int(p) + rnd.Intn(3) // at / just above the prefix
				}
				t := f + rnd.Intn(maxLen)
				wideOdds := 25
				if dom == 400 {
					wideOdds = 300
				}
				if rnd.Intn(wideOdds) == 0 {
					t = f + rnd.Intn(dom/2+1) // a wide range swallowing many
				}
				if t >= dom+lo {
					t = dom + lo - 1
				}
				if f > t {
					f = t
				}
				a.AddAckRange(uint32(f)+off, uint32(t)+off)
				p, rs := udp.VAcksState(a)
				mrs := make([][2]uint32, 0, len(rs))
				for _, r := range rs {
					mrs = append(mrs, [2]uint32{un(r[0]), un(r[1])})
				}
				ev(map[string]any{"op": "add", "f": f, "t": t, "prefix": un(p), "ranges": mrs,
					"holes": a.HaveHoles(), "inv": udp.VAcksInvariants(a)})
			case c < 8:
				ev(map[string]any{"op": "ack", "h": hdr(udp.VBuildAck(a, nil))})
				ev(map[string]any{"op": "ackr", "h": hdr(udp.VBuildAck(a, reused))})
			default:
				ns := udp.VBuildNack(a)
				m := make([][2]uint32, 0, len(ns))
				for _, r := range ns {
					m = append(m, [2]uint32{un(r[0]), un(r[1])})
				}
				ev(map[string]any{"op": "nack", "n": m})
			}
		}
	}
	return map[string]any{"events": n}
}

func handle(q req) (resp any) {
	defer func() {
		if r := recover(); r != nil {
			resp = map[string]any{"fatal": fmt.Sprint(r)}
		}
	}()
	switch q.Obj {
	case "acks":
		return run(q)
	case "ackstrace":
		return trace(q)
	}
	return map[string]any{"fatal": "unknown obj " + q.Obj}
}

func main() {
	rd := bufio.NewReaderSize(os.Stdin, 1<<20)
	wr := bufio.NewWriterSize(os.Stdout, 1<<20)
	for {
		line, err := rd.ReadBytes('\n')
		if len(line) > 1 {
			var q req
			if jerr := json.Unmarshal(line, &q); jerr != nil {
				fmt.Fprintln(wr, `{"fatal":"bad request"}`)
			} else {
				b, _ := json.Marshal(handle(q))
				wr.Write(b)
				wr.WriteByte('\n')
			}
			wr.Flush()
		}
		if err != nil {
			return
		}
	}
}
