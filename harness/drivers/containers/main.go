//go:build verif

// containers driver: replays operation sequences on the real algo.TreeMap /
// algo.CircularSlice and reports complete projections of their state; records
// random histories as NDJSON traces.  NDJSON on stdin/stdout; injected into the
// repository with `go build -overlay` at internal/verifx/containers/main.go.
package main

import (
	"bufio"
	"encoding/json"
	"fmt"
	"math/rand"
	"os"

	"github.com/VKCOM/tl/internal/vkgo/pkg/algo"
)

type op struct {
	Op string `json:"op"`
	A  []int  `json:"a"`
}

type req struct {
	Obj   string `json:"obj"` // tree | slice | treetrace | slicetrace
	NK    int    `json:"nk"`
	Path  []op   `json:"path"`
	Edges []op   `json:"edges"`
	// traces
	Seed  int64  `json:"seed"`
	Count int    `json:"count"`
	Out   string `json:"out"`
}

func catch(f func()) (msg string) {
	defer func() {
		if r := recover(); r != nil {
			msg = fmt.Sprint(r)
			if msg == "" {
				msg = "panic"
			}
		}
	}()
	f()
	return ""
}

// ---------------------------------------------------------------------------
// TreeMap

func treeApply(t *algo.VTree, o op) string {
	return catch(func() {
		switch o.Op {
		case "Set":
			t.M.Set(o.A[0], o.A[1])
		case "Delete":
			t.M.Delete(o.A[0])
		case "Update": // write through GetPtr
			if p := t.M.GetPtr(o.A[0]); p != nil {
				*p = o.A[1]
			}
		default:
			panic("unknown tree op " + o.Op)
		}
	})
}

func entry(f func() algo.Entry[int, int]) []int {
	var e algo.Entry[int, int]
	if catch(func() { e = f() }) != "" {
		return []int{}
	}
	return []int{e.K, e.V}
}

func treeProject(t *algo.VTree, nk int) map[string]any {
	get := make([]int, nk)
	ptrOK := true
	for k := 1; k <= nk; k++ {
		v, ok := t.M.Get(k)
		p := t.M.GetPtr(k)
		if ok {
			get[k-1] = v
			if p == nil || *p != v {
				ptrOK = false
			}
		} else if p != nil || v != 0 {
			ptrOK = false
		}
	}
	size, th, imb := t.Measures()
	return map[string]any{
		"shape": t.Shape(), "get": get, "getptr_agrees": ptrOK,
		"front": entry(t.M.Front), "back": entry(t.M.Back),
		"empty": t.M.Empty(), "lm1": t.M.LenMoreThan1(),
		"size": size, "th": th, "imb": imb,
		"validate": t.Validate(), "live": t.A.Allocated - t.A.Deallocated, "dirty": t.A.DirtyReuse,
	}
}

func treeRun(q req) any {
	build := func() (*algo.VTree, string) {
		t := algo.NewVTree()
		for _, o := range q.Path {
			if m := treeApply(t, o); m != "" {
				return t, "path: " + m
			}
		}
		return t, ""
	}
	if len(q.Edges) == 0 {
		t, m := build()
		p := treeProject(t, q.NK)
		p["panic"] = m
		return map[string]any{"res": []any{p}}
	}
	res := make([]any, 0, len(q.Edges))
	for _, e := range q.Edges {
		t, m := build()
		if m == "" {
			m = treeApply(t, e)
		}
		p := treeProject(t, q.NK)
		p["panic"] = m
		res = append(res, p)
	}
	return map[string]any{"res": res}
}

// ---------------------------------------------------------------------------
// CircularSlice (two objects: s[0] is "slice 1" of the model, s[1] is "slice 2")

type slices [2]algo.CircularSlice[int]

func sliceApply(s *slices, o op) string {
	return catch(func() {
		switch o.Op {
		case "Push":
			s[o.A[0]-1].PushBack(o.A[1])
		case "Pop":
			s[o.A[0]-1].PopFront()
		case "Reserve":
			s[o.A[0]-1].Reserve(o.A[1])
		case "Clear":
			s[o.A[0]-1].Clear()
		case "DeepAssign":
			s[o.A[0]-1].DeepAssign(s[2-o.A[0]])
		case "Swap":
			s[0].Swap(&s[1])
		default:
			panic("unknown slice op " + o.Op)
		}
	})
}

func orPanic(f func() int) int {
	v := 0
	if catch(func() { v = f() }) != "" {
		return -1
	}
	return v
}

func oneSlice(s *algo.CircularSlice[int]) map[string]any {
	// a call that must panic and leave the object untouched
	popPanics := false
	if s.Len() == 0 {
		popPanics = catch(func() { s.PopFront() }) != ""
	}
	el, rp, wp := algo.VSliceState(s)
	idx := make([]int, 0, s.Cap()+2)
	refOK := true
	for p := 0; p <= s.Cap()+1; p++ {
		v := orPanic(func() int { return s.Index(p) })
		r := orPanic(func() int { return *s.IndexRef(p) })
		if v != r {
			refOK = false
		}
		idx = append(idx, v)
	}
	s1, s2 := s.Slices()
	return map[string]any{
		"el": el, "rp": rp, "wp": wp, "len": s.Len(), "cap": s.Cap(),
		"front":      orPanic(s.Front),
		"idx":        idx,
		"idxneg":     orPanic(func() int { return s.Index(-1) }),
		"ref_agrees": refOK,
		"s1":         append([]int{}, s1...), "s2": append([]int{}, s2...),
		"poppanic": popPanics,
	}
}

func sliceProject(s *slices) map[string]any {
	return map[string]any{"s": []any{oneSlice(&s[0]), oneSlice(&s[1])}, "alias": algo.VSliceAlias(&s[0], &s[1])}
}

func sliceRun(q req) any {
	build := func() (*slices, string) {
		s := &slices{}
		for _, o := range q.Path {
			if m := sliceApply(s, o); m != "" {
				return s, "path: " + m
			}
		}
		return s, ""
	}
	edges := q.Edges
	single := len(edges) == 0
	if single {
		edges = []op{{Op: ""}}
	}
	res := make([]any, 0, len(edges))
	for _, e := range edges {
		s, m := build()
		if m == "" && !single {
			m = sliceApply(s, e)
		}
		p := sliceProject(s)
		p["panic"] = m
		res = append(res, p)
	}
	return map[string]any{"res": res}
}

// ---------------------------------------------------------------------------
// random histories (code -> spec)

type rec struct {
	enc *json.Encoder
	n   int
}

func (r *rec) ev(m map[string]any) { _ = r.enc.Encode(m); r.n++ }

func treeTrace(q req, r *rec, rnd *rand.Rand) {
	// histories over key domains of different density; q.NK is the largest key
	doms := []int{4, 8, 16, 64, q.NK}
	left := q.Count
	for h := 0; left > 0; h++ {
		dom := doms[h%len(doms)]
		if dom > q.NK {
			dom = q.NK
		}
		hl := 200 + rnd.Intn(40*dom+1)
		if hl > left {
			hl = left
		}
		left -= hl
		r.ev(map[string]any{"op": "treset"})
		t := algo.NewVTree()
		pDel := 20 + rnd.Intn(35) // per-history delete share
		post := func(m map[string]any) map[string]any {
			size, th, imb := t.Measures()
			rk, rh := t.RootKeyHeight()
			m["n"], m["th"], m["imb"], m["rk"], m["rh"] = size, th, imb, rk, rh
			m["live"] = t.A.Allocated - t.A.Deallocated
			return m
		}
		for i := 0; i < hl; i++ {
			k := 1 + rnd.Intn(dom)
			if rnd.Intn(4) == 0 { // ascending / descending runs provoke one-sided growth
				k = 1 + (i*7)%dom
			}
			c := rnd.Intn(100)
			switch {
			case c < 40:
				v := 1 + rnd.Intn(1000)
				t.M.Set(k, v)
				r.ev(post(map[string]any{"op": "set", "k": k, "v": v}))
			case c < 40+pDel:
				t.M.Delete(k)
				r.ev(post(map[string]any{"op": "del", "k": k}))
			case c < 47+pDel:
				v := 1 + rnd.Intn(1000)
				p := t.M.GetPtr(k)
				if p != nil {
					*p = v
				}
				r.ev(post(map[string]any{"op": "upd", "k": k, "v": v, "found": p != nil}))
			case c < 60+pDel:
				v, ok := t.M.Get(k)
				r.ev(map[string]any{"op": "get", "k": k, "found": ok, "v": v})
			case c < 70+pDel:
				e := entry(t.M.Front)
				r.ev(map[string]any{"op": "front", "e": e})
			case c < 80+pDel:
				e := entry(t.M.Back)
				r.ev(map[string]any{"op": "back", "e": e})
			case c < 90+pDel:
				r.ev(map[string]any{"op": "empty", "r": t.M.Empty()})
			default:
				r.ev(map[string]any{"op": "lm1", "r": t.M.LenMoreThan1()})
			}
		}
	}
}

func sliceTrace(q req, r *rec, rnd *rand.Rand) {
	left := q.Count
	for left > 0 {
		hl := 100 + rnd.Intn(600)
		if hl > left {
			hl = left
		}
		left -= hl
		r.ev(map[string]any{"op": "sreset"})
		s := &slices{}
		pPush := 30 + rnd.Intn(25)
		post := func(i int, m map[string]any) map[string]any {
			_, rp, wp := algo.VSliceState(&s[i])
			m["i"], m["len"], m["cap"], m["rp"], m["wp"] = i+1, s[i].Len(), s[i].Cap(), rp, wp
			return m
		}
		for j := 0; j < hl; j++ {
			i := rnd.Intn(2)
			c := rnd.Intn(100)
			switch {
			case c < pPush:
				x := 1 + rnd.Intn(1000)
				s[i].PushBack(x)
				r.ev(post(i, map[string]any{"op": "push", "x": x}))
			case c < pPush+25:
				x := 0
				m := catch(func() { x = s[i].PopFront() })
				r.ev(post(i, map[string]any{"op": "pop", "panic": m != "", "x": x}))
			case c < pPush+32:
				r.ev(post(i, map[string]any{"op": "sfront", "x": orPanic(s[i].Front)}))
			case c < pPush+42:
				p := rnd.Intn(s[i].Len()+3) - 1
				r.ev(post(i, map[string]any{"op": "index", "p": p, "x": orPanic(func() int { return s[i].Index(p) })}))
			case c < pPush+47:
				p := rnd.Intn(s[i].Len() + 1)
				x := 1 + rnd.Intn(1000)
				ok := false
				if p < s[i].Len() {
					*s[i].IndexRef(p) = x
					ok = true
				}
				r.ev(post(i, map[string]any{"op": "setref", "p": p, "x": x, "done": ok}))
			case c < pPush+52:
				n := rnd.Intn(2*s[i].Cap() + 6)
				s[i].Reserve(n)
				r.ev(post(i, map[string]any{"op": "reserve", "n": n}))
			case c < pPush+54:
				s[i].Clear()
				r.ev(post(i, map[string]any{"op": "clear"}))
			case c < pPush+60:
				s1, s2 := s[i].Slices()
				r.ev(post(i, map[string]any{"op": "slices", "s1": append([]int{}, s1...), "s2": append([]int{}, s2...)}))
			case c < pPush+63:
				s[i].DeepAssign(s[1-i])
				r.ev(post(i, map[string]any{"op": "deepassign", "alias": algo.VSliceAlias(&s[0], &s[1])}))
			default:
				s[0].Swap(&s[1])
				r.ev(post(i, map[string]any{"op": "swap"}))
			}
		}
	}
}

func trace(q req) any {
	f, err := os.Create(q.Out)
	if err != nil {
		panic(err)
	}
	defer f.Close()
	bw := bufio.NewWriterSize(f, 1<<20)
	defer bw.Flush()
	r := &rec{enc: json.NewEncoder(bw)}
	rnd := rand.New(rand.NewSource(q.Seed))
	if q.Obj == "treetrace" {
		treeTrace(q, r, rnd)
	} else {
		sliceTrace(q, r, rnd)
	}
	return map[string]any{"events": r.n}
}

func handle(q req) (resp any) {
	defer func() {
		if r := recover(); r != nil {
			resp = map[string]any{"fatal": fmt.Sprint(r)}
		}
	}()
	switch q.Obj {
	case "tree":
		return treeRun(q)
	case "slice":
		return sliceRun(q)
	case "treetrace", "slicetrace":
		return trace(q)
	}
	return map[string]any{"fatal": "unknown obj " + q.Obj}
}

func main() {
	rd := bufio.NewReaderSize(os.Stdin, 1<<20)
	wr := bufio.NewWriterSize(os.Stdout, 1<<20)
	for {
		line, err := rd.ReadBytes('\n')
		if len(line) > 1 {
			var q req
			if jerr := json.Unmarshal(line, &q); jerr != nil {
				fmt.Fprintln(wr, `{"fatal":"bad request"}`)
			} else {
				b, _ := json.Marshal(handle(q))
				wr.Write(b)
				wr.WriteByte('\n')
			}
			wr.Flush()
		}
		if err != nil {
			return
		}
	}
}
