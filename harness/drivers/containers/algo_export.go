//go:build verif

// In-package accessor for internal/vkgo/pkg/algo, injected with `go build -overlay`
// as internal/vkgo/pkg/algo/verif_export.go.  It only READS unexported state
// (node fields, read_pos/write_pos, allocator traffic); every mutation goes
// through the exported API of TreeMap / CircularSlice.
package algo

import "fmt"

type VIntLess struct{}

func (VIntLess) Cmp(a, b int) bool { return a < b }

type vNode = TreeNode[Entry[int, int]]

// VAlloc counts allocator traffic and checks the "deallocate must assign empty value" contract.
type VAlloc struct {
	inner       SliceCacheAllocator[vNode]
	Allocated   int
	Deallocated int
	DirtyReuse  int // nodes handed out by the cache that were not zeroed
}

func (a *VAlloc) allocate() *vNode {
	a.Allocated++
	n := a.inner.allocate()
	if n.left != nil || n.right != nil || n.height != 0 || n.value != (Entry[int, int]{}) {
		a.DirtyReuse++
	}
	return n
}

func (a *VAlloc) deallocate(n *vNode) {
	a.Deallocated++
	a.inner.deallocate(n)
}

type VTree struct {
	M TreeMap[int, int, VIntLess]
	A *VAlloc
}

func NewVTree() *VTree {
	a := &VAlloc{inner: NewSliceCacheAllocator[vNode]()}
	return &VTree{M: NewTreeMap[int, int, VIntLess](a), A: a}
}

func vShape(n *vNode, budget *int) any {
	if n == nil {
		return []any{}
	}
	*budget--
	if *budget < 0 {
		panic("tree has a cycle or is absurdly large")
	}
	return []any{n.value.K, n.value.V, int(n.height), vShape(n.left, budget), vShape(n.right, budget)}
}

// Shape is the pre-order structure [key, value, storedHeight, left, right], nil = [].
func (t *VTree) Shape() any {
	b := 1 << 22
	return vShape(t.M.root, &b)
}

// Measures returns (#nodes, true height, largest true height difference between siblings).
func (t *VTree) Measures() (size, height, imbalance int) {
	var rec func(n *vNode) int
	rec = func(n *vNode) int {
		if n == nil {
			return 0
		}
		size++
		l, r := rec(n.left), rec(n.right)
		d := l - r
		if d < 0 {
			d = -d
		}
		if d > imbalance {
			imbalance = d
		}
		return 1 + max(l, r)
	}
	height = rec(t.M.root)
	return
}

func (t *VTree) RootKeyHeight() (int, int) {
	if t.M.root == nil {
		return 0, -1
	}
	return t.M.root.value.K, int(t.M.root.height)
}

// Validate runs the package's own validate() and reports its panic text ("" = fine).
func (t *VTree) Validate() (msg string) {
	defer func() {
		if r := recover(); r != nil {
			msg = fmt.Sprint(r)
		}
	}()
	t.M.validate()
	return ""
}

// VSliceState exposes (elements, read_pos, write_pos).
func VSliceState(s *CircularSlice[int]) (el []int, rp, wp int) {
	return append([]int{}, s.elements...), s.read_pos, s.write_pos
}

// VSliceAlias reports whether two slices share their backing array.
func VSliceAlias(a, b *CircularSlice[int]) bool {
	return len(a.elements) > 0 && len(b.elements) > 0 && &a.elements[0] == &b.elements[0]
}
