//go:build verif

// packetconn driver (property C35): a pair of real rpc.PacketConn over an in-memory
// connection whose a->b direction is delivered in exactly the chunks, and with exactly the
// single corrupted byte, that the model (spec/PacketConn.tla) dictates.
// NDJSON on stdin/stdout; injected into the tree under test with `go build -overlay`
// (virtual path internal/verifx/packetconn/main.go).
//
// Determinism: the handshake is a strict ping-pong between two goroutines (data written by
// one end becomes visible to the other end only when the writer starts waiting for input or
// finishes), everything after the handshake runs on one goroutine: the writer writes all
// packets, the stream is closed, the reader reads until it reports an error or EOF.
// Timers exist only as watchdogs.
package main

import (
	"bufio"
	"encoding/binary"
	"encoding/hex"
	"encoding/json"
	"errors"
	"fmt"
	"hash/fnv"
	"io"
	"net"
	"os"
	"sort"
	"sync"
	"time"

	"github.com/VKCOM/tl/pkg/rpc"
)

// ---------------------------------------------------------------------------
// in-memory connection

var errWouldBlock = errors.New("verif: read would block (no data, stream not closed)")
var errDeadlock = errors.New("verif: deadlock: both ends wait for input that nobody will write")

// link is the shared state of the two directions: one lock, so that "both ends are waiting
// and neither has anything to read" is decided on the state, never on time.
type link struct {
	mu       sync.Mutex
	cond     *sync.Cond
	waiting  [2]bool // end i is blocked in Read
	finished [2]bool // end i has returned from its handshake
	dead     bool
}

type half struct {
	l        *link
	buf      []byte // everything the source end has written
	visible  int    // prefix of buf the reading end may see
	rpos     int    // served to the reading end
	closed   bool   // EOF once rpos == visible
	strict   bool   // never block: a read without data is a harness error
	cuts     []int  // sorted; a chunk never extends across a cut (cut c = boundary after c bytes)
	corrPos  int    // absolute 0-based offset of the corrupted byte, -1 = none
	corrMask byte
	timeouts map[int]int // position -> how many injected deadline errors are still due there
	nreads   int
	sawEOF   bool
}

func newLink() *link {
	l := &link{}
	l.cond = sync.NewCond(&l.mu)
	return l
}

func newHalf(l *link) *half { return &half{l: l, corrPos: -1} }

func (h *half) write(p []byte) (int, error) {
	h.l.mu.Lock()
	defer h.l.mu.Unlock()
	if h.closed {
		return 0, io.ErrClosedPipe
	}
	h.buf = append(h.buf, p...)
	return len(p), nil
}

func (h *half) publish() {
	h.l.mu.Lock()
	h.visible = len(h.buf)
	h.l.mu.Unlock()
	h.l.cond.Broadcast()
}

func (h *half) closeWrite() {
	h.l.mu.Lock()
	h.visible = len(h.buf)
	h.closed = true
	h.l.mu.Unlock()
	h.l.cond.Broadcast()
}

// read serves end `me` (0 client, 1 server) from h; out is what that end writes to.
func (h *half) read(p []byte, me int, out *half) (int, error) {
	l := h.l
	l.mu.Lock()
	defer l.mu.Unlock()
	out.visible = len(out.buf) // whatever we wrote becomes visible when we start waiting for input
	l.cond.Broadcast()
	h.nreads++
	if h.timeouts[h.rpos] > 0 {
		h.timeouts[h.rpos]--
		return 0, os.ErrDeadlineExceeded
	}
	for h.rpos == h.visible && !h.closed {
		if h.strict {
			return 0, errWouldBlock
		}
		if l.dead {
			return 0, errDeadlock
		}
		other := 1 - me
		otherStuck := l.finished[other] || (l.waiting[other] && out.rpos == out.visible && !out.closed)
		if otherStuck {
			l.dead = true
			l.cond.Broadcast()
			return 0, errDeadlock
		}
		l.waiting[me] = true
		l.cond.Wait()
		l.waiting[me] = false
	}
	if h.rpos == h.visible {
		h.sawEOF = true
		return 0, io.EOF
	}
	limit := h.visible
	i := sort.SearchInts(h.cuts, h.rpos+1)
	if i < len(h.cuts) && h.cuts[i] < limit {
		limit = h.cuts[i]
	}
	n := len(p)
	if n > limit-h.rpos {
		n = limit - h.rpos
	}
	copy(p[:n], h.buf[h.rpos:h.rpos+n])
	if h.corrPos >= h.rpos && h.corrPos < h.rpos+n {
		p[h.corrPos-h.rpos] ^= h.corrMask
	}
	h.rpos += n
	return n, nil
}

func (l *link) finish(me int, out *half, failed bool) {
	l.mu.Lock()
	l.finished[me] = true
	out.visible = len(out.buf)
	if failed {
		out.closed = true
	}
	l.mu.Unlock()
	l.cond.Broadcast()
}

type endConn struct {
	me            int
	in, out       *half
	local, remote net.Addr
}

func (c *endConn) Read(p []byte) (int, error)         { return c.in.read(p, c.me, c.out) }
func (c *endConn) Write(p []byte) (int, error)        { return c.out.write(p) }
func (c *endConn) Close() error                       { c.out.closeWrite(); return nil }
func (c *endConn) LocalAddr() net.Addr                { return c.local }
func (c *endConn) RemoteAddr() net.Addr               { return c.remote }
func (c *endConn) SetDeadline(t time.Time) error      { return nil }
func (c *endConn) SetReadDeadline(t time.Time) error  { return nil }
func (c *endConn) SetWriteDeadline(t time.Time) error { return nil }

// ---------------------------------------------------------------------------
// requests

type pktReq struct {
	Tp    uint32 `json:"tp"`
	Len   int    `json:"len"`
	Flush bool   `json:"flush"`
	Seed  int64  `json:"seed"`
	API   int    `json:"api"` // 0 WritePacket[NoFlush], 1 WritePacket2, 2 header/body parts/trailer
	Raw   int    `json:"raw"` // > 0: not a packet: Flush, then this many raw padding words (plain streams)
}

type corrReq struct {
	Pos  int `json:"pos"`  // absolute 0-based offset in the writer->reader byte stream
	Mask int `json:"mask"` // xor mask 1..255
	// Exact: use the mask as given (plain region); otherwise the driver may try other masks until
	// every byte of the garbled CBC block differs from the original (materialises "garbled").
	Exact bool `json:"exact"`
}

type req struct {
	Op     string    `json:"op"`
	Writer string    `json:"writer"` // "client" | "server": which end writes the user packets
	Enc    bool      `json:"enc"`
	Ver    uint32    `json:"ver"`
	RBuf   int       `json:"rbuf"`
	WBuf   int       `json:"wbuf"`
	Pkts   []pktReq  `json:"pkts"`
	Cuts   []int     `json:"cuts"`
	Corrs  []corrReq `json:"corrs"` // one run per entry; empty = one run without corruption
	Tmo    []int     `json:"tmo"`   // injected read-deadline errors at these absolute positions (reader side)
	Plain  bool      `json:"plain"` // return the post-handshake plaintext (hex) of both directions
	MaxRd  int       `json:"maxrd"`
	Unlock bool      `json:"unlocked"` // reader uses ReadPacketUnlocked + WritePacketBuiltinNoFlushUnlocked + FlushUnlocked

	// nego
	Addr   string   `json:"addr"` // "loop" | "remote"
	CTrust bool     `json:"ctrust"`
	STrust bool     `json:"strust"`
	CForce bool     `json:"cforce"`
	SForce bool     `json:"sforce"`
	CKey   string   `json:"ckey"`
	SKeys  []string `json:"skeys"`
}

type readRes struct {
	Kind   string `json:"kind"` // "pkt" | "err"
	Tp     uint32 `json:"tp"`
	Len    int    `json:"len"`
	Hash   string `json:"hash"`
	Err    string `json:"err"`
	Text   string `json:"text,omitempty"`
	Served int    `json:"served"` // bytes of the stream pulled by the reader when the call returned
	EOF    bool   `json:"eof"`    // the reader has seen end of stream
}

type writeRes struct {
	Err  string `json:"err"`
	Hash string `json:"hash"`
	Wire int    `json:"wire"` // bytes handed to the connection after the call
	Tail int    `json:"trailer"` // CRC + alignment bytes still held back by the writer
}

type runRes struct {
	Fail     string     `json:"fail,omitempty"` // harness-level failure (watchdog, would-block, panic)
	HsErrA   string     `json:"hsErrA"`
	HsErrB   string     `json:"hsErrB"`
	EncA     bool       `json:"encA"`
	EncB     bool       `json:"encB"`
	VerA     uint32     `json:"verA"`
	VerB     uint32     `json:"verB"`
	NonceEnd int        `json:"nonceEnd"` // writer->reader stream offsets
	HsEnd    int        `json:"hsEnd"`
	Total    int        `json:"total"`
	RevHsEnd int        `json:"revHsEnd"`
	RevTotal int        `json:"revTotal"`
	Writes   []writeRes `json:"writes"`
	Reads    []readRes  `json:"reads"`
	Pos      int        `json:"pos"`
	Mask     int        `json:"mask"`
	Retries  int        `json:"retries"`
	// plaintext after the handshake (hex), when asked for
	Plain    string `json:"plainW,omitempty"`
	RevPlain string `json:"plainRev,omitempty"`
	// garble bookkeeping (encrypted runs with corruption)
	GarbledConsumed int  `json:"garbledConsumed"` // how many bytes of the garbled block the reader decrypted
	FlipConsumed    bool `json:"flipConsumed"`    // the byte 16 after the corrupted one was decrypted by the reader
	SeqR            int64 `json:"seqR"`
	SeqW            int64 `json:"seqW"`
}

const cryptoKeyA = "verif-key-0123456789abcdef0123456789abcdef"
const cryptoKeyB = "other-key-0123456789abcdef0123456789abcdef"

func genBody(seed int64, n int) []byte {
	b := make([]byte, n)
	x := uint64(seed)*0x9E3779B97F4A7C15 + 0x1234567
	for i := range b {
		x ^= x << 13
		x ^= x >> 7
		x ^= x << 17
		v := byte(x >> 24)
		switch (x >> 40) & 7 {
		case 0:
			v = 0
		case 1:
			v = 4
		}
		b[i] = v
	}
	return b
}

func hashOf(b []byte) string {
	h := fnv.New64a()
	h.Write(b)
	return hex.EncodeToString(h.Sum(nil))
}

func addrs(kind string) (client, server net.Addr) {
	if kind == "remote" {
		return &net.TCPAddr{IP: net.IPv4(10, 1, 2, 3), Port: 40001}, &net.TCPAddr{IP: net.IPv4(10, 9, 8, 7), Port: 2442}
	}
	return &net.TCPAddr{IP: net.IPv4(127, 0, 0, 1), Port: 40001}, &net.TCPAddr{IP: net.IPv4(127, 0, 0, 1), Port: 2442}
}

type pair struct {
	c2s, s2c       *half
	client, server *rpc.PacketConn
	errC, errS     error
}

// handshake builds the pair and runs HandshakeClient / HandshakeServer concurrently.
func handshake(q req, c2sCuts, s2cCuts []int, ckey string, skeys []string, ctrust, strust [][]*net.IPNet, cforce, sforce bool, addrKind string) (*pair, string) {
	l := newLink()
	p := &pair{c2s: newHalf(l), s2c: newHalf(l)}
	p.c2s.cuts, p.s2c.cuts = c2sCuts, s2cCuts
	ca, sa := addrs(addrKind)
	cc := &endConn{me: 0, in: p.s2c, out: p.c2s, local: ca, remote: sa}
	sc := &endConn{me: 1, in: p.c2s, out: p.s2c, local: sa, remote: ca}
	rb, wb := q.RBuf, q.WBuf
	if rb == 0 {
		rb = 4096
	}
	if wb == 0 {
		wb = 4096
	}
	p.client = rpc.NewPacketConn(cc, rb, wb)
	p.server = rpc.NewPacketConn(sc, rb, wb)
	done := make(chan int, 2)
	go func() {
		defer func() {
			if r := recover(); r != nil {
				p.errC = fmt.Errorf("panic: %v", r)
			}
			l.finish(0, p.c2s, p.errC != nil)
			done <- 1
		}()
		p.errC = p.client.HandshakeClient(ckey, ctrust, cforce, 1000, 0, 0, q.Ver)
	}()
	go func() {
		defer func() {
			if r := recover(); r != nil {
				p.errS = fmt.Errorf("panic: %v", r)
			}
			l.finish(1, p.s2c, p.errS != nil)
			done <- 2
		}()
		_, _, p.errS = p.server.HandshakeServer(skeys, strust, sforce, 2000, 0)
	}()
	wd := time.NewTimer(30 * time.Second) // watchdog only
	defer wd.Stop()
	for i := 0; i < 2; i++ {
		select {
		case <-done:
		case <-wd.C:
			p.c2s.closeWrite()
			p.s2c.closeWrite()
			return p, "watchdog: handshake did not finish"
		}
	}
	return p, ""
}

func errText(err error) string {
	if err == nil {
		return ""
	}
	s := err.Error()
	if len(s) > 160 {
		s = s[:160]
	}
	return s
}

func oneRun(q req, corr *corrReq) (res runRes) {
	defer func() {
		if r := recover(); r != nil {
			res.Fail = fmt.Sprintf("panic: %v", r)
		}
	}()
	var ckey string
	var skeys []string
	cforce := false
	if q.Enc {
		ckey, skeys, cforce = cryptoKeyA, []string{cryptoKeyB, cryptoKeyA}, true
	}
	var c2sCuts, s2cCuts []int
	cuts := append([]int(nil), q.Cuts...)
	sort.Ints(cuts)
	if q.Writer == "server" {
		s2cCuts = cuts
	} else {
		c2sCuts = cuts
	}
	p, fail := handshake(q, c2sCuts, s2cCuts, ckey, skeys, nil, nil, cforce, false, "loop")
	if fail != "" {
		res.Fail = fail
		return
	}
	a, b := p.client, p.server
	ab, ba := p.c2s, p.s2c
	errA, errB := p.errC, p.errS
	if q.Writer == "server" {
		a, b, ab, ba, errA, errB = p.server, p.client, p.s2c, p.c2s, p.errS, p.errC
	}
	res.HsErrA, res.HsErrB = errText(errA), errText(errB)
	res.EncA, res.EncB = a.Encrypted(), b.Encrypted()
	res.VerA, res.VerB = a.ProtocolVersion(), b.ProtocolVersion()
	if errors.Is(errA, errDeadlock) || errors.Is(errB, errDeadlock) {
		res.Fail = "deadlock during the handshake: an end waits for bytes that were already delivered to it or never written"
		return
	}
	if errA != nil || errB != nil {
		return
	}
	res.HsEnd = len(ab.buf)
	res.RevHsEnd = len(ba.buf)
	res.NonceEnd = rpc.VerifPacketOverhead + 28
	if res.VerA >= 2 {
		res.NonceEnd += 32
	}
	if ab.rpos != res.HsEnd {
		res.Fail = fmt.Sprintf("reader consumed %d of %d handshake bytes", ab.rpos, res.HsEnd)
		return
	}
	tapA, tapB := rpc.VerifInstallTap(a), rpc.VerifInstallTap(b)

	// ---- write everything (single goroutine from here on)
	ab.strict, ba.strict = true, true
	for i, pk := range q.Pkts {
		body := genBody(pk.Seed, pk.Len)
		var err error
		switch {
		case pk.Raw > 0:
			if err = a.Flush(); err == nil {
				pad := make([]byte, 4*pk.Raw)
				for j := 0; j < len(pad); j += 4 {
					pad[j] = rpc.VerifPadVal
				}
				_, err = a.WriteRawBytes(pad)
			}
		case pk.API == 1 && pk.Flush:
			k := 0
			if pk.Len > 0 {
				k = int(uint64(pk.Seed)*2654435761%uint64(pk.Len+1)) % (pk.Len + 1)
			}
			err = a.WritePacket2(pk.Tp, body[:k], body[k:], 0)
		case pk.API == 2:
			err = a.WritePacketHeaderUnlocked(pk.Tp, pk.Len, 0)
			if err == nil {
				step := 1 + int(uint64(pk.Seed)%7)
				for o := 0; o < pk.Len && err == nil; o += step {
					e := o + step
					if e > pk.Len {
						e = pk.Len
					}
					err = a.WritePacketBodyUnlocked(body[o:e])
				}
				if err == nil {
					a.WritePacketTrailerUnlocked()
					if pk.Flush {
						err = a.FlushUnlocked()
					}
				}
			}
		case pk.Flush:
			err = a.WritePacket(pk.Tp, body, 0)
		default:
			err = a.WritePacketNoFlush(pk.Tp, body, 0)
		}
		wr := writeRes{Hash: hashOf(body), Wire: len(ab.buf) - res.HsEnd}
		wr.Tail, _ = rpc.VerifWriterPending(a)
		if err != nil {
			wr.Err = rpc.VerifErrKind(err)
		}
		res.Writes = append(res.Writes, wr)
		_ = i
	}
	if err := a.Flush(); err != nil {
		res.Fail = "final flush: " + err.Error()
		return
	}
	ab.closeWrite()
	res.Total = len(ab.buf)
	_, res.SeqW = rpc.VerifSeqNums(a)

	if corr != nil {
		ab.corrPos, ab.corrMask = corr.Pos, byte(corr.Mask)
		res.Pos, res.Mask = corr.Pos, corr.Mask
	} else {
		res.Pos = -1
	}
	if len(q.Tmo) > 0 {
		ab.timeouts = map[int]int{}
		for _, t := range q.Tmo {
			ab.timeouts[t]++
		}
	}

	// ---- read until the reader gives up
	maxrd := q.MaxRd
	if maxrd == 0 {
		maxrd = len(q.Pkts) + 8
	}
	buf := make([]byte, 0, 256)
	for i := 0; i < maxrd; i++ {
		var tp uint32
		var body []byte
		var err error
		if q.Unlock {
			for {
				var builtin bool
				tp, body, builtin, _, err = b.ReadPacketUnlocked(buf[:0], 0)
				if err != nil || !builtin {
					break
				}
				if err = b.WritePacketBuiltinNoFlushUnlocked(0); err != nil {
					break
				}
				if err = b.FlushUnlocked(); err != nil {
					break
				}
			}
		} else {
			tp, body, err = b.ReadPacket(buf[:0], 0)
		}
		rr := readRes{Served: ab.rpos, EOF: ab.sawEOF}
		if err != nil {
			rr.Kind, rr.Err, rr.Text = "err", rpc.VerifErrKind(err), errText(err)
			if errors.Is(err, errWouldBlock) {
				res.Fail = "reader would block"
			}
			res.Reads = append(res.Reads, rr)
			break
		}
		rr.Kind, rr.Tp, rr.Len, rr.Hash = "pkt", tp, len(body), hashOf(body)
		res.Reads = append(res.Reads, rr)
		if cap(body) > cap(buf) && cap(body) <= 1<<20 {
			buf = body[:0]
		}
	}
	res.SeqR, _ = rpc.VerifSeqNums(b)
	res.RevTotal = len(ba.buf)

	// ---- plaintext views
	var wPlain, rPlain, revPlain []byte
	if tapA != nil {
		wPlain, revPlain = tapA.WrittenPlain(), nil
		if tapB != nil {
			rPlain, revPlain = tapB.ReadPlain(), tapB.WrittenPlain()
		}
	} else {
		wPlain = ab.buf[res.HsEnd:]
		revPlain = ba.buf[res.RevHsEnd:]
	}
	if q.Plain {
		res.Plain = hex.EncodeToString(wPlain)
		res.RevPlain = hex.EncodeToString(revPlain)
	}
	if tapA != nil && corr != nil && corr.Pos >= res.HsEnd {
		// which bytes of the garbled block did the reader decrypt, and do they all differ?
		rel := corr.Pos - res.HsEnd
		blk := rel / 16 * 16
		same := 0
		for i := blk; i < blk+16 && i < len(rPlain) && i < len(wPlain); i++ {
			res.GarbledConsumed++
			if rPlain[i] == wPlain[i] {
				same++
			}
		}
		res.FlipConsumed = rel+16 < len(rPlain)
		if same > 0 {
			res.Retries = -same // signals a coincidence to the caller
		}
	}
	return
}

func runScenario(q req) []runRes {
	if len(q.Corrs) == 0 {
		return []runRes{oneRun(q, nil)}
	}
	var out []runRes
	for _, c := range q.Corrs {
		c := c
		var r runRes
		tries := 0
		for {
			r = oneRun(q, &c)
			if r.Retries >= 0 || c.Exact || tries >= 16 {
				break
			}
			// a garbled byte coincided with the original: not the abstraction's "garbled" - next mask
			tries++
			c.Mask = c.Mask%255 + 1
		}
		if r.Retries < 0 {
			r.Fail = "could not materialise a fully garbled block"
		}
		r.Retries = tries
		out = append(out, r)
	}
	return out
}

// ---------------------------------------------------------------------------
// negotiation table through the real handshake

func nego(q req) map[string]any {
	var ctrust, strust [][]*net.IPNet
	_, n1, _ := net.ParseCIDR("10.0.0.0/8")
	if q.CTrust {
		ctrust = [][]*net.IPNet{{n1}}
	}
	if q.STrust {
		strust = [][]*net.IPNet{{n1}}
	}
	p, fail := handshake(q, nil, nil, q.CKey, q.SKeys, ctrust, strust, q.CForce, q.SForce, q.Addr)
	out := map[string]any{"fail": fail}
	if fail != "" {
		return out
	}
	out["clientErr"] = errText(p.errC)
	out["serverErr"] = errText(p.errS)
	out["clientKind"] = rpc.VerifErrKind(p.errC)
	out["serverKind"] = rpc.VerifErrKind(p.errS)
	out["encC"] = p.client.Encrypted()
	out["encS"] = p.server.Encrypted()
	out["verC"] = p.client.ProtocolVersion()
	out["verS"] = p.server.ProtocolVersion()
	// what each end put on the wire as its nonce schema
	schema := func(h *half) int {
		if len(h.buf) < 12+8 {
			return -1
		}
		return int(binary.LittleEndian.Uint32(h.buf[12+4:]) & 0xFF)
	}
	out["clientSchema"] = schema(p.c2s)
	out["serverSchema"] = schema(p.s2c)
	if p.errC == nil && p.errS == nil {
		// one packet each way proves both ends agree on the transport
		p.c2s.strict, p.s2c.strict = true, true
		e1 := p.client.WritePacket(0x1234, []byte("ping-data-12"), 0)
		p.c2s.publish()
		tp, body, e2 := p.server.ReadPacket(nil, 0)
		e3 := p.server.WritePacket(0x4321, []byte("pong-data-12"), 0)
		p.s2c.publish()
		tp2, body2, e4 := p.client.ReadPacket(nil, 0)
		out["echo"] = e1 == nil && e2 == nil && e3 == nil && e4 == nil && tp == 0x1234 && string(body) == "ping-data-12" && tp2 == 0x4321 && string(body2) == "pong-data-12"
	}
	return out
}

func handle(q req) (resp map[string]any) {
	resp = map[string]any{}
	defer func() {
		if r := recover(); r != nil {
			resp["panic"] = fmt.Sprint(r)
		}
	}()
	switch q.Op {
	case "run":
		resp["runs"] = runScenario(q)
	case "nego":
		resp = nego(q)
	case "consts":
		resp["ping"] = rpc.VerifPingTag()
		resp["pong"] = rpc.VerifPongTag()
		resp["nonce"] = uint32(rpc.VerifPacketTypeNonce)
		resp["hs"] = uint32(rpc.VerifPacketTypeHandshake)
		resp["overhead"] = rpc.VerifPacketOverhead
		resp["maxlen"] = rpc.VerifMaxPacketLen
		resp["block"] = rpc.VerifBlockSize
		resp["padval"] = rpc.VerifPadVal
		resp["startseq"] = rpc.VerifStartSeqNum
	default:
		resp["panic"] = "unknown op " + q.Op
	}
	return resp
}

func main() {
	rd := bufio.NewReaderSize(os.Stdin, 1<<22)
	wr := bufio.NewWriterSize(os.Stdout, 1<<20)
	for {
		line, err := rd.ReadBytes('\n')
		if len(line) > 1 {
			var q req
			if jerr := json.Unmarshal(line, &q); jerr != nil {
				fmt.Fprintln(wr, `{"panic":"bad request"}`)
			} else {
				b, _ := json.Marshal(handle(q))
				wr.Write(b)
				wr.WriteByte('\n')
			}
			wr.Flush()
		}
		if err != nil {
			return
		}
	}
}
