//go:build verif

// In-package accessors for the PacketConn verification driver (property C35).
// Overlaid as pkg/rpc/verif_packetconn_export.go; observation only, no behaviour change
// unless the driver explicitly asks for it (VerifTap wraps the cipher with a recorder).
package rpc

import (
	"crypto/cipher"
	"errors"
	"io"
	"net"
	"os"
	"strings"
	"time"

	"github.com/VKCOM/tl/pkg/rpc/internal/gen/tl"
)

const (
	VerifPacketTypeNonce     = packetTypeRPCNonce
	VerifPacketTypeHandshake = packetTypeRPCHandshake
	VerifPacketOverhead      = packetOverhead
	VerifMaxPacketLen        = maxPacketLen
	VerifBlockSize           = blockSize
	VerifPadVal              = padVal
	VerifStartSeqNum         = startSeqNum
	VerifSchemaNone          = cryptoSchemaNone
	VerifSchemaAES           = cryptoSchemaAES
	VerifSchemaNoneOrAES     = cryptoSchemaNoneOrAES
)

func VerifPingTag() uint32 { return (tl.RpcPing{}).TLTag() }
func VerifPongTag() uint32 { return (tl.RpcPong{}).TLTag() }

// VerifErrKind maps an error of the packet layer to the vocabulary of spec/PacketConn.tla.
// The innermost tag of a tagError chain decides; an untagged "header corrupted" error is the
// sequence number mismatch; everything else is reported by a stable prefix of its text.
func VerifErrKind(err error) string {
	if err == nil {
		return ""
	}
	if err == io.EOF {
		return "eof"
	}
	if err == io.ErrUnexpectedEOF {
		return "ueof"
	}
	inner := ""
	for e := err; e != nil; e = errors.Unwrap(e) {
		if te, ok := e.(*tagError); ok && te.tag != "" {
			inner = te.tag
		}
	}
	if inner == "bad_header" { // wrapper only: look at what was wrapped
		switch {
		case errors.Is(err, errHeaderCorrupted):
			return "seq"
		case errors.Is(err, io.ErrUnexpectedEOF):
			return "ueof"
		case errors.Is(err, io.EOF):
			return "eof"
		case errors.Is(err, os.ErrDeadlineExceeded):
			return "timeout_in_header"
		}
		return "bad_header"
	}
	switch inner {
	case "out_of_range_packet_size":
		if strings.Contains(err.Error(), "ping packet has wrong length") {
			return "pinglen"
		}
		return "size"
	case "bad_packet_size":
		return "size4"
	case "bad_nonce_packet_type":
		return "nonce_type"
	case "bad_handshake_packet_type":
		return "hs_type"
	case "excessive_padding":
		return "pad"
	case "bad_body_padding_contents":
		return "align"
	case "crc_mismatch":
		return "crc"
	case "":
	default:
		return "tag:" + inner
	}
	if errors.Is(err, errHeaderCorrupted) {
		return "seq"
	}
	if errors.Is(err, io.ErrUnexpectedEOF) {
		return "ueof"
	}
	if errors.Is(err, io.EOF) {
		return "eof"
	}
	msg := err.Error()
	switch {
	case strings.Contains(msg, "pong packet has wrong length"):
		return "ponglen"
	case strings.Contains(msg, "received unexpected pong"):
		return "pong"
	case strings.Contains(msg, "timeout after ping sent"):
		return "timeout2"
	case errors.Is(err, os.ErrDeadlineExceeded):
		return "timeout"
	}
	if len(msg) > 60 {
		msg = msg[:60]
	}
	return "other:" + msg
}

// verifTapMode records the plaintext side of a CBC stream: the input of an encrypter,
// the output of a decrypter.
type verifTapMode struct {
	inner   cipher.BlockMode
	decrypt bool
	plain   []byte
}

func (t *verifTapMode) BlockSize() int { return t.inner.BlockSize() }

func (t *verifTapMode) CryptBlocks(dst, src []byte) {
	if !t.decrypt {
		t.plain = append(t.plain, src...)
	}
	t.inner.CryptBlocks(dst, src)
	if t.decrypt {
		t.plain = append(t.plain, dst[:len(src)]...)
	}
}

// VerifTap is a handle on the recorded plaintext of one PacketConn.
type VerifTap struct {
	r, w *verifTapMode
}

// VerifInstallTap starts recording the plaintext written to / read from an encrypted
// PacketConn from now on (call it between packets, e.g. right after the handshake).
// It returns nil when the connection is not encrypted.
func VerifInstallTap(pc *PacketConn) *VerifTap {
	pc.readMu.Lock()
	defer pc.readMu.Unlock()
	pc.writeMu.Lock()
	defer pc.writeMu.Unlock()
	if pc.r.enc == nil || pc.w.enc == nil {
		return nil
	}
	t := &VerifTap{r: &verifTapMode{inner: pc.r.enc, decrypt: true}, w: &verifTapMode{inner: pc.w.enc}}
	pc.r.enc = t.r
	pc.w.enc = t.w
	return t
}

// WrittenPlain returns the plaintext handed to the encrypter since the tap was installed.
func (t *VerifTap) WrittenPlain() []byte { return t.w.plain }

// ReadPlain returns the plaintext produced by the decrypter since the tap was installed.
func (t *VerifTap) ReadPlain() []byte { return t.r.plain }

// VerifReaderBuffered reports decrypted-but-unconsumed and undecrypted bytes held by the reader.
func VerifReaderBuffered(pc *PacketConn) (decrypted int, raw int) {
	return pc.r.end - pc.r.begin, len(pc.r.buf) - pc.r.end
}

// VerifSeqNums exposes the per-direction sequence numbers.
func VerifSeqNums(pc *PacketConn) (read int64, write int64) { return pc.readSeqNum, pc.writeSeqNum }

// VerifPingState exposes the ping bookkeeping.
func VerifPingState(pc *PacketConn) (pingSent bool, currentPingID int64) {
	pc.pingMu.Lock()
	defer pc.pingMu.Unlock()
	return pc.pingSent, pc.currentPingID
}

// VerifWriterPending reports bytes that a Flush would still have to push out.
func VerifWriterPending(pc *PacketConn) (trailer int, buffered int) {
	return len(pc.headerWriteBuf), len(pc.w.buf)
}

// Nonce negotiation table (pure functions of packetconn_hs.go), exposed for the table replay.
type VerifNonce struct {
	Schema  int
	Version uint32
	KeyID   [4]byte
}

func VerifPrepareNonceClient(cryptoKey string, trusted [][]*net.IPNet, force bool, local, remote net.Addr, version uint32) (VerifNonce, error) {
	var sc [32]byte
	m, err := prepareNonceClient(cryptoKey, trusted, force, local, remote, sc[:], version)
	return VerifNonce{Schema: m.EncryptionSchema(), Version: m.ProtocolVersion(), KeyID: m.KeyID}, err
}

func VerifPrepareNonceServer(cryptoKeys []string, trusted [][]*net.IPNet, force bool, clientSchema int, clientVersion uint32, clientKeyID [4]byte, clientTimeDelta int64, local, remote net.Addr) (VerifNonce, string, error) {
	var sc [32]byte
	client := nonceMsg{KeyID: clientKeyID, Schema: clientVersion<<8 | uint32(clientSchema), Time: uint32(time.Now().Unix() + clientTimeDelta)}
	m, key, err := prepareNonceServer(cryptoKeys, trusted, force, client, local, remote, sc[:])
	return VerifNonce{Schema: m.EncryptionSchema(), Version: m.ProtocolVersion(), KeyID: m.KeyID}, key, err
}
