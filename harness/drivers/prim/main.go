//go:build verif

// prim driver: executes pkg/basictl primitives on materialised symbolic streams.
// NDJSON on stdin/stdout; injected into /repo with `go build -overlay`.
package main

import (
	"bufio"
	"bytes"
	"encoding/json"
	"errors"
	"fmt"
	"io"
	"math/rand"
	"os"
	"strings"

	"github.com/VKCOM/tl/pkg/basictl"
)

type stream struct {
	Hdr  []int `json:"hdr"`
	N    int   `json:"n"`
	Fill int   `json:"fill"`
	Tail []int `json:"tail"`
}

func (s stream) bytes() []byte {
	b := make([]byte, 0, len(s.Hdr)+s.N+len(s.Tail))
	for _, x := range s.Hdr {
		b = append(b, byte(x))
	}
	b = append(b, bytes.Repeat([]byte{byte(s.Fill)}, s.N)...)
	for _, x := range s.Tail {
		b = append(b, byte(x))
	}
	return b
}

type req struct {
	Op   string `json:"op"`
	Mut  string `json:"mut"`
	L    int    `json:"l"`
	K    int    `json:"k"`
	S    stream `json:"s"`
	Lb   []int  `json:"lb"`
	Bits []bool `json:"bits"`
	// random trace generation
	N    int   `json:"count"`
	Seed int64 `json:"seed"`
	Out  string `json:"out"`
}

func errKind(err error) string {
	if err == nil {
		return ""
	}
	if errors.Is(err, io.ErrUnexpectedEOF) {
		return "eof"
	}
	return "other"
}

func ints(b []byte) []int {
	r := make([]int, len(b))
	for i, x := range b {
		r[i] = int(x)
	}
	return r
}

func handle(q req) (resp map[string]any) {
	resp = map[string]any{}
	defer func() {
		if r := recover(); r != nil {
			resp["panic"] = fmt.Sprint(r)
		}
	}()
	in := q.S.bytes()
	switch q.Op {
	case "s1":
		var s string
		rest, err := basictl.StringRead(in, &s)
		resp["err"] = errKind(err)
		if err == nil {
			resp["len"] = len(s)
			resp["consumed"] = len(in) - len(rest)
			resp["content"] = s == strings.Repeat(string([]byte{byte(q.S.Fill)}), len(s))
		}
		bs := []byte("previous content of the buffer")
		rest2, err2 := basictl.StringReadBytes(in, &bs)
		resp["bytesSame"] = errKind(err) == errKind(err2) && (err != nil || (string(bs) == s && len(rest) == len(rest2)))
		if q.Mut == "none" {
			body := strings.Repeat(string([]byte{byte(q.S.Fill)}), q.L)
			w := basictl.StringWrite([]byte{0xAA}, body)
			w2 := basictl.StringWriteBytes([]byte{0xAA}, []byte(body))
			resp["wr"] = bytes.Equal(w[1:], in) && bytes.Equal(w2[1:], in) && w[0] == 0xAA
		}
	case "s2":
		var s string
		rest, err := basictl.StringReadTL2(in, &s)
		resp["err"] = errKind(err)
		if err == nil {
			resp["len"] = len(s)
			resp["consumed"] = len(in) - len(rest)
			resp["content"] = s == strings.Repeat(string([]byte{byte(q.S.Fill)}), len(s))
		}
		bs := []byte("previous content of the buffer")
		rest2, err2 := basictl.StringReadTL2Bytes(in, &bs)
		resp["bytesSame"] = errKind(err) == errKind(err2) && (err != nil || (string(bs) == s && len(rest) == len(rest2)))
		if q.Mut == "none" {
			body := strings.Repeat(string([]byte{byte(q.S.Fill)}), q.L)
			w := basictl.StringWriteTL2([]byte{0xAA}, body)
			w2 := basictl.StringWriteTL2Bytes([]byte{0xAA}, []byte(body))
			resp["wr"] = bytes.Equal(w[1:], in) && bytes.Equal(w2[1:], in)
		}
	case "z2":
		rest, v, err := basictl.TL2ParseSize(in)
		resp["err"] = errKind(err)
		if err == nil {
			resp["val"] = v
			resp["consumed"] = len(in) - len(rest)
		}
		var v2 int
		rest2, err2 := basictl.TL2ReadSize(in, &v2)
		resp["bytesSame"] = errKind(err) == errKind(err2) && (err != nil || (v == v2 && len(rest) == len(rest2)))
		if q.Mut == "none" {
			w := basictl.TL2WriteSize([]byte{0xAA}, q.L)
			var buf [16]byte
			n := basictl.TL2PutSize(buf[:], q.L)
			resp["wr"] = bytes.Equal(w[1:], in) && bytes.Equal(buf[:n], in) && basictl.TL2CalculateSize(q.L) == len(in)
		}
	case "h1big":
		var l int64
		for i := len(q.Lb) - 1; i >= 0; i-- {
			l = l<<8 | int64(q.Lb[i])
		}
		w, p := basictl.StringWriteLen(nil, int(l))
		resp["hdr"] = ints(w)
		resp["pad"] = len(basictl.StringWritePadding(nil, p))
		var s string
		_, err := basictl.StringRead(in, &s)
		resp["err"] = errKind(err)
	case "bits":
		w := basictl.VectorBitContentWriteTL2([]byte{0xAA}, q.Bits)
		resp["bytes"] = ints(w[1:])
		back := make([]bool, len(q.Bits))
		for i := range back {
			back[i] = i%2 == 0 // dirty destination
		}
		rest, err := basictl.VectorBitContentReadTL2(in, back)
		resp["err"] = errKind(err)
		resp["back"] = back
		resp["consumed"] = len(in) - len(rest)
		if len(in) > 0 {
			_, err = basictl.VectorBitContentReadTL2(in[:len(in)-1], make([]bool, len(q.Bits)))
			resp["truncErr"] = errKind(err)
		}
	case "fixed":
		var err error
		var rest, w []byte
		switch q.K {
		case 1:
			var b byte
			rest, err = basictl.ByteRead(in, &b)
			w = basictl.ByteWrite(nil, b)
		case 4:
			var a uint32
			var b int32
			var c float32
			var e1, e2 error
			var r1, r2 []byte
			rest, err = basictl.NatRead(in, &a)
			r1, e1 = basictl.IntRead(in, &b)
			r2, e2 = basictl.FloatRead(in, &c)
			w = basictl.NatWrite(nil, a)
			if errKind(e1) != errKind(err) || errKind(e2) != errKind(err) || len(r1) != len(rest) || len(r2) != len(rest) {
				resp["mismatch"] = "int/float readers disagree with nat reader"
			}
			if err == nil && (!bytes.Equal(basictl.IntWrite(nil, b), w) || !bytes.Equal(basictl.FloatWrite(nil, c), w)) {
				resp["mismatch"] = "int/float writers disagree with nat writer"
			}
		case 8:
			var a int64
			var b uint64
			var c float64
			var e1, e2 error
			var r1, r2 []byte
			rest, err = basictl.LongRead(in, &a)
			r1, e1 = basictl.Uint64Read(in, &b)
			r2, e2 = basictl.DoubleRead(in, &c)
			w = basictl.LongWrite(nil, a)
			if errKind(e1) != errKind(err) || errKind(e2) != errKind(err) || len(r1) != len(rest) || len(r2) != len(rest) {
				resp["mismatch"] = "uint64/double readers disagree with long reader"
			}
			if err == nil && (!bytes.Equal(basictl.Uint64Write(nil, b), w) || !bytes.Equal(basictl.DoubleWrite(nil, c), w)) {
				resp["mismatch"] = "uint64/double writers disagree with long writer"
			}
		}
		resp["err"] = errKind(err)
		if err == nil {
			resp["consumed"] = len(in) - len(rest)
			resp["val"] = ints(w)
		}
	case "bool":
		var v bool
		_, err := basictl.ReadBool(in, &v, 0x04030201, 0x08070605)
		resp["err"] = errKind(err)
		resp["val"] = v
	case "randtrace":
		resp["events"] = randTrace(q)
	default:
		resp["panic"] = "unknown op " + q.Op
	}
	return resp
}

// randTrace executes random calls and records one event per call (code -> spec direction).
func randTrace(q req) int {
	rnd := rand.New(rand.NewSource(q.Seed))
	f, err := os.Create(q.Out)
	if err != nil {
		panic(err)
	}
	defer f.Close()
	bw := bufio.NewWriter(f)
	defer bw.Flush()
	enc := json.NewEncoder(bw)
	randBytes := func(n int) []byte {
		b := make([]byte, n)
		for i := range b {
			switch rnd.Intn(4) {
			case 0:
				b[i] = 0
			case 1:
				b[i] = byte(rnd.Intn(256))
			case 2:
				b[i] = byte(250 + rnd.Intn(6))
			default:
				b[i] = byte(rnd.Intn(8))
			}
		}
		return b
	}
	n := 0
	for i := 0; i < q.N; i++ {
		switch rnd.Intn(5) {
		case 0: // TL1 string write
			lens := []int{0, 1, 2, 3, 4, 5, 6, 7, 8, 250, 251, 252, 253, 254, 255, 256, 257, 258, 300}
			body := randBytes(lens[rnd.Intn(len(lens))])
			out := basictl.StringWrite(nil, string(body))
			_ = enc.Encode(map[string]any{"op": "w1", "body": ints(body), "out": ints(out)})
		case 1: // TL1 string read of random / mutated bytes
			var in []byte
			if rnd.Intn(2) == 0 {
				in = randBytes(rnd.Intn(14))
			} else {
				in = basictl.StringWrite(nil, string(randBytes(rnd.Intn(9))))
				if rnd.Intn(2) == 0 && len(in) > 0 {
					in[rnd.Intn(len(in))] = byte(rnd.Intn(256))
				}
				if rnd.Intn(3) == 0 {
					in = in[:rnd.Intn(len(in)+1)]
				}
				if rnd.Intn(3) == 0 {
					in = append(in, randBytes(rnd.Intn(5))...)
				}
			}
			var s string
			rest, err := basictl.StringRead(in, &s)
			ev := map[string]any{"op": "r1", "in": ints(in), "err": errKind(err), "val": []int{}, "consumed": 0}
			if err == nil {
				ev["val"] = ints([]byte(s))
				ev["consumed"] = len(in) - len(rest)
			}
			_ = enc.Encode(ev)
		case 2: // TL2 size write
			vals := []int{0, 1, 100, 253, 254, 255, 256, 65789, 65790, 65791, 1 << 20, 1<<31 - 1}
			v := vals[rnd.Intn(len(vals))]
			if rnd.Intn(2) == 0 {
				v = rnd.Intn(70000)
			}
			_ = enc.Encode(map[string]any{"op": "wz", "val": v, "out": ints(basictl.TL2WriteSize(nil, v))})
		case 3: // TL2 size / string read
			in := randBytes(rnd.Intn(12))
			if rnd.Intn(2) == 0 {
				in = basictl.StringWriteTL2(nil, string(randBytes(rnd.Intn(9))))
				if rnd.Intn(3) == 0 {
					in = in[:rnd.Intn(len(in)+1)]
				}
			}
			var s string
			rest, err := basictl.StringReadTL2(in, &s)
			ev := map[string]any{"op": "r2", "in": ints(in), "err": errKind(err), "val": []int{}, "consumed": 0}
			if err == nil {
				ev["val"] = ints([]byte(s))
				ev["consumed"] = len(in) - len(rest)
			}
			_ = enc.Encode(ev)
		case 4: // bit vectors
			bits := make([]bool, rnd.Intn(27))
			for i := range bits {
				bits[i] = rnd.Intn(2) == 0
			}
			_ = enc.Encode(map[string]any{"op": "wb", "bits": bits, "out": ints(basictl.VectorBitContentWriteTL2(nil, bits))})
		}
		n++
	}
	return n
}

func main() {
	rd := bufio.NewReaderSize(os.Stdin, 1<<20)
	wr := bufio.NewWriter(os.Stdout)
	for {
		line, err := rd.ReadBytes('\n')
		if len(line) > 1 {
			var q req
			if jerr := json.Unmarshal(line, &q); jerr != nil {
				fmt.Fprintln(wr, `{"panic":"bad request"}`)
			} else {
				b, _ := json.Marshal(handle(q))
				wr.Write(b)
				wr.WriteByte('\n')
			}
			wr.Flush()
		}
		if err != nil {
			return
		}
	}
}
