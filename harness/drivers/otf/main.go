//go:build verif

// otf: the dynamic value interpreter (internal/pure/onthefly) behind the NDJSON
// protocol (virtual path internal/verifx/otf/main.go). Usage: otf [-tl2 whitelist] files...
package main

import (
	"bufio"
	"encoding/json"
	"flag"
	"fmt"
	"io"
	"os"

	"github.com/VKCOM/tl/internal/pure"
	"github.com/VKCOM/tl/internal/pure/onthefly"
)

type req struct {
	Tn string `json:"tn"`
	Op string `json:"op"` // read1 read1b read2
	In []int  `json:"in"`
}

func ints(b []byte) []int {
	r := make([]int, len(b))
	for i, x := range b {
		r[i] = int(x)
	}
	return r
}

func main() {
	tl2 := flag.String("tl2", "", "tl2 whitelist")
	flag.Parse()
	opts := &pure.OptionsKernel{TypesWhiteList: "*", TL2WhiteList: *tl2, ErrorWriter: io.Discard, InstantiateConstants: true}
	k := pure.NewKernel(opts)
	if err := k.AddFilesFromPaths(flag.Args()); err != nil {
		fmt.Fprintln(os.Stderr, "otf:", err)
		os.Exit(3)
	}
	stdout := os.Stdout
	os.Stdout, _ = os.Open(os.DevNull)
	err := k.Compile()
	os.Stdout = stdout
	if err != nil {
		fmt.Fprintln(os.Stderr, "otf:", err)
		os.Exit(3)
	}
	byName := map[string]pure.TypeInstance{}
	for _, ti := range k.AllTypeInstances() {
		byName[ti.CanonicalName()] = ti
	}
	rd := bufio.NewReaderSize(os.Stdin, 1<<20)
	wr := bufio.NewWriter(os.Stdout)
	for {
		line, err := rd.ReadBytes('\n')
		if len(line) > 1 {
			var q req
			var out map[string]any
			if jerr := json.Unmarshal(line, &q); jerr != nil {
				out = map[string]any{"fatal": "bad request"}
			} else {
				out = handle(byName, q)
			}
			b, _ := json.Marshal(out)
			wr.Write(b)
			wr.WriteByte('\n')
			wr.Flush()
		}
		if err != nil {
			return
		}
	}
}

func handle(byName map[string]pure.TypeInstance, q req) (out map[string]any) {
	out = map[string]any{}
	defer func() {
		if r := recover(); r != nil {
			out["panic"] = fmt.Sprint(r)
		}
	}()
	ti, ok := byName[q.Tn]
	if !ok {
		out["fatal"] = "no instance " + q.Tn
		return
	}
	val := onthefly.CreateValue(ti)
	in := make([]byte, len(q.In))
	for i, x := range q.In {
		in[i] = byte(x)
	}
	var rest []byte
	var err error
	ctx := &onthefly.TLContext{}
	switch q.Op {
	case "read1":
		rest, _, err = val.ReadTL1(in, ctx, true, nil)
	case "read1b":
		rest, _, err = val.ReadTL1(in, ctx, false, nil)
	case "read2":
		rest, err = val.ReadTL2(in, ctx)
	default:
		out["fatal"] = "bad op"
		return
	}
	if err != nil {
		out["err"] = err.Error()
		return
	}
	out["consumed"] = len(in) - len(rest)
	write := func(name string, f func(bb *onthefly.ByteBuilder)) {
		defer func() {
			if r := recover(); r != nil {
				out[name+"panic"] = fmt.Sprint(r)
			}
		}()
		var bb onthefly.ByteBuilder
		f(&bb)
		out[name] = ints(bb.Buf())
	}
	if !ti.Common().OriginTL2() {
		write("tl1", func(bb *onthefly.ByteBuilder) { val.WriteTL1(bb, true, nil, false, 0, nil) })
		write("tl1b", func(bb *onthefly.ByteBuilder) { val.WriteTL1(bb, false, nil, false, 0, nil) })
	}
	if ti.Common().HasTL2() {
		write("tl2", func(bb *onthefly.ByteBuilder) { val.WriteTL2(bb, false, false, 0, nil) })
	}
	return
}
