//go:build verif

// gencli driver: decodes TLO files with the repository's own tltls package and dumps the
// description they carry. NDJSON on stdin/stdout; injected into the repo with `go build -overlay`
// at the virtual path internal/verifx/gencli/main.go.
package main

import (
	"bufio"
	"bytes"
	"encoding/json"
	"fmt"
	"os"

	tls "github.com/VKCOM/tl/internal/tlast/gentlo/tltls"
)

type req struct {
	Op   string `json:"op"`
	Path string `json:"path"`
}

type typeD struct {
	ID         string `json:"id"`
	Name       uint32 `json:"name"`
	NCons      int32  `json:"ncons"`
	Flags      int32  `json:"flags"`
	Arity      int32  `json:"arity"`
	ParamsType int64  `json:"params_type"`
}

type combD struct {
	ID       string `json:"id"`
	Name     uint32 `json:"name"`
	TypeName uint32 `json:"type_name"`
	Builtin  bool   `json:"builtin"`
	NArgs    int    `json:"nargs"`
	Flags    int32  `json:"flags"`
	V4       bool   `json:"v4"`
}

type resp struct {
	Err        string  `json:"err"`
	Panic      string  `json:"panic,omitempty"`
	SchemaKind string  `json:"schema_kind"`
	Version    int32   `json:"version"`
	Date       int32   `json:"date"`
	TypesNum   uint32  `json:"types_num"`
	CtorNum    uint32  `json:"constructor_num"`
	FuncNum    uint32  `json:"functions_num"`
	Types      []typeD `json:"types"`
	Ctors      []combD `json:"ctors"`
	Funcs      []combD `json:"funcs"`
	Rest       int     `json:"rest"`
	ReencodeEq bool    `json:"reencode_equal"`
	Size       int     `json:"size"`
}

func comb(c tls.Combinator) combD {
	var d combD
	if v4, ok := c.AsV4(); ok {
		d.V4 = true
		d.ID, d.Name, d.TypeName, d.Flags = v4.Id, uint32(v4.Name), uint32(v4.TypeName), v4.Flags
		d.Builtin = v4.Left.IsBuiltin()
		if l, ok := v4.Left.AsCombinatorLeft(); ok {
			d.NArgs = len(l.Args)
		}
	} else if v0, ok := c.AsCombinator(); ok {
		d.ID, d.Name, d.TypeName = v0.Id, uint32(v0.Name), uint32(v0.TypeName)
		d.Builtin = v0.Left.IsBuiltin()
		if l, ok := v0.Left.AsCombinatorLeft(); ok {
			d.NArgs = len(l.Args)
		}
	}
	return d
}

func decode(path string) (r resp) {
	defer func() {
		if p := recover(); p != nil {
			r.Panic = fmt.Sprint(p)
		}
	}()
	b, err := os.ReadFile(path)
	if err != nil {
		r.Err = err.Error()
		return
	}
	r.Size = len(b)
	var s tls.Schema
	rest, err := s.ReadTL1Boxed(b)
	if err != nil {
		r.Err = "decode: " + err.Error()
		return
	}
	r.Rest = len(rest)
	v4, ok := s.AsV4()
	if !ok {
		r.SchemaKind = s.TLName()
		r.Err = "not a tls.schema_v4"
		return
	}
	r.SchemaKind = "tls.schema_v4"
	r.Version, r.Date = v4.Version, v4.Date
	r.TypesNum, r.CtorNum, r.FuncNum = v4.TypesNum, v4.ConstructorNum, v4.FunctionsNum
	for _, t := range v4.Types {
		r.Types = append(r.Types, typeD{ID: t.Id, Name: uint32(t.Name), NCons: t.ConstructorsNum, Flags: t.Flags, Arity: t.Arity, ParamsType: t.ParamsType})
	}
	for _, c := range v4.Constructors {
		r.Ctors = append(r.Ctors, comb(c))
	}
	for _, c := range v4.Functions {
		r.Funcs = append(r.Funcs, comb(c))
	}
	again, err := s.WriteTL1Boxed(nil)
	if err != nil {
		r.Err = "re-encode: " + err.Error()
		return
	}
	r.ReencodeEq = bytes.Equal(again, b)
	return
}

func main() {
	in := bufio.NewReaderSize(os.Stdin, 1<<20)
	out := bufio.NewWriter(os.Stdout)
	for {
		line, err := in.ReadBytes('\n')
		if len(line) > 0 {
			var q req
			var r resp
			if e := json.Unmarshal(line, &q); e != nil {
				r.Err = "bad request: " + e.Error()
			} else if q.Op == "tlo" {
				r = decode(q.Path)
			} else {
				r.Err = "unknown op " + q.Op
			}
			b, _ := json.Marshal(r)
			out.Write(b)
			out.WriteByte('\n')
			out.Flush()
		}
		if err != nil {
			return
		}
	}
}
