// vcheck: orchestrator of the model-based checks. Usage: vcheck -p C33 [-tier quick|thorough] [-replay file]
package main

import (
	"flag"
	"fmt"
	"os"

	"verif/core"
)

func main() {
	p := flag.String("p", "", "property id")
	tier := flag.String("tier", "", "quick|thorough")
	replay := flag.String("replay", "", "replay file")
	list := flag.Bool("list", false, "list registered properties")
	flag.Parse()
	if *list {
		for _, id := range core.Registered() {
			fmt.Println(id)
		}
		return
	}
	os.Exit(core.Main(*p, *tier, *replay))
}
