package core

import (
	"bufio"
	"bytes"
	"context"
	"encoding/json"
	"fmt"
	"io"
	"os"
	"os/exec"
	"path/filepath"
	"strings"
	"sync"
	"time"
)

// GoEnv is the environment for every go command run on /repo (no GOSUMDB=off /
// GOTOOLCHAIN=local: they break the offline toolchain switch to go1.24).
func GoEnv() []string {
	env := []string{}
	for _, e := range os.Environ() {
		if strings.HasPrefix(e, "GOFLAGS=") || strings.HasPrefix(e, "GOPROXY=") ||
			strings.HasPrefix(e, "GOTOOLCHAIN=") || strings.HasPrefix(e, "GOSUMDB=") || strings.HasPrefix(e, "GONOSUMDB=") ||
			strings.HasPrefix(e, "GONOSUMCHECK=") || strings.HasPrefix(e, "GOFLAGS=") {
			continue
		}
		env = append(env, e)
	}
	return append(env, "GOFLAGS=-mod=mod", "GOPROXY=off", "GOTOOLCHAIN=auto")
}

// Run executes a command with a timeout and returns combined output.
func (c *Ctx) Run(dir string, timeout time.Duration, env []string, name string, args ...string) (string, error) {
	ctx, cancel := context.WithTimeout(context.Background(), timeout)
	defer cancel()
	cmd := exec.CommandContext(ctx, name, args...)
	cmd.Dir = dir
	if env != nil {
		cmd.Env = env
	}
	var buf bytes.Buffer
	cmd.Stdout = &buf
	cmd.Stderr = &buf
	err := cmd.Run()
	if ctx.Err() != nil {
		return buf.String(), fmt.Errorf("%s timed out after %v", name, timeout)
	}
	return buf.String(), err
}

// DriverSrc returns the path of a driver source file under /verif/harness/drivers.
func DriverSrc(rel string) string { return filepath.Join(VerifDir, "harness", "drivers", rel) }

// BuildInRepo builds package `pkg` (relative to /repo, may be virtual) with an
// overlay mapping virtual /repo-relative paths to real files. With test=true the
// package's test binary is built (go test -c). Build tag `verif` is always on.
func (c *Ctx) BuildInRepo(pkg string, overlay map[string]string, out string, race, test bool) error {
	ov := map[string]map[string]string{"Replace": {}}
	for virt, real := range overlay {
		ov["Replace"][filepath.Join(RepoDir, virt)] = real
	}
	b, _ := json.Marshal(ov)
	ovPath := out + ".overlay.json"
	if err := os.WriteFile(ovPath, b, 0o644); err != nil {
		return err
	}
	args := []string{"build"}
	if test {
		args = []string{"test", "-c", "-vet=off"}
	}
	args = append(args, "-tags", "verif", "-overlay", ovPath, "-o", out)
	if race {
		args = append(args, "-race")
	}
	args = append(args, "./"+pkg)
	outp, err := c.Run(RepoDir, 10*time.Minute, GoEnv(), "go", args...)
	if err != nil {
		return fmt.Errorf("go %s: %v\n%s", strings.Join(args, " "), err, outp)
	}
	return nil
}

// BuildRepoCmd builds one of the repository's own commands (cmd/tl2gen, cmd/tlgen).
func (c *Ctx) BuildRepoCmd(name string) (string, error) {
	out := filepath.Join(c.Scratch, "bin-"+name)
	if _, err := os.Stat(out); err == nil {
		return out, nil
	}
	outp, err := c.Run(RepoDir, 10*time.Minute, GoEnv(), "go", "build", "-o", out, "./cmd/"+name)
	if err != nil {
		return "", fmt.Errorf("go build ./cmd/%s: %v\n%s", name, err, outp)
	}
	return out, nil
}

// ScratchModule creates a Go module in scratch that depends on /repo via replace.
func (c *Ctx) ScratchModule(name string) (string, error) {
	dir := filepath.Join(c.Scratch, name)
	if err := os.MkdirAll(dir, 0o755); err != nil {
		return "", err
	}
	gomod := "module " + name + "\n\ngo 1.24.0\n\nrequire github.com/VKCOM/tl v0.0.0\n\nreplace github.com/VKCOM/tl => " + RepoDir + "\n"
	if err := os.WriteFile(filepath.Join(dir, "go.mod"), []byte(gomod), 0o644); err != nil {
		return "", err
	}
	sum, err := os.ReadFile(filepath.Join(RepoDir, "go.sum"))
	if err != nil {
		return "", err
	}
	return dir, os.WriteFile(filepath.Join(dir, "go.sum"), sum, 0o644)
}

// ---------------------------------------------------------------------------
// NDJSON subprocess protocol: one JSON request per line on stdin, one JSON reply
// per line on stdout, strictly in order.

type Proc struct {
	cmd   *exec.Cmd
	in    io.WriteCloser
	out   *bufio.Reader
	mu    sync.Mutex
	errb  *bytes.Buffer
	Dead  bool
	Args  []string
	Env   []string
	Path  string
	Limit time.Duration // per-request watchdog
}

func StartProc(path string, env []string, args ...string) (*Proc, error) {
	p := &Proc{Path: path, Args: args, Env: env, Limit: 60 * time.Second}
	return p, p.start()
}

func (p *Proc) start() error {
	p.cmd = exec.Command(p.Path, p.Args...)
	if p.Env != nil {
		p.cmd.Env = p.Env
	}
	var err error
	if p.in, err = p.cmd.StdinPipe(); err != nil {
		return err
	}
	so, err := p.cmd.StdoutPipe()
	if err != nil {
		return err
	}
	p.errb = &bytes.Buffer{}
	p.cmd.Stderr = p.errb
	p.out = bufio.NewReaderSize(so, 1<<20)
	p.Dead = false
	return p.cmd.Start()
}

// Call sends one request and waits for one reply. On driver death the error
// carries its stderr; the process is restarted lazily by the next Call.
func (p *Proc) Call(req any, resp any) error {
	p.mu.Lock()
	defer p.mu.Unlock()
	if p.Dead {
		if err := p.start(); err != nil {
			return err
		}
	}
	b, err := json.Marshal(req)
	if err != nil {
		return err
	}
	b = append(b, '\n')
	if _, err := p.in.Write(b); err != nil {
		p.kill()
		return fmt.Errorf("driver write: %v; stderr: %s", err, tailStr(p.errb.String(), 2000))
	}
	type res struct {
		line []byte
		err  error
	}
	ch := make(chan res, 1)
	go func() {
		l, err := p.out.ReadBytes('\n')
		ch <- res{l, err}
	}()
	select {
	case r := <-ch:
		if r.err != nil {
			p.kill()
			return fmt.Errorf("driver died: %v; stderr: %s", r.err, headTail(p.errb.String(), 3000))
		}
		if err := json.Unmarshal(r.line, resp); err != nil {
			return fmt.Errorf("driver reply unparsable: %v: %s", err, oneLine(string(r.line), 300))
		}
		return nil
	case <-time.After(p.Limit):
		p.kill()
		return fmt.Errorf("driver watchdog: no reply within %v", p.Limit)
	}
}

func (p *Proc) kill() {
	p.Dead = true
	if p.cmd != nil && p.cmd.Process != nil {
		_ = p.cmd.Process.Kill()
		_, _ = p.cmd.Process.Wait()
	}
}

func (p *Proc) Close() {
	p.mu.Lock()
	defer p.mu.Unlock()
	if p.Dead {
		return
	}
	_ = p.in.Close()
	done := make(chan struct{})
	go func() { _ = p.cmd.Wait(); close(done) }()
	select {
	case <-done:
	case <-time.After(5 * time.Second):
		p.kill()
	}
	p.Dead = true
}

func (p *Proc) Stderr() string { return p.errb.String() }

func headTail(s string, n int) string {
	if len(s) <= 2*n {
		return s
	}
	return s[:n] + " …… " + s[len(s)-n:]
}

func tailStr(s string, n int) string {
	if len(s) > n {
		return s[len(s)-n:]
	}
	return s
}
