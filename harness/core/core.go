// Package core is the shared machinery of the vcheck orchestrator: scratch
// management, evidence files, known findings, verdict/exit-code discipline.
package core

import (
	"encoding/json"
	"fmt"
	"os"
	"path/filepath"
	"regexp"
	"sort"
	"strconv"
	"strings"
	"sync"
	"time"
)

const VerifDir = "/verif"

// RepoDir is the tree under test. It is /repo for every registered command; the
// environment variable VERIF_REPO points it at a scratch worktree when a
// deliberately broken copy is being tried out (mutation experiments), so that
// /repo itself is never edited while other checks are building from it.
var RepoDir = func() string {
	if d := os.Getenv("VERIF_REPO"); d != "" {
		return d
	}
	return "/repo"
}()

// OutDir is where evidence and replay files go: /verif, except in mutation
// experiments (VERIF_REPO set), whose output must not clobber real evidence.
func OutDir() string {
	if os.Getenv("VERIF_REPO") != "" {
		d := filepath.Join(os.TempDir(), "verif-mut-out-"+filepath.Base(RepoDir))
		_ = os.MkdirAll(d, 0o755)
		return d
	}
	return VerifDir
}

// CheckFunc runs one property check. A returned error means "inconclusive"
// (tool failure, exit 2); violations are recorded with Ctx.Violate.
type CheckFunc func(c *Ctx) error

type Check struct {
	ID    string
	Level string // evidence level: model_checking, ...
	Run   CheckFunc
}

var registry = map[string]Check{}

func Register(id, level string, f CheckFunc) {
	registry[id] = Check{ID: id, Level: level, Run: f}
}

func Registered() []string {
	var ids []string
	for k := range registry {
		ids = append(ids, k)
	}
	sort.Strings(ids)
	return ids
}

type Violation struct {
	Key    string `json:"key"`  // specific identity of the failing input / call site / history
	What   string `json:"what"` // human description
	Replay any    `json:"replay,omitempty"`
	path   string
}

// Ctx is handed to every check.
type Ctx struct {
	Prop    string
	Tier    string // quick | thorough
	Seed    int64
	Scratch string // removed on exit
	Replay  string // non-empty: path of a replay file to re-run

	mu         sync.Mutex
	start      time.Time
	level      string
	cov        map[string]any
	samples    []any
	assume     []string
	violations []Violation
	notes      []string
}

func (c *Ctx) Thorough() bool { return c.Tier == "thorough" }

// Pick returns q in the quick tier and t in the thorough tier.
func (c *Ctx) Pick(q, t int) int {
	if c.Thorough() {
		return t
	}
	return q
}

func (c *Ctx) Logf(format string, a ...any) {
	fmt.Fprintf(os.Stderr, "[%s %6.1fs] %s\n", c.Prop, time.Since(c.start).Seconds(), fmt.Sprintf(format, a...))
}

// Add adds n to an integer coverage counter.
func (c *Ctx) Add(key string, n int) {
	c.mu.Lock()
	defer c.mu.Unlock()
	v, _ := c.cov[key].(int)
	c.cov[key] = v + n
}

func (c *Ctx) Get(key string) int {
	c.mu.Lock()
	defer c.mu.Unlock()
	v, _ := c.cov[key].(int)
	return v
}

// Set stores an arbitrary coverage value.
func (c *Ctx) Set(key string, v any) {
	c.mu.Lock()
	defer c.mu.Unlock()
	c.cov[key] = v
}

// Sample records an example case (at most 12 are kept).
func (c *Ctx) Sample(v any) {
	c.mu.Lock()
	defer c.mu.Unlock()
	if len(c.samples) < 12 {
		c.samples = append(c.samples, v)
	}
}

func (c *Ctx) Assume(s string) {
	c.mu.Lock()
	defer c.mu.Unlock()
	for _, a := range c.assume {
		if a == s {
			return
		}
	}
	c.assume = append(c.assume, s)
}

// Violate records a reproduced mismatch between the real code and the
// specification. key must identify the concrete failing input class.
func (c *Ctx) Violate(key, what string, replay any) {
	c.mu.Lock()
	defer c.mu.Unlock()
	for _, v := range c.violations {
		if v.Key == key {
			return
		}
	}
	if len(c.violations) < 200 {
		c.violations = append(c.violations, Violation{Key: key, What: what, Replay: replay})
	}
}

func (c *Ctx) NViolations() int {
	c.mu.Lock()
	defer c.mu.Unlock()
	return len(c.violations)
}

// ---------------------------------------------------------------------------
// known findings

type KnownFinding struct {
	Property string `json:"property"`
	Match    string `json:"match"` // regexp on the violation key
	What     string `json:"what"`
}

type KnownFile struct {
	Findings []KnownFinding `json:"findings"`
	Fixed    []string       `json:"fixed"`
}

func loadKnown() KnownFile {
	var k KnownFile
	b, err := os.ReadFile(filepath.Join(VerifDir, "known-findings.json"))
	if err == nil {
		_ = json.Unmarshal(b, &k)
	}
	return k
}

// ---------------------------------------------------------------------------

func envInt(name string, def int64) int64 {
	if s := os.Getenv(name); s != "" {
		if v, err := strconv.ParseInt(s, 10, 64); err == nil {
			return v
		}
	}
	return def
}

// Main runs one registered check and implements the exit-code contract:
// 0 held (possibly with KNOWN-FINDING lines), 1 violation, 2 inconclusive.
func Main(prop, tier, replay string) int {
	ch, ok := registry[prop]
	if !ok {
		fmt.Fprintf(os.Stderr, "unknown property %s; registered: %v\n", prop, Registered())
		return 2
	}
	if t := os.Getenv("VERIF_TIER"); t != "" && tier == "" {
		tier = t
	}
	if tier == "" {
		tier = "quick"
	}
	scratch, err := os.MkdirTemp("", "verif-"+prop+"-")
	if err != nil {
		fmt.Fprintln(os.Stderr, err)
		return 2
	}
	c := &Ctx{Prop: prop, Tier: tier, Seed: envInt("VERIF_SEED", 1), Scratch: scratch, Replay: replay,
		start: time.Now(), level: ch.Level, cov: map[string]any{}}
	if os.Getenv("VERIF_KEEP") == "" {
		defer os.RemoveAll(scratch)
	} else {
		c.Logf("keeping scratch %s", scratch)
	}

	var runErr error
	func() {
		defer func() {
			if r := recover(); r != nil {
				runErr = fmt.Errorf("harness panic: %v", r)
			}
		}()
		runErr = ch.Run(c)
	}()

	known := loadKnown()
	var fresh []Violation
	hits := map[int]int{}
	first := map[int]string{}
	for _, v := range c.violations {
		matched := false
		for ki, k := range known.Findings {
			if k.Property != prop {
				continue
			}
			if re, err := regexp.Compile(k.Match); err == nil && re.MatchString(v.Key) {
				if hits[ki] == 0 {
					first[ki] = v.Key
				}
				hits[ki]++
				matched = true
				break
			}
		}
		if !matched {
			fresh = append(fresh, v)
		}
	}
	for ki, k := range known.Findings {
		if hits[ki] > 0 {
			fmt.Printf("KNOWN-FINDING: property=%s %s [%d case(s) this run, e.g. %s]\n", prop, k.What, hits[ki], oneLine(first[ki], 160))
		}
	}
	// de-duplicate KNOWN-FINDING noise is not needed: keys are unique.

	for i := range fresh {
		dir := filepath.Join(OutDir(), "replays", prop)
		_ = os.MkdirAll(dir, 0o755)
		name := sanitize(fresh[i].Key)
		if len(name) > 80 {
			name = name[:80]
		}
		p := filepath.Join(dir, fmt.Sprintf("%s-%d.json", name, i))
		b, _ := json.MarshalIndent(map[string]any{"property": prop, "key": fresh[i].Key, "what": fresh[i].What,
			"tier": tier, "seed": c.Seed, "replay": fresh[i].Replay}, "", " ")
		_ = os.WriteFile(p, b, 0o644)
		fresh[i].path = p
	}

	if err := c.writeEvidence(len(fresh), runErr); err != nil {
		fmt.Fprintln(os.Stderr, "evidence:", err)
		if runErr == nil {
			runErr = err
		}
	}
	if len(fresh) > 0 {
		for _, v := range fresh {
			fmt.Printf("VIOLATION property=%s replay=%s\n", prop, v.path)
			fmt.Printf("  detail: %s: %s\n", v.Key, oneLine(v.What, 400))
		}
		return 1
	}
	if runErr != nil {
		fmt.Fprintf(os.Stderr, "INCONCLUSIVE property=%s: %v\n", prop, runErr)
		return 2
	}
	fmt.Printf("OK property=%s tier=%s seed=%d wall=%.1fs\n", prop, tier, c.Seed, time.Since(c.start).Seconds())
	return 0
}

func oneLine(s string, n int) string {
	s = strings.ReplaceAll(s, "\n", " ")
	if len(s) > n {
		s = s[:n] + "…"
	}
	return s
}

var nonWord = regexp.MustCompile(`[^A-Za-z0-9_.-]+`)

func sanitize(s string) string { return nonWord.ReplaceAllString(s, "_") }

func (c *Ctx) writeEvidence(nviol int, runErr error) error {
	cov := map[string]any{}
	for k, v := range c.cov {
		cov[k] = v
	}
	if len(c.samples) == 0 {
		c.samples = []any{"(no sample recorded)"}
	}
	cov["samples"] = c.samples
	for _, k := range []string{"states", "transitions", "traces_validated_against_impl", "evaluations", "distinct_nontrivial"} {
		if _, ok := cov[k]; !ok {
			cov[k] = 0
		}
	}
	if _, ok := cov["rule"]; !ok {
		cov["rule"] = "see DESIGN.md section 7 for " + c.Prop
	}
	ev := map[string]any{
		"property_id": c.Prop,
		"tier":        c.Tier,
		"seed":        c.Seed,
		"level":       c.level,
		"coverage":    cov,
		"assumptions": c.assume,
		"wall_s":      time.Since(c.start).Seconds(),
		"violations":  nviol,
	}
	if runErr != nil {
		ev["inconclusive"] = runErr.Error()
	}
	if c.assume == nil {
		ev["assumptions"] = []string{}
	}
	b, err := json.MarshalIndent(ev, "", " ")
	if err != nil {
		return err
	}
	dir := filepath.Join(OutDir(), "evidence")
	_ = os.MkdirAll(dir, 0o755)
	return os.WriteFile(filepath.Join(dir, c.Prop+".json"), b, 0o644)
}
