package core

import (
	"bufio"
	"bytes"
	"context"
	"encoding/json"
	"fmt"
	"io"
	"os"
	"os/exec"
	"path/filepath"
	"regexp"
	"strconv"
	"strings"
	"sync/atomic"
	"time"
)

const tlaCP = "/opt/veriftools/tla/tla2tools.jar:/opt/veriftools/tla/CommunityModules-deps.jar"

type TLCOpts struct {
	Module   string            // module name (file Module.tla in spec dir)
	Cfg      string            // config file name (in spec dir) or "" when CfgText is given
	CfgText  string            // literal config contents
	Files    map[string][]byte // extra files placed next to the spec (corpus, traces)
	Workers  int               // default 8
	Simulate string            // e.g. "num=200" ; empty => exhaustive BFS
	Depth    int               // simulation depth
	Seed     int64             // -seed for simulation
	DumpDot  bool              // -dump dot,actionlabels
	Coverage bool
	DFS      bool // StateDeque queue (trace validation with unlogged variables)
	Timeout  time.Duration
	HeapMB   int
	// OnEmit, when set, receives each emitted payload instead of it being stored.
	OnEmit func(payload json.RawMessage)
	// Consts substitutes @NAME@ placeholders in CfgText / cfg file.
	Consts map[string]string
}

type TLCResult struct {
	Generated   int
	Distinct    int
	Depth       int
	Emits       []json.RawMessage
	NEmits      int
	ExitCode    int
	OK          bool   // TLC finished without reporting any error
	ErrorKind   string // "invariant", "postcondition", "deadlock", "liveness", "assume", "other"
	ErrorText   string
	Tail        string
	Dot         string // path of dumped dot file
	Dir         string
	ActionCover map[string]int // action name -> distinct states found through it (with Coverage)
	Wall        time.Duration
}

var tlcRunSeq int64

var (
	reStates = regexp.MustCompile(`(\d+) states generated, (\d+) distinct states found`)
	reDepth  = regexp.MustCompile(`depth of the complete state graph search is (\d+)`)
	reSimGen = regexp.MustCompile(`(\d+) states checked`)
	reCover  = regexp.MustCompile(`^<(\w+) line \d+, col \d+ to line \d+, col \d+ of module (\w+)>: (\d+):(\d+)`)
)

// SpecDir is where the TLA+ modules live.
func SpecDir() string { return filepath.Join(VerifDir, "spec") }

// TLC runs the model checker in a scratch copy of the spec directory.
func (c *Ctx) TLC(o TLCOpts) (*TLCResult, error) {
	n := atomic.AddInt64(&tlcRunSeq, 1)
	dir := filepath.Join(c.Scratch, fmt.Sprintf("tlc%d", n))
	if err := os.MkdirAll(dir, 0o755); err != nil {
		return nil, err
	}
	ents, err := os.ReadDir(SpecDir())
	if err != nil {
		return nil, err
	}
	for _, e := range ents {
		if e.IsDir() {
			continue
		}
		if strings.HasSuffix(e.Name(), ".tla") || strings.HasSuffix(e.Name(), ".cfg") {
			b, err := os.ReadFile(filepath.Join(SpecDir(), e.Name()))
			if err != nil {
				return nil, err
			}
			if err := os.WriteFile(filepath.Join(dir, e.Name()), b, 0o644); err != nil {
				return nil, err
			}
		}
	}
	for name, b := range o.Files {
		if err := os.WriteFile(filepath.Join(dir, name), b, 0o644); err != nil {
			return nil, err
		}
	}
	cfg := o.Cfg
	if o.CfgText != "" {
		cfg = fmt.Sprintf("_run%d.cfg", n)
		if err := os.WriteFile(filepath.Join(dir, cfg), []byte(o.CfgText), 0o644); err != nil {
			return nil, err
		}
	}
	if len(o.Consts) > 0 {
		b, err := os.ReadFile(filepath.Join(dir, cfg))
		if err != nil {
			return nil, err
		}
		s := string(b)
		for k, v := range o.Consts {
			s = strings.ReplaceAll(s, "@"+k+"@", v)
		}
		cfg = fmt.Sprintf("_run%d.cfg", n)
		if err := os.WriteFile(filepath.Join(dir, cfg), []byte(s), 0o644); err != nil {
			return nil, err
		}
	}
	if o.Workers == 0 {
		o.Workers = 8
	}
	if o.Timeout == 0 {
		o.Timeout = 10 * time.Minute
	}
	if o.HeapMB == 0 {
		o.HeapMB = 4096
	}
	args := []string{"-XX:+UseParallelGC", fmt.Sprintf("-Xmx%dm", o.HeapMB), "-Xss64m", "-Djava.io.tmpdir=" + dir}
	if o.DFS {
		args = append(args, "-Dtlc2.tool.queue.IStateQueue=StateDeque")
	}
	args = append(args, "-cp", tlaCP, "tlc2.TLC", "-workers", strconv.Itoa(o.Workers),
		"-metadir", filepath.Join(dir, "meta"), "-config", cfg, "-noGenerateSpecTE")
	if o.Simulate != "" {
		args = append(args, "-simulate", o.Simulate)
		if o.Depth > 0 {
			args = append(args, "-depth", strconv.Itoa(o.Depth))
		}
		args = append(args, "-seed", strconv.FormatInt(o.Seed, 10))
	}
	res := &TLCResult{Dir: dir, ActionCover: map[string]int{}}
	if o.DumpDot {
		res.Dot = filepath.Join(dir, "graph.dot")
		args = append(args, "-dump", "dot,actionlabels", filepath.Join(dir, "graph"))
	}
	if o.Coverage {
		args = append(args, "-coverage", "1")
	}
	args = append(args, o.Module+".tla")

	ctx, cancel := context.WithTimeout(context.Background(), o.Timeout)
	defer cancel()
	cmd := exec.CommandContext(ctx, "java", args...)
	cmd.Dir = dir
	cmd.Env = append(os.Environ(), "JAVA_TOOL_OPTIONS=")
	stdout, err := cmd.StdoutPipe()
	if err != nil {
		return nil, err
	}
	cmd.Stderr = cmd.Stdout
	t0 := time.Now()
	if err := cmd.Start(); err != nil {
		return nil, err
	}
	var tail []string
	var errText bytes.Buffer
	inErr := false
	rd := bufio.NewReaderSize(stdout, 1<<20)
	for {
		line, err := rd.ReadString('\n')
		if len(line) > 0 {
			l := strings.TrimRight(line, "\r\n")
			if strings.HasPrefix(l, `"[\"@@\",`) {
				// PrintT(ToJson(<<"@@", payload>>)) : a TLA+ string literal holding JSON
				var s string
				if jerr := json.Unmarshal([]byte(l), &s); jerr == nil {
					var arr []json.RawMessage
					if jerr := json.Unmarshal([]byte(s), &arr); jerr == nil && len(arr) == 2 {
						res.NEmits++
						if o.OnEmit != nil {
							o.OnEmit(arr[1])
						} else {
							res.Emits = append(res.Emits, arr[1])
						}
						goto next
					}
				}
				errText.WriteString("unparsable emit line: " + oneLine(l, 300) + "\n")
				goto next
			}
			if m := reStates.FindStringSubmatch(l); m != nil {
				res.Generated, _ = strconv.Atoi(m[1])
				res.Distinct, _ = strconv.Atoi(m[2])
			}
			if m := reDepth.FindStringSubmatch(l); m != nil {
				res.Depth, _ = strconv.Atoi(m[1])
			}
			if m := reSimGen.FindStringSubmatch(l); m != nil && o.Simulate != "" {
				res.Generated, _ = strconv.Atoi(m[1])
			}
			if m := reCover.FindStringSubmatch(l); m != nil {
				d, _ := strconv.Atoi(m[4])
				res.ActionCover[m[1]] += d
			}
			if strings.HasPrefix(l, "Error:") {
				inErr = true
			}
			if inErr && errText.Len() < 8000 {
				errText.WriteString(l + "\n")
			}
			tail = append(tail, l)
			if len(tail) > 60 {
				tail = tail[1:]
			}
		}
	next:
		if err != nil {
			if err != io.EOF {
				errText.WriteString("read: " + err.Error())
			}
			break
		}
	}
	werr := cmd.Wait()
	res.Wall = time.Since(t0)
	res.Tail = strings.Join(tail, "\n")
	res.ErrorText = errText.String()
	if ctx.Err() != nil {
		return res, fmt.Errorf("TLC %s/%s timed out after %v", o.Module, cfg, o.Timeout)
	}
	if werr != nil {
		if ee, ok := werr.(*exec.ExitError); ok {
			res.ExitCode = ee.ExitCode()
		} else {
			return res, werr
		}
	}
	et := res.ErrorText
	switch {
	case res.ExitCode == 0 && et == "":
		res.OK = true
	case strings.Contains(et, "Invariant") && strings.Contains(et, "is violated"):
		res.ErrorKind = "invariant"
	case strings.Contains(et, "Action property") && strings.Contains(et, "is violated"):
		res.ErrorKind = "invariant"
	case strings.Contains(et, "Postcondition") || strings.Contains(et, "POSTCONDITION") || strings.Contains(et, "postcondition"):
		res.ErrorKind = "postcondition"
	case strings.Contains(et, "Deadlock reached"):
		res.ErrorKind = "deadlock"
	case strings.Contains(et, "Temporal properties were violated"):
		res.ErrorKind = "liveness"
	case strings.Contains(et, "Assumption"):
		res.ErrorKind = "assume"
	default:
		res.ErrorKind = "other"
	}
	return res, nil
}

// MustTLC runs TLC and converts any model-level failure into an error
// (a counterexample inside the model alone is a specification bug, exit 2).
func (c *Ctx) MustTLC(o TLCOpts) (*TLCResult, error) {
	r, err := c.TLC(o)
	if err != nil {
		if r != nil {
			return r, fmt.Errorf("%v\n%s", err, r.Tail)
		}
		return r, err
	}
	if !r.OK {
		return r, fmt.Errorf("TLC %s (%s) failed: kind=%s exit=%d\n%s\n-- tail --\n%s", o.Module, o.Cfg, r.ErrorKind, r.ExitCode, r.ErrorText, lastLines(r.Tail, 25))
	}
	return r, nil
}

func lastLines(s string, n int) string {
	ls := strings.Split(s, "\n")
	if len(ls) > n {
		ls = ls[len(ls)-n:]
	}
	return strings.Join(ls, "\n")
}

// ---------------------------------------------------------------------------
// dot graph with action labels

type Edge struct {
	From, To int
	Action   string
}

type Graph struct {
	Labels []string // node label (TLA+ state text)
	Init   []int
	Edges  []Edge
	idx    map[string]int
}

var (
	reNode = regexp.MustCompile(`^(-?\d+) \[label="((?:[^"\\]|\\.)*)"(.*)\]`)
	reEdge = regexp.MustCompile(`^(-?\d+) -> (-?\d+) \[label="([^"]*)"`)
)

// ParseDot reads TLC's `-dump dot,actionlabels` output.
func ParseDot(path string) (*Graph, error) {
	f, err := os.Open(path)
	if err != nil {
		return nil, err
	}
	defer f.Close()
	g := &Graph{idx: map[string]int{}}
	sc := bufio.NewScanner(f)
	sc.Buffer(make([]byte, 1<<20), 1<<26)
	id := func(s string) int {
		if i, ok := g.idx[s]; ok {
			return i
		}
		g.idx[s] = len(g.Labels)
		g.Labels = append(g.Labels, "")
		return len(g.Labels) - 1
	}
	for sc.Scan() {
		l := sc.Text()
		if m := reEdge.FindStringSubmatch(l); m != nil {
			g.Edges = append(g.Edges, Edge{From: id(m[1]), To: id(m[2]), Action: m[3]})
			continue
		}
		if m := reNode.FindStringSubmatch(l); m != nil {
			i := id(m[1])
			g.Labels[i] = unescapeDot(m[2])
			if strings.Contains(m[3], "style = filled") {
				g.Init = append(g.Init, i)
			}
		}
	}
	return g, sc.Err()
}

func unescapeDot(s string) string {
	s = strings.ReplaceAll(s, `\n`, "\n")
	s = strings.ReplaceAll(s, `\"`, `"`)
	s = strings.ReplaceAll(s, `\\`, `\`)
	return s
}

// VarString extracts the value of a string-valued variable `name` from a dot
// node label (`/\ name = "..."`), undoing TLA+ string escapes.
func VarString(label, name string) (string, bool) {
	for _, ln := range strings.Split(label, "\n") {
		ln = strings.TrimSpace(ln)
		ln = strings.TrimPrefix(ln, "/\\ ")
		if strings.HasPrefix(ln, name+" = ") {
			v := strings.TrimPrefix(ln, name+" = ")
			var s string
			if err := json.Unmarshal([]byte(v), &s); err == nil {
				return s, true
			}
			return v, true
		}
	}
	return "", false
}

// ShortestPaths returns for every node the list of edge indices of a shortest
// path from an initial node (BFS); unreachable nodes get nil and ok=false.
func (g *Graph) ShortestPaths() (paths [][]int, reach []bool) {
	n := len(g.Labels)
	adj := make([][]int, n)
	for i, e := range g.Edges {
		adj[e.From] = append(adj[e.From], i)
	}
	prev := make([]int, n)
	reach = make([]bool, n)
	for i := range prev {
		prev[i] = -1
	}
	var q []int
	for _, i := range g.Init {
		reach[i] = true
		q = append(q, i)
	}
	for len(q) > 0 {
		u := q[0]
		q = q[1:]
		for _, ei := range adj[u] {
			v := g.Edges[ei].To
			if !reach[v] {
				reach[v] = true
				prev[v] = ei
				q = append(q, v)
			}
		}
	}
	paths = make([][]int, n)
	for v := 0; v < n; v++ {
		if !reach[v] {
			continue
		}
		var p []int
		for u := v; prev[u] >= 0; u = g.Edges[prev[u]].From {
			p = append(p, prev[u])
		}
		for i, j := 0, len(p)-1; i < j; i, j = i+1, j-1 {
			p[i], p[j] = p[j], p[i]
		}
		paths[v] = p
	}
	return
}
