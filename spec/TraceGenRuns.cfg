INIT TraceInit
NEXT TraceNext
POSTCONDITION TraceAccepted
CHECK_DEADLOCK FALSE
