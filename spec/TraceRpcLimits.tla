--------------------------- MODULE TraceRpcLimits ---------------------------
(***************************************************************************)
(* Trace validation (code -> spec) of the server's worker and request-     *)
(* memory limits (C39) on recorded bursts.                                 *)
(*                                                                         *)
(* This is the projection of RpcCalls on the handlers: run = the requests  *)
(* whose handler is executing (RpcCalls: srv[id].st = "run").  A handler   *)
(* can only be entered after AcquireMem and GetWorker of its request and   *)
(* before SendResponse released them, so at every HandlerEnter             *)
(*    WorkerAvailable(|run|, 0, MaxWorkers)  and                           *)
(*    MemAdmits(sum of takes of run, take of the new request, MemLimit)    *)
(* must hold with the operators of RpcLimits that guard GetWorker and      *)
(* AcquireMem in RpcCalls (invariants WorkerBound and MemBound there; TLC  *)
(* checks them on MC_RpcCalls with the same MaxWorkers and number of       *)
(* memory slots).  The events carry the handler-side counter and samples   *)
(* of the server's own accounting (Server.RequestsMemory), both taken      *)
(* under the recorder's mutex: every handler counted in `run` holds its    *)
(* request memory at that moment, hence  held(run) <= sample <= MemLimit.  *)
(* At the end every request of the burst must have been answered "ok" with *)
(* its own payload: excess load waits, it is not dropped.                  *)
(*                                                                         *)
(* AbortedWait: a request whose caller gave up (`drop`: its client was      *)
(* closed while the request waited for request memory) never enters a      *)
(* handler; when the server tears its connection down (`abort`) the wait   *)
(* is aborted and, by HeldAfterAbort of RpcLimits (RpcCalls: RecvAbort),   *)
(* nothing is given back to the semaphore: the accounted memory sampled at *)
(* that moment and later still covers every running handler, and requests  *)
(* admitted afterwards are still subject to MemAdmits.                     *)
(*                                                                         *)
(* HandleInline: with MaxWorkers = 0 the handler runs on the connection's  *)
(* receive goroutine; the bound is then the number of connections.         *)
(***************************************************************************)
EXTENDS Integers, Sequences, FiniteSets, TLC, Json, RpcLimits

CONSTANTS MaxWorkers, MemLimit, BufSize, Conns, HdrLen

Trace == ndJsonDeserialize("trace.ndjson")

VARIABLES l, started, run, take, done, returned, dropped, aborted

vars == <<l, started, run, take, done, returned, dropped, aborted>>

TInit == /\ l = 1 /\ started = {} /\ run = {} /\ take = <<>> /\ done = {} /\ returned = {}
         /\ dropped = {} /\ aborted = {} /\ TLCSet(1, 0)

RECURSIVE Sum(_, _)
Sum(f, S) == IF S = {} THEN 0 ELSE LET x == CHOOSE x \in S : TRUE IN f[x] + Sum(f, S \ {x})
Held(S) == Sum(take, S)

Cap == IF MaxWorkers > 0 THEN MaxWorkers ELSE Conns

PStart(e) == /\ e.id \notin started /\ started' = started \cup {e.id}
             /\ UNCHANGED <<run, take, done, returned, dropped, aborted>>

PEnter(e) ==
  LET t == TakeOf(e.len + HdrLen, BufSize) IN
  /\ e.id \in started /\ e.id \notin run /\ e.id \notin done /\ e.id \notin aborted
  /\ WorkerAvailable(Cardinality(run), 0, Cap)                  \* Running < MaxWorkers
  /\ MemAdmits(Held(run), t, MemLimit)                          \* (handlers running) x taken <= limit
  /\ run' = run \cup {e.id}
  /\ take' = (e.id :> t) @@ take
  /\ e.running = Cardinality(run')                              \* handler-side counter
  /\ e.mem >= Held(run) + t /\ e.mem <= MemLimit                \* server-side accounted memory
  /\ e.limit = MemLimit
  /\ e.workers <= (IF MaxWorkers > 0 THEN MaxWorkers ELSE 1)
  /\ UNCHANGED <<started, done, returned, dropped, aborted>>

PExit(e) ==
  /\ e.id \in run /\ e.out = "ok"
  /\ run' = run \ {e.id} /\ done' = done \cup {e.id}
  /\ e.running = Cardinality(run')
  /\ e.mem >= Held(run) /\ e.mem <= MemLimit                    \* released only after the handler
  /\ UNCHANGED <<started, take, returned, dropped, aborted>>

PSample(e) ==
  /\ e.running = Cardinality(run)
  /\ e.mem >= Held(run) /\ e.mem <= MemLimit
  /\ UNCHANGED <<started, run, take, done, returned, dropped, aborted>>

PRet(e) ==
  /\ e.id \notin returned
  /\ IF e.id \in dropped
     THEN e.id \notin done /\ e.res = "closedSE"                 \* the caller closed its client while the request waited
     ELSE e.id \in done /\ e.res = "ok" /\ e.got = e.id          \* served, with its own payload, no error
  /\ returned' = returned \cup {e.id}
  /\ UNCHANGED <<started, run, take, done, dropped, aborted>>

(* the caller abandons a request that has not reached a handler *)
PDrop(e) ==
  /\ e.id \in started /\ e.id \notin run /\ e.id \notin done
  /\ dropped' = dropped \cup {e.id}
  /\ UNCHANGED <<started, run, take, done, returned, aborted>>

(* the server has torn down the connection of a dropped request: its wait for memory is aborted *)
PAbort(e) ==
  /\ e.id \in dropped /\ e.id \notin aborted
  /\ aborted' = aborted \cup {e.id}
  /\ e.running = Cardinality(run)
  /\ e.mem >= HeldAfterAbort(Held(run), TakeOf(HdrLen, BufSize)) /\ e.mem <= MemLimit
  /\ UNCHANGED <<started, run, take, done, returned, dropped>>

PEnd == /\ returned = started /\ run = {}
        /\ UNCHANGED <<started, run, take, done, returned, dropped, aborted>>

Mark(n) == TLCSet(1, IF n > TLCGet(1) THEN n ELSE TLCGet(1))

TNext ==
  /\ l <= Len(Trace)
  /\ LET e == Trace[l] IN
       \/ e.ev = "start" /\ PStart(e)
       \/ e.ev = "enter" /\ PEnter(e)
       \/ e.ev = "exit" /\ PExit(e)
       \/ e.ev = "sample" /\ PSample(e)
       \/ e.ev = "ret" /\ PRet(e)
       \/ e.ev = "drop" /\ PDrop(e)
       \/ e.ev = "abort" /\ PAbort(e)
       \/ e.ev \in {"close", "closed", "shutdown"} /\ UNCHANGED <<started, run, take, done, returned, dropped, aborted>>
       \/ e.ev = "end" /\ PEnd
  /\ Mark(l)
  /\ l' = l + 1

Accepted == IF TLCGet(1) = Len(Trace) THEN TRUE
            ELSE PrintT(<<"@HW", TLCGet(1), Len(Trace)>>) /\ FALSE

(* the invariants of RpcCalls, on the projection *)
WorkerBoundP == Cardinality(run) <= Cap
MemBoundP == Held(run) <= MemLimit
=============================================================================
