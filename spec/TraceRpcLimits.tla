--------------------------- MODULE TraceRpcLimits ---------------------------
(***************************************************************************)
(* Trace validation (code -> spec) of the server's worker and request-     *)
(* memory limits (C39) on recorded bursts.                                 *)
(*                                                                         *)
(* This is the projection of RpcCalls on the handlers: run = the requests  *)
(* whose handler is executing (RpcCalls: srv[id].st = "run").  A handler   *)
(* can only be entered after AcquireMem and GetWorker of its request and   *)
(* before SendResponse released them, so at every HandlerEnter             *)
(*    WorkerAvailable(|run|, 0, MaxWorkers)  and                           *)
(*    MemAdmits(sum of takes of run, take of the new request, MemLimit)    *)
(* must hold with the operators of RpcLimits that guard GetWorker and      *)
(* AcquireMem in RpcCalls (invariants WorkerBound and MemBound there; TLC  *)
(* checks them on MC_RpcCalls with the same MaxWorkers and number of       *)
(* memory slots).  The events carry the handler-side counter and samples   *)
(* of the server's own accounting (Server.RequestsMemory), both taken      *)
(* under the recorder's mutex: every handler counted in `run` holds its    *)
(* request memory at that moment, hence  held(run) <= sample <= MemLimit.  *)
(* At the end every request of the burst must have been answered "ok" with *)
(* its own payload: excess load waits, it is not dropped.                  *)
(*                                                                         *)
(* HandleInline: with MaxWorkers = 0 the handler runs on the connection's  *)
(* receive goroutine; the bound is then the number of connections.         *)
(***************************************************************************)
EXTENDS Integers, Sequences, FiniteSets, TLC, Json, RpcLimits

CONSTANTS MaxWorkers, MemLimit, BufSize, Conns, HdrLen

Trace == ndJsonDeserialize("trace.ndjson")

VARIABLES l, started, run, take, done, returned

vars == <<l, started, run, take, done, returned>>

TInit == l = 1 /\ started = {} /\ run = {} /\ take = <<>> /\ done = {} /\ returned = {} /\ TLCSet(1, 0)

RECURSIVE Sum(_, _)
Sum(f, S) == IF S = {} THEN 0 ELSE LET x == CHOOSE x \in S : TRUE IN f[x] + Sum(f, S \ {x})
Held(S) == Sum(take, S)

Cap == IF MaxWorkers > 0 THEN MaxWorkers ELSE Conns

PStart(e) == /\ e.id \notin started /\ started' = started \cup {e.id}
             /\ UNCHANGED <<run, take, done, returned>>

PEnter(e) ==
  LET t == TakeOf(e.len + HdrLen, BufSize) IN
  /\ e.id \in started /\ e.id \notin run /\ e.id \notin done
  /\ WorkerAvailable(Cardinality(run), 0, Cap)                  \* Running < MaxWorkers
  /\ MemAdmits(Held(run), t, MemLimit)                          \* (handlers running) x taken <= limit
  /\ run' = run \cup {e.id}
  /\ take' = (e.id :> t) @@ take
  /\ e.running = Cardinality(run')                              \* handler-side counter
  /\ e.mem >= Held(run) + t /\ e.mem <= MemLimit                \* server-side accounted memory
  /\ e.limit = MemLimit
  /\ e.workers <= (IF MaxWorkers > 0 THEN MaxWorkers ELSE 1)
  /\ UNCHANGED <<started, done, returned>>

PExit(e) ==
  /\ e.id \in run /\ e.out = "ok"
  /\ run' = run \ {e.id} /\ done' = done \cup {e.id}
  /\ e.running = Cardinality(run')
  /\ e.mem >= Held(run) /\ e.mem <= MemLimit                    \* released only after the handler
  /\ UNCHANGED <<started, take, returned>>

PSample(e) ==
  /\ e.running = Cardinality(run)
  /\ e.mem >= Held(run) /\ e.mem <= MemLimit
  /\ UNCHANGED <<started, run, take, done, returned>>

PRet(e) ==
  /\ e.id \in done /\ e.id \notin returned
  /\ e.res = "ok" /\ e.got = e.id                               \* served, with its own payload, no error
  /\ returned' = returned \cup {e.id}
  /\ UNCHANGED <<started, run, take, done>>

PEnd == /\ returned = started /\ run = {}
        /\ UNCHANGED <<started, run, take, done, returned>>

Mark(n) == TLCSet(1, IF n > TLCGet(1) THEN n ELSE TLCGet(1))

TNext ==
  /\ l <= Len(Trace)
  /\ LET e == Trace[l] IN
       \/ e.ev = "start" /\ PStart(e)
       \/ e.ev = "enter" /\ PEnter(e)
       \/ e.ev = "exit" /\ PExit(e)
       \/ e.ev = "sample" /\ PSample(e)
       \/ e.ev = "ret" /\ PRet(e)
       \/ e.ev \in {"close", "closed"} /\ UNCHANGED <<started, run, take, done, returned>>
       \/ e.ev = "end" /\ PEnd
  /\ Mark(l)
  /\ l' = l + 1

Accepted == IF TLCGet(1) = Len(Trace) THEN TRUE
            ELSE PrintT(<<"@HW", TLCGet(1), Len(Trace)>>) /\ FALSE

(* the invariants of RpcCalls, on the projection *)
WorkerBoundP == Cardinality(run) <= Cap
MemBoundP == Held(run) <= MemLimit
=============================================================================
